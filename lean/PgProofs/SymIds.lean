/-
  Identity accounting for the symbolic forest (C01 "one node object never appears in two
  places", C07 disjointness): how `find?`, `updateAt` and the local item-list transformers
  change the multiset of node ids. Counting (`List.count`) is used throughout: it is additive
  over `++`, and `Nodup ↔ every count ≤ 1`.
-/
import PgProofs.SymEval
namespace Pg.Sym

/-! ### find? -/

mutual
  theorem find?_some (id : Nat) : (t : Tree) → ∀ s, t.find? id = some s →
      (∃ m its, s = .node m its ∧ m.id = id) ∧ id ∈ t.ids
    | .leaf _, s, h => by simp [Tree.find?] at h
    | .node m its, s, h => by
      unfold Tree.find? at h
      split at h
      · next heq => cases h; exact ⟨⟨m, its, rfl, heq⟩, by simp [Tree.ids, heq]⟩
      · have := findItems?_some id its s h
        exact ⟨this.1, by simp [Tree.ids, this.2]⟩
  theorem findItems?_some (id : Nat) : (its : Items) → ∀ s, findItems? id its = some s →
      (∃ m xs, s = .node m xs ∧ m.id = id) ∧ id ∈ idsItems its
    | [], s, h => by simp [findItems?] at h
    | (k, c) :: r, s, h => by
      unfold findItems? at h
      split at h
      · next t heq =>
        cases h
        have := find?_some id c _ heq
        exact ⟨this.1, by simp [idsItems, this.2]⟩
      · have := findItems?_some id r s h
        exact ⟨this.1, by simp [idsItems, this.2]⟩
end

mutual
  theorem find?_none (id : Nat) : (t : Tree) → t.find? id = none → id ∉ t.ids
    | .leaf _, _ => by simp [Tree.ids]
    | .node m its, h => by
      unfold Tree.find? at h
      split at h
      · cases h
      · next hne =>
        simp only [Tree.ids, List.mem_cons, not_or]
        exact ⟨fun he => hne he.symm, findItems?_none id its h⟩
  theorem findItems?_none (id : Nat) : (its : Items) → findItems? id its = none → id ∉ idsItems its
    | [], _ => by simp [idsItems]
    | (k, c) :: r, h => by
      unfold findItems? at h
      split at h
      · cases h
      · next hc =>
        simp only [idsItems, List.mem_append, not_or]
        exact ⟨find?_none id c hc, findItems?_none id r h⟩
end

theorem count_pos_of_mem {i : Nat} {l : List Nat} (h : i ∈ l) : 1 ≤ l.count i := by
  have := List.count_pos_iff.mpr h
  omega

theorem not_mem_of_count_zero {i : Nat} {l : List Nat} (h : l.count i = 0) : i ∉ l :=
  List.count_eq_zero.mp h

/-! ### updateAt at the unique occurrence of its target -/

mutual
  theorem updateAt_count (t : Nat) (g : Meta → Items → Items) : (tr : Tree) → tr.ids.count t ≤ 1 →
      (tr.find? t = none → tr.updateAt t g = tr) ∧
      (∀ m its, tr.find? t = some (.node m its) → ∀ i,
        (tr.updateAt t g).ids.count i + (idsItems its).count i = tr.ids.count i + (idsItems (g m its)).count i)
    | .leaf _, _ => by simp [Tree.find?, Tree.updateAt]
    | .node m xs, hc => by
      constructor
      · intro hn
        exact updateAt_noop t g _ (find?_none t _ hn)
      · intro m' its hf i
        unfold Tree.find? at hf
        unfold Tree.updateAt
        split at hf
        · next heq =>
          cases hf
          simp only [heq, if_true, Tree.ids, List.count_cons]
          omega
        · next hne =>
          simp only [hne, if_false, Tree.ids, List.count_cons]
          have hc' : (idsItems xs).count t ≤ 1 := by
            simp only [Tree.ids, List.count_cons] at hc; omega
          have := (updateAtItems_count t g xs hc').2 m' its hf i
          omega
  theorem updateAtItems_count (t : Nat) (g : Meta → Items → Items) : (xs : Items) → (idsItems xs).count t ≤ 1 →
      (findItems? t xs = none → updateAtItems t g xs = xs) ∧
      (∀ m its, findItems? t xs = some (.node m its) → ∀ i,
        (idsItems (updateAtItems t g xs)).count i + (idsItems its).count i =
          (idsItems xs).count i + (idsItems (g m its)).count i)
    | [], _ => by simp [findItems?, updateAtItems]
    | (k, c) :: r, hc => by
      simp only [idsItems, List.count_append] at hc
      have hcc : c.ids.count t ≤ 1 := by omega
      have hcr : (idsItems r).count t ≤ 1 := by omega
      constructor
      · intro hn
        exact updateAtItems_noop t g _ (findItems?_none t _ hn)
      · intro m its hf i
        unfold findItems? at hf
        simp only [updateAtItems, idsItems, List.count_append]
        split at hf
        · next s hs =>
          cases hf
          have hmem := (find?_some t c _ hs).2
          have h1 := count_pos_of_mem hmem
          have hr0 : (idsItems r).count t = 0 := by omega
          rw [updateAtItems_noop t g r (not_mem_of_count_zero hr0)]
          have := (updateAt_count t g c hcc).2 m its hs i
          omega
        · next hs =>
          rw [(updateAt_count t g c hcc).1 hs]
          have := (updateAtItems_count t g r hcr).2 m its hf i
          omega
end

/-! ### forests: roots are a list of trees -/

def idsRoots (rs : List Tree) : List Nat := rs.flatMap Tree.ids

theorem idsRoots_cons (r : Tree) (rs : List Tree) : idsRoots (r :: rs) = r.ids ++ idsRoots rs := by
  simp [idsRoots]

theorem idsRoots_append (a b : List Tree) : idsRoots (a ++ b) = idsRoots a ++ idsRoots b := by
  simp [idsRoots]

theorem Forest.ids_eq (f : Forest) : f.ids = idsRoots f.roots := rfl

theorem roots_find_none (t : Nat) : (rs : List Tree) → rs.findSome? (Tree.find? t) = none → t ∉ idsRoots rs
  | [], _ => by simp [idsRoots]
  | r :: rs, h => by
    simp only [List.findSome?_cons] at h
    split at h
    · cases h
    · next hr =>
      rw [idsRoots_cons]
      simp only [List.mem_append, not_or]
      exact ⟨find?_none t r hr, roots_find_none t rs h⟩

theorem roots_map_noop (t : Nat) (g : Meta → Items → Items) : (rs : List Tree) → t ∉ idsRoots rs →
    rs.map (Tree.updateAt t g) = rs
  | [], _ => rfl
  | r :: rs, h => by
    rw [idsRoots_cons] at h
    simp only [List.mem_append, not_or] at h
    simp only [List.map_cons, updateAt_noop t g r h.1, roots_map_noop t g rs h.2]

theorem roots_update_count (t : Nat) (g : Meta → Items → Items) : (rs : List Tree) → (idsRoots rs).count t ≤ 1 →
    ∀ m its, rs.findSome? (Tree.find? t) = some (.node m its) → ∀ i,
      (idsRoots (rs.map (Tree.updateAt t g))).count i + (idsItems its).count i =
        (idsRoots rs).count i + (idsItems (g m its)).count i
  | [], _, m, its, h, _ => by simp at h
  | r :: rs, hc, m, its, h, i => by
    rw [idsRoots_cons, List.count_append] at hc
    simp only [List.findSome?_cons] at h
    simp only [List.map_cons, idsRoots_cons, List.count_append]
    split at h
    · next s hs =>
      cases h
      have h1 := count_pos_of_mem (find?_some t r _ hs).2
      have hr0 : (idsRoots rs).count t = 0 := by omega
      rw [roots_map_noop t g rs (not_mem_of_count_zero hr0)]
      have := (updateAt_count t g r (by omega)).2 m its hs i
      omega
    · next hs =>
      rw [(updateAt_count t g r (by omega)).1 hs]
      have := roots_update_count t g rs (by omega) m its h i
      omega

/-- **mapAt on a forest without duplicate ids** rewrites exactly the node that `find?` returns. -/
theorem mapAt_count (f : Forest) (t : Nat) (g : Meta → Items → Items) (hc : f.ids.count t ≤ 1)
    (m : Meta) (its : Items) (hfind : f.find? t = some (.node m its)) (i : Nat) :
    (f.mapAt t g).ids.count i + (idsItems its).count i = f.ids.count i + (idsItems (g m its)).count i :=
  roots_update_count t g f.roots hc m its hfind i

end Pg.Sym

namespace Pg.Sym

/-! ### item-list algebra -/

theorem idsItems_append (a b : Items) : idsItems (a ++ b) = idsItems a ++ idsItems b := by
  induction a with
  | nil => rfl
  | cons x xs ih => obtain ⟨k, c⟩ := x; simp [idsItems, ih]

theorem idsItems_perm {a b : Items} (h : a.Perm b) (i : Nat) : (idsItems a).count i = (idsItems b).count i := by
  induction h with
  | nil => rfl
  | cons x _ ih => obtain ⟨k, c⟩ := x; simp [idsItems, List.count_append, ih]
  | swap x y l =>
    obtain ⟨k, c⟩ := x; obtain ⟨k', c'⟩ := y
    simp [idsItems, List.count_append]; omega
  | trans _ _ ih1 ih2 => rw [ih1, ih2]

theorem idsItems_sublist {a b : Items} (h : a.Sublist b) (i : Nat) : (idsItems a).count i ≤ (idsItems b).count i := by
  induction h with
  | slnil => exact Nat.le_refl _
  | cons x _ ih => obtain ⟨k, c⟩ := x; simp [idsItems, List.count_append]; omega
  | cons_cons x _ ih => obtain ⟨k, c⟩ := x; simp [idsItems, List.count_append]; omega

theorem idsItems_mem_le {its : Items} {kv : Key × Tree} (h : kv ∈ its) (i : Nat) :
    kv.2.ids.count i ≤ (idsItems its).count i := by
  induction its with
  | nil => cases h
  | cons x xs ih =>
    obtain ⟨k, c⟩ := x
    simp only [List.mem_cons] at h
    simp only [idsItems, List.count_append]
    rcases h with rfl | h
    · simp
    · have := ih h; omega

/-- ids of the value stored under `k` (none if the key is absent). -/
def slotIds (its : Items) (k : Key) : List Nat := ((getKey its k).map Tree.ids).getD []

theorem getKey_cons (k k' : Key) (c : Tree) (r : Items) :
    getKey ((k', c) :: r) k = if k' = k then some c else getKey r k := by
  unfold getKey
  simp only [List.find?_cons]
  by_cases h : k' = k
  · simp [h]
  · have : (k' == k) = false := by simpa using h
    simp [this, h]

theorem setKey_count (k : Key) (v : Tree) (i : Nat) : (its : Items) →
    (idsItems (setKey k v its)).count i + (slotIds its k).count i = (idsItems its).count i + v.ids.count i
  | [] => by simp [setKey, idsItems, slotIds, getKey]
  | (k', c) :: r => by
    have ih := setKey_count k v i r
    unfold setKey
    simp only [slotIds, getKey_cons] at ih ⊢
    by_cases h : k' = k
    · simp only [h, if_true, idsItems, List.count_append, Option.map_some, Option.getD_some]
      omega
    · simp only [h, if_false, idsItems, List.count_append]
      omega

theorem eraseKey_count (k : Key) (i : Nat) : (its : Items) →
    (idsItems (eraseKey k its)).count i + (slotIds its k).count i = (idsItems its).count i
  | [] => by simp [eraseKey, idsItems, slotIds, getKey]
  | (k', c) :: r => by
    have ih := eraseKey_count k i r
    unfold eraseKey
    simp only [slotIds, getKey_cons] at ih ⊢
    by_cases h : k' = k
    · simp only [h, if_true, idsItems, List.count_append, Option.map_some, Option.getD_some]
      omega
    · simp only [h, if_false, idsItems, List.count_append]
      omega

theorem renumber_count (its : Items) (i : Nat) : (idsItems (renumber its)).count i = (idsItems its).count i := by
  unfold renumber; rw [renumberFrom_ids]

theorem reindex_count (m : Meta) (its : Items) (i : Nat) : (idsItems (reindex m its)).count i = (idsItems its).count i := by
  unfold reindex; rw [setPathItems_ids]

theorem setParent_ids (par : Option Nat) (t : Tree) : (t.setParent par).ids = t.ids := by
  cases t <;> rfl

theorem detachFrom_ids (kind : Kind) (t : Tree) : (detachFrom kind t).ids = t.ids := by
  unfold detachFrom
  cases kind <;> simp [setPath_ids, setParent_ids]

theorem onChangeReindex_ids (m : Meta) : (its : Items) → idsItems (onChangeReindex m its) = idsItems its
  | [] => rfl
  | (k, c) :: r => by
    simp only [onChangeReindex, idsItems, onChangeReindex_ids m r]
    cases c with
    | leaf a => rfl
    | node cm cits =>
      simp only
      split
      · rfl
      · rw [setPath_ids]

theorem listOnChange_count (m : Meta) (its : Items) (i : Nat) :
    (idsItems (listOnChange m its)).count i = (idsItems its).count i := by
  unfold listOnChange
  rw [onChangeReindex_ids, renumber_count, filterMissing_ids]

theorem take_drop_count (n : Nat) (its : Items) (i : Nat) :
    (idsItems (its.take n ++ its.drop n)).count i = (idsItems its).count i := by
  rw [List.take_append_drop]

theorem insertAt_count (n : Nat) (v : Tree) (its : Items) (i : Nat) :
    (idsItems (insertAt n v its)).count i = (idsItems its).count i + v.ids.count i := by
  unfold insertAt
  rw [renumber_count, idsItems_append, idsItems_append, List.count_append, List.count_append]
  have := take_drop_count n its i
  rw [idsItems_append, List.count_append] at this
  simp only [idsItems, List.append_nil]
  omega

theorem filter_partition_count (q : Key × Tree → Bool) (its : Items) (i : Nat) :
    (idsItems (its.filter q)).count i + (idsItems (its.filter (fun kv => !q kv))).count i = (idsItems its).count i := by
  induction its with
  | nil => rfl
  | cons x xs ih =>
    obtain ⟨k, c⟩ := x
    simp only [List.filter_cons]
    cases hq : q (k, c) <;> simp [idsItems, List.count_append] <;> omega

/-! ### forests -/

theorem addRoot_count (f : Forest) (t : Tree) (i : Nat) :
    (f.addRoot t).ids.count i = f.ids.count i + t.ids.count i := by
  unfold Forest.addRoot
  cases t with
  | leaf a => simp [Tree.isNode, Tree.ids]
  | node m its =>
    simp only [Tree.isNode, if_true, Forest.ids, List.flatMap_append, List.count_append]
    simp

theorem addRoots_count (ts : List Tree) : ∀ (f : Forest) (i : Nat),
    (addRoots f ts).ids.count i = f.ids.count i + (idsRoots ts).count i := by
  induction ts with
  | nil => intro f i; simp [addRoots, idsRoots]
  | cons t ts ih =>
    intro f i
    simp only [addRoots, List.foldl_cons] at ih ⊢
    rw [ih (f.addRoot t) i, addRoot_count, idsRoots_cons, List.count_append]
    omega

theorem addRoot_nextId (f : Forest) (t : Tree) : (f.addRoot t).nextId = f.nextId := by
  unfold Forest.addRoot; split <;> rfl

theorem addRoots_nextId (ts : List Tree) : ∀ (f : Forest), (addRoots f ts).nextId = f.nextId := by
  induction ts with
  | nil => intro f; rfl
  | cons t ts ih => intro f; simp only [addRoots, List.foldl_cons] at ih ⊢; rw [ih, addRoot_nextId]

/-- the ids of a subtree found in a forest are ids of the forest. -/
theorem roots_filter_le (q : Tree → Bool) (rs : List Tree) (i : Nat) :
    (idsRoots (rs.filter q)).count i ≤ (idsRoots rs).count i := by
  induction rs with
  | nil => exact Nat.le_refl _
  | cons r rs ih =>
    simp only [List.filter_cons]
    split <;> simp [idsRoots_cons, List.count_append] <;> omega

mutual
  theorem find?_ids_le (id : Nat) : (t : Tree) → ∀ s, t.find? id = some s → ∀ i, s.ids.count i ≤ t.ids.count i
    | .leaf _, s, h, _ => by simp [Tree.find?] at h
    | .node m its, s, h, i => by
      unfold Tree.find? at h
      split at h
      · cases h; exact Nat.le_refl _
      · have := findItems?_ids_le id its s h i
        simp only [Tree.ids, List.count_cons]; omega
  theorem findItems?_ids_le (id : Nat) : (its : Items) → ∀ s, findItems? id its = some s →
      ∀ i, s.ids.count i ≤ (idsItems its).count i
    | [], s, h, _ => by simp [findItems?] at h
    | (k, c) :: r, s, h, i => by
      unfold findItems? at h
      simp only [idsItems, List.count_append]
      split at h
      · next t heq => cases h; have := find?_ids_le id c _ heq i; omega
      · have := findItems?_ids_le id r s h i; omega
end

theorem roots_find_ids_le (id : Nat) : (rs : List Tree) → ∀ s, rs.findSome? (Tree.find? id) = some s →
    ∀ i, s.ids.count i ≤ (idsRoots rs).count i
  | [], s, h, _ => by simp at h
  | r :: rs, s, h, i => by
    simp only [List.findSome?_cons] at h
    rw [idsRoots_cons, List.count_append]
    split at h
    · next t heq => cases h; have := find?_ids_le id r _ heq i; omega
    · have := roots_find_ids_le id rs s h i; omega

theorem Forest.find?_ids_le (f : Forest) (id : Nat) (s : Tree) (h : f.find? id = some s) (i : Nat) :
    s.ids.count i ≤ f.ids.count i := roots_find_ids_le id f.roots s h i

/-- removing the root that `find?` returns (ids are unique): exactly its ids leave the forest. -/
theorem roots_remove_count (id : Nat) : (rs : List Tree) → (idsRoots rs).count id ≤ 1 →
    ∀ m its, rs.findSome? (Tree.find? id) = some (.node m its) → rs.any (fun r => r.id? == some id) = true →
    ∀ i, (idsRoots (rs.filter (fun r => r.id? != some id))).count i + (Tree.node m its).ids.count i = (idsRoots rs).count i
  | [], _, m, its, h, _, _ => by simp at h
  | r :: rs, hc, m, its, h, hany, i => by
    rw [idsRoots_cons, List.count_append] at hc
    simp only [List.findSome?_cons] at h
    simp only [List.filter_cons]
    split at h
    · next s hs =>
      cases h
      -- the node is inside `r`; no other root carries the id
      have hmem := (find?_some id r _ hs).2
      have h1 := count_pos_of_mem hmem
      have hr0 : (idsRoots rs).count id = 0 := by omega
      have hrest : rs.filter (fun r => r.id? != some id) = rs := by
        apply List.filter_eq_self.mpr
        intro x hx
        cases x with
        | leaf a => simp [Tree.id?, Tree.meta?]
        | node xm xits =>
          simp only [Tree.id?, Tree.meta?, Option.map_some, bne_iff_ne, ne_eq, Option.some.injEq]
          intro he
          have : id ∈ idsRoots rs := by
            simp only [idsRoots, List.mem_flatMap]
            exact ⟨_, hx, by simp [Tree.ids, he]⟩
          exact not_mem_of_count_zero hr0 this
      -- `r` itself must be the root with that id
      have hroot : r.id? = some id := by
        simp only [List.any_cons, Bool.or_eq_true] at hany
        rcases hany with h0 | h0
        · simpa using h0
        · exfalso
          simp only [List.any_eq_true] at h0
          obtain ⟨x, hx, hxid⟩ := h0
          cases x with
          | leaf a => simp [Tree.id?, Tree.meta?] at hxid
          | node xm xits =>
            simp only [Tree.id?, Tree.meta?, Option.map_some, beq_iff_eq, Option.some.injEq] at hxid
            have : id ∈ idsRoots rs := by
              simp only [idsRoots, List.mem_flatMap]
              exact ⟨_, hx, by simp [Tree.ids, hxid]⟩
            exact not_mem_of_count_zero hr0 this
      cases r with
      | leaf a => simp [Tree.id?, Tree.meta?] at hroot
      | node rm rits =>
        simp only [Tree.id?, Tree.meta?, Option.map_some, Option.some.injEq] at hroot
        simp only [Tree.find?, hroot, if_true, Option.some.injEq] at hs
        cases hs
        have hself : ((Tree.node m its).id? != some id) = false := by
          simp [Tree.id?, Tree.meta?, hroot]
        rw [hself]
        simp only [Bool.false_eq_true, if_false, hrest, idsRoots_cons, List.count_append]
        omega
    · next hs =>
      have hnot : id ∉ r.ids := find?_none id r hs
      have hrid : (r.id? != some id) = true := by
        cases r with
        | leaf a => simp [Tree.id?, Tree.meta?]
        | node rm rits =>
          simp only [Tree.id?, Tree.meta?, Option.map_some, bne_iff_ne, ne_eq, Option.some.injEq]
          intro he; exact hnot (by simp [Tree.ids, he])
      have hany' : rs.any (fun r => r.id? == some id) = true := by
        simp only [List.any_cons, Bool.or_eq_true] at hany
        rcases hany with h0 | h0
        · simp only [bne_iff_ne, ne_eq] at hrid
          exact absurd (by simpa using h0) hrid
        · exact h0
      simp only [hrid, if_true, idsRoots_cons, List.count_append]
      have := roots_remove_count id rs (by omega) m its h hany' i
      omega

end Pg.Sym
