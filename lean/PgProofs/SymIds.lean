/-
  Identity accounting for the symbolic forest (C01 "one node object never appears in two
  places", C07 disjointness): how `find?`, `updateAt` and the local item-list transformers
  change the multiset of node ids. Counting (`List.count`) is used throughout: it is additive
  over `++`, and `Nodup ↔ every count ≤ 1`.
-/
import PgProofs.SymEval
namespace Pg.Sym

/-! ### find? -/

mutual
  theorem find?_some (id : Nat) : (t : Tree) → ∀ s, t.find? id = some s →
      (∃ m its, s = .node m its ∧ m.id = id) ∧ id ∈ t.ids
    | .leaf _, s, h => by simp [Tree.find?] at h
    | .node m its, s, h => by
      unfold Tree.find? at h
      split at h
      · next heq => cases h; exact ⟨⟨m, its, rfl, heq⟩, by simp [Tree.ids, heq]⟩
      · have := findItems?_some id its s h
        exact ⟨this.1, by simp [Tree.ids, this.2]⟩
  theorem findItems?_some (id : Nat) : (its : Items) → ∀ s, findItems? id its = some s →
      (∃ m xs, s = .node m xs ∧ m.id = id) ∧ id ∈ idsItems its
    | [], s, h => by simp [findItems?] at h
    | (k, c) :: r, s, h => by
      unfold findItems? at h
      split at h
      · next t heq =>
        cases h
        have := find?_some id c _ heq
        exact ⟨this.1, by simp [idsItems, this.2]⟩
      · have := findItems?_some id r s h
        exact ⟨this.1, by simp [idsItems, this.2]⟩
end

mutual
  theorem find?_none (id : Nat) : (t : Tree) → t.find? id = none → id ∉ t.ids
    | .leaf _, _ => by simp [Tree.ids]
    | .node m its, h => by
      unfold Tree.find? at h
      split at h
      · cases h
      · next hne =>
        simp only [Tree.ids, List.mem_cons, not_or]
        exact ⟨fun he => hne he.symm, findItems?_none id its h⟩
  theorem findItems?_none (id : Nat) : (its : Items) → findItems? id its = none → id ∉ idsItems its
    | [], _ => by simp [idsItems]
    | (k, c) :: r, h => by
      unfold findItems? at h
      split at h
      · cases h
      · next hc =>
        simp only [idsItems, List.mem_append, not_or]
        exact ⟨find?_none id c hc, findItems?_none id r h⟩
end

theorem count_pos_of_mem {i : Nat} {l : List Nat} (h : i ∈ l) : 1 ≤ l.count i := by
  have := List.count_pos_iff.mpr h
  omega

theorem not_mem_of_count_zero {i : Nat} {l : List Nat} (h : l.count i = 0) : i ∉ l :=
  List.count_eq_zero.mp h

/-! ### updateAt at the unique occurrence of its target -/

mutual
  theorem updateAt_count (t : Nat) (g : Meta → Items → Items) : (tr : Tree) → tr.ids.count t ≤ 1 →
      (tr.find? t = none → tr.updateAt t g = tr) ∧
      (∀ m its, tr.find? t = some (.node m its) → ∀ i,
        (tr.updateAt t g).ids.count i + (idsItems its).count i = tr.ids.count i + (idsItems (g m its)).count i)
    | .leaf _, _ => by simp [Tree.find?, Tree.updateAt]
    | .node m xs, hc => by
      constructor
      · intro hn
        exact updateAt_noop t g _ (find?_none t _ hn)
      · intro m' its hf i
        unfold Tree.find? at hf
        unfold Tree.updateAt
        split at hf
        · next heq =>
          cases hf
          simp only [heq, if_true, Tree.ids, List.count_cons]
          omega
        · next hne =>
          simp only [hne, if_false, Tree.ids, List.count_cons]
          have hc' : (idsItems xs).count t ≤ 1 := by
            simp only [Tree.ids, List.count_cons] at hc; omega
          have := (updateAtItems_count t g xs hc').2 m' its hf i
          omega
  theorem updateAtItems_count (t : Nat) (g : Meta → Items → Items) : (xs : Items) → (idsItems xs).count t ≤ 1 →
      (findItems? t xs = none → updateAtItems t g xs = xs) ∧
      (∀ m its, findItems? t xs = some (.node m its) → ∀ i,
        (idsItems (updateAtItems t g xs)).count i + (idsItems its).count i =
          (idsItems xs).count i + (idsItems (g m its)).count i)
    | [], _ => by simp [findItems?, updateAtItems]
    | (k, c) :: r, hc => by
      simp only [idsItems, List.count_append] at hc
      have hcc : c.ids.count t ≤ 1 := by omega
      have hcr : (idsItems r).count t ≤ 1 := by omega
      constructor
      · intro hn
        exact updateAtItems_noop t g _ (findItems?_none t _ hn)
      · intro m its hf i
        unfold findItems? at hf
        simp only [updateAtItems, idsItems, List.count_append]
        split at hf
        · next s hs =>
          cases hf
          have hmem := (find?_some t c _ hs).2
          have h1 := count_pos_of_mem hmem
          have hr0 : (idsItems r).count t = 0 := by omega
          rw [updateAtItems_noop t g r (not_mem_of_count_zero hr0)]
          have := (updateAt_count t g c hcc).2 m its hs i
          omega
        · next hs =>
          rw [(updateAt_count t g c hcc).1 hs]
          have := (updateAtItems_count t g r hcr).2 m its hf i
          omega
end

/-! ### forests: roots are a list of trees -/

def idsRoots (rs : List Tree) : List Nat := rs.flatMap Tree.ids

theorem idsRoots_cons (r : Tree) (rs : List Tree) : idsRoots (r :: rs) = r.ids ++ idsRoots rs := by
  simp [idsRoots]

theorem idsRoots_append (a b : List Tree) : idsRoots (a ++ b) = idsRoots a ++ idsRoots b := by
  simp [idsRoots]

theorem Forest.ids_eq (f : Forest) : f.ids = idsRoots f.roots := rfl

theorem roots_find_none (t : Nat) : (rs : List Tree) → rs.findSome? (Tree.find? t) = none → t ∉ idsRoots rs
  | [], _ => by simp [idsRoots]
  | r :: rs, h => by
    simp only [List.findSome?_cons] at h
    split at h
    · cases h
    · next hr =>
      rw [idsRoots_cons]
      simp only [List.mem_append, not_or]
      exact ⟨find?_none t r hr, roots_find_none t rs h⟩

theorem roots_map_noop (t : Nat) (g : Meta → Items → Items) : (rs : List Tree) → t ∉ idsRoots rs →
    rs.map (Tree.updateAt t g) = rs
  | [], _ => rfl
  | r :: rs, h => by
    rw [idsRoots_cons] at h
    simp only [List.mem_append, not_or] at h
    simp only [List.map_cons, updateAt_noop t g r h.1, roots_map_noop t g rs h.2]

theorem roots_update_count (t : Nat) (g : Meta → Items → Items) : (rs : List Tree) → (idsRoots rs).count t ≤ 1 →
    ∀ m its, rs.findSome? (Tree.find? t) = some (.node m its) → ∀ i,
      (idsRoots (rs.map (Tree.updateAt t g))).count i + (idsItems its).count i =
        (idsRoots rs).count i + (idsItems (g m its)).count i
  | [], _, m, its, h, _ => by simp at h
  | r :: rs, hc, m, its, h, i => by
    rw [idsRoots_cons, List.count_append] at hc
    simp only [List.findSome?_cons] at h
    simp only [List.map_cons, idsRoots_cons, List.count_append]
    split at h
    · next s hs =>
      cases h
      have h1 := count_pos_of_mem (find?_some t r _ hs).2
      have hr0 : (idsRoots rs).count t = 0 := by omega
      rw [roots_map_noop t g rs (not_mem_of_count_zero hr0)]
      have := (updateAt_count t g r (by omega)).2 m its hs i
      omega
    · next hs =>
      rw [(updateAt_count t g r (by omega)).1 hs]
      have := roots_update_count t g rs (by omega) m its h i
      omega

/-- **mapAt on a forest without duplicate ids** rewrites exactly the node that `find?` returns. -/
theorem mapAt_count (f : Forest) (t : Nat) (g : Meta → Items → Items) (hc : f.ids.count t ≤ 1)
    (m : Meta) (its : Items) (hfind : f.find? t = some (.node m its)) (i : Nat) :
    (f.mapAt t g).ids.count i + (idsItems its).count i = f.ids.count i + (idsItems (g m its)).count i :=
  roots_update_count t g f.roots hc m its hfind i

end Pg.Sym

namespace Pg.Sym

/-! ### item-list algebra -/

theorem idsItems_append (a b : Items) : idsItems (a ++ b) = idsItems a ++ idsItems b := by
  induction a with
  | nil => rfl
  | cons x xs ih => obtain ⟨k, c⟩ := x; simp [idsItems, ih]

theorem idsItems_perm {a b : Items} (h : a.Perm b) (i : Nat) : (idsItems a).count i = (idsItems b).count i := by
  induction h with
  | nil => rfl
  | cons x _ ih => obtain ⟨k, c⟩ := x; simp [idsItems, List.count_append, ih]
  | swap x y l =>
    obtain ⟨k, c⟩ := x; obtain ⟨k', c'⟩ := y
    simp [idsItems, List.count_append]; omega
  | trans _ _ ih1 ih2 => rw [ih1, ih2]

theorem idsItems_sublist {a b : Items} (h : a.Sublist b) (i : Nat) : (idsItems a).count i ≤ (idsItems b).count i := by
  induction h with
  | slnil => exact Nat.le_refl _
  | cons x _ ih => obtain ⟨k, c⟩ := x; simp [idsItems, List.count_append]; omega
  | cons_cons x _ ih => obtain ⟨k, c⟩ := x; simp [idsItems, List.count_append]; omega

theorem idsItems_mem_le {its : Items} {kv : Key × Tree} (h : kv ∈ its) (i : Nat) :
    kv.2.ids.count i ≤ (idsItems its).count i := by
  induction its with
  | nil => cases h
  | cons x xs ih =>
    obtain ⟨k, c⟩ := x
    simp only [List.mem_cons] at h
    simp only [idsItems, List.count_append]
    rcases h with rfl | h
    · simp
    · have := ih h; omega

/-- ids of the value stored under `k` (none if the key is absent). -/
def slotIds (its : Items) (k : Key) : List Nat := ((getKey its k).map Tree.ids).getD []

theorem getKey_cons (k k' : Key) (c : Tree) (r : Items) :
    getKey ((k', c) :: r) k = if k' = k then some c else getKey r k := by
  unfold getKey
  simp only [List.find?_cons]
  by_cases h : k' = k
  · simp [h]
  · have : (k' == k) = false := by simpa using h
    simp [this, h]

theorem setKey_count (k : Key) (v : Tree) (i : Nat) : (its : Items) →
    (idsItems (setKey k v its)).count i + (slotIds its k).count i = (idsItems its).count i + v.ids.count i
  | [] => by simp [setKey, idsItems, slotIds, getKey]
  | (k', c) :: r => by
    have ih := setKey_count k v i r
    unfold setKey
    simp only [slotIds, getKey_cons] at ih ⊢
    by_cases h : k' = k
    · simp only [h, if_true, idsItems, List.count_append, Option.map_some, Option.getD_some]
      omega
    · simp only [h, if_false, idsItems, List.count_append]
      omega

theorem eraseKey_count (k : Key) (i : Nat) : (its : Items) →
    (idsItems (eraseKey k its)).count i + (slotIds its k).count i = (idsItems its).count i
  | [] => by simp [eraseKey, idsItems, slotIds, getKey]
  | (k', c) :: r => by
    have ih := eraseKey_count k i r
    unfold eraseKey
    simp only [slotIds, getKey_cons] at ih ⊢
    by_cases h : k' = k
    · simp only [h, if_true, idsItems, List.count_append, Option.map_some, Option.getD_some]
      omega
    · simp only [h, if_false, idsItems, List.count_append]
      omega

theorem renumber_count (its : Items) (i : Nat) : (idsItems (renumber its)).count i = (idsItems its).count i := by
  unfold renumber; rw [renumberFrom_ids]

theorem reindex_count (m : Meta) (its : Items) (i : Nat) : (idsItems (reindex m its)).count i = (idsItems its).count i := by
  unfold reindex; rw [setPathItems_ids]

theorem setParent_ids (par : Option Nat) (t : Tree) : (t.setParent par).ids = t.ids := by
  cases t <;> rfl

theorem detachFrom_ids (kind : Kind) (t : Tree) : (detachFrom kind t).ids = t.ids := by
  unfold detachFrom
  cases kind <;> simp [setPath_ids, setParent_ids]

theorem onChangeReindex_ids (m : Meta) : (its : Items) → idsItems (onChangeReindex m its) = idsItems its
  | [] => rfl
  | (k, c) :: r => by
    simp only [onChangeReindex, idsItems, onChangeReindex_ids m r]
    cases c with
    | leaf a => rfl
    | node cm cits =>
      simp only
      split
      · rfl
      · rw [setPath_ids]

theorem listOnChange_count (m : Meta) (its : Items) (i : Nat) :
    (idsItems (listOnChange m its)).count i = (idsItems its).count i := by
  unfold listOnChange
  rw [onChangeReindex_ids, renumber_count, filterMissing_ids]

theorem take_drop_count (n : Nat) (its : Items) (i : Nat) :
    (idsItems (its.take n ++ its.drop n)).count i = (idsItems its).count i := by
  rw [List.take_append_drop]

theorem insertAt_count (n : Nat) (v : Tree) (its : Items) (i : Nat) :
    (idsItems (insertAt n v its)).count i = (idsItems its).count i + v.ids.count i := by
  unfold insertAt
  rw [renumber_count, idsItems_append, idsItems_append, List.count_append, List.count_append]
  have := take_drop_count n its i
  rw [idsItems_append, List.count_append] at this
  simp only [idsItems, List.append_nil]
  omega

theorem filter_partition_count (q : Key × Tree → Bool) (its : Items) (i : Nat) :
    (idsItems (its.filter q)).count i + (idsItems (its.filter (fun kv => !q kv))).count i = (idsItems its).count i := by
  induction its with
  | nil => rfl
  | cons x xs ih =>
    obtain ⟨k, c⟩ := x
    simp only [List.filter_cons]
    cases hq : q (k, c) <;> simp [idsItems, List.count_append] <;> omega

/-! ### forests -/

theorem addRoot_count (f : Forest) (t : Tree) (i : Nat) :
    (f.addRoot t).ids.count i = f.ids.count i + t.ids.count i := by
  unfold Forest.addRoot
  cases t with
  | leaf a => simp [Tree.isNode, Tree.ids]
  | node m its =>
    simp only [Tree.isNode, if_true, Forest.ids, List.flatMap_append, List.count_append]
    simp

theorem addRoots_count (ts : List Tree) : ∀ (f : Forest) (i : Nat),
    (addRoots f ts).ids.count i = f.ids.count i + (idsRoots ts).count i := by
  induction ts with
  | nil => intro f i; simp [addRoots, idsRoots]
  | cons t ts ih =>
    intro f i
    simp only [addRoots, List.foldl_cons] at ih ⊢
    rw [ih (f.addRoot t) i, addRoot_count, idsRoots_cons, List.count_append]
    omega

theorem addRoot_nextId (f : Forest) (t : Tree) : (f.addRoot t).nextId = f.nextId := by
  unfold Forest.addRoot; split <;> rfl

theorem addRoots_nextId (ts : List Tree) : ∀ (f : Forest), (addRoots f ts).nextId = f.nextId := by
  induction ts with
  | nil => intro f; rfl
  | cons t ts ih => intro f; simp only [addRoots, List.foldl_cons] at ih ⊢; rw [ih, addRoot_nextId]

/-- the ids of a subtree found in a forest are ids of the forest. -/
theorem roots_filter_le (q : Tree → Bool) (rs : List Tree) (i : Nat) :
    (idsRoots (rs.filter q)).count i ≤ (idsRoots rs).count i := by
  induction rs with
  | nil => exact Nat.le_refl _
  | cons r rs ih =>
    simp only [List.filter_cons]
    split <;> simp [idsRoots_cons, List.count_append] <;> omega

mutual
  theorem find?_ids_le (id : Nat) : (t : Tree) → ∀ s, t.find? id = some s → ∀ i, s.ids.count i ≤ t.ids.count i
    | .leaf _, s, h, _ => by simp [Tree.find?] at h
    | .node m its, s, h, i => by
      unfold Tree.find? at h
      split at h
      · cases h; exact Nat.le_refl _
      · have := findItems?_ids_le id its s h i
        simp only [Tree.ids, List.count_cons]; omega
  theorem findItems?_ids_le (id : Nat) : (its : Items) → ∀ s, findItems? id its = some s →
      ∀ i, s.ids.count i ≤ (idsItems its).count i
    | [], s, h, _ => by simp [findItems?] at h
    | (k, c) :: r, s, h, i => by
      unfold findItems? at h
      simp only [idsItems, List.count_append]
      split at h
      · next t heq => cases h; have := find?_ids_le id c _ heq i; omega
      · have := findItems?_ids_le id r s h i; omega
end

theorem roots_find_ids_le (id : Nat) : (rs : List Tree) → ∀ s, rs.findSome? (Tree.find? id) = some s →
    ∀ i, s.ids.count i ≤ (idsRoots rs).count i
  | [], s, h, _ => by simp at h
  | r :: rs, s, h, i => by
    simp only [List.findSome?_cons] at h
    rw [idsRoots_cons, List.count_append]
    split at h
    · next t heq => cases h; have := find?_ids_le id r _ heq i; omega
    · have := roots_find_ids_le id rs s h i; omega

theorem Forest.find?_ids_le (f : Forest) (id : Nat) (s : Tree) (h : f.find? id = some s) (i : Nat) :
    s.ids.count i ≤ f.ids.count i := roots_find_ids_le id f.roots s h i

/-- removing the root that `find?` returns (ids are unique): exactly its ids leave the forest. -/
theorem roots_remove_count (id : Nat) : (rs : List Tree) → (idsRoots rs).count id ≤ 1 →
    ∀ m its, rs.findSome? (Tree.find? id) = some (.node m its) → rs.any (fun r => r.id? == some id) = true →
    ∀ i, (idsRoots (rs.filter (fun r => r.id? != some id))).count i + (Tree.node m its).ids.count i = (idsRoots rs).count i
  | [], _, m, its, h, _, _ => by simp at h
  | r :: rs, hc, m, its, h, hany, i => by
    rw [idsRoots_cons, List.count_append] at hc
    simp only [List.findSome?_cons] at h
    simp only [List.filter_cons]
    split at h
    · next s hs =>
      cases h
      -- the node is inside `r`; no other root carries the id
      have hmem := (find?_some id r _ hs).2
      have h1 := count_pos_of_mem hmem
      have hr0 : (idsRoots rs).count id = 0 := by omega
      have hrest : rs.filter (fun r => r.id? != some id) = rs := by
        apply List.filter_eq_self.mpr
        intro x hx
        cases x with
        | leaf a => simp [Tree.id?, Tree.meta?]
        | node xm xits =>
          simp only [Tree.id?, Tree.meta?, Option.map_some, bne_iff_ne, ne_eq, Option.some.injEq]
          intro he
          have : id ∈ idsRoots rs := by
            simp only [idsRoots, List.mem_flatMap]
            exact ⟨_, hx, by simp [Tree.ids, he]⟩
          exact not_mem_of_count_zero hr0 this
      -- `r` itself must be the root with that id
      have hroot : r.id? = some id := by
        simp only [List.any_cons, Bool.or_eq_true] at hany
        rcases hany with h0 | h0
        · simpa using h0
        · exfalso
          simp only [List.any_eq_true] at h0
          obtain ⟨x, hx, hxid⟩ := h0
          cases x with
          | leaf a => simp [Tree.id?, Tree.meta?] at hxid
          | node xm xits =>
            simp only [Tree.id?, Tree.meta?, Option.map_some, beq_iff_eq, Option.some.injEq] at hxid
            have : id ∈ idsRoots rs := by
              simp only [idsRoots, List.mem_flatMap]
              exact ⟨_, hx, by simp [Tree.ids, hxid]⟩
            exact not_mem_of_count_zero hr0 this
      cases r with
      | leaf a => simp [Tree.id?, Tree.meta?] at hroot
      | node rm rits =>
        simp only [Tree.id?, Tree.meta?, Option.map_some, Option.some.injEq] at hroot
        simp only [Tree.find?, hroot, if_true, Option.some.injEq] at hs
        cases hs
        have hself : ((Tree.node m its).id? != some id) = false := by
          simp [Tree.id?, Tree.meta?, hroot]
        rw [hself]
        simp only [Bool.false_eq_true, if_false, hrest, idsRoots_cons, List.count_append]
        omega
    · next hs =>
      have hnot : id ∉ r.ids := find?_none id r hs
      have hrid : (r.id? != some id) = true := by
        cases r with
        | leaf a => simp [Tree.id?, Tree.meta?]
        | node rm rits =>
          simp only [Tree.id?, Tree.meta?, Option.map_some, bne_iff_ne, ne_eq, Option.some.injEq]
          intro he; exact hnot (by simp [Tree.ids, he])
      have hany' : rs.any (fun r => r.id? == some id) = true := by
        simp only [List.any_cons, Bool.or_eq_true] at hany
        rcases hany with h0 | h0
        · simp only [bne_iff_ne, ne_eq] at hrid
          exact absurd (by simpa using h0) hrid
        · exact h0
      simp only [hrid, if_true, idsRoots_cons, List.count_append]
      have := roots_remove_count id rs (by omega) m its h hany' i
      omega

end Pg.Sym

namespace Pg.Sym

/-! ### clones: ids are fresh *and* distinct -/

theorem clone_node_ids (cfg : Cfg) (deep : Bool) (next : Nat) (par : Option Nat) (p : List Key) (m : Meta) (its : Items) :
    ((Tree.node m its).clone cfg deep next par p).1.ids =
      next :: idsItems (cloneItems cfg deep (next + 1) next p its).1 := by
  unfold Tree.clone
  simp only
  rw [sealIf_ids]
  cases hk : m.kind with
  | list => simp [Tree.ids, setPathItems_ids, renumber, renumberFrom_ids, filterMissing_ids]
  | dict => simp [Tree.ids]
  | obj c => simp [Tree.ids, adoptItems_ids]

theorem clone_node_snd (cfg : Cfg) (deep : Bool) (next : Nat) (par : Option Nat) (p : List Key) (m : Meta) (its : Items) :
    ((Tree.node m its).clone cfg deep next par p).2 = (cloneItems cfg deep (next + 1) next p its).2 := by
  unfold Tree.clone; rfl

mutual
  theorem clone_count (cfg : Cfg) (deep : Bool) (next : Nat) (par : Option Nat) (p : List Key) :
      (t : Tree) → next ≤ (t.clone cfg deep next par p).2 ∧
        ∀ i, (t.clone cfg deep next par p).1.ids.count i ≤ 1 ∧
          (i < next → (t.clone cfg deep next par p).1.ids.count i = 0) ∧
          ((t.clone cfg deep next par p).2 ≤ i → (t.clone cfg deep next par p).1.ids.count i = 0)
    | .leaf a => by
      cases a <;> cases deep <;> simp [Tree.clone, Tree.ids]
    | .node m its => by
      have ih := cloneItems_count cfg deep (next + 1) next p its
      rw [clone_node_snd]
      refine ⟨by omega, ?_⟩
      intro i
      rw [clone_node_ids]
      have hi := ih.2 i
      simp only [List.count_cons]
      by_cases he : next = i
      · subst he
        have := hi.2.1 (by omega)
        simp only [beq_self_eq_true, if_true]
        refine ⟨by omega, by omega, by omega⟩
      · have hb : (next == i) = false := by simpa using he
        simp only [hb, Bool.false_eq_true, if_false, Nat.add_zero]
        refine ⟨hi.1, ?_, hi.2.2⟩
        intro hlt; exact hi.2.1 (by omega)
  theorem cloneItems_count (cfg : Cfg) (deep : Bool) (next : Nat) (h : Nat) (p : List Key) :
      (its : Items) → next ≤ (cloneItems cfg deep next h p its).2 ∧
        ∀ i, (idsItems (cloneItems cfg deep next h p its).1).count i ≤ 1 ∧
          (i < next → (idsItems (cloneItems cfg deep next h p its).1).count i = 0) ∧
          ((cloneItems cfg deep next h p its).2 ≤ i → (idsItems (cloneItems cfg deep next h p its).1).count i = 0)
    | [] => by simp [cloneItems, idsItems]
    | (k, c) :: r => by
      have h1 := clone_count cfg deep next (some h) (p ++ [k]) c
      have h2 := cloneItems_count cfg deep (c.clone cfg deep next (some h) (p ++ [k])).2 h p r
      unfold cloneItems
      simp only [idsItems, List.count_append]
      refine ⟨by omega, ?_⟩
      intro i
      have a := h1.2 i
      have b := h2.2 i
      refine ⟨?_, ?_, ?_⟩
      · by_cases hlt : i < (c.clone cfg deep next (some h) (p ++ [k])).2
        · have := b.2.1 hlt; omega
        · have := a.2.2 (by omega); omega
      · intro hlt
        have := a.2.1 hlt
        have := b.2.1 (by omega)
        omega
      · intro hge
        have := a.2.2 (by omega)
        have := b.2.2 hge
        omega
end

end Pg.Sym

namespace Pg.Sym

/-! ### what `evalVE` does to the forest: roots only leave, flags only rise -/

structure EvalMono (f f' : Forest) : Prop where
  roots : f'.roots.Sublist f.roots
  aliased : f.aliased = true → f'.aliased = true
  consumed : f.consumed = true → f'.consumed = true
  next : f.nextId ≤ f'.nextId

theorem EvalMono.refl (f : Forest) : EvalMono f f := ⟨List.Sublist.refl _, id, id, Nat.le_refl _⟩

theorem EvalMono.trans {a b c : Forest} (h1 : EvalMono a b) (h2 : EvalMono b c) : EvalMono a c :=
  ⟨h2.roots.trans h1.roots, fun h => h2.aliased (h1.aliased h), fun h => h2.consumed (h1.consumed h),
   Nat.le_trans h1.next h2.next⟩

theorem relocateRef_mono (cfg : Cfg) (f : Forest) (pending par : Option Nat) (hobj : Bool) (p : List Key) (rid : Nat) :
    EvalMono f (relocateRef cfg f pending par hobj p rid).1 := by
  unfold relocateRef
  split
  · split
    · exact ⟨List.Sublist.refl _, id, id, (clone_count _ _ _ _ _ _).1⟩
    · exact EvalMono.refl f
  · exact EvalMono.refl f
  · split
    · exact ⟨List.Sublist.refl _, id, fun _ => rfl, Nat.le_refl _⟩
    · split
      · split
        · exact ⟨List.filter_sublist, id, id, Nat.le_refl _⟩
        · exact ⟨List.Sublist.refl _, fun _ => rfl, id, Nat.le_refl _⟩
      · exact ⟨List.Sublist.refl _, id, id, (clone_count _ _ _ _ _ _).1⟩

mutual
  theorem evalVE_mono (cfg : Cfg) (pending : Option Nat) : (ve : VE) → ∀ (f : Forest) (par : Option Nat)
      (hobj hpart : Bool) (p : List Key), EvalMono f (evalVE cfg f pending par hobj hpart p ve).1
    | .atom a, f, _, _, _, _ => by simp only [evalVE]; exact EvalMono.refl f
    | .fresh, f, _, _, _, _ => by
      simp only [evalVE]; exact ⟨List.Sublist.refl _, id, id, Nat.le_succ _⟩
    | .freshTuple n, f, _, _, _, _ => by
      simp only [evalVE]; exact ⟨List.Sublist.refl _, id, id, Nat.le_add_right _ _⟩
    | .mkRef tgt, f, _, _, _, _ => by
      simp only [evalVE]; exact ⟨List.Sublist.refl _, id, id, Nat.le_add_right _ _⟩
    | .ref id, f, par, hobj, _, p => by
      simp only [evalVE]; exact relocateRef_mono cfg f pending par hobj p id
    | .typedList items, f, _, _, _, p => by
      simp only [evalVE]
      have h0 : EvalMono f { f with nextId := f.nextId + 1 } := ⟨List.Sublist.refl _, id, id, Nat.le_succ _⟩
      exact h0.trans (evalItems_mono cfg pending items _ _ _ _ _ _)
    | .node kind sl aw pt items, f, _, _, _, p => by
      simp only [evalVE]
      have h0 : EvalMono f { f with nextId := f.nextId + 1 } := ⟨List.Sublist.refl _, id, id, Nat.le_succ _⟩
      exact h0.trans (evalItems_mono cfg pending items _ _ _ _ _ _)
  theorem evalItems_mono (cfg : Cfg) (pending : Option Nat) : (items : List (Key × VE)) → ∀ (f : Forest) (h : Nat)
      (hobj hpart : Bool) (p : List Key) (pos : Option Nat),
      EvalMono f (evalItems cfg f pending h hobj hpart p pos items).1
    | [], f, _, _, _, _, _ => by simp only [evalItems]; exact EvalMono.refl f
    | (k0, v) :: r, f, h, hobj, hpart, p, pos => by
      simp only [evalItems]
      exact (evalVE_mono cfg pending v f _ _ _ _).trans (evalItems_mono cfg pending r _ _ _ _ _ _)
end

/-! ### `find?` is stable when roots leave a forest without duplicate ids -/

theorem roots_find_sublist (t : Nat) {rs' rs : List Tree} (h : rs'.Sublist rs) :
    (idsRoots rs).count t ≤ 1 → ∀ s, rs'.findSome? (Tree.find? t) = some s → rs.findSome? (Tree.find? t) = some s := by
  induction h with
  | slnil => intro _ s hs; exact hs
  | cons r _ ih =>
    intro hc s hs
    rw [idsRoots_cons, List.count_append] at hc
    simp only [List.findSome?_cons]
    cases hr : r.find? t with
    | none => exact ih (by omega) s hs
    | some s' =>
      -- `t` occurs in the dropped root, so it cannot occur in the kept ones
      exfalso
      have h1 := count_pos_of_mem (find?_some t r _ hr).2
      have h2 := ih (by omega) s hs
      have h3 := count_pos_of_mem (by
        have := roots_find_ids_le t _ s h2 t
        have hs' := (find?_some_root t _ s h2)
        exact hs')
      omega
  | cons_cons r _ ih =>
    intro hc s hs
    rw [idsRoots_cons, List.count_append] at hc
    simp only [List.findSome?_cons] at hs ⊢
    cases hr : r.find? t with
    | none => rw [hr] at hs; exact ih (by omega) s hs
    | some s' => rw [hr] at hs; exact hs
where
  find?_some_root (t : Nat) : (rs : List Tree) → ∀ s, rs.findSome? (Tree.find? t) = some s → t ∈ idsRoots rs
    | [], s, h => by simp at h
    | r :: rs, s, h => by
      simp only [List.findSome?_cons] at h
      rw [idsRoots_cons]
      split at h
      · next s' hs' => exact List.mem_append_left _ (find?_some t r _ hs').2
      · exact List.mem_append_right _ (find?_some_root t rs s h)

theorem idsRoots_sublist {rs' rs : List Tree} (h : rs'.Sublist rs) (i : Nat) :
    (idsRoots rs').count i ≤ (idsRoots rs).count i := by
  induction h with
  | slnil => exact Nat.le_refl _
  | cons r _ ih => rw [idsRoots_cons, List.count_append]; omega
  | cons_cons r _ ih => simp only [idsRoots_cons, List.count_append]; omega

end Pg.Sym

namespace Pg.Sym

/-! ### the invariant "ids are distinct and below the counter" and the accounting of `evalVE` -/

structure NB (f : Forest) : Prop where
  nodup : ∀ i, f.ids.count i ≤ 1
  bound : ∀ i, f.nextId ≤ i → f.ids.count i = 0

theorem NB.of_mono {f f' : Forest} (h : NB f) (hm : EvalMono f f') : NB f' := by
  constructor
  · intro i
    have := idsRoots_sublist hm.roots i
    have := h.nodup i
    simp only [Forest.ids_eq] at *; omega
  · intro i hi
    have := idsRoots_sublist hm.roots i
    have := h.bound i (Nat.le_trans hm.next hi)
    simp only [Forest.ids_eq] at *; omega

/-- what may be counted twice for a moment: the ids of the value that is being replaced, once it
has been moved into the new value and before the new value is stored over it. -/
def allow (f f' : Forest) (P : List Nat) (i : Nat) : Nat :=
  if f'.consumed && !f.consumed then P.count i else 0

structure EvalIds (f f' : Forest) (t P : List Nat) : Prop where
  old : ∀ i, i < f.nextId → f'.ids.count i + t.count i ≤ f.ids.count i + allow f f' P i
  fresh : ∀ i, f.nextId ≤ i → f'.ids.count i + t.count i ≤ 1
  bound : ∀ i, f'.nextId ≤ i → f'.ids.count i + t.count i = 0

structure PendOk (f : Forest) (pending : Option Nat) (P : List Nat) : Prop where
  found : ∀ oid s, pending = some oid → f.find? oid = some s → s.ids = P
  pbound : ∀ i, f.nextId ≤ i → P.count i = 0

theorem PendOk.of_mono {f f' : Forest} {pending : Option Nat} {P : List Nat} (h : PendOk f pending P)
    (hn : NB f) (hm : EvalMono f f') : PendOk f' pending P := by
  constructor
  · intro oid s hp hs
    exact h.found oid s hp (roots_find_sublist oid hm.roots (hn.nodup oid) s hs)
  · intro i hi
    exact h.pbound i (Nat.le_trans hm.next hi)

theorem ids_with_next (f : Forest) (n : Nat) : ({ f with nextId := n } : Forest).ids = f.ids := rfl

theorem relocateRef_ids (cfg : Cfg) (f : Forest) (pending par : Option Nat) (hobj : Bool) (p : List Key) (rid : Nat)
    (P : List Nat) (hn : NB f) (hp : PendOk f pending P)
    (hal : (relocateRef cfg f pending par hobj p rid).1.aliased = false) :
    EvalIds f (relocateRef cfg f pending par hobj p rid).1 (relocateRef cfg f pending par hobj p rid).2.ids P := by
  unfold relocateRef at hal ⊢
  have cloneCase : ∀ (t : Tree),
      EvalIds f { f with nextId := (t.clone cfg false f.nextId par p).2 } (t.clone cfg false f.nextId par p).1.ids P := by
    intro t
    have hc := clone_count cfg false f.nextId par p t
    constructor
    · intro i hi
      have := (hc.2 i).2.1 hi
      simp only [ids_with_next]; omega
    · intro i hi
      have := (hc.2 i).1
      have := hn.bound i hi
      simp only [ids_with_next]; omega
    · intro i hi
      have := (hc.2 i).2.2 hi
      have := hn.bound i (Nat.le_trans hc.1 hi)
      simp only [ids_with_next]; omega
  have trivCase : EvalIds f f [] P := by
    constructor
    · intro i _; simp
    · intro i hi; have := hn.bound i hi; simp; omega
    · intro i hi; have := hn.bound i hi; simp; omega
  split
  · split
    · exact cloneCase _
    · simpa [Tree.ids] using trivCase
  · simpa [Tree.ids] using trivCase
  · next m its hfind =>
    have hle := Forest.find?_ids_le f rid _ hfind
    split
    · next hcond =>
      simp only [Bool.and_eq_true, beq_iff_eq, Bool.not_eq_true'] at hcond
      have hP : (Tree.node m its).ids = P := hp.found rid _ hcond.1 hfind
      have hids : (Tree.setParent par (Tree.setPath p (Tree.setPath [] (Tree.setParent none (Tree.node m its))))).ids = P := by
        rw [setParent_ids, setPath_ids, setPath_ids, setParent_ids, hP]
      rw [hids]
      constructor
      · intro i _
        simp only [allow, hcond.2, Bool.not_false, Bool.and_true, if_true]
        exact Nat.le_refl _
      · intro i hi
        have := hn.bound i hi
        have := hle i
        rw [hP] at this
        show f.ids.count i + P.count i ≤ 1
        omega
      · intro i hi
        have := hn.bound i hi
        have := hle i
        rw [hP] at this
        show f.ids.count i + P.count i = 0
        omega
    · next hnp =>
      split
      · next hreuse =>
        have hids : (Tree.setParent par (Tree.setPath p (Tree.node m its))).ids = (Tree.node m its).ids := by
          rw [setParent_ids, setPath_ids]
        split
        · next hroot =>
          simp only
          rw [hids]
          have heq := roots_remove_count rid f.roots (hn.nodup rid) m its hfind hroot
          constructor
          · intro i _
            have := heq i
            show (idsRoots (f.roots.filter _)).count i + _ ≤ _
            simp only [Forest.ids_eq] at *; omega
          · intro i hi
            have := heq i
            have := hn.bound i hi
            show (idsRoots (f.roots.filter _)).count i + _ ≤ _
            simp only [Forest.ids_eq] at *; omega
          · intro i hi
            have := heq i
            have := hn.bound i hi
            show (idsRoots (f.roots.filter _)).count i + _ = 0
            simp only [Forest.ids_eq] at *; omega
        · next hnroot =>
          simp only [hfind, hnp, hreuse, hnroot, if_true, if_false, Bool.false_eq_true] at hal
          cases hal
      · exact cloneCase _

end Pg.Sym

namespace Pg.Sym

theorem getKey_eraseKey_ne {k k2 : Key} (h : k2 ≠ k) : (its : Items) → getKey (eraseKey k its) k2 = getKey its k2
  | [] => rfl
  | (k', c) :: r => by
    unfold eraseKey
    by_cases hk : k' = k
    · simp only [hk, if_true, getKey_cons]
      have : ¬ k = k2 := fun e => h e.symm
      simp [this]
    · simp only [hk, if_false, getKey_cons, getKey_eraseKey_ne h r]

theorem getD_leaf_ids (its : Items) (k : Key) : ((getKey its k).getD (.leaf .none)).ids = slotIds its k := by
  unfold slotIds
  cases getKey its k <;> simp [Tree.ids]

theorem fields_count (i : Nat) : (ks : List Key) → ks.Nodup → ∀ its : Items,
    (idsItems (ks.map (fun k => (k, (getKey its k).getD (.leaf .none))))).count i ≤ (idsItems its).count i
  | [], _, its => by simp [idsItems]
  | k :: ks, hnd, its => by
    rw [List.nodup_cons] at hnd
    simp only [List.map_cons, idsItems, List.count_append, getD_leaf_ids]
    have hcongr : ks.map (fun k2 => (k2, (getKey its k2).getD (.leaf .none))) =
        ks.map (fun k2 => (k2, (getKey (eraseKey k its) k2).getD (.leaf .none))) := by
      apply List.map_congr_left
      intro k2 hk2
      have hne : k2 ≠ k := fun e => hnd.1 (e ▸ hk2)
      rw [getKey_eraseKey_ne hne]
    rw [hcongr]
    have ih := fields_count i ks hnd.2 (eraseKey k its)
    have := eraseKey_count k i its
    omega

theorem clsFields_nodup (cls : Nat) : (clsFields cls).Nodup := by
  unfold clsFields
  split <;> decide

theorem normObj_count (cls : Nat) (its : Items) (i : Nat) :
    (idsItems (normObjItems cls its)).count i ≤ (idsItems its).count i :=
  fields_count i _ (clsFields_nodup cls) its

theorem wrapNode (f f2 : Forest) (pending : Option Nat) (inner outer P : List Nat) (hn : NB f) (hp : PendOk f pending P)
    (ih : EvalIds { f with nextId := f.nextId + 1 } f2 inner P) (hnext : f.nextId + 1 ≤ f2.nextId)
    (hle : ∀ i, outer.count i ≤ inner.count i) : EvalIds f f2 (f.nextId :: outer) P := by
  have hallow : ∀ i, allow { f with nextId := f.nextId + 1 } f2 P i = allow f f2 P i := fun _ => rfl
  refine ⟨?_, ?_, ?_⟩
  · intro i hi
    have h1 := ih.old i (by simp; omega)
    have h2 := hle i
    have hne : ¬ f.nextId = i := by omega
    rw [hallow] at h1
    simp only [ids_with_next] at h1
    simp only [List.count_cons, hne, beq_iff_eq, if_false]
    omega
  · intro i hi
    have h2 := hle i
    by_cases he : f.nextId = i
    · subst he
      have h1 := ih.old f.nextId (by simp)
      have hb := hn.bound f.nextId (Nat.le_refl _)
      have hpb := hp.pbound f.nextId (Nat.le_refl _)
      have hal : allow { f with nextId := f.nextId + 1 } f2 P f.nextId = 0 := by
        unfold allow; split <;> simp [hpb]
      rw [hal] at h1
      simp only [ids_with_next] at h1
      simp only [List.count_cons, beq_self_eq_true, if_true]
      omega
    · have h1 := ih.fresh i (by simp; omega)
      simp only [List.count_cons, he, beq_iff_eq, if_false]
      omega
  · intro i hi
    have h1 := ih.bound i hi
    have h2 := hle i
    have hne : ¬ f.nextId = i := by omega
    simp only [List.count_cons, hne, beq_iff_eq, if_false]
    omega

theorem combineIds (f fa fb : Forest) (pending : Option Nat) (ta tb P : List Nat) (hn : NB f) (hp : PendOk f pending P)
    (hma : EvalMono f fa) (hmb : EvalMono fa fb) (a : EvalIds f fa ta P) (b : EvalIds fa fb tb P) :
    EvalIds f fb (ta ++ tb) P := by
  refine ⟨?_, ?_, ?_⟩
  · intro i hi
    have h1 := a.old i hi
    have h2 := b.old i (Nat.lt_of_lt_of_le hi hma.next)
    have hsum : allow f fa P i + allow fa fb P i ≤ allow f fb P i := by
      unfold allow
      have c1 := hma.consumed
      have c2 := hmb.consumed
      cases hf : f.consumed <;> cases ha : fa.consumed <;> cases hb : fb.consumed <;> simp_all
    simp only [List.count_append]
    omega
  · intro i hi
    simp only [List.count_append]
    by_cases hlt : i < fa.nextId
    · have h2 := b.old i hlt
      have h1 := a.fresh i hi
      have hpb := hp.pbound i hi
      have hal : allow fa fb P i = 0 := by unfold allow; split <;> simp [hpb]
      omega
    · have h2 := b.fresh i (by omega)
      have h1 := a.bound i (by omega)
      omega
  · intro i hi
    simp only [List.count_append]
    have h2 := b.bound i hi
    have h1 := a.bound i (Nat.le_trans hmb.next hi)
    omega

mutual
  theorem evalVE_ids (cfg : Cfg) (pending : Option Nat) (P : List Nat) : (ve : VE) → ∀ (f : Forest)
      (par : Option Nat) (hobj hpart : Bool) (p : List Key), NB f → PendOk f pending P →
      (evalVE cfg f pending par hobj hpart p ve).1.aliased = false →
      EvalIds f (evalVE cfg f pending par hobj hpart p ve).1 (evalVE cfg f pending par hobj hpart p ve).2.ids P
    | .atom a, f, _, _, _, _, hn, _, _ => by
      simp only [evalVE, Tree.ids]
      exact ⟨fun i _ => by simp, fun i hi => by have := hn.bound i hi; simp; omega,
             fun i hi => by have := hn.bound i hi; simp; omega⟩
    | .fresh, f, _, _, _, _, hn, _, _ => by
      simp only [evalVE, Tree.ids]
      exact ⟨fun i _ => by simp [ids_with_next], fun i hi => by have := hn.bound i hi; simp [ids_with_next]; omega,
             fun i hi => by have := hn.bound i (by simp at hi; omega); simp [ids_with_next]; omega⟩
    | .freshTuple n, f, _, _, _, _, hn, _, _ => by
      simp only [evalVE, Tree.ids]
      exact ⟨fun i _ => by simp [ids_with_next], fun i hi => by have := hn.bound i hi; simp [ids_with_next]; omega,
             fun i hi => by have := hn.bound i (by simp at hi; omega); simp [ids_with_next]; omega⟩
    | .mkRef tgt, f, _, _, _, _, hn, _, _ => by
      simp only [evalVE, Tree.ids, idsItems]
      refine ⟨?_, ?_, ?_⟩
      · intro i hi
        have : ¬ f.nextId = i := by omega
        simp [ids_with_next, List.count_cons, this]
      · intro i hi
        have := hn.bound i hi
        simp only [ids_with_next, List.count_cons, List.count_nil]
        split <;> omega
      · intro i hi
        simp only at hi
        have := hn.bound i (by omega)
        have hne : ¬ f.nextId = i := by omega
        simp [ids_with_next, List.count_cons, hne]; omega
    | .ref id, f, par, hobj, _, p, hn, hp, hal => by
      simp only [evalVE] at hal ⊢
      exact relocateRef_ids cfg f pending par hobj p id P hn hp hal
    | .typedList items, f, par, _, _, p, hn, hp, hal => by
      simp only [evalVE] at hal ⊢
      have hn1 : NB { f with nextId := f.nextId + 1 } :=
        ⟨hn.nodup, fun i hi => hn.bound i (by simp at hi; omega)⟩
      have hp1 : PendOk { f with nextId := f.nextId + 1 } pending P :=
        ⟨hp.found, fun i hi => hp.pbound i (by simp at hi; omega)⟩
      have ih := evalItems_ids cfg pending P items { f with nextId := f.nextId + 1 } f.nextId false false p (some 0) hn1 hp1 hal
      have hnx := (evalItems_mono cfg pending items { f with nextId := f.nextId + 1 } f.nextId false false p (some 0)).next
      simp only [Tree.ids]
      exact wrapNode f _ pending _ _ P hn hp ih hnx (fun _ => Nat.le_refl _)
    | .node kind sl aw pt items, f, par, hobj, hpart, p, hn, hp, hal => by
      have hn1 : NB { f with nextId := f.nextId + 1 } :=
        ⟨hn.nodup, fun i hi => hn.bound i (by simp at hi; omega)⟩
      have hp1 : PendOk { f with nextId := f.nextId + 1 } pending P :=
        ⟨hp.found, fun i hi => hp.pbound i (by simp at hi; omega)⟩
      cases kind with
      | dict =>
        simp only [evalVE] at hal ⊢
        have ih := evalItems_ids cfg pending P items _ _ _ _ _ _ hn1 hp1 hal
        have hnx := (evalItems_mono cfg pending items { f with nextId := f.nextId + 1 } f.nextId false
          (if (par.isSome && !sl && aw && !pt && !false) = true then hpart else pt) p none).next
        rw [sealIf_ids]
        simp only [Tree.ids]
        exact wrapNode f _ pending _ _ P hn hp ih hnx (fun _ => Nat.le_refl _)
      | list =>
        simp only [evalVE] at hal ⊢
        have ih := evalItems_ids cfg pending P items _ _ _ _ _ _ hn1 hp1 hal
        have hnx := (evalItems_mono cfg pending items { f with nextId := f.nextId + 1 } f.nextId false
          (if (par.isSome && !sl && aw && !pt && !false) = true then hpart else pt) p (some 0)).next
        rw [sealIf_ids]
        simp only [Tree.ids]
        exact wrapNode f _ pending _ _ P hn hp ih hnx (fun _ => Nat.le_refl _)
      | obj cls =>
        simp only [evalVE] at hal ⊢
        have ih := evalItems_ids cfg pending P items _ _ _ _ _ _ hn1 hp1 hal
        have hnx := (evalItems_mono cfg pending items { f with nextId := f.nextId + 1 } f.nextId true
          (if (par.isSome && !sl && aw && !pt && !true) = true then hpart else pt) p none).next
        rw [sealIf_ids]
        simp only [Tree.ids]
        refine wrapNode f _ pending _ _ P hn hp ih hnx ?_
        intro i
        have := normObj_count cls ((evalItems cfg { f with nextId := f.nextId + 1 } pending f.nextId true
          (if (par.isSome && !sl && aw && !pt && !true) = true then hpart else pt) p none items).2.map
          (fun kv => (kv.1, adoptPartial true (if (par.isSome && !sl && aw && !pt && !true) = true then hpart else pt) kv.2))) i
        rw [adoptItems_ids] at this
        exact this
  theorem evalItems_ids (cfg : Cfg) (pending : Option Nat) (P : List Nat) : (items : List (Key × VE)) → ∀ (f : Forest)
      (h : Nat) (hobj hpart : Bool) (p : List Key) (pos : Option Nat), NB f → PendOk f pending P →
      (evalItems cfg f pending h hobj hpart p pos items).1.aliased = false →
      EvalIds f (evalItems cfg f pending h hobj hpart p pos items).1
        (idsItems (evalItems cfg f pending h hobj hpart p pos items).2) P
    | [], f, _, _, _, _, _, hn, _, _ => by
      simp only [evalItems, idsItems]
      exact ⟨fun i _ => by simp, fun i hi => by have := hn.bound i hi; simp; omega,
             fun i hi => by have := hn.bound i hi; simp; omega⟩
    | (k0, v) :: r, f, h, hobj, hpart, p, pos, hn, hp, hal => by
      simp only [evalItems] at hal ⊢
      have hma := evalVE_mono cfg pending v f (some h) hobj hpart
        (p ++ [match pos with | some n => Key.i n | none => k0])
      have hmb := evalItems_mono cfg pending r
        (evalVE cfg f pending (some h) hobj hpart (p ++ [match pos with | some n => Key.i n | none => k0]) v).1
        h hobj hpart p (pos.map (· + 1))
      have hala : (evalVE cfg f pending (some h) hobj hpart (p ++ [match pos with | some n => Key.i n | none => k0]) v).1.aliased = false := by
        cases hx : (evalVE cfg f pending (some h) hobj hpart (p ++ [match pos with | some n => Key.i n | none => k0]) v).1.aliased with
        | false => rfl
        | true => exact Bool.noConfusion (hal.symm.trans (hmb.aliased hx))
      have a := evalVE_ids cfg pending P v f (some h) hobj hpart _ hn hp hala
      have hna := hn.of_mono hma
      have hpa := hp.of_mono hn hma
      have b := evalItems_ids cfg pending P r _ h hobj hpart p (pos.map (· + 1)) hna hpa hal
      exact combineIds f _ _ pending _ _ P hn hp hma hmb a b
end

end Pg.Sym
