/-
  C04 helper lemmas: `Schema.apply` on schemas whose keys are all constant and distinct — the
  fields are then independent, and the acceptance set of a `Dict` spec has a closed form.
-/
import PgProofs.TypingAccepts
namespace Pg.Typing

/-- All keys of the schema are `ConstStrKey`s. -/
def constOnly : List Field → Bool
  | [] => true
  | .mk (.const _) _ :: fs => constOnly fs
  | .mk (.strKey _) _ :: _ => false

/-- Every const field accepts what the dict holds under its key (or its default). -/
def fieldsAll (env : Env) : List Field → List (String × Val) → Bool
  | [], _ => true
  | .mk (.const k) s :: rest, acc =>
    accepts env s (valueOrDefault acc k s.flags.default) && fieldsAll env rest acc
  | .mk (.strKey _) _ :: rest, acc => fieldsAll env rest acc

/-! ### `setKey` / `lookup` -/

theorem lookup_setKey_ne (acc : List (String × Val)) (k k' : String) (y : Val) (h : k' ≠ k) :
    lookup (setKey acc k y) k' = lookup acc k' := by
  induction acc with
  | nil =>
    simp only [setKey, lookup, List.find?]
    have : (k == k') = false := by simpa using fun e => h e.symm
    simp [this]
  | cons kv rest ih =>
    obtain ⟨l, w⟩ := kv
    simp only [setKey]
    by_cases hl : (l == k) = true
    · simp only [hl, if_true]
      have hlk : l = k := by simpa using hl
      subst hlk
      have : (l == k') = false := by simpa using fun e => h e.symm
      simp [lookup, List.find?, this]
    · simp only [hl, Bool.false_eq_true, if_false]
      unfold lookup at ih ⊢
      simp only [List.find?]
      cases hlk' : (l == k')
      · simp only; exact ih
      · rfl

theorem valueOrDefault_setKey_ne (acc : List (String × Val)) (k k' : String) (y d : Val)
    (h : k' ≠ k) : valueOrDefault (setKey acc k y) k' d = valueOrDefault acc k' d := by
  unfold valueOrDefault
  rw [lookup_setKey_ne acc k k' y h]

/-! ### One const field of `Schema.apply` -/

theorem applyFields_const (env : Env) (k : String) (s : Spec) (rest : List Field)
    (consts : List String) (earlier : List KeySpec) (p : Bool) (acc : List (String × Val)) :
    applyFields env (.mk (.const k) s :: rest) consts earlier p acc =
      match apply env s p (valueOrDefault acc k s.flags.default) with
      | .ok y => applyFields env rest consts earlier p (setKey acc k y)
      | .error e => .error e := by
  rw [applyFields]
  simp only [fieldKeys, List.mapM_cons, List.mapM_nil, KeySpec.isConst, if_true, bind, Except.bind,
    pure, Except.pure]
  cases apply env s p (valueOrDefault acc k s.flags.default) with
  | error e => rfl
  | ok y => simp [setKeys]

theorem fieldsAll_setKey (env : Env) (fields : List Field) (acc : List (String × Val)) (k : String)
    (y : Val) (hk : (constKeys fields).contains k = false) :
    fieldsAll env fields (setKey acc k y) = fieldsAll env fields acc := by
  induction fields with
  | nil => rfl
  | cons fld rest ih =>
    obtain ⟨ks, s⟩ := fld
    cases ks with
    | const k' =>
      simp only [constKeys, List.contains_cons, Bool.or_eq_false_iff, beq_eq_false_iff_ne, ne_eq] at hk
      simp only [fieldsAll]
      rw [valueOrDefault_setKey_ne acc k k' y _ (fun e => hk.1 e.symm), ih hk.2]
    | strKey r =>
      simp only [constKeys] at hk
      simp only [fieldsAll]
      exact ih hk

/-- With constant, distinct keys `Schema.apply` succeeds iff every field accepts its entry. -/
theorem isOk_applyFields_const (env : Env) (fields : List Field) (hc : constOnly fields = true)
    (hd : distinctStrs (constKeys fields) = true) (consts : List String) (earlier : List KeySpec)
    (acc : List (String × Val)) :
    isOk (applyFields env fields consts earlier false acc) = fieldsAll env fields acc := by
  induction fields generalizing acc with
  | nil => simp [applyFields, fieldsAll]
  | cons fld rest ih =>
    obtain ⟨ks, s⟩ := fld
    cases ks with
    | strKey r => simp [constOnly] at hc
    | const k =>
      simp only [constOnly] at hc
      simp only [constKeys, distinctStrs, Bool.and_eq_true, Bool.not_eq_true'] at hd
      rw [applyFields_const]
      simp only [fieldsAll, accepts]
      cases hx : apply env s false (valueOrDefault acc k s.flags.default) with
      | error e => simp
      | ok y =>
        simp only [isOk_ok, Bool.true_and]
        rw [ih hc hd.2, fieldsAll_setKey env rest acc k y hd.1]

/-- With constant keys only, the keys matched by no field are those outside the schema. -/
theorem unmatchedKeys_const (env : Env) (fields : List Field) (hc : constOnly fields = true)
    (kvs : List (String × Val)) :
    unmatchedKeys env fields kvs = (kvs.map (·.1)).filter (fun k => !(constKeys fields).contains k) := by
  have hn : nonConstKeySpecs fields = [] := by
    induction fields with
    | nil => rfl
    | cons fld rest ih =>
      obtain ⟨ks, s⟩ := fld
      cases ks with
      | strKey r => simp [constOnly] at hc
      | const k => simp only [constOnly] at hc; simp only [nonConstKeySpecs]; exact ih hc
  unfold unmatchedKeys
  simp [hn]

/-- Closed form of the acceptance set of a non-frozen `Dict` with a constant-key schema. -/
theorem accepts_dictSome (env : Env) (fields : List Field) (f : Flags) (hf : f.frozen = false)
    (hc : constOnly fields = true) (hd : distinctStrs (constKeys fields) = true) (v : Val) :
    accepts env (.dict (some fields) f) v =
      match v with
      | .none => f.noneable
      | .dict kvs => (unmatchedKeys env fields kvs).isEmpty && fieldsAll env fields kvs
      | _ => false := by
  cases v <;> simp [accepts, apply, isOk_gate_missing, isOk_gate_none, hf] <;>
    simp [gate, hf, Val.isMissing, Val.isNone, typeCheck, instOf, Val.ty, Ty.sub, convert,
      bind, Except.bind]
  rename_i kvs
  by_cases hu : unmatchedKeys env fields kvs = []
  · simp only [hu, if_true, accepts, List.isEmpty_nil, Bool.true_and]
    rw [← isOk_applyFields_const env fields hc hd (constKeys fields) [] kvs]
    cases applyFields env fields (constKeys fields) [] false kvs <;> simp
  · simp [hu]

/-- A non-frozen `Dict` with any schema accepts only `None` and dicts. -/
theorem accepts_dictSome_shape (env : Env) (fields : List Field) (f : Flags) (hf : f.frozen = false)
    (v : Val) (h : accepts env (.dict (some fields) f) v = true) :
    (v = .none ∧ f.noneable = true) ∨ ∃ kvs, v = .dict kvs := by
  cases v <;> simp [accepts, apply, isOk_gate_missing, isOk_gate_none, hf] at h <;>
    try (simp [gate, hf, Val.isMissing, Val.isNone, typeCheck, instOf, Val.ty, Ty.sub, convert,
      bind, Except.bind] at h)
  · exact Or.inl ⟨rfl, h⟩
  · exact Or.inr ⟨_, rfl⟩

/-! ### Field lookup -/

theorem fieldsAll_find (env : Env) (fields : List Field) (kvs : List (String × Val)) (k : String)
    (s : Spec) (hall : fieldsAll env fields kvs = true) (hfind : findField fields (.const k) = some s) :
    accepts env s (valueOrDefault kvs k s.flags.default) = true := by
  induction fields with
  | nil => simp [findField] at hfind
  | cons fld rest ih =>
    obtain ⟨ks, s'⟩ := fld
    simp only [findField] at hfind
    cases ks with
    | const k' =>
      simp only [fieldsAll, Bool.and_eq_true] at hall
      by_cases hk : (KeySpec.const k' == KeySpec.const k) = true
      · simp only [hk, if_true] at hfind
        injection hfind with hfind; subst hfind
        have : k' = k := by simpa using hk
        subst this
        exact hall.1
      · simp only [hk, Bool.false_eq_true, if_false] at hfind
        exact ih hall.2 hfind
    | strKey r =>
      simp only [fieldsAll] at hall
      have hk : (KeySpec.strKey r == KeySpec.const k) = false := by
        simp
      simp only [hk, Bool.false_eq_true, if_false] at hfind
      exact ih hall hfind

theorem mem_constKeys_of_find (fields : List Field) (k : String)
    (h : (findField fields (.const k)).isSome = true) : (constKeys fields).contains k = true := by
  induction fields with
  | nil => simp [findField] at h
  | cons fld rest ih =>
    obtain ⟨ks, s'⟩ := fld
    simp only [findField] at h
    cases ks with
    | const k' =>
      simp only [constKeys, List.contains_cons, Bool.or_eq_true, beq_iff_eq]
      by_cases hk : (KeySpec.const k' == KeySpec.const k) = true
      · left
        have : k' = k := by simpa using hk
        exact this.symm
      · simp only [hk, Bool.false_eq_true, if_false] at h
        exact Or.inr (ih h)
    | strKey r =>
      have hk : (KeySpec.strKey r == KeySpec.const k) = false := by
        simp
      simp only [hk, Bool.false_eq_true, if_false] at h
      simp only [constKeys]
      exact ih h

theorem find_of_mem_constKeys (fields : List Field) (k : String)
    (h : (constKeys fields).contains k = true) : ∃ s, Field.mk (.const k) s ∈ fields := by
  induction fields with
  | nil => simp [constKeys] at h
  | cons fld rest ih =>
    obtain ⟨ks, s'⟩ := fld
    cases ks with
    | const k' =>
      simp only [constKeys, List.contains_cons, Bool.or_eq_true, beq_iff_eq] at h
      rcases h with h | h
      · subst h; exact ⟨s', List.mem_cons_self⟩
      · obtain ⟨s, hs⟩ := ih h; exact ⟨s, List.mem_cons_of_mem _ hs⟩
    | strKey r =>
      simp only [constKeys] at h
      obtain ⟨s, hs⟩ := ih h; exact ⟨s, List.mem_cons_of_mem _ hs⟩

theorem unmatched_mono (env : Env) (fs ofs : List Field) (hcf : constOnly fs = true)
    (hcof : constOnly ofs = true) (hkeys : ofs.all (fun of_ => hasKey fs of_.key) = true)
    (kvs : List (String × Val)) (h : (unmatchedKeys env ofs kvs).isEmpty = true) :
    (unmatchedKeys env fs kvs).isEmpty = true := by
  rw [unmatchedKeys_const env _ hcf]
  rw [unmatchedKeys_const env _ hcof] at h
  simp only [List.isEmpty_iff, List.filter_eq_nil_iff, Bool.not_eq_true', Bool.not_eq_false] at h ⊢
  intro k hk
  have h1 := h k hk
  obtain ⟨s, hs⟩ := find_of_mem_constKeys ofs k h1
  have h2 := (List.all_eq_true.mp hkeys) _ hs
  exact mem_constKeys_of_find fs k h2

theorem valueOrDefault_missing (kvs : List (String × Val)) (k : String) (d : Val)
    (h : (valueOrDefault kvs k .missing).isMissing = false) :
    valueOrDefault kvs k d = valueOrDefault kvs k .missing := by
  unfold valueOrDefault at h ⊢
  cases hl : lookup kvs k with
  | none => simp [hl, Val.isMissing] at h
  | some x =>
    simp only [hl] at h ⊢
    by_cases hx : x.isMissing = true
    · rw [if_pos hx] at h; simp [Val.isMissing] at h
    · simp [hx]

end Pg.Typing
