/- C15 helper lemmas: chunk-independence of `Evolution.recover` when the feedback order does not cross
   the boundaries of the `recover()` calls (the complement of finding F166). -/
import PgProofs.GenEvoGen
namespace Pg.C15
open List

/-! ### the stable sort distributes over an ordered append -/

theorem keyLe_not_keyLt {a b : Nat × Nat} (h : keyLe a b = true) : ¬ keyLt b a = true := by
  simp only [keyLe, keyLt, Bool.or_eq_true, decide_eq_true_eq, Bool.and_eq_true] at *; omega

theorem insertSorted_head (x : Item × Option Int) (l : Hist) (h : ∀ z ∈ l, leFb x z) :
    insertSorted x l = x :: l := by
  cases l with
  | nil => rfl
  | cons z zs =>
    have := keyLe_not_keyLt (h z mem_cons_self)
    simp only [insertSorted, this, Bool.false_eq_true, ↓reduceIte]

theorem insertSorted_append_of_le (a : Item × Option Int) (L R : Hist) (h : ∀ r ∈ R, leFb a r) :
    insertSorted a (L ++ R) = insertSorted a L ++ R := by
  induction L with
  | nil => simp only [nil_append, insertSorted_head a R h]; rfl
  | cons y ys ih =>
    simp only [cons_append, insertSorted]
    split
    · rw [ih]; rfl
    · rfl

theorem sort_append_of_le (A B : Hist) (h : ∀ a ∈ A, ∀ b ∈ B, leFb a b) :
    sortByFeedback (A ++ B) = sortByFeedback A ++ sortByFeedback B := by
  induction A with
  | nil => rfl
  | cons a A' ih =>
    simp only [cons_append, sortByFeedback]
    rw [ih (fun x hx b hb => h x (mem_cons_of_mem _ hx) b hb)]
    exact insertSorted_append_of_le a _ _
      (fun r hr => h a mem_cons_self r ((mem_sortByFeedback r B).mp hr))

/-- filtering the fed-back entries commutes with insertion into a sorted list … -/
theorem fedOf_insertSorted (x : Item × Option Int) (l : Hist) (hs : l.Pairwise leFb) :
    fedOf (insertSorted x l) = if x.2.isSome then insertSorted x (fedOf l) else fedOf l := by
  induction l with
  | nil => by_cases hx : x.2.isSome <;> simp [insertSorted, fedOf, hx]
  | cons y ys ih =>
    rw [pairwise_cons] at hs
    simp only [insertSorted]
    split
    · rename_i hlt
      by_cases hy : y.2.isSome
      · have h1 : fedOf (y :: insertSorted x ys) = y :: fedOf (insertSorted x ys) := by simp [fedOf, hy]
        have h2 : fedOf (y :: ys) = y :: fedOf ys := by simp [fedOf, hy]
        rw [h1, h2, ih hs.2]
        by_cases hx : x.2.isSome
        · simp only [hx, ↓reduceIte, insertSorted, hlt]
        · simp only [hx, Bool.false_eq_true, ↓reduceIte]
      · have h1 : fedOf (y :: insertSorted x ys) = fedOf (insertSorted x ys) := by simp [fedOf, hy]
        have h2 : fedOf (y :: ys) = fedOf ys := by simp [fedOf, hy]
        rw [h1, h2, ih hs.2]
    · rename_i hlt
      have hxy : leFb x y := not_keyLt_le hlt
      by_cases hx : x.2.isSome
      · have h1 : fedOf (x :: y :: ys) = x :: fedOf (y :: ys) := by simp [fedOf, hx]
        rw [h1]
        simp only [hx, ↓reduceIte]
        rw [insertSorted_head]
        intro z hz
        have hz' : z ∈ y :: ys := (mem_filter.mp hz).1
        rcases mem_cons.mp hz' with rfl | hz'
        · exact hxy
        · exact keyLe_trans hxy (hs.1 z hz')
      · have h1 : fedOf (x :: y :: ys) = fedOf (y :: ys) := by simp [fedOf, hx]
        rw [h1]
        simp only [hx, Bool.false_eq_true, ↓reduceIte]

/-- … hence with the whole sort. -/
theorem fedOf_sort (l : Hist) : fedOf (sortByFeedback l) = sortByFeedback (fedOf l) := by
  induction l with
  | nil => rfl
  | cons x xs ih =>
    simp only [sortByFeedback]
    rw [fedOf_insertSorted x _ (sorted_sortByFeedback xs), ih]
    by_cases hx : x.2.isSome
    · have : fedOf (x :: xs) = x :: fedOf xs := by simp [fedOf, hx]
      simp only [hx, ↓reduceIte, this, sortByFeedback]
    · have : fedOf (x :: xs) = fedOf xs := by simp [fedOf, hx]
      simp only [hx, Bool.false_eq_true, ↓reduceIte, this]

/-- no proposal of the later chunk was fed back before a proposal of the earlier chunk -/
def chunkLe (c₁ c₂ : Hist) : Bool :=
  (fedOf c₁).all fun e => (fedOf c₂).all fun e' => keyLe (fbKey e) (fbKey e')

theorem fedOf_append (A B : Hist) : fedOf (A ++ B) = fedOf A ++ fedOf B := by simp [fedOf]

theorem fedOf_sort_append (A B : Hist) (h : chunkLe A B = true) :
    fedOf (sortByFeedback (A ++ B)) = fedOf (sortByFeedback A) ++ fedOf (sortByFeedback B) := by
  rw [fedOf_sort, fedOf_sort, fedOf_sort, fedOf_append]
  apply sort_append_of_le
  intro a ha b hb
  simp only [chunkLe, all_eq_true] at h
  exact h a ha b hb

/-! ### the generation counter is a maximum -/

def wOf (e : Item × Option Int) : Nat := if NonInit e then gidOf e else 0

def maxW : Hist → Nat
  | [] => 0
  | e :: l => max (wOf e) (maxW l)

theorem gStep_eq_max (g : Nat) (e : Item × Option Int) : gStep g e = max g (wOf e) := by
  unfold gStep wOf
  by_cases hn : NonInit e
  · by_cases hl : g < gidOf e
    · simp [hn, hl]; omega
    · simp [hn, hl]; omega
  · simp [hn]

theorem gFold_eq_max (l : Hist) (g : Nat) : l.foldl gStep g = max g (maxW l) := by
  induction l generalizing g with
  | nil => simp [maxW]
  | cons e l ih => simp only [foldl_cons, ih, gStep_eq_max, maxW]; omega

theorem maxW_append (A B : Hist) : maxW (A ++ B) = max (maxW A) (maxW B) := by
  induction A with
  | nil => simp [maxW]
  | cons a A ih => simp only [cons_append, maxW, ih]; omega

theorem maxW_perm {A B : Hist} (h : A ~ B) : maxW A = maxW B := by
  induction h with
  | nil => rfl
  | cons x _ ih => simp only [maxW, ih]
  | swap x y l => simp only [maxW]; omega
  | trans _ _ ih1 ih2 => rw [ih1, ih2]

theorem maxW_sort (l : Hist) : maxW (sortByFeedback l) = maxW l := maxW_perm (perm_sortByFeedback l)

/-! ### `Evolution.recover` from ANY evolution state, explicitly (repaired source) -/

theorem popOf_snd (env : Env) (pop : List Item) (nf : Nat) (xs : List Item) :
    (popOf env (pop, nf) xs).2 = nf + xs.length := by
  induction xs generalizing pop nf with
  | nil => rfl
  | cons x xs ih => simp only [popOf, foldl_cons, popStep] at ih ⊢; rw [ih]; simp; omega

theorem popOf_append (env : Env) (st : List Item × Nat) (xs ys : List Item) :
    popOf env st (xs ++ ys) = popOf env (popOf env st xs) ys := by
  simp [popOf, foldl_append]

def adjG (sz : Option Nat) (nf g : Nat) : Nat := if (doneInit sz nf && decide (g = 0)) = true then 1 else g

theorem recover_evolution_explicit (env : Env) (hq : env.q = Quirks.patched) (init : Algo) (sz : Option Nat)
    (np nf : Nat) (si : St) (ini : Bool) (g : Nat) (pop pend : List Item) (h : Hist) (hok : ∀ e ∈ h, EntryOk e) :
    recover env (.evolution init sz) (.evolution np nf si ini g pop pend) h
      = match recover env init si (h.filter isInitFed) with
        | .error e => .error e
        | .ok si' =>
          .ok (.evolution (np + h.length) (popOf env (pop, nf) ((fedOf (sortByFeedback h)).map (·.1))).2 si'
                (ini || doneInit sz (popOf env (pop, nf) ((fedOf (sortByFeedback h)).map (·.1))).2)
                (adjG sz (popOf env (pop, nf) ((fedOf (sortByFeedback h)).map (·.1))).2
                  ((sortByFeedback h).foldl gStep g))
                (popOf env (pop, nf) ((fedOf (sortByFeedback h)).map (·.1))).1 pend) := by
  have hg : env.q.evoInitGenBump = false := by rw [hq]; rfl
  have ho : env.q.evoProposalOrder = false := by rw [hq]; rfl
  have hd : env.q.evoInitDonePerCall = false := by rw [hq]; rfl
  have hloop := evoRecover_loop_full env hg (.evolution init sz) (sortByFeedback h)
    (fun e he => hok e ((mem_sortByFeedback e _).mp he)) np nf si ini g pop pend
  simp only [recover, ho, hloop, hg, hd, Bool.false_eq_true, ↓reduceIte, length_sortByFeedback,
    Bool.not_false, Bool.and_true, doneInit, adjG]
  cases recover env init si (filter isInitFed h) <;> cases sz <;> rfl

/-! ### two consecutive `recover()` calls = one call, when the feedback order respects the cut -/

theorem doneInit_mono (sz : Option Nat) {n m : Nat} (h : n ≤ m) (hd : doneInit sz n = true) : doneInit sz m = true := by
  cases sz with
  | none => simp [doneInit] at hd
  | some k => simp only [doneInit, decide_eq_true_eq] at *; omega

theorem adj_chain (d1 d2 : Bool) (h : d1 = true → d2 = true) (g a b : Nat) :
    (if (d2 && decide (max (if (d1 && decide (max g a = 0)) = true then 1 else max g a) b = 0)) = true then 1
      else max (if (d1 && decide (max g a = 0)) = true then 1 else max g a) b)
    = (if (d2 && decide (max g (max a b) = 0)) = true then 1 else max g (max a b)) := by
  cases d1 <;> cases d2
  · simp only [Bool.false_and, Bool.false_eq_true, ↓reduceIte]; omega
  · simp only [Bool.false_and, Bool.false_eq_true, ↓reduceIte, Bool.true_and, decide_eq_true_eq]
    split <;> split <;> omega
  · exact absurd (h rfl) (by simp)
  · simp only [Bool.true_and, decide_eq_true_eq]
    split <;> split <;> split <;> omega

theorem recover_base (env : Env) (init : Algo) (hb : IsBase init) (s : St) (h : Hist) :
    recover env init s h = baseRecover env init s h := by
  rcases hb with rfl | ⟨seed, sd, rfl⟩ <;> simp only [recover]

theorem recover_evolution_append (env : Env) (hq : env.q = Quirks.patched) (init : Algo) (hb : IsBase init)
    (sz : Option Nat) (np nf : Nat) (si : St) (ini : Bool) (g : Nat) (pop pend : List Item) (A B : Hist)
    (hokA : ∀ e ∈ A, EntryOk e) (hokB : ∀ e ∈ B, EntryOk e) (hle : chunkLe A B = true) :
    recover env (.evolution init sz) (.evolution np nf si ini g pop pend) (A ++ B)
      = match recover env (.evolution init sz) (.evolution np nf si ini g pop pend) A with
        | .error e => .error e
        | .ok s' => recover env (.evolution init sz) s' B := by
  have hokAB : ∀ e ∈ A ++ B, EntryOk e := by
    intro e he
    rcases mem_append.mp he with he | he
    · exact hokA e he
    · exact hokB e he
  rw [recover_evolution_explicit env hq init sz _ _ _ _ _ _ _ (A ++ B) hokAB,
      recover_evolution_explicit env hq init sz _ _ _ _ _ _ _ A hokA]
  rw [filter_append, recover_base env init hb, baseRecover_append, ← recover_base env init hb]
  cases hA : recover env init si (filter isInitFed A) with
  | error e => rfl
  | ok s1 =>
    simp only
    rw [recover_evolution_explicit env hq init sz _ _ _ _ _ _ _ B hokB, ← recover_base env init hb]
    cases hB : recover env init s1 (filter isInitFed B) with
    | error e => rfl
    | ok s2 =>
      simp only
      -- the population / feedback counter
      have hpop : popOf env (pop, nf) (map (·.1) (fedOf (sortByFeedback (A ++ B))))
          = popOf env (popOf env (pop, nf) (map (·.1) (fedOf (sortByFeedback A))))
              (map (·.1) (fedOf (sortByFeedback B))) := by
        rw [fedOf_sort_append A B hle, map_append, popOf_append]
      rw [hpop]
      generalize hXA : popOf env (pop, nf) (map (·.1) (fedOf (sortByFeedback A))) = XA
      obtain ⟨P1, N1⟩ := XA
      generalize hXB : popOf env (P1, N1) (map (·.1) (fedOf (sortByFeedback B))) = XB
      obtain ⟨P2, N2⟩ := XB
      have hN : N1 ≤ N2 := by
        have := popOf_snd env P1 N1 (map (·.1) (fedOf (sortByFeedback B)))
        rw [hXB] at this
        simp only at this
        omega
      have hmono : doneInit sz N1 = true → doneInit sz N2 = true := doneInit_mono sz hN
      simp only [gFold_eq_max, maxW_sort, maxW_append, adjG, length_append]
      have hg := adj_chain (doneInit sz N1) (doneInit sz N2) hmono g (maxW A) (maxW B)
      rw [hg]
      have hini : (ini || doneInit sz N1 || doneInit sz N2) = (ini || doneInit sz N2) := by
        cases ini <;> cases h1 : doneInit sz N1 <;> cases h2 : doneInit sz N2 <;> simp_all
      rw [hini, Nat.add_assoc]

/-! ### any number of calls -/

/-- The decidable side condition on the chunked history: for every two chunks, no proposal of the
later one was fed back before a proposal of the earlier one (the complement of F166's condition). -/
def chunksOrdered : List Hist → Bool
  | [] => true
  | c :: cs => cs.all (chunkLe c) && chunksOrdered cs

theorem chunkLe_flatten (c : Hist) (cs : List Hist) (h : cs.all (chunkLe c) = true) :
    chunkLe c cs.flatten = true := by
  simp only [chunkLe, all_eq_true] at h ⊢
  intro e he e' he'
  have hm : e' ∈ cs.flatten := (mem_filter.mp he').1
  obtain ⟨c', hc', hec'⟩ := mem_flatten.mp hm
  exact h c' hc' e he e' (mem_filter.mpr ⟨hec', (mem_filter.mp he').2⟩)

theorem recoverChunks_evolution (env : Env) (hq : env.q = Quirks.patched) (init : Algo) (hb : IsBase init)
    (sz : Option Nat) (hs : List Hist) :
    ∀ (h : Hist) (np nf : Nat) (si : St) (ini : Bool) (g : Nat) (pop pend : List Item),
      (∀ e ∈ h ++ hs.flatten, EntryOk e) → chunksOrdered (h :: hs) = true →
      recoverChunks env (.evolution init sz) (.evolution np nf si ini g pop pend) (h :: hs)
        = recover env (.evolution init sz) (.evolution np nf si ini g pop pend) (h ++ hs.flatten) := by
  induction hs with
  | nil =>
    intro h np nf si ini g pop pend _ _
    simp only [recoverChunks, flatten_nil, append_nil]
    cases recover env (.evolution init sz) (.evolution np nf si ini g pop pend) h <;> rfl
  | cons h2 rest ih =>
    intro h np nf si ini g pop pend hok hord
    simp only [chunksOrdered, Bool.and_eq_true] at hord
    obtain ⟨hhead, hrest⟩ := hord
    have hle : chunkLe h (h2 ++ rest.flatten) = true := by
      have := chunkLe_flatten h (h2 :: rest) hhead
      simpa using this
    have hokA : ∀ e ∈ h, EntryOk e := fun e he => hok e (mem_append.mpr (Or.inl he))
    have hokB : ∀ e ∈ h2 ++ rest.flatten, EntryOk e := fun e he =>
      hok e (mem_append.mpr (Or.inr (by simpa using he)))
    rw [flatten_cons, recover_evolution_append env hq init hb sz _ _ _ _ _ _ _ h _ hokA hokB hle]
    simp only [recoverChunks]
    rw [recover_evolution_explicit env hq init sz _ _ _ _ _ _ _ h hokA]
    cases recover env init si (filter isInitFed h) with
    | error e => rfl
    | ok s1 =>
      simp only
      exact ih h2 _ _ _ _ _ _ _ hokB (by simp only [chunksOrdered, Bool.and_eq_true]; exact hrest)

end Pg.C15
