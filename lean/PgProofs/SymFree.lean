/-
  Roots stay parentless (`rootsFree`) also through the operations that offer values — every
  operation except a slice assignment on a tree without the F225 fix.
-/
import PgProofs.SymNoAlias
namespace Pg.Sym
variable {lcs nb : Bool} {sp : Option Bool} {sat : Bool}

theorem free_of_mono {f f' : Forest} (hf : f.rootsFree = true) (hm : EvalMono f f') : f'.rootsFree = true := by
  rw [Forest.rootsFree_iff] at *
  intro r hr; exact hf r (hm.roots.subset hr)

theorem evalVE_free (cfg : Cfg) (pending : Option Nat) (ve : VE) (f : Forest) (par : Option Nat) (hobj hpart : Bool)
    (p : List Key) (hf : f.rootsFree = true) : (evalVE cfg f pending par hobj hpart p ve).1.rootsFree = true :=
  free_of_mono hf (evalVE_mono cfg pending ve f par hobj hpart p)

theorem seal_parentless (b : Bool) (t : Tree) : (t.seal b).parentless = t.parentless := by
  cases t <;> rfl

theorem sealIf_parentless (b : Bool) (t : Tree) : (sealIf b t).parentless = t.parentless := by
  unfold sealIf; split
  · exact seal_parentless true t
  · rfl

theorem clone_parentless (cfg : Cfg) (deep : Bool) (next : Nat) (p : List Key) (t : Tree) :
    (t.clone cfg deep next none p).1.parentless = true := by
  cases t with
  | leaf a => cases a <;> cases deep <;> simp [Tree.clone, Tree.parentless]
  | node m its =>
    unfold Tree.clone
    simp only
    rw [sealIf_parentless]; rfl

theorem evalVE_node_parentless (cfg : Cfg) (f : Forest) (kind : Kind) (sl aw pt : Bool) (items : List (Key × VE)) :
    (evalVE cfg f none none false false [] (.node kind sl aw pt items)).2.parentless = true := by
  simp only [evalVE]
  rw [sealIf_parentless]; rfl

theorem listReplace_free (cfg : Cfg) (f : Forest) (m : Meta) (index : Int) (pos : Nat) (old : Tree) (ve : VE)
    (hf : f.rootsFree = true) : ∀ g, listReplace cfg f m index pos old ve = some g → g.rootsFree = true := by
  intro g hg
  unfold listReplace at hg
  simp only at hg
  split at hg
  · cases hg
  · cases hg
    exact addRoot_free _ _ (mapAt_free _ _ _ (evalVE_free cfg none ve f _ _ _ _ hf)) (setParent_none_parentless old)

theorem listInsert_free (cfg : Cfg) (f : Forest) (m : Meta) (its : Items) (index : Int) (len : Nat) (ve : VE)
    (hf : f.rootsFree = true) : ∀ g, listInsert cfg f m its index len ve = some g → g.rootsFree = true := by
  intro g hg
  unfold listInsert at hg
  simp only at hg
  split at hg
  · split at hg
    · cases hg
    · cases hg; exact mapAt_free _ _ _ hf
  · split at hg
    · cases hg
    · cases hg; exact mapAt_free _ _ _ (evalVE_free cfg none ve f _ _ _ _ hf)

theorem listAppend_free (cfg : Cfg) (f : Forest) (m : Meta) (index : Int) (ve : VE)
    (hf : f.rootsFree = true) : ∀ g, listAppend cfg f m index ve = some g → g.rootsFree = true := by
  intro g hg
  unfold listAppend at hg
  simp only at hg
  split at hg
  · cases hg
  · cases hg; exact mapAt_free _ _ _ (evalVE_free cfg none ve f _ _ _ _ hf)

theorem rawSetList_free (cfg : Cfg) (f : Forest) (m : Meta) (its : Items) (key : Int) (ins : Bool) (ve : VE)
    (hf : f.rootsFree = true) : ∀ r, rawSetList cfg f m its key ins ve = .ok r → r.1.rootsFree = true := by
  intro r hr
  rcases rawSetList_cases cfg f m its key ins ve r hr with rfl | ⟨i, p, old, _, h⟩ | ⟨i, l, h⟩ | h
  · exact hf
  · exact listReplace_free cfg f m i p old ve hf _ h
  · exact listInsert_free cfg f m its i l ve hf _ h
  · exact listAppend_free cfg f m _ ve hf _ h

theorem dictStore_free (cfg : Cfg) (f : Forest) (m : Meta) (its : Items) (key : Key) (ve : VE)
    (hf : f.rootsFree = true) : ∀ g, dictStore cfg f m its key ve = some g → g.rootsFree = true := by
  intro g hg
  unfold dictStore dictStoreCore at hg
  simp only at hg
  split at hg
  · cases hg
  · cases hg
    have h1 : f.clearConsumed.rootsFree = true := hf
    have h3 := mapAt_free _ m.id (storeKey key key (adoptPartial (isObjKind m.kind) m.part
      (evalVE cfg f.clearConsumed ((dictDetached its key).bind Tree.id?) (some m.id) (isObjKind m.kind) m.part (m.path ++ [key]) ve).2))
      (evalVE_free cfg ((dictDetached its key).bind Tree.id?) ve f.clearConsumed (some m.id) (isObjKind m.kind) m.part (m.path ++ [key]) h1)
    split
    · exact h3
    · exact addRoots_free _ _ h3 (dictDetached_free its key)

theorem rawSetDict_free (cfg : Cfg) (f : Forest) (m : Meta) (its : Items) (key : Key) (ve : VE)
    (hf : f.rootsFree = true) : ∀ r, rawSetDict cfg f m its key ve = .ok r → r.1.rootsFree = true := by
  intro r hr
  rcases rawSetDict_cases cfg f m its key ve r hr with rfl | rfl | h
  · exact hf
  · unfold dictErase
    exact addRoots_free _ _ (mapAt_free f m.id _ hf) (dictDetached_free its key)
  · exact dictStore_free cfg f m its key _ hf _ h

theorem rawSet_free (cfg : Cfg) (f : Forest) (t : Nat) (key : Key) (ins : Bool) (ve : VE) (hf : f.rootsFree = true) :
    ∀ r, rawSet cfg f t key ins ve = .ok r → r.1.rootsFree = true := by
  intro r hr
  unfold rawSet at hr
  split at hr
  · split at hr
    · exact rawSetList_free cfg f _ _ _ ins ve hf r hr
    · cases hr
    · exact rawSetDict_free cfg f _ _ _ ve hf r hr
  · cases hr

theorem finish_free (f : Forest) (n : Bool) (r : Except Err (Forest × Bool)) (targets : List Nat) (hf : f.rootsFree = true)
    (hr : ∀ x, r = .ok x → x.1.rootsFree = true) : (finish f n r targets).forest.rootsFree = true := by
  unfold finish
  split
  · exact hf
  · next f' upd =>
    have := hr (f', upd) rfl
    simp only
    split
    · exact notify_free _ _ this
    · exact this

theorem extendLoop_free (cfg : Cfg) (t : Nat) : (vs : List VE) → ∀ (f : Forest) (upd : Bool), f.rootsFree = true →
    ∀ r, extendLoop cfg t f vs upd = .ok r → r.1.rootsFree = true
  | [], f, upd, hf, r, hr => by simp only [extendLoop] at hr; cases hr; exact hf
  | v :: vs, f, upd, hf, r, hr => by
    simp only [extendLoop] at hr
    split at hr
    · next m its hfind =>
      split at hr
      · cases hr
      · next f' u heq =>
        exact extendLoop_free cfg t vs f' _ (rawSetList_free cfg f m its _ false v hf (f', u) heq) r hr
    · cases hr

theorem rebindOne_free (cfg : Cfg) (f : Forest) (t : Nat) (path : List Key) (ins : Bool) (v : VE) (hf : f.rootsFree = true) :
    ∀ r, rebindOne cfg f t path ins v = .ok r → r.1.rootsFree = true := by
  intro r hr
  unfold rebindOne at hr
  split at hr
  · cases hr
  · cases hr
  · split at hr
    · split at hr
      · cases hr
      · split at hr
        · cases hr
        · next f' upd heq =>
          cases hr
          exact rawSet_free cfg f _ _ _ v hf (f', upd) heq
    · split at hr <;> cases hr

theorem rebindLoop_free (cfg : Cfg) (t : Nat) : (pairs : List (List Key × Bool × VE)) → ∀ (f : Forest) (acc : List Nat),
    f.rootsFree = true → (rebindLoop cfg t f pairs acc).1.rootsFree = true
  | [], f, acc, hf => by simp only [rebindLoop]; exact hf
  | (p, ins, v) :: rest, f, acc, hf => by
    simp only [rebindLoop]
    split
    · exact hf
    · next f' u heq =>
      exact rebindLoop_free cfg t rest f' _ (rebindOne_free cfg f t p ins v hf (f', u) heq)

theorem doRebind_free (cfg : Cfg) (f : Forest) (n : Bool) (t : Nat) (m : Meta) (pairs : List (List Key × Bool × VE))
    (skip : Option Bool) (raise : Bool) (hf : f.rootsFree = true) :
    (doRebind cfg f n t m pairs skip raise).forest.rootsFree = true := by
  unfold doRebind
  split; · exact hf
  split; · exact hf
  split
  · exact hf
  · simp only
    have h := rebindLoop_free cfg t (if m.kind = Kind.list then sortPairsDesc pairs else pairs) f [] hf
    generalize rebindLoop cfg t f (if m.kind = Kind.list then sortPairsDesc pairs else pairs) [] = x at h ⊢
    obtain ⟨f', targets, e⟩ := x
    cases e with
    | some e => exact h
    | none =>
      simp only
      split
      · exact h
      · exact notify_free _ _ h

theorem setItem_free (cfg : Cfg) (f : Forest) (n : Bool) (m : Meta) (its : Items) (k : Key) (v : VE)
    (hf : f.rootsFree = true) : (setItem cfg f n m its k v).forest.rootsFree = true := by
  unfold setItem
  split; · exact hf
  split; · exact hf
  split
  · simp only
    split
    · exact hf
    · exact finish_free f n _ _ hf (rawSetList_free cfg f m its _ false v hf)
  · exact hf
  · exact finish_free f n _ _ hf (rawSetDict_free cfg f m its _ v hf)

/-- the operations that offer values, a slice assignment excepted. -/
def Offering : Op → Bool
  | .new _ | .clone _ _ | .setItem _ _ _ | .lAppend _ _ | .lInsert _ _ _ | .lExtend _ _ | .lIMul _ _
  | .dSetDefault _ _ _ | .dUpdate _ _ | .rebind _ _ _ => true
  | _ => false

theorem step_free_offering (f : Forest) (n : Bool) (op : Op) (hf : f.rootsFree = true) (ho : Offering op = true) :
    (step (Cfg.fixedWith lcs nb sp sat) f n op).forest.rootsFree = true := by
  cases op <;> simp [Offering] at ho
  case new v =>
    cases v with
    | node kind sl aw pt items =>
      simp only [step]
      exact addRoot_free _ _ (evalVE_free _ none _ f none false false [] hf) (evalVE_node_parentless _ f kind sl aw pt items)
    | atom a => simp only [step]; exact hf
    | fresh => simp only [step]; exact hf
    | freshTuple k => simp only [step]; exact hf
    | mkRef tg => simp only [step]; exact hf
    | typedList items => simp only [step]; exact hf
    | ref id => simp only [step]; exact hf
  case clone t deep =>
    cases hfind : f.find? t with
    | none => simp only [step, hfind]; exact hf
    | some tr =>
      simp only [step, hfind]
      rw [Forest.rootsFree_iff] at hf ⊢
      intro r hr
      simp only [List.mem_append, List.mem_singleton] at hr
      rcases hr with hr | rfl
      · exact hf r hr
      · exact clone_parentless _ _ _ _ _
  case setItem t k v =>
    cases hfind : f.find? t with
    | none => simp only [step, hfind]; exact hf
    | some tr =>
      cases tr with
      | leaf a => simp only [step, hfind]; exact hf
      | node m its =>
        simp only [step, hfind]
        exact setItem_free _ f n m its k v hf
  case lAppend t v =>
    cases hfind : f.find? t with
    | none => simp only [step, hfind]; exact hf
    | some tr =>
      cases tr with
      | leaf a => simp only [step, hfind]; exact hf
      | node m its =>
        simp only [step, hfind]
        split
        · exact hf
        · exact finish_free f n _ _ hf (rawSetList_free _ f m its _ false v hf)
  case lInsert t idx v =>
    cases hfind : f.find? t with
    | none => simp only [step, hfind]; exact hf
    | some tr =>
      cases tr with
      | leaf a => simp only [step, hfind]; exact hf
      | node m its =>
        simp only [step, hfind]
        split
        · exact hf
        · exact finish_free f n _ _ hf (rawSetList_free _ f m its _ true v hf)
  case lExtend t vs =>
    cases hfind : f.find? t with
    | none => simp only [step, hfind]; exact hf
    | some tr =>
      cases tr with
      | leaf a => simp only [step, hfind]; exact hf
      | node m its =>
        simp only [step, hfind]
        split
        · exact hf
        · exact finish_free f n _ _ hf (extendLoop_free _ t vs f false hf)
  case lIMul t k =>
    cases hfind : f.find? t with
    | none => simp only [step, hfind]; exact hf
    | some tr =>
      cases tr with
      | leaf a => simp only [step, hfind]; exact hf
      | node m its =>
        simp only [step, hfind]
        split
        · split
          · exact hf
          · exact clearAndNotify_free f n t m its hf
        · split
          · exact hf
          · exact finish_free f n _ _ hf (extendLoop_free _ t _ f false hf)
  case dSetDefault t k v =>
    cases hfind : f.find? t with
    | none => simp only [step, hfind]; exact hf
    | some tr =>
      cases tr with
      | leaf a => simp only [step, hfind]; exact hf
      | node m its =>
        simp only [step, hfind]
        split
        · exact hf
        · exact setItem_free _ f n m its k v hf
  case dUpdate t kvs =>
    cases hfind : f.find? t with
    | none => simp only [step, hfind]; exact hf
    | some tr =>
      cases tr with
      | leaf a => simp only [step, hfind]; exact hf
      | node m its =>
        simp only [step, hfind]
        exact doRebind_free _ f n t m _ _ _ hf
  case rebind t pairs skip =>
    cases hfind : f.find? t with
    | none => simp only [step, hfind]; exact hf
    | some tr =>
      cases tr with
      | leaf a => simp only [step, hfind]; exact hf
      | node m its =>
        simp only [step, hfind]
        exact doRebind_free _ f n t m _ _ _ hf

end Pg.Sym
