/- C14 — the Order crossover returns its parents or children that passed `from_dict`. -/
import PgModel.EvoPerm
import PgProofs.EvoPure
namespace Pg.C14

theorem mem_dedupDna : ∀ (l acc : List DNA) (z : DNA), z ∈ dedupDna l acc → z ∈ l ∨ z ∈ acc := by
  intro l
  induction l with
  | nil => intro acc z h; simp only [dedupDna, List.mem_reverse] at h; exact Or.inr h
  | cons x xs ih =>
    intro acc z h
    simp only [dedupDna] at h
    split at h
    · rcases ih acc z h with h | h
      · exact Or.inl (List.mem_cons_of_mem _ h)
      · exact Or.inr h
    · rcases ih (x :: acc) z h with h | h
      · exact Or.inl (List.mem_cons_of_mem _ h)
      · rcases List.mem_cons.mp h with h | h
        · exact Or.inl (by rw [h]; exact List.mem_cons_self)
        · exact Or.inr h

theorem mem_orderBy (mine rec : List DNA) (z : DNA) (h : z ∈ orderBy mine rec) : z ∈ mine := by
  simp only [orderBy, List.mem_append, List.mem_filterMap, List.mem_filter] at h
  rcases h with ⟨r, _, hr⟩ | ⟨h, _⟩
  · exact List.mem_of_find?_eq_some hr
  · exact h

theorem setOrder_spec (children : List DNA) (s : St) (out : List DNA) (s' : St)
    (h : setOrder children s = .ok (out, s')) : (∀ z ∈ out, z ∈ children) ∧ s'.nextUid = s.nextUid := by
  simp only [setOrder] at h
  split at h
  · rw [pure_ok] at h
    obtain ⟨rfl, rfl⟩ := h
    refine ⟨?_, rfl⟩
    intro z hz
    rcases mem_dedupDna _ _ _ hz with h | h
    · exact h
    · simp at h
  · rw [bind_ok] at h
    obtain ⟨rec, s1, h1, h2⟩ := h
    have hu : s1.nextUid = s.nextUid := by
      unfold nextOrder at h1
      rw [bind_ok] at h1
      obtain ⟨e, s0, h3, h4⟩ := h1
      have := popEv_uid h3
      split at h4
      · rw [pure_ok] at h4; rw [← h4.2, this]
      · exact ((fail_ok _ _ _).mp h4).elim
    split at h2
    · rw [pure_ok] at h2
      obtain ⟨rfl, rfl⟩ := h2
      refine ⟨?_, hu⟩
      intro z hz
      rcases mem_dedupDna _ _ _ hz with h | h
      · have := mem_orderBy _ _ _ h
        rcases mem_dedupDna _ _ _ this with h | h
        · exact h
        · simp at h
      · simp at h
    · exact ((fail_ok _ _ _).mp h2).elim

theorem mkChildren_spec : ∀ (l : List DNA) (s : St) (out : Pop) (s' : St),
    forEachM mkChild l s = .ok (out, s') →
    s'.nextUid = s.nextUid + l.length ∧
    All2 (fun d y => y.dna = d ∧ s.nextUid ≤ y.uid ∧ y.uid < s.nextUid + l.length) l out := by
  intro l
  induction l with
  | nil =>
    intro s out s' h
    simp only [forEachM] at h
    rw [pure_ok] at h
    obtain ⟨rfl, rfl⟩ := h
    exact ⟨rfl, All2.nil⟩
  | cons d ds ih =>
    intro s out s' h
    simp only [forEachM] at h
    rw [bind_ok] at h
    obtain ⟨y, s1, h1, h2⟩ := h
    rw [bind_ok] at h2
    obtain ⟨ys, s2, h3, h4⟩ := h2
    rw [pure_ok] at h4
    obtain ⟨rfl, rfl⟩ := h4
    obtain ⟨hd, huid, hu1⟩ := mkChild_spec h1
    obtain ⟨hu2, hall⟩ := ih s1 ys s2 h3
    refine ⟨by rw [hu2, hu1]; simp only [List.length_cons]; omega, ?_⟩
    refine All2.cons ⟨hd, by omega, by simp only [List.length_cons]; omega⟩ ?_
    refine All2.imp ?_ hall
    intro a b hh
    refine ⟨hh.1, by omega, ?_⟩
    have := hh.2.2
    simp only [List.length_cons]
    omega

/-- whatever the proposals are, every survivor passed `from_dict` and is a fresh object. -/
theorem finishChildren_spec (g : GSpec) (raw : List DNA) (st : St) (out : Pop) (st' : St)
    (h : finishChildren g raw st = .ok (out, st')) :
    st.nextUid ≤ st'.nextUid ∧
    ∀ y ∈ out, valid g y.dna = true ∧ aligned y.dna = true ∧ st.nextUid ≤ y.uid ∧ y.uid < st'.nextUid := by
  simp only [finishChildren] at h
  rw [bind_ok] at h
  obtain ⟨o1, s1, h1, h2⟩ := h
  rw [bind_ok] at h2
  obtain ⟨o2, s2, h3, h4⟩ := h2
  obtain ⟨hf, hu1⟩ := forEachM_spec (checked g) (fun t => t.nextUid = st.nextUid)
    (fun _ d => valid g d = true ∧ aligned d = true) raw
    (by intro d _ t b t' ht hb
        obtain ⟨hv, ha, rfl⟩ := checked_spec hb
        exact ⟨⟨hv, ha⟩, ht⟩) st o1 s1 rfl h1
  obtain ⟨hsub, hu2⟩ := setOrder_spec o1 s1 o2 s2 h3
  have hgood : ∀ d ∈ o2, valid g d = true ∧ aligned d = true := by
    intro d hd
    obtain ⟨_, _, h⟩ := all2_out hf d (hsub d hd)
    exact h
  obtain ⟨hu3, hall⟩ := mkChildren_spec o2 s2 out st' h4
  refine ⟨by omega, ?_⟩
  intro y hy
  obtain ⟨d, hd, hr⟩ := all2_out hall y hy
  obtain ⟨hv, ha⟩ := hgood d hd
  rw [hr.1]
  exact ⟨hv, ha, by omega, by omega⟩

theorem OO_cutPoints (n : Nat) : OO (cutPoints n) := by
  unfold cutPoints
  apply OO.bind (OO_nextSample _ _)
  intro ab
  rcases ab with _ | ⟨a, _ | ⟨b, _ | ⟨c, r⟩⟩⟩
  · exact OO.fail _
  · exact OO.fail _
  · exact OO.pure _
  · exact OO.fail _

theorem OO_permuteOrder (vx vy : List Nat) : OO (permuteOrder vx vy) := by
  unfold permuteOrder
  exact OO.bind (OO_cutPoints _) (fun _ => OO.pure _)

theorem OO_permutePMX (vx vy : List Nat) : OO (permutePMX vx vy) := by
  unfold permutePMX
  apply OO.bind (OO_cutPoints _)
  intro se
  cases pmxChild vx vy se.1 se.2 with
  | none => exact OO.fail _
  | some c0 =>
    cases pmxChild vy vx se.1 se.2 with
    | none => exact OO.fail _
    | some c1 => exact OO.pure _

theorem OO_cycleLoop (p0 p1 : List Nat) : ∀ (is : List Nat) (asg : List (Option Bool)), OO (cycleLoop p0 p1 is asg) := by
  intro is
  induction is with
  | nil => intro asg; simp only [cycleLoop]; exact OO.pure _
  | cons i is ih =>
    intro asg
    simp only [cycleLoop]
    split
    · exact ih _
    · apply OO.bind (OO_nextIdx _ _)
      intro c
      cases orbit p0 p1 i with
      | none => exact OO.fail _
      | some o => exact ih _

theorem OO_permuteCycle (vx vy : List Nat) : OO (permuteCycle vx vy) := by
  unfold permuteCycle
  apply OO.bind (OO_cycleLoop _ _ _ _)
  intro asg
  cases allSomeBool asg with
  | none => exact OO.fail _
  | some sides => exact OO.pure _

theorem OO_place (loc : Option Nat) (x y : DNA) (c0 c1 : List Nat) : OO (place loc x y c0 c1) := by
  unfold place
  cases loc with
  | none => exact OO.pure _
  | some j =>
    simp only []
    cases elemOf x j with
    | none => exact OO.fail _
    | some ex =>
      cases elemOf y j with
      | none => exact OO.fail _
      | some ey =>
        simp only []
        split
        · exact OO.pure _
        · exact OO.fail _

theorem OO_permProposals (permute : List Nat → List Nat → M (List Nat × List Nat))
    (hp : ∀ vx vy, OO (permute vx vy)) (k : Nat) (pts : List PermPoint) (x y : DNA) :
    OO (permProposals permute k pts x y) := by
  unfold permProposals
  apply OO.bind
  · unfold pickPoints
    split
    · exact OO.pure _
    · exact OO.bind (OO_nextSample _ _) (fun _ => OO.pure _)
  · intro ts
    refine OO.bind (OO_forEachM _ (fun t => ?_) _) (fun _ => OO.pure _)
    cases pts[t]? with
    | none => exact OO.fail _
    | some lk =>
      obtain ⟨loc, vx, vy⟩ := lk
      simp only []
      exact OO.bind (hp vx vy) (fun cs => OO_place _ _ _ _ _)

/-- a permutation recombinator returns its two parents (no permutation point) or children that passed
`from_dict` and are new objects — whatever its `permutate` method proposes and however many points
the `where.Any(k)` filter selects. -/
theorem recPerm_spec (permute : List Nat → List Nat → M (List Nat × List Nat))
    (hp : ∀ vx vy, OO (permute vx vy)) (k : Nat) (g : GSpec) (pop : Pop) (st : St) (out : Pop) (st' : St)
    (h : recPerm permute k g pop st = .ok (out, st')) :
    (out = pop ∧ st.nextUid = st'.nextUid) ∨
    (st.nextUid ≤ st'.nextUid ∧
     ∀ y ∈ out, valid g y.dna = true ∧ aligned y.dna = true ∧ st.nextUid ≤ y.uid ∧ y.uid < st'.nextUid) := by
  unfold recPerm at h
  split at h
  · split at h
    · exact ((fail_ok _ _ _).mp h).elim
    · rw [bind_ok] at h
      obtain ⟨raw, s1, h1, h2⟩ := h
      have hu := OO_permProposals permute hp _ _ _ _ st raw s1 h1
      split at h2
      · rw [pure_ok] at h2
        obtain ⟨rfl, rfl⟩ := h2
        exact Or.inl ⟨rfl, hu.symm⟩
      · obtain ⟨hle, hall⟩ := finishChildren_spec g raw s1 out st' h2
        refine Or.inr ⟨by omega, ?_⟩
        intro y hy
        obtain ⟨hv, ha, h1', h2'⟩ := hall y hy
        exact ⟨hv, ha, by omega, h2'⟩
  · exact ((fail_ok _ _ _).mp h).elim

theorem recOrder_spec (g : GSpec) (pop : Pop) (st : St) (out : Pop) (st' : St)
    (h : recOrder g pop st = .ok (out, st')) :
    (out = pop ∧ st.nextUid = st'.nextUid) ∨
    (st.nextUid ≤ st'.nextUid ∧
     ∀ y ∈ out, valid g y.dna = true ∧ aligned y.dna = true ∧ st.nextUid ≤ y.uid ∧ y.uid < st'.nextUid) :=
  recPerm_spec permuteOrder OO_permuteOrder 1 g pop st out st' h

end Pg.C14
