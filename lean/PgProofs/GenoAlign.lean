/-
  C12: binding (`annot`, the beliefs after `use_spec`) succeeds on every valid DNA, keeps its raw
  numbers, and the result is aligned.
-/
import PgProofs.GenoValid
import PgModel.Geno.Views
namespace Pg.Geno
open DNA

theorem eraseList_unbound : ∀ cs : List DNA, eraseList (unboundList cs) = cs
  | [] => rfl
  | c :: cs => by
    cases c with
    | mk v gs => simp [unboundList, unboundOf, eraseList, BDNA.erase, eraseList_unbound gs, eraseList_unbound cs]

theorem mapIdxM_erase (f : Nat → DNA → Option BDNA) : ∀ (cs : List DNA) (s : Nat),
    (∀ x ∈ cs, ∀ i, ∃ b, f i x = some b ∧ b.erase = x) →
    ∃ bs, mapIdxM f s cs = some bs ∧ eraseList bs = cs
  | [], _, _ => ⟨[], rfl, rfl⟩
  | x :: xs, s, h => by
    obtain ⟨b, hb, he⟩ := h x List.mem_cons_self s
    obtain ⟨bs, hbs, hes⟩ := mapIdxM_erase f xs (s + 1) (fun y hy i => h y (List.mem_cons_of_mem _ hy) i)
    exact ⟨b :: bs, by simp [mapIdxM, hb, hbs], by simp [eraseList, he, hes]⟩

theorem annotSingle_erase (dp : Dp) (kat : Nat → List DNA → Option (List BDNA)) (x : DNA)
    (vk : Nat → List DNA → Bool) (hx : validNodeWith dp.n vk x = true)
    (hk : ∀ v ks, vk v ks = true → ∃ bs, kat v ks = some bs ∧ eraseList bs = ks) :
    ∃ b, annotSingleWith dp kat x = some b ∧ b.erase = x := by
  cases x with
  | mk w ks =>
    cases w with
    | int i =>
      simp only [validNodeWith, Bool.and_eq_true, decide_eq_true_eq] at hx
      obtain ⟨bs, hbs, hes⟩ := hk _ _ hx.2
      have hr : inRange dp.n i = true := by simp [inRange, hx.1.1, hx.1.2]
      exact ⟨.mk (.int i) (some dp) bs, by simp [annotSingleWith, hr, hbs], by simp [BDNA.erase, hes]⟩
    | none => simp [validNodeWith] at hx
    | flt => simp [validNodeWith] at hx
    | str => simp [validNodeWith] at hx

theorem annotLeaf_erase (pre : List Tok) (p : Point) (hp : ∀ k c d s i, p ≠ .choices k c d s i) (x : DNA)
    (h : validP p x = true) : ∃ b, annotLeaf pre p x = some b ∧ b.erase = x := by
  cases p with
  | choices k c d s i => exact absurd rfl (hp k c d s i)
  | float a b c' d' info =>
    cases x with
    | mk w cs =>
      cases w with
      | flt n e => exact ⟨_, rfl, by simp [BDNA.erase, eraseList_unbound]⟩
      | none => simp [validP] at h
      | int => simp [validP] at h
      | str => simp [validP] at h
  | custom info =>
    cases x with
    | mk w cs =>
      cases w with
      | str s => exact ⟨_, rfl, by simp [BDNA.erase, eraseList_unbound]⟩
      | none => simp [validP] at h
      | int => simp [validP] at h
      | flt => simp [validP] at h

/-- `_use_spec_for_child_choices` on `k` valid single-choice nodes. -/
theorem annotChoiceNodes_erase (id : List Tok) (k n : Nat) (info : Info)
    (kat : List Tok → Nat → List DNA → Option (List BDNA)) (vk : Nat → List DNA → Bool) (cs : List DNA)
    (hl : cs.length = k) (hall : cs.all (validNodeWith n vk) = true)
    (hk : ∀ id' v ks, vk v ks = true → ∃ bs, kat id' v ks = some bs ∧ eraseList bs = ks) :
    ∃ bs, annotChoiceNodes id k n info kat cs = some bs ∧ eraseList bs = cs := by
  unfold annotChoiceNodes
  have hne : (cs.length != k) = false := by simp [hl]
  simp only [hne, Bool.false_eq_true, if_false]
  have hnodes := List.all_eq_true.mp hall
  by_cases hk1 : (k == 1) = true
  · simp only [hk1, if_true]
    exact mapIdxM_erase _ cs 0 (fun x hx i =>
      annotSingle_erase (choiceDp id none none info n) (kat id) x vk (hnodes x hx) (hk id))
  · simp only [hk1, Bool.false_eq_true, if_false]
    exact mapIdxM_erase _ cs 0 (fun x hx i =>
      annotSingle_erase (choiceDp (id ++ [.i (i : Nat)]) (some id) (some i) info n k) (kat (id ++ [.i (i : Nat)])) x vk
        (hnodes x hx) (hk _))

mutual
  theorem annotP_erase (p : Point) : ∀ (pre : List Tok) (d : DNA), validP p d = true →
      ∃ b, annotP pre p d = some b ∧ b.erase = d := by
    cases p with
    | float a b c d' info =>
      intro pre d h
      have : annotP pre (.float a b c d' info) d = annotLeaf pre (.float a b c d' info) d := by simp [annotP]
      rw [this]; exact annotLeaf_erase pre _ (by intro k c d s i e; cases e) d h
    | custom info =>
      intro pre d h
      have : annotP pre (.custom info) d = annotLeaf pre (.custom info) d := by simp [annotP]
      rw [this]; exact annotLeaf_erase pre _ (by intro k c d s i e; cases e) d h
    | choices k cands dd ss info =>
      intro pre d h
      have hC : ∀ id' v ks, validKidsAt cands v ks = true →
          ∃ bs, annotKidsAt cands cands.length id' 0 v ks = some bs ∧ eraseList bs = ks :=
        fun id' v ks hv => annotKidsAt_erase cands cands.length id' 0 v ks hv
      simp only [validP] at h
      cases hu : unroot k d with
      | none => simp [hu] at h
      | some seq =>
        simp only [hu, Bool.and_eq_true, beq_iff_eq] at h
        obtain ⟨⟨⟨hl, hall⟩, _⟩, _⟩ := h
        unfold unroot at hu
        by_cases hk : (k == 1) = true
        · simp only [hk, if_true, Option.some.injEq] at hu
          subst hu
          simp only [annotP, hk, if_true]
          have hx : validNodeWith cands.length (validKidsAt cands) d = true := by simpa using hall
          exact annotSingle_erase (choiceDp _ none none info cands.length) _ d _ hx (hC _)
        · simp only [hk, Bool.false_eq_true, if_false] at hu
          cases d with
          | mk w gs =>
            cases w with
            | none =>
              simp only [Option.some.injEq] at hu
              subst hu
              simp only [annotP, hk, Bool.false_eq_true, if_false]
              obtain ⟨bs, hbs, hes⟩ := annotChoiceNodes_erase (pre ++ locToks info.loc) k cands.length info
                (fun id' => annotKidsAt cands cands.length id' 0) (validKidsAt cands) gs hl hall hC
              exact ⟨.mk .none none bs, by simp [hbs], by simp [BDNA.erase, hes]⟩
            | int => simp at hu
            | flt => simp at hu
            | str => simp at hu
  theorem annotElems_erase (es : List Point) : ∀ (pre : List Tok) (ds : List DNA), validElems es ds = true →
      ∃ bs, annotElems pre es ds = some bs ∧ eraseList bs = ds := by
    cases es with
    | nil =>
      intro pre ds h
      cases ds with
      | nil => exact ⟨[], rfl, rfl⟩
      | cons a b => simp [validElems] at h
    | cons p ps =>
      intro pre ds h
      cases ds with
      | nil => simp [validElems] at h
      | cons d ds =>
        simp only [validElems, Bool.and_eq_true] at h
        obtain ⟨b, hb, he⟩ := annotP_erase p pre d h.1
        obtain ⟨bs, hbs, hes⟩ := annotElems_erase ps pre ds h.2
        exact ⟨b :: bs, by simp [annotElems, hb, hbs], by simp [eraseList, he, hes]⟩
  theorem annotKids_erase (c : List Point) : ∀ (pre : List Tok) (ks : List DNA),
      validElems c (unkids c ks) = true → ∃ bs, annotKids pre c ks = some bs ∧ eraseList bs = ks := by
    match c with
    | [] =>
      intro pre ks h
      have hu : unkids [] ks = ks := rfl
      rw [hu] at h
      cases ks with
      | nil => exact ⟨[], rfl, rfl⟩
      | cons a b => simp [validElems] at h
    | [.choices k cands dd ss info] =>
      intro pre ks h
      have hC : ∀ id' v ks', validKidsAt cands v ks' = true →
          ∃ bs, annotKidsAt cands cands.length id' 0 v ks' = some bs ∧ eraseList bs = ks' :=
        fun id' v ks' hv => annotKidsAt_erase cands cands.length id' 0 v ks' hv
      simp only [annotKids]
      by_cases hk : k = 1
      · subst hk
        have hu : unkids [.choices 1 cands dd ss info] ks = ks := by simp [unkids]
        rw [hu] at h
        obtain ⟨x, rfl, hx⟩ := validElems_single h
        simp only [validP, unroot, beq_self_eq_true, if_true, Bool.and_eq_true, beq_iff_eq] at hx
        exact annotChoiceNodes_erase _ 1 cands.length info _ (validKidsAt cands) [x] rfl hx.1.1.2 hC
      · have hu : unkids [.choices k cands dd ss info] ks = [.mk .none ks] := by simp [unkids, hk]
        rw [hu] at h
        have hk' : (k == 1) = false := by simp [hk]
        simp only [validElems, Bool.and_true, validP, unroot, hk', Bool.false_eq_true, if_false,
          Bool.and_eq_true, beq_iff_eq] at h
        exact annotChoiceNodes_erase _ k cands.length info _ (validKidsAt cands) ks h.1.1.1 h.1.1.2 hC
    | [.float a b c' d' info] =>
      intro pre ks h
      have hu : unkids [.float a b c' d' info] ks = ks := rfl
      rw [hu] at h
      obtain ⟨x, rfl, hx⟩ := validElems_single h
      obtain ⟨bb, hb, he⟩ := annotLeaf_erase pre _ (by intro k c d s i e; cases e) x hx
      exact ⟨[bb], by simp [annotKids, hb], by simp [eraseList, he]⟩
    | [.custom info] =>
      intro pre ks h
      have hu : unkids [.custom info] ks = ks := rfl
      rw [hu] at h
      obtain ⟨x, rfl, hx⟩ := validElems_single h
      obtain ⟨bb, hb, he⟩ := annotLeaf_erase pre _ (by intro k c d s i e; cases e) x hx
      exact ⟨[bb], by simp [annotKids, hb], by simp [eraseList, he]⟩
    | p :: q :: r =>
      intro pre ks h
      have hu : unkids (p :: q :: r) ks = ks := by cases p <;> rfl
      rw [hu] at h
      obtain ⟨c1, c2, t, rfl⟩ := validElems_two h
      simp only [validElems, Bool.and_eq_true] at h
      obtain ⟨b1, hb1, he1⟩ := annotP_erase p pre c1 h.1
      obtain ⟨b2, hb2, he2⟩ := annotP_erase q pre c2 h.2.1
      obtain ⟨bs, hbs, hes⟩ := annotElems_erase r pre t h.2.2
      refine ⟨b1 :: b2 :: bs, ?_, by simp [eraseList, he1, he2, hes]⟩
      cases p <;> simp [annotKids, hb1, hb2, hbs]
  theorem annotKidsAt_erase (cs : List (List Point)) : ∀ (n : Nat) (id : List Tok) (off i : Nat) (ks : List DNA),
      validKidsAt cs i ks = true → ∃ bs, annotKidsAt cs n id off i ks = some bs ∧ eraseList bs = ks := by
    cases cs with
    | nil => intro n id off i ks h; simp [validKidsAt] at h
    | cons c cs =>
      intro n id off i ks h
      cases i with
      | zero =>
        simp only [validKidsAt] at h
        simp only [annotKidsAt]
        exact annotKids_erase c _ ks h
      | succ i =>
        simp only [validKidsAt] at h
        simp only [annotKidsAt]
        exact annotKidsAt_erase cs n id (off + 1) i ks h
end

theorem annot_erase (g : Spec) (d : DNA) (h : g.valid d = true) :
    ∃ b, g.annot d = some b ∧ b.erase = d := by
  cases g with
  | point p => exact annotP_erase p [] d h
  | space s =>
    simp only [Spec.valid, validS] at h
    cases hu : unroot s.length d with
    | none => simp [hu] at h
    | some ds =>
      simp only [hu] at h
      unfold unroot at hu
      match s, h, hu with
      | [p], h, hu =>
        simp only [List.length_cons, List.length_nil, Nat.zero_add, beq_self_eq_true, if_true,
          Option.some.injEq] at hu
        subst hu
        simp only [validElems, Bool.and_true] at h
        exact annotP_erase p [] d h
      | [], h, hu =>
        cases d with
        | mk w gs =>
          cases w with
          | none =>
            simp at hu; subst hu
            obtain ⟨bs, hbs, hes⟩ := annotElems_erase [] [] gs h
            exact ⟨.mk .none none bs, by simp [Spec.annot, hbs], by simp [BDNA.erase, hes]⟩
          | int => simp at hu
          | flt => simp at hu
          | str => simp at hu
      | p :: q :: r, h, hu =>
        cases d with
        | mk w gs =>
          cases w with
          | none =>
            simp at hu; subst hu
            obtain ⟨bs, hbs, hes⟩ := annotElems_erase (p :: q :: r) [] gs h
            exact ⟨.mk .none none bs, by simp [Spec.annot, hbs], by simp [BDNA.erase, hes]⟩
          | int => simp at hu
          | flt => simp at hu
          | str => simp at hu

end Pg.Geno
