/-
  Non-interference (C07): an operation on one tree leaves every other tree of the forest exactly
  as it is, also through the presentation step `normalizeRoots` (ids are distinct), and so do
  whole histories of such operations.
-/
import PgProofs.SymCloneEq
namespace Pg.Sym

theorem mapAt_frame (f : Forest) (t : Nat) (g : Meta → Items → Items) (b : Tree) (hb : b ∈ f.roots)
    (hdis : t ∉ b.ids) : b ∈ (f.mapAt t g).roots := by
  simp only [Forest.mapAt, List.mem_map]
  exact ⟨b, hb, updateAt_noop t g b hdis⟩

mutual
  theorem mapSubtree_noop (t : Nat) (g : Tree → Tree) : (tr : Tree) → t ∉ tr.ids → tr.mapSubtree t g = tr
    | .leaf _, _ => rfl
    | .node m its, h => by
      simp only [Tree.ids, List.mem_cons, not_or] at h
      unfold Tree.mapSubtree
      rw [if_neg (fun he => h.1 he.symm), mapSubtreeItems_noop t g its h.2]
  theorem mapSubtreeItems_noop (t : Nat) (g : Tree → Tree) : (its : Items) → t ∉ idsItems its →
      mapSubtreeItems t g its = its
    | [], _ => rfl
    | (k, c) :: r, h => by
      simp only [idsItems, List.mem_append, not_or] at h
      simp only [mapSubtreeItems, mapSubtree_noop t g c h.1, mapSubtreeItems_noop t g r h.2]
end

theorem notify_off (f f' : Forest) (upd : Bool) (ts : List Nat) :
    (if (false && upd) = true then notify f' ts else f') = f' := by simp

theorem delItemList_frame (cfg : Cfg) (f : Forest) (m : Meta) (its : Items) (idx : Int) (acc : Bool) (b : Tree)
    (hb : b ∈ f.roots) (hdis : m.id ∉ b.ids) : b ∈ (delItemList cfg f false m its idx acc).forest.roots := by
  unfold delItemList
  simp only
  split; · exact hb
  split; · exact hb
  split; · exact hb
  split; · exact hb
  simp only [Bool.false_eq_true, if_false]
  unfold rawDelList
  exact addRoot_keeps _ _ b (mapAt_frame f m.id _ b hb hdis)

theorem rawSetDict_missing_cases' (cfg : Cfg) (f : Forest) (m : Meta) (its : Items) (k : Key) (hk : m.kind = .dict) :
    rawSetDict cfg f m its k (.atom .missing) = .ok (f, false) ∨
    rawSetDict cfg f m its k (.atom .missing) = .ok (dictErase f m its k, true) := by
  by_cases h1 : sameValue (.atom .missing) (getKey its k) = true
  · left; simp [rawSetDict, h1]
  by_cases h2 : hasKey its k = true
  · right; simp [rawSetDict, h1, h2, VE.isMissing, dictBadKey, hk, isObjKind]
  · left; simp [rawSetDict, h1, h2, VE.isMissing]

theorem delItemDict_frame (cfg : Cfg) (f : Forest) (m : Meta) (its : Items) (k : Key) (acc : Bool) (b : Tree)
    (hk : m.kind = .dict) (hb : b ∈ f.roots) (hdis : m.id ∉ b.ids) :
    b ∈ (delItemDict cfg f false m its k acc).forest.roots := by
  unfold delItemDict
  split; · exact hb
  split; · exact hb
  split; · exact hb
  rcases rawSetDict_missing_cases' cfg f m its k hk with h | h
  · rw [h]; simp [finish]; exact hb
  · rw [h]; simp only [finish, Bool.false_and, Bool.false_eq_true, if_false]
    unfold dictErase
    exact addRoots_keeps _ _ b (mapAt_frame f m.id _ b hb hdis)

/-- **non-interference, one call**: the in-place mutators that offer no value, run under
`notify_on_change(False)`, leave every root that does not contain their target as it is. -/
theorem step_frame (cfg : Cfg) (f : Forest) (op : Op) (t : Nat)
    (hq : Quiet op = true) (ht : op.target? = some t) (b : Tree) (hb : b ∈ f.roots) (hdis : t ∉ b.ids) :
    b ∈ (step cfg f false op).forest.roots := by
  cases op <;> simp [Quiet] at hq <;> simp only [Op.target?, Option.some.injEq] at ht <;> subst ht
  case delItem t k =>
    cases hfind : f.find? t with
    | none => simp only [step, hfind]; exact hb
    | some tr =>
      cases tr with
      | leaf a => simp only [step, hfind]; exact hb
      | node m its =>
        have hid := Forest.find?_id f t m its hfind
        simp only [step, hfind]
        cases hkind : m.kind with
        | dict => exact delItemDict_frame cfg f m its k false b hkind hb (by rw [hid]; exact hdis)
        | list =>
          cases k with
          | s _ => exact hb
          | i idx => exact delItemList_frame cfg f m its idx false b hb (by rw [hid]; exact hdis)
        | obj c => exact hb
  case lPop t idx =>
    cases hfind : f.find? t with
    | none => simp only [step, hfind]; exact hb
    | some tr =>
      cases tr with
      | leaf a => simp only [step, hfind]; exact hb
      | node m its =>
        have hid := Forest.find?_id f t m its hfind
        simp only [step, hfind]
        split
        · exact hb
        · exact delItemList_frame cfg f m its _ true b hb (by rw [hid]; exact hdis)
  case lRemove t a =>
    cases hfind : f.find? t with
    | none => simp only [step, hfind]; exact hb
    | some tr =>
      cases tr with
      | leaf a => simp only [step, hfind]; exact hb
      | node m its =>
        have hid := Forest.find?_id f t m its hfind
        simp only [step, hfind]
        split
        · exact delItemList_frame cfg f m its _ false b hb (by rw [hid]; exact hdis)
        · exact hb
  case lClear t =>
    cases hfind : f.find? t with
    | none => simp only [step, hfind]; exact hb
    | some tr =>
      cases tr with
      | leaf a => simp only [step, hfind]; exact hb
      | node m its =>
        simp only [step, hfind]
        split
        · exact hb
        · unfold clearAndNotify dropAll
          simp only [Bool.and_false, Bool.false_and, Bool.false_eq_true, if_false]
          exact addRoots_keeps _ _ b (mapAt_frame f t _ b hb hdis)
  case dClear t =>
    cases hfind : f.find? t with
    | none => simp only [step, hfind]; exact hb
    | some tr =>
      cases tr with
      | leaf a => simp only [step, hfind]; exact hb
      | node m its =>
        simp only [step, hfind]
        split
        · exact hb
        · unfold clearAndNotify dropAll
          simp only [Bool.and_false, Bool.false_and, Bool.false_eq_true, if_false]
          exact addRoots_keeps _ _ b (mapAt_frame f t _ b hb hdis)
  case lSort t ranks rev =>
    cases hfind : f.find? t with
    | none => simp only [step, hfind]; exact hb
    | some tr =>
      cases tr with
      | leaf a => simp only [step, hfind]; exact hb
      | node m its =>
        simp only [step, hfind]
        split
        · exact hb
        · unfold permuteAndNotify permute
          simp only [Bool.and_false, Bool.false_and, Bool.false_eq_true, if_false]
          exact mapAt_frame f t _ b hb hdis
  case lReverse t =>
    cases hfind : f.find? t with
    | none => simp only [step, hfind]; exact hb
    | some tr =>
      cases tr with
      | leaf a => simp only [step, hfind]; exact hb
      | node m its =>
        simp only [step, hfind]
        split
        · exact hb
        · unfold permuteAndNotify permute
          simp only [Bool.and_false, Bool.false_and, Bool.false_eq_true, if_false]
          exact mapAt_frame f t _ b hb hdis
  case lDelSlice t a b' c =>
    cases hfind : f.find? t with
    | none => simp only [step, hfind]; exact hb
    | some tr =>
      cases tr with
      | leaf a => simp only [step, hfind]; exact hb
      | node m its =>
        have hid := Forest.find?_id f t m its hfind
        simp only [step, hfind]
        split
        · exact hb
        · split
          · exact hb
          · split
            · exact hb
            · split
              · exact hb
              · simp only [Bool.false_eq_true, if_false]
                unfold rawDelMany
                exact addRoots_keeps _ _ b (mapAt_frame f m.id _ b hb (by rw [hid]; exact hdis))
  case setSeal t flag =>
    cases hfind : f.find? t with
    | none => simp only [step, hfind]; exact hb
    | some tr =>
      cases tr with
      | leaf a => simp only [step, hfind]; exact hb
      | node m its =>
        simp only [step, hfind, List.mem_map]
        exact ⟨b, hb, mapSubtree_noop t _ b hdis⟩
  case dPop t k =>
    cases hfind : f.find? t with
    | none => simp only [step, hfind]; exact hb
    | some tr =>
      cases tr with
      | leaf a => simp only [step, hfind]; exact hb
      | node m its =>
        have hid := Forest.find?_id f t m its hfind
        simp only [step, hfind]
        split
        · next hkind =>
          split
          · exact delItemDict_frame cfg f m its k true b hkind hb (by rw [hid]; exact hdis)
          · exact hb
        · exact hb
  case dPopItem t =>
    cases hfind : f.find? t with
    | none => simp only [step, hfind]; exact hb
    | some tr =>
      cases tr with
      | leaf a => simp only [step, hfind]; exact hb
      | node m its =>
        simp only [step, hfind]
        split
        · exact hb
        split
        · exact hb
        · split
          · exact hb
          · simp only [Bool.and_false, Bool.false_eq_true, if_false]
            exact addRoot_keeps _ _ b (mapAt_frame f t _ b hb hdis)

/-! ### `normalizeRoots` keeps every old root that is still there -/

theorem roots_unique_id : (rs : List Tree) → (∀ i, (idsRoots rs).count i ≤ 1) → ∀ r b i, r ∈ rs → b ∈ rs →
    r.id? = some i → b.id? = some i → r = b
  | [], _, r, _, _, hr, _, _, _ => by cases hr
  | x :: rs, h, r, b, i, hr, hb, hri, hbi => by
    have hrs : ∀ i, (idsRoots rs).count i ≤ 1 := by
      intro j; have := h j; simp only [idsRoots_cons, List.count_append] at this; omega
    have hx : ∀ y, y ∈ rs → y.id? = some i → x.id? = some i → False := by
      intro y hy hyi hxi
      have h1 := count_pos_of_mem (mem_idsRoots_of_root hy hyi)
      have h2 : 1 ≤ x.ids.count i := by
        apply count_pos_of_mem
        cases x with
        | leaf a => simp [Tree.id?, Tree.meta?] at hxi
        | node m its =>
          simp only [Tree.id?, Tree.meta?, Option.map_some, Option.some.injEq] at hxi
          simp [Tree.ids, hxi]
      have := h i
      simp only [idsRoots_cons, List.count_append] at this
      omega
    simp only [List.mem_cons] at hr hb
    rcases hr with rfl | hr
    · rcases hb with rfl | hb
      · rfl
      · exact absurd (hx b hb hbi hri) id
    · rcases hb with rfl | hb
      · exact absurd (hx r hr hri hbi) id
      · exact roots_unique_id rs hrs r b i hr hb hri hbi

theorem normalizeRoots_keeps (before after : Forest) (k : Bool) (b : Tree) (hn : NB after)
    (hb0 : b ∈ before.roots) (hb : b ∈ after.roots) : b ∈ (normalizeRoots before after k).roots := by
  simp only [normalizeRoots, List.mem_append, List.mem_filterMap, mem_sortByIdx, List.mem_filter]
  cases hid : b.id? with
  | none =>
    right
    refine ⟨hb, ?_⟩
    simp [hid]
  | some i =>
    left
    refine ⟨i, ⟨b, hb0, hid⟩, ?_⟩
    cases hf : after.roots.find? (fun r => r.id? == some i) with
    | none =>
      have := List.find?_eq_none.mp hf b hb
      simp [hid] at this
    | some r =>
      have hr := List.mem_of_find?_eq_some hf
      have hri := List.find?_some hf
      simp only [beq_iff_eq] at hri
      rw [roots_unique_id after.roots hn.nodup r b i hr hb hri hid]

/-! ### whole calls and histories -/

theorem quiet_values (op : Op) (hq : Quiet op = true) : wellKeyed op = true := by
  cases op <;> simp [Quiet] at hq <;> rfl

theorem stepA_frame (cfg : Cfg) (f : Forest) (op : Op) (t : Nat) (hi : Inv f)
    (hq : Quiet op = true) (ht : op.target? = some t) (b : Tree) (hb : b ∈ f.roots) (hdis : t ∉ b.ids)
    (hal : (stepA cfg f false op).forest.aliased = false) :
    b ∈ (stepA cfg f false op).forest.roots := by
  unfold stepA at hal ⊢
  split
  · exact hb
  · next hd =>
    rw [if_neg hd] at hal
    unfold stepN at hal ⊢
    simp only at hal ⊢
    rw [normalizeRoots_aliased] at hal
    exact normalizeRoots_keeps f _ _ b (step_inv cfg f false op hi (quiet_values op hq) hal).nb hb
      (step_frame cfg f op t hq ht b hb hdis)

theorem runHist_frame (cfg : Cfg) (b : Tree) : (ops : List Op) → ∀ (f : Forest), Inv f → b ∈ f.roots →
    (∀ op ∈ ops, Quiet op = true ∧ ∃ t, op.target? = some t ∧ t ∉ b.ids) →
    (runHist cfg f (ops.map (fun op => (false, op)))).aliased = false →
    b ∈ (runHist cfg f (ops.map (fun op => (false, op)))).roots
  | [], f, _, hb, _, _ => hb
  | op :: ops, f, hi, hb, hq, hal => by
    simp only [List.map_cons, runHist] at hal ⊢
    obtain ⟨hq1, t, ht, hdis⟩ := hq op (by simp)
    have hal1 := unal_of_rise (runHist_rise cfg (ops.map (fun op => (false, op))) _) hal
    exact runHist_frame cfg b ops _ (stepA_inv cfg f false op hi (quiet_values op hq1) hal1)
      (stepA_frame cfg f op t hi hq1 ht b hb hdis hal1) (fun o ho => hq o (by simp [ho])) hal

end Pg.Sym
