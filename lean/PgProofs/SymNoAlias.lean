/-
  From a well-formed forest no operation of a tree with the belief fixes ever has to put one node
  object in two places: the mark `aliased` stays false. (The only way to set it is to offer an
  existing non-root node that already believes to be at the destination; that node is then the
  occupant of the destination slot, and every write primitive catches that case first.)
-/
import PgProofs.SymFrame
namespace Pg.Sym
variable {lcs nb : Bool} {sp : Option Bool} {sat : Bool}

/-! ### where a found node lives -/

mutual
  theorem find?_holder (id : Nat) : (t : Tree) → t.okRoot = true → ∀ m its, t.find? id = some (.node m its) →
      t = .node m its ∨ ∃ hm hits k, Tree.node hm hits ∈ t.subnodes ∧ (k, Tree.node m its) ∈ hits ∧
        m.parent = some hm.id ∧ m.path = hm.path ++ [k]
    | .leaf _, _, m, its, h => by simp [Tree.find?] at h
    | .node m0 xs, hok, m, its, h => by
      unfold Tree.find? at h
      split at h
      · cases h; exact Or.inl rfl
      · right
        have hok' : okItems m0.id m0.path xs = true := hok
        rcases findItems?_holder id m0.id m0.path xs hok' m its h with ⟨k, hk, hp, hq⟩ | ⟨hm, hits, k, hs, hk, hp, hq⟩
        · exact ⟨m0, xs, k, by simp [Tree.subnodes], hk, hp, hq⟩
        · exact ⟨hm, hits, k, by simp [Tree.subnodes, hs], hk, hp, hq⟩
  theorem findItems?_holder (id : Nat) (h0 : Nat) (p : List Key) : (xs : Items) → okItems h0 p xs = true →
      ∀ m its, findItems? id xs = some (.node m its) →
      (∃ k, (k, Tree.node m its) ∈ xs ∧ m.parent = some h0 ∧ m.path = p ++ [k]) ∨
      ∃ hm hits k, Tree.node hm hits ∈ subnodesItems xs ∧ (k, Tree.node m its) ∈ hits ∧
        m.parent = some hm.id ∧ m.path = hm.path ++ [k]
    | [], _, m, its, h => by simp [findItems?] at h
    | (k, c) :: r, hok, m, its, h => by
      rw [okItems_cons] at hok
      unfold findItems? at h
      split at h
      · next s hs =>
        cases h
        rcases find?_holder id c (okRoot_of_okSub hok.1) m its hs with rfl | ⟨hm, hits, k', hsub, hk, hp, hq⟩
        · left
          have := okSub_node.mp hok.1
          exact ⟨k, by simp, this.1.1, this.1.2⟩
        · right
          exact ⟨hm, hits, k', by simp [subnodesItems, hsub], hk, hp, hq⟩
      · rcases findItems?_holder id h0 p r hok.2 m its h with ⟨k', hk, hp, hq⟩ | ⟨hm, hits, k', hsub, hk, hp, hq⟩
        · exact Or.inl ⟨k', by simp [hk], hp, hq⟩
        · exact Or.inr ⟨hm, hits, k', by simp [subnodesItems, hsub], hk, hp, hq⟩
end

theorem roots_find_holder (id : Nat) : (rs : List Tree) → (∀ r ∈ rs, r.okRoot = true) → ∀ m its,
    rs.findSome? (Tree.find? id) = some (.node m its) →
    Tree.node m its ∈ rs ∨ ∃ hm hits k, Tree.node hm hits ∈ rs.flatMap Tree.subnodes ∧ (k, Tree.node m its) ∈ hits ∧
      m.parent = some hm.id ∧ m.path = hm.path ++ [k]
  | [], _, m, its, h => by simp at h
  | r :: rs, hok, m, its, h => by
    simp only [List.findSome?_cons] at h
    split at h
    · next s hs =>
      cases h
      rcases find?_holder id r (hok r (by simp)) m its hs with rfl | ⟨hm, hits, k, hsub, hk, hp, hq⟩
      · exact Or.inl (by simp)
      · exact Or.inr ⟨hm, hits, k, by simp [hsub], hk, hp, hq⟩
    · rcases roots_find_holder id rs (fun x hx => hok x (by simp [hx])) m its h with hr | ⟨hm, hits, k, hsub, hk, hp, hq⟩
      · exact Or.inl (by simp [hr])
      · exact Or.inr ⟨hm, hits, k, by simp only [List.flatMap_cons, List.mem_append]; exact Or.inr hsub, hk, hp, hq⟩

/-- a node found in a well-formed forest is a root, or it is a child of a node of the forest and
believes exactly that. -/
theorem Forest.find?_holder (f : Forest) (hok : f.ok = true) (hn : NB f) (id : Nat) (m : Meta) (its : Items)
    (h : f.find? id = some (.node m its)) :
    f.isRoot id = true ∨ ∃ hm hits k, f.find? hm.id = some (.node hm hits) ∧ (k, Tree.node m its) ∈ hits ∧
      m.parent = some hm.id ∧ m.path = hm.path ++ [k] := by
  have hid := Forest.find?_id f id m its h
  rcases roots_find_holder id f.roots ((Forest.ok_iff f).mp hok) m its h with hr | ⟨hm, hits, k, hsub, hk, hp, hq⟩
  · left
    unfold Forest.isRoot
    rw [List.any_eq_true]
    exact ⟨_, hr, by simp [Tree.id?, Tree.meta?, hid]⟩
  · right
    refine ⟨hm, hits, k, ?_, hk, hp, hq⟩
    exact roots_find_of_subnode hm.id f.roots (hn.nodup hm.id) _ hsub (by simp [Tree.id?, Tree.meta?])

/-- the only way to set the mark: an offered node that is not a root and already believes to be
at the destination (`par`, `p`), unless it is the value being replaced. -/
def Clash (f : Forest) (pending par : Option Nat) (hobj : Bool) (p : List Key) (rid : Nat) : Prop :=
  ∃ m its, f.find? rid = some (.node m its) ∧ f.isRoot rid = false ∧ hobj = false ∧ m.parent = par ∧ m.path = p ∧
    ¬ (pending = some rid ∧ f.consumed = false)

theorem relocateRef_unal (cfg : Cfg) (f : Forest) (pending par : Option Nat) (hobj : Bool) (p : List Key) (rid : Nat)
    (hok : f.ok = true) (hn : NB f) (hc : ¬ Clash f pending par hobj p rid) :
    (relocateRef cfg f pending par hobj p rid).1.aliased = f.aliased := by
  unfold relocateRef
  split
  · split <;> rfl
  · rfl
  · next m its hfind =>
    split
    · rfl
    · next hpend =>
      split
      · next hcond =>
        split
        · rfl
        · next hroot =>
          exfalso
          have hroot' : f.isRoot rid = false := by simpa using hroot
          simp only [Bool.or_eq_true, Bool.and_eq_true, Bool.not_eq_true', beq_iff_eq] at hcond
          rcases hcond with hnone | ⟨⟨hho, hpar⟩, hpath⟩
          · rcases Forest.find?_holder f hok hn rid m its hfind with hr | ⟨hm, hits, k, _, _, hp, _⟩
            · rw [hr] at hroot'; cases hroot'
            · rw [hp] at hnone; cases hnone
          · apply hc
            refine ⟨m, its, hfind, hroot', hho, hpar, hpath, ?_⟩
            intro ⟨h1, h2⟩
            apply hpend
            simp [h1, h2]
      · rfl

/-! ### evaluation of an offered value -/

def TopOK (f : Forest) (pending par : Option Nat) (hobj : Bool) (p : List Key) (ve : VE) : Prop :=
  ∀ rid, ve = .ref rid → ¬ Clash f pending par hobj p rid

theorem Forest.ok_with_next (f : Forest) (n : Nat) : ({ f with nextId := n } : Forest).ok = f.ok := rfl

theorem ok_of_mono {f f' : Forest} (hok : f.ok = true) (hm : EvalMono f f') : f'.ok = true :=
  ok_of_subset hok (fun x hx => hm.roots.subset hx)

theorem noClash_fresh (f : Forest) (hok : f.ok = true) (hn : NB f) (pending : Option Nat) (h : Nat) (hobj : Bool)
    (p : List Key) (rid : Nat) (hfresh : ∀ i, h ≤ i → f.ids.count i = 0) : ¬ Clash f pending (some h) hobj p rid := by
  rintro ⟨m, its, hfind, hroot, _, hpar, _, _⟩
  rcases Forest.find?_holder f hok hn rid m its hfind with hr | ⟨hm, hits, k, hf, _, hp, _⟩
  · rw [hr] at hroot; cases hroot
  · rw [hp] at hpar
    simp only [Option.some.injEq] at hpar
    have hmem : hm.id ∈ f.ids := by
      have := Forest.find?_mem_nodes f hm.id _ hf
      unfold Forest.nodes at this
      rw [List.mem_flatMap] at this
      obtain ⟨r, hr, hs⟩ := this
      unfold Forest.ids
      rw [List.mem_flatMap]
      exact ⟨r, hr, subnode_id_mem r _ hs hm.id (by simp [Tree.id?, Tree.meta?])⟩
    have := count_pos_of_mem hmem
    have := hfresh hm.id (by omega)
    omega

mutual
  theorem evalVE_unal (cfg : Cfg) (pending : Option Nat) : (ve : VE) → ∀ (f : Forest) (par : Option Nat)
      (hobj hpart : Bool) (p : List Key), f.ok = true → NB f → TopOK f pending par hobj p ve →
      (evalVE cfg f pending par hobj hpart p ve).1.aliased = f.aliased
    | .atom a, f, _, _, _, _, _, _, _ => by simp only [evalVE]
    | .fresh, f, _, _, _, _, _, _, _ => by simp only [evalVE]
    | .freshTuple n, f, _, _, _, _, _, _, _ => by simp only [evalVE]
    | .mkRef tgt, f, _, _, _, _, _, _, _ => by simp only [evalVE]
    | .ref id, f, par, hobj, _, p, hok, hn, ht => by
      simp only [evalVE]
      exact relocateRef_unal cfg f pending par hobj p id hok hn (ht id rfl)
    | .typedList items, f, par, _, _, p, hok, hn, _ => by
      simp only [evalVE]
      have hn1 : NB { f with nextId := f.nextId + 1 } :=
        ⟨hn.nodup, fun i hi => hn.bound i (by simp at hi; omega)⟩
      exact evalItems_unal cfg pending items { f with nextId := f.nextId + 1 } f.nextId false false p (some 0) hok hn1
        (fun i hi => hn.bound i hi)
    | .node kind sl aw pt items, f, par, hobj, hpart, p, hok, hn, _ => by
      have hn1 : NB { f with nextId := f.nextId + 1 } :=
        ⟨hn.nodup, fun i hi => hn.bound i (by simp at hi; omega)⟩
      cases kind <;> simp only [evalVE] <;>
        exact evalItems_unal cfg pending items { f with nextId := f.nextId + 1 } f.nextId _ _ p _ hok hn1
          (fun i hi => hn.bound i hi)
  theorem evalItems_unal (cfg : Cfg) (pending : Option Nat) : (items : List (Key × VE)) → ∀ (f : Forest) (h : Nat)
      (hobj hpart : Bool) (p : List Key) (pos : Option Nat), f.ok = true → NB f → (∀ i, h ≤ i → f.ids.count i = 0) →
      (evalItems cfg f pending h hobj hpart p pos items).1.aliased = f.aliased
    | [], f, _, _, _, _, _, _, _, _ => by simp only [evalItems]
    | (k0, v) :: r, f, h, hobj, hpart, p, pos, hok, hn, hfresh => by
      simp only [evalItems]
      have hma := evalVE_mono cfg pending v f (some h) hobj hpart
        (p ++ [match pos with | some n => Key.i n | none => k0])
      have a := evalVE_unal cfg pending v f (some h) hobj hpart
        (p ++ [match pos with | some n => Key.i n | none => k0]) hok hn
        (fun rid _ => noClash_fresh f hok hn pending h hobj _ rid hfresh)
      have b := evalItems_unal cfg pending r _ h hobj hpart p (pos.map (· + 1)) (ok_of_mono hok hma) (hn.of_mono hma)
        (fun i hi => by
          have h1 := idsRoots_sublist hma.roots i
          have h2 := hfresh i hi
          simp only [Forest.ids_eq] at *
          omega)
      exact b.trans a
end

/-! ### the clashing node is the occupant of the destination slot -/

theorem getKey_of_mem_nodup : (its : Items) → nodupKeys (keysOf its) = true → ∀ k c, (k, c) ∈ its → getKey its k = some c
  | [], _, k, c, h => by cases h
  | (k', c') :: r, hnd, k, c, h => by
    simp only [keysOf_cons, nodupKeys, Bool.and_eq_true, Bool.not_eq_true', List.contains_eq_mem,
      decide_eq_false_iff_not] at hnd
    rw [getKey_cons]
    simp only [List.mem_cons, Prod.mk.injEq] at h
    rcases h with ⟨rfl, rfl⟩ | h
    · simp
    · have hne : ¬ k' = k := by
        intro he; subst he
        exact hnd.1 (List.mem_map.mpr ⟨(k', c), h, rfl⟩)
      rw [if_neg hne]
      exact getKey_of_mem_nodup r hnd.2 k c h

theorem clash_occupant (f : Forest) (hok : f.ok = true) (hn : NB f) (m : Meta) (its : Items)
    (hfind : f.find? m.id = some (.node m its)) (hnd : nodupKeys (keysOf its) = true)
    (rid : Nat) (cm : Meta) (cits : Items) (hc : f.find? rid = some (.node cm cits)) (hroot : f.isRoot rid = false)
    (hpar : cm.parent = some m.id) (k : Key) (hpath : cm.path = m.path ++ [k]) :
    getKey its k = some (.node cm cits) := by
  rcases Forest.find?_holder f hok hn rid cm cits hc with hr | ⟨hm, hits, k', hf, hk, hp, hq⟩
  · rw [hr] at hroot; cases hroot
  · rw [hp] at hpar
    simp only [Option.some.injEq] at hpar
    rw [hpar, hfind] at hf
    cases hf
    rw [hq] at hpath
    have := List.append_cancel_left hpath
    simp only [List.cons.injEq, and_true] at this
    subst this
    exact getKey_of_mem_nodup its hnd k' _ hk

theorem sameValue_ref_node (rid : Nat) (cm : Meta) (cits : Items) :
    sameValue (.ref rid) (some (.node cm cits)) = (rid == cm.id) := by
  simp [sameValue, Tree.id?, Tree.meta?]

/-- the working invariant: beliefs, distinct ids, shapes, no mark. -/
structure W (f : Forest) : Prop where
  ok : f.ok = true
  inv : Inv f
  unal : f.aliased = false

theorem W.nodup {f : Forest} (hw : W f) {t : Nat} {m : Meta} {its : Items} (h : f.find? t = some (.node m its)) :
    nodupKeys (keysOf its) = true :=
  keysOk_nodup m.kind its (hw.inv.shape.node t m its h).1

theorem listReplace_unal (cfg : Cfg) (f : Forest) (m : Meta) (its : Items) (index : Int) (pos : Nat) (old : Tree) (ve : VE)
    (hw : W f) (hfind : f.find? m.id = some (.node m its)) (hold : getKey its (Key.i pos) = some old)
    (hns : sameValue ve (some old) = false) (hidx : index = (pos : Int)) :
    ∀ g, listReplace cfg f m index pos old ve = some g → g.aliased = f.aliased := by
  intro g hg
  unfold listReplace at hg
  simp only at hg
  split at hg
  · cases hg
  · cases hg
    rw [addRoot_aliased]
    show (evalVE cfg f none (some m.id) false m.part (m.path ++ [Key.i index]) ve).1.aliased = f.aliased
    apply evalVE_unal cfg none ve f _ _ _ _ hw.ok hw.inv.nb
    rintro rid rfl ⟨cm, cits, hc, hroot, _, hpar, hpath, _⟩
    have hocc := clash_occupant f hw.ok hw.inv.nb m its hfind (hw.nodup hfind) rid cm cits hc hroot hpar _ hpath
    rw [hidx, hold] at hocc
    cases hocc
    rw [sameValue_ref_node, Forest.find?_id f rid cm cits hc] at hns
    simp at hns

theorem listInsert_unal (cfg : Cfg) (hcp : cfg.insertCopiesOwn = true) (f : Forest) (m : Meta) (its : Items) (index : Int) (len : Nat) (ve : VE)
    (hw : W f) (hfind : f.find? m.id = some (.node m its)) :
    ∀ g, listInsert cfg f m its index len ve = some g → g.aliased = f.aliased := by
  intro g hg
  unfold listInsert at hg
  simp only [hcp, if_true] at hg
  split at hg
  · split at hg
    · cases hg
    · cases hg; rfl
  · next hown =>
    split at hg
    · cases hg
    · cases hg
      show (evalVE cfg f none (some m.id) false m.part (m.path ++ [Key.i index]) ve).1.aliased = f.aliased
      apply evalVE_unal cfg none ve f _ _ _ _ hw.ok hw.inv.nb
      rintro rid rfl ⟨cm, cits, hc, hroot, _, hpar, hpath, _⟩
      have hocc := clash_occupant f hw.ok hw.inv.nb m its hfind (hw.nodup hfind) rid cm cits hc hroot hpar _ hpath
      obtain ⟨kv, hkv, hkv2⟩ := getKey_mem hocc
      unfold ownElement at hown
      simp only [Option.map_eq_none_iff] at hown
      have := List.find?_eq_none.mp hown kv hkv
      rw [hkv2] at this
      simp [Tree.id?, Tree.meta?, Forest.find?_id f rid cm cits hc] at this

theorem positional_mem_lt : (n : Nat) → (ks : List Key) → positional n ks = true → ∀ k ∈ ks,
    ∃ j : Nat, k = Key.i (j : Int) ∧ n ≤ j ∧ j < n + ks.length
  | _, [], _, k, hk => by cases hk
  | n, k0 :: ks, h, k, hk => by
    simp only [positional, Bool.and_eq_true, beq_iff_eq] at h
    simp only [List.mem_cons] at hk
    rcases hk with rfl | hk
    · exact ⟨n, h.1, Nat.le_refl n, by simp⟩
    · obtain ⟨j, hj, h1, h2⟩ := positional_mem_lt (n + 1) ks h.2 k hk
      exact ⟨j, hj, by omega, by simp only [List.length_cons]; omega⟩

theorem listAppend_unal (cfg : Cfg) (f : Forest) (m : Meta) (its : Items) (ve : VE)
    (hw : W f) (hfind : f.find? m.id = some (.node m its)) (hkind : m.kind = .list) :
    ∀ g, listAppend cfg f m its.length ve = some g → g.aliased = f.aliased := by
  intro g hg
  unfold listAppend at hg
  simp only at hg
  split at hg
  · cases hg
  · cases hg
    show (evalVE cfg f none (some m.id) false m.part (m.path ++ [Key.i (its.length : Int)]) ve).1.aliased = f.aliased
    apply evalVE_unal cfg none ve f _ _ _ _ hw.ok hw.inv.nb
    rintro rid rfl ⟨cm, cits, hc, hroot, _, hpar, hpath, _⟩
    have hocc := clash_occupant f hw.ok hw.inv.nb m its hfind (hw.nodup hfind) rid cm cits hc hroot hpar _ hpath
    have hmem := mem_keysOf_of_getKey hocc
    have hpos : positional 0 (keysOf its) = true := by
      have := (hw.inv.shape.node m.id m its hfind).1
      rw [hkind] at this; exact this
    obtain ⟨j, hj, _, hlt⟩ := positional_mem_lt 0 _ hpos _ hmem
    rw [keysOf_length] at hlt
    injection hj with hj
    omega

/-! ### the list write primitive -/

/-- `rawSetList_cases` with the guards that were passed (tree with the F03 fix: the index of a
replacement is a position). -/
theorem rawSetList_cases2 (cfg : Cfg) (hre : cfg.reindexOnMutate = true) (f : Forest) (m : Meta) (its : Items) (key : Int)
    (ins : Bool) (ve : VE) :
    ∀ r, rawSetList cfg f m its key ins ve = .ok r →
      r = (f, false) ∨
      (∃ (index : Int) (pos : Nat) (old : Tree), getKey its (Key.i pos) = some old ∧ sameValue ve (some old) = false ∧
        index = (pos : Int) ∧ listReplace cfg f m index pos old ve = some r.1) ∨
      (∃ index len, listInsert cfg f m its index len ve = some r.1) ∨
      listAppend cfg f m its.length ve = some r.1 := by
  intro r hr
  unfold rawSetList at hr
  simp only at hr
  by_cases hk : m.kind ≠ .list
  · rw [if_pos hk] at hr; cases hr
  rw [if_neg hk] at hr
  have hnorm : ins = false → listNormIndex cfg key (its.length) ins < -(its.length : Int) ∨
      0 ≤ listNormIndex cfg key (its.length) ins := by
    intro hi
    unfold listNormIndex
    simp only [hre, Bool.true_and, hi, Bool.false_eq_true, if_false]
    by_cases h0 : key < 0
    · simp only [h0, decide_true, if_true]
      split <;> omega
    · simp only [h0, decide_false, Bool.false_eq_true, if_false]; omega
  generalize listNormIndex cfg key (its.length) ins = i0 at hr hnorm
  by_cases h1 : (decide (i0 ≥ (its.length : Int)) && ve.isMissing && !ins) = true
  · rw [if_pos h1] at hr; left; cases hr; rfl
  rw [if_neg h1] at hr
  generalize hidx : (if i0 ≥ (its.length : Int) then (its.length : Int) else i0) = idx at hr
  by_cases h2 : (decide (idx < (its.length : Int)) && !ins) = true
  · rw [if_pos h2] at hr
    by_cases h3 : idx < -(its.length : Int)
    · rw [if_pos h3] at hr; cases hr
    rw [if_neg h3] at hr
    have hins : ins = false := by
      simp only [Bool.and_eq_true, Bool.not_eq_true'] at h2; exact h2.2
    have hnn : 0 ≤ idx := by
      rcases hnorm hins with h | h
      · split at hidx <;> omega
      · split at hidx <;> omega
    split at hr
    · cases hr
    · next old hold =>
      by_cases h4 : sameValue ve (some old) = true
      · rw [if_pos h4] at hr; left; cases hr; rfl
      · rw [if_neg h4] at hr
        by_cases h6 : (m.typed && !acceptsTyped f ve) = true
        · rw [if_pos h6] at hr; cases hr
        · rw [if_neg h6] at hr; right; left
          refine ⟨_, _, old, hold, by simpa using h4, ?_, (okOrCycle_ok hr).1⟩
          have : ¬ idx < 0 := by omega
          simp only [this, if_false]
          omega
  rw [if_neg h2] at hr
  by_cases h7 : (m.typed && !acceptsTyped f ve) = true
  · rw [if_pos h7] at hr; cases hr
  rw [if_neg h7] at hr
  by_cases h5 : idx < (its.length : Int)
  · rw [if_pos h5] at hr; right; right; left; exact ⟨_, _, (okOrCycle_ok hr).1⟩
  · rw [if_neg h5] at hr; right; right; right
    have : idx = (its.length : Int) := by
      split at hidx
      · exact hidx.symm
      · omega
    rw [this] at hr; exact (okOrCycle_ok hr).1

theorem rawSetList_unal (cfg : Cfg) (hre : cfg.reindexOnMutate = true) (hcp : cfg.insertCopiesOwn = true)
    (f : Forest) (m : Meta) (its : Items) (key : Int) (ins : Bool) (ve : VE)
    (hw : W f) (hfind : f.find? m.id = some (.node m its)) :
    ∀ r, rawSetList cfg f m its key ins ve = .ok r → r.1.aliased = f.aliased := by
  intro r hr
  have hkind := rawSetList_kind cfg f m its key ins ve r hr
  rcases rawSetList_cases2 cfg hre f m its key ins ve r hr with rfl | ⟨i, p, old, hold, hns, hidx, h⟩ | ⟨i, l, h⟩ | h
  · rfl
  · exact listReplace_unal cfg f m its i p old ve hw hfind hold hns hidx _ h
  · exact listInsert_unal cfg hcp f m its i l ve hw hfind _ h
  · exact listAppend_unal cfg f m its ve hw hfind hkind _ h

/-! ### the dict write primitive -/

theorem dictStore_unal (cfg : Cfg) (f : Forest) (m : Meta) (its : Items) (key : Key) (ve : VE)
    (hw : W f) (hfind : f.find? m.id = some (.node m its)) :
    ∀ g, dictStore cfg f m its key ve = some g → g.aliased = f.aliased := by
  intro g hg
  unfold dictStore dictStoreCore at hg
  simp only at hg
  split at hg
  · cases hg
  · cases hg
    have hev : (evalVE cfg f.clearConsumed ((dictDetached its key).bind Tree.id?) (some m.id) (isObjKind m.kind) m.part
        (m.path ++ [key]) ve).1.aliased = f.aliased := by
      apply evalVE_unal cfg _ ve f.clearConsumed _ _ _ _ hw.ok ⟨hw.inv.nb.nodup, hw.inv.nb.bound⟩
      rintro rid rfl ⟨cm, cits, hc, hroot, _, hpar, hpath, hnp⟩
      have hocc := clash_occupant f hw.ok hw.inv.nb m its hfind (hw.nodup hfind) rid cm cits hc hroot hpar _ hpath
      apply hnp
      refine ⟨?_, rfl⟩
      rw [dictDetached_pending, hocc]
      simp only [Option.some.injEq]
      exact Forest.find?_id f rid cm cits hc
    split
    · exact hev
    · rw [addRoots_aliased]; exact hev

theorem rawSetDict_unal (cfg : Cfg) (f : Forest) (m : Meta) (its : Items) (key : Key) (ve : VE)
    (hw : W f) (hfind : f.find? m.id = some (.node m its)) :
    ∀ r, rawSetDict cfg f m its key ve = .ok r → r.1.aliased = f.aliased := by
  intro r hr
  rcases rawSetDict_cases cfg f m its key ve r hr with rfl | rfl | h
  · rfl
  · exact dictErase_aliased f m its key
  · exact dictStore_unal cfg f m its key _ hw hfind _ h

theorem rawSet_unal (cfg : Cfg) (hre : cfg.reindexOnMutate = true) (hcp : cfg.insertCopiesOwn = true)
    (f : Forest) (t : Nat) (key : Key) (ins : Bool) (ve : VE) (hw : W f) :
    ∀ r, rawSet cfg f t key ins ve = .ok r → r.1.aliased = f.aliased := by
  intro r hr
  unfold rawSet at hr
  split at hr
  · next m its hfind =>
    split at hr
    · exact rawSetList_unal cfg hre hcp f m its _ ins ve hw (find_self hfind) r hr
    · cases hr
    · exact rawSetDict_unal cfg f m its _ ve hw (find_self hfind) r hr
  · cases hr

/-! ### `W` through the write primitives (trees with the belief fixes) -/

theorem fixed_re : (Cfg.fixedWith lcs nb sp sat).reindexOnMutate = true := rfl
theorem fixed_cp : (Cfg.fixedWith lcs nb sp sat).insertCopiesOwn = true := rfl

theorem rawSetList_W (f : Forest) (m : Meta) (its : Items) (key : Int) (ins : Bool) (ve : VE)
    (hw : W f) (hfind : f.find? m.id = some (.node m its)) (hk : ve.keysDistinct = true) :
    ∀ r, rawSetList (Cfg.fixedWith lcs nb sp sat) f m its key ins ve = .ok r → W r.1 := by
  intro r hr
  have hal : r.1.aliased = false := (rawSetList_unal _ fixed_re fixed_cp f m its key ins ve hw hfind r hr).trans hw.unal
  exact ⟨rawSetList_ok f m its key ins ve hw.ok (Forest.find?_node_ok f hw.ok m.id m its hfind) r hr,
    rawSetList_inv _ f m its key ins ve hw.inv hfind hk r hr hal, hal⟩

theorem rawSet_W (f : Forest) (t : Nat) (key : Key) (ins : Bool) (ve : VE) (hw : W f) (hk : ve.keysDistinct = true) :
    ∀ r, rawSet (Cfg.fixedWith lcs nb sp sat) f t key ins ve = .ok r → W r.1 := by
  intro r hr
  have hal : r.1.aliased = false := (rawSet_unal _ fixed_re fixed_cp f t key ins ve hw r hr).trans hw.unal
  exact ⟨rawSet_ok f t key ins ve hw.ok r hr, rawSet_inv _ f t key ins ve hw.inv hk r hr hal, hal⟩

theorem rawSetDict_W (f : Forest) (m : Meta) (its : Items) (key : Key) (ve : VE)
    (hw : W f) (hfind : f.find? m.id = some (.node m its)) (hkind : m.kind ≠ .list) (hk : ve.keysDistinct = true) :
    ∀ r, rawSetDict (Cfg.fixedWith lcs nb sp sat) f m its key ve = .ok r → W r.1 := by
  intro r hr
  have hal : r.1.aliased = false := (rawSetDict_unal _ f m its key ve hw hfind r hr).trans hw.unal
  exact ⟨rawSetDict_ok f m its key ve hw.ok (Forest.find?_node_ok f hw.ok m.id m its hfind) r hr,
    rawSetDict_inv _ f m its key ve hw.inv hfind hkind hk r hr hal, hal⟩

theorem W.notify {f : Forest} (hw : W f) (targets : List Nat) : W (notify f targets) :=
  ⟨notify_ok f targets hw.ok, hw.inv.notify targets, by rw [notify_aliased]; exact hw.unal⟩

theorem finish_unal (f : Forest) (n : Bool) (r : Except Err (Forest × Bool)) (targets : List Nat) (ha : f.aliased = false)
    (hr : ∀ x, r = .ok x → x.1.aliased = false) : (finish f n r targets).forest.aliased = false := by
  unfold finish
  split
  · exact ha
  · next f' upd =>
    have := hr (f', upd) rfl
    simp only
    split
    · rw [notify_aliased]; exact this
    · exact this

/-! ### the loops -/

theorem extendLoop_W (t : Nat) : (vs : List VE) → ∀ (f : Forest) (upd : Bool), W f →
    (∀ v ∈ vs, v.keysDistinct = true) → ∀ r, extendLoop (Cfg.fixedWith lcs nb sp sat) t f vs upd = .ok r → W r.1
  | [], f, upd, hw, _, r, hr => by simp only [extendLoop] at hr; cases hr; exact hw
  | v :: vs, f, upd, hw, hk, r, hr => by
    simp only [extendLoop] at hr
    split at hr
    · next m its hfind =>
      split at hr
      · cases hr
      · next f' u heq =>
        exact extendLoop_W t vs f' _ (rawSetList_W f m its _ false v hw (find_self hfind) (hk v (by simp)) (f', u) heq)
          (fun x hx => hk x (by simp [hx])) r hr
    · cases hr

theorem sliceLoop_W (t : Nat) (start step : Int) : (vs : List (Bool × VE)) → ∀ (f : Forest) (i : Nat) (upd : Bool), W f →
    (∀ x ∈ vs, x.2.keysDistinct = true) →
    ∀ r, sliceLoop (Cfg.fixedWith lcs nb sp sat) t start step f i vs upd = .ok r → W r.1
  | [], f, i, upd, hw, _, r, hr => by simp only [sliceLoop] at hr; cases hr; exact hw
  | (ins, v) :: vs, f, i, upd, hw, hk, r, hr => by
    simp only [sliceLoop] at hr
    split at hr
    · next m its hfind =>
      split at hr
      · cases hr
      · next f' u heq =>
        exact sliceLoop_W t start step vs f' _ _
          (rawSetList_W f m its _ ins v hw (find_self hfind) (hk (ins, v) (by simp)) (f', u) heq)
          (fun x hx => hk x (by simp [hx])) r hr
    · cases hr

theorem rebindOne_W (f : Forest) (t : Nat) (path : List Key) (ins : Bool) (v : VE) (hw : W f)
    (hk : v.keysDistinct = true) :
    ∀ r, rebindOne (Cfg.fixedWith lcs nb sp sat) f t path ins v = .ok r → W r.1 := by
  intro r hr
  unfold rebindOne at hr
  split at hr
  · cases hr
  · cases hr
  · split at hr
    · split at hr
      · cases hr
      · split at hr
        · cases hr
        · next f' upd heq =>
          cases hr
          exact rawSet_W f _ _ _ v hw hk (f', upd) heq
    · split at hr <;> cases hr

theorem rebindLoop_W (t : Nat) : (pairs : List (List Key × Bool × VE)) → ∀ (f : Forest) (acc : List Nat),
    W f → (∀ x ∈ pairs, x.2.2.keysDistinct = true) → W (rebindLoop (Cfg.fixedWith lcs nb sp sat) t f pairs acc).1
  | [], f, acc, hw, _ => by simp only [rebindLoop]; exact hw
  | (p, ins, v) :: rest, f, acc, hw, hk => by
    simp only [rebindLoop]
    split
    · exact hw
    · next f' u heq =>
      exact rebindLoop_W t rest f' _ (rebindOne_W f t p ins v hw (hk (p, ins, v) (by simp)) (f', u) heq)
        (fun x hx => hk x (by simp [hx]))

theorem doRebind_unal (f : Forest) (n : Bool) (t : Nat) (m : Meta) (pairs : List (List Key × Bool × VE))
    (skip : Option Bool) (raise : Bool) (hw : W f) (hk : ∀ x ∈ pairs, x.2.2.keysDistinct = true) :
    (doRebind (Cfg.fixedWith lcs nb sp sat) f n t m pairs skip raise).forest.aliased = false := by
  unfold doRebind
  split; · exact hw.unal
  split; · exact hw.unal
  split
  · exact hw.unal
  · simp only
    have hk' : ∀ x ∈ (if m.kind = Kind.list then sortPairsDesc pairs else pairs), x.2.2.keysDistinct = true := by
      intro x hx
      split at hx
      · exact hk x (mem_sortPairsDesc pairs x hx)
      · exact hk x hx
    have h := (rebindLoop_W (lcs := lcs) (nb := nb) (sp := sp) (sat := sat) t
      (if m.kind = Kind.list then sortPairsDesc pairs else pairs) f [] hw hk').unal
    generalize rebindLoop (Cfg.fixedWith lcs nb sp sat) t f (if m.kind = Kind.list then sortPairsDesc pairs else pairs) [] = x at h ⊢
    obtain ⟨f', targets, e⟩ := x
    cases e with
    | some e => exact h
    | none =>
      simp only
      split
      · exact h
      · rw [notify_aliased]; exact h

theorem noClash_of_notInPlace (f : Forest) (m : Meta) (i : Int) (v : VE) (hin : ¬ sliceInPlace f m i v = true) :
    TopOK f none (some m.id) false (m.path ++ [Key.i i]) v := by
  rintro rid rfl ⟨cm, cits, hc, hroot, _, hpar, hpath, _⟩
  apply hin
  simp [sliceInPlace, Forest.metaOf?, hc, Tree.meta?, hroot, hpar, hpath]

theorem slicePrepare_W (m : Meta) (ix : Nat → Int) : (vs : List VE) → ∀ (f : Forest) (i : Nat), W f →
    (∀ v ∈ vs, v.keysDistinct = true) →
    W (slicePrepare (Cfg.fixedWith lcs nb sp sat) m ix f i vs).1 ∧
      ∀ v ∈ (slicePrepare (Cfg.fixedWith lcs nb sp sat) m ix f i vs).2, v.keysDistinct = true
  | [], f, i, hw, _ => by simp only [slicePrepare]; exact ⟨hw, by simp⟩
  | v :: vs, f, i, hw, hk => by
    simp only [slicePrepare]
    by_cases hin : sliceInPlace f m (ix i) v = true
    · rw [if_pos hin]
      have ih := slicePrepare_W m ix vs f (i + 1) hw (fun x hx => hk x (by simp [hx]))
      refine ⟨ih.1, ?_⟩
      intro x hx
      simp only [List.mem_cons] at hx
      rcases hx with rfl | hx
      · exact hk _ (by simp)
      · exact ih.2 x hx
    · rw [if_neg hin]
      have hm := evalVE_mono (Cfg.fixedWith lcs nb sp sat) none v f (some m.id) false m.part (m.path ++ [Key.i (ix i)])
      have hv := evalVE_shape (Cfg.fixedWith lcs nb sp sat) none v f (some m.id) false m.part (m.path ++ [Key.i (ix i)])
        hw.inv.shape (hk v (by simp))
      have hsp := evalVE_spec (Cfg.fixedWith lcs nb sp sat) none v f (some m.id) false m.part (m.path ++ [Key.i (ix i)]) hw.ok
      have hun := evalVE_unal (Cfg.fixedWith lcs nb sp sat) none v f (some m.id) false m.part (m.path ++ [Key.i (ix i)])
        hw.ok hw.inv.nb (noClash_of_notInPlace f m (ix i) v hin)
      have he := fun h => evalVE_ids (Cfg.fixedWith lcs nb sp sat) none [] v f (some m.id) false m.part (m.path ++ [Key.i (ix i)])
        hw.inv.nb (pendOk_none f) h
      generalize evalVE (Cfg.fixedWith lcs nb sp sat) f none (some m.id) false m.part (m.path ++ [Key.i (ix i)]) v = r at hm hv hsp hun he ⊢
      obtain ⟨r1, r2⟩ := r
      have hal1 : r1.aliased = false := hun.trans hw.unal
      cases r2 with
      | leaf a =>
        simp only at hm hv hsp hun he ⊢
        have ih := slicePrepare_W m ix vs r1 (i + 1) ⟨ok_of_mono hw.ok hm, ⟨hw.inv.nb.of_mono hm, hv.1⟩, hal1⟩
          (fun x hx => hk x (by simp [hx]))
        refine ⟨ih.1, ?_⟩
        intro x hx
        simp only [List.mem_cons] at hx
        rcases hx with rfl | hx
        · rfl
        · exact ih.2 x hx
      | node nm nits =>
        simp only at hm hv hsp hun he ⊢
        have hok2 : ({ r1 with roots := r1.roots ++ [Tree.node nm nits] } : Forest).ok = true := by
          rw [Forest.ok_iff]
          intro x hx
          simp only [List.mem_append, List.mem_singleton] at hx
          rcases hx with hx | rfl
          · exact (Forest.ok_iff f).mp hw.ok x (hsp.2 x hx)
          · exact okRoot_of_okAt hsp.1
        have hnb : NB { r1 with roots := r1.roots ++ [Tree.node nm nits] } := by
          refine nb_of_eval f r1 _ _ hw.inv.nb hm (he hal1) rfl ?_
          intro j
          simp [Forest.ids, List.count_append]
        have hsh : ShapeF { r1 with roots := r1.roots ++ [Tree.node nm nits] } := by
          constructor
          · intro x hx
            simp only [List.mem_append, List.mem_singleton] at hx
            rcases hx with hx | rfl
            · exact hv.1.roots x hx
            · exact hv.2
          · exact hv.1.pool
        have ih := slicePrepare_W m ix vs _ (i + 1) ⟨hok2, ⟨hnb, hsh⟩, hal1⟩ (fun x hx => hk x (by simp [hx]))
        refine ⟨ih.1, ?_⟩
        intro x hx
        simp only [List.mem_cons] at hx
        rcases hx with rfl | hx
        · rfl
        · exact ih.2 x hx

theorem setItem_unal (f : Forest) (n : Bool) (m : Meta) (its : Items) (k : Key) (v : VE) (hw : W f)
    (hfind : f.find? m.id = some (.node m its)) :
    (setItem (Cfg.fixedWith lcs nb sp sat) f n m its k v).forest.aliased = false := by
  unfold setItem
  split; · exact hw.unal
  split; · exact hw.unal
  split
  · simp only
    split
    · exact hw.unal
    · exact finish_unal f n _ _ hw.unal
        (fun x hx => (rawSetList_unal _ fixed_re fixed_cp f m its _ false v hw hfind x hx).trans hw.unal)
  · exact hw.unal
  · exact finish_unal f n _ _ hw.unal (fun x hx => (rawSetDict_unal _ f m its _ v hw hfind x hx).trans hw.unal)

theorem delItemDict_unal (f : Forest) (n : Bool) (m : Meta) (its : Items) (k : Key) (acc : Bool) (hw : W f)
    (hfind : f.find? m.id = some (.node m its)) :
    (delItemDict (Cfg.fixedWith lcs nb sp sat) f n m its k acc).forest.aliased = false := by
  unfold delItemDict
  split; · exact hw.unal
  split; · exact hw.unal
  split; · exact hw.unal
  exact finish_unal f n _ _ hw.unal (fun x hx => (rawSetDict_unal _ f m its k _ hw hfind x hx).trans hw.unal)

/-! ### every operation -/

theorem step_unal (f : Forest) (n : Bool) (op : Op) (hw : W f) (hk : wellKeyed op = true) :
    (step (Cfg.fixedWith lcs nb sp sat) f n op).forest.aliased = false := by
  have ha := hw.unal
  cases op with
  | new v =>
    cases v with
    | node kind sl aw pt items =>
      simp only [step]
      rw [addRoot_aliased]
      exact (evalVE_unal _ none _ f none false false [] hw.ok hw.inv.nb (fun rid h => by cases h)).trans ha
    | atom a => simp only [step]; exact ha
    | fresh => simp only [step]; exact ha
    | freshTuple k => simp only [step]; exact ha
    | mkRef tg => simp only [step]; exact ha
    | typedList items => simp only [step]; exact ha
    | ref id => simp only [step]; exact ha
  | clone t deep =>
    cases hfind : f.find? t with
    | none => simp only [step, hfind]; exact ha
    | some tr => simp only [step, hfind]; exact ha
  | setItem t k v =>
    cases hfind : f.find? t with
    | none => simp only [step, hfind]; exact ha
    | some tr =>
      cases tr with
      | leaf a => simp only [step, hfind]; exact ha
      | node m its =>
        simp only [step, hfind]
        exact setItem_unal f n m its k v hw (find_self hfind)
  | lAppend t v =>
    cases hfind : f.find? t with
    | none => simp only [step, hfind]; exact ha
    | some tr =>
      cases tr with
      | leaf a => simp only [step, hfind]; exact ha
      | node m its =>
        simp only [step, hfind]
        split
        · exact ha
        · exact finish_unal f n _ _ ha
            (fun x hx => (rawSetList_unal _ fixed_re fixed_cp f m its _ false v hw (find_self hfind) x hx).trans ha)
  | lInsert t idx v =>
    cases hfind : f.find? t with
    | none => simp only [step, hfind]; exact ha
    | some tr =>
      cases tr with
      | leaf a => simp only [step, hfind]; exact ha
      | node m its =>
        simp only [step, hfind]
        split
        · exact ha
        · exact finish_unal f n _ _ ha
            (fun x hx => (rawSetList_unal _ fixed_re fixed_cp f m its _ true v hw (find_self hfind) x hx).trans ha)
  | lExtend t vs =>
    simp only [wellKeyed, Op.values, List.all_eq_true] at hk
    cases hfind : f.find? t with
    | none => simp only [step, hfind]; exact ha
    | some tr =>
      cases tr with
      | leaf a => simp only [step, hfind]; exact ha
      | node m its =>
        simp only [step, hfind]
        split
        · exact ha
        · exact finish_unal f n _ _ ha (fun x hx => (extendLoop_W t vs f false hw hk x hx).unal)
  | lIMul t k =>
    cases hfind : f.find? t with
    | none => simp only [step, hfind]; exact ha
    | some tr =>
      cases tr with
      | leaf a => simp only [step, hfind]; exact ha
      | node m its =>
        simp only [step, hfind]
        split
        · split
          · exact ha
          · rw [clearAndNotify_aliased]; exact ha
        · split
          · exact ha
          · refine finish_unal f n _ _ ha (fun x hx => (extendLoop_W t _ f false hw ?_ x hx).unal)
            intro v hv
            simp only [List.mem_flatten, List.mem_replicate] at hv
            obtain ⟨l, ⟨_, rfl⟩, hv⟩ := hv
            simp only [List.mem_map] at hv
            obtain ⟨kv, _, rfl⟩ := hv
            split <;> rfl
  | lSetSlice t a b c vs =>
    simp only [wellKeyed, Op.values, List.all_eq_true] at hk
    cases hfind : f.find? t with
    | none => simp only [step, hfind]; exact ha
    | some tr =>
      cases tr with
      | leaf a => simp only [step, hfind]; exact ha
      | node m its =>
        simp only [step, hfind]
        split
        · exact ha
        · split
          · exact ha
          · split
            · exact ha
            · next start stop stp hidx =>
              split
              · exact ha
              have hp := slicePrepare_W (lcs := lcs) (nb := nb) (sp := sp) (sat := sat) m
                (sliceIx (Cfg.fixedWith lcs nb sp sat) start stp) vs f 0 hw hk
              have run_unal : ∀ (st stq : Int) (repl : List (Bool × VE)), Keyed repl →
                  (match sliceLoop (Cfg.fixedWith lcs nb sp sat) t st stq (slicePrepare (Cfg.fixedWith lcs nb sp sat) m (sliceIx (Cfg.fixedWith lcs nb sp sat) start stp) f 0 vs).1 0 repl false with
                    | .error e => (⟨(slicePrepare (Cfg.fixedWith lcs nb sp sat) m (sliceIx (Cfg.fixedWith lcs nb sp sat) start stp) f 0 vs).1, .err e⟩ : Res)
                    | .ok (f', upd) => ⟨if (n && upd) = true then notify f' [m.id] else f', .ok⟩).forest.aliased = false := by
                intro st stq repl hrepl
                split
                · exact hp.1.unal
                · next f' upd heq =>
                  have := (sliceLoop_W t st stq repl _ 0 false hp.1 hrepl (f', upd) heq).unal
                  simp only
                  split
                  · rw [notify_aliased]; exact this
                  · exact this
              split
              · refine run_unal _ _ _ ?_
                split
                · exact keyed_zip hp.2 _
                · exact keyed_pad hp.2 _
              · split
                · exact hp.1.unal
                · split
                  · exact run_unal _ _ _ (keyed_rev hp.2)
                  · exact run_unal _ _ _ (keyed_map hp.2)
  | dSetDefault t k v =>
    cases hfind : f.find? t with
    | none => simp only [step, hfind]; exact ha
    | some tr =>
      cases tr with
      | leaf a => simp only [step, hfind]; exact ha
      | node m its =>
        simp only [step, hfind]
        split
        · exact ha
        · exact setItem_unal f n m its k v hw (find_self hfind)
  | dUpdate t kvs =>
    simp only [wellKeyed, Op.values, List.all_eq_true] at hk
    cases hfind : f.find? t with
    | none => simp only [step, hfind]; exact ha
    | some tr =>
      cases tr with
      | leaf a => simp only [step, hfind]; exact ha
      | node m its =>
        simp only [step, hfind]
        refine doRebind_unal f n t m _ _ _ hw ?_
        intro x hx
        simp only [List.mem_map] at hx
        obtain ⟨kv, hkv, rfl⟩ := hx
        exact hk kv.2 (List.mem_map.mpr ⟨kv, hkv, rfl⟩)
  | rebind t pairs skip =>
    simp only [wellKeyed, Op.values, List.all_eq_true] at hk
    cases hfind : f.find? t with
    | none => simp only [step, hfind]; exact ha
    | some tr =>
      cases tr with
      | leaf a => simp only [step, hfind]; exact ha
      | node m its =>
        simp only [step, hfind]
        refine doRebind_unal f n t m _ _ _ hw ?_
        intro x hx
        exact hk x.2.2 (List.mem_map.mpr ⟨x, hx, rfl⟩)
  | lDelSlice t a b c =>
    cases hfind : f.find? t with
    | none => simp only [step, hfind]; exact ha
    | some tr =>
      cases tr with
      | leaf a => simp only [step, hfind]; exact ha
      | node m its =>
        simp only [step, hfind]
        split
        · exact ha
        · split
          · exact ha
          · split
            · exact ha
            · split
              · exact ha
              · have h1 : ∀ ps, (rawDelMany (Cfg.fixedWith lcs nb sp sat) f m its ps).aliased = false := by
                  intro ps; unfold rawDelMany; simp only; rw [addRoots_aliased]; exact ha
                split
                · rw [notify_aliased]; exact h1 _
                · exact h1 _
  | setSeal t flag =>
    cases hfind : f.find? t with
    | none => simp only [step, hfind]; exact ha
    | some tr =>
      cases tr with
      | leaf a => simp only [step, hfind]; exact ha
      | node m its =>
        simp only [step, hfind]
        exact ha
  | delItem t k =>
    cases hfind : f.find? t with
    | none => simp only [step, hfind]; exact ha
    | some tr =>
      cases tr with
      | leaf a => simp only [step, hfind]; exact ha
      | node m its =>
        simp only [step, hfind]
        cases hkind : m.kind with
        | dict => exact delItemDict_unal f n m its k false hw (find_self hfind)
        | list =>
          cases k with
          | s _ => exact ha
          | i idx => simp only; rw [delItemList_aliased]; exact ha
        | obj c => exact ha
  | lPop t idx =>
    cases hfind : f.find? t with
    | none => simp only [step, hfind]; exact ha
    | some tr =>
      cases tr with
      | leaf a => simp only [step, hfind]; exact ha
      | node m its =>
        simp only [step, hfind]
        split
        · exact ha
        · rw [delItemList_aliased]; exact ha
  | lRemove t a =>
    cases hfind : f.find? t with
    | none => simp only [step, hfind]; exact ha
    | some tr =>
      cases tr with
      | leaf a => simp only [step, hfind]; exact ha
      | node m its =>
        simp only [step, hfind]
        split
        · rw [delItemList_aliased]; exact ha
        · exact ha
  | lClear t =>
    cases hfind : f.find? t with
    | none => simp only [step, hfind]; exact ha
    | some tr =>
      cases tr with
      | leaf a => simp only [step, hfind]; exact ha
      | node m its =>
        simp only [step, hfind]
        split
        · exact ha
        · rw [clearAndNotify_aliased]; exact ha
  | lSort t ranks rev =>
    cases hfind : f.find? t with
    | none => simp only [step, hfind]; exact ha
    | some tr =>
      cases tr with
      | leaf a => simp only [step, hfind]; exact ha
      | node m its =>
        simp only [step, hfind]
        split
        · exact ha
        · rw [permuteAndNotify_aliased]; exact ha
  | lReverse t =>
    cases hfind : f.find? t with
    | none => simp only [step, hfind]; exact ha
    | some tr =>
      cases tr with
      | leaf a => simp only [step, hfind]; exact ha
      | node m its =>
        simp only [step, hfind]
        split
        · exact ha
        · rw [permuteAndNotify_aliased]; exact ha
  | dPop t k =>
    cases hfind : f.find? t with
    | none => simp only [step, hfind]; exact ha
    | some tr =>
      cases tr with
      | leaf a => simp only [step, hfind]; exact ha
      | node m its =>
        simp only [step, hfind]
        split
        · split
          · exact delItemDict_unal f n m its k true hw (find_self hfind)
          · exact ha
        · exact ha
  | dPopItem t =>
    cases hfind : f.find? t with
    | none => simp only [step, hfind]; exact ha
    | some tr =>
      cases tr with
      | leaf a => simp only [step, hfind]; exact ha
      | node m its =>
        simp only [step, hfind]
        split
        · exact ha
        split
        · exact ha
        · split
          · exact ha
          · simp only
            split
            · rw [notify_aliased, addRoot_aliased]; exact ha
            · rw [addRoot_aliased]; exact ha
  | dClear t =>
    cases hfind : f.find? t with
    | none => simp only [step, hfind]; exact ha
    | some tr =>
      cases tr with
      | leaf a => simp only [step, hfind]; exact ha
      | node m its =>
        simp only [step, hfind]
        split
        · exact ha
        · rw [clearAndNotify_aliased]; exact ha

/-- **no aliasing**: from a well-formed forest, a call on a tree with the belief fixes never sets
the mark. -/
theorem stepA_unal (f : Forest) (n : Bool) (op : Op) (hf : f.wf = true) (hk : wellKeyed op = true) :
    (stepA (Cfg.fixedWith lcs nb sp sat) f n op).forest.aliased = false := by
  rw [wf_iff] at hf
  have hw : W f := ⟨hf.1, hf.2.1, hf.2.2.1⟩
  unfold stepA
  split
  · exact hw.unal
  · unfold stepN
    rw [normalizeRoots_aliased]
    exact step_unal f n op hw hk

end Pg.Sym
