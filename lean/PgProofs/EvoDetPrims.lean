/- C14 — prefix determinism of the primitives (the proofs follow the structure of the `OO` lemmas). -/
import PgProofs.EvoDet
import PgProofs.EvoPermP
namespace Pg.C14

theorem FrameM_checked (g : GSpec) (d : DNA) : FrameM (checked g d) := by
  unfold checked
  split
  · exact FrameM.pure _
  · exact FrameM.fail _

theorem FrameM_pickOne {α : Type} (sample : Bool) (vals : List (Option α)) : FrameM (pickOne sample vals) := by
  unfold pickOne
  split
  · exact FrameM.fail _
  · split
    · apply FrameM.bind (FrameM_nextChoices _ _)
      intro is
      rcases is with _ | ⟨r, _ | ⟨r2, t⟩⟩
      · exact FrameM.fail _
      · simp only []
        cases hv : vals[r]? with
        | none => exact FrameM.fail _
        | some o =>
          cases o with
          | none => exact FrameM.fail _
          | some a => exact FrameM.pure _
      · exact FrameM.fail _
    · apply FrameM.bind (FrameM_nextIdx _ _)
      intro r
      cases nthSome vals r with
      | none => exact FrameM.fail _
      | some a => exact FrameM.pure _

theorem FrameM_mergeNext (k : Nat) (dist srt : Bool) (lists : List (Option (List Nat))) :
    ∀ (steps index attempts : Nat) (results : List Nat), FrameM (mergeNext k dist srt lists steps index attempts results) := by
  intro steps
  induction steps with
  | zero => intro index attempts results; simp only [mergeNext]; exact FrameM.fail _
  | succ n ih =>
    intro index attempts results
    simp only [mergeNext]
    split
    · exact FrameM.pure _
    · split
      · exact FrameM.pure _
      · apply FrameM.bind (FrameM_nextChoices _ _)
        intro is
        rcases is with _ | ⟨r, _ | ⟨r2, t⟩⟩
        · exact FrameM.fail _
        · simp only []
          cases hl : lists[r]? with
          | none => exact FrameM.fail _
          | some o =>
            cases o with
            | none => exact FrameM.fail _
            | some l =>
              simp only []
              cases hd : l[index]? with
              | none => exact FrameM.fail _
              | some decision =>
                simp only []
                split
                · exact ih _ _ _
                · exact ih _ _ _
        · exact FrameM.fail _

theorem FrameM_mergeMulti (k : Nat) (dist srt : Bool) (lists : List (Option (List Nat))) :
    FrameM (mergeMulti k dist srt lists) := by
  unfold mergeMulti
  split
  · exact FrameM.fail _
  · apply FrameM.bind (FrameM_mergeNext _ _ _ _ _ _ _ _)
    intro res
    cases res with
    | some r => exact FrameM.pure _
    | none =>
      simp only []
      apply FrameM.bind (FrameM_nextChoices _ _)
      intro is
      rcases is with _ | ⟨r, _ | ⟨r2, t⟩⟩
      · exact FrameM.fail _
      · simp only []
        cases hl : lists[r]? with
        | none => exact FrameM.fail _
        | some o =>
          cases o with
          | none => exact FrameM.fail _
          | some l => exact FrameM.pure _
      · exact FrameM.fail _

theorem FrameM_mergeDna (sample : Bool) : ∀ (fuel : Nat) (g : GSpec) (ps : List (Option DNA)),
    FrameM (mergeDna sample fuel g ps) := by
  intro fuel
  induction fuel with
  | zero => intro g ps; simp only [mergeDna]; exact FrameM.fail _
  | succ f ih =>
    intro g ps
    cases g with
    | space es =>
      simp only [mergeDna]
      exact FrameM.bind (FrameM_forEachM _ (fun je => ih _ _) _) (fun ds => FrameM.pure _)
    | float lo hi =>
      simp only [mergeDna]
      exact FrameM.bind (FrameM_pickOne _ _) (fun v => FrameM.pure _)
    | choices k cands dist srt =>
      simp only [mergeDna]
      have tail : ∀ res : List Nat, FrameM (do
          let ds ← forEachM (fun (iv : Nat × Nat) =>
                match cands[iv.2]? with
                | some c => mergeDna sample f c (ps.map (below iv.1 iv.2))
                | none => fail .desync) (enumFrom' 0 res)
          Pure.pure (DNA.choices (mkSubs 0 res ds)) : M DNA) := by
        intro res
        refine FrameM.bind (FrameM_forEachM _ (fun iv => ?_) _) (fun ds => FrameM.pure _)
        cases cands[iv.2]? with
        | none => exact FrameM.fail _
        | some c => exact ih _ _
      split
      · exact FrameM.bind (FrameM_pickOne _ _) (fun v => tail [v])
      · exact FrameM.bind (FrameM_mergeMulti _ _ _ _) tail

theorem FrameM_kpointCuts (k len : Nat) : FrameM (kpointCuts k len) := by
  unfold kpointCuts
  split
  · exact FrameM.bind (FrameM_nextSample _ _) (fun is => FrameM.pure _)
  · exact FrameM.pure _

theorem FrameM_segCross (g : GSpec) (cuts : List Nat) (x y : DNA) : FrameM (segCross g cuts x y) := by
  simp only [segCross]
  split
  · exact FrameM.fail _
  · exact FrameM.bind (FrameM_checked _ _) (fun d1 => FrameM.bind (FrameM_checked _ _) (fun d2 => FrameM.pure _))

theorem FrameM_cutPoints (n : Nat) : FrameM (cutPoints n) := by
  unfold cutPoints
  apply FrameM.bind (FrameM_nextSample _ _)
  intro ab
  rcases ab with _ | ⟨a, _ | ⟨b, _ | ⟨c, r⟩⟩⟩
  · exact FrameM.fail _
  · exact FrameM.fail _
  · exact FrameM.pure _
  · exact FrameM.fail _

theorem FrameM_permuteOrder (vx vy : List Nat) : FrameM (permuteOrder vx vy) := by
  unfold permuteOrder
  exact FrameM.bind (FrameM_cutPoints _) (fun _ => FrameM.pure _)

theorem FrameM_permutePMX (vx vy : List Nat) : FrameM (permutePMX vx vy) := by
  unfold permutePMX
  apply FrameM.bind (FrameM_cutPoints _)
  intro se
  cases pmxChild vx vy se.1 se.2 with
  | none => exact FrameM.fail _
  | some c0 =>
    cases pmxChild vy vx se.1 se.2 with
    | none => exact FrameM.fail _
    | some c1 => exact FrameM.pure _

theorem FrameM_cycleLoop (p0 p1 : List Nat) : ∀ (is : List Nat) (asg : List (Option Bool)), FrameM (cycleLoop p0 p1 is asg) := by
  intro is
  induction is with
  | nil => intro asg; simp only [cycleLoop]; exact FrameM.pure _
  | cons i is ih =>
    intro asg
    simp only [cycleLoop]
    split
    · exact ih _
    · apply FrameM.bind (FrameM_nextIdx _ _)
      intro c
      cases orbit p0 p1 i with
      | none => exact FrameM.fail _
      | some o => exact ih _

theorem FrameM_permuteCycle (vx vy : List Nat) : FrameM (permuteCycle vx vy) := by
  unfold permuteCycle
  apply FrameM.bind (FrameM_cycleLoop _ _ _ _)
  intro asg
  cases allSomeBool asg with
  | none => exact FrameM.fail _
  | some sides => exact FrameM.pure _

theorem FrameM_place (loc : Option Nat) (x y : DNA) (c0 c1 : List Nat) : FrameM (place loc x y c0 c1) := by
  unfold place
  cases loc with
  | none => exact FrameM.pure _
  | some j =>
    simp only []
    cases elemOf x j with
    | none => exact FrameM.fail _
    | some ex =>
      cases elemOf y j with
      | none => exact FrameM.fail _
      | some ey =>
        simp only []
        split
        · exact FrameM.pure _
        · exact FrameM.fail _

theorem FrameM_permProposals (permute : List Nat → List Nat → M (List Nat × List Nat))
    (hp : ∀ vx vy, FrameM (permute vx vy)) (k : Nat) (pts : List PermPoint) (x y : DNA) :
    FrameM (permProposals permute k pts x y) := by
  unfold permProposals
  apply FrameM.bind
  · unfold pickPoints
    split
    · exact FrameM.pure _
    · exact FrameM.bind (FrameM_nextSample _ _) (fun _ => FrameM.pure _)
  · intro ts
    refine FrameM.bind (FrameM_forEachM _ (fun t => ?_) _) (fun _ => FrameM.pure _)
    cases pts[t]? with
    | none => exact FrameM.fail _
    | some lk =>
      obtain ⟨loc, vx, vy⟩ := lk
      simp only []
      exact FrameM.bind (hp vx vy) (fun cs => FrameM_place _ _ _ _ _)

theorem FrameM_nextOrder : FrameM nextOrder := by
  unfold nextOrder
  apply FrameM.bind FrameM_popEv
  intro e
  split
  · exact FrameM.pure _
  · exact FrameM.fail _

theorem FrameM_nextUniform (lo hi : Q) : FrameM (nextUniform lo hi) := by
  unfold nextUniform
  apply FrameM.bind FrameM_popEv
  intro e
  split
  · exact FrameM_ite _ (FrameM.pure _) (FrameM.fail _)
  · exact FrameM.fail _

theorem FrameM_setOrder (children : List DNA) : FrameM (setOrder children) := by
  simp only [setOrder]
  split
  · exact FrameM.pure _
  · refine FrameM.bind FrameM_nextOrder (fun rec => ?_)
    split
    · exact FrameM.pure _
    · exact FrameM.fail _

theorem FrameM_finishChildren (g : GSpec) (raw : List DNA) : FrameM (finishChildren g raw) := by
  simp only [finishChildren]
  exact FrameM.bind (FrameM_forEachM _ (fun d => FrameM_checked g d) _)
    (fun o1 => FrameM.bind (FrameM_setOrder o1) (fun o2 => FrameM_forEachM _ FrameM_mkChild _))

theorem FrameM_recPointWise (sample : Bool) (fuel : Nat) (g : GSpec) (pop : Pop) :
    FrameM (recPointWise sample fuel g pop) := by
  simp only [recPointWise]
  split
  · exact FrameM.pure _
  · split
    · exact FrameM.fail _
    · exact FrameM.bind (FrameM_mergeDna sample fuel g _)
        (fun d => FrameM.bind (FrameM_checked g d) (fun d' => FrameM.bind (FrameM_mkChild d') (fun _ => FrameM.pure _)))

theorem FrameM_recSegment (g : GSpec) (cutsOf : Nat → M (List Nat)) (hc : ∀ n, FrameM (cutsOf n)) (pop : Pop) :
    FrameM (recSegment g cutsOf pop) := by
  unfold recSegment
  split
  · rename_i x y
    split
    · exact FrameM.fail _
    · refine FrameM.bind (hc _) (fun cuts => FrameM.bind (FrameM_segCross g cuts x.dna y.dna) (fun dd => ?_))
      obtain ⟨d1, d2⟩ := dd
      exact FrameM.bind (FrameM_mkChild d1) (fun c1 => FrameM.bind (FrameM_mkChild d2) (fun c2 => FrameM.pure _))
  · exact FrameM.fail _

theorem FrameM_recPerm (permute : List Nat → List Nat → M (List Nat × List Nat))
    (hp : ∀ vx vy, FrameM (permute vx vy)) (k : Nat) (g : GSpec) (pop : Pop) : FrameM (recPerm permute k g pop) := by
  unfold recPerm
  split
  · split
    · exact FrameM.fail _
    · refine FrameM.bind (FrameM_permProposals permute hp _ _ _ _) (fun raw => ?_)
      split
      · exact FrameM.pure _
      · exact FrameM_finishChildren g raw
  · exact FrameM.fail _

theorem FrameM_randomDna : ∀ (fuel : Nat) (g : GSpec), FrameM (randomDna fuel g) := by
  intro fuel
  induction fuel with
  | zero => intro g; simp only [randomDna]; exact FrameM.fail _
  | succ f ih =>
    intro g
    cases g with
    | space es =>
      simp only [randomDna]
      exact FrameM.bind (FrameM_forEachM _ (fun e => ih e) _) (fun _ => FrameM.pure _)
    | float lo hi =>
      simp only [randomDna]
      exact FrameM.bind (FrameM_nextUniform _ _) (fun _ => FrameM.pure _)
    | choices k cands dist srt =>
      have tail : ∀ vs : List Nat, FrameM (do
          let ds ← forEachM (fun v => match cands[v]? with
                                  | some c => randomDna f c
                                  | none => fail .desync) (if srt = true then sortNats vs else vs)
          Pure.pure (DNA.choices (mkSubs 0 (if srt = true then sortNats vs else vs) ds)) : M DNA) := by
        intro vs
        refine FrameM.bind (FrameM_forEachM _ (fun v => ?_) _) (fun _ => FrameM.pure _)
        cases cands[v]? with
        | none => exact FrameM.fail _
        | some c => exact ih c
      cases dist with
      | true =>
        simp only [randomDna, if_true]
        exact FrameM.bind (FrameM_nextSample _ _) tail
      | false =>
        simp only [randomDna, Bool.false_eq_true, if_false]
        exact FrameM.bind (FrameM_forEachM _ (fun _ => FrameM_nextIdx _ _) _) tail

theorem FrameM_mutEntry (fuel k : Nat) (cands : List GSpec) (dist srt : Bool) (subs : List DNA) (j : Nat) :
    FrameM (mutEntry fuel k cands dist srt subs j) := by
  unfold mutEntry
  simp only []
  cases subs[j]? with
  | none => exact FrameM.fail _
  | some e =>
    simp only []
    split
    · exact FrameM_randomDna _ _
    · split
      · split
        · exact FrameM.pure _
        · refine FrameM.bind (FrameM_nextIdx _ _) (fun r => ?_)
          cases ((List.range cands.length).filter (fun c => !(subs.map subVal).contains c))[r]? with
          | none => exact FrameM.fail _
          | some nv =>
            simp only []
            cases cands[nv]? with
            | none => exact FrameM.fail _
            | some c => exact FrameM.bind (FrameM_randomDna _ _) (fun _ => FrameM.pure _)
      · refine FrameM.bind (FrameM_nextIdx _ _) (fun nv => ?_)
        cases cands[nv]? with
        | none => exact FrameM.fail _
        | some c => exact FrameM.bind (FrameM_randomDna _ _) (fun _ => FrameM.pure _)

mutual
  theorem FrameM_mutNode (w : Where) (fuel : Nat) : ∀ (d : DNA) (g : GSpec) (coll : Bool) (i : Nat),
      FrameM (mutNode w fuel g coll d i)
    | .space ds, g, coll, i => by
        cases g with
        | space es =>
          simp only [mutNode]
          exact FrameM.bind (FrameM_mutElems w fuel ds es _ i) (fun _ => FrameM.pure _)
        | choices k cands dist srt => simp only [mutNode]; exact FrameM.fail _
        | float lo hi => simp only [mutNode]; exact FrameM.fail _
    | .choices subs, g, coll, i => by
        cases g with
        | space es => simp only [mutNode]; exact FrameM.fail _
        | float lo hi => simp only [mutNode]; exact FrameM.fail _
        | choices k cands dist srt =>
          simp only [mutNode]
          split
          · exact FrameM_randomDna _ _
          · refine FrameM.bind (FrameM_mutSubs w fuel k subs cands _) (fun r => ?_)
            cases r with
            | inl l => exact FrameM.pure _
            | inr j => exact FrameM_mutEntry _ _ _ _ _ _ _
    | .float v, g, coll, i => by
        cases g with
        | space es => simp only [mutNode]; exact FrameM.fail _
        | choices k cands dist srt => simp only [mutNode]; exact FrameM.fail _
        | float lo hi => simp only [mutNode]; exact FrameM_randomDna _ _
    | .sub b v d, g, coll, i => by
        cases g <;> (simp only [mutNode]; exact FrameM.fail _)
  theorem FrameM_mutElems (w : Where) (fuel : Nat) : ∀ (ds : List DNA) (es : List GSpec) (c : Bool) (i : Nat),
      FrameM (mutElems w fuel es c ds i)
    | [], es, c, i => by
        cases es <;> (simp only [mutElems]; exact FrameM.fail _)
    | d :: ds, es, c, i => by
        cases es with
        | nil => simp only [mutElems]; exact FrameM.fail _
        | cons e es =>
          simp only [mutElems]
          split
          · exact FrameM.bind (FrameM_mutNode w fuel d e c i) (fun _ => FrameM.pure _)
          · exact FrameM.bind (FrameM_mutElems w fuel ds es c _) (fun _ => FrameM.pure _)
  theorem FrameM_mutSubs (w : Where) (fuel k : Nat) : ∀ (subs : List DNA) (cands : List GSpec) (i : Nat),
      FrameM (mutSubs w fuel k cands subs i)
    | [], cands, i => by simp only [mutSubs]; exact FrameM.fail _
    | .space _ :: rest, cands, i => by simp only [mutSubs]; exact FrameM.fail _
    | .choices _ :: rest, cands, i => by simp only [mutSubs]; exact FrameM.fail _
    | .float _ :: rest, cands, i => by simp only [mutSubs]; exact FrameM.fail _
    | .sub b v d :: rest, cands, i => by
        simp only [mutSubs]
        split
        · exact FrameM.pure _
        · cases cands[v]? with
          | none => exact FrameM.fail _
          | some c =>
            simp only []
            generalize (if w (entryInfo k b v) = true then i - 1 else i) = i1
            split
            · exact FrameM.bind (FrameM_mutNode w fuel d c true _) (fun _ => FrameM.pure _)
            · refine FrameM.bind (FrameM_mutSubs w fuel k rest cands _) (fun r => ?_)
              cases r with
              | inl l => exact FrameM.pure _
              | inr j => exact FrameM.pure _
end

theorem FrameM_mutUniformW (w : Where) (fuel : Nat) (g : GSpec) (pop : Pop) : FrameM (mutUniformW w fuel g pop) := by
  simp only [mutUniformW]
  apply FrameM_forEachM
  intro x
  refine FrameM.bind ?_ (fun d => FrameM_mkChild d)
  simp only [mutUniformOne]
  split
  · exact FrameM.fail _
  · exact FrameM.bind (FrameM_nextIdx _ _) (fun i => FrameM_mutNode w fuel x.dna g false i)

end Pg.C14
