/-
  `space_size == -1` (infinite) propagates through every combinator: a spec has no size exactly
  when it contains a float or custom decision point.
-/
import PgModel.Geno.Enum
namespace Pg.Geno

mutual
  theorem sizeP_none_iff (p : Point) : sizeP p = none ↔ p.finite = false := by
    cases p with
    | float => simp [sizeP, Point.finite]
    | custom => simp [sizeP, Point.finite]
    | choices k cands d s info =>
      simp only [sizeP, Point.finite, Option.map_eq_none_iff]
      exact sizesC_none_iff cands
  theorem sizeElems_none_iff (es : List Point) : sizeElems es = none ↔ finiteSpace es = false := by
    cases es with
    | nil => simp [sizeElems, finiteSpace]
    | cons p ps =>
      have h1 := sizeP_none_iff p
      have h2 := sizeElems_none_iff ps
      simp only [sizeElems, finiteSpace, Bool.and_eq_false_iff]
      cases hp : sizeP p with
      | none => simp [h1.mp hp]
      | some a =>
        cases hs : sizeElems ps with
        | none => simp [h2.mp hs]
        | some b =>
          have f1 : p.finite = true := by
            cases hf : p.finite with
            | true => rfl
            | false => rw [h1.mpr hf] at hp; cases hp
          have f2 : finiteSpace ps = true := by
            cases hf : finiteSpace ps with
            | true => rfl
            | false => rw [h2.mpr hf] at hs; cases hs
          simp [f1, f2]
  theorem sizesC_none_iff (cs : List (List Point)) : sizesC cs = none ↔ finiteCands cs = false := by
    cases cs with
    | nil => simp [sizesC, finiteCands]
    | cons c cs =>
      have h1 := sizeElems_none_iff c
      have h2 := sizesC_none_iff cs
      simp only [sizesC, finiteCands, Bool.and_eq_false_iff]
      cases hp : sizeElems c with
      | none => simp [h1.mp hp]
      | some a =>
        cases hs : sizesC cs with
        | none => simp [h2.mp hs]
        | some b =>
          have f1 : finiteSpace c = true := by
            cases hf : finiteSpace c with
            | true => rfl
            | false => rw [h1.mpr hf] at hp; cases hp
          have f2 : finiteCands cs = true := by
            cases hf : finiteCands cs with
            | true => rfl
            | false => rw [h2.mpr hf] at hs; cases hs
          simp [f1, f2]
end

theorem size_none_iff (g : Spec) : g.size = none ↔ g.finite = false := by
  cases g with
  | space s => exact sizeElems_none_iff s
  | point p => exact sizeP_none_iff p

end Pg.Geno
