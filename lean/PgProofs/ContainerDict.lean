/-
  C02 helper lemmas: dict operations (Impl step = Spec step) and invariant preservation.
-/
import PgProofs.ContainerMerge
namespace Pg.C02

/-- No key is named twice (as Python keys: `True` and `1` are the same key). -/
def distinctKeysB : List (Key × Val) → Bool
  | [] => true
  | p :: rest => rest.all (fun q => !(p.1.eqv q.1)) && distinctKeysB rest

theorem foldl_dictSet_distinct (ps acc : List (Key × Val))
    (ha : ∀ a ∈ acc, ∀ p ∈ ps, a.1.eqv p.1 = false) (hd : distinctKeysB ps = true) :
    ps.foldl (fun acc p => dictSet acc p.1 p.2) acc = acc ++ ps := by
  induction ps generalizing acc with
  | nil => simp
  | cons p rest ih =>
    simp only [distinctKeysB, Bool.and_eq_true, List.all_eq_true, Bool.not_eq_true'] at hd
    have hk : hasKey acc p.1 = false := by
      unfold hasKey
      rw [List.any_eq_false]
      intro a haa
      simp [ha a haa p List.mem_cons_self]
    simp only [List.foldl_cons, dictSet_nokey p.2 hk]
    rw [ih (acc ++ [(p.1, p.2)]) ?_ hd.2]
    · simp
    · intro a haa q hq
      rcases List.mem_append.mp haa with h | h
      · exact ha a h q (List.mem_cons_of_mem _ hq)
      · simp only [List.mem_singleton] at h
        subst h
        exact hd.1 q hq

/-- Arguments that name every key once are merged into themselves. -/
theorem mergePairs_distinct {ps : List (Key × Val)} (hd : distinctKeysB ps = true) :
    PgDict.mergePairs ps = ps := by
  unfold PgDict.mergePairs
  rw [foldl_dictSet_distinct ps [] (by intro a ha; cases ha) hd]
  rfl

/-- The arguments of one `update` / `rebind` / constructor call (positional entries followed by the
keyword arguments) can be merged first: every key is named once, or no value is `MISSING`. -/
def mergeOk (ps : List (Key × Val)) : Bool :=
  distinctKeysB ps || ps.all (fun p => !p.2.isMissing)

theorem setAll_merge_of_ok {kvs ps : List (Key × Val)} (hf : ∀ p ∈ ps, missingFree p.2 = true)
    (h : mergeOk ps = true) : PgDict.setAll kvs (PgDict.mergePairs ps) = PyDict.assignAll kvs ps := by
  simp only [mergeOk, Bool.or_eq_true, List.all_eq_true, Bool.not_eq_true'] at h
  rcases h with h | h
  · rw [mergePairs_distinct h, setAll_eq_assignAll hf]
  · exact setAll_mergePairs h hf

/-- Which dict steps are in the domain of the refinement theorem: every value argument is free of
nested `MISSING` (top-level `MISSING` is extension 1), and one `update` / `rebind` call either names
every key once or carries no `MISSING` value (`mergeOk`). What remains excluded is a call that names
a key twice with a `MISSING` among its values — `C02_dict_counterexample_update_merge`. -/
def admissibleD (st : DStep) : Bool :=
  match st.op with
  | .set _ v => missingFree v
  | .setdefault _ d => missingFree d
  | .update pairs kw => (pairs ++ kw).all (fun p => missingFree p.2) && mergeOk (pairs ++ kw)
  | .rebind pairs kw => (pairs ++ kw).all (fun p => missingFree p.2) && mergeOk (pairs ++ kw)
  | _ => true

theorem step_dict (kvs : List (Key × Val)) (st : DStep) (hg : GoodD kvs) (ha : admissibleD st = true) :
    implD kvs st = specD kvs st := by
  obtain ⟨op, nt⟩ := st
  cases op with
  | get k => rfl
  | getD k d => rfl
  | contains k => rfl
  | len => rfl
  | set k v =>
    simp only [admissibleD] at ha
    simp only [implD, specD, setItemRaw_eq_assign ha]
  | del k =>
    simp only [implD, specD]
    cases hk : hasKey kvs k with
    | true => simp [PgDict.setItemRaw, Val.isMissing, hk]
    | false => simp
  | pop k d =>
    simp only [implD, specD]
    cases hl : lookupKey k kvs with
    | none =>
      have : hasKey kvs k = false := by rw [hasKey_eq_lookup, hl]; rfl
      simp [this]
    | some v =>
      have hk : hasKey kvs k = true := by rw [hasKey_eq_lookup, hl]; rfl
      have hm : v.isMissing = false := by
        obtain ⟨p, hp, he⟩ := lookupKey_mem hl
        rw [← he]; exact (hg p hp).1
      have hmm : Val.missing.isMissing = true := rfl
      simp [hk, hm, hmm, PgDict.setItemRaw]
  | popitem => rfl
  | clear => rfl
  | setdefault k d =>
    simp only [admissibleD] at ha
    simp only [implD, specD]
    cases hl : lookupKey k kvs with
    | none =>
      have : hasKey kvs k = false := by rw [hasKey_eq_lookup, hl]; rfl
      simp [this, Val.isMissing, setItemRaw_eq_assign ha]
    | some v =>
      have hk : hasKey kvs k = true := by rw [hasKey_eq_lookup, hl]; rfl
      have hm : v.isMissing = false := by
        obtain ⟨p, hp, he⟩ := lookupKey_mem hl
        rw [← he]; exact (hg p hp).1
      simp [hk, hm]
  | update pairs kw =>
    simp only [admissibleD, Bool.and_eq_true, List.all_eq_true] at ha
    simp only [implD, specD, setAll_merge_of_ok ha.1 ha.2]
  | copy => simp only [implD, specD, cloneKvs_eq]
  | union p r => rfl
  | rebind pairs kw =>
    simp only [admissibleD, Bool.and_eq_true, List.all_eq_true] at ha
    simp only [implD, specD, setAll_merge_of_ok ha.1 ha.2]

/-! ### Preservation of the dict invariant -/

theorem goodD_erase {kvs : List (Key × Val)} (k : Key) (h : GoodD kvs) : GoodD (dictErase kvs k) :=
  fun p hp => h p (List.mem_filter.mp hp).1

theorem goodD_set {kvs : List (Key × Val)} {k : Key} {v : Val} (h : GoodD kvs) (hv : GoodVal v) :
    GoodD (dictSet kvs k v) := by
  unfold dictSet
  split
  · intro p hp
    rw [List.mem_map] at hp
    obtain ⟨q, hq, he⟩ := hp
    split at he
    · subst he; exact hv
    · subst he; exact h q hq
  · intro p hp
    rcases List.mem_append.mp hp with h' | h'
    · exact h p h'
    · simp at h'; subst h'; exact hv

theorem goodD_assign {kvs : List (Key × Val)} {k : Key} {v : Val} (h : GoodD kvs)
    (hv : missingFree v = true) : GoodD (PyDict.assign kvs k v) := by
  unfold PyDict.assign
  cases hm : v.isMissing with
  | true => simp only [if_true]; exact goodD_erase k h
  | false => simp only [Bool.false_eq_true, if_false]; exact goodD_set h ⟨hm, hv⟩

theorem goodD_assignAll {kvs pairs : List (Key × Val)} (h : GoodD kvs)
    (hv : ∀ p ∈ pairs, missingFree p.2 = true) : GoodD (PyDict.assignAll kvs pairs) := by
  induction pairs generalizing kvs with
  | nil => exact h
  | cons p rest ih =>
    obtain ⟨k, v⟩ := p
    simp only [PyDict.assignAll]
    exact ih (goodD_assign h (hv (k, v) List.mem_cons_self)) (fun q hq => hv q (List.mem_cons_of_mem _ hq))

theorem specD_good (kvs : List (Key × Val)) (st : DStep) (hg : GoodD kvs) (ha : admissibleD st = true) :
    GoodD (specD kvs st).st := by
  obtain ⟨op, nt⟩ := st
  cases op with
  | get k => exact hg
  | getD k d => exact hg
  | contains k => exact hg
  | len => exact hg
  | set k v => exact goodD_assign hg (by simpa [admissibleD] using ha)
  | del k =>
    simp only [specD]
    split
    · exact goodD_erase k hg
    · exact hg
  | pop k d =>
    simp only [specD]
    split
    · exact goodD_erase k hg
    · split <;> exact hg
  | popitem =>
    simp only [specD]
    split
    · exact fun p hp => hg p ((List.dropLast_sublist kvs).subset hp)
    · exact hg
  | clear => intro p hp; cases hp
  | setdefault k d =>
    simp only [specD]
    split
    · exact hg
    · exact goodD_assign hg (by simpa [admissibleD] using ha)
  | update pairs kw =>
    simp only [admissibleD, Bool.and_eq_true, List.all_eq_true] at ha
    exact goodD_assignAll hg ha.1
  | copy => exact hg
  | union p r => exact hg
  | rebind pairs kw =>
    simp only [admissibleD, Bool.and_eq_true, List.all_eq_true] at ha
    simp only [specD]
    split
    · exact hg
    · exact goodD_assignAll hg ha.1

end Pg.C02
