/-
  C04: idempotence of `apply` for `Dict` specs with a schema (const and dynamic keys, defaults),
  on top of the `Schema.apply` lemmas of PgProofs/SymTypedSchema.lean.
-/
import PgProofs.SymTypedSchema
namespace Pg.Typing
open Pg.C03

/-! ### `MissingOK` for the fragment -/

theorem gate_missing (f : Flags) (p : Bool) (v : Val) (k : Val → R Val)
    (hk : ∀ w w', Val.proper w → k w = .ok w' → w'.isMissing = false)
    (h : gate f p v k = .ok .missing) (hv : v.isMissing = false) :
    f.frozen = true ∧ f.default.isMissing = true := by
  unfold gate at h
  by_cases hf : f.frozen = true
  · simp only [hf, if_true] at h
    split at h
    · cases h
    · injection h with h
      exact ⟨hf, by rw [h]; rfl⟩
  · simp only [hf, hv, Bool.false_eq_true, if_false] at h
    by_cases hn : v.isNone = true
    · simp only [hn, if_true] at h
      split at h <;> cases h
    · simp only [hn] at h
      have := hk v .missing ⟨hv, by simpa using hn⟩ h
      simp [Val.isMissing] at this

theorem gate_frozen_default (f : Flags) (p : Bool) (k : Val → R Val) (hf : f.frozen = true)
    (hd : f.default.isMissing = true) : gate f p f.default k = .ok .missing := by
  unfold gate
  simp only [hf, if_true, hd, Bool.not_true, Bool.false_and, Bool.false_eq_true, if_false]
  rw [C03.isMissing_eq _ hd]

theorem tc_chk_notMissing (env : Env) (vt : Option (List Ty)) (chk : Val → R Val)
    (hchk : ∀ x r, chk x = .ok r → r = x) (w w' : Val) (hw : Val.proper w)
    (h : (typeCheck env vt w >>= chk) = .ok w') : w'.isMissing = false :=
  (tc_chk_idem env vt chk hchk w w' hw h).1.1

theorem missingOK_of_frag (env : Env) (p : Bool) (s : Spec) (hs : frag s = true) : MissingOK env p s := by
  intro x h hx
  have fin : ∀ (f : Flags) (k : Val → R Val), s.flags = f →
      (∀ w w', Val.proper w → k w = .ok w' → w'.isMissing = false) →
      gate f p x k = .ok .missing → gate f p f.default k = .ok .missing := by
    intro f k _ hk hg
    obtain ⟨h1, h2⟩ := gate_missing f p x k hk hg hx
    exact gate_frozen_default f p k h1 h2
  cases s with
  | any f =>
    simp only [apply, Spec.flags] at h ⊢
    exact fin f _ rfl (fun w w' hw hk => by injection hk with hk; subst hk; exact hw.1) h
  | bool f =>
    simp only [apply, Spec.flags] at h ⊢
    exact fin f _ rfl (fun w w' hw hk => (typeCheck_ok env _ w w' hw hk).2.1) h
  | int lo hi f =>
    simp only [apply, Spec.flags] at h ⊢
    exact fin f _ rfl (fun w w' hw hk =>
      tc_chk_notMissing env _ _ (fun x r hr => rangeCheck_id _ _ x r hr) w w' hw hk) h
  | float lo hi f =>
    simp only [apply, Spec.flags] at h ⊢
    exact fin f _ rfl (fun w w' hw hk =>
      tc_chk_notMissing env _ _ (fun x r hr => rangeCheck_id _ _ x r hr) w w' hw hk) h
  | str rx f =>
    simp only [apply, Spec.flags] at h ⊢
    refine fin f _ rfl (fun w w' hw hk => tc_chk_notMissing env _ _ (fun x r hr => ?_) w w' hw hk) h
    split at hr
    · split at hr
      · injection hr with hr; exact hr.symm
      · cases hr
    · injection hr with hr; exact hr.symm
  | enum vals f =>
    simp only [apply, Spec.flags] at h ⊢
    refine fin f _ rfl (fun w w' hw hk => tc_chk_notMissing env _ _ (fun x r hr => ?_) w w' hw hk) h
    split at hr
    · injection hr with hr; exact hr.symm
    · cases hr
  | obj c f =>
    simp only [apply, Spec.flags] at h ⊢
    refine fin f _ rfl (fun w w' hw hk => tc_chk_notMissing env _ _ (fun x r hr => ?_) w w' hw hk) h
    split at hr
    · split at hr
      · cases hr
      · injection hr with hr; exact hr.symm
    · injection hr with hr; exact hr.symm
  | dict fields f =>
    cases fields with
    | some fs => simp [frag] at hs
    | none =>
      simp only [apply, Spec.flags] at h ⊢
      exact fin f _ rfl (fun w w' hw hk => (typeCheck_ok env _ w w' hw hk).2.1) h
  | union cands f => simp [frag] at hs
  | callable f => simp [frag] at hs
  | list elem mn mx f =>
    simp only [apply, Spec.flags] at h ⊢
    refine fin f _ rfl (fun w w' hw hk => ?_) h
    simp only [bind, Except.bind] at hk
    cases ht : typeCheck env (some [.list]) w with
    | error e => simp [ht] at hk
    | ok w1 =>
      simp only [ht] at hk
      cases w1 <;> simp only [] at hk <;> try (cases hk)
      rename_i xs
      cases hm : xs.mapM (fun x => apply env elem p x) with
      | error e => simp [hm] at hk
      | ok ys =>
        simp only [hm] at hk
        split at hk
        · injection hk with hk; subst hk; rfl
        · cases hk
  | tuple elems mn mx f =>
    simp only [apply, Spec.flags] at h ⊢
    refine fin f _ rfl (fun w w' hw hk => ?_) h
    simp only [bind, Except.bind] at hk
    cases ht : typeCheck env (some [.tuple]) w with
    | error e => simp [ht] at hk
    | ok w1 =>
      simp only [ht] at hk
      cases w1 <;> simp only [] at hk <;> try (cases hk)
      rename_i xs
      split at hk
      · split at hk
        · cases hk
        · cases hz : applyZip env elems p xs with
          | error e => simp [hz] at hk
          | ok ys => simp only [hz] at hk; injection hk with hk; subst hk; rfl
      · split at hk
        · cases hk
        · cases hz : applyVar env elems p xs with
          | error e => simp [hz] at hk
          | ok ys => simp only [hz] at hk; injection hk with hk; subst hk; rfl


/-! ### Idempotence of a `Dict` spec with schema -/

theorem gate_idem_at (f : Flags) (p : Bool) (v v' : Val) (k : Val → R Val)
    (hk : Val.proper v → k v = .ok v' → Val.proper v' ∧ k v' = .ok v')
    (h : gate f p v k = .ok v') : gate f p v' k = .ok v' := by
  unfold gate at h ⊢
  by_cases hf : f.frozen = true
  · simp only [hf, if_true] at h ⊢
    split at h
    · cases h
    · injection h with h; subst h
      simp [pyEq_refl]
  · simp only [hf] at h ⊢
    by_cases hm : v.isMissing = true
    · simp only [hm, if_true] at h
      by_cases hp : p = true
      · simp [hp] at h; subst h; simp [Val.isMissing, hp]
      · simp [hp] at h
    · simp only [hm] at h
      by_cases hn : v.isNone = true
      · simp only [hn, if_true] at h
        by_cases hq : f.noneable = true
        · simp [hq] at h; subst h; simp [Val.isMissing, Val.isNone, hq]
        · simp [hq] at h
      · simp only [hn] at h
        have hw : Val.proper v := ⟨by simpa using hm, by simpa using hn⟩
        obtain ⟨hp', hk'⟩ := hk hw h
        simp [hp'.1, hp'.2, hk']

/-- The keys of a dict value are distinct (every Python dict). -/
def keysNodup : Val → Prop
  | .dict kvs => (kvs.map (·.1)).Nodup
  | _ => True

/-- `apply` is idempotent for every `Dict` spec with a schema — const keys, dynamic `StrKey` fields
(regular expressions opaque), per-field defaults, noneable / default / frozen flags on the Dict and
on the fields, both `allow_partial` modes — whose keys are distinct and whose field specs are
idempotent and `MissingOK` (e.g. any spec of the fragment), on every dict value (distinct keys). -/
theorem apply_dict_idem (env : Env) (fields : List Field) (f : Flags) (p : Bool) (v v' : Val)
    (hd : distinctKeys (fieldKeySpecs fields) = true) (hI : ∀ fld ∈ fields, C03.Idem env p fld.value)
    (hM : ∀ fld ∈ fields, MissingOK env p fld.value) (hv : keysNodup v)
    (h : apply env (.dict (some fields) f) p v = .ok v') :
    apply env (.dict (some fields) f) p v' = .ok v' := by
  simp only [apply] at h ⊢
  refine gate_idem_at f p v v' _ (fun hw hk => ?_) h
  -- only a dict passes the type check
  cases v with
  | dict kvs =>
    have ht : ∀ xs, typeCheck env (some [Ty.dict]) (Val.dict xs) = .ok (.dict xs) := by
      intro xs; simp [typeCheck, instOf, Val.ty, Ty.sub]
    simp only [ht, bind, Except.bind] at hk
    by_cases hu : (!(unmatchedKeys env fields kvs).isEmpty) = true
    · simp [hu] at hk
    · simp only [hu] at hk
      cases ha : applyFields env fields (constKeys fields) [] p kvs with
      | error e => simp [ha] at hk
      | ok out =>
        simp only [ha] at hk
        injection hk with hk
        subst hk
        have hs : schemaApply env fields p kvs = .ok out := by
          unfold schemaApply; rw [if_neg hu]; exact ha
        have hs2 := schemaApply_idem env p fields hd hI hM kvs out hv hs
        refine ⟨by simp [Val.proper, Val.isMissing, Val.isNone], ?_⟩
        simp only [ht, bind, Except.bind]
        unfold schemaApply at hs2
        by_cases hu2 : (!(unmatchedKeys env fields out).isEmpty) = true
        · rw [if_pos hu2] at hs2; cases hs2
        · rw [if_neg hu2] at hs2
          simp only [hu2, hs2]
          rfl
  | _ =>
    simp [typeCheck, instOf, Val.ty, Ty.sub, convert, bind, Except.bind] at hk

end Pg.Typing
