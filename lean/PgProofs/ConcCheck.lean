/- C16 — the executable checker is implied by the invariant; runs are reachable. -/
import PgProofs.ConcStep
namespace Pg.C16

theorem checkBest_of_inv {m st a} (h : StudyInv m st a) : checkBest st = true := by
  unfold checkBest
  cases hb : st.best with
  | none =>
    simp only [List.all_eq_true]
    intro t ht
    cases hc : t.completed with
    | false => simp
    | true => simp [h.bestNone hb t ht hc]
  | some b =>
    obtain ⟨t, ht, h1, h2, h3, h4⟩ := h.bestOk b hb
    simp only [List.any_eq_true]
    refine ⟨t, ht, ?_⟩
    simp only [h1, h2, h3, beq_self_eq_true, Bool.not_false, Bool.and_self, Bool.true_and, List.all_eq_true]
    intro t' ht'
    cases hc : t'.completed with
    | false => simp
    | true =>
      cases hi : t'.infeasible with
      | true => simp
      | false =>
        simp only [Bool.not_false, Bool.and_self, Bool.not_true, Bool.false_or]
        unfold leFinal
        cases hf' : t'.final with
        | none => rfl
        | some r' =>
          cases hf : t.final with
          | none => rfl
          | some r => simpa using h4 t' ht' hc hi r' r hf' hf

theorem checkStudy_of_inv {m st a} (h : StudyInv m st a) : checkStudy m a st = true := by
  unfold checkStudy
  simp only [Bool.and_eq_true, beq_iff_eq, List.all_eq_true]
  refine ⟨⟨⟨⟨⟨⟨⟨⟨⟨⟨⟨h.ids, ?_⟩, h.cPending⟩, h.cCompleted⟩, h.cInfeasible⟩, h.nFeedbacks⟩, h.nProposals⟩, ?_⟩, ?_⟩,
    ?_⟩, ?_⟩, checkBest_of_inv h⟩
  · cases hm : m with
    | none => rfl
    | some mm => simpa using h.bound mm hm
  · intro k _; exact h.fed k
  · intro k _; exact h.fed k
  · intro t ht
    cases hc : t.completed with
    | true => rfl
    | false => simpa using h.pendingLatest t ht hc
  · cases hsp : a.space with
    | none => rfl
    | some sp => simpa using h.spaceBound sp hsp

theorem checkState_of_inv {s : State} (h : Inv s) : checkState s = true := by
  unfold checkState
  rcases h.shape with ⟨hs, _⟩ | ⟨st, hs, _⟩
  · simp [hs]
  · have := (h.study st (by rw [hs]; simp)).1
    simp [hs, checkStudy_of_inv this]

theorem reachable_of_run {cfg : LockCfg} {s0 : State} :
    ∀ (acts : List (Nat × Act)) {s s' : State}, Reachable cfg s0 s → run cfg s acts = some s' → Reachable cfg s0 s' := by
  intro acts
  induction acts with
  | nil => intro s s' hr h; simp only [run] at h; cases h; exact hr
  | cons x xs ih =>
    intro s s' hr h
    obtain ⟨w, a⟩ := x
    simp only [run] at h
    cases he : exec cfg s w a with
    | none => rw [he] at h; cases h
    | some s1 =>
      rw [he] at h
      exact ih (Reachable.step hr ⟨w, a, he⟩) h

/-! ### `exec` never changes the parameters of the run -/

@[simp] theorem setW_max (s : State) (w : Nat) (wk : Worker) : (s.setW w wk).maxTrials = s.maxTrials := rfl
@[simp] theorem setPc_max (s : State) (w : Nat) (pc : PC) : (s.setPc w pc).maxTrials = s.maxTrials := rfl
@[simp] theorem setStudy_max (s : State) (w : Nat) (st : Study) : (s.setStudy w st).maxTrials = s.maxTrials := rfl
@[simp] theorem gocAtomic_max (s : State) (w : Nat) : (gocAtomic s w).maxTrials = s.maxTrials := by
  unfold gocAtomic; split <;> rfl
@[simp] theorem setupAtomic_max (s : State) (w : Nat) : (setupAtomic s w).maxTrials = s.maxTrials := by
  unfold setupAtomic; split <;> rfl
@[simp] theorem createAtomic_max (s : State) (w : Nat) (st : Study) (e1 e2 : Bool) :
    (createAtomic s w st e1 e2).maxTrials = s.maxTrials := by
  unfold createAtomic; split <;> (try split) <;> (try split) <;> rfl
@[simp] theorem nextAtomic_max (s : State) (w : Nat) (st : Study) (e1 e2 : Bool) :
    (nextAtomic s w st e1 e2).maxTrials = s.maxTrials := by
  unfold nextAtomic; split <;> (try split) <;> simp
@[simp] theorem measureAtomic_max (s : State) (w : Nat) (st : Study) (t : Nat) (r : Int) :
    (measureAtomic s w st t r).maxTrials = s.maxTrials := by
  unfold measureAtomic; split <;> rfl
@[simp] theorem doneAtomic_max (s : State) (w : Nat) (st : Study) (t : Nat) :
    (doneAtomic s w st t).maxTrials = s.maxTrials := by
  unfold doneAtomic; split <;> (try split) <;> rfl
@[simp] theorem skipAtomic_max (s : State) (w : Nat) (st : Study) (t : Nat) :
    (skipAtomic s w st t).maxTrials = s.maxTrials := by
  unfold skipAtomic; split <;> rfl

theorem maxTrials_exec {cfg : LockCfg} {s s' : State} {w : Nat} {a : Act} (h : exec cfg s w a = some s') :
    s'.maxTrials = s.maxTrials := by
  cases a <;> simp only [exec] at h <;>
    (repeat' (split at h)) <;>
    first
    | (cases h; done)
    | (have := Option.some.inj h; subst this; simp; done)
    | (cases hs : s.studyOf w <;> simp [hs] at h <;> (subst h; simp))

@[simp] theorem setW_nw (s : State) (w : Nat) (wk : Worker) : (s.setW w wk).nWorkers = s.nWorkers := rfl
@[simp] theorem setPc_nw (s : State) (w : Nat) (pc : PC) : (s.setPc w pc).nWorkers = s.nWorkers := rfl
@[simp] theorem setStudy_nw (s : State) (w : Nat) (st : Study) : (s.setStudy w st).nWorkers = s.nWorkers := rfl
@[simp] theorem gocAtomic_nw (s : State) (w : Nat) : (gocAtomic s w).nWorkers = s.nWorkers := by
  unfold gocAtomic; split <;> rfl
@[simp] theorem setupAtomic_nw (s : State) (w : Nat) : (setupAtomic s w).nWorkers = s.nWorkers := by
  unfold setupAtomic; split <;> rfl
@[simp] theorem createAtomic_nw (s : State) (w : Nat) (st : Study) (e1 e2 : Bool) :
    (createAtomic s w st e1 e2).nWorkers = s.nWorkers := by
  unfold createAtomic; split <;> (try split) <;> (try split) <;> rfl
@[simp] theorem nextAtomic_nw (s : State) (w : Nat) (st : Study) (e1 e2 : Bool) :
    (nextAtomic s w st e1 e2).nWorkers = s.nWorkers := by
  unfold nextAtomic; split <;> (try split) <;> simp
@[simp] theorem measureAtomic_nw (s : State) (w : Nat) (st : Study) (t : Nat) (r : Int) :
    (measureAtomic s w st t r).nWorkers = s.nWorkers := by
  unfold measureAtomic; split <;> rfl
@[simp] theorem doneAtomic_nw (s : State) (w : Nat) (st : Study) (t : Nat) :
    (doneAtomic s w st t).nWorkers = s.nWorkers := by
  unfold doneAtomic; split <;> (try split) <;> rfl
@[simp] theorem skipAtomic_nw (s : State) (w : Nat) (st : Study) (t : Nat) :
    (skipAtomic s w st t).nWorkers = s.nWorkers := by
  unfold skipAtomic; split <;> rfl

theorem nWorkers_exec {cfg : LockCfg} {s s' : State} {w : Nat} {a : Act} (h : exec cfg s w a = some s') :
    s'.nWorkers = s.nWorkers := by
  cases a <;> simp only [exec] at h <;>
    (repeat' (split at h)) <;>
    first
    | (cases h; done)
    | (have := Option.some.inj h; subst this; simp; done)
    | (cases hs : s.studyOf w <;> simp [hs] at h <;> (subst h; simp))

/-- With unique ids the number of trials satisfying `fedPred k` is 1 or 0. -/
theorem countP_fedPred {l : List Trial} (hn : (l.map (·.id)).Nodup) (k : Nat) :
    l.countP (fedPred k) = if ∃ t ∈ l, t.id = k ∧ t.completed = true ∧ t.infeasible = false then 1 else 0 := by
  induction l with
  | nil => simp
  | cons x xs ih =>
    simp only [List.map_cons, List.nodup_cons] at hn
    have ih := ih hn.2
    simp only [List.countP_cons, ih]
    by_cases hx : fedPred k x = true
    · have hx' : x.completed = true ∧ x.infeasible = false ∧ x.id = k := by
        have h0 : (x.completed = true ∧ x.infeasible = false) ∧ x.id = k := by
          simpa [fedPred, Bool.and_eq_true] using hx
        exact ⟨h0.1.1, h0.1.2, h0.2⟩
      have hno : ¬ ∃ t ∈ xs, t.id = k ∧ t.completed = true ∧ t.infeasible = false := by
        rintro ⟨t, ht, hk, -⟩
        exact hn.1 (List.mem_map.mpr ⟨t, ht, by rw [hk, hx'.2.2]⟩)
      have hyes : ∃ t ∈ x :: xs, t.id = k ∧ t.completed = true ∧ t.infeasible = false :=
        ⟨x, by simp, hx'.2.2, hx'.1, hx'.2.1⟩
      simp only [hx, if_true, if_neg hno, if_pos hyes]
    · have hiff : (∃ t ∈ x :: xs, t.id = k ∧ t.completed = true ∧ t.infeasible = false) ↔
          (∃ t ∈ xs, t.id = k ∧ t.completed = true ∧ t.infeasible = false) := by
        constructor
        · rintro ⟨t, ht, h1, h2, h3⟩
          rcases List.mem_cons.mp ht with rfl | ht
          · exfalso; apply hx; simp [fedPred, h1, h2, h3]
          · exact ⟨t, ht, h1, h2, h3⟩
        · rintro ⟨t, ht, h⟩; exact ⟨t, by simp [ht], h⟩
      simp only [hx, Bool.false_eq_true, if_false, Nat.add_zero]
      by_cases he : ∃ t ∈ xs, t.id = k ∧ t.completed = true ∧ t.infeasible = false
      · rw [if_pos he, if_pos (hiff.mpr he)]
      · rw [if_neg he, if_neg (fun h => he (hiff.mp h))]

end Pg.C16
