/- Helper lemmas for the tail of `evaluate` (model: PgModel/CodeTail.lean). -/
import PgModel.CodeTail
namespace Pg.C19.Tail

theorem lookup_setVar_self (env : Env) (x : String) (v : Val) : lookup (setVar env x v) x = some v := by
  induction env with
  | nil => simp [setVar, lookup]
  | cons p rest ih =>
    obtain ⟨k, w⟩ := p
    by_cases h : k = x
    · simp [setVar, lookup, h]
    · simp [setVar, lookup, h, ih]

theorem lookup_setVar_same (env : Env) (k t : String) (v : Val) (h : lookup env k = some v) :
    lookup (setVar env t v) k = some v := by
  induction env with
  | nil => simp [lookup] at h
  | cons p rest ih =>
    obtain ⟨k', w⟩ := p
    unfold lookup at h
    unfold setVar
    by_cases ht : k' = t
    · rw [if_pos ht]
      unfold lookup
      by_cases hk : k' = k
      · rw [if_pos hk]
      · rw [if_neg hk] at h ⊢; exact h
    · rw [if_neg ht]
      unfold lookup
      by_cases hk : k' = k
      · rw [if_pos hk] at h ⊢; exact h
      · rw [if_neg hk] at h ⊢; exact ih h

theorem lookup_assignAll_same (ts : List String) (env : Env) (k : String) (v : Val)
    (h : lookup env k = some v) : lookup (assignAll ts v env) k = some v := by
  induction ts generalizing env with
  | nil => simpa [assignAll] using h
  | cons t ts ih =>
    simp only [assignAll, List.foldl_cons]
    exact ih _ (lookup_setVar_same env k t v h)

theorem erase_setVar_self (env : Env) (x : String) (v : Val) :
    erase x (setVar env x v) = erase x env := by
  induction env with
  | nil => simp [setVar, erase]
  | cons p rest ih =>
    obtain ⟨k, w⟩ := p
    by_cases h : k = x
    · simp [setVar, erase, h]
    · simp [setVar, erase, h, ih]

theorem erase_setVar_ne (env : Env) (x t : String) (v : Val) (hne : t ≠ x) :
    erase x (setVar env t v) = setVar (erase x env) t v := by
  induction env with
  | nil => simp [setVar, erase, hne]
  | cons p rest ih =>
    obtain ⟨k, w⟩ := p
    by_cases h : k = t
    · subst h; simp [setVar, erase, hne]
    · by_cases hx : k = x
      · subst hx; simp [setVar, erase, h, ih]
      · simp [setVar, erase, h, hx, ih]

theorem erase_setVar_congr (e1 e2 : Env) (x t : String) (v : Val) (h : erase x e1 = erase x e2) :
    erase x (setVar e1 t v) = erase x (setVar e2 t v) := by
  by_cases ht : t = x
  · subst ht; rw [erase_setVar_self, erase_setVar_self, h]
  · rw [erase_setVar_ne _ _ _ _ ht, erase_setVar_ne _ _ _ _ ht, h]

theorem erase_assignAll_congr (ts : List String) (e1 e2 : Env) (x : String) (v : Val)
    (h : erase x e1 = erase x e2) : erase x (assignAll ts v e1) = erase x (assignAll ts v e2) := by
  induction ts generalizing e1 e2 with
  | nil => simpa [assignAll] using h
  | cons t ts ih =>
    simp only [assignAll, List.foldl_cons]
    exact ih _ _ (erase_setVar_congr e1 e2 x t v h)

theorem execAll_append (a b : List Stmt) (s : St) :
    execAll (a ++ b) s = match execAll a s with
      | .error e => .error e
      | .ok s1 => execAll b s1 := by
  induction a generalizing s with
  | nil => simp [execAll]
  | cons st rest ih =>
    simp only [List.cons_append, execAll]
    cases exec st s with
    | error e => rfl
    | ok s1 => exact ih s1

theorem execAll_single (st : Stmt) (s : St) : execAll [st] s = exec st s := by
  simp only [execAll]
  cases exec st s <;> rfl

theorem outputs_erase (ctx env : Env) (x : String) :
    erase x (outputs ctx env) = outputs ctx (erase x env) := by
  induction env with
  | nil => simp [outputs, erase]
  | cons p rest ih =>
    obtain ⟨k, w⟩ := p
    by_cases h2 : k = x
    · subst h2
      by_cases h1 : lookup ctx k = some w <;> simp [outputs, erase, h1, ih]
    · by_cases h1 : lookup ctx k = some w <;> simp [outputs, erase, h1, h2, ih]

end Pg.C19.Tail

namespace Pg.C19.Tail
open Pg.C19 Pg.C19.Node

theorem nodesAll_append {κ : Type} (a b : List (Node κ)) : nodesAll (a ++ b) = nodesAll a ++ nodesAll b := by
  induction a with
  | nil => simp [nodesAll]
  | cons c cs ih => simp [nodesAll, ih, List.append_assoc]

theorem self_mem_nodes {κ : Type} (n : Node κ) : n ∈ nodes n := by
  cases n with
  | mk k l cs => simp [nodes]

theorem Ex.call_node (l : Nat) (e : Ex) (h : e.hasCall = true) :
    ∃ m ∈ nodes (e.toNode l), m.kind = Kind.Call := by
  induction e with
  | lit i => simp [Ex.hasCall] at h
  | noneLit => simp [Ex.hasCall] at h
  | var x => simp [Ex.hasCall] at h
  | add a b iha ihb =>
    simp only [Ex.hasCall, Bool.or_eq_true] at h
    rcases h with h | h
    · obtain ⟨m, hm, hk⟩ := iha h
      exact ⟨m, by simp [Ex.toNode, nodes, nodesAll, hm], hk⟩
    · obtain ⟨m, hm, hk⟩ := ihb h
      exact ⟨m, by simp [Ex.toNode, nodes, nodesAll, hm], hk⟩
  | print e _ => exact ⟨_, self_mem_nodes _, by simp [Ex.toNode, Node.kind]⟩

theorem Stmt.call_node (l : Nat) (st : Stmt) (h : st.hasCall = true) :
    ∃ m ∈ nodes (st.toNode l), m.kind = Kind.Call := by
  cases st with
  | assign ts e =>
    obtain ⟨m, hm, hk⟩ := Ex.call_node l e h
    exact ⟨m, by simp [Stmt.toNode, nodes, nodesAll_append, nodesAll, hm], hk⟩
  | expr e =>
    obtain ⟨m, hm, hk⟩ := Ex.call_node l e h
    exact ⟨m, by simp [Stmt.toNode, nodes, nodesAll, hm], hk⟩
  | aug x e =>
    obtain ⟨m, hm, hk⟩ := Ex.call_node l e h
    exact ⟨m, by simp [Stmt.toNode, nodes, nodesAll, hm], hk⟩
  | pass => simp [Stmt.hasCall] at h

theorem Stmt.assign_node (l : Nat) (st : Stmt) (h : st.assigns = true) :
    ∃ m ∈ nodes (st.toNode l), m.kind = Kind.Assign ∨ m.kind = Kind.AugAssign := by
  cases st with
  | assign ts e => exact ⟨_, self_mem_nodes _, Or.inl (by simp [Stmt.toNode, Node.kind])⟩
  | expr e => simp [Stmt.assigns] at h
  | aug x e => exact ⟨_, self_mem_nodes _, Or.inr (by simp [Stmt.toNode, Node.kind])⟩
  | pass => simp [Stmt.assigns] at h

theorem mem_nodesFrom (prog : List Stmt) (st : Stmt) (h : st ∈ prog) (l : Nat) :
    ∃ l', ∀ m ∈ nodes (st.toNode l'), m ∈ nodesAll (nodesFrom l prog) := by
  induction prog generalizing l with
  | nil => cases h
  | cons s rest ih =>
    rcases List.mem_cons.mp h with h | h
    · subst h
      exact ⟨l, fun m hm => by simp [nodesFrom, nodesAll, hm]⟩
    · obtain ⟨l', hl'⟩ := ih h (l + 1)
      exact ⟨l', fun m hm => by simp [nodesFrom, nodesAll, hl' m hm]⟩

theorem mem_moduleOf (prog : List Stmt) (st : Stmt) (h : st ∈ prog) :
    ∃ l', ∀ m ∈ nodes (st.toNode l'), m ∈ nodes (moduleOf prog) := by
  obtain ⟨l', hl'⟩ := mem_nodesFrom prog st h 1
  exact ⟨l', fun m hm => by simp [moduleOf, nodes, hl' m hm]⟩

end Pg.C19.Tail
