/- Helper lemmas for the tail of `evaluate` (model: PgModel/CodeTail.lean). -/
import PgModel.CodeTail
namespace Pg.C19.Tail

theorem lookup_setVar_self (env : Env) (x : String) (v : Val) : lookup (setVar env x v) x = some v := by
  induction env with
  | nil => simp [setVar, lookup]
  | cons p rest ih =>
    obtain ⟨k, w⟩ := p
    by_cases h : k = x
    · simp [setVar, lookup, h]
    · simp [setVar, lookup, h, ih]

theorem lookup_setVar_same (env : Env) (k t : String) (v : Val) (h : lookup env k = some v) :
    lookup (setVar env t v) k = some v := by
  induction env with
  | nil => simp [lookup] at h
  | cons p rest ih =>
    obtain ⟨k', w⟩ := p
    unfold lookup at h
    unfold setVar
    by_cases ht : k' = t
    · rw [if_pos ht]
      unfold lookup
      by_cases hk : k' = k
      · rw [if_pos hk]
      · rw [if_neg hk] at h ⊢; exact h
    · rw [if_neg ht]
      unfold lookup
      by_cases hk : k' = k
      · rw [if_pos hk] at h ⊢; exact h
      · rw [if_neg hk] at h ⊢; exact ih h

theorem lookup_assignAll_same (ts : List String) (env : Env) (k : String) (v : Val)
    (h : lookup env k = some v) : lookup (assignAll ts v env) k = some v := by
  induction ts generalizing env with
  | nil => simpa [assignAll] using h
  | cons t ts ih =>
    simp only [assignAll, List.foldl_cons]
    exact ih _ (lookup_setVar_same env k t v h)

theorem erase_setVar_self (env : Env) (x : String) (v : Val) :
    erase x (setVar env x v) = erase x env := by
  induction env with
  | nil => simp [setVar, erase]
  | cons p rest ih =>
    obtain ⟨k, w⟩ := p
    by_cases h : k = x
    · simp [setVar, erase, h]
    · simp [setVar, erase, h, ih]

theorem erase_setVar_ne (env : Env) (x t : String) (v : Val) (hne : t ≠ x) :
    erase x (setVar env t v) = setVar (erase x env) t v := by
  induction env with
  | nil => simp [setVar, erase, hne]
  | cons p rest ih =>
    obtain ⟨k, w⟩ := p
    by_cases h : k = t
    · subst h; simp [setVar, erase, hne]
    · by_cases hx : k = x
      · subst hx; simp [setVar, erase, h, ih]
      · simp [setVar, erase, h, hx, ih]

theorem erase_setVar_congr (e1 e2 : Env) (x t : String) (v : Val) (h : erase x e1 = erase x e2) :
    erase x (setVar e1 t v) = erase x (setVar e2 t v) := by
  by_cases ht : t = x
  · subst ht; rw [erase_setVar_self, erase_setVar_self, h]
  · rw [erase_setVar_ne _ _ _ _ ht, erase_setVar_ne _ _ _ _ ht, h]

theorem erase_assignAll_congr (ts : List String) (e1 e2 : Env) (x : String) (v : Val)
    (h : erase x e1 = erase x e2) : erase x (assignAll ts v e1) = erase x (assignAll ts v e2) := by
  induction ts generalizing e1 e2 with
  | nil => simpa [assignAll] using h
  | cons t ts ih =>
    simp only [assignAll, List.foldl_cons]
    exact ih _ _ (erase_setVar_congr e1 e2 x t v h)

theorem execAll_append (a b : List Stmt) (s : St) :
    execAll (a ++ b) s = match execAll a s with
      | .error e => .error e
      | .ok s1 => execAll b s1 := by
  induction a generalizing s with
  | nil => simp [execAll]
  | cons st rest ih =>
    simp only [List.cons_append, execAll]
    cases exec st s with
    | error e => rfl
    | ok s1 => exact ih s1

theorem execAll_single (st : Stmt) (s : St) : execAll [st] s = exec st s := by
  simp only [execAll]
  cases exec st s <;> rfl

theorem outputs_erase (ctx env : Env) (x : String) :
    erase x (outputs ctx env) = outputs ctx (erase x env) := by
  induction env with
  | nil => simp [outputs, erase]
  | cons p rest ih =>
    obtain ⟨k, w⟩ := p
    by_cases h2 : k = x
    · subst h2
      by_cases h1 : lookup ctx k = some w <;> simp [outputs, erase, h1, ih]
    · by_cases h1 : lookup ctx k = some w <;> simp [outputs, erase, h1, h2, ih]

end Pg.C19.Tail
