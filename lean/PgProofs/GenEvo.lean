/- C15 helper lemmas: Evolution recovers its proposal / feedback counters (repaired source). -/
import PgProofs.Gen
namespace Pg.C15

def ItemOk (it : Item) : Prop := it.gid.isSome = true ∧ it.initial.isSome = true

def EntryOk (e : Item × Option Int) : Prop :=
  ItemOk e.1 ∧ ∀ r, e.2 = some r → e.1.fbseq.isSome = true ∧ e.1.reward = some r

def IsBase (a : Algo) : Prop := a = .sweeping ∨ ∃ seed sd, a = .random seed sd

theorem feedback_base_item (env : Env) (init : Algo) (hb : IsBase init) (si si' : St) (it it' : Item) (r : Int)
    (h : feedback env init si it r = .ok (it', si')) : it' = it := by
  rcases hb with rfl | ⟨seed, sd, rfl⟩
  · cases si <;> simp [feedback] at h
    exact h.1.symm
  · cases si <;> simp [feedback] at h
    exact h.1.symm

theorem mkChildren_ok (step g : Nat) (ds : List Nat) (i : Nat) : ∀ it ∈ mkChildren step g i ds, ItemOk it := by
  induction ds generalizing i with
  | nil => intro it h; simp [mkChildren] at h
  | cons d ds ih =>
    intro it h
    simp only [mkChildren, List.mem_cons] at h
    rcases h with rfl | h
    · exact ⟨rfl, rfl⟩
    · exact ih _ it h

/-! ### the stable sort is a permutation (as far as membership, length and fed-back count go) -/

theorem mem_insertSorted (x e : Item × Option Int) (h : Hist) : e ∈ insertSorted x h ↔ e = x ∨ e ∈ h := by
  induction h with
  | nil => simp [insertSorted]
  | cons y ys ih =>
    simp only [insertSorted]
    split
    · simp only [List.mem_cons, ih]
      constructor
      · rintro (h | h | h)
        · exact Or.inr (Or.inl h)
        · exact Or.inl h
        · exact Or.inr (Or.inr h)
      · rintro (h | h | h)
        · exact Or.inr (Or.inl h)
        · exact Or.inl h
        · exact Or.inr (Or.inr h)
    · simp only [List.mem_cons]

theorem mem_sortByFeedback (e : Item × Option Int) (h : Hist) : e ∈ sortByFeedback h ↔ e ∈ h := by
  induction h with
  | nil => simp [sortByFeedback]
  | cons x xs ih => simp only [sortByFeedback, mem_insertSorted, ih, List.mem_cons]

theorem length_insertSorted (x : Item × Option Int) (h : Hist) : (insertSorted x h).length = h.length + 1 := by
  induction h with
  | nil => rfl
  | cons y ys ih =>
    simp only [insertSorted]
    split
    · simp [ih]
    · simp

theorem length_sortByFeedback (h : Hist) : (sortByFeedback h).length = h.length := by
  induction h with
  | nil => rfl
  | cons x xs ih => simp [sortByFeedback, length_insertSorted, ih]

theorem fedCount_insertSorted (x : Item × Option Int) (h : Hist) :
    fedCount (insertSorted x h) = (if x.2.isSome then 1 else 0) + fedCount h := by
  induction h with
  | nil => simp [insertSorted, fedCount_cons]
  | cons y ys ih =>
    simp only [insertSorted]
    split
    · rw [fedCount_cons, ih, fedCount_cons]; omega
    · rw [fedCount_cons, fedCount_cons]

theorem fedCount_sortByFeedback (h : Hist) : fedCount (sortByFeedback h) = fedCount h := by
  induction h with
  | nil => rfl
  | cons x xs ih => rw [sortByFeedback, fedCount_insertSorted, ih, fedCount_cons]

/-! ### the loop of `Evolution.recover` on a well-labelled history -/

theorem evoRecoverStep_ok (env : Env) (hg : env.q.evoInitGenBump = false) (a : Algo)
    (np nf : Nat) (si : St) (ini : Bool) (g : Nat) (pop pend : List Item) (it : Item) (r : Option Int)
    (hok : EntryOk (it, r)) :
    ∃ g' pop', evoRecoverStep env a (.evolution np nf si ini g pop pend) (it, r)
      = .ok (.evolution (np + 1) (nf + (if r.isSome then 1 else 0)) si ini g' pop' pend) := by
  obtain ⟨⟨hgid, hinit⟩, hfed⟩ := hok
  obtain ⟨gid, hgid'⟩ := Option.isSome_iff_exists.mp hgid
  obtain ⟨isInit, hinit'⟩ := Option.isSome_iff_exists.mp hinit
  have hgid'' : it.gid = some gid := hgid'
  have hinit'' : it.initial = some isInit := hinit'
  cases r with
  | none =>
    simp only [evoRecoverStep, St.bump, hgid'', hinit'', hg, Bool.false_or]
    split <;> exact ⟨_, _, rfl⟩
  | some r =>
    obtain ⟨hfb, hrw⟩ := hfed r rfl
    obtain ⟨sq, hsq⟩ := Option.isSome_iff_exists.mp hfb
    have hsq' : it.fbseq = some sq := hsq
    have hrw' : it.reward = some r := hrw
    simp only [evoRecoverStep, St.bump, hgid'', hinit'', hg, Bool.false_or, hsq', hrw', ↓reduceIte]
    split <;> exact ⟨_, _, rfl⟩

theorem evoRecover_loop (env : Env) (hg : env.q.evoInitGenBump = false) (a : Algo)
    (h : Hist) (hok : ∀ e ∈ h, EntryOk e) (np nf : Nat) (si : St) (ini : Bool) (g : Nat) (pop pend : List Item) :
    ∃ g' pop', foldE (evoRecoverStep env a) (.evolution np nf si ini g pop pend) h
      = .ok (.evolution (np + h.length) (nf + fedCount h) si ini g' pop' pend) := by
  induction h generalizing np nf g pop with
  | nil => exact ⟨g, pop, by simp [foldE]⟩
  | cons e h ih =>
    obtain ⟨it, r⟩ := e
    obtain ⟨g1, pop1, h1⟩ := evoRecoverStep_ok env hg a np nf si ini g pop pend it r (hok _ List.mem_cons_self)
    obtain ⟨g', pop', hh⟩ := ih (fun e he => hok e (List.mem_cons_of_mem _ he)) (np + 1)
      (nf + (if r.isSome then 1 else 0)) g1 pop1
    refine ⟨g', pop', ?_⟩
    simp only [foldE, h1, hh, fedCount_cons, List.length_cons]
    congr 2 <;> omega

/-! ### live invariant of Evolution over a base initialiser -/

def ProposeOk (np nf : Nat) (pop : List Item) (res : PRes) : Prop :=
  match res with
  | (.error _, s') => ∃ si' ini' g' pend', s' = .evolution np nf si' ini' g' pop pend' ∧ ∀ it ∈ pend', ItemOk it
  | (.ok it, s') => ItemOk it ∧ ∃ si' ini' g' pend',
      s' = .evolution (np + 1) nf si' ini' g' pop pend' ∧ ∀ it ∈ pend', ItemOk it

theorem evolveStep_ok (env : Env) (np nf : Nat) (si : St) (g : Nat) (pop : List Item) :
    ProposeOk np nf pop (evolveStep env np nf si g pop) := by
  unfold evolveStep
  have hk := mkChildren_ok np g (env.repro pop g np) 0
  cases hc : mkChildren np g 0 (env.repro pop g np) with
  | nil => exact ⟨_, _, _, _, rfl, fun it h => by simp at h⟩
  | cons c cs =>
    rw [hc] at hk
    exact ⟨hk c List.mem_cons_self, _, _, _, _, rfl, fun it h => hk it (List.mem_cons_of_mem _ h)⟩

theorem propose_evolution_ok (env : Env) (init : Algo) (initSize : Option Nat) (np nf : Nat) (si : St) (ini : Bool)
    (g : Nat) (pop pend : List Item) (hp : ∀ it ∈ pend, ItemOk it) :
    ProposeOk np nf pop (propose env (.evolution init initSize) (.evolution np nf si ini g pop pend)) := by
  simp only [propose]
  cases pend with
  | cons it rest =>
    exact ⟨hp it List.mem_cons_self, _, _, _, _, rfl, fun x hx => hp x (List.mem_cons_of_mem _ hx)⟩
  | nil =>
    simp only
    cases ini with
    | true => simp only [↓reduceIte]; exact evolveStep_ok env np nf si g pop
    | false =>
      simp only [Bool.false_eq_true, ↓reduceIte]
      cases hpi : propose env init si with
      | mk r si' =>
        cases r with
        | ok d => exact ⟨⟨rfl, rfl⟩, _, _, _, _, rfl, fun it h => by simp at h⟩
        | error e =>
          cases e with
          | stop => exact evolveStep_ok env np nf si' 1 pop
          | value => exact ⟨_, _, _, _, rfl, fun it h => by simp at h⟩
          | type => exact ⟨_, _, _, _, rfl, fun it h => by simp at h⟩
          | assertion => exact ⟨_, _, _, _, rfl, fun it h => by simp at h⟩
          | key => exact ⟨_, _, _, _, rfl, fun it h => by simp at h⟩
          | mismatch => exact ⟨_, _, _, _, rfl, fun it h => by simp at h⟩

theorem mem_setAt {α : Type} (xs : List α) (i : Nat) (y e : α) (h : e ∈ setAt xs i y) : e = y ∨ e ∈ xs := by
  induction xs generalizing i with
  | nil => simp [setAt] at h
  | cons x xs ih =>
    cases i with
    | zero =>
      simp only [setAt, List.mem_cons] at h
      rcases h with h | h
      · exact Or.inl h
      · exact Or.inr (List.mem_cons_of_mem _ h)
    | succ n =>
      simp only [setAt, List.mem_cons] at h
      rcases h with h | h
      · exact Or.inr (by rw [h]; exact List.mem_cons_self)
      · rcases ih n h with h | h
        · exact Or.inl h
        · exact Or.inr (List.mem_cons_of_mem _ h)

def EvoInv (l : Live) : Prop :=
  (∃ si ini g pop pend, l.st = .evolution l.hist.length (fedCount l.hist) si ini g pop pend
      ∧ ∀ it ∈ pend, ItemOk it)
    ∧ ∀ e ∈ l.hist, EntryOk e

theorem evoInv_feedback (hist : Hist) (i : Nat) (it it' : Item) (r' : Int) (hi : hist[i]? = some (it, none))
    (si : St) (ini : Bool) (g : Nat) (pop pend : List Item) (hpend : ∀ it ∈ pend, ItemOk it)
    (hent : ∀ e ∈ hist, EntryOk e) (hok : EntryOk (it', some r')) :
    EvoInv ⟨.evolution hist.length (fedCount hist + 1) si ini g pop pend, setAt hist i (it', some r')⟩ := by
  refine ⟨⟨si, ini, g, pop, pend, ?_, hpend⟩, ?_⟩
  · simp only [length_setAt, fedCount_setAt hist i it it' r' hi]
  · intro e he
    rcases mem_setAt _ _ _ _ he with rfl | he
    · exact hok
    · exact hent e he

/-- The shape of a successful `Evolution.feedback` (base initialiser): counters, population and the
metadata written on the DNA. -/
theorem feedback_evolution_form (env : Env) (init : Algo) (hb : IsBase init) (initSize : Option Nat)
    (np nf : Nat) (si : St) (ini : Bool) (g : Nat) (pop pend : List Item) (it : Item) (r : Int)
    (hit : ItemOk it) :
    (∃ e, feedback env (.evolution init initSize) (.evolution np nf si ini g pop pend) it r = .error e)
    ∨ ∃ it2 si' ini' g',
        feedback env (.evolution init initSize) (.evolution np nf si ini g pop pend) it r
          = .ok (it2, .evolution np (nf + 1) si' ini' g' (env.update (pop ++ [it2]) nf) pend)
        ∧ it2.fbseq = some (nf + 1) ∧ it2.reward = some r ∧ it2.gid = it.gid ∧ it2.initial = it.initial
          ∧ it2.key = it.key := by
  obtain ⟨hgid, hinit⟩ := hit
  obtain ⟨isInit, hinit'⟩ := Option.isSome_iff_exists.mp hinit
  simp only [feedback, hinit']
  cases isInit with
  | false =>
    simp only [Bool.false_eq_true, ↓reduceIte]
    exact Or.inr ⟨_, _, _, _, rfl, rfl, rfl, rfl, rfl, rfl⟩
  | true =>
    simp only [↓reduceIte]
    cases hf : feedback env init si
        { dna := it.dna, key := it.key, reward := some r, pid := it.pid, gid := it.gid,
          initial := some true, fbseq := some (nf + 1) } r with
    | error e => exact Or.inl ⟨e, rfl⟩
    | ok res =>
      obtain ⟨it2, si'⟩ := res
      have h2 := feedback_base_item env init hb _ _ _ _ _ hf
      subst h2
      exact Or.inr ⟨_, _, _, _, rfl, rfl, rfl, rfl, rfl, rfl⟩

theorem live_evolution (env : Env) (init : Algo) (hb : IsBase init) (initSize : Option Nat) (run : List Event) :
    EvoInv (runLive env (.evolution init initSize) run) := by
  apply runLive_inv env (.evolution init initSize) EvoInv
  · exact ⟨⟨_, _, _, _, _, rfl, fun it h => by simp at h⟩, fun e h => by simp at h⟩
  · intro l e hl
    obtain ⟨st, hist⟩ := l
    obtain ⟨⟨si, ini, g, pop, pend, hst, hpend⟩, hent⟩ := hl
    simp only at hst hent
    subst hst
    cases e with
    | propose =>
      have hp := propose_evolution_ok env init initSize hist.length (fedCount hist) si ini g pop pend hpend
      simp only [step]
      cases hr : propose env (.evolution init initSize) (.evolution hist.length (fedCount hist) si ini g pop pend) with
      | mk r s' =>
        rw [hr] at hp
        cases r with
        | error e =>
          obtain ⟨si', ini', g', pend', hs', hp'⟩ := hp
          exact ⟨⟨si', ini', g', pop, pend', hs', hp'⟩, hent⟩
        | ok it =>
          obtain ⟨hit, si', ini', g', pend', hs', hp'⟩ := hp
          refine ⟨⟨si', ini', g', pop, pend', ?_, hp'⟩, ?_⟩
          · simp only [hs', List.length_append, List.length_singleton, fedCount_append]
            simp [fedCount, List.filter]
          · intro e he
            simp only [List.mem_append, List.mem_singleton] at he
            rcases he with he | rfl
            · exact hent e he
            · exact ⟨hit, fun r hr => by simp at hr⟩
    | feedback i r =>
      simp only [step]
      cases hi : hist[i]? with
      | none => exact ⟨⟨si, ini, g, pop, pend, rfl, hpend⟩, hent⟩
      | some e =>
        obtain ⟨it, ro⟩ := e
        cases ro with
        | some _ => exact ⟨⟨si, ini, g, pop, pend, rfl, hpend⟩, hent⟩
        | none =>
          have hmem : (it, none) ∈ hist := List.mem_of_getElem? hi
          obtain ⟨⟨hgid, hinit⟩, _⟩ := hent _ hmem
          obtain ⟨isInit, hinit'⟩ := Option.isSome_iff_exists.mp hinit
          have hinit'' : it.initial = some isInit := hinit'
          simp only [feedback, hinit'']
          cases isInit with
          | false =>
            simp only [Bool.false_eq_true, ↓reduceIte]
            exact evoInv_feedback hist i it _ _ hi _ _ _ _ pend hpend hent
              ⟨⟨hgid, rfl⟩, fun r' hr' => by simp at hr'; subst hr'; exact ⟨rfl, rfl⟩⟩
          | true =>
            simp only [↓reduceIte]
            cases hf : feedback env init si
                { dna := it.dna, key := it.key, reward := some (it.reward.getD r), pid := it.pid, gid := it.gid,
                  initial := some true, fbseq := some (fedCount hist + 1) }
                (it.reward.getD r) with
            | error e => exact ⟨⟨si, ini, g, pop, pend, rfl, hpend⟩, hent⟩
            | ok res =>
              obtain ⟨it2, si'⟩ := res
              have h2 := feedback_base_item env init hb _ _ _ _ _ hf
              subst h2
              simp only
              exact evoInv_feedback hist i it _ _ hi _ _ _ _ pend hpend hent
                ⟨⟨hgid, rfl⟩, fun r' hr' => by simp at hr'; subst hr'; exact ⟨rfl, rfl⟩⟩

end Pg.C15
