/-
  C17 — lemmas about the derivation rules of pushed frames (documented nesting rules of
  `contextual_override` and `detour`).
-/
import PgModel.Scope
namespace Pg.C17
namespace Dict
variable {β : Type}

theorem get?_nil (k' : String) : get? ([] : List (String × β)) k' = none := rfl

theorem get?_cons (p : String × β) (f : List (String × β)) (k' : String) :
    get? (p :: f) k' = if p.1 = k' then some p.2 else get? f k' := by
  by_cases h : p.1 = k'
  · have hb : (p.1 == k') = true := by simpa using h
    simp [get?, List.find?, hb, h]
  · have hb : (p.1 == k') = false := by simpa using h
    simp [get?, List.find?, hb, h]

theorem get?_set_self (f : List (String × β)) (k : String) (v : β) : get? (set f k v) k = some v := by
  induction f with
  | nil => simp [set, get?_cons]
  | cons p f ih =>
    simp only [set]
    by_cases h : p.1 = k
    · simp [h, get?_cons]
    · simp [h, get?_cons, ih]

theorem get?_set_other (f : List (String × β)) (k k' : String) (v : β) (h : k' ≠ k) :
    get? (set f k v) k' = get? f k' := by
  have hb : ¬ k = k' := fun e => h e.symm
  induction f with
  | nil => simp [set, get?_cons, get?_nil, hb]
  | cons p f ih =>
    simp only [set]
    by_cases hp : p.1 = k
    · have hp' : ¬ p.1 = k' := fun e => hb (hp.symm.trans e)
      simp [hp, get?_cons, hb, hp']
    · simp [hp, get?_cons, ih]

/-- Writing a key back to the value it had undoes an intermediate write (no other entry moves). -/
theorem set_set_restore (f : List (String × β)) (k : String) (u v : β) (h : get? f k = some v) :
    set (set f k u) k v = f := by
  induction f with
  | nil => simp [get?_nil] at h
  | cons p f ih =>
    rw [get?_cons] at h
    by_cases hp : p.1 = k
    · simp only [hp, if_true, Option.some.injEq] at h
      simp only [set, hp, if_true]
      rw [← hp, ← h]
    · simp only [hp, if_false] at h
      simp only [set, hp, if_false]
      rw [ih h]

end Dict

/-- Outer cascading override wins: a variable that an enclosing `contextual_override(cascade=True)`
set keeps that entry through any nested override. -/
theorem cascade_outer_wins (prev vars : Frame) (k : String) (a : Atom) (oa : Bool)
    (h : Dict.get? prev k = some (.ovr a true oa)) :
    Dict.get? (cascadeDerive prev vars) k = some (.ovr a true oa) := by
  unfold cascadeDerive
  induction vars generalizing prev with
  | nil => exact h
  | cons p vars ih =>
    simp only [List.foldl_cons]
    apply ih
    by_cases hk : p.1 = k
    · rw [hk, h]
      exact Dict.get?_set_self _ _ _
    · split <;> (rw [Dict.get?_set_other _ _ _ _ (Ne.symm hk)]; exact h)

theorem update_keeps (top news : Frame) (k : String) (hk : ∀ p ∈ news, p.1 ≠ k) :
    Dict.get? (Dict.update top news) k = Dict.get? top k := by
  unfold Dict.update
  induction news generalizing top with
  | nil => rfl
  | cons p news ih =>
    simp only [List.foldl_cons]
    rw [ih _ (fun q hq => hk q (List.mem_cons_of_mem _ hq))]
    exact Dict.get?_set_other _ _ _ _ (Ne.symm (hk p List.mem_cons_self))

/-- Outer detour mapping takes precedence: a source class already mapped by an enclosing `detour`
keeps its destination whatever the nested `detour` says. -/
theorem detour_outer_wins (top maps : Frame) (src : String) (d : Val) (h : Dict.get? top src = some d) :
    Dict.get? (detourDerive top maps) src = some d := by
  unfold detourDerive
  rw [update_keeps, h]
  intro p hp hsrc
  simp only [List.mem_filterMap] at hp
  obtain ⟨q, _, hq⟩ := hp
  by_cases hq1 : (Dict.get? top q.1).isSome = true
  · simp [hq1] at hq
  · simp only [hq1] at hq
    have hpq : p.1 = q.1 := by
      split at hq
      · cases hq
      · split at hq <;> (injection hq with hq; rw [← hq])
    rw [← hpq, hsrc, h] at hq1
    simp at hq1

/-! ### More documented rules: detour transitivity, kwargs merge, deep merge, presets -/

/-- Transitivity of `detour`: `with detour([(B, C)]): with detour([(A, B)]):` maps `A` to `C`. -/
theorem detour_transitive (top : Frame) (src d : String) (e : Val)
    (hsrc : Dict.get? top src = none) (hd : Dict.get? top d = some e) :
    Dict.get? (detourDerive top [(src, .atom (.str d))]) src = some e := by
  simp only [detourDerive, List.filterMap_cons, List.filterMap_nil, hsrc, Option.isSome_none,
    Bool.false_eq_true, if_false, hd, Option.getD_some, Dict.update, List.foldl_cons, List.foldl_nil]
  exact Dict.get?_set_self _ _ _

/-- A source class that no enclosing scope mentions, detoured to a class that no enclosing scope
detours further, is mapped as written. -/
theorem detour_fresh (top : Frame) (src d : String)
    (hsrc : Dict.get? top src = none) (hd : Dict.get? top d = none) :
    Dict.get? (detourDerive top [(src, .atom (.str d))]) src = some (.atom (.str d)) := by
  simp only [detourDerive, List.filterMap_cons, List.filterMap_nil, hsrc, Option.isSome_none,
    Bool.false_eq_true, if_false, hd, Option.getD_none, Dict.update, List.foldl_cons, List.foldl_nil]
  exact Dict.get?_set_self _ _ _

/-- kwargs merge (`str_format`, `repr_format`, `coding.context`, on-demand types): a key given by the
inner scope shows the inner value … -/
theorem update_inner_overrides (f kw : Frame) (k : String) (v : Val)
    (hnd : (kw.map Prod.fst).Nodup) (hm : (k, v) ∈ kw) : Dict.get? (Dict.update f kw) k = some v := by
  induction kw generalizing f with
  | nil => cases hm
  | cons p kw ih =>
    simp only [List.map_cons, List.nodup_cons] at hnd
    have hstep : Dict.update f (p :: kw) = Dict.update (Dict.set f p.1 p.2) kw := rfl
    rw [hstep]
    rcases List.mem_cons.mp hm with h | h
    · subst h
      rw [update_keeps]
      · exact Dict.get?_set_self _ _ _
      · intro q hq hk
        exact hnd.1 (List.mem_map.mpr ⟨q, hq, hk⟩)
    · exact ih _ hnd.2 h

/-- … and a key the inner scope does not give keeps the outer value. -/
theorem update_outer_kept (f kw : Frame) (k : String) (h : ∀ p ∈ kw, p.1 ≠ k) :
    Dict.get? (Dict.update f kw) k = Dict.get? f k := update_keeps f kw k h

/-- Deep merge (`view_options`, `pg.view`): keys the inner scope does not give keep the outer value. -/
theorem deepMerge_outer_kept (top kw : Frame) (k : String) (h : ∀ p ∈ kw, p.1 ≠ k) :
    Dict.get? (deepMerge top kw) k = Dict.get? top k := by
  unfold deepMerge
  induction kw generalizing top with
  | nil => rfl
  | cons p kw ih =>
    simp only [List.foldl_cons]
    rw [ih _ (fun q hq => h q (List.mem_cons_of_mem _ hq))]
    have hp : k ≠ p.1 := Ne.symm (h p List.mem_cons_self)
    split <;> exact Dict.get?_set_other _ _ _ _ hp

/-- Deep merge: a nested dict given over a nested dict is merged key by key … -/
theorem deepMerge_nested (top : Frame) (k : String) (old new : List (String × Atom))
    (h : Dict.get? top k = some (.dict old)) :
    Dict.get? (deepMerge top [(k, .dict new)]) k = some (.dict (Dict.update old new)) := by
  simp only [deepMerge, List.foldl_cons, List.foldl_nil, h]
  exact Dict.get?_set_self _ _ _

/-- … anything else replaces what the outer scope had. -/
theorem deepMerge_replace (top : Frame) (k : String) (v : Val)
    (h : (∃ o, Dict.get? top k = some (.dict o)) → ∀ n, v ≠ .dict n) :
    Dict.get? (deepMerge top [(k, v)]) k = some v := by
  simp only [deepMerge, List.foldl_cons, List.foldl_nil]
  split
  · rename_i heq
    exact absurd rfl (h ⟨_, heq⟩ _)
  · exact Dict.get?_set_self _ _ _

/-- Presets (`preset_args`): without inheritance the named preset is exactly the given kwargs … -/
theorem preset_no_inherit (top : Frame) (a : Arg) (h : a.inh = .bool false) :
    Dict.get? (presetDerive top a) a.name = some (.dict (atomsOf a.kw)) := by
  simp only [presetDerive, h, Option.bind_none]
  exact Dict.get?_set_self _ _ _

/-- … with `inherit_preset=True` the kwargs are merged over the enclosing preset of the same name … -/
theorem preset_inherit_same (top : Frame) (a : Arg) (d : List (String × Atom)) (h : a.inh = .bool true)
    (hd : Dict.get? top a.name = some (.dict d)) :
    Dict.get? (presetDerive top a) a.name = some (.dict (Dict.update d (atomsOf a.kw))) := by
  simp only [presetDerive, h, Option.bind_some, hd]
  exact Dict.get?_set_self _ _ _

/-- … and presets of other names are inherited unchanged. -/
theorem preset_other_kept (top : Frame) (a : Arg) (n : String) (h : n ≠ a.name) :
    Dict.get? (presetDerive top a) n = Dict.get? top n := by
  simp only [presetDerive]
  exact Dict.get?_set_other _ _ _ _ h

end Pg.C17
