/-
  C10 — the pre-order walk visits no path twice.
-/
import PgProofs.Canon
namespace Pg.C10
namespace Val

theorem visitsPreList_eq : ∀ (l : List Val) (pre : Path) (i : Nat),
    visitsPreList l pre i = visitsPreItems (enumItems i l) pre := by
  intro l
  induction l with
  | nil => intro pre i; rfl
  | cons v rest ih =>
    intro pre i
    simp only [visitsPreList, enumItems, visitsPreItems, ih]
    rfl

/-- the paths of a walk started at `pre`: distinct, and all extensions of `pre`. -/
def WalkOK (v : Val) : Prop :=
  ∀ pre : Path, ((visitsPre v pre).map (·.1)).Nodup ∧ ∀ q ∈ (visitsPre v pre).map (·.1), ∃ r, q = pre ++ r

theorem visitsPreItems_ok (items : Items) (ih : ∀ kv ∈ items, WalkOK kv.2) (hn : Assoc.nodup items = true) :
    ∀ pre : Path, ((visitsPreItems items pre).map (·.1)).Nodup ∧
      ∀ q ∈ (visitsPreItems items pre).map (·.1), ∃ kv ∈ items, ∃ r, q = pre ++ kv.1 :: r := by
  induction items with
  | nil => intro pre; simp [visitsPreItems]
  | cons kv rest ihl =>
    obtain ⟨k, c⟩ := kv
    intro pre
    simp only [Assoc.nodup, Bool.and_eq_true, Bool.not_eq_true'] at hn
    obtain ⟨hnd0, hpre0⟩ := ih (k, c) (by simp) (pre ++ [k])
    obtain ⟨hnd1, hpre1⟩ := ihl (fun kv h => ih kv (by simp [h])) hn.2 pre
    simp only [visitsPreItems, List.map_append]
    constructor
    · rw [List.nodup_append]
      refine ⟨hnd0, hnd1, ?_⟩
      intro a ha b hb e
      obtain ⟨r, hr⟩ := hpre0 a ha
      obtain ⟨kv, hm, r', hr'⟩ := hpre1 b hb
      rw [hr, hr', List.append_assoc] at e
      have e' := List.append_cancel_left e
      simp only [List.singleton_append] at e'
      injection e' with e1 _
      have h1 := hn.1
      unfold Assoc.hasKey at h1
      have := Assoc.lookup_isSome_of_mem rest kv.1 kv.2 hm
      rw [← e1, h1] at this
      cases this
    · intro q hq
      rcases List.mem_append.mp hq with hq | hq
      · obtain ⟨r, hr⟩ := hpre0 q hq
        exact ⟨(k, c), by simp, r, by simp [hr]⟩
      · obtain ⟨kv, hm, r, hr⟩ := hpre1 q hq
        exact ⟨kv, by simp [hm], r, hr⟩

theorem walkOK_of_items (v : Val) (items : Items) (hv : ∀ pre, visitsPre v pre = (pre, v) :: visitsPreItems items pre)
    (ih : ∀ kv ∈ items, WalkOK kv.2) (hn : Assoc.nodup items = true) : WalkOK v := by
  intro pre
  obtain ⟨hnd, hpre⟩ := visitsPreItems_ok items ih hn pre
  rw [hv pre]
  simp only [List.map_cons, List.nodup_cons]
  refine ⟨⟨?_, hnd⟩, ?_⟩
  · intro hm
    obtain ⟨kv, _, r, hr⟩ := hpre pre hm
    have := congrArg List.length hr
    simp at this
  · intro q hq
    rcases List.mem_cons.mp hq with hq | hq
    · exact ⟨[], by simp [hq]⟩
    · obtain ⟨kv, _, r, hr⟩ := hpre q hq
      exact ⟨kv.1 :: r, hr⟩

/-- EACH NODE ONCE: the pre-order walk reports pairwise distinct paths. -/
theorem walkOK : ∀ v : Val, nodupVal v = true → WalkOK v := by
  apply ind'
  · intro a _ pre
    simp [visitsPre]
  · intro items ih hn
    simp only [nodupVal] at hn
    exact walkOK_of_items _ items (fun pre => by simp [visitsPre])
      (fun kv h => ih kv h (nodupItems_mem _ hn kv h)) (nodupItems_nodup _ hn)
  · intro l ih hn
    simp only [nodupVal] at hn
    exact walkOK_of_items _ (enumItems 0 l) (fun pre => by simp [visitsPre, visitsPreList_eq])
      (fun kv h => ih kv.2 (mem_enumItems _ _ kv h) (nodupList_mem _ hn kv.2 (mem_enumItems _ _ kv h)))
      (nodup_enumItems _ _)

end Val
end Pg.C10
