/-
  C10 — the pre-order walk visits no path twice.
-/
import PgProofs.Canon
namespace Pg.C10
namespace Val

theorem visitsPreList_eq : ∀ (l : List Val) (pre : Path) (i : Nat),
    visitsPreList l pre i = visitsPreItems (enumItems i l) pre := by
  intro l
  induction l with
  | nil => intro pre i; rfl
  | cons v rest ih =>
    intro pre i
    simp only [visitsPreList, enumItems, visitsPreItems, ih]
    rfl

/-- the paths of a walk started at `pre`: distinct, and all extensions of `pre`. -/
def WalkOK (v : Val) : Prop :=
  ∀ pre : Path, ((visitsPre v pre).map (·.1)).Nodup ∧ ∀ q ∈ (visitsPre v pre).map (·.1), ∃ r, q = pre ++ r

theorem visitsPreItems_ok (items : Items) (ih : ∀ kv ∈ items, WalkOK kv.2) (hn : Assoc.nodup items = true) :
    ∀ pre : Path, ((visitsPreItems items pre).map (·.1)).Nodup ∧
      ∀ q ∈ (visitsPreItems items pre).map (·.1), ∃ kv ∈ items, ∃ r, q = pre ++ kv.1 :: r := by
  induction items with
  | nil => intro pre; simp [visitsPreItems]
  | cons kv rest ihl =>
    obtain ⟨k, c⟩ := kv
    intro pre
    simp only [Assoc.nodup, Bool.and_eq_true, Bool.not_eq_true'] at hn
    obtain ⟨hnd0, hpre0⟩ := ih (k, c) (by simp) (pre ++ [k])
    obtain ⟨hnd1, hpre1⟩ := ihl (fun kv h => ih kv (by simp [h])) hn.2 pre
    simp only [visitsPreItems, List.map_append]
    constructor
    · rw [List.nodup_append]
      refine ⟨hnd0, hnd1, ?_⟩
      intro a ha b hb e
      obtain ⟨r, hr⟩ := hpre0 a ha
      obtain ⟨kv, hm, r', hr'⟩ := hpre1 b hb
      rw [hr, hr', List.append_assoc] at e
      have e' := List.append_cancel_left e
      simp only [List.singleton_append] at e'
      injection e' with e1 _
      have h1 := hn.1
      unfold Assoc.hasKey at h1
      have := Assoc.lookup_isSome_of_mem rest kv.1 kv.2 hm
      rw [← e1, h1] at this
      cases this
    · intro q hq
      rcases List.mem_append.mp hq with hq | hq
      · obtain ⟨r, hr⟩ := hpre0 q hq
        exact ⟨(k, c), by simp, r, by simp [hr]⟩
      · obtain ⟨kv, hm, r, hr⟩ := hpre1 q hq
        exact ⟨kv, by simp [hm], r, hr⟩

theorem walkOK_of_items (v : Val) (items : Items) (hv : ∀ pre, visitsPre v pre = (pre, v) :: visitsPreItems items pre)
    (ih : ∀ kv ∈ items, WalkOK kv.2) (hn : Assoc.nodup items = true) : WalkOK v := by
  intro pre
  obtain ⟨hnd, hpre⟩ := visitsPreItems_ok items ih hn pre
  rw [hv pre]
  simp only [List.map_cons, List.nodup_cons]
  refine ⟨⟨?_, hnd⟩, ?_⟩
  · intro hm
    obtain ⟨kv, _, r, hr⟩ := hpre pre hm
    have := congrArg List.length hr
    simp at this
  · intro q hq
    rcases List.mem_cons.mp hq with hq | hq
    · exact ⟨[], by simp [hq]⟩
    · obtain ⟨kv, _, r, hr⟩ := hpre q hq
      exact ⟨kv.1 :: r, hr⟩

/-- EACH NODE ONCE: the pre-order walk reports pairwise distinct paths. -/
theorem walkOK : ∀ v : Val, nodupVal v = true → WalkOK v := by
  apply ind'
  · intro a _ pre
    simp [visitsPre]
  · intro items ih hn
    simp only [nodupVal] at hn
    exact walkOK_of_items _ items (fun pre => by simp [visitsPre])
      (fun kv h => ih kv h (nodupItems_mem _ hn kv h)) (nodupItems_nodup _ hn)
  · intro l ih hn
    simp only [nodupVal] at hn
    exact walkOK_of_items _ (enumItems 0 l) (fun pre => by simp [visitsPre, visitsPreList_eq])
      (fun kv h => ih kv.2 (mem_enumItems _ _ kv h) (nodupList_mem _ hn kv.2 (mem_enumItems _ _ kv h)))
      (nodup_enumItems _ _)

/-! ### Post-order is a permutation of pre-order -/

theorem visitsPostItems_perm (items : Items)
    (ih : ∀ kv ∈ items, ∀ pre, (visitsPost kv.2 pre).Perm (visitsPre kv.2 pre)) :
    ∀ pre, (visitsPostItems items pre).Perm (visitsPreItems items pre) := by
  induction items with
  | nil => intro pre; simp [visitsPostItems, visitsPreItems]
  | cons kv rest ihl =>
    obtain ⟨k, c⟩ := kv
    intro pre
    simp only [visitsPostItems, visitsPreItems]
    exact List.Perm.append (ih (k, c) (by simp) _) (ihl (fun kv h => ih kv (by simp [h])) pre)

theorem visitsPostList_perm (items : List Val)
    (ih : ∀ x ∈ items, ∀ pre, (visitsPost x pre).Perm (visitsPre x pre)) :
    ∀ pre i, (visitsPostList items pre i).Perm (visitsPreList items pre i) := by
  induction items with
  | nil => intro pre i; simp [visitsPostList, visitsPreList]
  | cons x rest ihl =>
    intro pre i
    simp only [visitsPostList, visitsPreList]
    exact List.Perm.append (ih x (by simp) _) (ihl (fun y h => ih y (by simp [h])) pre (i + 1))

/-- the post-order log is a rearrangement of the pre-order log (same visits, other order). -/
theorem visitsPost_perm : ∀ (v : Val) (pre : Path), (visitsPost v pre).Perm (visitsPre v pre) := by
  apply ind'
  · intro a pre; simp [visitsPost, visitsPre]
  · intro items ih pre
    simp only [visitsPost, visitsPre]
    have h1 := visitsPostItems_perm items ih pre
    exact (List.perm_append_comm).trans (List.Perm.cons _ h1)
  · intro l ih pre
    simp only [visitsPost, visitsPre]
    have h1 := visitsPostList_perm l ih pre 0
    exact (List.perm_append_comm).trans (List.Perm.cons _ h1)

/-! ### The printed-path dictionaries of `pg.query` / the rebinder have no collisions -/

mutual
  /-- every dict key below the value is well-formed (int, or non-empty bracket-balanced str). -/
  def wfVal : Val → Bool
    | .leaf _ => true
    | .dict items => wfItems items
    | .list items => wfList items
  def wfItems : Items → Bool
    | [] => true
    | (k, v) :: rest => wfKey k && wfVal v && wfItems rest
  def wfList : List Val → Bool
    | [] => true
    | v :: rest => wfVal v && wfList rest
end

theorem wfItems_mem : ∀ items : Items, wfItems items = true → ∀ kv ∈ items, wfKey kv.1 = true ∧ wfVal kv.2 = true := by
  intro items
  induction items with
  | nil => intro _ kv h; cases h
  | cons kv0 rest ih =>
    obtain ⟨k, c⟩ := kv0
    intro h kv hm
    simp only [wfItems, Bool.and_eq_true] at h
    rcases List.mem_cons.mp hm with e | hm
    · subst e; exact ⟨h.1.1, h.1.2⟩
    · exact ih h.2 kv hm

theorem wfList_mem : ∀ l : List Val, wfList l = true → ∀ x ∈ l, wfVal x = true := by
  intro l
  induction l with
  | nil => intro _ x h; cases h
  | cons v rest ih =>
    intro h x hm
    simp only [wfList, Bool.and_eq_true] at h
    rcases List.mem_cons.mp hm with e | hm
    · subst e; exact h.1
    · exact ih h.2 x hm

theorem wfKeys_append (p q : Path) : wfKeys (p ++ q) = (wfKeys p && wfKeys q) := by
  simp [wfKeys]

def WalkWF (v : Val) : Prop :=
  ∀ pre : Path, wfKeys pre = true → ∀ q ∈ (visitsPre v pre).map (·.1), wfKeys q = true

theorem visitsPreItems_wf (items : Items) (ih : ∀ kv ∈ items, wfKey kv.1 = true ∧ WalkWF kv.2) :
    ∀ pre : Path, wfKeys pre = true → ∀ q ∈ (visitsPreItems items pre).map (·.1), wfKeys q = true := by
  induction items with
  | nil => intro pre _ q h; simp [visitsPreItems] at h
  | cons kv rest ihl =>
    obtain ⟨k, c⟩ := kv
    intro pre hpre q hq
    simp only [visitsPreItems, List.map_append, List.mem_append] at hq
    rcases hq with hq | hq
    · have h0 := ih (k, c) (by simp)
      exact h0.2 (pre ++ [k]) (by rw [wfKeys_append, hpre]; simp [wfKeys, h0.1]) q hq
    · exact ihl (fun kv h => ih kv (by simp [h])) pre hpre q hq

theorem wfKey_enumItems : ∀ (l : List Val) (i : Nat), ∀ kv ∈ enumItems i l, wfKey kv.1 = true := by
  intro l
  induction l with
  | nil => intro i kv h; simp [enumItems] at h
  | cons v rest ih =>
    intro i kv h
    simp only [enumItems, List.mem_cons] at h
    rcases h with h | h
    · subst h; rfl
    · exact ih (i + 1) kv h

theorem walkWF : ∀ v : Val, wfVal v = true → WalkWF v := by
  apply ind'
  · intro a _ pre hpre q hq
    simp only [visitsPre, List.map_cons, List.map_nil, List.mem_singleton] at hq
    subst hq; exact hpre
  · intro items ih hw pre hpre q hq
    simp only [wfVal] at hw
    simp only [visitsPre, List.map_cons, List.mem_cons] at hq
    rcases hq with hq | hq
    · subst hq; exact hpre
    · exact visitsPreItems_wf items
        (fun kv h => ⟨(wfItems_mem _ hw kv h).1, ih kv h (wfItems_mem _ hw kv h).2⟩) pre hpre q hq
  · intro l ih hw pre hpre q hq
    simp only [wfVal] at hw
    simp only [visitsPre, List.map_cons, List.mem_cons, visitsPreList_eq] at hq
    rcases hq with hq | hq
    · subst hq; exact hpre
    · exact visitsPreItems_wf (enumItems 0 l)
        (fun kv h => ⟨wfKey_enumItems l 0 kv h, ih kv.2 (mem_enumItems _ _ kv h) (wfList_mem _ hw kv.2 (mem_enumItems _ _ kv h))⟩)
        pre hpre q hq

theorem nodup_filterMap_fst {α β : Type} (h : α × β → Option (α × β)) (hfst : ∀ x y, h x = some y → y.1 = x.1) :
    ∀ L : List (α × β), (L.map (·.1)).Nodup → ((L.filterMap h).map (·.1)).Nodup ∧
      ∀ y ∈ L.filterMap h, y.1 ∈ L.map (·.1) := by
  intro L
  induction L with
  | nil => intro _; simp
  | cons x rest ih =>
    intro hn
    simp only [List.map_cons, List.nodup_cons] at hn
    obtain ⟨ih1, ih2⟩ := ih hn.2
    simp only [List.filterMap_cons]
    cases hx : h x with
    | none =>
      exact ⟨ih1, fun y hy => by simp only [List.map_cons, List.mem_cons]; exact Or.inr (ih2 y hy)⟩
    | some y0 =>
      have e := hfst x y0 hx
      constructor
      · simp only [List.map_cons, List.nodup_cons]
        refine ⟨?_, ih1⟩
        intro hm
        obtain ⟨y, hy, e'⟩ := List.mem_map.mp hm
        have := ih2 y hy
        rw [e', e] at this
        exact hn.1 this
      · intro y hy
        simp only [List.map_cons, List.mem_cons]
        rcases List.mem_cons.mp hy with hy | hy
        · subst hy; exact Or.inl e
        · exact Or.inr (ih2 y hy)

/-- A dictionary keyed by the printed paths of (some of) the visits has one entry per selected
visit, in visiting order: no two visits of a well-formed value collide. -/
theorem printedDict_exact (v : Val) (hn : nodupVal v = true) (hw : wfVal v = true)
    (h : Path × Val → Option (Path × Val)) (hfst : ∀ x y, h x = some y → y.1 = x.1) :
    ((visitsPre v []).filterMap h).foldl (fun acc pv => Assoc.set acc (Key.s (pathStr pv.1)) pv.2) [] =
      ((visitsPre v []).filterMap h).map (fun pv => (Key.s (pathStr pv.1), pv.2)) := by
  have hnd := (walkOK v hn []).1
  obtain ⟨h1, h2⟩ := nodup_filterMap_fst h hfst (visitsPre v []) hnd
  have hwf := walkWF v hw [] rfl
  rw [foldl_set_fresh (fun pv : Path × Val => Key.s (pathStr pv.1)) (fun pv => pv.2) _ []]
  · simp
  · have : ((visitsPre v []).filterMap h).map (fun pv => Key.s (pathStr pv.1)) =
        (((visitsPre v []).filterMap h).map (·.1)).map (fun p => Key.s (pathStr p)) := by
      simp [List.map_map]
    rw [this]
    apply nodup_map_on _ _ _ h1
    intro a ha b hb e
    obtain ⟨pa, hpa, rfl⟩ := List.mem_map.mp ha
    obtain ⟨pb, hpb, rfl⟩ := List.mem_map.mp hb
    injection e with e
    have w1 := hwf _ (h2 pa hpa)
    have w2 := hwf _ (h2 pb hpb)
    have p1 := parse_pathStr asciiClass_laws pa.1 w1
    have p2 := parse_pathStr asciiClass_laws pb.1 w2
    rw [e, p2] at p1
    injection p1 with p1
    exact p1.symm
  · intro _ _; rfl

end Val
end Pg.C10
