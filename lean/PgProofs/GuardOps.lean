/-
  C08 — per-entry-point lemmas: a protected receiver is left unchanged.
-/
import PgProofs.Guard
namespace Pg.C08
open Tree

section Prot
variable {G : Table} {env : Env} {f : Flags} (hG : RawGuarded G) (hp : treatsAsSealed env f = true)
include hG hp

/-! raw entry points: the sealed guard fires first -/

theorem lSetItem_prot (xs : List Tree) (i : Int) (v : Tree) :
    lSetItem G env f xs i v = (.list f xs, .err .perm) := by
  simp [lSetItem, guard_prot (hG .l_setitem rfl) hp]

theorem lSetSlice_prot (xs : List Tree) (a b st : Option Int) (vs : List Tree) :
    lSetSlice G env f xs a b st vs = (.list f xs, .err .perm) := by
  simp [lSetSlice, guard_prot (hG .l_setitem rfl) hp]

theorem lDelSlice_prot (xs : List Tree) (a b st : Option Int) :
    lDelSlice G env f xs a b st = (.list f xs, .err .perm) := by
  simp [lDelSlice, guard_prot (hG .l_delitem rfl) hp]

theorem lDelItem_prot (xs : List Tree) (i : Int) :
    lDelItem G f xs env i = (.list f xs, .err .perm) := by
  simp [lDelItem, guard_prot (hG .l_delitem rfl) hp]

theorem lAppend_prot (xs : List Tree) (v : Tree) :
    lAppend G env f xs v = (.list f xs, .err .perm) := by
  simp [lAppend, guard_prot (hG .l_append rfl) hp]

theorem lExtend_prot (xs : List Tree) (vs : List Tree) :
    lExtend G env f xs vs = (.list f xs, .err .perm) := by
  simp [lExtend, guard_prot (hG .l_extend rfl) hp]

theorem lInsert_prot (xs : List Tree) (i : Int) (v : Tree) :
    lInsert G env f xs i v = (.list f xs, .err .perm) := by
  simp [lInsert, guard_prot (hG .l_insert rfl) hp]

theorem lClear_prot (xs : List Tree) : lClear G env f xs = (.list f xs, .err .perm) := by
  simp [lClear, guard_prot (hG .l_clear rfl) hp]

theorem lSort_prot (xs : List Tree) : lSort G env f xs = (.list f xs, .err .perm) := by
  simp [lSort, guard_prot (hG .l_sort rfl) hp]

theorem lReverse_prot (xs : List Tree) : lReverse G env f xs = (.list f xs, .err .perm) := by
  simp [lReverse, guard_prot (hG .l_reverse rfl) hp]

theorem dSetItem_prot (kvs : List (String × Tree)) (k : String) (v : Tree) :
    dSetItem G f kvs env k v = (.dict f kvs, .err .perm) := by
  simp [dSetItem, guard_prot (hG .d_setitem rfl) hp]

theorem dDelItem_prot (kvs : List (String × Tree)) (k : String) :
    dDelItem G f kvs env k = (.dict f kvs, .err .perm) := by
  simp [dDelItem, guard_prot (hG .d_delitem rfl) hp]

theorem dPopItem_prot (kvs : List (String × Tree)) : dPopItem G f kvs env = (.dict f kvs, .err .perm) := by
  simp [dPopItem, guard_prot (hG .d_popitem rfl) hp]

theorem dClear_prot (kvs : List (String × Tree)) : dClear G f kvs env = (.dict f kvs, .err .perm) := by
  simp [dClear, guard_prot (hG .d_clear rfl) hp]

/-! delegating entry points -/

theorem lIAdd_prot (xs vs : List Tree) : lIAdd G env f xs vs = (.list f xs, .err .perm) := by
  unfold lIAdd
  rcases guard_cases G env f .l_iadd with h | h <;> simp [h, lExtend_prot hG hp]

theorem lIMul_prot (xs : List Tree) (k : Int) : lIMul G env f xs k = (.list f xs, .err .perm) := by
  unfold lIMul
  rcases guard_cases G env f .l_imul with h | h
  · simp only [h]; split <;> simp [lClear_prot hG hp, lExtend_prot hG hp]
  · simp [h]

theorem lPop_prot (xs : List Tree) (i : Int) :
    (lPop G env f xs i).1 = .list f xs ∧
      ((lPop G env f xs i).2 = .err .perm ∨ (normIdx xs.length i).isNone = true) := by
  unfold lPop
  rcases guard_cases G env f .l_pop with h | h
  · simp only [h]
    cases hn : normIdx xs.length i with
    | none => simp
    | some j =>
      have hp' : treatsAsSealed (if (G .l_pop).accScope = true then env.pushAcc (some true) else env) f = true := by
        rw [tas_ite]; exact hp
      simp [lDelItem_prot hG hp']
  · simp [h]

theorem lRemove_prot (xs : List Tree) (a : Atom) :
    (lRemove G env f xs a).1 = .list f xs ∧
      ((lRemove G env f xs a).2 = .err .perm ∨ (xs.findIdx? (isLeafEq a)).isNone = true) := by
  unfold lRemove
  rcases guard_cases G env f .l_remove with h | h
  · simp only [h]
    cases hn : xs.findIdx? (isLeafEq a) with
    | none => simp
    | some j => simp [lDelItem_prot hG hp]
  · simp [h]

theorem dSetAttr_prot (kvs : List (String × Tree)) (k : String) (v : Tree) :
    dSetAttr G f kvs env k v = (.dict f kvs, .err .perm) := by
  unfold dSetAttr
  rcases guard_cases G env f .d_setattr with h | h <;> simp [h, dSetItem_prot hG hp]

theorem dDelAttr_prot (kvs : List (String × Tree)) (k : String) :
    dDelAttr G f kvs env k = (.dict f kvs, .err .perm) := by
  unfold dDelAttr
  rcases guard_cases G env f .d_delattr with h | h <;> simp [h, dDelItem_prot hG hp]

theorem dSetDefault_prot (kvs : List (String × Tree)) (k : String) (v : Tree) :
    (dSetDefault G f kvs env k v).1 = .dict f kvs ∧
      ((dSetDefault G f kvs env k v).2 = .err .perm ∨ hasKey k kvs = true) := by
  unfold dSetDefault
  rcases guard_cases G env f .d_setdefault with h | h
  · simp only [h]
    cases hk : hasKey k kvs <;> simp [dSetItem_prot hG hp]
  · simp [h]

theorem dPop_prot (kvs : List (String × Tree)) (k : String) (d : Bool) :
    (dPop G f kvs env k d).1 = .dict f kvs ∧
      ((dPop G f kvs env k d).2 = .err .perm ∨ hasKey k kvs = false) := by
  unfold dPop
  rcases guard_cases G env f .d_pop with h | h
  · simp only [h]
    cases hk : hasKey k kvs
    · cases d <;> simp
    · have hp' : treatsAsSealed (if (G .d_pop).accScope = true then env.pushAcc (some true) else env) f = true := by
        rw [tas_ite]; exact hp
      simp [dDelItem_prot hG hp']
  · simp [h]

theorem rebindNode_kv_prot (kvs : List (String × Tree)) (us : List (String × Tree)) :
    (rebindNode G env (.dict f kvs) (kvPairs us) false).1 = .dict f kvs ∧
      ((rebindNode G env (.dict f kvs) (kvPairs us) false).2 = .err .perm ∨ us.isEmpty = true) := by
  unfold rebindNode
  simp only [flags?, Bool.and_false, Bool.false_eq_true, if_false]
  rcases guard_cases G env f (rebindEP (.dict f kvs)) with h | h
  · simp only [h]
    split
    · simp
    · rw [treeSetAll_kv_prot hG (t := .dict f kvs) rfl hp]
      cases us <;> simp
  · simp [h]

theorem dUpdate_prot (kvs us : List (String × Tree)) :
    (dUpdate G env f kvs us).1 = .dict f kvs ∧
      ((dUpdate G env f kvs us).2 = .err .perm ∨ us.isEmpty = true) := by
  unfold dUpdate
  rcases guard_cases G env f .d_update with h | h
  · simp only [h]; exact rebindNode_kv_prot hG hp kvs us
  · simp [h]

theorem dIOr_prot (kvs us : List (String × Tree)) :
    (dIOr G env f kvs us).1 = .dict f kvs ∧
      ((dIOr G env f kvs us).2 = .err .perm ∨ us.isEmpty = true) := by
  unfold dIOr
  rcases guard_cases G env f .d_ior with h | h
  · simp only [h]; exact dUpdate_prot hG hp kvs us
  · simp [h]

theorem oSetAttr_prot (hO : (G .o_setattr).directSealed = true) (cls : Nat) (attrs : List (String × Tree))
    (k : String) (v : Tree) :
    (oSetAttr G env f cls attrs k v).1 = .obj f cls attrs ∧
      ((oSetAttr G env f cls attrs k v).2 = .err .perm ∨ hasKey k attrs = false) := by
  unfold oSetAttr
  cases hk : hasKey k attrs
  · simp
  · simp [guard_prot hO hp]

omit hG hp in
theorem of_eq_perm {x : Tree × Res} {t : Tree} {b : Bool} (h : x = (t, .err .perm)) :
    x.1 = t ∧ (x.2 = .err .perm ∨ b = true) := by
  subst h; exact ⟨rfl, Or.inl rfl⟩

/-- Every non-rebind call on a protected receiver: the receiver is unchanged, and the outcome is
the permission error unless the call is benign. -/
theorem nodeStep_prot (hO : (G .o_setattr).directSealed = true) (t : Tree) (op : Op) (hf : t.flags? = some f)
    (hr : op.isRebind = false) :
    (nodeStep G env t op).1 = t ∧ ((nodeStep G env t op).2 = .err .perm ∨ benign t op = true) := by
  cases t with
  | leaf a => simp [flags?] at hf
  | list f' xs =>
    simp [flags?] at hf; subst hf
    cases op
    case lSetItem i v => exact of_eq_perm (lSetItem_prot hG hp xs i v)
    case lSetSlice a b st vs => exact of_eq_perm (lSetSlice_prot hG hp xs a b st vs)
    case lDelSlice a b st => exact of_eq_perm (lDelSlice_prot hG hp xs a b st)
    case lDelItem i => exact of_eq_perm (lDelItem_prot hG hp xs i)
    case lIAdd vs => exact of_eq_perm (lIAdd_prot hG hp xs vs)
    case lIMul k => exact of_eq_perm (lIMul_prot hG hp xs k)
    case lAppend v => exact of_eq_perm (lAppend_prot hG hp xs v)
    case lExtend vs => exact of_eq_perm (lExtend_prot hG hp xs vs)
    case lInsert i v => exact of_eq_perm (lInsert_prot hG hp xs i v)
    case lClear => exact of_eq_perm (lClear_prot hG hp xs)
    case lSort => exact of_eq_perm (lSort_prot hG hp xs)
    case lReverse => exact of_eq_perm (lReverse_prot hG hp xs)
    case lPop i => exact lPop_prot hG hp xs i
    case lRemove a => exact lRemove_prot hG hp xs a
    case rebind ps => simp [Op.isRebind] at hr
    all_goals exact ⟨rfl, Or.inr rfl⟩
  | dict f' kvs =>
    simp [flags?] at hf; subst hf
    cases op
    case dSetItem k v => exact of_eq_perm (dSetItem_prot hG hp kvs k v)
    case dDelItem k => exact of_eq_perm (dDelItem_prot hG hp kvs k)
    case dPopItem => exact of_eq_perm (dPopItem_prot hG hp kvs)
    case dClear => exact of_eq_perm (dClear_prot hG hp kvs)
    case dSetAttr k v => exact of_eq_perm (dSetAttr_prot hG hp kvs k v)
    case dDelAttr k => exact of_eq_perm (dDelAttr_prot hG hp kvs k)
    case dIOr us => exact dIOr_prot hG hp kvs us
    case dUpdate us => exact dUpdate_prot hG hp kvs us
    case dSetDefault k v => exact dSetDefault_prot hG hp kvs k v
    case dPop k d =>
      have := dPop_prot hG hp kvs k d
      refine ⟨this.1, this.2.imp id ?_⟩
      intro h; simp [benign, h]
    case rebind ps => simp [Op.isRebind] at hr
    all_goals exact ⟨rfl, Or.inr rfl⟩
  | obj f' cls attrs =>
    simp [flags?] at hf; subst hf
    cases op
    case oSetAttr k v =>
      have := oSetAttr_prot hG hp hO cls attrs k v
      refine ⟨this.1, this.2.imp id ?_⟩
      intro h; simp [benign, h]
    case rebind ps => simp [Op.isRebind] at hr
    all_goals exact ⟨rfl, Or.inr rfl⟩

end Prot

end Pg.C08
