/-
  C13 — a value spec that accepted the placeholders at binding time accepts every decoded value;
  decoding keeps templates well-formed (a partially decoded value is a template again).
-/
import PgProofs.HyperDist
namespace Pg.C13

theorem Bound.has_between (b : Bound) (lo hi x : Num) (h1 : b.has lo = true) (h2 : b.has hi = true)
    (hl : Num.le lo x = true) (hh : Num.le x hi = true) : b.has x = true := by
  simp only [Bound.has, Bool.and_eq_true] at *
  constructor
  · cases hb : b.lo with
    | none => simp
    | some l => simp only [hb] at h1 ⊢; exact Num.le_trans _ _ _ h1.1 hl
  · cases hb : b.hi with
    | none => simp
    | some h => simp only [hb] at h2 ⊢; exact Num.le_trans _ _ _ hh h2.2

theorem okBL_iff (b : Bound) (cs : List Tmpl) : okBL b cs = true ↔ ∀ c ∈ cs, okB b c = true := by
  induction cs with
  | nil => simp [okBL]
  | cons c cs ih => simp [okBL, ih]

section
variable (W : Cfg)

theorem okBL_shapeL (b : Bound) (cands vs : List Tmpl)
    (ih : ∀ c ∈ cands, ∀ v, okB b c = true → shapeT W c v = true → okB b v = true)
    (hok : okBL b cands = true) (hs : shapeL W cands vs = true) : okBL b vs = true := by
  induction cands generalizing vs with
  | nil => cases vs <;> simp [shapeL, okBL] at hs ⊢
  | cons c cs ihl =>
    cases vs with
    | nil => simp [shapeL] at hs
    | cons v vs =>
      simp only [shapeL, Bool.and_eq_true] at hs
      simp only [okBL, Bool.and_eq_true] at hok ⊢
      exact ⟨ih c (List.mem_cons_self ..) v hok.1 hs.1,
        ihl vs (fun c' hc' => ih c' (List.mem_cons_of_mem _ hc')) hok.2 hs.2⟩

/-- Acceptance by a bounded numeric field is preserved by decoding (any filter). -/
theorem okB_shape (b : Bound) (t : Tmpl) : ∀ v, okB b t = true → shapeT W t v = true → okB b v = true := by
  induction t using Tmpl.ind_t with
  | hconst a =>
    intro v hok hs
    cases v <;> simp [shapeT] at hs
    subst hs; exact hok
  | hnode l kids _ => intro v hok _; simp [okB] at hok
  | hchoice tag one k cands dst so ih =>
    intro v hok hs
    simp only [okB, Bool.and_eq_true] at hok
    obtain ⟨hone, hcs⟩ := hok
    subst hone
    by_cases hW : W tag = true
    · simp only [shapeT, hW, if_true] at hs
      obtain ⟨c, hc, hsc⟩ := anyShape_mem W cands v hs
      exact ih c hc v ((okBL_iff b cands).mp hcs c hc) hsc
    · simp only [shapeT, hW, Bool.false_eq_true, if_false] at hs
      split at hs
      · rename_i tag' one' k' vs d' s'
        simp only [Bool.and_eq_true, decide_eq_true_eq] at hs
        obtain ⟨⟨_, rfl, _⟩, hsl⟩ := hs
        simp only [okB, Bool.true_and]
        exact okBL_shapeL W b cands vs ih hcs hsl
      · cases hs
  | hfloat tag lo hi =>
    intro v hok hs
    simp only [okB, Bool.and_eq_true] at hok
    by_cases hW : W tag = true
    · simp only [shapeT, hW, if_true] at hs
      split at hs
      · rename_i x
        simp only [Bool.and_eq_true] at hs
        simp only [okB, Atom.num?]
        exact Bound.has_between b lo hi x hok.1 hok.2 hs.1 hs.2
      · cases hs
    · simp only [shapeT, hW, Bool.false_eq_true, if_false] at hs
      split at hs
      · simp only [decide_eq_true_eq] at hs
        obtain ⟨rfl, rfl, rfl⟩ := hs
        simp [okB, hok]
      · cases hs
  | hcustom tag cid => intro v hok _; simp [okB] at hok

/-- The same hooks, no filter. -/
def allOf (W : Cfg) : Cfg := { W with sel := fun _ => true }

theorem allOf_sel (W : Cfg) (tag : Nat) : (allOf W) tag = true := rfl

theorem plainL_iff (ks : List Tmpl) : plainL ks = true ↔ ∀ k ∈ ks, plainT k = true := by
  induction ks with
  | nil => simp [plainL]
  | cons a as ih => simp [plainL, ih]

theorem plain_wf (v : Tmpl) : plainT v = true → wfT v = true := by
  induction v using Tmpl.ind_t with
  | hconst a => intro _; simp [wfT]
  | hnode l kids ih =>
    intro h
    simp only [plainT] at h
    simp only [wfT]
    rw [wfL_iff]
    exact fun k hk => ih k hk ((plainL_iff kids).mp h k hk)
  | hchoice tag one k cands dst so _ => intro h; simp [plainT] at h
  | hfloat tag lo hi => intro h; simp [plainT] at h
  | hcustom tag cid => intro h; simp [plainT] at h

/-- A value without placeholders has exactly one shape: itself. -/
theorem plain_shape_eq (X : Cfg) (v : Tmpl) : plainT v = true → ∀ v2, shapeT X v v2 = true → v2 = v := by
  induction v using Tmpl.ind_t with
  | hconst a =>
    intro _ v2 h
    cases v2 <;> simp [shapeT] at h
    subst h; rfl
  | hnode l kids ih =>
    intro hp v2 h
    simp only [plainT] at hp
    cases v2 <;> simp [shapeT] at h
    rename_i l2 vs2
    obtain ⟨rfl, hs⟩ := h
    congr 1
    have hk := (plainL_iff kids).mp hp
    clear hp
    induction kids generalizing vs2 with
    | nil => cases vs2 <;> simp [shapeL] at hs ⊢
    | cons k ks ihk =>
      cases vs2 with
      | nil => simp [shapeL] at hs
      | cons x xs =>
        simp only [shapeL, Bool.and_eq_true] at hs
        rw [ih k (List.mem_cons_self ..) (hk k (List.mem_cons_self ..)) x hs.1,
          ihk (fun k' hk' => ih k' (List.mem_cons_of_mem _ hk')) xs hs.2
            (fun k' hk' => hk k' (List.mem_cons_of_mem _ hk'))]
  | hchoice tag one k cands dst so _ => intro h; simp [plainT] at h
  | hfloat tag lo hi => intro h; simp [plainT] at h
  | hcustom tag cid => intro h; simp [plainT] at h

/-! ### A decoded value is a well-formed template again -/

theorem wfL_shapeL (ts vs : List Tmpl)
    (ih : ∀ t ∈ ts, ∀ v, wfT t = true → shapeT W t v = true → wfT v = true)
    (hwf : wfL ts = true) (hs : shapeL W ts vs = true) : wfL vs = true := by
  induction ts generalizing vs with
  | nil => cases vs <;> simp [shapeL, wfL] at hs ⊢
  | cons c cs ihl =>
    cases vs with
    | nil => simp [shapeL] at hs
    | cons v vs =>
      simp only [shapeL, Bool.and_eq_true] at hs
      simp only [wfL, Bool.and_eq_true] at hwf ⊢
      exact ⟨ih c (List.mem_cons_self ..) v hwf.1 hs.1,
        ihl vs (fun c' hc' => ih c' (List.mem_cons_of_mem _ hc')) hwf.2 hs.2⟩

theorem wfT_shape (t : Tmpl) : ∀ v, wfT t = true → shapeT W t v = true → wfT v = true := by
  induction t using Tmpl.ind_t with
  | hconst a =>
    intro v _ hs
    cases v <;> simp [shapeT] at hs
    simp [wfT]
  | hnode l kids ih =>
    intro v hwf hs
    cases v <;> simp [shapeT] at hs
    rename_i l' vs
    simp only [wfT] at hwf ⊢
    exact wfL_shapeL W kids vs ih hwf hs.2
  | hchoice tag one k cands dst so ih =>
    intro v hwf hs
    simp only [wfT, Bool.and_eq_true] at hwf
    by_cases hW : W tag = true
    · simp only [shapeT, hW, if_true] at hs
      cases one with
      | true =>
        simp only [if_true] at hs
        obtain ⟨c, hc, hsc⟩ := anyShape_mem W cands v hs
        exact ih c hc v ((wfL_iff cands).mp hwf.2 c hc) hsc
      | false =>
        simp only [Bool.false_eq_true, if_false] at hs
        split at hs
        · rename_i vs
          simp only [Bool.and_eq_true, List.all_eq_true] at hs
          simp only [wfT]
          rw [wfL_iff]
          intro x hx
          obtain ⟨c, hc, hsc⟩ := anyShape_mem W cands x (hs.2 x hx)
          exact ih c hc x ((wfL_iff cands).mp hwf.2 c hc) hsc
        · cases hs
    · simp only [shapeT, hW, Bool.false_eq_true, if_false] at hs
      split at hs
      · rename_i tag' one' k' vs d' s'
        simp only [Bool.and_eq_true, decide_eq_true_eq] at hs
        obtain ⟨⟨rfl, rfl, rfl, rfl, rfl⟩, hsl⟩ := hs
        simp only [wfT, Bool.and_eq_true]
        exact ⟨hwf.1, wfL_shapeL W cands vs ih hwf.2 hsl⟩
      · cases hs
  | hfloat tag lo hi =>
    intro v _ hs
    by_cases hW : W tag = true
    · simp only [shapeT, hW, if_true] at hs
      split at hs
      · simp [wfT]
      · cases hs
    · simp only [shapeT, hW, Bool.false_eq_true, if_false] at hs
      split at hs
      · simp [wfT]
      · cases hs
  | hcustom tag cid =>
    intro v _ hs
    by_cases hW : W tag = true
    · simp only [shapeT, hW, if_true] at hs
      exact plain_wf v hs
    · simp only [shapeT, hW, Bool.false_eq_true, if_false] at hs
      split at hs
      · simp [wfT]
      · cases hs

/-! ### Two-stage decoding: the second stage stays within the shape of the original template -/

theorem anyShape_zip (cands vs : List Tmpl) (x : Tmpl)
    (ih : ∀ c ∈ cands, ∀ v v2, shapeT W c v = true → shapeT (allOf W) v v2 = true → shapeT (allOf W) c v2 = true)
    (hs : shapeL W cands vs = true) (hx : anyShape (allOf W) vs x = true) : anyShape (allOf W) cands x = true := by
  induction cands generalizing vs with
  | nil => cases vs <;> simp [shapeL, anyShape] at hs hx
  | cons c cs ihl =>
    cases vs with
    | nil => simp [shapeL] at hs
    | cons v vs =>
      simp only [shapeL, Bool.and_eq_true] at hs
      simp only [anyShape, Bool.or_eq_true] at hx ⊢
      rcases hx with hx | hx
      · exact Or.inl (ih c (List.mem_cons_self ..) v x hs.1 hx)
      · exact Or.inr (ihl vs (fun c' hc' => ih c' (List.mem_cons_of_mem _ hc')) hs.2 hx)

theorem shapeL_comp (ts vs vs2 : List Tmpl)
    (ih : ∀ c ∈ ts, ∀ v v2, shapeT W c v = true → shapeT (allOf W) v v2 = true → shapeT (allOf W) c v2 = true)
    (h1 : shapeL W ts vs = true) (h2 : shapeL (allOf W) vs vs2 = true) : shapeL (allOf W) ts vs2 = true := by
  induction ts generalizing vs vs2 with
  | nil =>
    cases vs with
    | nil => simpa [shapeL] using h2
    | cons v vs => simp [shapeL] at h1
  | cons c cs ihl =>
    cases vs with
    | nil => simp [shapeL] at h1
    | cons v vs =>
      cases vs2 with
      | nil => simp [shapeL] at h2
      | cons v2 vs2 =>
        simp only [shapeL, Bool.and_eq_true] at h1 h2 ⊢
        exact ⟨ih c (List.mem_cons_self ..) v v2 h1.1 h2.1,
          ihl vs vs2 (fun c' hc' => ih c' (List.mem_cons_of_mem _ hc')) h1.2 h2.2⟩

theorem shape_comp (t : Tmpl) : ∀ v v2, shapeT W t v = true → shapeT (allOf W) v v2 = true →
    shapeT (allOf W) t v2 = true := by
  induction t using Tmpl.ind_t with
  | hconst a =>
    intro v v2 h1 h2
    cases v <;> simp [shapeT] at h1
    subst h1; exact h2
  | hnode l kids ih =>
    intro v v2 h1 h2
    cases v <;> simp [shapeT] at h1
    rename_i l' vs
    obtain ⟨rfl, h1⟩ := h1
    cases v2 <;> simp [shapeT] at h2
    rename_i l'' vs2
    obtain ⟨rfl, h2⟩ := h2
    simp only [shapeT, decide_true, Bool.true_and]
    exact shapeL_comp W kids vs vs2 ih h1 h2
  | hchoice tag one k cands dst so ih =>
    intro v v2 h1 h2
    by_cases hW : W tag = true
    · simp only [shapeT, hW, if_true] at h1
      cases one with
      | true =>
        simp only [if_true] at h1
        obtain ⟨c, hc, hsc⟩ := anyShape_mem W cands v h1
        simp only [shapeT, allOf_sel, if_true]
        exact anyShape_of_mem (allOf W) cands c v2 hc (ih c hc v v2 hsc h2)
      | false =>
        simp only [Bool.false_eq_true, if_false] at h1
        split at h1
        · rename_i vs
          simp only [Bool.and_eq_true, decide_eq_true_eq, List.all_eq_true] at h1
          cases v2 <;> simp [shapeT] at h2
          rename_i l2 vs2
          obtain ⟨rfl, h2⟩ := h2
          have hlen := shapeL_length (allOf W) vs vs2 h2
          simp only [shapeT, allOf_sel, if_true, Bool.false_eq_true, if_false, Bool.and_eq_true,
            decide_eq_true_eq, List.all_eq_true]
          refine ⟨by omega, ?_⟩
          -- pointwise: x2 at position i has the shape of vs[i], which has the shape of a candidate
          clear hlen
          have hall : ∀ x ∈ vs, anyShape W cands x = true := h1.2
          clear h1
          induction vs generalizing vs2 with
          | nil =>
            cases vs2 with
            | nil => intro x hx; cases hx
            | cons y ys => simp [shapeL] at h2
          | cons y ys ihv =>
            cases vs2 with
            | nil => simp [shapeL] at h2
            | cons y2 ys2 =>
              simp only [shapeL, Bool.and_eq_true] at h2
              intro x hx
              rcases List.mem_cons.mp hx with rfl | hx'
              · obtain ⟨c, hc, hsc⟩ := anyShape_mem W cands y (hall y (List.mem_cons_self ..))
                exact anyShape_of_mem (allOf W) cands c x hc (ih c hc y x hsc h2.1)
              · exact ihv ys2 h2.2 (fun z hz => hall z (List.mem_cons_of_mem _ hz)) x hx'
        · cases h1
    · simp only [shapeT, hW, Bool.false_eq_true, if_false] at h1
      split at h1
      · rename_i tag' one' k' vs d' s'
        simp only [Bool.and_eq_true, decide_eq_true_eq] at h1
        obtain ⟨⟨rfl, rfl, rfl, rfl, rfl⟩, hsl⟩ := h1
        simp only [shapeT, allOf_sel, if_true] at h2 ⊢
        cases one with
        | true =>
          simp only [if_true] at h2 ⊢
          exact anyShape_zip W cands vs v2 ih hsl h2
        | false =>
          simp only [Bool.false_eq_true, if_false] at h2 ⊢
          split at h2
          · rename_i xs
            simp only [Bool.and_eq_true, List.all_eq_true] at h2 ⊢
            exact ⟨h2.1, fun x hx => anyShape_zip W cands vs x ih hsl (h2.2 x hx)⟩
          · cases h2
      · cases h1
  | hfloat tag lo hi =>
    intro v v2 h1 h2
    by_cases hW : W tag = true
    · simp only [shapeT, hW, if_true] at h1
      split at h1
      · rename_i x
        cases v2 <;> simp [shapeT] at h2
        subst h2
        simpa [shapeT, allOf_sel] using h1
      · cases h1
    · simp only [shapeT, hW, Bool.false_eq_true, if_false] at h1
      split at h1
      · simp only [decide_eq_true_eq] at h1
        obtain ⟨rfl, rfl, rfl⟩ := h1
        exact h2
      · cases h1
  | hcustom tag cid =>
    intro v v2 h1 h2
    by_cases hW : W tag = true
    · simp only [shapeT, hW, if_true] at h1
      have := plain_shape_eq (allOf W) v h1 v2 h2
      subst this
      simpa [shapeT, allOf_sel] using h1
    · simp only [shapeT, hW, Bool.false_eq_true, if_false] at h1
      split at h1
      · simp only [decide_eq_true_eq] at h1
        obtain ⟨rfl, rfl⟩ := h1
        exact h2
      · cases h1

end

end Pg.C13
