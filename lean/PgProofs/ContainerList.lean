/-
  C02 helper lemmas: the simple list operations (Impl step = Spec step).
-/
import PgProofs.Container
namespace Pg.C02
open PgList

theorem normIndex_of_oob {n : Nat} {i : Int} (h : i < -(n : Int) ∨ i ≥ n) : normIndex n i = none := by
  unfold normIndex
  split
  · split
    · omega
    · rfl
  · split
    · omega
    · rfl

theorem getItem_eq (xs : List Val) (i : Int) : PgList.getItem xs i = PyList.getItem xs i := by
  unfold PgList.getItem PyList.getItem
  by_cases h : (i < -(xs.length : Int) ∨ i ≥ xs.length)
  · simp only [h, if_true, normIndex_of_oob h]
  · simp only [h, if_false]

/-- `notifyIf` agrees with the closing `purge` of the Spec as soon as either the purge ran or there
is nothing to purge. -/
theorem notifyIf_eq_purge {nt u : Bool} {ys : List Val} (h : (nt = true ∧ u = true) ∨ Clean ys) :
    notifyIf nt u ys = purge ys := by
  unfold notifyIf onChange
  rcases h with ⟨h1, h2⟩ | h
  · simp [h1, h2]
  · split
    · rfl
    · exact (purge_eq_self h).symm

theorem clean_set {xs : List Val} {j : Nat} {v : Val} (h : Clean xs) (hv : v.isMissing = false) :
    Clean (xs.set j v) := by
  intro x hx
  rcases List.mem_or_eq_of_mem_set hx with h' | h'
  · exact h x h'
  · subst h'; exact hv

theorem good_set {xs : List Val} {j : Nat} {v : Val} (h : Good xs) (hv : GoodVal v) :
    Good (xs.set j v) := by
  intro x hx
  rcases List.mem_or_eq_of_mem_set hx with h' | h'
  · exact h x h'
  · subst h'; exact hv

theorem clean_eraseIdx {xs : List Val} (j : Nat) (h : Clean xs) : Clean (xs.eraseIdx j) :=
  h.sublist (List.eraseIdx_sublist xs j)

theorem good_eraseIdx {xs : List Val} (j : Nat) (h : Good xs) : Good (xs.eraseIdx j) :=
  h.sublist (List.eraseIdx_sublist xs j)

/-! ### set -/

theorem setItemRaw_plain_inrange {xs : List Val} {i : Int} {v : Val}
    (h : ¬ (i < -(xs.length : Int) ∨ i ≥ xs.length)) :
    ∃ j, normIndex xs.length i = some j ∧
      setItemRaw xs i (.plain v) = .ok (xs.set j (conv v), true) := by
  obtain ⟨j, hj, _⟩ := normIndex_inrange h
  refine ⟨j, hj, ?_⟩
  unfold setItemRaw
  have h1 : ¬ (i ≥ (xs.length : Int)) := by omega
  simp only [h1, false_and, if_false, hj]
  have h2 : i < (xs.length : Int) := by omega
  simp only [h2, if_true]

theorem step_set (xs : List Val) (i : Int) (v : Val) (nt : Bool) (hx : Clean xs)
    (hv : missingFree v = true) (hn : nt = true ∨ v.isMissing = false) :
    implL xs ⟨.set i v, nt⟩ = specL xs ⟨.set i v, nt⟩ := by
  simp only [implL, specL]
  by_cases h : (i < -(xs.length : Int) ∨ i ≥ xs.length)
  · simp only [h, if_true, PyList.setItem, normIndex_of_oob h]
  · obtain ⟨j, hj, hs⟩ := setItemRaw_plain_inrange (v := v) h
    simp only [h, if_false, hs, PyList.setItem, hj, conv_eq_self v hv, okNone]
    congr 1
    apply notifyIf_eq_purge
    rcases hn with hn | hn
    · exact Or.inl ⟨hn, rfl⟩
    · exact Or.inr (clean_set hx hn)

/-! ### del, pop, remove -/

theorem delItem_eq {xs : List Val} {i : Int} {nt : Bool} (hx : Clean xs) :
    PgList.delItem xs i nt = (PyList.delItem xs i).map purge := by
  unfold PgList.delItem PyList.delItem PgList.delRaw
  by_cases h : (i < -(xs.length : Int) ∨ i ≥ xs.length)
  · simp only [h, if_true, normIndex_of_oob h]; rfl
  · obtain ⟨j, hj, _⟩ := normIndex_inrange h
    simp only [h, if_false, hj, Except.map]
    congr 1
    exact notifyIf_eq_purge (Or.inr (clean_eraseIdx j hx))

theorem step_del (xs : List Val) (i : Int) (nt : Bool) (hx : Clean xs) :
    implL xs ⟨.del i, nt⟩ = specL xs ⟨.del i, nt⟩ := by
  simp only [implL, specL, delItem_eq hx]
  cases PyList.delItem xs i <;> rfl

theorem findIdx_lt {v : Val} {xs : List Val} {j : Nat} (h : findIdx v xs = some j) : j < xs.length := by
  induction xs generalizing j with
  | nil => cases h
  | cons x xs ih =>
    unfold findIdx at h
    split at h
    · injection h with h; subst h; simp
    · cases h' : findIdx v xs with
      | none => simp [h'] at h
      | some k =>
        simp [h'] at h
        subst h
        have := ih h'
        simp; omega

theorem step_remove (xs : List Val) (v : Val) (nt : Bool) (hx : Clean xs) :
    implL xs ⟨.remove v, nt⟩ = specL xs ⟨.remove v, nt⟩ := by
  simp only [implL, specL, PyList.remove]
  cases h : findIdx v xs with
  | none => rfl
  | some j =>
    have hj := findIdx_lt h
    simp only [delItem_eq hx, PyList.delItem, normIndex_nonneg (Int.natCast_nonneg j)
      (by exact_mod_cast hj), Int.toNat_natCast, Except.map]

theorem emod_norm {n : Nat} {i : Int} {j : Nat} (h : normIndex n i = some j) :
    (i + n) % n = j := by
  obtain ⟨hj, hc⟩ := normIndex_some h
  rcases hc with ⟨h0, he⟩ | ⟨h0, he⟩
  · rw [Int.add_emod_right, Int.emod_eq_of_lt h0 (by omega)]; omega
  · rw [Int.emod_eq_of_lt (by omega) (by omega)]; omega

theorem step_pop (xs : List Val) (i : Option Int) (nt : Bool) (hx : Clean xs) :
    implL xs ⟨.pop i, nt⟩ = specL xs ⟨.pop i, nt⟩ := by
  simp only [implL, specL, PyList.pop]
  by_cases h : (i.getD (-1) < -(xs.length : Int) ∨ i.getD (-1) ≥ xs.length)
  · simp only [h, if_true, normIndex_of_oob h]
  · obtain ⟨j, hj, hlt⟩ := normIndex_inrange h
    have hm := emod_norm hj
    have hjn : normIndex xs.length (j : Int) = some j := by
      rw [normIndex_nonneg (Int.natCast_nonneg j) (by exact_mod_cast hlt)]; simp
    simp only [h, if_false, hj, hm, getItem_eq, PyList.getItem, hjn, delItem_eq hx, PyList.delItem]
    have : xs[j]? = some xs[j] := List.getElem?_eq_getElem hlt
    simp only [this, Except.map]

/-! ### append, insert, extend -/

theorem pyInsert_eq (xs : List Val) (i : Int) (v : Val) :
    ∃ j, j ≤ xs.length ∧ pyInsert xs i v = xs.take j ++ v :: xs.drop j := by
  unfold pyInsert
  refine ⟨_, ?_, rfl⟩
  split <;> split <;> omega

theorem pyInsert_ge {xs : List Val} {i : Int} (v : Val) (h : i ≥ xs.length) :
    pyInsert xs i v = xs ++ [v] := by
  unfold pyInsert
  have h1 : ¬ i < 0 := by omega
  simp only [h1, if_false]
  split
  · simp
  · have : i = xs.length := by omega
    subst this
    simp

theorem clean_pyInsert {xs : List Val} {i : Int} {v : Val} (h : Clean xs) (hv : v.isMissing = false) :
    Clean (pyInsert xs i v) := by
  obtain ⟨j, _, he⟩ := pyInsert_eq xs i v
  rw [he]
  apply Clean.append (h.sublist (List.take_sublist j xs))
  intro x hx
  rcases List.mem_cons.mp hx with h' | h'
  · subst h'; exact hv
  · exact h x ((List.drop_sublist j xs).subset h')

theorem good_pyInsert {xs : List Val} {i : Int} {v : Val} (h : Good xs) (hv : GoodVal v) :
    Good (pyInsert xs i v) := by
  obtain ⟨j, _, he⟩ := pyInsert_eq xs i v
  rw [he]
  apply Good.append (h.sublist (List.take_sublist j xs))
  intro x hx
  rcases List.mem_cons.mp hx with h' | h'
  · subst h'; exact hv
  · exact h x ((List.drop_sublist j xs).subset h')

theorem setItemRaw_append_missing (xs : List Val) :
    setItemRaw xs xs.length (.plain .missing) = .ok (xs, false) := by
  unfold setItemRaw
  simp [Arg.isPlainMissing, Val.isMissing]

theorem setItemRaw_append {xs : List Val} {v : Val} (hv : v.isMissing = false) :
    setItemRaw xs xs.length (.plain v) = .ok (xs ++ [conv v], true) := by
  unfold setItemRaw
  simp [Arg.isPlainMissing, hv]

theorem purge_snoc_missing (xs : List Val) : purge (xs ++ [Val.missing]) = purge xs := by
  simp [purge, Val.isMissing]

theorem isMissing_eq_true {v : Val} (h : v.isMissing = true) : v = .missing := by
  cases v <;> first | rfl | simp [Val.isMissing] at h

theorem step_append (xs : List Val) (v : Val) (nt : Bool) (hx : Clean xs) (hv : missingFree v = true) :
    implL xs ⟨.append v, nt⟩ = specL xs ⟨.append v, nt⟩ := by
  simp only [implL, specL]
  cases hm : v.isMissing with
  | true =>
    have := isMissing_eq_true hm
    subst this
    simp only [setItemRaw_append_missing, okNone, purge_snoc_missing]
    congr 1
    exact notifyIf_eq_purge (Or.inr hx)
  | false =>
    simp only [setItemRaw_append hm, okNone, conv_eq_self v hv]
    congr 1
    apply notifyIf_eq_purge
    right
    apply hx.append
    intro x h
    simp at h
    subst h
    exact hm

theorem setItemRaw_ins (xs : List Val) (i : Int) (v : Val) :
    setItemRaw xs i (.ins v) = .ok (pyInsert xs i (conv v), true) := by
  unfold setItemRaw
  simp only [Arg.isPlainMissing, Bool.false_eq_true, and_false, if_false]
  by_cases h : i ≥ (xs.length : Int)
  · simp only [h, if_true, Int.lt_irrefl, if_false, pyInsert_ge _ h]
  · have : i < (xs.length : Int) := by omega
    simp only [h, if_false, this, if_true]

theorem step_insert (xs : List Val) (i : Int) (v : Val) (nt : Bool) (hx : Clean xs)
    (hv : missingFree v = true) (hn : nt = true ∨ v.isMissing = false) :
    implL xs ⟨.insert i v, nt⟩ = specL xs ⟨.insert i v, nt⟩ := by
  simp only [implL, specL, setItemRaw_ins, okNone, conv_eq_self v hv]
  congr 1
  apply notifyIf_eq_purge
  rcases hn with hn | hn
  · exact Or.inl ⟨hn, rfl⟩
  · exact Or.inr (clean_pyInsert hx hn)

/-- `extend` through the primitive appends the non-`MISSING` values. -/
theorem extendRaw_eq (xs : List Val) (u : Bool) (vs : List Val)
    (hv : ∀ v ∈ vs, missingFree v = true) :
    extendRaw xs u vs = (xs ++ purge vs, u || !(purge vs).isEmpty) := by
  induction vs generalizing xs u with
  | nil => simp [extendRaw, purge]
  | cons v vs ih =>
    have hv' : ∀ w ∈ vs, missingFree w = true := fun w hw => hv w (List.mem_cons_of_mem _ hw)
    unfold extendRaw
    cases hm : v.isMissing with
    | true =>
      have := isMissing_eq_true hm
      subst this
      simp only [setItemRaw_append_missing, ih xs _ hv']
      simp [purge, Val.isMissing]
    | false =>
      simp only [setItemRaw_append hm, ih _ _ hv', conv_eq_self v (hv v (List.mem_cons_self))]
      simp [purge, hm]

theorem extend_eq (xs vs : List Val) (nt : Bool) (hx : Clean xs)
    (hv : ∀ v ∈ vs, missingFree v = true) :
    extend xs vs nt = purge (xs ++ vs) := by
  unfold extend
  simp only [extendRaw_eq xs false vs hv]
  rw [purge_append, purge_eq_self hx]
  rw [notifyIf_eq_purge (Or.inr (hx.append (purge_clean vs)))]
  rw [purge_append, purge_eq_self hx, purge_idem]

theorem step_extend (xs vs : List Val) (nt : Bool) (hx : Clean xs)
    (hv : ∀ v ∈ vs, missingFree v = true) :
    implL xs ⟨.extend vs, nt⟩ = specL xs ⟨.extend vs, nt⟩ := by
  simp only [implL, specL, extend_eq xs vs nt hx hv]

theorem step_iadd (xs vs : List Val) (nt : Bool) (hx : Clean xs)
    (hv : ∀ v ∈ vs, missingFree v = true) :
    implL xs ⟨.iadd vs, nt⟩ = specL xs ⟨.iadd vs, nt⟩ := by
  simp only [implL, specL, extend_eq xs vs nt hx hv]

/-! ### copy, add, mul, imul -/

theorem good_missingFree {xs : List Val} (h : Good xs) : ∀ v ∈ xs, missingFree v = true :=
  fun v hv => (h v hv).2

theorem construct_eq {xs : List Val} (h : Good xs) : construct xs = xs := by
  unfold construct
  rw [extendRaw_eq [] false xs (good_missingFree h)]
  simp [purge_eq_self h.clean]

theorem step_copy (xs : List Val) (nt : Bool) (hx : Good xs) :
    implL xs ⟨.copy, nt⟩ = specL xs ⟨.copy, nt⟩ := by
  simp only [implL, specL, construct_eq hx]

theorem step_add (xs vs : List Val) (nt : Bool) (hx : Good xs)
    (hv : ∀ v ∈ vs, missingFree v = true) :
    implL xs ⟨.add vs, nt⟩ = specL xs ⟨.add vs, nt⟩ := by
  simp only [implL, specL, construct_eq hx, extend_eq xs vs nt hx.clean hv]

theorem clean_repeatList {xs : List Val} (h : Clean xs) (k : Nat) : Clean (repeatList k xs) := by
  induction k with
  | zero => intro x hx; cases hx
  | succ k ih => exact h.append ih

theorem good_repeatList {xs : List Val} (h : Good xs) (k : Nat) : Good (repeatList k xs) := by
  induction k with
  | zero => exact Good.nil
  | succ k ih => exact h.append ih

theorem repeatList_snoc (xs : List Val) (k : Nat) : repeatList k xs ++ xs = xs ++ repeatList k xs := by
  induction k with
  | zero => simp [repeatList]
  | succ k ih => simp only [repeatList, List.append_assoc, ih]

theorem mul_fold (xs : List Val) (nt : Bool) (hx : Good xs) (k : Nat) :
    (List.range k).foldl (fun acc _ => extend acc xs nt) [] = repeatList k xs := by
  induction k with
  | zero => rfl
  | succ k ih =>
    rw [List.range_succ, List.foldl_append, ih]
    simp only [List.foldl_cons, List.foldl_nil]
    rw [extend_eq _ xs nt (clean_repeatList hx.clean k) (good_missingFree hx)]
    rw [purge_eq_self ((clean_repeatList hx.clean k).append hx.clean)]
    rw [repeatList_snoc]
    rfl

theorem step_mul (xs : List Val) (k : Int) (nt : Bool) (hx : Good xs) :
    implL xs ⟨.mul k, nt⟩ = specL xs ⟨.mul k, nt⟩ := by
  simp only [implL, specL, mul_fold xs nt hx, PyList.mul]

theorem step_imul (xs : List Val) (k : Int) (nt : Bool) (hx : Good xs) :
    implL xs ⟨.imul k, nt⟩ = specL xs ⟨.imul k, nt⟩ := by
  simp only [implL, specL, PyList.mul]
  by_cases h : k ≤ 0
  · have : k.toNat = 0 := by omega
    simp only [h, if_true, this, repeatList, okNone]
    rfl
  · simp only [h, if_false, okNone]
    congr 1
    rw [extend_eq _ _ nt hx.clean (good_missingFree (good_repeatList hx _))]
    have : k.toNat = (k.toNat - 1) + 1 := by omega
    conv => rhs; rw [this]
    rfl

/-! ### clear, sort, reverse -/

theorem mem_insertSortedBy {lt : Val → Val → Bool} {a x : Val} {ys : List Val}
    (h : x ∈ insertSortedBy lt a ys) : x = a ∨ x ∈ ys := by
  induction ys with
  | nil => simp [insertSortedBy] at h; exact Or.inl h
  | cons y ys ih =>
    unfold insertSortedBy at h
    split at h
    · simpa using h
    · rcases List.mem_cons.mp h with h | h
      · exact Or.inr (by simp [h])
      · rcases ih h with h | h
        · exact Or.inl h
        · exact Or.inr (List.mem_cons_of_mem _ h)

theorem mem_foldl_insertSortedBy {lt : Val → Val → Bool} {x : Val} (xs acc : List Val)
    (h : x ∈ xs.foldl (fun acc x => insertSortedBy lt x acc) acc) : x ∈ acc ∨ x ∈ xs := by
  induction xs generalizing acc with
  | nil => exact Or.inl h
  | cons y ys ih =>
    rcases ih _ h with h | h
    · rcases mem_insertSortedBy h with h | h
      · exact Or.inr (by simp [h])
      · exact Or.inl h
    · exact Or.inr (List.mem_cons_of_mem _ h)

theorem mem_insertionSortBy {lt : Val → Val → Bool} {x : Val} {xs : List Val}
    (h : x ∈ insertionSortBy lt xs) : x ∈ xs := by
  rcases mem_foldl_insertSortedBy xs [] h with h | h
  · cases h
  · exact h

theorem mem_pySort {xs ys : List Val} {rev : Bool} {key : SortKey} (h : pySort xs rev key = .ok ys) :
    ∀ x ∈ ys, x ∈ xs := by
  unfold pySort at h
  split at h
  · cases h
  · split at h
    · injection h with h; subst h; exact fun _ hx => hx
    · simp only [] at h
      split at h
      · cases h
      · split at h
        · injection h with h; subst h
          intro x hx
          have := mem_insertionSortBy (List.mem_reverse.mp hx)
          exact List.mem_reverse.mp this
        · injection h with h; subst h
          exact fun _ hx => mem_insertionSortBy hx

theorem step_sort (xs : List Val) (rev : Bool) (key : SortKey) (nt : Bool) (hx : Clean xs) :
    implL xs ⟨.sort rev key, nt⟩ = specL xs ⟨.sort rev key, nt⟩ := by
  simp only [implL, specL]
  cases h : pySort xs rev key with
  | error e => rfl
  | ok ys =>
    simp only [okNone]
    rw [purge_eq_self (fun x hx' => hx x (mem_pySort h x hx'))]

theorem step_reverse (xs : List Val) (nt : Bool) (hx : Clean xs) :
    implL xs ⟨.reverse, nt⟩ = specL xs ⟨.reverse, nt⟩ := by
  simp only [implL, specL, okNone]
  rw [purge_eq_self (fun x hx' => hx x (List.mem_reverse.mp hx'))]

end Pg.C02
