/- C14 — the mutators keep validity (Uniform: redraw under constraints, re-sort; Swap). -/
import PgProofs.EvoPrims
namespace Pg.C14

/-! ## List facts -/

def entryOk (cands : List GSpec) : DNA → Bool
  | .sub _ v d => match cands[v]? with | some c => valid c d | none => false
  | _ => false

theorem validSubs_eq_all (cands : List GSpec) : ∀ subs, validSubs cands subs = subs.all (entryOk cands) := by
  intro subs
  induction subs with
  | nil => simp [validSubs]
  | cons d rest ih =>
    cases d with
    | sub b v d =>
      simp only [validSubs, entryOk, List.all_cons, ih]
      cases cands[v]? <;> rfl
    | space _ => simp [validSubs, entryOk]
    | choices _ => simp [validSubs, entryOk]
    | float _ => simp [validSubs, entryOk]

theorem nodupNat_iff (l : List Nat) : nodupNat l = true ↔ l.Nodup := by
  induction l with
  | nil => simp [nodupNat]
  | cons a t ih => simp [nodupNat, ih, List.nodup_cons]

theorem sortedNat_of_pairwise : ∀ (l : List Nat), l.Pairwise (· ≤ ·) → sortedNat l = true := by
  intro l
  induction l with
  | nil => intro _; simp [sortedNat]
  | cons a t ih =>
    intro h
    cases t with
    | nil => simp [sortedNat]
    | cons b t' =>
      rw [List.pairwise_cons] at h
      simp only [sortedNat, Bool.and_eq_true, decide_eq_true_eq]
      exact ⟨h.1 b List.mem_cons_self, ih h.2⟩

theorem sortedNat_sortNats (l : List Nat) : sortedNat (sortNats l) = true := by
  apply sortedNat_of_pairwise
  have := List.pairwise_mergeSort (le := leNat)
    (by intro a b c; simp only [leNat, decide_eq_true_eq]; omega)
    (by intro a b; simp only [leNat, Bool.or_eq_true, decide_eq_true_eq]; omega) l
  unfold sortNats
  exact this.imp (by intro a b h; simpa [leNat] using h)

theorem sortedNat_sortSubs (l : List DNA) : sortedNat ((sortSubs l).map subVal) = true := by
  apply sortedNat_of_pairwise
  have := List.pairwise_mergeSort (le := fun a b => leNat (subVal a) (subVal b))
    (by intro a b c; simp only [leNat, decide_eq_true_eq]; omega)
    (by intro a b; simp only [leNat, Bool.or_eq_true, decide_eq_true_eq]; omega) l
  unfold sortSubs
  rw [List.pairwise_map]
  exact this.imp (by intro a b h; simpa [leNat] using h)

theorem nodup_set_of_not_mem {l : List Nat} (h : l.Nodup) {x : Nat} (hx : x ∉ l) :
    ∀ j, (l.set j x).Nodup := by
  induction l with
  | nil => intro j; simp
  | cons a t ih =>
    intro j
    rw [List.nodup_cons] at h
    cases j with
    | zero =>
      simp only [List.set_cons_zero, List.nodup_cons]
      exact ⟨fun hm => hx (List.mem_cons_of_mem _ hm), h.2⟩
    | succ j =>
      simp only [List.set_cons_succ, List.nodup_cons]
      refine ⟨?_, ih h.2 (fun hm => hx (List.mem_cons_of_mem _ hm)) j⟩
      intro hm
      rcases List.mem_or_eq_of_mem_set hm with hm | hm
      · exact h.1 hm
      · exact hx (by rw [hm]; exact List.mem_cons_self)

theorem map_subVal_realign : ∀ (l : List DNA) (i : Nat), (realign i l).map subVal = l.map subVal := by
  intro l
  induction l with
  | nil => intro i; simp [realign]
  | cons d rest ih => intro i; cases d <;> simp [realign, subVal, ih]

theorem length_realign : ∀ (l : List DNA) (i : Nat), (realign i l).length = l.length := by
  intro l
  induction l with
  | nil => intro i; simp [realign]
  | cons d rest ih => intro i; cases d <;> simp [realign, ih]

theorem all_entryOk_realign (cands : List GSpec) : ∀ (l : List DNA) (i : Nat),
    (realign i l).all (entryOk cands) = l.all (entryOk cands) := by
  intro l
  induction l with
  | nil => intro i; simp [realign]
  | cons d rest ih => intro i; cases d <;> simp [realign, entryOk, ih]

/-- what `valid` says about a `Choices` node, in list terms. -/
theorem valid_choices_iff (k : Nat) (cands : List GSpec) (dist srt : Bool) (subs : List DNA) :
    valid (.choices k cands dist srt) (.choices subs) = true ↔
      subs.length = k ∧ (∀ s ∈ subs, entryOk cands s = true) ∧
      (dist = true → (subs.map subVal).Nodup) ∧ (srt = true → sortedNat (subs.map subVal) = true) := by
  simp only [valid, validSubs_eq_all, Bool.and_eq_true, decide_eq_true_eq, List.all_eq_true,
    Bool.or_eq_true, Bool.not_eq_true']
  constructor
  · rintro ⟨⟨⟨h1, h2⟩, h3⟩, h4⟩
    refine ⟨h1, h2, ?_, ?_⟩
    · intro hd; rcases h3 with h3 | h3
      · rw [hd] at h3; cases h3
      · exact (nodupNat_iff _).mp h3
    · intro hs; rcases h4 with h4 | h4
      · rw [hs] at h4; cases h4
      · exact h4
  · rintro ⟨h1, h2, h3, h4⟩
    refine ⟨⟨⟨h1, h2⟩, ?_⟩, ?_⟩
    · cases dist with
      | false => exact Or.inl rfl
      | true => exact Or.inr ((nodupNat_iff _).mpr (h3 rfl))
    · cases srt with
      | false => exact Or.inl rfl
      | true => exact Or.inr (h4 rfl)

/-! ## random_dna yields valid DNA and keeps the uid counter -/

theorem validElems_of_all2 : ∀ {es : List GSpec} {ds : List DNA}, All2 (fun e d => valid e d = true) es ds →
    validElems es ds = true := by
  intro es ds h
  induction h with
  | nil => simp [validElems]
  | cons hr _ ih => simp [validElems, hr, ih]

theorem mkSubs_spec (cands : List GSpec) : ∀ {vs : List Nat} {ds : List DNA} (i : Nat),
    All2 (fun v d => ∃ c, cands[v]? = some c ∧ valid c d = true) vs ds →
    (∀ s ∈ mkSubs i vs ds, entryOk cands s = true) ∧ (mkSubs i vs ds).map subVal = vs ∧
    (mkSubs i vs ds).length = vs.length := by
  intro vs ds i h
  induction h generalizing i with
  | nil => simp [mkSubs]
  | cons hr _ ih =>
    obtain ⟨c, hc, hv⟩ := hr
    obtain ⟨h1, h2, h3⟩ := ih (i + 1)
    refine ⟨?_, by simp [mkSubs, subVal, h2], by simp [mkSubs, h3]⟩
    intro s hs
    simp only [mkSubs, List.mem_cons] at hs
    rcases hs with rfl | hs
    · simp [entryOk, hc, hv]
    · exact h1 s hs

theorem randomDna_spec : ∀ (fuel : Nat) (g : GSpec) (s : St) (d : DNA) (s' : St),
    randomDna fuel g s = .ok (d, s') → valid g d = true ∧ s'.nextUid = s.nextUid := by
  intro fuel
  induction fuel with
  | zero => intro g s d s' h; simp only [randomDna] at h; exact ((fail_ok _ _ _).mp h).elim
  | succ f ih =>
    intro g s d s' h
    cases g with
    | space es =>
      simp only [randomDna] at h
      rw [bind_ok] at h
      obtain ⟨ds, s1, h1, h2⟩ := h
      rw [pure_ok] at h2
      obtain ⟨rfl, rfl⟩ := h2
      obtain ⟨hf, hu⟩ := forEachM_spec (randomDna f) (fun t => t.nextUid = s.nextUid)
        (fun e d => valid e d = true) es
        (by intro e _ t b t' ht hb
            obtain ⟨hv, hu⟩ := ih e t b t' hb
            exact ⟨hv, by rw [hu, ht]⟩) s ds s1 rfl h1
      exact ⟨by simp only [valid]; exact validElems_of_all2 hf, hu⟩
    | float lo hi =>
      simp only [randomDna] at h
      rw [bind_ok] at h
      obtain ⟨q, s1, h1, h2⟩ := h
      rw [pure_ok] at h2
      obtain ⟨rfl, rfl⟩ := h2
      obtain ⟨hlo, hhi, hu⟩ := nextUniform_spec h1
      exact ⟨by simp [valid, hlo, hhi], hu⟩
    | choices k cands dist srt =>
      -- the continuation after the values have been drawn
      have tail : ∀ (vs : List Nat) (s1 : St), vs.length = k → (dist = true → vs.Nodup) →
          s1.nextUid = s.nextUid →
          (do let ds ← forEachM (fun v => match cands[v]? with
                                  | some c => randomDna f c
                                  | none => fail .desync) (if srt = true then sortNats vs else vs)
              pure (DNA.choices (mkSubs 0 (if srt = true then sortNats vs else vs) ds)) : M DNA) s1
            = .ok (d, s') →
          valid (.choices k cands dist srt) d = true ∧ s'.nextUid = s.nextUid := by
        intro vs s1 hlen hnd hu1 h2
        rw [bind_ok] at h2
        obtain ⟨ds, s2, h3, h4⟩ := h2
        rw [pure_ok] at h4
        obtain ⟨rfl, rfl⟩ := h4
        obtain ⟨hf, hu2⟩ := forEachM_spec
          (fun v => match cands[v]? with | some c => randomDna f c | none => fail .desync)
          (fun t => t.nextUid = s.nextUid)
          (fun v d => ∃ c, cands[v]? = some c ∧ valid c d = true) _
          (by intro v _ t b t' ht hb
              cases hc : cands[v]? with
              | none => rw [hc] at hb; exact ((fail_ok _ _ _).mp hb).elim
              | some c =>
                rw [hc] at hb
                obtain ⟨hv, hu⟩ := ih c t b t' hb
                exact ⟨⟨c, rfl, hv⟩, by rw [hu, ht]⟩) s1 ds s2 hu1 h3
        obtain ⟨he, hm, hl⟩ := mkSubs_spec cands 0 hf
        refine ⟨?_, hu2⟩
        rw [valid_choices_iff]
        refine ⟨?_, he, ?_, ?_⟩
        · rw [hl]; cases srt <;> simp [sortNats, hlen]
        · intro hd
          rw [hm]
          cases srt with
          | false => simpa using hnd hd
          | true =>
            simp only [if_true]
            exact (List.Perm.nodup_iff (List.mergeSort_perm vs leNat)).mpr (hnd hd)
        · intro hs
          rw [hm, hs]
          simp only [if_true]
          exact sortedNat_sortNats vs
      cases dist with
      | true =>
        simp only [randomDna, if_true] at h
        rw [bind_ok] at h
        obtain ⟨vs, s1, h1, h2⟩ := h
        obtain ⟨hl, _, hn, hu⟩ := nextSample_spec h1
        exact tail vs s1 hl (fun _ => (nodupNat_iff _).mp hn) hu h2
      | false =>
        simp only [randomDna, Bool.false_eq_true, if_false] at h
        rw [bind_ok] at h
        obtain ⟨vs, s1, h1, h2⟩ := h
        obtain ⟨hl, _, hu⟩ := nextIdxs_spec _ _ _ _ _ _ h1
        exact tail vs s1 (by simp [hl]) (fun h => by cases h) hu h2

/-! ## Mutation of one entry of a `Choices` node -/

theorem finish_valid (k : Nat) (cands : List GSpec) (dist srt : Bool) (l : List DNA)
    (hlen : l.length = k) (hall : ∀ s ∈ l, entryOk cands s = true)
    (hnd : dist = true → (l.map subVal).Nodup)
    (hsorted : srt = true → ¬ (decide (k > 1) = true) → sortedNat (l.map subVal) = true) :
    valid (.choices k cands dist srt)
      (if k > 1 && srt then .choices (realign 0 (sortSubs l)) else .choices l) = true := by
  by_cases hc : (decide (k > 1) && srt) = true
  · rw [if_pos hc]
    rw [valid_choices_iff]
    have hperm : (sortSubs l).Perm l := List.mergeSort_perm l _
    refine ⟨by rw [length_realign]; simp [sortSubs, hlen], ?_, ?_, ?_⟩
    · have : (realign 0 (sortSubs l)).all (entryOk cands) = true := by
        rw [all_entryOk_realign, List.all_eq_true]
        intro s hs
        exact hall s (hperm.mem_iff.mp hs)
      exact List.all_eq_true.mp this
    · intro hd
      rw [map_subVal_realign]
      exact (List.Perm.nodup_iff (hperm.map subVal)).mpr (hnd hd)
    · intro _
      rw [map_subVal_realign]
      exact sortedNat_sortSubs l
  · rw [if_neg hc]
    rw [valid_choices_iff]
    refine ⟨hlen, hall, hnd, ?_⟩
    intro hs
    apply hsorted hs
    intro hk
    apply hc
    simp [hk, hs]

theorem mutEntry_spec (fuel k : Nat) (cands : List GSpec) (dist srt : Bool) (subs : List DNA) (j : Nat)
    (s : St) (d : DNA) (s' : St)
    (hv : valid (.choices k cands dist srt) (.choices subs) = true)
    (h : mutEntry fuel k cands dist srt subs j s = .ok (d, s')) :
    valid (.choices k cands dist srt) d = true ∧ s'.nextUid = s.nextUid := by
  obtain ⟨hlen, hall, hnd, hsrt⟩ := (valid_choices_iff _ _ _ _ _).mp hv
  unfold mutEntry at h
  simp only [] at h
  cases hj : subs[j]? with
  | none => rw [hj] at h; exact ((fail_ok _ _ _).mp h).elim
  | some e =>
    rw [hj] at h
    simp only [] at h
    by_cases hk1 : (k == 1) = true
    · rw [if_pos hk1] at h
      exact randomDna_spec _ _ _ _ _ h
    · rw [if_neg hk1] at h
      have hk : ¬ k = 1 := by simpa using hk1
      -- common tail: replacing entry j by a valid entry whose value keeps distinctness
      have tail : ∀ (nv : Nat) (nd : DNA) (c : GSpec), cands[nv]? = some c → valid c nd = true →
          (dist = true → nv ∉ subs.map subVal) →
          valid (.choices k cands dist srt)
            (if k > 1 && srt then .choices (realign 0 (sortSubs (subs.set j (.sub (subBelief e) nv nd))))
             else .choices (subs.set j (.sub (subBelief e) nv nd))) = true := by
        intro nv nd c hc hvd hfree
        apply finish_valid
        · simp [hlen]
        · intro s0 hs0
          rcases List.mem_or_eq_of_mem_set hs0 with hs0 | hs0
          · exact hall s0 hs0
          · rw [hs0]; simp [entryOk, hc, hvd]
        · intro hd
          rw [List.map_set]
          exact nodup_set_of_not_mem (hnd hd) (hfree hd) j
        · intro hs hk'
          -- k ≤ 1 and k ≠ 1: the list is empty
          have : k = 0 := by
            have : ¬ k > 1 := by simpa using hk'
            omega
          have hnil : subs = [] := by
            cases subs with
            | nil => rfl
            | cons a t => simp [this] at hlen
          rw [hnil]; simp [sortedNat]
      by_cases hd : dist = true
      · rw [if_pos hd] at h
        split at h
        · rw [pure_ok] at h
          obtain ⟨rfl, rfl⟩ := h
          exact ⟨hv, rfl⟩
        · rw [bind_ok] at h
          obtain ⟨r, s1, h1, h2⟩ := h
          obtain ⟨_, hu1⟩ := nextIdx_spec h1
          cases hfr : ((List.range cands.length).filter
              (fun c => !(subs.map subVal).contains c))[r]? with
          | none => rw [hfr] at h2; exact ((fail_ok _ _ _).mp h2).elim
          | some nv =>
            rw [hfr] at h2
            simp only [] at h2
            have hmem := List.mem_of_getElem? hfr
            rw [List.mem_filter] at hmem
            cases hc : cands[nv]? with
            | none => rw [hc] at h2; exact ((fail_ok _ _ _).mp h2).elim
            | some c =>
              rw [hc] at h2
              simp only [] at h2
              rw [bind_ok] at h2
              obtain ⟨nd, s2, h3, h4⟩ := h2
              rw [pure_ok] at h4
              obtain ⟨rfl, rfl⟩ := h4
              obtain ⟨hvd, hu2⟩ := randomDna_spec _ _ _ _ _ h3
              refine ⟨tail nv nd c hc hvd ?_, by rw [hu2, hu1]⟩
              intro _
              have := hmem.2
              simpa using this
      · rw [if_neg hd] at h
        have hdf : dist = false := by cases dist <;> simp_all
        rw [bind_ok] at h
        obtain ⟨nv, s1, h1, h2⟩ := h
        obtain ⟨_, hu1⟩ := nextIdx_spec h1
        cases hc : cands[nv]? with
        | none => rw [hc] at h2; exact ((fail_ok _ _ _).mp h2).elim
        | some c =>
          rw [hc] at h2
          simp only [] at h2
          rw [bind_ok] at h2
          obtain ⟨nd, s2, h3, h4⟩ := h2
          rw [pure_ok] at h4
          obtain ⟨rfl, rfl⟩ := h4
          obtain ⟨hvd, hu2⟩ := randomDna_spec _ _ _ _ _ h3
          exact ⟨tail nv nd c hc hvd (fun hd' => by rw [hdf] at hd'; cases hd'), by rw [hu2, hu1]⟩

end Pg.C14

namespace Pg.C14

/-! ## `Uniform.mutate`: the walk to the chosen node -/

mutual
  theorem mutNode_spec (w : Where) (fuel : Nat) : ∀ (d : DNA) (g : GSpec) (coll : Bool) (i : Nat) (s : St) (d' : DNA) (s' : St),
      valid g d = true → mutNode w fuel g coll d i s = .ok (d', s') →
      valid g d' = true ∧ s'.nextUid = s.nextUid
    | .space ds, g, coll, i, s, d', s', hv, h => by
        cases g with
        | space es =>
          simp only [mutNode] at h
          rw [bind_ok] at h
          obtain ⟨ds', s1, h1, h2⟩ := h
          rw [pure_ok] at h2
          obtain ⟨rfl, rfl⟩ := h2
          simp only [valid] at hv
          obtain ⟨hv', hu⟩ := mutElems_spec w fuel ds es _ i s ds' s1 hv h1
          exact ⟨by simp only [valid]; exact hv', hu⟩
        | choices k cands dist srt => simp [valid] at hv
        | float lo hi => simp [valid] at hv
    | .choices subs, g, coll, i, s, d', s', hv, h => by
        cases g with
        | space es => simp [valid] at hv
        | float lo hi => simp [valid] at hv
        | choices k cands dist srt =>
          simp only [mutNode] at h
          split at h
          · exact randomDna_spec _ _ _ _ _ h
          · rw [bind_ok] at h
            obtain ⟨r, s1, h1, h2⟩ := h
            obtain ⟨hlen, hall, hnd, hsrt⟩ := (valid_choices_iff _ _ _ _ _).mp hv
            have hvs : validSubs cands subs = true := by
              rw [validSubs_eq_all, List.all_eq_true]; exact hall
            obtain ⟨hr, hu1⟩ := mutSubs_spec w fuel k subs cands _ s r s1 hvs h1
            cases r with
            | inl l =>
              simp only [] at h2 hr
              rw [pure_ok] at h2
              obtain ⟨rfl, rfl⟩ := h2
              obtain ⟨hvl, hvals, hll⟩ := hr
              refine ⟨?_, hu1⟩
              rw [valid_choices_iff]
              refine ⟨by rw [hll]; exact hlen, ?_, by rw [hvals]; exact hnd, by rw [hvals]; exact hsrt⟩
              rw [validSubs_eq_all, List.all_eq_true] at hvl
              exact hvl
            | inr j =>
              simp only [] at h2
              obtain ⟨hv', hu2⟩ := mutEntry_spec _ _ _ _ _ _ _ _ _ _ hv h2
              exact ⟨hv', by rw [hu2, hu1]⟩
    | .float v, g, coll, i, s, d', s', hv, h => by
        cases g with
        | space es => simp [valid] at hv
        | choices k cands dist srt => simp [valid] at hv
        | float lo hi =>
          simp only [mutNode] at h
          exact randomDna_spec _ _ _ _ _ h
    | .sub b v d, g, coll, i, s, d', s', hv, h => by
        cases g <;> simp [valid] at hv
  theorem mutElems_spec (w : Where) (fuel : Nat) : ∀ (ds : List DNA) (es : List GSpec) (c : Bool) (i : Nat) (s : St)
      (ds' : List DNA) (s' : St),
      validElems es ds = true → mutElems w fuel es c ds i s = .ok (ds', s') →
      validElems es ds' = true ∧ s'.nextUid = s.nextUid
    | [], es, c, i, s, ds', s', hv, h => by
        cases es <;> (simp only [mutElems] at h; exact ((fail_ok _ _ _).mp h).elim)
    | d :: ds, es, c, i, s, ds', s', hv, h => by
        cases es with
        | nil => simp only [mutElems] at h; exact ((fail_ok _ _ _).mp h).elim
        | cons e es =>
          simp only [validElems, Bool.and_eq_true] at hv
          simp only [mutElems] at h
          split at h
          · rw [bind_ok] at h
            obtain ⟨d1, s1, h1, h2⟩ := h
            rw [pure_ok] at h2
            obtain ⟨rfl, rfl⟩ := h2
            obtain ⟨hv1, hu⟩ := mutNode_spec w fuel d e c i s d1 s1 hv.1 h1
            exact ⟨by simp only [validElems, Bool.and_eq_true]; exact ⟨hv1, hv.2⟩, hu⟩
          · rw [bind_ok] at h
            obtain ⟨ds1, s1, h1, h2⟩ := h
            rw [pure_ok] at h2
            obtain ⟨rfl, rfl⟩ := h2
            obtain ⟨hv1, hu⟩ := mutElems_spec w fuel ds es c _ s ds1 s1 hv.2 h1
            exact ⟨by simp only [validElems, Bool.and_eq_true]; exact ⟨hv.1, hv1⟩, hu⟩
  theorem mutSubs_spec (w : Where) (fuel k : Nat) : ∀ (subs : List DNA) (cands : List GSpec) (i : Nat) (s : St)
      (r : List DNA ⊕ Nat) (s' : St),
      validSubs cands subs = true → mutSubs w fuel k cands subs i s = .ok (r, s') →
      (match r with
       | .inl l => validSubs cands l = true ∧ l.map subVal = subs.map subVal ∧ l.length = subs.length
       | .inr _ => True) ∧ s'.nextUid = s.nextUid
    | [], cands, i, s, r, s', hv, h => by
        simp only [mutSubs] at h; exact ((fail_ok _ _ _).mp h).elim
    | .space _ :: rest, cands, i, s, r, s', hv, h => by simp [validSubs] at hv
    | .choices _ :: rest, cands, i, s, r, s', hv, h => by simp [validSubs] at hv
    | .float _ :: rest, cands, i, s, r, s', hv, h => by simp [validSubs] at hv
    | .sub b v d :: rest, cands, i, s, r, s', hv, h => by
        simp only [validSubs, Bool.and_eq_true] at hv
        simp only [mutSubs] at h
        split at h
        · rw [pure_ok] at h
          obtain ⟨rfl, rfl⟩ := h
          exact ⟨trivial, rfl⟩
        · cases hc : cands[v]? with
          | none => rw [hc] at h; exact ((fail_ok _ _ _).mp h).elim
          | some c =>
            rw [hc] at h hv
            simp only [] at h hv
            generalize (if w (entryInfo k b v) = true then i - 1 else i) = i1 at h
            split at h
            · rw [bind_ok] at h
              obtain ⟨d1, s1, h1, h2⟩ := h
              rw [pure_ok] at h2
              obtain ⟨rfl, rfl⟩ := h2
              obtain ⟨hv1, hu⟩ := mutNode_spec w fuel d c true _ s d1 s1 hv.1 h1
              refine ⟨?_, hu⟩
              simp only [validSubs, hc, hv1, hv.2, Bool.and_self, List.map_cons, subVal, List.length_cons,
                and_self]
            · rw [bind_ok] at h
              obtain ⟨r1, s1, h1, h2⟩ := h
              obtain ⟨hr, hu⟩ := mutSubs_spec w fuel k rest cands _ s r1 s1 hv.2 h1
              cases r1 with
              | inl l =>
                simp only [] at h2 hr
                rw [pure_ok] at h2
                obtain ⟨rfl, rfl⟩ := h2
                refine ⟨?_, hu⟩
                simp only [validSubs, hc, hv.1, hr.1, Bool.and_self, List.map_cons, subVal, hr.2.1,
                  List.length_cons, hr.2.2, and_self]
              | inr j =>
                simp only [] at h2
                rw [pure_ok] at h2
                obtain ⟨rfl, rfl⟩ := h2
                exact ⟨trivial, hu⟩
end

theorem mutUniformOne_spec (w : Where) (fuel : Nat) (g : GSpec) (d : DNA) (s : St) (d' : DNA) (s' : St)
    (hv : valid g d = true) (h : mutUniformOne w fuel g d s = .ok (d', s')) :
    valid g d' = true ∧ s'.nextUid = s.nextUid := by
  simp only [mutUniformOne] at h
  split at h
  · exact ((fail_ok _ _ _).mp h).elim
  · rw [bind_ok] at h
    obtain ⟨i, s1, h1, h2⟩ := h
    obtain ⟨_, hu1⟩ := nextIdx_spec h1
    obtain ⟨hv', hu2⟩ := mutNode_spec w fuel d g false i s1 d' s' hv h2
    exact ⟨hv', by rw [hu2, hu1]⟩

theorem All2.imp {α β : Type} {R R' : α → β → Prop} (himp : ∀ a b, R a b → R' a b) :
    ∀ {l : List α} {l' : List β}, All2 R l l' → All2 R' l l' := by
  intro l l' h
  induction h with
  | nil => exact All2.nil
  | cons hr _ ih => exact All2.cons (himp _ _ hr) ih

/-- a mutator that maps each input through `one` and wraps the result in a fresh individual. -/
theorem mapChild_spec (one : DNA → M DNA) (R : DNA → DNA → Prop) :
    ∀ (pop : Pop), (∀ x ∈ pop, ∀ s d' s', one x.dna s = .ok (d', s') → R x.dna d' ∧ s'.nextUid = s.nextUid) →
    ∀ (s : St) (out : Pop) (s' : St),
      forEachM (fun x => do let d ← one x.dna; mkChild d) pop s = .ok (out, s') →
      s'.nextUid = s.nextUid + pop.length ∧
      All2 (fun x y => R x.dna y.dna ∧ s.nextUid ≤ y.uid ∧ y.uid < s.nextUid + pop.length) pop out := by
  intro pop
  induction pop with
  | nil =>
    intro _ s out s' h
    simp only [forEachM] at h
    rw [pure_ok] at h
    obtain ⟨rfl, rfl⟩ := h
    exact ⟨rfl, All2.nil⟩
  | cons x xs ih =>
    intro hone s out s' h
    simp only [forEachM] at h
    rw [bind_ok] at h
    obtain ⟨y, s1, h1, h2⟩ := h
    rw [bind_ok] at h2
    obtain ⟨ys, s2, h3, h4⟩ := h2
    rw [pure_ok] at h4
    obtain ⟨rfl, rfl⟩ := h4
    rw [bind_ok] at h1
    obtain ⟨d, s0, h5, h6⟩ := h1
    obtain ⟨hr, hu0⟩ := hone x List.mem_cons_self _ _ _ h5
    obtain ⟨hd, huid, hu1⟩ := mkChild_spec h6
    obtain ⟨hu2, hall⟩ := ih (fun x' hx' => hone x' (List.mem_cons_of_mem _ hx')) s1 ys s2 h3
    refine ⟨by rw [hu2, hu1, hu0]; simp only [List.length_cons]; omega, ?_⟩
    refine All2.cons ⟨by rw [hd]; exact hr, by rw [huid, hu0]; omega, by
      rw [huid, hu0]; simp only [List.length_cons]; omega⟩ ?_
    -- weaken the bounds of the tail
    have hs1 : s1.nextUid = s.nextUid + 1 := by rw [hu1, hu0]
    refine All2.imp ?_ hall
    intro a b hh
    refine ⟨hh.1, by omega, ?_⟩
    have := hh.2.2
    simp only [List.length_cons]
    omega

end Pg.C14

namespace Pg.C14

/-! ## `Swap.mutate` -/

theorem subVal_rebindEntry (i : Nat) (d : DNA) : subVal (rebindEntry i d) = subVal d := by
  cases d <;> simp [rebindEntry, rebind, subVal]

theorem entryOk_rebindEntry (cands : List GSpec) (i : Nat) (d : DNA) :
    entryOk cands (rebindEntry i d) = entryOk cands d := by
  cases d with
  | sub b v d =>
    simp only [rebindEntry, entryOk]
    cases cands[v]? with
    | none => rfl
    | some c => simp only []; rw [valid_rebind]
  | space _ => simp [rebindEntry, rebind, entryOk]
  | choices _ => simp [rebindEntry, rebind, entryOk]
  | float _ => simp [rebindEntry, rebind, entryOk]

/-- the swap (with re-binding) keeps length, entry validity and the multiset of values. -/
theorem swapList_spec (cands : List GSpec) (l : List DNA) (i j : Nat) :
    (swapList l i j).length = l.length ∧
    ((∀ s ∈ l, entryOk cands s = true) → ∀ s ∈ swapList l i j, entryOk cands s = true) ∧
    ((swapList l i j).map subVal).Perm (l.map subVal) := by
  unfold swapList
  cases hi : l[i]? with
  | none => simp
  | some a =>
    cases hj : l[j]? with
    | none => simp
    | some b =>
      simp only []
      refine ⟨by simp, ?_, ?_⟩
      · intro hall s hs
        rcases List.mem_or_eq_of_mem_set hs with hs | rfl
        · rcases List.mem_or_eq_of_mem_set hs with hs | rfl
          · exact hall s hs
          · rw [entryOk_rebindEntry]; exact hall b (List.mem_of_getElem? hj)
        · rw [entryOk_rebindEntry]; exact hall a (List.mem_of_getElem? hi)
      · rw [List.map_set, List.map_set, subVal_rebindEntry, subVal_rebindEntry]
        obtain ⟨hi', rfl⟩ := List.getElem?_eq_some_iff.mp hi
        obtain ⟨hj', rfl⟩ := List.getElem?_eq_some_iff.mp hj
        have h1 : i < (l.map subVal).length := by simpa using hi'
        have h2 : j < (l.map subVal).length := by simpa using hj'
        have := List.set_set_perm (as := l.map subVal) h1 h2
        simpa using this

mutual
  theorem swapAt_valid (w : Where) : ∀ (d : DNA) (g : GSpec) (coll : Bool) (c i j : Nat),
      valid g d = true → valid g (swapAt w g coll d c i j) = true
    | .space ds, g, coll, c, i, j, hv => by
        cases g with
        | space es =>
          simp only [swapAt, valid] at hv ⊢
          exact swapAtElems_valid w ds es _ c i j hv
        | choices k cands dist srt => simp [valid] at hv
        | float lo hi => simp [valid] at hv
    | .choices subs, g, coll, c, i, j, hv => by
        cases g with
        | space es => simp [valid] at hv
        | float lo hi => simp [valid] at hv
        | choices k cands dist srt =>
          simp only [swapAt]
          obtain ⟨hlen, hall, hnd, hsrt⟩ := (valid_choices_iff _ _ _ _ _).mp hv
          split
          · cases srt with
            | true => simpa using hv
            | false =>
              simp only [Bool.false_eq_true, if_false]
              obtain ⟨hl', hall', hp⟩ := swapList_spec cands subs i j
              rw [valid_choices_iff]
              refine ⟨by rw [hl']; exact hlen, hall' hall,
                fun hd => (List.Perm.nodup_iff hp).mpr (hnd hd), fun h => by cases h⟩
          · have hvs : validSubs cands subs = true := by
              rw [validSubs_eq_all, List.all_eq_true]; exact hall
            obtain ⟨hvl, hvals, hll⟩ := swapAtSubs_valid w subs cands (if (!(k == 1 || coll) && w multiInfo) = true then c - 1 else c) i j hvs
            rw [valid_choices_iff]
            refine ⟨by rw [hll]; exact hlen, ?_, by rw [hvals]; exact hnd, by rw [hvals]; exact hsrt⟩
            rw [validSubs_eq_all, List.all_eq_true] at hvl
            exact hvl
    | .float v, g, coll, c, i, j, hv => by
        cases g <;> simpa [swapAt] using hv
    | .sub b v d, g, coll, c, i, j, hv => by
        cases g <;> simp [valid] at hv
  theorem swapAtElems_valid (w : Where) : ∀ (ds : List DNA) (es : List GSpec) (cl : Bool) (c i j : Nat),
      validElems es ds = true → validElems es (swapAtElems w es cl ds c i j) = true
    | [], es, cl, c, i, j, hv => by
        cases es <;> simpa [swapAtElems] using hv
    | d :: ds, es, cl, c, i, j, hv => by
        cases es with
        | nil => simp [validElems] at hv
        | cons e es =>
          simp only [validElems, Bool.and_eq_true] at hv
          simp only [swapAtElems]
          split
          · simp only [validElems, Bool.and_eq_true]
            exact ⟨swapAt_valid w d e cl c i j hv.1, hv.2⟩
          · simp only [validElems, Bool.and_eq_true]
            exact ⟨hv.1, swapAtElems_valid w ds es cl _ i j hv.2⟩
  theorem swapAtSubs_valid (w : Where) : ∀ (subs : List DNA) (cands : List GSpec) (c i j : Nat),
      validSubs cands subs = true →
      validSubs cands (swapAtSubs w cands subs c i j) = true ∧
      (swapAtSubs w cands subs c i j).map subVal = subs.map subVal ∧
      (swapAtSubs w cands subs c i j).length = subs.length
    | [], cands, c, i, j, hv => by simp [swapAtSubs, validSubs]
    | .space _ :: rest, cands, c, i, j, hv => by simp [validSubs] at hv
    | .choices _ :: rest, cands, c, i, j, hv => by simp [validSubs] at hv
    | .float _ :: rest, cands, c, i, j, hv => by simp [validSubs] at hv
    | .sub b v d :: rest, cands, c, i, j, hv => by
        simp only [validSubs, Bool.and_eq_true] at hv
        simp only [swapAtSubs]
        cases hc : cands[v]? with
        | none => rw [hc] at hv; simp at hv
        | some cs =>
          rw [hc] at hv
          simp only [] at hv ⊢
          split
          · have := swapAt_valid w d cs true c i j hv.1
            simp only [validSubs, hc, this, hv.2, Bool.and_self, List.map_cons, subVal, List.length_cons,
              and_self]
          · obtain ⟨h1, h2, h3⟩ := swapAtSubs_valid w rest cands (c - (swapCands w cs true d).length) i j hv.2
            simp only [validSubs, hc, hv.1, h1, Bool.and_self, List.map_cons, subVal, h2,
              List.length_cons, h3, and_self]
end

theorem mutSwapOne_spec (w : Where) (g : GSpec) (d : DNA) (s : St) (d' : DNA) (s' : St)
    (hv : valid g d = true) (h : mutSwapOne w g d s = .ok (d', s')) :
    valid g d' = true ∧ s'.nextUid = s.nextUid := by
  simp only [mutSwapOne] at h
  rw [bind_ok] at h
  obtain ⟨perm, s1, h1, h2⟩ := h
  obtain ⟨_, _, hu1⟩ := nextShuffle_spec h1
  generalize findFirstUnsorted (swapCands w g false d) perm = r at h2
  cases r with
  | none =>
    simp only [] at h2
    rw [pure_ok] at h2
    obtain ⟨rfl, rfl⟩ := h2
    exact ⟨hv, hu1⟩
  | some cn =>
    obtain ⟨c, n⟩ := cn
    simp only [] at h2
    rw [bind_ok] at h2
    obtain ⟨ij, s2, h3, h4⟩ := h2
    obtain ⟨_, _, _, hu2⟩ := nextSample_spec h3
    rcases ij with _ | ⟨i, _ | ⟨j, _ | ⟨k, t⟩⟩⟩
    · exact ((fail_ok _ _ _).mp h4).elim
    · exact ((fail_ok _ _ _).mp h4).elim
    · simp only [] at h4
      rw [pure_ok] at h4
      obtain ⟨rfl, rfl⟩ := h4
      exact ⟨swapAt_valid w d g false _ _ _ hv, by rw [hu2, hu1]⟩
    · exact ((fail_ok _ _ _).mp h4).elim

/-! ## The two mutators as operations -/

theorem all2_out {α β : Type} {R : α → β → Prop} {l : List α} {l' : List β} (h : All2 R l l') :
    ∀ b ∈ l', ∃ a ∈ l, R a b := by
  induction h with
  | nil => intro b hb; simp at hb
  | cons hr _ ih =>
    intro b hb
    rcases List.mem_cons.mp hb with rfl | hb
    · exact ⟨_, List.mem_cons_self, hr⟩
    · obtain ⟨a, ha, hab⟩ := ih b hb
      exact ⟨a, List.mem_cons_of_mem _ ha, hab⟩

/-- valid inputs: every child is valid, is a fresh object, and the counter only grows — for every
`where` filter. -/
theorem mutUniformW_spec (w : Where) (fuel : Nat) (g : GSpec) (pop : Pop) (st : St) (out : Pop) (st' : St)
    (hp : ∀ x ∈ pop, valid g x.dna = true) (h : mutUniformW w fuel g pop st = .ok (out, st')) :
    st.nextUid ≤ st'.nextUid ∧
    ∀ y ∈ out, valid g y.dna = true ∧ st.nextUid ≤ y.uid ∧ y.uid < st'.nextUid := by
  simp only [mutUniformW] at h
  obtain ⟨hu, hall⟩ := mapChild_spec (mutUniformOne w fuel g) (fun _ d' => valid g d' = true) pop
    (fun x hx s d' s' hd => mutUniformOne_spec w fuel g x.dna s d' s' (hp x hx) hd) st out st' h
  refine ⟨by omega, ?_⟩
  intro y hy
  obtain ⟨x, _, hr⟩ := all2_out hall y hy
  exact ⟨hr.1, hr.2.1, by rw [hu]; exact hr.2.2⟩

theorem mutUniform_spec (fuel : Nat) (g : GSpec) (pop : Pop) (st : St) (out : Pop) (st' : St)
    (hp : ∀ x ∈ pop, valid g x.dna = true) (h : mutUniform fuel g pop st = .ok (out, st')) :
    st.nextUid ≤ st'.nextUid ∧
    ∀ y ∈ out, valid g y.dna = true ∧ st.nextUid ≤ y.uid ∧ y.uid < st'.nextUid :=
  mutUniformW_spec _ fuel g pop st out st' hp h

theorem mutSwapW_spec (w : Where) (g : GSpec) (pop : Pop) (st : St) (out : Pop) (st' : St)
    (hp : ∀ x ∈ pop, valid g x.dna = true) (h : mutSwapW w g pop st = .ok (out, st')) :
    st.nextUid ≤ st'.nextUid ∧
    ∀ y ∈ out, valid g y.dna = true ∧ st.nextUid ≤ y.uid ∧ y.uid < st'.nextUid := by
  simp only [mutSwapW] at h
  obtain ⟨hu, hall⟩ := mapChild_spec (mutSwapOne w g) (fun _ d' => valid g d' = true) pop
    (fun x hx s d' s' hd => mutSwapOne_spec w g x.dna s d' s' (hp x hx) hd) st out st' h
  refine ⟨by omega, ?_⟩
  intro y hy
  obtain ⟨x, _, hr⟩ := all2_out hall y hy
  exact ⟨hr.1, hr.2.1, by rw [hu]; exact hr.2.2⟩

theorem mutSwap_spec (g : GSpec) (pop : Pop) (st : St) (out : Pop) (st' : St)
    (hp : ∀ x ∈ pop, valid g x.dna = true) (h : mutSwap g pop st = .ok (out, st')) :
    st.nextUid ≤ st'.nextUid ∧
    ∀ y ∈ out, valid g y.dna = true ∧ st.nextUid ≤ y.uid ∧ y.uid < st'.nextUid :=
  mutSwapW_spec _ g pop st out st' hp h

end Pg.C14
