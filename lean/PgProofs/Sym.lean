/-
  Helper lemmas for the symbolic forest (C01, C07): the belief invariant `okSub` / `okItems`
  under `setPath`, `setParent`, `updateAt` and the local item-list transformers.
-/
import PgModel.SymWF
namespace Pg.Sym

/-! ### Bool plumbing -/

theorem okSub_node {h : Nat} {p : List Key} {m : Meta} {its : Items} :
    (Tree.node m its).okSub h p = true ↔ (m.parent = some h ∧ m.path = p) ∧ okItems m.id p its = true := by
  simp [Tree.okSub, Bool.and_eq_true]

theorem okItems_cons {h : Nat} {p : List Key} {k : Key} {c : Tree} {r : Items} :
    okItems h p ((k, c) :: r) = true ↔ c.okSub h (p ++ [k]) = true ∧ okItems h p r = true := by
  simp [okItems, Bool.and_eq_true]

/-! ### setPath: re-pathing a subtree that is consistent w.r.t. any path makes it consistent
w.r.t. the new one (this is what discharges relocate-or-copy). -/

mutual
  theorem setPath_okSub (h : Nat) (q q' : List Key) : (t : Tree) → t.okSub h q = true →
      (t.setPath q').okSub h q' = true
    | .leaf _, _ => by simp [Tree.setPath, Tree.okSub]
    | .node m its, hok => by
      rw [okSub_node] at hok
      obtain ⟨⟨hp, hq⟩, hits⟩ := hok
      unfold Tree.setPath
      split
      · next heq =>
        rw [okSub_node]
        exact ⟨⟨hp, heq⟩, by rw [← heq, hq]; exact hits⟩
      · rw [okSub_node]
        exact ⟨⟨hp, rfl⟩, setPathItems_ok m.id q q' its hits⟩
  theorem setPathItems_ok (h : Nat) (q q' : List Key) : (its : Items) → okItems h q its = true →
      okItems h q' (setPathItems q' its) = true
    | [], _ => by simp [setPathItems, okItems]
    | (k, c) :: r, hok => by
      rw [okItems_cons] at hok
      unfold setPathItems
      rw [okItems_cons]
      exact ⟨setPath_okSub h (q ++ [k]) (q' ++ [k]) c hok.1, setPathItems_ok h q q' r hok.2⟩
end

/-- a root re-pathed and given a parent is a well-formed subtree at its destination. -/
theorem relocate_ok (h : Nat) (p : List Key) (t : Tree) (hok : t.okRoot = true) :
    ((t.setPath p).setParent (some h)).okSub h p = true := by
  cases t with
  | leaf a => simp [Tree.setPath, Tree.setParent, Tree.okSub]
  | node m its =>
    unfold Tree.okRoot at hok
    unfold Tree.setPath
    split
    · next heq =>
      simp only [Tree.setParent]
      rw [okSub_node]
      exact ⟨⟨rfl, heq⟩, by rw [← heq]; exact hok⟩
    · simp only [Tree.setParent]
      rw [okSub_node]
      exact ⟨⟨rfl, rfl⟩, setPathItems_ok m.id m.path p its hok⟩

/-- detaching (`setParent none`, optionally `setPath []`) a well-formed subtree yields a
well-formed root. -/
theorem okRoot_of_okSub {h : Nat} {p : List Key} {t : Tree} (hok : t.okSub h p = true) : t.okRoot = true := by
  cases t with
  | leaf a => rfl
  | node m its =>
    rw [okSub_node] at hok
    show okItems m.id m.path its = true
    rw [hok.1.2]; exact hok.2

theorem okRoot_setParent (par : Option Nat) (t : Tree) (hok : t.okRoot = true) : (t.setParent par).okRoot = true := by
  cases t with
  | leaf a => rfl
  | node m its => exact hok

theorem okRoot_setPath (p : List Key) (t : Tree) (hok : t.okRoot = true) : (t.setPath p).okRoot = true := by
  cases t with
  | leaf a => rfl
  | node m its =>
    unfold Tree.okRoot at hok
    unfold Tree.setPath
    split
    · exact hok
    · exact setPathItems_ok m.id m.path p its hok

theorem detachFrom_ok (kind : Kind) {h : Nat} {p : List Key} {t : Tree} (hok : t.okSub h p = true) :
    (detachFrom kind t).okRoot = true := by
  have h0 := okRoot_of_okSub hok
  unfold detachFrom
  cases kind <;> simp only
  · exact okRoot_setPath [] _ (okRoot_setParent none t h0)
  · exact okRoot_setParent none t h0
  · exact okRoot_setPath [] _ (okRoot_setParent none t h0)

/-! ### updateAt: a local transformer that preserves the invariant of one item list preserves
the invariant of every tree. -/

/-- `g` maps item lists that are well-formed for their holder to well-formed ones. -/
def LocalOk (t : Nat) (g : Meta → Items → Items) : Prop :=
  ∀ (m : Meta) (its : Items), m.id = t → okItems m.id m.path its = true → okItems m.id m.path (g m its) = true

mutual
  theorem updateAt_okSub (t : Nat) (g : Meta → Items → Items) (hg : LocalOk t g) (h : Nat) (p : List Key) :
      (tr : Tree) → tr.okSub h p = true → (tr.updateAt t g).okSub h p = true
    | .leaf _, _ => by simp [Tree.updateAt, Tree.okSub]
    | .node m its, hok => by
      rw [okSub_node] at hok
      obtain ⟨⟨hp, hq⟩, hits⟩ := hok
      unfold Tree.updateAt
      split
      · next heq =>
        rw [okSub_node]
        refine ⟨⟨hp, hq⟩, ?_⟩
        have := hg m its heq (by rw [hq]; exact hits)
        rw [hq] at this; exact this
      · rw [okSub_node]
        exact ⟨⟨hp, hq⟩, updateAtItems_ok t g hg m.id p its hits⟩
  theorem updateAtItems_ok (t : Nat) (g : Meta → Items → Items) (hg : LocalOk t g) (h : Nat) (p : List Key) :
      (its : Items) → okItems h p its = true → okItems h p (updateAtItems t g its) = true
    | [], _ => by simp [updateAtItems, okItems]
    | (k, c) :: r, hok => by
      rw [okItems_cons] at hok
      unfold updateAtItems
      rw [okItems_cons]
      exact ⟨updateAt_okSub t g hg h (p ++ [k]) c hok.1, updateAtItems_ok t g hg h p r hok.2⟩
end

theorem updateAt_okRoot (t : Nat) (g : Meta → Items → Items) (hg : LocalOk t g) (tr : Tree)
    (hok : tr.okRoot = true) : (tr.updateAt t g).okRoot = true := by
  cases tr with
  | leaf a => rfl
  | node m its =>
    unfold Tree.okRoot at hok
    unfold Tree.updateAt
    split
    · next heq => exact hg m its heq hok
    · exact updateAtItems_ok t g hg m.id m.path its hok

/-- the belief half of C01's invariant. -/
def Forest.ok (f : Forest) : Bool := f.roots.all Tree.okRoot

theorem Forest.ok_iff (f : Forest) : f.ok = true ↔ ∀ r ∈ f.roots, r.okRoot = true := by
  simp [Forest.ok, List.all_eq_true]

theorem mapAt_ok (f : Forest) (t : Nat) (g : Meta → Items → Items) (hg : LocalOk t g) (hf : f.ok = true) :
    (f.mapAt t g).ok = true := by
  rw [Forest.ok_iff] at *
  intro r hr
  simp only [Forest.mapAt, List.mem_map] at hr
  obtain ⟨r0, hr0, rfl⟩ := hr
  exact updateAt_okRoot t g hg r0 (hf r0 hr0)

theorem addRoot_ok (f : Forest) (t : Tree) (hf : f.ok = true) (ht : t.okRoot = true) : (f.addRoot t).ok = true := by
  rw [Forest.ok_iff] at *
  unfold Forest.addRoot
  split
  · intro r hr
    simp only [List.mem_append, List.mem_singleton] at hr
    rcases hr with hr | rfl
    · exact hf r hr
    · exact ht
  · exact hf

theorem addRoots_ok (ts : List Tree) : ∀ (f : Forest), f.ok = true → (∀ t ∈ ts, t.okRoot = true) →
    (addRoots f ts).ok = true := by
  induction ts with
  | nil => intro f hf _; exact hf
  | cons t ts ih =>
    intro f hf hts
    simp only [addRoots, List.foldl_cons]
    exact ih (f.addRoot t) (addRoot_ok f t hf (hts t (by simp))) (fun x hx => hts x (by simp [hx]))

end Pg.Sym
