/- Round trip of value-spec JSON. -/
import PgModel.C05Spec
import PgProofs.C05Codec
namespace Pg.C05

/-! ### Plain values inside spec JSON (defaults, enum values, metadata) -/

mutual
  def uOf : Tree → U
    | .leaf a => .leaf a
    | .list xs => .arr (uOfL xs)
    | .tuple xs => .arr (.leaf (.str tupleMarker) :: uOfL xs)
    | .dict kvs => .dict (uOfKV kvs)
    | .obj _ _ => .leaf .none
  def uOfL : List Tree → List U
    | [] => []
    | x :: xs => uOf x :: uOfL xs
  def uOfKV : List (Key × Tree) → List (Key × U)
    | [] => []
    | (k, x) :: xs => (k, uOf x) :: uOfKV xs
end

mutual
  /-- A plain value (no objects, no MISSING) none of whose shapes is reserved. -/
  def plainOK : Tree → Bool
    | .leaf .missing => false
    | .leaf _ => true
    | .list xs => !startsWithTupleMarker xs && plainOKL xs
    | .tuple xs => !xs.isEmpty && plainOKL xs
    | .dict kvs => plainOKKV kvs
    | .obj _ _ => false
  def plainOKL : List Tree → Bool
    | [] => true
    | x :: xs => plainOK x && plainOKL xs
  def plainOKKV : List (Key × Tree) → Bool
    | [] => true
    | (k, x) :: xs => !keyReserved false k && plainOK x && plainOKKV xs
end

theorem uIsMarker_uOf (x : Tree) (xs : List Tree) (h : uIsMarker (uOf x) = true) :
    startsWithTupleMarker (x :: xs) = true := by
  cases x with
  | leaf a => cases a <;> simp_all [uOf, uIsMarker, startsWithTupleMarker]
  | list ys => simp [uOf, uIsMarker] at h
  | tuple ys => simp [uOf, uIsMarker] at h
  | dict ys => simp [uOf, uIsMarker] at h
  | obj c ys => simp [uOf, uIsMarker] at h

theorem jlookup_toJsonKV_none' (env : ClassEnv) :
    (kvs : List (Key × Tree)) → plainOKKV kvs = true → jlookup (.s typeKey) (toJsonKV env kvs) = none
  | [], _ => rfl
  | (k, x) :: r, h => by
    simp only [plainOKKV, Bool.and_eq_true] at h
    have hk : k ≠ .s typeKey := by
      intro hk
      have := h.1.1
      simp [hk, keyReserved] at this
    simp only [toJsonKV, jlookup, if_neg hk]
    exact jlookup_toJsonKV_none' env r h.2

mutual
  theorem dec_plain (env : ClassEnv) : (t : Tree) → plainOK t = true →
      decodeU (toJson env t) = .ok (uOf t) ∧ uPlain (uOf t) = some t
    | .leaf a, h => by cases a <;> simp_all [toJson, atomJ, decodeU, uOf, uPlain, plainOK]
    | .list [], _ => by simp [toJson, toJsonL, decodeU, decodeUL, finishArr, uOf, uOfL, uPlain]
    | .list (x :: xs), h => by
      simp only [plainOK, Bool.and_eq_true, Bool.not_eq_true'] at h
      obtain ⟨h1, h2⟩ := dec_plainL env (x :: xs) h.2
      have hnm : uIsMarker (uOf x) = false := by
        cases hj : uIsMarker (uOf x) with
        | false => rfl
        | true => have := uIsMarker_uOf x xs hj; rw [this] at h; exact absurd h.1 (by simp)
      simp only [toJsonL, uOfL] at h1 h2
      constructor
      · simp only [toJson, toJsonL, decodeU, h1, uOf, uOfL]
        cases xs with
        | nil => simp [uOfL, finishArr, hnm]
        | cons y ys => simp [uOfL, finishArr]
      · simp only [uOf, uOfL, uPlain, hnm, Bool.false_eq_true, if_false, h2, Option.map_some]
    | .tuple [], h => by simp [plainOK] at h
    | .tuple (x :: xs), h => by
      simp only [plainOK, Bool.and_eq_true] at h
      obtain ⟨h1, h2⟩ := dec_plainL env (x :: xs) h.2
      simp only [toJsonL, uOfL] at h1 h2
      constructor
      · have h1' : decodeUL (.str tupleMarker :: toJson env x :: toJsonL env xs) =
            .ok (.leaf (.str tupleMarker) :: uOf x :: uOfL xs) := by
          rw [decodeUL]; simp only [decodeU, h1]
        simp only [toJson, toJsonL, decodeU, h1', uOf, uOfL, finishArr]
      · simp [uOf, uOfL, uPlain, uIsMarker, h2]
    | .dict kvs, h => by
      simp only [plainOK] at h
      obtain ⟨h1, h2⟩ := dec_plainKV env kvs h
      constructor
      · simp only [toJson, decodeU, finishObj, jlookup_toJsonKV_none' env kvs h, h1, uOf]
      · simp only [uOf, uPlain, h2, Option.map_some]
    | .obj c attrs, h => by simp [plainOK] at h
  theorem dec_plainL (env : ClassEnv) : (xs : List Tree) → plainOKL xs = true →
      decodeUL (toJsonL env xs) = .ok (uOfL xs) ∧ uPlainL (uOfL xs) = some xs
    | [], _ => ⟨rfl, rfl⟩
    | x :: xs, h => by
      simp only [plainOKL, Bool.and_eq_true] at h
      obtain ⟨a1, a2⟩ := dec_plain env x h.1
      obtain ⟨b1, b2⟩ := dec_plainL env xs h.2
      exact ⟨by simp only [toJsonL, decodeUL, a1, b1, uOfL], by simp only [uOfL, uPlainL, a2, b2]⟩
  theorem dec_plainKV (env : ClassEnv) : (kvs : List (Key × Tree)) → plainOKKV kvs = true →
      decodeUKV (toJsonKV env kvs) = .ok (uOfKV kvs) ∧ uPlainKV (uOfKV kvs) = some kvs
    | [], _ => ⟨rfl, rfl⟩
    | (k, x) :: xs, h => by
      simp only [plainOKKV, Bool.and_eq_true] at h
      obtain ⟨a1, a2⟩ := dec_plain env x h.1.2
      obtain ⟨b1, b2⟩ := dec_plainKV env xs h.2
      exact ⟨by simp only [toJsonKV, decodeUKV, a1, b1, uOfKV], by simp only [uOfKV, uPlainKV, a2, b2]⟩
end

end Pg.C05
