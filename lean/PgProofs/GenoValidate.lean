/-
  `validate` (implementation model, with the constructor normalisation `mk'`) accepts exactly the
  members (`valid…`, specification) — on DNAs in hereditary constructor normal form.
-/
import PgProofs.GenoValid
import PgModel.Geno.Enum
namespace Pg.Geno
open DNA

mutual
  /-- Hereditarily a fixed point of `DNA(...)`: no `None` node with exactly one child, no single
  `None`-valued child. Every DNA object built through the constructor satisfies this. -/
  def hnorm : DNA → Bool
    | .mk v cs =>
      (match v, cs with
       | .none, [_] => false
       | _, [.mk .none _] => false
       | _, _ => true) && hnormList cs
  def hnormList : List DNA → Bool
    | [] => true
    | c :: cs => hnorm c && hnormList cs
end

/-- The children list of a normal node: not a single `None`-valued child. -/
def okKids : List DNA → Bool
  | [.mk .none _] => false
  | _ => true

theorem hnorm_kids {v : Val} {cs : List DNA} (h : hnorm (.mk v cs) = true) :
    okKids cs = true ∧ hnormList cs = true := by
  simp only [hnorm, Bool.and_eq_true] at h
  refine ⟨?_, h.2⟩
  match cs, h.1 with
  | [], _ => rfl
  | [.mk w gs], h1 =>
    cases w with
    | none => cases v <;> simp at h1
    | int => rfl
    | flt => rfl
    | str => rfl
  | a :: _ :: _, _ =>
    cases a with
    | mk w c => cases w <;> rfl

theorem mk'_none_nil : mk' .none [] = .mk .none [] := rfl

theorem mk'_none_two (a b : DNA) (t : List DNA) : mk' .none (a :: b :: t) = .mk .none (a :: b :: t) := by
  cases a with
  | mk w c1 => cases w <;> rfl

theorem mk'_none_single {x : DNA} (h : okKids [x] = true) : mk' .none [x] = x := by
  cases x with
  | mk w gs =>
    cases w with
    | none => simp [okKids] at h
    | int => rfl
    | flt => rfl
    | str => rfl

theorem okKids_single_value {x : DNA} (h : okKids [x] = true) : x.value ≠ .none := by
  cases x with
  | mk w gs =>
    cases w with
    | none => simp [okKids] at h
    | int => simp [DNA.value]
    | flt => simp [DNA.value]
    | str => simp [DNA.value]

theorem hnorm_none_of_list {ks : List DNA} (h : hnormList ks = true) (hl : ks.length ≠ 1) :
    hnorm (.mk .none ks) = true := by
  match ks, hl with
  | [], _ => rfl
  | [x], hl => exact absurd rfl hl
  | a :: b :: t, _ =>
    simp only [hnorm, Bool.and_eq_true]
    exact ⟨trivial, h⟩

/-! ### value constraints: the two formulations agree -/

theorem nodupInt_eq_pairwiseNe : ∀ vs : List Int, nodupInt vs = pairwiseNe vs
  | [] => rfl
  | a :: rest => by
    simp only [nodupInt, pairwiseNe, nodupInt_eq_pairwiseNe rest]
    congr 1
    induction rest with
    | nil => rfl
    | cons b r ih =>
      simp only [List.contains_cons, List.all_cons, Bool.not_or, ih]
      congr 1
      cases h : (a == b) <;> cases h2 : (b != a) <;> simp_all [bne]

theorem pairwiseLe_head {a b : Int} {rest : List Int} (hab : a ≤ b) (h : rest.all (b ≤ ·) = true) :
    rest.all (a ≤ ·) = true := by
  simp only [List.all_eq_true, decide_eq_true_eq] at h ⊢
  exact fun x hx => Int.le_trans hab (h x hx)

theorem isSortedInt_eq_pairwiseLe : ∀ vs : List Int, isSortedInt vs = pairwiseLe vs
  | [] => rfl
  | [a] => by simp [isSortedInt, pairwiseLe]
  | a :: b :: rest => by
    have ih := isSortedInt_eq_pairwiseLe (b :: rest)
    simp only [isSortedInt, ih]
    simp only [pairwiseLe, List.all_cons]
    by_cases hab : a ≤ b
    · simp only [hab, decide_true, Bool.true_and]
      cases hb : rest.all (b ≤ ·) with
      | false => simp
      | true => simp [pairwiseLe_head hab hb]
    · simp [hab]

theorem intValues_eq_nodeValues : ∀ ss : List DNA,
    (∀ x ∈ ss, ∃ v ks, x = .mk (.int v) ks) → intValues ss = some (nodeValues ss)
  | [], _ => rfl
  | x :: xs, h => by
    obtain ⟨v, ks, rfl⟩ := h x List.mem_cons_self
    simp [intValues, nodeValues, intValues_eq_nodeValues xs (fun y hy => h y (List.mem_cons_of_mem _ hy))]

theorem intValues_none_of_nonint : ∀ ss : List DNA,
    (∃ x ∈ ss, ¬ ∃ v ks, x = .mk (.int v) ks) → intValues ss = none
  | [], h => by obtain ⟨x, hx, _⟩ := h; cases hx
  | x :: xs, h => by
    cases x with
    | mk w ks =>
      cases w with
      | int v =>
        have : ∃ y ∈ xs, ¬ ∃ v ks, y = .mk (.int v) ks := by
          obtain ⟨y, hy, hn⟩ := h
          cases hy with
          | head => exact absurd ⟨v, ks, rfl⟩ hn
          | tail _ hy' => exact ⟨y, hy', hn⟩
        simp [intValues, intValues_none_of_nonint xs this]
      | none => rfl
      | flt => rfl
      | str => rfl

/-! ### one candidate space -/

theorem validP_single_none_false (cands : List (List Point)) (d s : Bool) (info : Info) (ks : List DNA) :
    validP (.choices 1 cands d s info) (.mk .none ks) = false := by
  cases h : validP (.choices 1 cands d s info) (.mk .none ks) with
  | false => rfl
  | true => obtain ⟨v, ks', e⟩ := validP_single_int h; cases e

theorem validP_multi_value_false {k : Nat} (hk : k ≠ 1) (cands : List (List Point)) (d s : Bool) (info : Info)
    {x : DNA} (hx : x.value ≠ .none) : validP (.choices k cands d s info) x = false := by
  cases h : validP (.choices k cands d s info) x with
  | false => rfl
  | true => obtain ⟨ss, e⟩ := validP_multi_none hk h; subst e; exact absurd rfl hx

theorem validP_leaf_none_false {p : Point} (hp : ∀ k c d s i, p ≠ .choices k c d s i) (ks : List DNA) :
    validP p (.mk .none ks) = false := by
  cases p with
  | choices k c d s i => exact absurd rfl (hp k c d s i)
  | float => simp [validP]
  | custom => simp [validP]

/-- `Space.validate(DNA(None, ks))` of a candidate space agrees with the specification of the
children lists, given that the element-wise validators agree. -/
theorem validateSpace_eq (c : Space) (hw : wfSpace c = true)
    (hE : ∀ ds, hnormList ds = true → validateElems c ds = validElems c ds)
    (ks : List DNA) (hn : hnormList ks = true) (hok : okKids ks = true) :
    validateSpaceWith (validateElems c) c.length (mk' .none ks) = validElems c (unkids c ks) := by
  match c, hw, hE with
  | [], _, _ =>
    have hu : unkids [] ks = ks := rfl
    rw [hu]
    match ks, hok with
    | [], _ => rfl
    | [x], hok =>
      rw [mk'_none_single hok]
      have := okKids_single_value hok
      cases x with
      | mk w gs => cases w <;> simp_all [validateSpaceWith, validElems, DNA.value]
    | a :: b :: t, _ => rw [mk'_none_two]; simp [validateSpaceWith, validElems, DNA.children]
  | [p], hw, hE =>
    have hlen : ([p] : Space).length = 1 := rfl
    simp only [validateSpaceWith, hlen]
    simp only [show ((1 : Nat) == 0) = false from rfl, show ((1 : Nat) == 1) = true from rfl,
      Bool.false_eq_true, if_false, if_true]
    -- the DNA handed to the single element
    have hnd : hnorm (mk' .none ks) = true := by
      match ks, hn, hok with
      | [], _, _ => rfl
      | [x], hn, hok =>
        rw [mk'_none_single hok]
        simp only [hnormList, Bool.and_true] at hn; exact hn
      | a :: b :: t, hn, _ => rw [mk'_none_two]; exact hnorm_none_of_list hn (by simp)
    have hE1 := hE [mk' .none ks] (by simp [hnormList, hnd])
    rw [hE1]
    cases p with
    | choices k cands d s info =>
      by_cases hk : k = 1
      · subst hk
        have hu : unkids [.choices 1 cands d s info] ks = ks := by simp [unkids]
        rw [hu]
        match ks, hok with
        | [], _ => simp [mk'_none_nil, validElems, validP_single_none_false]
        | [x], hok => rw [mk'_none_single hok]
        | a :: b :: t, _ => rw [mk'_none_two]; simp [validElems, validP_single_none_false]
      · have hu : unkids [.choices k cands d s info] ks = [.mk .none ks] := by simp [unkids, hk]
        rw [hu]
        match ks, hok with
        | [], _ => rfl
        | [x], hok =>
          rw [mk'_none_single hok]
          simp only [validElems, Bool.and_true]
          rw [validP_multi_value_false hk _ _ _ _ (okKids_single_value hok)]
          -- a `None` node with one sub-choice is not a `k`-choice for `k ≠ 1`
          simp only [wfSpace, Point.wf, Bool.and_eq_true, decide_eq_true_eq, Bool.and_true] at hw
          have hk1 : 1 ≤ k := hw.1.1.1
          simp [validP, unroot, hk]
          intro h; omega
        | a :: b :: t, _ => rw [mk'_none_two]
    | float a b c' d' info =>
      have hu : unkids [.float a b c' d' info] ks = ks := rfl
      rw [hu]
      match ks, hok with
      | [], _ => simp [mk'_none_nil, validElems, validP]
      | [x], hok => rw [mk'_none_single hok]
      | x :: y :: t, _ => rw [mk'_none_two]; simp [validElems, validP]
    | custom info =>
      have hu : unkids [.custom info] ks = ks := rfl
      rw [hu]
      match ks, hok with
      | [], _ => simp [mk'_none_nil, validElems, validP]
      | [x], hok => rw [mk'_none_single hok]
      | x :: y :: t, _ => rw [mk'_none_two]; simp [validElems, validP]
  | p :: q :: r, _, hE =>
    have hu : unkids (p :: q :: r) ks = ks := by cases p <;> rfl
    rw [hu]
    have hlen : (p :: q :: r).length = r.length + 2 := rfl
    simp only [validateSpaceWith, hlen]
    have h0 : ((r.length + 2) == 0) = false := by simp
    have h1 : ((r.length + 2) == 1) = false := by simp
    simp only [h0, h1, Bool.false_eq_true, if_false]
    match ks, hn, hok with
    | [], _, _ => simp [mk'_none_nil, DNA.children, validElems]
    | [x], _, hok =>
      rw [mk'_none_single hok]
      have hv := okKids_single_value hok
      have : (x.value == Val.none) = false := by simpa using hv
      simp [this, validElems]
    | a :: b :: t, hn, _ =>
      rw [mk'_none_two]
      simp only [DNA.children, DNA.value, beq_self_eq_true, Bool.and_true]
      rw [hE _ hn]
      cases hv : validElems (p :: q :: r) (a :: b :: t) with
      | false => simp
      | true =>
        have := validElems_length _ _ hv
        simp only [List.length_cons] at this
        simp [this]

theorem hnormList_mem : ∀ {cs : List DNA} {x : DNA}, hnormList cs = true → x ∈ cs → hnorm x = true
  | [], _, _, hx => by cases hx
  | a :: t, x, h, hx => by
    simp only [hnormList, Bool.and_eq_true] at h
    cases hx with
    | head => exact h.1
    | tail _ h' => exact hnormList_mem h.2 h'

theorem all_congr_mem {α : Type} {f g : α → Bool} : ∀ {l : List α}, (∀ x ∈ l, f x = g x) → l.all f = l.all g
  | [], _ => rfl
  | a :: t, h => by
    simp only [List.all_cons, h a List.mem_cons_self,
      all_congr_mem (fun x hx => h x (List.mem_cons_of_mem _ hx))]

/-- Valid children lists already satisfy the `is_constant` / "no child DNA provided" tests of
`Choices.validate`. -/
theorem kids_check (c : Space) (hw : wfSpace c = true) (ks : List DNA)
    (h : validElems c (unkids c ks) = true) :
    (match c with
     | [] => ks.isEmpty
     | _ => !ks.isEmpty) = true := by
  match c, hw, h with
  | [], _, h =>
    have hu : unkids [] ks = ks := rfl
    rw [hu] at h
    cases ks with
    | nil => rfl
    | cons a b => simp [validElems] at h
  | [p], hw, h =>
    cases ks with
    | cons a b => rfl
    | nil =>
      exfalso
      cases p with
      | choices k cands d s info =>
        simp only [wfSpace, Point.wf, Bool.and_eq_true, decide_eq_true_eq, Bool.and_true] at hw
        have hk1 : 1 ≤ k := hw.1.1.1
        by_cases hk : k = 1
        · subst hk
          simp [unkids, validElems] at h
        · simp [unkids, hk, validElems, validP, unroot] at h
          omega
      | float => simp [unkids, validElems] at h
      | custom => simp [unkids, validElems] at h
  | p :: q :: r, _, h =>
    cases ks with
    | cons a b => rfl
    | nil =>
      have hu : unkids (p :: q :: r) [] = [] := by cases p <;> rfl
      rw [hu] at h
      simp [validElems] at h

mutual
  theorem validateP_eq (p : Point) (hw : p.wf = true) :
      ∀ d, hnorm d = true → validateP p d = validP p d := by
    cases p with
    | float a b c d' info =>
      intro d _
      cases d with
      | mk v cs =>
        cases v <;> cases cs <;> simp [validateP, validP]
    | custom info =>
      intro d _
      cases d with
      | mk v cs => cases v <;> simp [validateP, validP, DNA.value]
    | choices k cands dd ss info =>
      simp only [Point.wf, Bool.and_eq_true, decide_eq_true_eq] at hw
      have hC := validateAt_eq cands hw.2
      intro d hd
      by_cases hk : k = 1
      · subst hk
        cases d with
        | mk v cs =>
          obtain ⟨hok, hnl⟩ := hnorm_kids hd
          cases v with
          | int i =>
            obtain ⟨h1, h2⟩ := hC i.toNat cs hnl hok
            simp only [validateP, beq_self_eq_true, if_true, h1, validP, unroot, List.length_cons,
              List.length_nil, List.all_cons, List.all_nil, Bool.and_true, nodeValues, pairwiseNe, pairwiseLe,
              Bool.or_true, validNodeWith, inRange, Nat.zero_add, Bool.true_and]
            cases hX : validKidsAt cands i.toNat cs with
            | false => simp
            | true =>
              simp
              intro _ _
              exact h2 hX
          | none => simp [validateP, validP, unroot, validNodeWith]
          | flt => simp [validateP, validP, unroot, validNodeWith]
          | str => simp [validateP, validP, unroot, validNodeWith]
      · have hk' : (k == 1) = false := by simp [hk]
        cases d with
        | mk v cs =>
          obtain ⟨_, hnl⟩ := hnorm_kids hd
          cases v with
          | none =>
            simp only [validateP, hk', Bool.false_eq_true, if_false, DNA.value, DNA.children, beq_self_eq_true,
              Bool.true_and, validP, unroot]
            -- node-wise agreement
            have hnode : ∀ x ∈ cs, validateSubWith cands.length (validateAt cands) x =
                validNodeWith cands.length (validKidsAt cands) x := by
              intro x hx
              have hxn : hnorm x = true := hnormList_mem hnl hx
              cases x with
              | mk w gs =>
                obtain ⟨hok', hnl'⟩ := hnorm_kids hxn
                cases w with
                | int i => simp [validateSubWith, validNodeWith, inRange, (hC i.toNat gs hnl' hok').1]
                | none => rfl
                | flt => rfl
                | str => rfl
            have hall : cs.all (validateSubWith cands.length (validateAt cands)) =
                cs.all (validNodeWith cands.length (validKidsAt cands)) := all_congr_mem hnode
            rw [hall]
            by_cases hint : ∀ x ∈ cs, ∃ v ks, x = .mk (.int v) ks
            · rw [intValues_eq_nodeValues cs hint]
              simp only [choiceValuesOk, nodupInt_eq_pairwiseNe, isSortedInt_eq_pairwiseLe]
              cases (cs.length == k) <;> cases (cs.all (validNodeWith cands.length (validKidsAt cands))) <;>
                cases (!dd || pairwiseNe (nodeValues cs)) <;> cases (!ss || pairwiseLe (nodeValues cs)) <;> rfl
            · have hex : ∃ x ∈ cs, ¬ ∃ v ks, x = .mk (.int v) ks := by
                obtain ⟨x, hx⟩ := Classical.not_forall.mp hint
                have := Classical.not_imp.mp hx
                exact ⟨x, this.1, this.2⟩
              rw [intValues_none_of_nonint cs hex]
              have hfalse : cs.all (validNodeWith cands.length (validKidsAt cands)) = false := by
                rw [Bool.eq_false_iff]
                intro hall'
                rw [List.all_eq_true] at hall'
                obtain ⟨x, hx, hnx⟩ := hex
                have := hall' x hx
                cases x with
                | mk w gs =>
                  cases w with
                  | int i => exact hnx ⟨i, gs, rfl⟩
                  | none => simp [validNodeWith] at this
                  | flt => simp [validNodeWith] at this
                  | str => simp [validNodeWith] at this
              simp [hfalse]
          | int => simp [validateP, hk', validP, unroot, DNA.value]
          | flt => simp [validateP, hk', validP, unroot, DNA.value]
          | str => simp [validateP, hk', validP, unroot, DNA.value]
  theorem validateElems_eq (es : List Point) (hw : wfSpace es = true) :
      ∀ ds, hnormList ds = true → validateElems es ds = validElems es ds := by
    cases es with
    | nil => intro ds _; cases ds <;> rfl
    | cons p ps =>
      simp only [wfSpace, Bool.and_eq_true] at hw
      intro ds hn
      cases ds with
      | nil => rfl
      | cons d ds =>
        simp only [hnormList, Bool.and_eq_true] at hn
        simp only [validateElems, validElems, validateP_eq p hw.1 d hn.1, validateElems_eq ps hw.2 ds hn.2]
  theorem validateAt_eq (cs : List (List Point)) (hw : wfCands cs = true) :
      ∀ (i : Nat) (ks : List DNA), hnormList ks = true → okKids ks = true →
        validateAt cs i (mk' .none ks) = validKidsAt cs i ks ∧
        (validKidsAt cs i ks = true →
          (match cs[i]? with
           | some [] => ks.isEmpty
           | _ => !ks.isEmpty) = true) := by
    cases cs with
    | nil =>
      intro i ks _ _
      simp [validateAt, validKidsAt]
    | cons c cs =>
      simp only [wfCands, Bool.and_eq_true] at hw
      intro i ks hn hok
      cases i with
      | zero =>
        simp only [validateAt, validKidsAt, List.getElem?_cons_zero]
        refine ⟨validateSpace_eq c hw.1 (validateElems_eq c hw.1) ks hn hok, ?_⟩
        intro h
        have := kids_check c hw.1 ks h
        cases c with
        | nil => exact this
        | cons a b => exact this
      | succ i =>
        simp only [validateAt, validKidsAt, List.getElem?_cons_succ]
        exact validateAt_eq cs hw.2 i ks hn hok
end

theorem validate_eq_valid (g : Spec) (hw : g.wf = true) (d : DNA) (hd : hnorm d = true) :
    g.validate d = g.valid d := by
  cases g with
  | point p => exact validateP_eq p hw d hd
  | space s =>
    simp only [Spec.validate, validateS, Spec.valid, validS]
    have hE := validateElems_eq s hw
    cases d with
    | mk v cs =>
      obtain ⟨hok, hnl⟩ := hnorm_kids hd
      match s, hE with
      | [], _ =>
        cases v <;> cases cs <;> simp [validateSpaceWith, unroot, validElems, DNA.value, DNA.children]
      | [p], hE =>
        simp only [validateSpaceWith, unroot, List.length_cons, List.length_nil, Nat.zero_add]
        simp only [show ((1 : Nat) == 0) = false from rfl, show ((1 : Nat) == 1) = true from rfl,
          Bool.false_eq_true, if_false, if_true]
        exact hE [.mk v cs] (by simp [hnormList, hd])
      | p :: q :: r, hE =>
        have hlen : (p :: q :: r).length = r.length + 2 := rfl
        have h0 : ((r.length + 2) == 0) = false := by simp
        have h1 : ((r.length + 2) == 1) = false := by simp
        simp only [validateSpaceWith, unroot, hlen, h0, h1, Bool.false_eq_true, if_false, DNA.children, DNA.value]
        cases v with
        | none =>
          simp only [beq_self_eq_true, Bool.and_true]
          rw [hE cs hnl]
          cases hv : validElems (p :: q :: r) cs with
          | false => simp
          | true =>
            have := validElems_length _ _ hv
            simp only [List.length_cons] at this
            simp [this]
        | int => simp
        | flt => simp
        | str => simp

end Pg.Geno
