/-
  C06 helper lemmas, part 3: the `Comparable` class and the dict lemmas (for dicts whose keys are
  strictly ascending, the set-based `eq` of dicts decomposes position by position).
-/
import PgProofs.CompareAtom
namespace Pg.C06

def isTrue : Except Err Bool → Bool
  | .ok true => true
  | _ => false

theorem isTrue_iff (r : Except Err Bool) : isTrue r = true ↔ r = .ok true := by
  cases r with
  | error e => simp [isTrue]
  | ok b => cases b <;> simp [isTrue]

/-- Keys strictly ascending in the symbolic order (hence pairwise different under `==`). -/
def ascKeys (env : Env) : List (Atom × Val) → Bool
  | [] => true
  | (k, _) :: rest => rest.all (fun q => isTrue (atomLt env k q.1)) && ascKeys env rest

def keysOf (kvs : List (Atom × Val)) : List Atom := kvs.map (·.1)

/-- No two atoms of the list are `==`. -/
def nodupAtoms : List Atom → Bool
  | [] => true
  | a :: rest => rest.all (fun b => !atomEq a b) && nodupAtoms rest

/-- The key discipline of an association list. `none` (dicts): keys strictly ascending;
`some L` (attributes of an object whose class declares the fields `L`, in any order): the keys are
exactly `L`, in that order, and `L` has no duplicates. -/
def keysOk (env : Env) : Option (List Atom) → List (Atom × Val) → Bool
  | none, kvs => ascKeys env kvs
  | some L, kvs => decide (keysOf kvs = L) && nodupAtoms L

def shTail : Option (List Atom) → Option (List Atom)
  | none => none
  | some L => some L.tail

/-- The key discipline of the attributes of an object of class `c`: the declared fields in their
order, or — for a class with a variable-key schema — that of a dict. -/
def objSh (env : Env) (c : Nat) : Option (List Atom) :=
  if env.dyn c then none else some (env.fields c)

def tupleElemOk (num : Bool) : Val → Bool
  | .atom (.num _) => num
  | .atom (.str _) => !num
  | _ => false

mutual
  /-- The class of values the order theorems quantify over (decidable): any nesting of atoms,
  lists, dicts whose keys ascend, objects whose attributes are the declared fields of their class
  (`env.fields c`, any declaration order), tuples of numbers only (`num = true`)
  or of strings only (`num = false`) — "tuples of mutually comparable primitives". -/
  def comparable (env : Env) (num : Bool) : Val → Bool
    | .atom _ => true
    | .list _ xs => comparableList env num xs
    | .tuple xs => xs.all (tupleElemOk num)
    | .dict _ kvs => keysOk env none kvs && comparableItems env num kvs
    | .obj c kvs => keysOk env (objSh env c) kvs && comparableItems env num kvs
  def comparableList (env : Env) (num : Bool) : List Val → Bool
    | [] => true
    | x :: xs => comparable env num x && comparableList env num xs
  def comparableItems (env : Env) (num : Bool) : List (Atom × Val) → Bool
    | [] => true
    | (_, v) :: rest => comparable env num v && comparableItems env num rest
end

/-- `eq` on two dicts / attribute dicts. -/
def eqD (xs ys : List (Atom × Val)) : Bool :=
  xs.length == ys.length && (keysSubset xs ys && keysSubset ys xs) && eqItems xs ys

theorem eq_dict (s t : Bool) (xs ys : List (Atom × Val)) : eq (.dict s xs) (.dict t ys) = eqD xs ys := by
  simp only [eq, eqD]

theorem eq_obj (c d : Nat) (xs ys : List (Atom × Val)) : eq (.obj c xs) (.obj d ys) = (c == d && eqD xs ys) := by
  simp only [eq, eqD]

theorem atom_ne_of_lt {env : Env} (ok : EnvOk env) {a b : Atom} (h : atomLt env a b = .ok true) :
    atomEq a b = false ∧ atomEq b a = false := by
  rcases atomTri ok a b with ⟨_, h2, _⟩ | ⟨h1, _, _⟩ | ⟨h1, _, _⟩
  · exact ⟨h2, by rw [atomEq_symm]; exact h2⟩
  · rw [h] at h1; cases h1
  · rw [h] at h1; cases h1

theorem ascKeys_cons {env : Env} {k : Atom} {v : Val} {rest : List (Atom × Val)}
    (h : ascKeys env ((k, v) :: rest) = true) :
    (∀ q ∈ rest, atomLt env k q.1 = .ok true) ∧ ascKeys env rest = true := by
  simp only [ascKeys, Bool.and_eq_true, List.all_eq_true] at h
  exact ⟨fun q hq => (isTrue_iff _).mp (h.1 q hq), h.2⟩

theorem hasKey_cons (a k : Atom) (w : Val) (ys : List (Atom × Val)) :
    hasKey a ((k, w) :: ys) = (atomEq a k || hasKey a ys) := by
  simp [hasKey]

theorem hasKey_false {a : Atom} {ys : List (Atom × Val)} (h : ∀ q ∈ ys, atomEq a q.1 = false) :
    hasKey a ys = false := by
  induction ys with
  | nil => rfl
  | cons q ys ih =>
    obtain ⟨k, w⟩ := q
    rw [hasKey_cons, h (k, w) (List.mem_cons_self ..), ih (fun q hq => h q (List.mem_cons_of_mem _ hq))]
    rfl

theorem keysSubset_cons_fresh {xs : List (Atom × Val)} (k : Atom) (w : Val) (ys : List (Atom × Val))
    (h : ∀ p ∈ xs, atomEq p.1 k = false) : keysSubset xs ((k, w) :: ys) = keysSubset xs ys := by
  induction xs with
  | nil => rfl
  | cons p xs ih =>
    have h1 := h p (List.mem_cons_self ..)
    have h2 := ih (fun q hq => h q (List.mem_cons_of_mem _ hq))
    simp only [keysSubset, List.all_cons, hasKey_cons, h1, Bool.false_or] at h2 ⊢
    rw [h2]

theorem eqItems_cons_fresh {xs : List (Atom × Val)} (k : Atom) (w : Val) (ys : List (Atom × Val))
    (h : ∀ p ∈ xs, atomEq p.1 k = false) : eqItems xs ((k, w) :: ys) = eqItems xs ys := by
  induction xs with
  | nil => simp [eqItems]
  | cons p xs ih =>
    obtain ⟨k2, v2⟩ := p
    have h1 : atomEq k2 k = false := h (k2, v2) (List.mem_cons_self ..)
    have h2 := ih (fun q hq => h q (List.mem_cons_of_mem _ hq))
    simp only [eqItems, lookup, h1, h2]
    rfl

theorem keysOk_tail {env : Env} {sh : Option (List Atom)} {p : Atom × Val} {xs : List (Atom × Val)}
    (h : keysOk env sh (p :: xs) = true) : keysOk env (shTail sh) xs = true := by
  cases sh with
  | none =>
    obtain ⟨k, v⟩ := p
    have h : ascKeys env ((k, v) :: xs) = true := h
    exact (ascKeys_cons h).2
  | some L =>
    simp only [keysOk, keysOf, List.map_cons, Bool.and_eq_true, decide_eq_true_eq] at h
    obtain ⟨h1, h2⟩ := h
    subst h1
    simp only [nodupAtoms, Bool.and_eq_true] at h2
    simp [keysOk, shTail, keysOf, h2.2]

/-- Two lists under one key discipline whose first keys are `==`: neither first key occurs in the
other list's tail. -/
theorem keysOk_fresh {env : Env} (ok : EnvOk env) {sh : Option (List Atom)} {k k' : Atom} {v w : Val}
    {xs ys : List (Atom × Val)}
    (hx : keysOk env sh ((k, v) :: xs) = true) (hy : keysOk env sh ((k', w) :: ys) = true)
    (hk : atomEq k k' = true) :
    (∀ p ∈ xs, atomEq p.1 k' = false) ∧ (∀ p ∈ ys, atomEq p.1 k = false) := by
  have hk' : atomEq k' k = true := by rw [atomEq_symm]; exact hk
  cases sh with
  | none =>
    have hx : ascKeys env ((k, v) :: xs) = true := hx
    have hy : ascKeys env ((k', w) :: ys) = true := hy
    obtain ⟨hx1, _⟩ := ascKeys_cons hx
    obtain ⟨hy1, _⟩ := ascKeys_cons hy
    constructor
    · intro p hp
      have : atomLt env k' p.1 = .ok true := by rw [← atomLt_congr_left p.1 hk]; exact hx1 p hp
      exact (atom_ne_of_lt ok this).2
    · intro p hp
      have : atomLt env k p.1 = .ok true := by rw [← atomLt_congr_left p.1 hk']; exact hy1 p hp
      exact (atom_ne_of_lt ok this).2
  | some L =>
    simp only [keysOk, keysOf, List.map_cons, Bool.and_eq_true, decide_eq_true_eq] at hx hy
    obtain ⟨hx1, hx2⟩ := hx
    obtain ⟨hy1, _⟩ := hy
    subst hx1
    simp only [List.cons.injEq] at hy1
    obtain ⟨hkk, hys⟩ := hy1
    subst hkk
    simp only [nodupAtoms, Bool.and_eq_true, List.all_eq_true, Bool.not_eq_true'] at hx2
    constructor
    · intro p hp
      rw [atomEq_symm]
      exact hx2.1 p.1 (List.mem_map.mpr ⟨p, hp, rfl⟩)
    · intro p hp
      rw [atomEq_symm]
      exact hx2.1 p.1 (by rw [← hys]; exact List.mem_map.mpr ⟨p, hp, rfl⟩)

/-- One step of `eq` on two attribute lists under one key discipline whose first keys are `==`. -/
theorem eqD_cons_eq {env : Env} (ok : EnvOk env) {sh : Option (List Atom)} {k k' : Atom} {v w : Val}
    {xs ys : List (Atom × Val)}
    (hx : keysOk env sh ((k, v) :: xs) = true) (hy : keysOk env sh ((k', w) :: ys) = true)
    (hk : atomEq k k' = true) :
    eqD ((k, v) :: xs) ((k', w) :: ys) = (eq v w && eqD xs ys) := by
  have hk' : atomEq k' k = true := by rw [atomEq_symm]; exact hk
  obtain ⟨fx, fy⟩ := keysOk_fresh ok hx hy hk
  have e1 := keysSubset_cons_fresh k' w ys fx
  have e2 := keysSubset_cons_fresh k v xs fy
  have e3 := eqItems_cons_fresh k' w ys fx
  simp only [eqD, List.length_cons, keysSubset, List.all_cons, hasKey_cons, hk, hk', Bool.true_or,
    Bool.true_and, eqItems, lookup, if_true] at e1 e2 e3 ⊢
  rw [e1, e2, e3]
  have : (xs.length + 1 == ys.length + 1) = (xs.length == ys.length) := by
    cases h : xs.length == ys.length <;> simp_all
  rw [this]
  cases (xs.length == ys.length) <;> cases (xs.all fun p => hasKey p.1 ys) <;>
    cases (ys.all fun p => hasKey p.1 xs) <;> cases (eq v w) <;> cases (eqItems xs ys) <;> rfl

/-- Two lists under one key discipline whose first keys differ are not `eq`. -/
theorem eqD_cons_ne {env : Env} (ok : EnvOk env) {sh : Option (List Atom)} {k k' : Atom} {v w : Val}
    {xs ys : List (Atom × Val)}
    (hx : keysOk env sh ((k, v) :: xs) = true) (hy : keysOk env sh ((k', w) :: ys) = true)
    (hk : atomEq k k' = false) :
    eqD ((k, v) :: xs) ((k', w) :: ys) = false := by
  cases sh with
  | some L =>
    simp only [keysOk, keysOf, List.map_cons, Bool.and_eq_true, decide_eq_true_eq] at hx hy
    have : k = k' := by
      have := hx.1.trans hy.1.symm
      simp only [List.cons.injEq] at this
      exact this.1
    rw [this, atomEq_refl] at hk; cases hk
  | none =>
  have hx : ascKeys env ((k, v) :: xs) = true := hx
  have hy : ascKeys env ((k', w) :: ys) = true := hy
  obtain ⟨hx1, _⟩ := ascKeys_cons hx
  obtain ⟨hy1, _⟩ := ascKeys_cons hy
  have hk' : atomEq k' k = false := by rw [atomEq_symm]; exact hk
  rcases atomTri ok k k' with ⟨h1, _, _⟩ | ⟨_, h2, _⟩ | ⟨_, _, h3⟩
  · -- k < k': k is no key of the right dict
    have : hasKey k ((k', w) :: ys) = false := by
      rw [hasKey_cons, hk, Bool.false_or]
      exact hasKey_false fun q hq => (atom_ne_of_lt ok (atomLt_trans ok h1 (hy1 q hq))).1
    simp [eqD, keysSubset, this]
  · rw [hk] at h2; cases h2
  · have : hasKey k' ((k, v) :: xs) = false := by
      rw [hasKey_cons, hk', Bool.false_or]
      exact hasKey_false fun q hq => (atom_ne_of_lt ok (atomLt_trans ok h3 (hx1 q hq))).1
    simp [eqD, keysSubset, this]

theorem eqD_nil_cons (p : Atom × Val) (ys : List (Atom × Val)) : eqD [] (p :: ys) = false := by
  simp [eqD]

theorem eqD_cons_nil (p : Atom × Val) (xs : List (Atom × Val)) : eqD (p :: xs) [] = false := by
  simp [eqD]

theorem eqD_nil : eqD [] [] = true := by simp [eqD, keysSubset, eqItems]

end Pg.C06
