/- C14 — numeric recombinators: the (weighted) mean of in-range decisions is in range, so the
   children of valid parents are valid *before* `from_dict` looks at them (no ValueError). -/
import PgModel.EvoNum
import PgProofs.EvoPermP
import Mathlib.Algebra.Order.Field.Basic
import Mathlib.Tactic.Linarith
namespace Pg.C14

theorem qle_iff (a b : Q) : qle a b = true ↔ a ≤ b := by simp [qle]

/-- weighted sums of in-range values lie between `lo * W` and `hi * W`. -/
theorem wsum_bounds (lo hi : Q) : ∀ (pairs : List (Q × Q)),
    (∀ p ∈ pairs, lo ≤ p.1 ∧ p.1 ≤ hi ∧ 0 ≤ p.2) →
    lo * qsum (pairs.map (·.2)) ≤ qsum (pairs.map (fun p => p.2 * p.1)) ∧
    qsum (pairs.map (fun p => p.2 * p.1)) ≤ hi * qsum (pairs.map (·.2)) ∧
    0 ≤ qsum (pairs.map (·.2)) := by
  intro pairs
  induction pairs with
  | nil => intro _; simp [qsum]
  | cons p t ih =>
    intro h
    obtain ⟨h1, h2, h3⟩ := ih (fun q hq => h q (List.mem_cons_of_mem _ hq))
    obtain ⟨hl, hh, hw⟩ := h p List.mem_cons_self
    simp only [List.map_cons, qsum]
    refine ⟨by nlinarith, by nlinarith, by linarith⟩

theorem mem_activePairs : ∀ (vals : List (Option Q)) (ws : List Q) (p : Q × Q), p ∈ activePairs vals ws →
    some p.1 ∈ vals ∧ p.2 ∈ ws := by
  intro vals
  induction vals with
  | nil => intro ws p h; cases ws <;> simp [activePairs] at h
  | cons v vs ih =>
    intro ws p h
    cases ws with
    | nil => cases v <;> simp [activePairs] at h
    | cons w ws =>
      cases v with
      | none =>
        simp only [activePairs] at h
        obtain ⟨h1, h2⟩ := ih ws p h
        exact ⟨List.mem_cons_of_mem _ h1, List.mem_cons_of_mem _ h2⟩
      | some x =>
        simp only [activePairs, List.mem_cons] at h
        rcases h with rfl | h
        · exact ⟨List.mem_cons_self, List.mem_cons_self⟩
        · obtain ⟨h1, h2⟩ := ih ws p h
          exact ⟨List.mem_cons_of_mem _ h1, List.mem_cons_of_mem _ h2⟩

/-- the mean of the active in-range decisions is in range (non-negative weights). -/
theorem meanOf_in_range (lo hi : Q) (vals : List (Option Q)) (ws : List Q) (m : Q)
    (hv : ∀ v, some v ∈ vals → lo ≤ v ∧ v ≤ hi) (hw : ∀ w ∈ ws, 0 ≤ w)
    (h : meanOf vals ws = some m) : lo ≤ m ∧ m ≤ hi := by
  simp only [meanOf] at h
  split at h
  · cases h
  · rename_i hden
    simp only [Option.some.injEq] at h
    subst h
    obtain ⟨h1, h2, h3⟩ := wsum_bounds lo hi (activePairs vals ws) (fun p hp => by
      obtain ⟨a, b⟩ := mem_activePairs vals ws p hp
      exact ⟨(hv p.1 a).1, (hv p.1 a).2, hw p.2 b⟩)
    have hpos : 0 < qsum ((activePairs vals ws).map (·.2)) := lt_of_le_of_ne h3 (Ne.symm hden)
    exact ⟨by rw [le_div_iff₀ hpos]; exact h1, by rw [div_le_iff₀ hpos]; exact h2⟩

/-- what the restriction of the parents to a sub-tree keeps. -/
def AllValid (g : GSpec) (ps : List (Option DNA)) : Prop := ∀ d, some d ∈ ps → valid g d = true

theorem allValid_elemAt {es : List GSpec} {ps : List (Option DNA)} (h : AllValid (.space es) ps)
    (j : Nat) (e : GSpec) (he : es[j]? = some e) : AllValid e (ps.map (elemAt j)) := by
  intro d hd
  simp only [List.mem_map] at hd
  obtain ⟨p, hp, hpe⟩ := hd
  cases p with
  | none => simp [elemAt] at hpe
  | some pd =>
    have hv := h pd hp
    cases pd with
    | space ds =>
      simp only [elemAt] at hpe
      simp only [valid] at hv
      -- walk both lists to position j
      have : ∀ (es : List GSpec) (ds : List DNA) (j : Nat), validElems es ds = true → es[j]? = some e →
          ds[j]? = some d → valid e d = true := by
        intro es
        induction es with
        | nil => intro ds j _ he; simp at he
        | cons e0 es ih =>
          intro ds j hv he hd
          cases ds with
          | nil => simp at hd
          | cons d0 ds =>
            simp only [validElems, Bool.and_eq_true] at hv
            cases j with
            | zero => simp at he hd; subst he; subst hd; exact hv.1
            | succ j => simp at he hd; exact ih ds j hv.2 he hd
      exact this es ds j hv he hpe
    | choices _ => simp [elemAt] at hpe
    | sub _ _ _ => simp [elemAt] at hpe
    | float _ => simp [elemAt] at hpe

theorem allValid_below {k : Nat} {cands : List GSpec} {dist srt : Bool} {ps : List (Option DNA)}
    (h : AllValid (.choices k cands dist srt) ps) (i v : Nat) (c : GSpec) (hc : cands[v]? = some c) :
    AllValid c (ps.map (below i v)) := by
  intro d hd
  simp only [List.mem_map] at hd
  obtain ⟨p, hp, hpe⟩ := hd
  cases p with
  | none => simp [below] at hpe
  | some pd =>
    have hv := h pd hp
    cases pd with
    | choices subs =>
      simp only [below] at hpe
      obtain ⟨_, hall, _, _⟩ := (valid_choices_iff _ _ _ _ _).mp hv
      cases hs : subs[i]? with
      | none => rw [hs] at hpe; simp at hpe
      | some e =>
        rw [hs] at hpe
        have hok := hall e (List.mem_of_getElem? hs)
        cases e with
        | sub b w d0 =>
          simp only [] at hpe
          split at hpe
          · rename_i hw
            simp only [Option.some.injEq] at hpe
            subst hpe; subst hw
            simp only [entryOk, hc] at hok
            exact hok
          · cases hpe
        | space _ => simp at hpe
        | choices _ => simp at hpe
        | float _ => simp at hpe
    | space _ => simp [below] at hpe
    | sub _ _ _ => simp [below] at hpe
    | float _ => simp [below] at hpe

mutual
  theorem avgDna_valid (ws : List Q) (hw : ∀ w ∈ ws, 0 ≤ w) : ∀ (self : DNA) (g : GSpec) (ps : List (Option DNA))
      (d' : DNA), valid g self = true → AllValid g ps → avgDna ws g ps self = some d' → valid g d' = true
    | .space ds, g, ps, d', hv, hp, h => by
        cases g with
        | space es =>
          simp only [avgDna, Option.map_eq_some_iff] at h
          obtain ⟨ds', h1, rfl⟩ := h
          simp only [valid] at hv ⊢
          exact avgElems_valid ws hw ds es ps 0 ds' es (by simp) hv hp h1
        | choices k cands dist srt => simp [valid] at hv
        | float lo hi => simp [valid] at hv
    | .float v, g, ps, d', hv, hp, h => by
        cases g with
        | space es => simp [valid] at hv
        | choices k cands dist srt => simp [valid] at hv
        | float lo hi =>
          simp only [avgDna, Option.map_eq_some_iff] at h
          obtain ⟨m, h1, rfl⟩ := h
          have := meanOf_in_range lo hi (ps.map floatOf) ws m (by
            intro x hx
            simp only [List.mem_map] at hx
            obtain ⟨p, hpm, hpe⟩ := hx
            cases p with
            | none => simp [floatOf] at hpe
            | some pd =>
              have hvp := hp pd hpm
              cases pd with
              | float y =>
                simp only [floatOf, Option.some.injEq] at hpe
                subst hpe
                simp only [valid, Bool.and_eq_true, qle_iff] at hvp
                exact hvp
              | space _ => simp [floatOf] at hpe
              | choices _ => simp [floatOf] at hpe
              | sub _ _ _ => simp [floatOf] at hpe) hw h1
          simp only [valid, Bool.and_eq_true, qle_iff]
          exact this
    | .choices subs, g, ps, d', hv, hp, h => by
        cases g with
        | space es => simp [valid] at hv
        | float lo hi => simp [valid] at hv
        | choices k cands dist srt =>
          simp only [avgDna, Option.map_eq_some_iff] at h
          obtain ⟨subs', h1, rfl⟩ := h
          obtain ⟨hlen, hall, hnd, hsrt⟩ := (valid_choices_iff _ _ _ _ _).mp hv
          have hvs : validSubs cands subs = true := by
            rw [validSubs_eq_all, List.all_eq_true]; exact hall
          obtain ⟨hvl, hvals, hll⟩ := avgSubs_valid ws hw subs cands ps 0 subs' k dist srt hvs hp h1
          rw [valid_choices_iff]
          refine ⟨by rw [hll]; exact hlen, ?_, by rw [hvals]; exact hnd, by rw [hvals]; exact hsrt⟩
          rw [validSubs_eq_all, List.all_eq_true] at hvl
          exact hvl
    | .sub b v d, g, ps, d', hv, hp, h => by
        cases g <;> simp [valid] at hv
  theorem avgElems_valid (ws : List Q) (hw : ∀ w ∈ ws, 0 ≤ w) : ∀ (ds : List DNA) (es : List GSpec)
      (ps : List (Option DNA)) (j : Nat) (ds' : List DNA) (all : List GSpec),
      (∀ i e, es[i]? = some e → all[j + i]? = some e) →
      validElems es ds = true → AllValid (.space all) ps → avgElems ws es ps j ds = some ds' →
      validElems es ds' = true
    | [], es, ps, j, ds', all, hidx, hv, hp, h => by
        cases es <;> simp_all [avgElems]
    | d :: ds, es, ps, j, ds', all, hidx, hv, hp, h => by
        cases es with
        | nil => simp [validElems] at hv
        | cons e es =>
          simp only [validElems, Bool.and_eq_true] at hv
          simp only [avgElems] at h
          split at h
          · rename_i d1 r h1 h2
            simp only [Option.some.injEq] at h
            subst h
            have he : all[j]? = some e := by simpa using hidx 0 e (by simp)
            have hv1 := avgDna_valid ws hw d e (ps.map (elemAt j)) d1 hv.1 (allValid_elemAt hp j e he) h1
            have hv2 := avgElems_valid ws hw ds es ps (j + 1) r all
              (fun i e' hi => by
                have := hidx (i + 1) e' (by simpa using hi)
                simpa [Nat.add_assoc, Nat.add_comm 1 i] using this) hv.2 hp h2
            simp only [validElems, Bool.and_eq_true]
            exact ⟨hv1, hv2⟩
          · cases h
  theorem avgSubs_valid (ws : List Q) (hw : ∀ w ∈ ws, 0 ≤ w) : ∀ (subs : List DNA) (cands : List GSpec)
      (ps : List (Option DNA)) (i : Nat) (subs' : List DNA) (k : Nat) (dist srt : Bool),
      validSubs cands subs = true → AllValid (.choices k cands dist srt) ps →
      avgSubs ws cands ps i subs = some subs' →
      validSubs cands subs' = true ∧ subs'.map subVal = subs.map subVal ∧ subs'.length = subs.length
    | [], cands, ps, i, subs', k, dist, srt, hv, hp, h => by
        simp only [avgSubs, Option.some.injEq] at h
        subst h
        exact ⟨hv, rfl, rfl⟩
    | .space _ :: rest, cands, ps, i, subs', k, dist, srt, hv, hp, h => by simp [validSubs] at hv
    | .choices _ :: rest, cands, ps, i, subs', k, dist, srt, hv, hp, h => by simp [validSubs] at hv
    | .float _ :: rest, cands, ps, i, subs', k, dist, srt, hv, hp, h => by simp [validSubs] at hv
    | .sub b v d :: rest, cands, ps, i, subs', k, dist, srt, hv, hp, h => by
        simp only [validSubs, Bool.and_eq_true] at hv
        simp only [avgSubs] at h
        cases hc : cands[v]? with
        | none => rw [hc] at hv; simp at hv
        | some c =>
          rw [hc] at h hv
          simp only [] at h hv
          split at h
          · rename_i d1 r h1 h2
            simp only [Option.some.injEq] at h
            subst h
            have hv1 := avgDna_valid ws hw d c (ps.map (below i v)) d1 hv.1 (allValid_below hp i v c hc) h1
            obtain ⟨g1, g2, g3⟩ := avgSubs_valid ws hw rest cands ps (i + 1) r k dist srt hv.2 hp h2
            simp only [validSubs, hc, hv1, g1, Bool.and_self, List.map_cons, subVal, g2, List.length_cons, g3,
              and_self]
          · cases h
end

end Pg.C14
