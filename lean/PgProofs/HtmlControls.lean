/-
  C20 helper lemmas, part 4: the controls render to print-outs of well-formed documents.
-/
import PgProofs.HtmlRender
namespace Pg.C20

/-- `Html.element` with keyword properties, at document level (no options). -/
def elp (tag : Str) (cls : List Str) (styles props : List (Str × Option Str)) (children : List HNode) :
    HNode :=
  .elem tag (elementAttrs [] cls styles props) children

theorem elementp_print (tag : Str) (cls : List Str) (styles props : List (Str × Option Str))
    (chs : List Str) (doc : List HNode) (h : concatStrs chs = printNodes doc) :
    element tag [] cls styles props chs = printNode (elp tag cls styles props doc) := by
  simp [element, elp, printNode, h]

/-- Property names are names and property values fit into an attribute value. -/
def propsOk : List (Str × Option Str) → Bool
  | [] => true
  | (k, none) :: r => validName (dashed k) && propsOk r
  | (k, some v) :: r => validName (dashed k) && safeVal v && propsOk r

theorem propAttrs_wf (props : List (Str × Option Str)) (h : propsOk props = true) :
    (propAttrs props).all wfAttr = true := by
  induction props with
  | nil => rfl
  | cons p r ih =>
    obtain ⟨k, v⟩ := p
    cases v with
    | none =>
      simp only [propsOk, Bool.and_eq_true] at h
      simpa [propAttrs] using ih h.2
    | some x =>
      simp only [propsOk, Bool.and_eq_true] at h
      simp only [propAttrs, List.all_cons, Bool.and_eq_true]
      refine ⟨?_, ih h.2⟩
      simp only [wfAttr, Bool.and_eq_true]
      exact ⟨h.1.1, h.1.2⟩

theorem wfNode_elp (tag : Str) (cls : List Str) (styles props : List (Str × Option Str))
    (children : List HNode) (hv : validName tag = true) (hc : ∀ s ∈ cls, safeVal s = true)
    (hs : safeVal (styleStr styles) = true) (hp : propsOk props = true)
    (hch : wfNodes children = true) : wfNode (elp tag cls styles props children) = true := by
  have hjoin : safeVal (joinSp (dedup cls)) = true :=
    safeVal_joinSp _ (fun s hs => hc s (dedup_subset cls s hs))
  simp only [elp, wfNode, hv, hch, Bool.and_true, Bool.true_and]
  simp only [elementAttrs, dedup, joinSp, List.isEmpty_nil, if_true, List.nil_append, List.all_append,
    Bool.and_eq_true]
  refine ⟨⟨?_, ?_⟩, propAttrs_wf props hp⟩
  · unfold optAttr
    split
    · rfl
    · simp only [List.all_cons, List.all_nil, Bool.and_true, wfAttr, Bool.and_eq_true]
      exact ⟨by decide, hjoin⟩
  · unfold optAttr
    split
    · rfl
    · simp only [List.all_cons, List.all_nil, Bool.and_true, wfAttr, Bool.and_eq_true]
      exact ⟨by decide, hs⟩

theorem texts_elp (tag : Str) (cls : List Str) (st pr : List (Str × Option Str)) (ch : List HNode) :
    textsOf (elp tag cls st pr ch) = textsOfAll ch := rfl

theorem wfNodes_txt (s : Str) (h : noLt s = true) : wfNodes (txt s) = true :=
  okNodes_wf _ (okNodes_txt s h)

def optSafe : Option Str → Bool
  | none => true
  | some v => safeVal v

/-! ### Tooltip -/

def tooltipCtlDoc (content : Str) (id : Option Str) (css : List Str) (styles : List (Str × Option Str)) :
    HNode :=
  elp c!"span" (c!"tooltip" :: css) styles [(c!"id", id)] (txt (escape content))

theorem tooltipCtl_print (cs : CSites) (h : cs.tooltipContent = true) (content : Str) (id : Option Str)
    (css : List Str) (styles : List (Str × Option Str)) :
    tooltipCtl cs content id css styles = printNode (tooltipCtlDoc content id css styles) := by
  unfold tooltipCtl tooltipCtlDoc
  apply elementp_print
  simp [concatStrs, emit, h, printNodes_txt]

theorem propsOk_id (id : Option Str) (h : optSafe id = true) : propsOk [(c!"id", id)] = true := by
  cases id with
  | none => decide
  | some v =>
    simp only [propsOk, Bool.and_true, Bool.and_eq_true]
    exact ⟨by decide, h⟩

theorem tooltipCtlDoc_wf (content : Str) (id : Option Str) (css : List Str)
    (styles : List (Str × Option Str)) (hid : optSafe id = true) (hcss : ∀ s ∈ css, safeVal s = true)
    (hst : safeVal (styleStr styles) = true) : wfNode (tooltipCtlDoc content id css styles) = true := by
  unfold tooltipCtlDoc
  exact wfNode_elp _ _ _ _ _ (by decide) (mem_cons_css hcss (by decide)) hst (propsOk_id id hid)
    (wfNodes_txt _ (noLt_escape _))

/-! ### Label -/

def safeLabel (l : LabelM) : Bool :=
  l.css.all safeVal && safeVal (styleStr l.styles) && optSafe l.id && optSafe l.link && optSafe l.target
  && optSafe l.tipId

def labelTextDoc (l : LabelM) : HNode :=
  elp (if l.link.isSome then c!"a" else c!"span") (c!"label" :: l.css) l.styles
    [(c!"id", l.id), (c!"href", l.link), (c!"target", l.target)] (txt (escape l.text))

def labelDoc (l : LabelM) : HNode :=
  match l.tooltip with
  | none => labelTextDoc l
  | some t => elp c!"div" [c!"label-container"] [] [] [labelTextDoc l, tooltipCtlDoc t l.tipId [] []]

theorem labelCtl_print (cs : CSites) (h : cs.allEscaped = true) (l : LabelM) :
    labelCtl cs l = printNode (labelDoc l) := by
  simp only [CSites.allEscaped, Bool.and_eq_true] at h
  have ht : element (if l.link.isSome then c!"a" else c!"span") [] (c!"label" :: l.css) l.styles
      [(c!"id", l.id), (c!"href", l.link), (c!"target", l.target)] [emit cs.labelText l.text]
      = printNode (labelTextDoc l) := by
    unfold labelTextDoc
    apply elementp_print
    simp [concatStrs, emit, h.1.1, printNodes_txt]
  unfold labelCtl labelDoc
  cases l.tooltip with
  | none => exact ht
  | some t =>
    simp only
    apply elementp_print
    simp [concatStrs, printNodes, ht, tooltipCtl_print cs h.1.2]

theorem propsOk_label (l : LabelM) (h : safeLabel l = true) :
    propsOk [(c!"id", l.id), (c!"href", l.link), (c!"target", l.target)] = true := by
  simp only [safeLabel, Bool.and_eq_true] at h
  have h1 := h.1.1.1.2
  have h2 := h.1.1.2
  have h3 := h.1.2
  cases hid : l.id <;> cases hl : l.link <;> cases htg : l.target <;>
    simp_all [propsOk, optSafe] <;> decide

theorem labelTextDoc_wf (l : LabelM) (h : safeLabel l = true) : wfNode (labelTextDoc l) = true := by
  have hp := propsOk_label l h
  simp only [safeLabel, Bool.and_eq_true, List.all_eq_true] at h
  unfold labelTextDoc
  refine wfNode_elp _ _ _ _ _ ?_ (mem_cons_css h.1.1.1.1.1 (by decide)) h.1.1.1.1.2 hp
    (wfNodes_txt _ (noLt_escape _))
  split <;> decide

theorem wfNodes_two_elems (a b : HNode) (ha : wfNode a = true) (hb : wfNode b = true)
    (hna : isText a = false) : wfNodes [a, b] = true := by
  cases a with
  | text s => simp [isText] at hna
  | elem t as cs => simp [wfNodes, ha, hb, noAdjText]

theorem labelDoc_wf (l : LabelM) (h : safeLabel l = true) :
    wfNode (labelDoc l) = true ∧ isText (labelDoc l) = false := by
  have h1 := labelTextDoc_wf l h
  unfold labelDoc
  cases l.tooltip with
  | none => exact ⟨h1, rfl⟩
  | some t =>
    simp only
    refine ⟨wfNode_elp _ _ _ _ _ (by decide) (mem_cons_css no_css (by decide)) rfl rfl ?_, rfl⟩
    refine wfNodes_two_elems _ _ h1 ?_ rfl
    simp only [safeLabel, Bool.and_eq_true] at h
    exact tooltipCtlDoc_wf t l.tipId [] [] h.2 no_css rfl

theorem label_text_mem (l : LabelM) (h : l.text ≠ []) : escape l.text ∈ textsOf (labelDoc l) := by
  have : escape l.text ∈ textsOf (labelTextDoc l) := by
    unfold labelTextDoc
    rw [texts_elp]
    exact mem_texts_txt _ (escape_ne_nil _ h)
  unfold labelDoc
  cases l.tooltip with
  | none => exact this
  | some t => simp [texts_elp, textsOfAll, this]

theorem label_tooltip_mem (l : LabelM) (t : Str) (ht : l.tooltip = some t) (h : t ≠ []) :
    escape t ∈ textsOf (labelDoc l) := by
  unfold labelDoc
  rw [ht]
  simp only [texts_elp, textsOfAll, List.append_nil, List.mem_append]
  right
  unfold tooltipCtlDoc
  rw [texts_elp]
  exact mem_texts_txt _ (escape_ne_nil _ h)

/-! ### ProgressBar -/

def safeSub (sp : SubM) : Bool :=
  sp.css.all safeVal && optSafe sp.id && (match sp.width with | none => true | some w => safeVal w)

def subDoc (sp : SubM) : HNode :=
  elp c!"div" (c!"sub-progress" :: escape sp.cssName :: sp.css) [(c!"width", sp.width)] [(c!"id", sp.id)] []

def subDocs : List SubM → List HNode
  | [] => []
  | s :: ss => subDoc s :: subDocs ss

theorem subProgressCtl_print (cs : CSites) (h : cs.subProgressClass = true) (sp : SubM) :
    subProgressCtl cs sp = printNode (subDoc sp) := by
  unfold subProgressCtl subDoc
  simp only [emit, h, if_true]
  exact elementp_print _ _ _ _ _ _ rfl

theorem concatMap_subs (cs : CSites) (h : cs.subProgressClass = true) (subs : List SubM) :
    concatMap (subProgressCtl cs) subs = printNodes (subDocs subs) := by
  induction subs with
  | nil => rfl
  | cons s ss ih => simp [concatMap, subDocs, printNodes, subProgressCtl_print cs h, ih]

def progressBarDoc (subs : List SubM) (label : LabelM) : HNode :=
  elp c!"div" [c!"progress-bar"] [] [] [elp c!"div" [c!"shade"] [] [] (subDocs subs), labelDoc label]

theorem progressBarCtl_print (cs : CSites) (h : cs.allEscaped = true) (subs : List SubM) (label : LabelM) :
    progressBarCtl cs subs label = printNode (progressBarDoc subs label) := by
  have h' := h
  simp only [CSites.allEscaped, Bool.and_eq_true] at h'
  unfold progressBarCtl progressBarDoc
  apply elementp_print
  have : element c!"div" [] [c!"shade"] [] [] [concatMap (subProgressCtl cs) subs]
      = printNode (elp c!"div" [c!"shade"] [] [] (subDocs subs)) := by
    apply elementp_print
    simp [concatStrs, concatMap_subs cs h'.2]
  simp [concatStrs, printNodes, this, labelCtl_print cs h]

theorem subDoc_wf (sp : SubM) (h : safeSub sp = true) : wfNode (subDoc sp) = true := by
  simp only [safeSub, Bool.and_eq_true, List.all_eq_true] at h
  unfold subDoc
  refine wfNode_elp _ _ _ _ _ (by decide)
    (mem_cons_css (mem_cons_css h.1.1 (safeVal_escape _)) (by decide)) ?_ (propsOk_id _ h.1.2) rfl
  apply safeVal_styleStr
  intro p hp
  simp only [List.mem_singleton] at hp
  subst hp
  refine ⟨(by decide : safeVal (dashed c!"width") = true), fun v hv => ?_⟩
  have := h.2
  simp only at hv
  rw [hv] at this
  exact this

theorem subDocs_wf (subs : List SubM) (h : subs.all safeSub = true) : wfNodes (subDocs subs) = true := by
  induction subs with
  | nil => rfl
  | cons s ss ih =>
    simp only [List.all_cons, Bool.and_eq_true] at h
    simp only [subDocs, wfNodes, subDoc_wf s h.1, ih h.2, Bool.and_true, Bool.true_and]
    rfl

theorem progressBarDoc_wf (subs : List SubM) (label : LabelM) (hs : subs.all safeSub = true)
    (hl : safeLabel label = true) : wfNode (progressBarDoc subs label) = true := by
  unfold progressBarDoc
  refine wfNode_elp _ _ _ _ _ (by decide) (mem_cons_css no_css (by decide)) rfl rfl ?_
  have h1 : wfNode (elp c!"div" [c!"shade"] [] [] (subDocs subs)) = true :=
    wfNode_elp _ _ _ _ _ (by decide) (mem_cons_css no_css (by decide)) rfl rfl (subDocs_wf subs hs)
  exact wfNodes_two_elems _ _ h1 (labelDoc_wf label hl).1 rfl

/-! ### TabControl -/

/-- A tab whose content is given as a document (the model's `TabM.content` is its print-out). -/
structure TabW where
  label : LabelM
  nodes : List HNode
  css : List Str := []
  id : Option Str

def TabW.toM (w : TabW) : TabM := { label := w.label, content := printNodes w.nodes, css := w.css, id := w.id }

def safeTab (ctlId : Str) (w : TabW) : Bool :=
  safeLabel w.label && wfNodes w.nodes && w.css.all safeVal && optSafe w.id && safeVal ctlId

def onclickText (ctlId : Str) (id : Option Str) : Str :=
  c!"openTab(event, '" ++ ctlId ++ c!"', '" ++ id.getD c!"None" ++ c!"')"

def selCls (i selected : Nat) (css : List Str) : List Str :=
  (if i == selected then [c!"selected"] else []) ++ css

def tabButtonDocs (ctlId : Str) (selected : Nat) : Nat → List TabW → List HNode
  | _, [] => []
  | i, w :: ws =>
    elp c!"button" (c!"tab-button" :: selCls i selected w.css) []
      [(c!"onclick", some (onclickText ctlId w.id))] [labelDoc w.label]
    :: tabButtonDocs ctlId selected (i + 1) ws

def tabContentDocs (selected : Nat) : Nat → List TabW → List HNode
  | _, [] => []
  | i, w :: ws =>
    elp c!"div" (c!"tab-content" :: selCls i selected w.css) [] [(c!"id", w.id)] w.nodes
    :: tabContentDocs selected (i + 1) ws

theorem tabButtons_print (cs : CSites) (h : cs.allEscaped = true) (ctlId : Str) (selected : Nat)
    (i : Nat) (ws : List TabW) :
    tabButtons cs ctlId selected i (ws.map TabW.toM) = printNodes (tabButtonDocs ctlId selected i ws) := by
  induction ws generalizing i with
  | nil => rfl
  | cons w ws ih =>
    simp only [List.map_cons, tabButtons, tabButtonDocs, printNodes, ih]
    congr 1
    exact elementp_print _ _ _ _ _ _ (by simp [concatStrs, printNodes, TabW.toM, labelCtl_print cs h])

theorem tabContents_print (selected : Nat) (i : Nat) (ws : List TabW) :
    tabContents selected i (ws.map TabW.toM) = printNodes (tabContentDocs selected i ws) := by
  induction ws generalizing i with
  | nil => rfl
  | cons w ws ih =>
    simp only [List.map_cons, tabContents, tabContentDocs, printNodes, ih]
    congr 1
    exact elementp_print _ _ _ _ _ _ (by simp [concatStrs, TabW.toM])

def tabDoc (ctlId : Str) (bgId cgId : Option Str) (left : Bool) (selected : Nat) (css : List Str)
    (styles : List (Str × Option Str)) (ws : List TabW) : HNode :=
  let pos := if left then c!"left" else c!"top"
  let bg := elp c!"div" (c!"tab-button-group" :: pos :: css) [] [(c!"id", bgId)]
              (tabButtonDocs ctlId selected 0 ws)
  let cg := elp c!"div" (c!"tab-content-group" :: pos :: css) [] [(c!"id", cgId)]
              (tabContentDocs selected 0 ws)
  elp c!"table" [c!"tab-control"] styles []
    (if left then [elp c!"tr" [] [] [] [elp c!"td" [] [] [] [bg], elp c!"td" [] [] [] [cg]]]
     else [elp c!"tr" [] [] [] [elp c!"td" [] [] [] [bg]], elp c!"tr" [] [] [] [elp c!"td" [] [] [] [cg]]])

theorem tabCtl_print (cs : CSites) (h : cs.allEscaped = true) (ctlId : Str) (bgId cgId : Option Str)
    (left : Bool) (selected : Nat) (css : List Str) (styles : List (Str × Option Str)) (ws : List TabW) :
    tabCtl cs ctlId bgId cgId left selected css styles (ws.map TabW.toM)
      = printNode (tabDoc ctlId bgId cgId left selected css styles ws) := by
  unfold tabCtl tabDoc
  apply elementp_print
  have hb := elementp_print c!"div" (c!"tab-button-group" :: (if left then c!"left" else c!"top") :: css) []
    [(c!"id", bgId)] [tabButtons cs ctlId selected 0 (ws.map TabW.toM)] (tabButtonDocs ctlId selected 0 ws)
    (by simp [concatStrs, tabButtons_print cs h])
  have hc := elementp_print c!"div" (c!"tab-content-group" :: (if left then c!"left" else c!"top") :: css) []
    [(c!"id", cgId)] [tabContents selected 0 (ws.map TabW.toM)] (tabContentDocs selected 0 ws)
    (by simp [concatStrs, tabContents_print])
  simp only [concatStrs, List.append_nil]
  rw [hb, hc]
  cases left <;>
    simp [printNodes, printNode, elp, elementAttrs, openTag, closeTag, attrsStr, optAttr, joinSp, dedup,
      styleStr, propAttrs]

theorem selCls_safe (i selected : Nat) (css : List Str) (h : ∀ s ∈ css, safeVal s = true) :
    ∀ s ∈ selCls i selected css, safeVal s = true := by
  intro s hs
  unfold selCls at hs
  simp only [List.mem_append] at hs
  rcases hs with hs | hs
  · split at hs
    · simp only [List.mem_singleton] at hs; subst hs; decide
    · cases hs
  · exact h s hs

theorem onclick_safe (ctlId : Str) (id : Option Str) (h1 : safeVal ctlId = true) (h2 : optSafe id = true) :
    safeVal (onclickText ctlId id) = true := by
  unfold onclickText
  refine safeVal_append _ _ (safeVal_append _ _ (safeVal_append _ _ (safeVal_append _ _ (by decide) h1)
    (by decide)) ?_) (by decide)
  cases id with
  | none => decide
  | some v => exact h2

theorem wfNodes_cons_elem (a : HNode) (ns : List HNode) (ha : wfNode a = true) (hna : isText a = false)
    (hns : wfNodes ns = true) : wfNodes (a :: ns) = true := by
  cases a with
  | text s => simp [isText] at hna
  | elem t as cs => simp [wfNodes, ha, hns, noAdjText]

theorem tabButtonDocs_wf (ctlId : Str) (selected i : Nat) (ws : List TabW)
    (h : ws.all (safeTab ctlId) = true) : wfNodes (tabButtonDocs ctlId selected i ws) = true := by
  induction ws generalizing i with
  | nil => rfl
  | cons w ws ih =>
    simp only [List.all_cons, Bool.and_eq_true] at h
    have hw := h.1
    simp only [safeTab, Bool.and_eq_true, List.all_eq_true] at hw
    simp only [tabButtonDocs]
    refine wfNodes_cons_elem _ _ ?_ rfl (ih (i + 1) h.2)
    refine wfNode_elp _ _ _ _ _ (by decide) (mem_cons_css (selCls_safe _ _ _ hw.1.1.2) (by decide)) rfl ?_ ?_
    · simp only [propsOk, Bool.and_true, Bool.and_eq_true]
      exact ⟨by decide, onclick_safe ctlId w.id hw.2 hw.1.2⟩
    · have := labelDoc_wf w.label hw.1.1.1.1
      cases hl : labelDoc w.label with
      | text s => rw [hl] at this; simp [isText] at this
      | elem t as cs => rw [hl] at this; simp [wfNodes, this.1, noAdjText]

theorem tabContentDocs_wf (ctlId : Str) (selected i : Nat) (ws : List TabW)
    (h : ws.all (safeTab ctlId) = true) : wfNodes (tabContentDocs selected i ws) = true := by
  induction ws generalizing i with
  | nil => rfl
  | cons w ws ih =>
    simp only [List.all_cons, Bool.and_eq_true] at h
    have hw := h.1
    simp only [safeTab, Bool.and_eq_true, List.all_eq_true] at hw
    simp only [tabContentDocs]
    refine wfNodes_cons_elem _ _ ?_ rfl (ih (i + 1) h.2)
    exact wfNode_elp _ _ _ _ _ (by decide) (mem_cons_css (selCls_safe _ _ _ hw.1.1.2) (by decide)) rfl
      (propsOk_id _ hw.1.2) hw.1.1.1.2

theorem wfNodes_one (a : HNode) (ha : wfNode a = true) (hna : isText a = false) : wfNodes [a] = true :=
  wfNodes_cons_elem a [] ha hna rfl

theorem tabDoc_wf (ctlId : Str) (bgId cgId : Option Str) (left : Bool) (selected : Nat) (css : List Str)
    (styles : List (Str × Option Str)) (ws : List TabW) (hws : ws.all (safeTab ctlId) = true)
    (hbg : optSafe bgId = true) (hcg : optSafe cgId = true) (hcss : ∀ s ∈ css, safeVal s = true)
    (hst : safeVal (styleStr styles) = true) :
    wfNode (tabDoc ctlId bgId cgId left selected css styles ws) = true := by
  unfold tabDoc
  have hpos : safeVal (if left then c!"left" else c!"top") = true := by cases left <;> decide
  have hb : wfNode (elp c!"div" (c!"tab-button-group" :: (if left then c!"left" else c!"top") :: css) []
      [(c!"id", bgId)] (tabButtonDocs ctlId selected 0 ws)) = true :=
    wfNode_elp _ _ _ _ _ (by decide) (mem_cons_css (mem_cons_css hcss hpos) (by decide)) rfl
      (propsOk_id _ hbg) (tabButtonDocs_wf ctlId selected 0 ws hws)
  have hc : wfNode (elp c!"div" (c!"tab-content-group" :: (if left then c!"left" else c!"top") :: css) []
      [(c!"id", cgId)] (tabContentDocs selected 0 ws)) = true :=
    wfNode_elp _ _ _ _ _ (by decide) (mem_cons_css (mem_cons_css hcss hpos) (by decide)) rfl
      (propsOk_id _ hcg) (tabContentDocs_wf ctlId selected 0 ws hws)
  have td : ∀ n, wfNode n = true → isText n = false → wfNode (elp c!"td" [] [] [] [n]) = true :=
    fun n hn hne => wfNode_elp _ _ _ _ _ (by decide) no_css rfl rfl (wfNodes_one n hn hne)
  refine wfNode_elp _ _ _ _ _ (by decide) (mem_cons_css no_css (by decide)) hst rfl ?_
  cases left with
  | true =>
    simp only [if_true]
    refine wfNodes_one _ (wfNode_elp _ _ _ _ _ (by decide) no_css rfl rfl ?_) rfl
    exact wfNodes_two_elems _ _ (td _ hb rfl) (td _ hc rfl) rfl
  | false =>
    simp only [Bool.false_eq_true, if_false]
    refine wfNodes_two_elems _ _ ?_ ?_ rfl
    · exact wfNode_elp _ _ _ _ _ (by decide) no_css rfl rfl (wfNodes_one _ (td _ hb rfl) rfl)
    · exact wfNode_elp _ _ _ _ _ (by decide) no_css rfl rfl (wfNodes_one _ (td _ hc rfl) rfl)

end Pg.C20

namespace Pg.C20

/-! ### vocabulary of the controls -/

/-- Element names the controls emit. -/
def ctlTags : List Str := [c!"span", c!"a", c!"div", c!"button", c!"table", c!"tr", c!"td"]
/-- Attribute names the controls emit. -/
def ctlAttrs : List Str := [c!"class", c!"style", c!"id", c!"href", c!"target", c!"onclick"]

mutual
  /-- Every element / attribute name of the document is in the controls' vocabulary. -/
  def ctlVocab : HNode → Bool
    | .text _ => true
    | .elem tag attrs cs => ctlTags.contains tag && attrs.all (fun a => ctlAttrs.contains a.name) && ctlVocabAll cs
  def ctlVocabAll : List HNode → Bool
    | [] => true
    | n :: ns => ctlVocab n && ctlVocabAll ns
end

mutual
  theorem ctlVocab_tags (n : HNode) (h : ctlVocab n = true) : ∀ t ∈ tagsOf n, t ∈ ctlTags := by
    cases n with
    | text s => intro t ht; simp [tagsOf] at ht
    | elem tag attrs cs =>
      simp only [ctlVocab, Bool.and_eq_true, List.contains_iff_mem] at h
      intro t ht
      simp only [tagsOf, List.mem_cons] at ht
      rcases ht with rfl | ht
      · exact h.1.1
      · exact ctlVocabAll_tags cs h.2 t ht
  theorem ctlVocabAll_tags (ns : List HNode) (h : ctlVocabAll ns = true) :
      ∀ t ∈ tagsOfAll ns, t ∈ ctlTags := by
    cases ns with
    | nil => intro t ht; simp [tagsOfAll] at ht
    | cons n ns =>
      simp only [ctlVocabAll, Bool.and_eq_true] at h
      intro t ht
      simp only [tagsOfAll, List.mem_append] at ht
      rcases ht with ht | ht
      · exact ctlVocab_tags n h.1 t ht
      · exact ctlVocabAll_tags ns h.2 t ht
end

mutual
  theorem ctlVocab_attrs (n : HNode) (h : ctlVocab n = true) : ∀ a ∈ attrNamesOf n, a ∈ ctlAttrs := by
    cases n with
    | text s => intro t ht; simp [attrNamesOf] at ht
    | elem tag attrs cs =>
      simp only [ctlVocab, Bool.and_eq_true, List.all_eq_true, List.contains_iff_mem] at h
      intro t ht
      simp only [attrNamesOf, List.mem_append, List.mem_map] at ht
      rcases ht with ⟨a, ha, rfl⟩ | ht
      · exact h.1.2 a ha
      · exact ctlVocabAll_attrs cs h.2 t ht
  theorem ctlVocabAll_attrs (ns : List HNode) (h : ctlVocabAll ns = true) :
      ∀ a ∈ attrNamesOfAll ns, a ∈ ctlAttrs := by
    cases ns with
    | nil => intro t ht; simp [attrNamesOfAll] at ht
    | cons n ns =>
      simp only [ctlVocabAll, Bool.and_eq_true] at h
      intro t ht
      simp only [attrNamesOfAll, List.mem_append] at ht
      rcases ht with ht | ht
      · exact ctlVocab_attrs n h.1 t ht
      · exact ctlVocabAll_attrs ns h.2 t ht
end

/-- Property names (after `_` → `-`) are in the vocabulary. -/
def propNamesOk : List (Str × Option Str) → Bool
  | [] => true
  | (k, _) :: r => ctlAttrs.contains (dashed k) && propNamesOk r

theorem propAttrs_vocab (props : List (Str × Option Str)) (h : propNamesOk props = true) :
    (propAttrs props).all (fun a => ctlAttrs.contains a.name) = true := by
  induction props with
  | nil => rfl
  | cons p r ih =>
    obtain ⟨k, v⟩ := p
    simp only [propNamesOk, Bool.and_eq_true] at h
    cases v with
    | none => simpa [propAttrs] using ih h.2
    | some x => simp only [propAttrs, List.all_cons, h.1, ih h.2, Bool.and_self]

theorem ctlVocab_elp (tag : Str) (cls : List Str) (styles props : List (Str × Option Str))
    (children : List HNode) (ht : ctlTags.contains tag = true) (hp : propNamesOk props = true)
    (hch : ctlVocabAll children = true) : ctlVocab (elp tag cls styles props children) = true := by
  simp only [elp, ctlVocab, ht, hch, Bool.and_true, Bool.true_and]
  simp only [elementAttrs, dedup, joinSp, List.isEmpty_nil, if_true, List.nil_append, List.all_append,
    Bool.and_eq_true]
  refine ⟨⟨?_, ?_⟩, propAttrs_vocab props hp⟩
  · unfold optAttr; split
    · rfl
    · simp only [List.all_cons, List.all_nil, Bool.and_true]; decide
  · unfold optAttr; split
    · rfl
    · simp only [List.all_cons, List.all_nil, Bool.and_true]; decide

theorem ctlVocabAll_txt (s : Str) : ctlVocabAll (txt s) = true := by
  unfold txt; split <;> rfl

theorem tooltipCtlDoc_vocab (content : Str) (id : Option Str) (css : List Str)
    (styles : List (Str × Option Str)) : ctlVocab (tooltipCtlDoc content id css styles) = true :=
  ctlVocab_elp _ _ _ _ _ (by decide) rfl (ctlVocabAll_txt _)

theorem labelTextDoc_vocab (l : LabelM) : ctlVocab (labelTextDoc l) = true := by
  unfold labelTextDoc
  refine ctlVocab_elp _ _ _ _ _ ?_ rfl (ctlVocabAll_txt _)
  split <;> decide

theorem labelDoc_vocab (l : LabelM) : ctlVocab (labelDoc l) = true := by
  unfold labelDoc
  cases l.tooltip with
  | none => exact labelTextDoc_vocab l
  | some t =>
    simp only
    refine ctlVocab_elp _ _ _ _ _ (by decide) rfl ?_
    simp [ctlVocabAll, labelTextDoc_vocab, tooltipCtlDoc_vocab]

theorem subDocs_vocab (subs : List SubM) : ctlVocabAll (subDocs subs) = true := by
  induction subs with
  | nil => rfl
  | cons s ss ih =>
    simp only [subDocs, ctlVocabAll, ih, Bool.and_true]
    exact ctlVocab_elp _ _ _ _ _ (by decide) rfl rfl

theorem progressBarDoc_vocab (subs : List SubM) (label : LabelM) :
    ctlVocab (progressBarDoc subs label) = true := by
  unfold progressBarDoc
  refine ctlVocab_elp _ _ _ _ _ (by decide) rfl ?_
  simp only [ctlVocabAll, labelDoc_vocab, Bool.and_true]
  exact ctlVocab_elp _ _ _ _ _ (by decide) rfl (subDocs_vocab subs)

theorem tabButtonDocs_vocab (ctlId : Str) (selected i : Nat) (ws : List TabW) :
    ctlVocabAll (tabButtonDocs ctlId selected i ws) = true := by
  induction ws generalizing i with
  | nil => rfl
  | cons w ws ih =>
    simp only [tabButtonDocs, ctlVocabAll, ih, Bool.and_true]
    refine ctlVocab_elp _ _ _ _ _ (by decide) rfl ?_
    simp [ctlVocabAll, labelDoc_vocab]

theorem tabContentDocs_vocab (selected i : Nat) (ws : List TabW)
    (h : ws.all (fun w => ctlVocabAll w.nodes) = true) :
    ctlVocabAll (tabContentDocs selected i ws) = true := by
  induction ws generalizing i with
  | nil => rfl
  | cons w ws ih =>
    simp only [List.all_cons, Bool.and_eq_true] at h
    simp only [tabContentDocs, ctlVocabAll, ih (i + 1) h.2, Bool.and_true]
    exact ctlVocab_elp _ _ _ _ _ (by decide) rfl h.1

theorem tabDoc_vocab (ctlId : Str) (bgId cgId : Option Str) (left : Bool) (selected : Nat) (css : List Str)
    (styles : List (Str × Option Str)) (ws : List TabW)
    (h : ws.all (fun w => ctlVocabAll w.nodes) = true) :
    ctlVocab (tabDoc ctlId bgId cgId left selected css styles ws) = true := by
  unfold tabDoc
  have hb : ∀ pos : Str, ctlVocab (elp c!"div" (c!"tab-button-group" :: pos :: css) []
      [(c!"id", bgId)] (tabButtonDocs ctlId selected 0 ws)) = true :=
    fun pos => ctlVocab_elp _ _ _ _ _ (by decide) rfl (tabButtonDocs_vocab ctlId selected 0 ws)
  have hc : ∀ pos : Str, ctlVocab (elp c!"div" (c!"tab-content-group" :: pos :: css) []
      [(c!"id", cgId)] (tabContentDocs selected 0 ws)) = true :=
    fun pos => ctlVocab_elp _ _ _ _ _ (by decide) rfl (tabContentDocs_vocab selected 0 ws h)
  have td : ∀ n, ctlVocab n = true → ctlVocab (elp c!"td" [] [] [] [n]) = true :=
    fun n hn => ctlVocab_elp _ _ _ _ _ (by decide) rfl (by simp [ctlVocabAll, hn])
  refine ctlVocab_elp _ _ _ _ _ (by decide) rfl ?_
  cases left with
  | true =>
    simp only [if_true, ctlVocabAll, Bool.and_true]
    exact ctlVocab_elp _ _ _ _ _ (by decide) rfl (by simp [ctlVocabAll, td _ (hb _), td _ (hc _)])
  | false =>
    simp only [Bool.false_eq_true, if_false, ctlVocabAll, Bool.and_true, Bool.and_eq_true]
    exact ⟨ctlVocab_elp _ _ _ _ _ (by decide) rfl (by simp [ctlVocabAll, td _ (hb _)]),
           ctlVocab_elp _ _ _ _ _ (by decide) rfl (by simp [ctlVocabAll, td _ (hc _)])⟩

end Pg.C20
