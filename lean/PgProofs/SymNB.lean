/-
  Every write primitive keeps the ids of the forest distinct and below the counter (`NB`),
  provided no node object had to be put in two places (`aliased` stays false).
-/
import PgProofs.SymIds
namespace Pg.Sym

/-! ### `find?` returns *the* node with that id -/

mutual
  theorem subnode_id_mem : (t : Tree) → ∀ s ∈ t.subnodes, ∀ id, s.id? = some id → id ∈ t.ids
    | .leaf _, s, h, _, _ => by simp [Tree.subnodes] at h
    | .node m xs, s, h, id, hid => by
      simp only [Tree.subnodes, List.mem_cons] at h
      rcases h with rfl | h
      · simp only [Tree.id?, Tree.meta?, Option.map_some, Option.some.injEq] at hid
        simp [Tree.ids, hid]
      · simp only [Tree.ids, List.mem_cons]
        exact Or.inr (subnodeItems_id_mem xs s h id hid)
  theorem subnodeItems_id_mem : (xs : Items) → ∀ s ∈ subnodesItems xs, ∀ id, s.id? = some id → id ∈ idsItems xs
    | [], s, h, _, _ => by simp [subnodesItems] at h
    | (k, c) :: r, s, h, id, hid => by
      simp only [subnodesItems, List.mem_append] at h
      simp only [idsItems, List.mem_append]
      rcases h with h | h
      · exact Or.inl (subnode_id_mem c s h id hid)
      · exact Or.inr (subnodeItems_id_mem r s h id hid)
end

theorem find?_none_of_not_mem (id : Nat) (t : Tree) (h : id ∉ t.ids) : t.find? id = none := by
  cases hf : t.find? id with
  | none => rfl
  | some s => exact absurd (find?_some id t s hf).2 h

mutual
  theorem find?_of_subnode (id : Nat) : (t : Tree) → t.ids.count id ≤ 1 → ∀ s ∈ t.subnodes, s.id? = some id →
      t.find? id = some s
    | .leaf _, _, s, h, _ => by simp [Tree.subnodes] at h
    | .node m xs, hc, s, h, hid => by
      simp only [Tree.subnodes, List.mem_cons] at h
      unfold Tree.find?
      rcases h with rfl | h
      · simp only [Tree.id?, Tree.meta?, Option.map_some, Option.some.injEq] at hid
        simp [hid]
      · have hmem := subnodeItems_id_mem xs s h id hid
        have h1 := count_pos_of_mem hmem
        simp only [Tree.ids, List.count_cons] at hc
        have hne : ¬ m.id = id := by
          intro he; simp [he] at hc; omega
        simp only [hne, if_false]
        exact findItems?_of_subnode id xs (by simp [hne] at hc; omega) s h hid
  theorem findItems?_of_subnode (id : Nat) : (xs : Items) → (idsItems xs).count id ≤ 1 → ∀ s ∈ subnodesItems xs,
      s.id? = some id → findItems? id xs = some s
    | [], _, s, h, _ => by simp [subnodesItems] at h
    | (k, c) :: r, hc, s, h, hid => by
      simp only [subnodesItems, List.mem_append] at h
      simp only [idsItems, List.count_append] at hc
      unfold findItems?
      rcases h with h | h
      · rw [find?_of_subnode id c (by omega) s h hid]
      · have hmem := subnodeItems_id_mem r s h id hid
        have h1 := count_pos_of_mem hmem
        have hc0 : c.ids.count id = 0 := by omega
        rw [find?_none_of_not_mem id c (not_mem_of_count_zero hc0)]
        exact findItems?_of_subnode id r (by omega) s h hid
end

theorem roots_find_of_subnode (id : Nat) : (rs : List Tree) → (idsRoots rs).count id ≤ 1 →
    ∀ s ∈ rs.flatMap Tree.subnodes, s.id? = some id → rs.findSome? (Tree.find? id) = some s
  | [], _, s, h, _ => by simp at h
  | r :: rs, hc, s, h, hid => by
    simp only [List.flatMap_cons, List.mem_append] at h
    rw [idsRoots_cons, List.count_append] at hc
    simp only [List.findSome?_cons]
    rcases h with h | h
    · rw [find?_of_subnode id r (by omega) s h hid]
    · have hmem : id ∈ idsRoots rs := by
        simp only [List.mem_flatMap] at h
        obtain ⟨x, hx, hs⟩ := h
        simp only [idsRoots, List.mem_flatMap]
        exact ⟨x, hx, subnode_id_mem x s hs id hid⟩
      have h1 := count_pos_of_mem hmem
      have hc0 : r.ids.count id = 0 := by omega
      rw [find?_none_of_not_mem id r (not_mem_of_count_zero hc0)]
      exact roots_find_of_subnode id rs (by omega) s (by simpa using h) hid

mutual
  theorem find?_mem_subnodes (id : Nat) : (t : Tree) → ∀ s, t.find? id = some s → s ∈ t.subnodes
    | .leaf _, s, h => by simp [Tree.find?] at h
    | .node m xs, s, h => by
      unfold Tree.find? at h
      simp only [Tree.subnodes, List.mem_cons]
      split at h
      · cases h; exact Or.inl rfl
      · exact Or.inr (findItems?_mem_subnodes id xs s h)
  theorem findItems?_mem_subnodes (id : Nat) : (xs : Items) → ∀ s, findItems? id xs = some s → s ∈ subnodesItems xs
    | [], s, h => by simp [findItems?] at h
    | (k, c) :: r, s, h => by
      unfold findItems? at h
      simp only [subnodesItems, List.mem_append]
      split at h
      · next t heq => cases h; exact Or.inl (find?_mem_subnodes id c _ heq)
      · exact Or.inr (findItems?_mem_subnodes id r s h)
end

theorem roots_find_mem_nodes (id : Nat) : (rs : List Tree) → ∀ s, rs.findSome? (Tree.find? id) = some s →
    s ∈ rs.flatMap Tree.subnodes
  | [], s, h => by simp at h
  | r :: rs, s, h => by
    simp only [List.findSome?_cons] at h
    simp only [List.flatMap_cons, List.mem_append]
    split at h
    · next t heq => cases h; exact Or.inl (find?_mem_subnodes id r _ heq)
    · exact Or.inr (roots_find_mem_nodes id rs s h)

theorem Forest.find?_mem_nodes (f : Forest) (id : Nat) (s : Tree) (h : f.find? id = some s) : s ∈ f.nodes :=
  roots_find_mem_nodes id f.roots s h

mutual
  theorem subnodes_trans : (t : Tree) → ∀ s ∈ t.subnodes, ∀ x ∈ s.subnodes, x ∈ t.subnodes
    | .leaf _, s, h, _, _ => by simp [Tree.subnodes] at h
    | .node m xs, s, h, x, hx => by
      simp only [Tree.subnodes, List.mem_cons] at h
      rcases h with rfl | h
      · exact hx
      · simp only [Tree.subnodes, List.mem_cons]
        exact Or.inr (subnodesItems_trans xs s h x hx)
  theorem subnodesItems_trans : (xs : Items) → ∀ s ∈ subnodesItems xs, ∀ x ∈ s.subnodes, x ∈ subnodesItems xs
    | [], s, h, _, _ => by simp [subnodesItems] at h
    | (k, c) :: r, s, h, x, hx => by
      simp only [subnodesItems, List.mem_append] at h ⊢
      rcases h with h | h
      · exact Or.inl (subnodes_trans c s h x hx)
      · exact Or.inr (subnodesItems_trans r s h x hx)
end

theorem child_mem_subnodesItems : (xs : Items) → ∀ k cm cits, getKey xs k = some (.node cm cits) →
    Tree.node cm cits ∈ subnodesItems xs
  | [], k, cm, cits, h => by simp [getKey] at h
  | (k', c) :: r, k, cm, cits, h => by
    rw [getKey_cons] at h
    simp only [subnodesItems, List.mem_append]
    split at h
    · cases h; exact Or.inl (by simp [Tree.subnodes])
    · exact Or.inr (child_mem_subnodesItems r k cm cits h)

/-- the child stored under a key of a node found in a forest without duplicate ids is what
`find?` returns for the child's id. -/
theorem Forest.find?_child (f : Forest) (hn : NB f) (t : Nat) (m : Meta) (its : Items)
    (hfind : f.find? t = some (.node m its)) (k : Key) (cm : Meta) (cits : Items)
    (hk : getKey its k = some (.node cm cits)) : f.find? cm.id = some (.node cm cits) := by
  have h1 := Forest.find?_mem_nodes f t _ hfind
  have h2 : Tree.node cm cits ∈ (Tree.node m its).subnodes := by
    simp only [Tree.subnodes, List.mem_cons]
    exact Or.inr (child_mem_subnodesItems its k cm cits hk)
  have h3 : Tree.node cm cits ∈ f.nodes := by
    unfold Forest.nodes at h1 ⊢
    simp only [List.mem_flatMap] at h1 ⊢
    obtain ⟨r, hr, hs⟩ := h1
    exact ⟨r, hr, subnodes_trans r _ hs _ h2⟩
  exact roots_find_of_subnode cm.id f.roots (hn.nodup cm.id) _ h3 (by simp [Tree.id?, Tree.meta?])

end Pg.Sym

namespace Pg.Sym

/-! ### generic steps -/

theorem NB.of_bounds {f g : Forest} (hn : NB f) (hnext : f.nextId ≤ g.nextId)
    (h1 : ∀ i, i < f.nextId → g.ids.count i ≤ f.ids.count i)
    (h2 : ∀ i, f.nextId ≤ i → g.ids.count i ≤ 1)
    (h3 : ∀ i, g.nextId ≤ i → g.ids.count i = 0) : NB g := by
  constructor
  · intro i
    by_cases hi : i < f.nextId
    · have := h1 i hi; have := hn.nodup i; omega
    · exact h2 i (by omega)
  · exact h3

theorem roots_find_node (t : Nat) : (rs : List Tree) → ∀ s, rs.findSome? (Tree.find? t) = some s →
    ∃ m its, s = .node m its ∧ m.id = t
  | [], s, h => by simp at h
  | r :: rs, s, h => by
    simp only [List.findSome?_cons] at h
    split at h
    · next s' hs => cases h; exact (find?_some t r _ hs).1
    · exact roots_find_node t rs s h

theorem Forest.find?_id (f : Forest) (t : Nat) (m : Meta) (its : Items) (h : f.find? t = some (.node m its)) : m.id = t := by
  obtain ⟨m', its', heq, hid⟩ := roots_find_node t f.roots _ h
  cases heq; exact hid

/-- a local rewrite that changes the ids of the item list by at most what `hg` allows. -/
theorem mapAt_le (f : Forest) (hn : NB f) (t : Nat) (g : Meta → Items → Items)
    (hg : ∀ m its i, (idsItems (g m its)).count i ≤ (idsItems its).count i) (i : Nat) :
    (f.mapAt t g).ids.count i ≤ f.ids.count i := by
  cases hfind : f.find? t with
  | none =>
    have : (f.mapAt t g).roots = f.roots := roots_map_noop t g f.roots (roots_find_none t f.roots hfind)
    show (idsRoots (f.mapAt t g).roots).count i ≤ _
    rw [this]; exact Nat.le_refl _
  | some s =>
    obtain ⟨m, its, rfl, _⟩ := roots_find_node t f.roots s hfind
    have := mapAt_count f t g (hn.nodup t) m its hfind i
    have := hg m its i
    omega

theorem NB.mapAt_le {f : Forest} (hn : NB f) (t : Nat) (g : Meta → Items → Items)
    (hg : ∀ m its i, (idsItems (g m its)).count i ≤ (idsItems its).count i) : NB (f.mapAt t g) :=
  hn.of_bounds (Nat.le_refl _) (fun i _ => Pg.Sym.mapAt_le f hn t g hg i)
    (fun i hi => by have := Pg.Sym.mapAt_le f hn t g hg i; have := hn.bound i hi; omega)
    (fun i hi => by have := Pg.Sym.mapAt_le f hn t g hg i; have := hn.bound i hi; omega)

theorem onChangeAt_nb {f : Forest} (hn : NB f) (id : Nat) : NB (onChangeAt f id) := by
  unfold onChangeAt
  apply hn.mapAt_le
  intro m its i
  split
  · rw [listOnChange_count]; exact Nat.le_refl _
  · exact Nat.le_refl _

theorem notify_nb {f : Forest} (hn : NB f) (targets : List Nat) : NB (notify f targets) := by
  unfold notify
  generalize ((targets.flatMap (chainFrom f (f.ids.length + 1))).eraseDups) = chain
  induction chain generalizing f with
  | nil => exact hn
  | cons c cs ih => exact ih (onChangeAt_nb hn c)

theorem notify_aliased (f : Forest) (targets : List Nat) : (notify f targets).aliased = f.aliased := by
  unfold notify
  generalize ((targets.flatMap (chainFrom f (f.ids.length + 1))).eraseDups) = chain
  induction chain generalizing f with
  | nil => rfl
  | cons c cs ih => simp only [List.foldl_cons]; rw [ih]; rfl

theorem addRoot_aliased (f : Forest) (t : Tree) : (f.addRoot t).aliased = f.aliased := by
  unfold Forest.addRoot; split <;> rfl

theorem addRoots_aliased (ts : List Tree) : ∀ f : Forest, (addRoots f ts).aliased = f.aliased := by
  induction ts with
  | nil => intro f; rfl
  | cons t ts ih => intro f; simp only [addRoots, List.foldl_cons] at ih ⊢; rw [ih, addRoot_aliased]

theorem allow_nil (f f' : Forest) (i : Nat) : allow f f' [] i = 0 := by
  unfold allow; split <;> simp

theorem pendOk_none (f : Forest) : PendOk f none [] := by
  constructor
  · intro _ _ h _; cases h
  · intro _ _; simp

/-- after the evaluation of the offered value the written container is still where it was. -/
theorem survive (f r1 : Forest) (hn : NB f) (hm : EvalMono f r1) (t : Nat) (m : Meta) (its : Items)
    (hfind : f.find? t = some (.node m its)) (hs : ¬ (r1.find? t).isNone = true) :
    r1.find? t = some (.node m its) := by
  cases h1 : r1.find? t with
  | none => exact absurd (by simp [h1]) hs
  | some s =>
    have := roots_find_sublist t hm.roots (hn.nodup t) s h1
    have h2 : f.find? t = some s := this
    rw [hfind] at h2; cases h2; rfl

end Pg.Sym

namespace Pg.Sym

/-! ### the write primitives -/

theorem slotIds_of_getKey {its : Items} {k : Key} {old : Tree} (h : getKey its k = some old) :
    slotIds its k = old.ids := by unfold slotIds; rw [h]; rfl

/-- shared tail: from the accounting of the evaluation and the exact effect of the store. -/
theorem nb_of_eval (f r1 g : Forest) (tv : List Nat) (hn : NB f) (hm : EvalMono f r1) (he : EvalIds f r1 tv [])
    (hnext : g.nextId = r1.nextId) (hcount : ∀ i, g.ids.count i ≤ r1.ids.count i + tv.count i) : NB g := by
  apply hn.of_bounds (by rw [hnext]; exact hm.next)
  · intro i hi
    have := he.old i hi; rw [allow_nil] at this; have := hcount i; omega
  · intro i hi
    have := he.fresh i hi; have := hcount i; omega
  · intro i hi
    have := he.bound i (by rw [← hnext]; exact hi); have := hcount i; omega

theorem listReplace_nb (cfg : Cfg) (f : Forest) (m : Meta) (its : Items) (index : Int) (pos : Nat) (old : Tree) (ve : VE)
    (hn : NB f) (hfind : f.find? m.id = some (.node m its)) (hold : getKey its (Key.i pos) = some old) :
    ∀ g, listReplace cfg f m index pos old ve = some g → g.aliased = false → NB g := by
  intro g hg hal
  unfold listReplace at hg
  simp only at hg
  split at hg
  · cases hg
  · next hs =>
    cases hg
    simp only [addRoot_aliased] at hal
    have hm := evalVE_mono cfg none ve f (some m.id) false m.part (m.path ++ [Key.i index])
    have he := evalVE_ids cfg none [] ve f (some m.id) false m.part (m.path ++ [Key.i index]) hn (pendOk_none f) hal
    have hn1 := hn.of_mono hm
    have hf1 := survive f _ hn hm m.id m its hfind hs
    refine nb_of_eval f _ _ _ hn hm he (by rw [addRoot_nextId]; rfl) ?_
    intro i
    rw [addRoot_count, setParent_ids]
    have h1 := mapAt_count _ m.id (storeKey (Key.i pos) (if cfg.reindexOnMutate then Key.i pos else Key.i index)
      (evalVE cfg f none (some m.id) false m.part (m.path ++ [Key.i index]) ve).2) (hn1.nodup m.id) m its hf1 i
    have h2 : (idsItems (storeKey (Key.i pos) (if cfg.reindexOnMutate then Key.i pos else Key.i index)
        (evalVE cfg f none (some m.id) false m.part (m.path ++ [Key.i index]) ve).2 m its)).count i +
        (slotIds its (Key.i pos)).count i = (idsItems its).count i +
        ((evalVE cfg f none (some m.id) false m.part (m.path ++ [Key.i index]) ve).2.setPath
          (m.path ++ [if cfg.reindexOnMutate then Key.i pos else Key.i index])).ids.count i :=
      setKey_count (Key.i pos) _ i its
    rw [slotIds_of_getKey hold, setPath_ids] at h2
    omega

theorem listInsert_nb (cfg : Cfg) (f : Forest) (m : Meta) (its : Items) (index : Int) (len : Nat) (ve : VE)
    (hn : NB f) (hfind : f.find? m.id = some (.node m its)) :
    ∀ g, listInsert cfg f m its index len ve = some g → g.aliased = false → NB g := by
  intro g hg hal
  unfold listInsert at hg
  simp only at hg
  have hfn : ∀ (v : Tree) (i : Nat), (idsItems (if cfg.reindexOnMutate = true then reindex m (insertAt (pyInsertPos index len) v its)
        else insertAt (pyInsertPos index len) v its)).count i = (idsItems its).count i + v.ids.count i := by
    intro v i
    split
    · rw [reindex_count, insertAt_count]
    · rw [insertAt_count]
  have tail : ∀ (r1 : Forest) (v : Tree), EvalMono f r1 → EvalIds f r1 v.ids [] → ¬ (r1.find? m.id).isNone = true →
      NB (r1.mapAt m.id (fun m' xs =>
        if cfg.reindexOnMutate = true then reindex m' (insertAt (pyInsertPos index len) v xs)
        else insertAt (pyInsertPos index len) v xs)) := by
    intro r1 v hm he hs
    have hn1 := hn.of_mono hm
    have hf1 := survive f _ hn hm m.id m its hfind hs
    refine nb_of_eval f r1 _ _ hn hm he rfl ?_
    intro i
    have h1 := mapAt_count r1 m.id (fun m' xs =>
        if cfg.reindexOnMutate = true then reindex m' (insertAt (pyInsertPos index len) v xs)
        else insertAt (pyInsertPos index len) v xs) (hn1.nodup m.id) m its hf1 i
    have h2 := hfn v i
    omega
  split at hg
  · next own _ =>
    split at hg
    · cases hg
    · next hs =>
      cases hg
      have hc := clone_count cfg false f.nextId (some m.id) (m.path ++ [Key.i index]) own
      have hm : EvalMono f { f with nextId := (own.clone cfg false f.nextId (some m.id) (m.path ++ [Key.i index])).2 } :=
        ⟨List.Sublist.refl _, fun h => h, fun h => h, hc.1⟩
      have he : EvalIds f { f with nextId := (own.clone cfg false f.nextId (some m.id) (m.path ++ [Key.i index])).2 }
          (own.clone cfg false f.nextId (some m.id) (m.path ++ [Key.i index])).1.ids [] := by
        constructor
        · intro i hi; have := (hc.2 i).2.1 hi; simp only [ids_with_next]; omega
        · intro i hi; have := (hc.2 i).1; have := hn.bound i hi; simp only [ids_with_next]; omega
        · intro i hi
          have := (hc.2 i).2.2 hi; have := hn.bound i (Nat.le_trans hc.1 hi); simp only [ids_with_next]; omega
      exact tail _ _ hm he hs
  · split at hg
    · cases hg
    · next hs =>
      cases hg
      have hm := evalVE_mono cfg none ve f (some m.id) false m.part (m.path ++ [Key.i index])
      have he := evalVE_ids cfg none [] ve f (some m.id) false m.part (m.path ++ [Key.i index]) hn (pendOk_none f) hal
      exact tail _ _ hm he hs

theorem listAppend_nb (cfg : Cfg) (f : Forest) (m : Meta) (its : Items) (index : Int) (ve : VE)
    (hn : NB f) (hfind : f.find? m.id = some (.node m its)) :
    ∀ g, listAppend cfg f m index ve = some g → g.aliased = false → NB g := by
  intro g hg hal
  unfold listAppend at hg
  simp only at hg
  split at hg
  · cases hg
  · next hs =>
    cases hg
    have hm := evalVE_mono cfg none ve f (some m.id) false m.part (m.path ++ [Key.i index])
    have he := evalVE_ids cfg none [] ve f (some m.id) false m.part (m.path ++ [Key.i index]) hn (pendOk_none f) hal
    have hn1 := hn.of_mono hm
    have hf1 := survive f _ hn hm m.id m its hfind hs
    refine nb_of_eval f _ _ _ hn hm he rfl ?_
    intro i
    have h1 := mapAt_count _ m.id (fun m' xs => xs ++ [(Key.i index,
      (evalVE cfg f none (some m.id) false m.part (m.path ++ [Key.i index]) ve).2.setPath (m'.path ++ [Key.i index]))])
      (hn1.nodup m.id) m its hf1 i
    simp only [idsItems_append, List.count_append, idsItems, setPath_ids, List.append_nil] at h1
    omega

theorem rawSetList_nb (cfg : Cfg) (f : Forest) (m : Meta) (its : Items) (key : Int) (ins : Bool) (ve : VE)
    (hn : NB f) (hfind : f.find? m.id = some (.node m its)) :
    ∀ r, rawSetList cfg f m its key ins ve = .ok r → r.1.aliased = false → f.aliased = false → NB r.1 := by
  intro r hr hal _
  rcases rawSetList_cases cfg f m its key ins ve r hr with rfl | ⟨i, p, old, hold, h⟩ | ⟨i, l, h⟩ | h
  · exact hn
  · exact listReplace_nb cfg f m its i p old ve hn hfind hold _ h hal
  · exact listInsert_nb cfg f m its i l ve hn hfind _ h hal
  · exact listAppend_nb cfg f m its _ ve hn hfind _ h hal

end Pg.Sym

namespace Pg.Sym

theorem dictDetached_count (its : Items) (k : Key) (i : Nat) :
    (idsRoots (dictDetached its k).toList).count i = (slotIds its k).count i := by
  unfold dictDetached slotIds
  cases hg : getKey its k with
  | none => simp [idsRoots]
  | some c =>
    cases c with
    | leaf a => simp [idsRoots, Tree.ids]
    | node om oits => simp [idsRoots, setPath_ids, setParent_ids]

theorem dictErase_nb (f : Forest) (m : Meta) (its : Items) (key : Key) (hn : NB f)
    (hfind : f.find? m.id = some (.node m its)) : NB (dictErase f m its key) := by
  unfold dictErase
  have hc : ∀ i, (addRoots (f.mapAt m.id (fun _ xs => eraseKey key xs)) (dictDetached its key).toList).ids.count i =
      f.ids.count i := by
    intro i
    rw [addRoots_count, dictDetached_count]
    have h1 := mapAt_count f m.id (fun _ xs => eraseKey key xs) (hn.nodup m.id) m its hfind i
    have h2 := eraseKey_count key i its
    omega
  apply hn.of_bounds (by rw [addRoots_nextId]; exact Nat.le_refl _)
  · intro i _; rw [hc]; exact Nat.le_refl _
  · intro i hi; rw [hc]; exact hn.nodup i
  · intro i hi; rw [hc]; rw [addRoots_nextId] at hi; exact hn.bound i hi

theorem setPath_id? (p : List Key) (t : Tree) : (t.setPath p).id? = t.id? := by
  cases t with
  | leaf a => rfl
  | node m its => unfold Tree.setPath; split <;> rfl

theorem setParent_id? (par : Option Nat) (t : Tree) : (t.setParent par).id? = t.id? := by
  cases t <;> rfl

theorem dictDetached_pending (its : Items) (key : Key) :
    (dictDetached its key).bind Tree.id? = match getKey its key with
      | some (.node om _) => some om.id
      | _ => none := by
  unfold dictDetached
  cases getKey its key with
  | none => rfl
  | some c =>
    cases c with
    | leaf a => rfl
    | node om oits =>
      show (((Tree.node om oits).setParent none).setPath []).id? = some om.id
      rw [setPath_id?, setParent_id?]; rfl

theorem pendOk_slot (f : Forest) (hn : NB f) (m : Meta) (its : Items) (key : Key)
    (hfind : f.find? m.id = some (.node m its)) :
    PendOk f ((dictDetached its key).bind Tree.id?) (slotIds its key) := by
  rw [dictDetached_pending]
  constructor
  · intro oid s hpend hsf
    cases hgk : getKey its key with
    | none => simp [hgk] at hpend
    | some c =>
      cases c with
      | leaf a => simp [hgk] at hpend
      | node om oits =>
        simp only [hgk, Option.some.injEq] at hpend
        subst hpend
        have := Forest.find?_child f hn m.id m its hfind key om oits hgk
        rw [this] at hsf
        cases hsf
        rw [slotIds_of_getKey hgk]
  · intro i hi
    unfold slotIds
    cases hgk : getKey its key with
    | none => simp
    | some c =>
      cases c with
      | leaf a => simp [Tree.ids]
      | node om oits =>
        have h1 := Forest.find?_child f hn m.id m its hfind key om oits hgk
        have h2 := Forest.find?_ids_le f om.id _ h1 i
        have h3 := hn.bound i hi
        simp only [Option.map_some, Option.getD_some]
        omega

theorem clearConsumed_ids (f : Forest) : f.clearConsumed.ids = f.ids := rfl
theorem clearConsumed_nextId (f : Forest) : f.clearConsumed.nextId = f.nextId := rfl
theorem clearConsumed_aliased (f : Forest) : f.clearConsumed.aliased = f.aliased := rfl

theorem dictStoreCore_nb (cfg : Cfg) (f : Forest) (m : Meta) (its : Items) (key : Key) (ve : VE)
    (hn : NB f) (hfind : f.find? m.id = some (.node m its)) (hc0 : f.consumed = false) :
    ∀ g, dictStoreCore cfg f m its key ve = some g → g.aliased = false → NB g := by
  intro g hg hal
  unfold dictStoreCore at hg
  simp only at hg
  split at hg
  · cases hg
  next hs =>
  cases hg
  have hp := pendOk_slot f hn m its key hfind
  have hm := evalVE_mono cfg ((dictDetached its key).bind Tree.id?) ve f (some m.id) (isObjKind m.kind) m.part (m.path ++ [key])
  generalize hr : evalVE cfg f ((dictDetached its key).bind Tree.id?) (some m.id) (isObjKind m.kind) m.part
    (m.path ++ [key]) ve = r at *
  have hal1 : r.1.aliased = false := by
    split at hal
    · exact hal
    · rw [addRoots_aliased] at hal; exact hal
  have he : EvalIds f r.1 r.2.ids (slotIds its key) := by
    have := evalVE_ids cfg ((dictDetached its key).bind Tree.id?) (slotIds its key) ve f (some m.id)
      (isObjKind m.kind) m.part (m.path ++ [key]) hn hp (by rw [hr]; exact hal1)
    rw [hr] at this; exact this
  have hn1 := hn.of_mono hm
  have hf1 := survive f r.1 hn hm m.id m its hfind hs
  have hstore : ∀ i, ((r.1.mapAt m.id (storeKey key key (adoptPartial (isObjKind m.kind) m.part r.2))).clearConsumed).ids.count i +
      (slotIds its key).count i = r.1.ids.count i + r.2.ids.count i := by
    intro i
    rw [clearConsumed_ids]
    have h1 := mapAt_count r.1 m.id (storeKey key key (adoptPartial (isObjKind m.kind) m.part r.2)) (hn1.nodup m.id) m its hf1 i
    have h2 : (idsItems (storeKey key key (adoptPartial (isObjKind m.kind) m.part r.2) m its)).count i +
        (slotIds its key).count i = (idsItems its).count i +
        ((adoptPartial (isObjKind m.kind) m.part r.2).setPath (m.path ++ [key])).ids.count i := setKey_count key _ i its
    rw [setPath_ids, adopt_ids] at h2
    omega
  split
  · next hcons =>
    have hallow : ∀ i, allow f r.1 (slotIds its key) i = (slotIds its key).count i := by
      intro i; unfold allow; simp [hcons, hc0]
    apply hn.of_bounds (g := (r.1.mapAt m.id (storeKey key key (adoptPartial (isObjKind m.kind) m.part r.2))).clearConsumed)
      (show f.nextId ≤ r.1.nextId from hm.next)
    · intro i hi
      have h1 := he.old i hi; rw [hallow] at h1; have h2 := hstore i; omega
    · intro i hi
      have h1 := he.fresh i hi; have h2 := hstore i; omega
    · intro i hi
      have h1 := he.bound i hi; have h2 := hstore i; omega
  · next hcons =>
    have hallow : ∀ i, allow f r.1 (slotIds its key) i = 0 := by
      intro i; unfold allow; simp [hcons]
    apply hn.of_bounds (by rw [addRoots_nextId]; exact hm.next)
    · intro i hi
      have h1 := he.old i hi; rw [hallow] at h1; have h2 := hstore i
      rw [addRoots_count, dictDetached_count]; omega
    · intro i hi
      have h1 := he.fresh i hi; have h2 := hstore i
      rw [addRoots_count, dictDetached_count]; omega
    · intro i hi
      rw [addRoots_nextId] at hi
      have h1 := he.bound i hi; have h2 := hstore i
      rw [addRoots_count, dictDetached_count]; omega

theorem dictStore_nb (cfg : Cfg) (f : Forest) (m : Meta) (its : Items) (key : Key) (ve : VE)
    (hn : NB f) (hfind : f.find? m.id = some (.node m its)) :
    ∀ g, dictStore cfg f m its key ve = some g → g.aliased = false → NB g := by
  intro g hg hal
  unfold dictStore at hg
  have hn0 : NB f.clearConsumed := ⟨hn.nodup, hn.bound⟩
  exact dictStoreCore_nb cfg f.clearConsumed m its key ve hn0 hfind rfl g hg hal

theorem rawSetDict_nb (cfg : Cfg) (f : Forest) (m : Meta) (its : Items) (key : Key) (ve : VE)
    (hn : NB f) (hfind : f.find? m.id = some (.node m its)) :
    ∀ r, rawSetDict cfg f m its key ve = .ok r → r.1.aliased = false → NB r.1 := by
  intro r hr hal
  rcases rawSetDict_cases cfg f m its key ve r hr with rfl | rfl | h
  · exact hn
  · exact dictErase_nb f m its key hn hfind
  · exact dictStore_nb cfg f m its key _ hn hfind _ h hal

theorem rawSet_nb (cfg : Cfg) (f : Forest) (t : Nat) (key : Key) (ins : Bool) (ve : VE) (hn : NB f) :
    ∀ r, rawSet cfg f t key ins ve = .ok r → r.1.aliased = false → f.aliased = false → NB r.1 := by
  intro r hr hal hal0
  unfold rawSet at hr
  split at hr
  · next m its hfind =>
    have hid := Forest.find?_id f t m its hfind
    have hfind' : f.find? m.id = some (.node m its) := by rw [hid]; exact hfind
    split at hr
    · exact rawSetList_nb cfg f m its _ ins ve hn hfind' r hr hal hal0
    · cases hr
    · exact rawSetDict_nb cfg f m its _ ve hn hfind' r hr hal
  · cases hr

end Pg.Sym
