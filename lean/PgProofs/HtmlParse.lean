/-
  C20 helper lemmas, part 2: the strict parser reads back what the element printer writes.
-/
import PgModel.Html
namespace Pg.C20

/-! ### Well-formedness of documents (specification predicates) -/

def wfAttr (a : Attr) : Bool :=
  validName a.name && (match a.value with | none => true | some v => v.all isValueChar)

/-- A text node is non-empty and has no `<`. -/
def wfText (s : Str) : Bool := !s.isEmpty && s.all (fun c => c != '<')

def isText : HNode → Bool
  | .text _ => true
  | .elem .. => false

/-- No two text nodes are adjacent (the printer would merge them). -/
def noAdjText : HNode → List HNode → Bool
  | .text _, .text _ :: _ => false
  | _, _ => true

mutual
  def wfNode : HNode → Bool
    | .text s => wfText s
    | .elem tag attrs cs => validName tag && attrs.all wfAttr && wfNodes cs
  def wfNodes : List HNode → Bool
    | [] => true
    | n :: ns => wfNode n && noAdjText n ns && wfNodes ns
end

/-! ### spanP -/

/-- The scan stops at the head of `rest`. -/
def stopsAt (p : Char → Bool) : Str → Bool
  | [] => true
  | c :: _ => !p c

theorem spanP_append (p : Char → Bool) (a rest : Str) (ha : a.all p = true)
    (hr : stopsAt p rest = true) : spanP p (a ++ rest) = (a, rest) := by
  induction a with
  | nil =>
    cases rest with
    | nil => rfl
    | cons c r =>
      simp only [stopsAt, Bool.not_eq_true'] at hr
      simp [spanP, hr]
  | cons c a ih =>
    simp only [List.all_cons, Bool.and_eq_true] at ha
    simp [spanP, ha.1, ih ha.2]

theorem validName_all {n : Str} (h : validName n = true) : n.all isNameChar = true := by
  cases n with
  | nil => simp [validName] at h
  | cons c r =>
    simp only [validName, Bool.and_eq_true] at h
    simp only [List.all_cons, Bool.and_eq_true]
    refine ⟨?_, h.2⟩
    have := h.1
    simp only [isAlpha, Bool.or_eq_true, Bool.and_eq_true] at this
    simp only [isNameChar, Bool.or_eq_true, Bool.and_eq_true]
    rcases this with h' | h'
    · exact Or.inl (Or.inl (Or.inl h'))
    · exact Or.inl (Or.inl (Or.inr h'))

/-! ### attributes -/

theorem attrStr_ne_nil (a : Attr) : 1 ≤ (attrStr a).length := by
  cases a with
  | mk n v => cases v <;> simp [attrStr]

theorem attrsStr_length (as : List Attr) : as.length ≤ (attrsStr as).length := by
  induction as with
  | nil => simp [attrsStr]
  | cons a as ih =>
    have := attrStr_ne_nil a
    simp only [attrsStr, List.length_cons, List.length_append]
    omega

/-- What may follow an attribute inside a tag: a blank (next attribute) or `>`. -/
def tagCont : Str → Bool
  | ' ' :: _ => true
  | '>' :: _ => true
  | _ => false

theorem tagCont_stops_name {r : Str} (h : tagCont r = true) : stopsAt isNameChar r = true := by
  cases r with
  | nil => rfl
  | cons c r =>
    simp only [stopsAt, Bool.not_eq_true']
    by_cases h1 : c = ' '
    · subst h1; decide
    · by_cases h2 : c = '>'
      · subst h2; decide
      · simp [tagCont, h1, h2] at h

theorem nameChar_eq : isNameChar '=' = false := by decide
theorem nameChar_gt : isNameChar '>' = false := by decide
theorem nameChar_sp : isNameChar ' ' = false := by decide
theorem valueChar_quote : isValueChar '"' = false := by decide

theorem attrStr_cons (a : Attr) : ∃ x, attrStr a = ' ' :: x := by
  cases a with
  | mk n v => cases v <;> exact ⟨_, rfl⟩

theorem scanAttr_print (a : Attr) (rest : Str) (ha : wfAttr a = true) (hr : tagCont rest = true) :
    scanAttr (attrStr a ++ rest) = some (a, rest) := by
  cases a with
  | mk n v =>
    simp only [wfAttr, Bool.and_eq_true] at ha
    have hn := validName_all ha.1
    cases v with
    | none =>
      have hsp := spanP_append isNameChar n rest hn (tagCont_stops_name hr)
      simp only [attrStr, List.cons_append, scanAttr, hsp, ha.1, ne_eq, not_true_eq_false, if_false,
        Bool.not_true, Bool.false_eq_true]
      cases rest with
      | nil => simp [tagCont] at hr
      | cons c r =>
        have h1 : c ≠ '=' := by
          intro h1; subst h1; simp [tagCont] at hr
        simp [h1]
    | some v =>
      have hv : v.all isValueChar = true := ha.2
      have hs : stopsAt isNameChar ('=' :: '"' :: (v ++ '"' :: rest)) = true := by
        simp [stopsAt, nameChar_eq]
      have hs2 : stopsAt isValueChar ('"' :: rest) = true := by simp [stopsAt, valueChar_quote]
      have hsp := spanP_append isNameChar n _ hn hs
      have hsp2 := spanP_append isValueChar v _ hv hs2
      have e : attrStr ⟨n, some v⟩ ++ rest = ' ' :: (n ++ '=' :: '"' :: (v ++ '"' :: rest)) := by
        simp [attrStr]
      rw [e]
      simp [scanAttr, hsp, hsp2, ha.1]

theorem tagCont_attrsStr (as : List Attr) (rest : Str) : tagCont (attrsStr as ++ '>' :: rest) = true := by
  cases as with
  | nil => rfl
  | cons a as =>
    obtain ⟨x, hx⟩ := attrStr_cons a
    simp [attrsStr, hx, tagCont]

theorem lexAttrs_print (as : List Attr) (rest : Str) (f : Nat) (h : as.all wfAttr = true) :
    lexAttrs (f + as.length + 1) (attrsStr as ++ '>' :: rest) = some (as, rest) := by
  induction as generalizing f with
  | nil => simp [lexAttrs, attrsStr]
  | cons a as ih =>
    simp only [List.all_cons, Bool.and_eq_true] at h
    have hfuel : f + (a :: as).length + 1 = (f + as.length + 1) + 1 := by
      simp only [List.length_cons]; omega
    have hsc := scanAttr_print a (attrsStr as ++ '>' :: rest) h.1 (tagCont_attrsStr as rest)
    obtain ⟨x, hx⟩ := attrStr_cons a
    rw [hfuel]
    simp only [attrsStr, List.append_assoc]
    rw [hx] at hsc ⊢
    simp only [List.cons_append] at hsc ⊢
    rw [lexAttrs]
    have : (' ' : Char) ≠ '>' := by decide
    simp only [this, if_false, hsc, ih f h.2, Option.map_some]

/-! ### tokens -/

def printTok : Tok → Str
  | .text s => s
  | .open tag attrs => openTag tag attrs
  | .close tag => closeTag tag

def printToks : List Tok → Str
  | [] => []
  | t :: ts => printTok t ++ printToks ts

def wfTok : Tok → Bool
  | .text s => wfText s
  | .open tag attrs => validName tag && attrs.all wfAttr
  | .close tag => validName tag

/-- A text token must be followed by the end of input or by a tag. -/
def tokBoundary : Tok → Str → Bool
  | .text _, c :: _ => c == '<'
  | _, _ => true

theorem validName_head {n : Str} (h : validName n = true) :
    ∃ c r, n = c :: r ∧ c ≠ '<' ∧ c ≠ '/' ∧ isAlpha c = true := by
  cases n with
  | nil => simp [validName] at h
  | cons c r =>
    simp only [validName, Bool.and_eq_true] at h
    refine ⟨c, r, rfl, ?_, ?_, h.1⟩
    · intro hc; subst hc; have := h.1; simp [isAlpha] at this
    · intro hc; subst hc; have := h.1; simp [isAlpha] at this

theorem scanTok_print (t : Tok) (rest : Str) (ht : wfTok t = true) (hb : tokBoundary t rest = true) :
    scanTok (printTok t ++ rest) = some (t, rest) := by
  cases t with
  | text s =>
    simp only [wfTok, wfText, Bool.and_eq_true, Bool.not_eq_true', List.isEmpty_eq_false_iff] at ht
    obtain ⟨c, s', rfl⟩ := List.exists_cons_of_ne_nil ht.1
    have hc : c ≠ '<' := by
      have := ht.2; simp only [List.all_cons, Bool.and_eq_true, bne_iff_ne] at this; exact this.1
    have hstop : stopsAt (fun c => c != '<') rest = true := by
      cases rest with
      | nil => rfl
      | cons d r =>
        simp only [tokBoundary, beq_iff_eq] at hb
        subst hb; simp [stopsAt]
    have hsp := spanP_append (fun c => c != '<') (c :: s') rest ht.2 hstop
    simp only [List.cons_append] at hsp
    simp only [printTok, List.cons_append, scanTok, hc, ne_eq, not_false_eq_true, if_true, hsp]
  | close tag =>
    simp only [wfTok] at ht
    have hs : stopsAt isNameChar ('>' :: rest) = true := by simp [stopsAt, nameChar_gt]
    have hsp := spanP_append isNameChar tag _ (validName_all ht) hs
    have e : printTok (.close tag) ++ rest = '<' :: '/' :: (tag ++ '>' :: rest) := by
      simp [printTok, closeTag]
    rw [e]
    simp [scanTok, hsp, ht]
  | «open» tag attrs =>
    simp only [wfTok, Bool.and_eq_true] at ht
    obtain ⟨c, r, rfl, hc1, hc2, _⟩ := validName_head ht.1
    have hs : stopsAt isNameChar (attrsStr attrs ++ '>' :: rest) = true :=
      tagCont_stops_name (tagCont_attrsStr attrs rest)
    have hsp := spanP_append isNameChar (c :: r) _ (validName_all ht.1) hs
    simp only [List.cons_append] at hsp
    have e : printTok (.open (c :: r) attrs) ++ rest = '<' :: c :: (r ++ (attrsStr attrs ++ '>' :: rest)) := by
      simp [printTok, openTag]
    rw [e]
    have hlen := attrsStr_length attrs
    have hfuel : (attrsStr attrs ++ '>' :: rest).length + 1
        = ((attrsStr attrs).length - attrs.length + rest.length + 1) + attrs.length + 1 := by
      simp only [List.length_append, List.length_cons]
      omega
    have hla := lexAttrs_print attrs rest ((attrsStr attrs).length - attrs.length + rest.length + 1) ht.2
    rw [← hfuel] at hla
    simp only [List.length_append, List.length_cons] at hla
    simp [scanTok, hc2, hsp, ht.1, hla]

/-- All tokens well-formed, and every text token followed by a tag or the end. -/
def wfToks : List Tok → Str → Bool
  | [], _ => true
  | t :: ts, rest => wfTok t && tokBoundary t (printToks ts ++ rest) && wfToks ts rest

theorem printTok_length {t : Tok} (h : wfTok t = true) : 1 ≤ (printTok t).length := by
  cases t with
  | text s =>
    simp only [wfTok, wfText, Bool.and_eq_true, Bool.not_eq_true', List.isEmpty_eq_false_iff] at h
    obtain ⟨c, s', rfl⟩ := List.exists_cons_of_ne_nil h.1
    simp [printTok]
  | «open» tag attrs => simp [printTok, openTag]
  | close tag => simp [printTok, closeTag]

theorem printToks_length (ts : List Tok) (rest : Str) (h : wfToks ts rest = true) :
    ts.length ≤ (printToks ts).length := by
  induction ts with
  | nil => simp
  | cons t ts ih =>
    simp only [wfToks, Bool.and_eq_true] at h
    have := printTok_length h.1.1
    have := ih h.2
    simp only [printToks, List.length_cons, List.length_append]
    omega

theorem lexF_print (ts : List Tok) (rest : Str) (f : Nat) (h : wfToks ts rest = true) :
    lexF (f + ts.length) (printToks ts ++ rest) = (lexF f rest).map (fun r => ts ++ r) := by
  induction ts with
  | nil =>
    simp only [printToks, List.length_nil, Nat.add_zero, List.nil_append]
    cases lexF f rest <;> rfl
  | cons t ts ih =>
    simp only [wfToks, Bool.and_eq_true] at h
    have hlen := printTok_length h.1.1
    have hsc := scanTok_print t (printToks ts ++ rest) h.1.1 h.1.2
    simp only [printToks, List.append_assoc, List.length_cons]
    cases hp : printTok t with
    | nil => rw [hp] at hlen; simp at hlen
    | cons c r =>
      rw [hp] at hsc
      have : f + (ts.length + 1) = (f + ts.length) + 1 := by omega
      rw [this]
      simp only [List.cons_append]
      rw [lexF]
      simp only [List.cons_append] at hsc
      rw [hsc]
      simp only [ih h.2]
      cases lexF f rest <;> simp

theorem lex_print (ts : List Tok) (h : wfToks ts [] = true) : lex (printToks ts) = some ts := by
  have hlen := printToks_length ts [] h
  unfold lex
  have hf : (printToks ts).length + 1 = ((printToks ts).length - ts.length + 1) + ts.length := by omega
  rw [hf]
  have := lexF_print ts [] ((printToks ts).length - ts.length + 1) h
  simp only [List.append_nil] at this
  rw [this]
  simp [lexF]

/-! ### from documents to tokens -/

mutual
  def toksOf : HNode → List Tok
    | .text s => [.text s]
    | .elem tag attrs cs => .open tag attrs :: (toksOfAll cs ++ [.close tag])
  def toksOfAll : List HNode → List Tok
    | [] => []
    | n :: ns => toksOf n ++ toksOfAll ns
end

theorem printToks_append (a b : List Tok) : printToks (a ++ b) = printToks a ++ printToks b := by
  induction a with
  | nil => rfl
  | cons t a ih => simp [printToks, ih]

theorem wfToks_append (a b : List Tok) (rest : Str)
    (ha : wfToks a (printToks b ++ rest) = true) (hb : wfToks b rest = true) :
    wfToks (a ++ b) rest = true := by
  induction a with
  | nil => simpa using hb
  | cons t a ih =>
    simp only [wfToks, Bool.and_eq_true] at ha
    simp only [List.cons_append, wfToks, Bool.and_eq_true, printToks_append, List.append_assoc]
    exact ⟨⟨ha.1.1, ha.1.2⟩, ih ha.2⟩

mutual
  theorem printToks_toksOf (n : HNode) : printToks (toksOf n) = printNode n := by
    cases n with
    | text s => simp [toksOf, printToks, printTok, printNode]
    | elem tag attrs cs =>
      simp [toksOf, printToks, printTok, printNode, printToks_append, printToks_toksOfAll cs]
  theorem printToks_toksOfAll (ns : List HNode) : printToks (toksOfAll ns) = printNodes ns := by
    cases ns with
    | nil => rfl
    | cons n ns =>
      simp [toksOfAll, printNodes, printToks_append, printToks_toksOf n, printToks_toksOfAll ns]
end

mutual
  theorem build_toksOf (n : HNode) (rest : List Tok) (stk : List (Str × List Attr × List HNode))
      (acc : List HNode) : build (toksOf n ++ rest) stk acc = build rest stk (n :: acc) := by
    cases n with
    | text s => simp [toksOf, build]
    | elem tag attrs cs =>
      simp only [toksOf, List.cons_append, List.append_assoc, build]
      rw [build_toksOfAll cs]
      simp [build]
  theorem build_toksOfAll (ns : List HNode) (rest : List Tok)
      (stk : List (Str × List Attr × List HNode)) (acc : List HNode) :
      build (toksOfAll ns ++ rest) stk acc = build rest stk (ns.reverse ++ acc) := by
    cases ns with
    | nil => simp [toksOfAll]
    | cons n ns =>
      simp only [toksOfAll, List.append_assoc]
      rw [build_toksOf n, build_toksOfAll ns]
      simp
end

theorem build_print (ns : List HNode) : build (toksOfAll ns) [] [] = some ns := by
  have := build_toksOfAll ns [] [] []
  simp only [List.append_nil] at this
  rw [this]
  simp [build]

/-- What may follow a node list: the end of input or a tag. -/
def startsTag : Str → Bool
  | [] => true
  | c :: _ => c == '<'

theorem startsTag_boundary (t : Tok) (r : Str) (h : startsTag r = true) : tokBoundary t r = true := by
  cases t <;> cases r <;> simp_all [tokBoundary, startsTag]

theorem startsTag_toks (t : Tok) (r : Str) (ht : ∀ s, t ≠ .text s) : startsTag (printTok t ++ r) = true := by
  cases t with
  | text s => exact absurd rfl (ht s)
  | «open» tag attrs => simp [printTok, openTag, startsTag]
  | close tag => simp [printTok, closeTag, startsTag]

mutual
  theorem wfToks_toksOf (n : HNode) (rest : Str) (h : wfNode n = true)
      (hb : isText n = true → startsTag rest = true) : wfToks (toksOf n) rest = true := by
    cases n with
    | text s =>
      simp only [wfNode] at h
      have := hb rfl
      simp [toksOf, wfToks, wfTok, h, printToks, startsTag_boundary _ _ this]
    | elem tag attrs cs =>
      simp only [wfNode, Bool.and_eq_true] at h
      simp only [toksOf, wfToks, wfTok, h.1.1, h.1.2, tokBoundary, Bool.and_self, Bool.true_and]
      have hcs := wfToks_toksOfAll cs (printToks [.close tag] ++ rest) h.2
        (by simp [printToks, printTok, closeTag, startsTag])
      exact wfToks_append _ _ _ hcs (by simp [wfToks, wfTok, h.1.1, tokBoundary])
  theorem wfToks_toksOfAll (ns : List HNode) (rest : Str) (h : wfNodes ns = true)
      (hb : startsTag rest = true) : wfToks (toksOfAll ns) rest = true := by
    cases ns with
    | nil => simp [toksOfAll, wfToks]
    | cons n ns =>
      simp only [wfNodes, Bool.and_eq_true] at h
      simp only [toksOfAll]
      have hns := wfToks_toksOfAll ns rest h.2 hb
      refine wfToks_append _ _ _ ?_ hns
      refine wfToks_toksOf n (printToks (toksOfAll ns) ++ rest) h.1.1 ?_
      intro hn
      cases n with
      | elem tag attrs cs => simp [isText] at hn
      | text s =>
        cases ns with
        | nil => simpa [toksOfAll, printToks] using hb
        | cons m ms =>
          cases m with
          | text s' => simp [noAdjText] at h
          | elem tag attrs cs =>
            simp [toksOfAll, toksOf, printToks, printTok, openTag, startsTag]
end

end Pg.C20
