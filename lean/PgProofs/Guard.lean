/-
  Helper definitions and lemmas for C08 (write protection).
-/
import PgModel.Guard
namespace Pg.C08
open Tree

/-! ### predicates over all symbolic nodes of a tree -/

mutual
  /-- Every symbolic node of the tree — the attribute container of an object included — satisfies
  `p` on its flags. -/
  def allFlags (p : Flags → Bool) : Tree → Bool
    | .leaf _ => true
    | .dict f items => p f && allFlagsKvs p items
    | .list f items => p f && allFlagsList p items
    | .obj f _ attrs => p f && p f.container && allFlagsKvs p attrs
  def allFlagsList (p : Flags → Bool) : List Tree → Bool
    | [] => true
    | t :: ts => allFlags p t && allFlagsList p ts
  def allFlagsKvs (p : Flags → Bool) : List (String × Tree) → Bool
    | [] => true
    | (_, t) :: ts => allFlags p t && allFlagsKvs p ts
end

/-- The node found by following `path` from `t`. -/
def resolve : Tree → List Key → Option Tree
  | t, [] => some t
  | t, k :: rest => match t.child k with
    | none => none
    | some c => resolve c rest

mutual
  theorem allFlags_mono {p q : Flags → Bool} (h : ∀ f, p f = true → q f = true) :
      (t : Tree) → allFlags p t = true → allFlags q t = true
    | .leaf _ => fun _ => rfl
    | .dict f items => by
      simp only [allFlags, Bool.and_eq_true]
      exact fun ⟨h1, h2⟩ => ⟨h f h1, allFlagsKvs_mono h items h2⟩
    | .list f items => by
      simp only [allFlags, Bool.and_eq_true]
      exact fun ⟨h1, h2⟩ => ⟨h f h1, allFlagsList_mono h items h2⟩
    | .obj f _ attrs => by
      simp only [allFlags, Bool.and_eq_true]
      exact fun ⟨⟨h1, h1'⟩, h2⟩ => ⟨⟨h f h1, h _ h1'⟩, allFlagsKvs_mono h attrs h2⟩
  theorem allFlagsList_mono {p q : Flags → Bool} (h : ∀ f, p f = true → q f = true) :
      (ts : List Tree) → allFlagsList p ts = true → allFlagsList q ts = true
    | [] => fun _ => rfl
    | t :: ts => by
      simp only [allFlagsList, Bool.and_eq_true]
      exact fun ⟨h1, h2⟩ => ⟨allFlags_mono h t h1, allFlagsList_mono h ts h2⟩
  theorem allFlagsKvs_mono {p q : Flags → Bool} (h : ∀ f, p f = true → q f = true) :
      (ts : List (String × Tree)) → allFlagsKvs p ts = true → allFlagsKvs q ts = true
    | [] => fun _ => rfl
    | (_, t) :: ts => by
      simp only [allFlagsKvs, Bool.and_eq_true]
      exact fun ⟨h1, h2⟩ => ⟨allFlags_mono h t h1, allFlagsKvs_mono h ts h2⟩
end

theorem allFlagsKvs_lookup {p : Flags → Bool} {k : String} {c : Tree} :
    (kvs : List (String × Tree)) → allFlagsKvs p kvs = true → lookup k kvs = some c → allFlags p c = true
  | [], _, h => by simp [lookup] at h
  | (k', v) :: rest, h, hl => by
    simp only [allFlagsKvs, Bool.and_eq_true] at h
    simp only [lookup] at hl
    split at hl
    · cases hl; exact h.1
    · exact allFlagsKvs_lookup rest h.2 hl

theorem allFlagsList_get {p : Flags → Bool} {c : Tree} :
    (xs : List Tree) → (n : Nat) → allFlagsList p xs = true → xs[n]? = some c → allFlags p c = true
  | [], _, _, h => by simp at h
  | x :: xs, 0, h, hl => by
    simp only [allFlagsList, Bool.and_eq_true] at h
    simp at hl; cases hl; exact h.1
  | x :: xs, n + 1, h, hl => by
    simp only [allFlagsList, Bool.and_eq_true] at h
    simp at hl
    exact allFlagsList_get xs n h.2 hl

theorem allFlags_child {p : Flags → Bool} {t c : Tree} {k : Key}
    (h : allFlags p t = true) (hc : t.child k = some c) : allFlags p c = true := by
  cases t with
  | leaf a => simp [child] at hc
  | dict f items =>
    cases k with
    | s key => simp only [allFlags, Bool.and_eq_true] at h; exact allFlagsKvs_lookup items h.2 (by simpa [child] using hc)
    | i n => simp [child] at hc
  | list f items =>
    cases k with
    | s key => simp [child] at hc
    | i n => simp only [allFlags, Bool.and_eq_true] at h; exact allFlagsList_get items n h.2 (by simpa [child] using hc)
  | obj f cls attrs =>
    cases k with
    | s key => simp only [allFlags, Bool.and_eq_true] at h; exact allFlagsKvs_lookup attrs h.2 (by simpa [child] using hc)
    | i n => simp [child] at hc

theorem allFlags_resolve {p : Flags → Bool} :
    (q : List Key) → (t r : Tree) → allFlags p t = true → resolve t q = some r → allFlags p r = true
  | [], t, r, h, hr => by simp [resolve] at hr; cases hr; exact h
  | k :: rest, t, r, h, hr => by
    simp only [resolve] at hr
    split at hr
    · cases hr
    · next c hc => exact allFlags_resolve rest c r (allFlags_child h hc) hr

theorem allFlags_flags {p : Flags → Bool} {t : Tree} {f : Flags}
    (h : allFlags p t = true) (hf : t.flags? = some f) : p f = true := by
  cases t <;> simp [flags?] at hf <;> subst hf <;> simp only [allFlags, Bool.and_eq_true] at h
  · exact h.1
  · exact h.1
  · exact h.1.1

/-- ... and on the flags of the attribute container, for an object. -/
theorem allFlags_container {p : Flags → Bool} {f : Flags} {c : Nat} {attrs : List (String × Tree)}
    (h : allFlags p (.obj f c attrs) = true) : p f.container = true := by
  simp only [allFlags, Bool.and_eq_true] at h; exact h.1.2

/-! ### putting an unchanged child back -/

theorem setKv_lookup {k : String} {c : Tree} :
    (kvs : List (String × Tree)) → lookup k kvs = some c → setKv k c kvs = kvs
  | [], h => by simp [lookup] at h
  | (k', v) :: rest, h => by
    simp only [lookup] at h
    simp only [setKv]
    split
    · next hk =>
      simp only [hk, if_true] at h
      cases h
      have : k' = k := by simpa using hk
      subst this; rfl
    · next hk =>
      simp only [hk] at h
      rw [setKv_lookup rest (by simpa using h)]

theorem set_get_self {c : Tree} : (xs : List Tree) → (n : Nat) → xs[n]? = some c → xs.set n c = xs
  | [], _, h => by simp at h
  | x :: xs, 0, h => by simp at h; subst h; rfl
  | x :: xs, n + 1, h => by
    simp at h
    simp [set_get_self xs n h]

theorem setChild_child {t c : Tree} {k : Key} (h : t.child k = some c) : t.setChild k c = t := by
  cases t with
  | leaf a => simp [child] at h
  | dict f items =>
    cases k with
    | s key => simp only [child] at h; simp [setChild, setKv_lookup items h]
    | i n => simp [child] at h
  | list f items =>
    cases k with
    | s key => simp [child] at h
    | i n => simp only [child] at h; simp [setChild, set_get_self items n h]
  | obj f cls attrs =>
    cases k with
    | s key => simp only [child] at h; simp [setChild, setKv_lookup attrs h]
    | i n => simp [child] at h

/-- A call that leaves its receiver unchanged leaves the whole tree unchanged. -/
theorem stepAt_unchanged (G : Table) (env : Env) (op : Op) :
    (p : List Key) → (root r : Tree) → resolve root p = some r → (nodeStep G env r op).1 = r →
      stepAt G env root p op = (root, (nodeStep G env r op).2)
  | [], root, r, hr, h => by
    simp [resolve] at hr; subst hr
    simp only [stepAt]
    exact Prod.ext h rfl
  | k :: rest, root, r, hr, h => by
    simp only [resolve] at hr
    split at hr
    · cases hr
    · next c hc =>
      simp only [stepAt, hc]
      rw [stepAt_unchanged G env op rest c r hr h]
      simp [setChild_child hc]

/-! ### guards -/

def RawGuarded (G : Table) : Prop := ∀ ep, modelHasRaw ep = true → (G ep).directSealed = true

theorem safe_succ (G : Table) (n : Nat) (ep : EP) :
    safe G (n + 1) ep =
      (if (G ep).overridden then
        (G ep).directSealed || (!ownGuardRequired ep && !modelHasRaw ep && (modelDelegates ep).all (safe G n))
      else !(G ep).baseMutates && !modelHasRaw ep && (modelDelegates ep).isEmpty) := rfl

theorem rawGuarded_of_allGuarded {G : Table} (h : AllGuarded G) : RawGuarded G := by
  intro ep hraw
  have h4 : safe G (3 + 1) ep = true := h ep
  rw [safe_succ] at h4
  simp only [hraw, Bool.not_true, Bool.false_and, Bool.and_false, Bool.or_false] at h4
  split at h4
  · exact h4
  · cases h4

/-- `Object.__setattr__` / `Object._sym_rebind` carry a sealed guard of their own. -/
theorem ownGuarded_of_allGuarded {G : Table} (h : AllGuarded G) (ep : EP) (ho : ownGuardRequired ep = true) :
    (G ep).directSealed = true := by
  have h4 : safe G (3 + 1) ep = true := h ep
  rw [safe_succ] at h4
  simp only [ho, Bool.not_true, Bool.false_and, Bool.and_false, Bool.or_false] at h4
  split at h4
  · exact h4
  · next hov =>
    -- not overridden: `object.__setattr__` cannot reach symbolic attributes, but then the model body
    -- still delegates, so `safe` is false
    cases ep <;> simp [ownGuardRequired] at ho <;> simp [modelDelegates] at h4

theorem guard_prot {G : Table} {env : Env} {f : Flags} {ep : EP}
    (hS : (G ep).directSealed = true) (hp : treatsAsSealed env f = true) :
    guard G env f ep = some .perm := by
  simp [guard, hS, hp]

theorem guard_cases (G : Table) (env : Env) (f : Flags) (ep : EP) :
    guard G env f ep = none ∨ guard G env f ep = some .perm := by
  unfold guard
  split
  · exact Or.inr rfl
  · split
    · exact Or.inr rfl
    · exact Or.inl rfl

theorem guard_none {G : Table} {env : Env} {f : Flags} (ep : EP)
    (hs : treatsAsSealed env f = false) (hw : writable env f = true) : guard G env f ep = none := by
  simp [guard, hs, hw]

theorem guard_acc {G : Table} {env : Env} {f : Flags} {ep : EP}
    (hA : (G ep).directAcc = true) (hw : writable env f = false) : guard G env f ep = some .perm := by
  unfold guard
  split
  · rfl
  · simp [hA, hw]

@[simp] theorem tas_pushAcc (env : Env) (v : Option Bool) (f : Flags) :
    treatsAsSealed (env.pushAcc v) f = treatsAsSealed env f := rfl

theorem tas_ite (c : Bool) (env : Env) (v : Option Bool) (f : Flags) :
    treatsAsSealed (if c = true then env.pushAcc v else env) f = treatsAsSealed env f := by
  split <;> rfl

theorem writable_ite_true {c : Bool} {env : Env} {f : Flags} (hw : writable env f = true) :
    writable (if c = true then env.pushAcc (some true) else env) f = true := by
  split
  · simp [writable, Env.pushAcc, top]
  · exact hw

/-! ### which calls cannot change anything even on an unprotected value -/

/-- Calls that end without a permission error on a protected receiver because they would not
have changed anything anyway (absent key / index / value, `setdefault` of a present key, empty
`update`, a name that is not a symbolic field), or that are not methods of the receiver's type.
`rebind` is treated separately. -/
def benign : Tree → Op → Bool
  | .list _ xs, .lPop i => (normIdx xs.length i).isNone
  | .list _ xs, .lRemove a => (xs.findIdx? (isLeafEq a)).isNone
  | .list _ _, .lSetItem _ _ | .list _ _, .lSetSlice _ _ _ _ | .list _ _, .lDelItem _ | .list _ _, .lDelSlice _ _ _
  | .list _ _, .lIAdd _
  | .list _ _, .lIMul _ | .list _ _, .lAppend _ | .list _ _, .lExtend _ | .list _ _, .lInsert _ _
  | .list _ _, .lClear | .list _ _, .lSort | .list _ _, .lReverse => false
  | .dict _ kvs, .dPop k _ => !hasKey k kvs
  | .dict _ kvs, .dSetDefault k _ => hasKey k kvs
  | .dict _ _, .dUpdate us => us.isEmpty
  | .dict _ _, .dIOr us => us.isEmpty
  | .dict _ _, .dSetItem _ _ | .dict _ _, .dDelItem _ | .dict _ _, .dPopItem | .dict _ _, .dClear
  | .dict _ _, .dSetAttr _ _ | .dict _ _, .dDelAttr _ => false
  | .obj _ _ attrs, .oSetAttr k _ => !hasKey k attrs
  | _, .rebind _ => false
  | _, _ => true

def Op.isRebind : Op → Bool
  | .rebind _ => true
  | _ => false

/-- Assignments and deletions through accessors. -/
def Op.isAccessor : Op → Bool
  | .lSetItem _ _ | .lSetSlice _ _ _ _ | .lDelItem _ | .lDelSlice _ _ _ | .dSetItem _ _ | .dDelItem _ | .dSetAttr _ _
  | .dDelAttr _ | .oSetAttr _ _ => true
  | _ => false

/-! ### the write loop of rebind on a protected parent -/

theorem treeSet_single_prot {G : Table} {env : Env} {t : Tree} {f : Flags} (hG : RawGuarded G)
    (hf : t.flags? = some f) (hp : treatsAsSealed env f = true) (k : Key) (v : Tree) :
    treeSet G env t [k] v = (t, .err .perm) := by
  simp [treeSet, hf, hG .tree_set rfl, hp]

theorem treeSetAll_kv_prot {G : Table} {env : Env} {t : Tree} {f : Flags} (hG : RawGuarded G)
    (hf : t.flags? = some f) (hp : treatsAsSealed env f = true) (kvs : List (String × Tree)) :
    treeSetAll G env t (kvPairs kvs) = (t, if kvs.isEmpty then .ok else .err .perm) := by
  cases kvs with
  | nil => simp [kvPairs, treeSetAll]
  | cons kv rest => simp [kvPairs, treeSetAll, treeSet_single_prot hG hf hp]

theorem sealedTarget_symbolic {env : Env} {t : Tree} {p : List Key}
    (h : sealedTarget env t p = true) : ∃ f, t.flags? = some f := by
  cases t with
  | leaf a =>
    cases p with
    | nil => simp [sealedTarget] at h
    | cons k rest =>
      cases rest with
      | nil => simp [sealedTarget, flags?] at h
      | cons k2 r => simp [sealedTarget, child] at h
  | dict f _ => exact ⟨f, rfl⟩
  | list f _ => exact ⟨f, rfl⟩
  | obj f _ _ => exact ⟨f, rfl⟩

end Pg.C08
