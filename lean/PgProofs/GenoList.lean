/-
  List toolkit for the geno proofs: the successor of an element in a list (`succIn`) and how it
  distributes over append, map, indexed concatenation (`walkIdx`) and lexicographic products.
-/
import PgModel.Geno.Valid
namespace Pg.Geno

section
variable {α : Type} [DecidableEq α]

/-- The element that follows the first occurrence of `x` in `l`. -/
def succIn : List α → α → Option α
  | [], _ => none
  | a :: rest, x => if a = x then rest.head? else succIn rest x

theorem succIn_not_mem {l : List α} {x : α} (h : x ∉ l) : succIn l x = none := by
  induction l with
  | nil => rfl
  | cons a rest ih =>
    simp only [List.mem_cons, not_or] at h
    simp only [succIn]
    rw [if_neg (fun e => h.1 e.symm)]
    exact ih h.2

theorem succIn_append_left {A B : List α} {x : α} (h : x ∈ A) :
    succIn (A ++ B) x = (succIn A x).orElse (fun _ => B.head?) := by
  induction A with
  | nil => cases h
  | cons a rest ih =>
    simp only [List.cons_append, succIn]
    by_cases e : a = x
    · simp only [e, if_true]
      cases rest with
      | nil => simp [Option.orElse]
      | cons b r => simp [Option.orElse]
    · simp only [e, if_false]
      have : x ∈ rest := by
        cases h with
        | head => exact absurd rfl e
        | tail _ h' => exact h'
      exact ih this

theorem succIn_append_right {A B : List α} {x : α} (h : x ∉ A) :
    succIn (A ++ B) x = succIn B x := by
  induction A with
  | nil => rfl
  | cons a rest ih =>
    simp only [List.mem_cons, not_or] at h
    simp only [List.cons_append, succIn]
    rw [if_neg (fun e => h.1 e.symm)]
    exact ih h.2

theorem succIn_mem {l : List α} {x y : α} (h : succIn l x = some y) : y ∈ l := by
  induction l with
  | nil => cases h
  | cons a rest ih =>
    simp only [succIn] at h
    by_cases e : a = x
    · simp only [e, if_true] at h
      exact List.mem_cons_of_mem _ (List.mem_of_mem_head? h)
    · simp only [e, if_false] at h
      exact List.mem_cons_of_mem _ (ih h)

end

section
variable {α β : Type} [DecidableEq α] [DecidableEq β]

theorem succIn_map {A : List α} {f : α → β} {x : α}
    (hinj : ∀ a ∈ A, f a = f x → a = x) :
    succIn (A.map f) (f x) = (succIn A x).map f := by
  induction A with
  | nil => rfl
  | cons a rest ih =>
    simp only [List.map_cons, succIn]
    by_cases e : a = x
    · simp [e]
    · have : f a ≠ f x := fun h => e (hinj a List.mem_cons_self h)
      simp only [this, e, if_false]
      exact ih (fun b hb => hinj b (List.mem_cons_of_mem _ hb))

end

/-! ### `walkIdx` -/

section
variable {β γ : Type}

theorem mem_walkIdx {F : Nat → β → List γ} {s : Nat} {l : List β} {x : γ} :
    x ∈ walkIdx F s l ↔ ∃ i b, l[i]? = some b ∧ x ∈ F (s + i) b := by
  induction l generalizing s with
  | nil => simp [walkIdx]
  | cons a rest ih =>
    simp only [walkIdx, List.mem_append, ih]
    constructor
    · rintro (h | ⟨i, b, hb, hx⟩)
      · exact ⟨0, a, rfl, by simpa using h⟩
      · exact ⟨i + 1, b, by simpa using hb, by rw [← Nat.add_assoc, Nat.add_comm s 1] at *; simpa [Nat.add_comm, Nat.add_left_comm, Nat.add_assoc] using hx⟩
    · rintro ⟨i, b, hb, hx⟩
      cases i with
      | zero => left; simp at hb; subst hb; simpa using hx
      | succ i =>
        right
        refine ⟨i, b, by simpa using hb, ?_⟩
        have : s + (i + 1) = s + 1 + i := by omega
        rw [this] at hx; exact hx

theorem walkIdx_length {F : Nat → β → List γ} {G : β → Nat} (h : ∀ i b, (F i b).length = G b) :
    ∀ (s : Nat) (l : List β), (walkIdx F s l).length = (l.map G).sum
  | _, [] => rfl
  | s, b :: bs => by
    simp only [walkIdx, List.length_append, List.map_cons, List.sum_cons, h, walkIdx_length h (s + 1) bs]

end

/-! ### lexicographic product `A ×ₗ E` (first component varies slowest) -/

section
variable {α : Type}

def lexProd (A : List α) (E : List (List α)) : List (List α) := A.flatMap fun a => E.map (a :: ·)

theorem mem_lexProd {A : List α} {E : List (List α)} {x : List α} :
    x ∈ lexProd A E ↔ ∃ a ∈ A, ∃ e ∈ E, x = a :: e := by
  simp only [lexProd, List.mem_flatMap, List.mem_map]
  constructor
  · rintro ⟨a, ha, e, he, rfl⟩; exact ⟨a, ha, e, he, rfl⟩
  · rintro ⟨a, ha, e, he, rfl⟩; exact ⟨a, ha, e, he, rfl⟩

theorem cons_mem_lexProd {A : List α} {E : List (List α)} {a : α} {e : List α} :
    a :: e ∈ lexProd A E ↔ a ∈ A ∧ e ∈ E := by
  rw [mem_lexProd]
  constructor
  · rintro ⟨a', ha, e', he, h⟩; cases h; exact ⟨ha, he⟩
  · rintro ⟨ha, he⟩; exact ⟨a, ha, e, he, rfl⟩

theorem head?_lexProd {A : List α} {E : List (List α)} {a : α} {e : List α}
    (ha : A.head? = some a) (he : E.head? = some e) : (lexProd A E).head? = some (a :: e) := by
  cases A with
  | nil => cases ha
  | cons a' A' =>
    cases E with
    | nil => cases he
    | cons e' E' =>
      simp only [List.head?_cons, Option.some.injEq] at ha he
      subst ha; subst he
      simp [lexProd]

theorem nodup_lexProd {A : List α} {E : List (List α)} (hA : A.Nodup) (hE : E.Nodup) :
    (lexProd A E).Nodup := by
  unfold lexProd List.Nodup
  rw [List.pairwise_flatMap]
  constructor
  · intro a _
    rw [List.pairwise_map]
    exact hE.imp (fun h e => h (by cases e; rfl))
  · exact hA.imp (fun h x hx y hy e => by
      simp only [List.mem_map] at hx hy
      obtain ⟨_, _, rfl⟩ := hx
      obtain ⟨_, _, rfl⟩ := hy
      cases e
      exact h rfl)

theorem length_lexProd {A : List α} {E : List (List α)} : (lexProd A E).length = A.length * E.length := by
  induction A with
  | nil => simp [lexProd]
  | cons a A ih =>
    have : lexProd (a :: A) E = E.map (a :: ·) ++ lexProd A E := by simp [lexProd]
    rw [this, List.length_append, List.length_map, ih, List.length_cons]
    rw [Nat.add_mul, Nat.one_mul, Nat.add_comm]

variable [DecidableEq α]

theorem succIn_lexProd {A : List α} {E : List (List α)} {a : α} {e : List α}
    (ha : a ∈ A) (he : e ∈ E) :
    succIn (lexProd A E) (a :: e) =
      match succIn E e with
      | some e' => some (a :: e')
      | none => (succIn A a).bind fun a' => E.head?.map (a' :: ·) := by
  induction A with
  | nil => cases ha
  | cons b A ih =>
    have hsplit : lexProd (b :: A) E = E.map (b :: ·) ++ lexProd A E := by simp [lexProd]
    rw [hsplit]
    by_cases hb : b = a
    · subst hb
      have hm : b :: e ∈ E.map (b :: ·) := List.mem_map.mpr ⟨e, he, rfl⟩
      rw [succIn_append_left hm]
      have h1 : succIn (E.map (b :: ·)) (b :: e) = (succIn E e).map (b :: ·) :=
        succIn_map (f := (b :: ·)) (fun x _ h => by cases h; rfl)
      rw [h1]
      cases hs : succIn E e with
      | some e' => simp [Option.orElse]
      | none =>
        simp only [Option.map_none, Option.orElse, succIn, if_true]
        cases A with
        | nil => simp [lexProd]
        | cons c A' =>
          cases E with
          | nil => cases he
          | cons e0 E' => simp [lexProd]
    · have hnm : a :: e ∉ E.map (b :: ·) := by
        intro h
        simp only [List.mem_map] at h
        obtain ⟨_, _, h⟩ := h
        cases h; exact hb rfl
      rw [succIn_append_right hnm]
      have ha' : a ∈ A := by
        cases ha with
        | head => exact absurd rfl hb
        | tail _ h => exact h
      rw [ih ha']
      simp [succIn, hb]

end

end Pg.Geno
