/- C14 — the Cycle crossover of two arrangements of the same distinct items yields two such arrangements
   (cycle-orbit argument). -/
import PgModel.EvoPerm
import PgProofs.Evo
import Mathlib.Data.List.Perm.Subperm
import Mathlib.Data.List.Nodup
import Mathlib.Data.List.Range
import Mathlib.Data.List.GetD
namespace Pg.C14

def iter (f : Nat → Nat) : Nat → Nat → Nat
  | 0, x => x
  | k + 1, x => iter f k (f x)

theorem iter_succ_right (f : Nat → Nat) : ∀ k x, iter f (k + 1) x = f (iter f k x) := by
  intro k
  induction k with
  | zero => intro x; rfl
  | succ k ih => intro x; rw [iter, ih (f x)]; rfl

section
variable (p0 p1 : List Nat)

/-- the walk collects positions that are closed under `cycNext` and from which `i` is reached. -/
theorem orbitFrom_spec (i : Nat) : ∀ (f j : Nat) (acc o : List Nat),
    orbitFrom p0 p1 i f j acc = some o →
    (∀ a ∈ acc, cycNext p0 p1 a ∈ acc ∨ cycNext p0 p1 a = j) →
    (∀ a ∈ acc, ∃ k, iter (cycNext p0 p1) k a = j) →
    (i ∈ acc ∨ j = i) → (∀ a ∈ acc, a < p0.length) → j < p0.length →
    (∀ x ∈ o, cycNext p0 p1 x ∈ o) ∧ (∀ x ∈ o, ∃ k, iter (cycNext p0 p1) k x = i) ∧ i ∈ o ∧
    (∀ x ∈ o, x < p0.length) := by
  intro f
  induction f with
  | zero => intro j acc o h; simp [orbitFrom] at h
  | succ f ih =>
    intro j acc o h h2 h3 hi hlt hj
    simp only [orbitFrom] at h
    split at h
    · rename_i hn
      simp only [Option.some.injEq] at h
      subst h
      have hio : i ∈ j :: acc := by
        rcases hi with hi | hi
        · exact List.mem_cons_of_mem _ hi
        · rw [hi]; exact List.mem_cons_self
      refine ⟨?_, ?_, hio, ?_⟩
      · intro x hx
        rcases List.mem_cons.mp hx with rfl | hx
        · rw [hn]; exact hio
        · rcases h2 x hx with h | h
          · exact List.mem_cons_of_mem _ h
          · rw [h]; exact List.mem_cons_self
      · intro x hx
        rcases List.mem_cons.mp hx with rfl | hx
        · exact ⟨1, hn⟩
        · obtain ⟨k, hk⟩ := h3 x hx
          exact ⟨k + 1, by rw [iter_succ_right, hk, hn]⟩
      · intro x hx
        rcases List.mem_cons.mp hx with rfl | hx
        · exact hj
        · exact hlt x hx
    · rename_i hn
      split at h
      · rename_i hlt'
        refine ih (cycNext p0 p1 j) (j :: acc) o h ?_ ?_ ?_ ?_ hlt'
        · intro a ha
          rcases List.mem_cons.mp ha with rfl | ha
          · exact Or.inr rfl
          · rcases h2 a ha with h | h
            · exact Or.inl (List.mem_cons_of_mem _ h)
            · exact Or.inl (by rw [h]; exact List.mem_cons_self)
        · intro a ha
          rcases List.mem_cons.mp ha with rfl | ha
          · exact ⟨1, rfl⟩
          · obtain ⟨k, hk⟩ := h3 a ha
            exact ⟨k + 1, by rw [iter_succ_right, hk]⟩
        · rcases hi with hi | hi
          · exact Or.inl (List.mem_cons_of_mem _ hi)
          · exact Or.inl (by rw [hi]; exact List.mem_cons_self)
        · intro a ha
          rcases List.mem_cons.mp ha with rfl | ha
          · exact hj
          · exact hlt a ha
      · cases h

theorem orbit_spec (i : Nat) (hi : i < p0.length) (o : List Nat) (h : orbit p0 p1 i = some o) :
    (∀ x ∈ o, cycNext p0 p1 x ∈ o) ∧ (∀ x ∈ o, ∃ k, iter (cycNext p0 p1) k x = i) ∧ i ∈ o ∧
    (∀ x ∈ o, x < p0.length) :=
  orbitFrom_spec p0 p1 i _ i [] o h (by simp) (by simp) (Or.inr rfl) (by simp) hi

end

/-- the assignment of sides is closed under `cycNext`. -/
def SidesClosed (p0 p1 : List Nat) (asg : List (Option Bool)) : Prop :=
  ∀ j b, asg.getD j none = some b → asg.getD (cycNext p0 p1 j) none = some b

theorem sidesClosed_iter {p0 p1 : List Nat} {asg : List (Option Bool)} (hc : SidesClosed p0 p1 asg) :
    ∀ k j b, asg.getD j none = some b → asg.getD (iter (cycNext p0 p1) k j) none = some b := by
  intro k
  induction k with
  | zero => intro j b h; exact h
  | succ k ih => intro j b h; exact ih _ b (hc j b h)

theorem assignAll_getD : ∀ (o : List Nat) (asg : List (Option Bool)) (b : Bool) (x : Nat),
    (∀ y ∈ o, y < asg.length) →
    (assignAll asg o b).getD x none = if x ∈ o then some b else asg.getD x none := by
  intro o
  induction o with
  | nil => intro asg b x _; simp [assignAll]
  | cons y ys ih =>
    intro asg b x hlt
    have hy := hlt y List.mem_cons_self
    have : assignAll asg (y :: ys) b = assignAll (asg.set y (some b)) ys b := rfl
    rw [this, ih (asg.set y (some b)) b x (by
      intro z hz; rw [List.length_set]; exact hlt z (List.mem_cons_of_mem _ hz))]
    by_cases hx : x ∈ ys
    · simp [hx]
    · simp only [hx, if_false, List.mem_cons, or_false]
      by_cases hxy : x = y
      · subst hxy
        simp [List.getD_eq_getElem?_getD, List.getElem?_set, hy]
      · simp only [hxy, if_false]
        simp [List.getD_eq_getElem?_getD, List.getElem?_set, Ne.symm hxy]

theorem length_assignAll : ∀ (o : List Nat) (asg : List (Option Bool)) (b : Bool),
    (assignAll asg o b).length = asg.length := by
  intro o
  induction o with
  | nil => intro asg b; rfl
  | cons y ys ih =>
    intro asg b
    have : assignAll asg (y :: ys) b = assignAll (asg.set y (some b)) ys b := rfl
    rw [this, ih, List.length_set]

/-- the loop keeps the assignment closed under `cycNext` (orbits never overlap what is assigned). -/
theorem cycleLoop_closed (p0 p1 : List Nat) : ∀ (is : List Nat) (asg : List (Option Bool)) (st : St)
    (res : List (Option Bool)) (st' : St),
    (∀ i ∈ is, i < p0.length) → asg.length = p0.length → SidesClosed p0 p1 asg →
    cycleLoop p0 p1 is asg st = .ok (res, st') →
    res.length = p0.length ∧ SidesClosed p0 p1 res := by
  intro is
  induction is with
  | nil =>
    intro asg st res st' _ hl hc h
    simp only [cycleLoop] at h
    rw [pure_ok] at h
    obtain ⟨rfl, _⟩ := h
    exact ⟨hl, hc⟩
  | cons i is ih =>
    intro asg st res st' hlt hl hc h
    simp only [cycleLoop] at h
    split at h
    · exact ih asg st res st' (fun j hj => hlt j (List.mem_cons_of_mem _ hj)) hl hc h
    · rename_i hnone
      rw [bind_ok] at h
      obtain ⟨c, s1, _, h2⟩ := h
      cases ho : orbit p0 p1 i with
      | none => rw [ho] at h2; exact ((fail_ok _ _ _).mp h2).elim
      | some o =>
        rw [ho] at h2
        simp only [] at h2
        obtain ⟨o1, o2, o3, o4⟩ := orbit_spec p0 p1 i (hlt i List.mem_cons_self) o ho
        have hdisj : ∀ x ∈ o, asg.getD x none = none := by
          intro x hx
          cases hax : asg.getD x none with
          | none => rfl
          | some b =>
            obtain ⟨k, hk⟩ := o2 x hx
            have := sidesClosed_iter hc k x b hax
            rw [hk] at this
            rw [this] at hnone
            simp at hnone
        have hlt' : ∀ y ∈ o, y < asg.length := fun y hy => by rw [hl]; exact o4 y hy
        refine ih _ s1 res st' (fun j hj => hlt j (List.mem_cons_of_mem _ hj))
          (by rw [length_assignAll]; exact hl) ?_ h2
        intro j b hj
        rw [assignAll_getD o asg _ j hlt'] at hj
        rw [assignAll_getD o asg _ _ hlt']
        by_cases hjo : j ∈ o
        · rw [if_pos hjo] at hj
          rw [if_pos (o1 j hjo)]
          exact hj
        · rw [if_neg hjo] at hj
          have hn := hc j b hj
          by_cases hno : cycNext p0 p1 j ∈ o
          · rw [hdisj _ hno] at hn; cases hn
          · rw [if_neg hno]; exact hn

theorem allSomeBool_spec : ∀ (asg : List (Option Bool)) (sides : List Bool), allSomeBool asg = some sides →
    sides.length = asg.length ∧ ∀ j, j < asg.length → asg.getD j none = some (sides.getD j false) := by
  intro asg
  induction asg with
  | nil => intro sides h; simp only [allSomeBool, Option.some.injEq] at h; subst h; simp
  | cons a t ih =>
    intro sides h
    cases a with
    | none => simp [allSomeBool] at h
    | some b =>
      simp only [allSomeBool, Option.map_eq_some_iff] at h
      obtain ⟨r, hr, rfl⟩ := h
      obtain ⟨h1, h2⟩ := ih r hr
      refine ⟨by simp [h1], ?_⟩
      intro j hj
      cases j with
      | zero => simp
      | succ j => simpa using h2 j (by simpa using hj)

section
variable {p0 p1 : List Nat} (hn : p0.Nodup) (hp : p1.Perm p0)
include hn hp

theorem cycNext_spec (j : Nat) (hj : j < p0.length) :
    cycNext p0 p1 j < p0.length ∧ p0.getD (cycNext p0 p1 j) 0 = p1.getD j 0 := by
  have hl : p1.length = p0.length := hp.length_eq
  have hmem : p1.getD j 0 ∈ p0 := by
    rw [List.getD_eq_getElem _ _ (by omega)]
    exact hp.mem_iff.mp (List.getElem_mem _)
  unfold cycNext
  have hlt := List.idxOf_lt_length_iff.mpr hmem
  refine ⟨hlt, ?_⟩
  rw [List.getD_eq_getElem _ _ hlt]
  exact List.getElem_idxOf hlt

theorem idxOf_getD (a : Nat) (ha : a < p0.length) : p0.idxOf (p0.getD a 0) = a := by
  rw [List.getD_eq_getElem _ _ ha]
  exact hn.idxOf_getElem a ha

/-- the child that follows a closed, total assignment of sides is an arrangement of the items. -/
theorem cycleChild_perm (sides : List Bool) (hsl : sides.length = p0.length)
    (hclosed : ∀ j, j < p0.length → sides.getD (cycNext p0 p1 j) false = sides.getD j false) :
    (cycleChild p0 p1 sides).Perm p0 := by
  have hl : p1.length = p0.length := hp.length_eq
  have hp1n : p1.Nodup := hp.nodup_iff.mpr hn
  have hnd : (cycleChild p0 p1 sides).Nodup := by
    unfold cycleChild
    apply List.Nodup.map_on _ List.nodup_range
    intro a ha b hb hab
    simp only [List.mem_range] at ha hb
    by_cases hsa : sides.getD a false = true <;> by_cases hsb : sides.getD b false = true
    · simp only [hsa, hsb, if_true] at hab
      rw [List.getD_eq_getElem _ _ ha, List.getD_eq_getElem _ _ hb] at hab
      exact (List.Nodup.getElem_inj_iff hn).mp hab
    · -- a takes p0[a], b takes p1[b] = p0[a]: then a = cycNext b, whose side is b's
      simp only [hsa, hsb, if_true, Bool.false_eq_true, if_false] at hab
      have hnext : cycNext p0 p1 b = a := by
        unfold cycNext; rw [← hab]; exact idxOf_getD hn hp a ha
      have := hclosed b hb
      rw [hnext, hsa] at this
      exact absurd this.symm hsb
    · simp only [hsa, hsb, if_true, Bool.false_eq_true, if_false] at hab
      have hnext : cycNext p0 p1 a = b := by
        unfold cycNext; rw [hab]; exact idxOf_getD hn hp b hb
      have := hclosed a ha
      rw [hnext, hsb] at this
      exact absurd this.symm hsa
    · simp only [hsa, hsb, Bool.false_eq_true, if_false] at hab
      rw [List.getD_eq_getElem _ _ (by omega : a < p1.length),
        List.getD_eq_getElem _ _ (by omega : b < p1.length)] at hab
      exact (List.Nodup.getElem_inj_iff hp1n).mp hab
  have hsub : cycleChild p0 p1 sides ⊆ p0 := by
    intro v hv
    unfold cycleChild at hv
    simp only [List.mem_map, List.mem_range] at hv
    obtain ⟨j, hj, rfl⟩ := hv
    split
    · rw [List.getD_eq_getElem _ _ hj]; exact List.getElem_mem _
    · rw [List.getD_eq_getElem _ _ (by omega : j < p1.length)]
      exact hp.mem_iff.mp (List.getElem_mem _)
  have hlen : p0.length ≤ (cycleChild p0 p1 sides).length := by simp [cycleChild]
  exact (List.subperm_of_subset hnd hsub).perm_of_length_le hlen

/-- Cycle crossover: for two arrangements of the same distinct items and every sequence of coin
draws, both children (whenever the operator returns) are arrangements of those items. -/
theorem permuteCycle_perm (st : St) (c0 c1 : List Nat) (st' : St)
    (h : permuteCycle p0 p1 st = .ok ((c0, c1), st')) : c0.Perm p0 ∧ c1.Perm p0 := by
  unfold permuteCycle at h
  rw [bind_ok] at h
  obtain ⟨asg, s1, h1, h2⟩ := h
  obtain ⟨hlen, hclosed⟩ := cycleLoop_closed p0 p1 (List.range p0.length) _ st asg s1
    (by intro i hi; exact List.mem_range.mp hi) (by simp)
    (by intro j b hj; simp [List.getD_eq_getElem?_getD, List.getElem?_replicate] at hj; split at hj <;> simp at hj) h1
  cases hs : allSomeBool asg with
  | none => rw [hs] at h2; exact ((fail_ok _ _ _).mp h2).elim
  | some sides =>
    rw [hs] at h2
    simp only [] at h2
    rw [pure_ok] at h2
    obtain ⟨h2, _⟩ := h2
    simp only [Prod.mk.injEq] at h2
    obtain ⟨rfl, rfl⟩ := h2
    obtain ⟨hsl, hsv⟩ := allSomeBool_spec asg sides hs
    have hcl : ∀ j, j < p0.length → sides.getD (cycNext p0 p1 j) false = sides.getD j false := by
      intro j hj
      have h1 := hsv j (by omega)
      have h2 := hclosed j _ h1
      have h3 := hsv (cycNext p0 p1 j) (by rw [hlen]; exact (cycNext_spec hn hp j hj).1)
      rw [h2] at h3
      exact (Option.some.inj h3).symm
    refine ⟨cycleChild_perm hn hp sides (by omega) hcl, ?_⟩
    refine cycleChild_perm hn hp (sides.map (!·)) (by simp; omega) ?_
    intro j hj
    have hj' : j < sides.length := by omega
    have hnj : cycNext p0 p1 j < sides.length := by rw [hsl, hlen]; exact (cycNext_spec hn hp j hj).1
    have := hcl j hj
    rw [List.getD_eq_getElem _ _ hj', List.getD_eq_getElem _ _ hnj] at this
    rw [List.getD_eq_getElem _ _ (by simpa using hnj), List.getD_eq_getElem _ _ (by simpa using hj')]
    simp [this]

end

end Pg.C14
