/- C14 — determinism in its prefix form: a run reads a prefix of the oracle stream, and any stream with
   that prefix gives the same result and leaves the rest. -/
import PgProofs.EvoPure
namespace Pg.C14

/-- `x` consumes a prefix `used` of the oracle and does not look at what follows. -/
def FrameM {α : Type} (x : M α) : Prop :=
  ∀ s a s', x s = .ok (a, s') →
    ∃ used, s.oracle = used ++ s'.oracle ∧
      ∀ rest, x { s with oracle := used ++ rest } = .ok (a, { s' with oracle := rest })

theorem FrameM.pure {α : Type} (a : α) : FrameM (Pure.pure a : M α) := by
  intro s b s' h
  rw [pure_ok] at h
  obtain ⟨rfl, rfl⟩ := h
  refine ⟨[], by simp, ?_⟩
  intro rest
  rfl

theorem FrameM.fail {α : Type} (e : Err) : FrameM (fail e : M α) := by
  intro s b s' h; exact ((fail_ok _ _ _).mp h).elim

theorem FrameM.bind {α β : Type} {x : M α} {f : α → M β} (hx : FrameM x) (hf : ∀ a, FrameM (f a)) :
    FrameM (x >>= f) := by
  intro s b s' h
  rw [bind_ok] at h
  obtain ⟨a, s1, h1, h2⟩ := h
  obtain ⟨u1, e1, f1⟩ := hx s a s1 h1
  obtain ⟨u2, e2, f2⟩ := hf a s1 b s' h2
  refine ⟨u1 ++ u2, by rw [e1, e2, List.append_assoc], ?_⟩
  intro rest
  rw [bind_ok]
  refine ⟨a, { s1 with oracle := u2 ++ rest }, ?_, f2 rest⟩
  have := f1 (u2 ++ rest)
  rw [← List.append_assoc] at this
  exact this

theorem FrameM_popEv : FrameM popEv := by
  intro s e s' h
  unfold popEv at h
  split at h
  · cases h
  · rename_i ev rest hs
    simp only [Except.ok.injEq, Prod.mk.injEq] at h
    obtain ⟨rfl, rfl⟩ := h
    refine ⟨[ev], by simp [hs], ?_⟩
    intro r
    simp [popEv]

theorem FrameM_freshUid : FrameM freshUid := by
  intro s u s' h
  simp only [freshUid, Except.ok.injEq, Prod.mk.injEq] at h
  obtain ⟨rfl, rfl⟩ := h
  exact ⟨[], by simp, fun rest => rfl⟩

theorem FrameM_ite {α : Type} (c : Prop) [Decidable c] {x y : M α} (hx : FrameM x) (hy : FrameM y) :
    FrameM (if c then x else y) := by
  split
  · exact hx
  · exact hy

theorem FrameM_nextIdx (k : RK) (n : Nat) : FrameM (nextIdx k n) := by
  unfold nextIdx
  apply FrameM.bind FrameM_popEv
  intro e
  split
  · exact FrameM_ite _ (FrameM.pure _) (FrameM.fail _)
  · exact FrameM.fail _

theorem FrameM_nextSample (n k : Nat) : FrameM (nextSample n k) := by
  unfold nextSample
  apply FrameM.bind FrameM_popEv
  intro e
  split
  · exact FrameM_ite _ (FrameM.pure _) (FrameM.fail _)
  · exact FrameM.fail _

theorem FrameM_nextChoices (n k : Nat) : FrameM (nextChoices n k) := by
  unfold nextChoices
  apply FrameM.bind FrameM_popEv
  intro e
  split
  · exact FrameM_ite _ (FrameM.pure _) (FrameM.fail _)
  · exact FrameM.fail _

theorem FrameM_nextShuffle (n : Nat) : FrameM (nextShuffle n) := by
  unfold nextShuffle
  apply FrameM.bind FrameM_popEv
  intro e
  split
  · exact FrameM_ite _ (FrameM.pure _) (FrameM.fail _)
  · exact FrameM.fail _

theorem FrameM_nextRandom : FrameM nextRandom := by
  unfold nextRandom
  apply FrameM.bind FrameM_popEv
  intro e
  split
  · exact FrameM_ite _ (FrameM.pure _) (FrameM.fail _)
  · exact FrameM.fail _

theorem FrameM_forEachM {α β : Type} (f : α → M β) (hf : ∀ a, FrameM (f a)) : ∀ l, FrameM (forEachM f l) := by
  intro l
  induction l with
  | nil => simp only [forEachM]; exact FrameM.pure _
  | cons a as ih =>
    simp only [forEachM]
    exact FrameM.bind (hf a) (fun b => FrameM.bind ih (fun bs => FrameM.pure _))

theorem FrameM_mkChild (d : DNA) : FrameM (mkChild d) := by
  unfold mkChild
  exact FrameM.bind FrameM_freshUid (fun _ => FrameM.pure _)

theorem FrameM_pickAll (pop : Pop) (is : List Nat) : FrameM (pickAll pop is) := by
  unfold pickAll
  apply FrameM_forEachM
  intro i
  cases pop[i]? with
  | none => exact FrameM.fail _
  | some x => exact FrameM.pure _

/-! ### the loops of the algebra -/

theorem FrameM_iterM (f : Pop → M Pop) (hf : ∀ p, FrameM (f p)) : ∀ k p, FrameM (iterM f k p) := by
  intro k
  induction k with
  | zero => intro p; simp only [iterM]; exact FrameM.pure _
  | succ k ih => intro p; simp only [iterM]; exact FrameM.bind (hf p) (fun q => ih q)

theorem FrameM_repeatM (f : Pop → M Pop) (hf : ∀ p, FrameM (f p)) (p : Pop) : ∀ k, FrameM (repeatM f p k) := by
  intro k
  induction k with
  | zero => simp only [repeatM]; exact FrameM.pure _
  | succ k ih => simp only [repeatM]; exact FrameM.bind (hf p) (fun x => FrameM.bind ih (fun r => FrameM.pure _))

theorem FrameM_untilM (f : Pop → M Pop) (hf : ∀ p, FrameM (f p)) (p : Pop) : ∀ n, FrameM (untilM f p n) := by
  intro n
  induction n with
  | zero => simp only [untilM]; exact hf p
  | succ n ih =>
    simp only [untilM]
    refine FrameM.bind (hf p) (fun out => ?_)
    split
    · exact FrameM.pure _
    · exact ih

theorem FrameM_applySlice (s : SliceSpec) (l : Pop) : FrameM (applySlice s l) := by
  unfold applySlice
  cases s with
  | index i =>
    simp only []
    cases (pyIndex i l.length).bind (fun n => l[n]?) with
    | none => exact FrameM.fail _
    | some x => exact FrameM.pure _
  | range a b c => exact FrameM.pure _

/-! the prefix form of determinism lifts through every combinator. -/
mutual
  theorem eval_frame : ∀ (e : OpExpr), (∀ op ∈ leaves e, ∀ p, FrameM (op p)) → ∀ p, FrameM (eval e p)
    | .leaf op, hl => by
        intro p; simp only [eval]; exact hl op (by simp [leaves]) p
    | .identity, _ => by
        intro p; simp only [eval]; exact FrameM.pure _
    | .seq a b, hl => by
        intro p; simp only [eval]
        exact FrameM.bind (eval_frame a (fun op ho => hl op (by simp [leaves, ho])) p)
          (fun q => eval_frame b (fun op ho => hl op (by simp [leaves, ho])) q)
    | .concat a b, hl => by
        intro p; simp only [eval]
        exact FrameM.bind (eval_frame a (fun op ho => hl op (by simp [leaves, ho])) p)
          (fun x => FrameM.bind (eval_frame b (fun op ho => hl op (by simp [leaves, ho])) p)
            (fun y => FrameM.pure _))
    | .union a b, hl => by
        intro p; simp only [eval]
        exact FrameM.bind (eval_frame a (fun op ho => hl op (by simp [leaves, ho])) p)
          (fun x => FrameM.bind (eval_frame b (fun op ho => hl op (by simp [leaves, ho])) p)
            (fun y => FrameM.pure _))
    | .inter a b, hl => by
        intro p; simp only [eval]
        exact FrameM.bind (eval_frame b (fun op ho => hl op (by simp [leaves, ho])) p)
          (fun y => FrameM.bind (eval_frame a (fun op ho => hl op (by simp [leaves, ho])) p)
            (fun x => FrameM.pure _))
    | .diff a b, hl => by
        intro p; simp only [eval]
        exact FrameM.bind (eval_frame b (fun op ho => hl op (by simp [leaves, ho])) p)
          (fun y => FrameM.bind (eval_frame a (fun op ho => hl op (by simp [leaves, ho])) p)
            (fun x => FrameM.pure _))
    | .symdiff a b, hl => by
        intro p; simp only [eval]
        exact FrameM.bind (eval_frame a (fun op ho => hl op (by simp [leaves, ho])) p)
          (fun x => FrameM.bind (eval_frame b (fun op ho => hl op (by simp [leaves, ho])) p)
            (fun y => FrameM.pure _))
    | .inversion a, hl => by
        intro p; simp only [eval]
        exact FrameM.bind (eval_frame a (fun op ho => hl op (by simp [leaves, ho])) p) (fun y => FrameM.pure _)
    | .slice a s, hl => by
        intro p; simp only [eval]
        exact FrameM.bind (eval_frame a (fun op ho => hl op (by simp [leaves, ho])) p)
          (fun x => FrameM_applySlice s x)
    | .repeat_ a k, hl => by
        intro p; simp only [eval]
        exact FrameM_repeatM _ (eval_frame a (fun op ho => hl op (by simp [leaves, ho]))) p k
    | .power a k, hl => by
        intro p; simp only [eval]
        exact FrameM_iterM _ (eval_frame a (fun op ho => hl op (by simp [leaves, ho]))) k p
    | .choice ops probs limit, hl => by
        intro p; simp only [eval]
        exact evalChoice_frame ops probs limit 0 (fun op ho => hl op (by simp [leaves, ho])) p
    | .cond pred t f, hl => by
        intro p; simp only [eval]
        split
        · exact eval_frame t (fun op ho => hl op (by simp [leaves, ho])) p
        · exact eval_frame f (fun op ho => hl op (by simp [leaves, ho])) p
    | .untilChange a n, hl => by
        intro p; simp only [eval]
        exact FrameM_untilM _ (eval_frame a (fun op ho => hl op (by simp [leaves, ho]))) p n
  theorem evalChoice_frame : ∀ (ops : List OpExpr) (probs : List Q) (limit : Option Nat) (done : Nat),
      (∀ op ∈ leavesAll ops, ∀ p, FrameM (op p)) → ∀ p, FrameM (evalChoice ops probs limit done p)
    | [], probs, limit, done, _ => by
        intro p; simp only [evalChoice]; exact FrameM.pure _
    | op :: ops, [], limit, done, _ => by
        intro p; simp only [evalChoice]; exact FrameM.pure _
    | op :: ops, pr :: probs, limit, done, hl => by
        intro p
        simp only [evalChoice]
        refine FrameM.bind FrameM_nextRandom (fun r => ?_)
        split
        · refine FrameM.bind (eval_frame op (fun o ho => hl o (by simp [leavesAll, ho])) p) (fun q => ?_)
          split
          · exact FrameM.pure _
          · exact evalChoice_frame ops probs limit (done + 1) (fun o ho => hl o (by simp [leavesAll, ho])) q
        · exact evalChoice_frame ops probs limit done (fun o ho => hl o (by simp [leavesAll, ho])) p
end

/-! ### primitives that only draw indices -/

theorem FrameM_selRandom (n : NSpec) (r : Bool) (pop : Pop) : FrameM (selRandom n r pop) := by
  simp only [selRandom]
  cases r with
  | true =>
    simp only [if_true]
    split
    · exact FrameM.fail _
    · exact FrameM.bind (FrameM_forEachM _ (fun _ => FrameM_nextIdx _ _) _) (fun is => FrameM_pickAll pop is)
  | false =>
    simp only [Bool.false_eq_true, if_false]
    exact FrameM.bind (FrameM_nextSample _ _) (fun is => FrameM_pickAll pop is)

theorem FrameM_selSample (n : NSpec) (pop : Pop) : FrameM (selSample n pop) := by
  simp only [selSample]
  split
  · exact FrameM.fail _
  · exact FrameM.bind (FrameM_nextChoices _ _) (fun is => FrameM_pickAll pop is)

theorem FrameM_selTop (n : NSpec) (pop : Pop) : FrameM (selTop n pop) := by
  simp only [selTop]
  split
  · exact FrameM.fail _
  · exact FrameM.pure _

theorem FrameM_selBottom (n : NSpec) (pop : Pop) : FrameM (selBottom n pop) := by
  simp only [selBottom]
  split
  · exact FrameM.fail _
  · exact FrameM.pure _

theorem FrameM_selFirst (n : NSpec) (pop : Pop) : FrameM (selFirst n pop) := by
  simp only [selFirst]; exact FrameM.pure _

theorem FrameM_selLast (n : NSpec) (pop : Pop) : FrameM (selLast n pop) := by
  simp only [selLast]; exact FrameM.pure _

theorem FrameM_mutSwapW (w : Where) (g : GSpec) (pop : Pop) : FrameM (mutSwapW w g pop) := by
  simp only [mutSwapW]
  apply FrameM_forEachM
  intro x
  refine FrameM.bind ?_ (fun d => FrameM_mkChild d)
  simp only [mutSwapOne]
  refine FrameM.bind (FrameM_nextShuffle _) (fun perm => ?_)
  cases findFirstUnsorted (swapCands w g false x.dna) perm with
  | none => exact FrameM.pure _
  | some cn =>
    obtain ⟨c, n⟩ := cn
    simp only []
    refine FrameM.bind (FrameM_nextSample _ _) (fun ij => ?_)
    rcases ij with _ | ⟨i, _ | ⟨j, _ | ⟨k, t⟩⟩⟩
    · exact FrameM.fail _
    · exact FrameM.fail _
    · exact FrameM.pure _
    · exact FrameM.fail _

end Pg.C14
