/-
  C12: `to_dict` for EVERY option triple as a list of `_put` calls, and the look-up theorem:
  the entry under a key is the list of the values put under it, in DFS order
  (`one` for a single value, `many` for several — the lists that `from_dict` pops).
-/
import PgProofs.GenoDict2
import PgModel.Geno.DictCond
namespace Pg.Geno
open DNA

mutual
  theorem dumpNode_eq (o : Opts) : ∀ (b : BDNA) (dict : List (String × DE)),
      dumpNode o b dict = putAll dict (puts o b)
    | .mk v bound cs, dict => by
      rw [puts, putAll_append, ← dumpList_eq o cs]
      simp only [dumpNode]
      congr 1
      cases bound with
      | none => cases v <;> rfl
      | some dp =>
        cases v with
        | int i =>
          by_cases hk : (dp.kind == .choice) = true
          · simp only [nodePuts, hk, if_true]
            cases hs : dp.sub with
            | none => simp [putAll]
            | some idx =>
              by_cases h1 : (o.multi != 0) = true <;> by_cases h2 : needsSubchoiceKey o dp = true <;>
                simp [putAll, h1, h2]
          · simp [nodePuts, hk, putAll]
        | none => by_cases hk : (dp.kind != .choice) = true <;> simp [nodePuts, putAll, hk]
        | flt n e => by_cases hk : (dp.kind != .choice) = true <;> simp [nodePuts, putAll, hk]
        | str t => by_cases hk : (dp.kind != .choice) = true <;> simp [nodePuts, putAll, hk]
  theorem dumpList_eq (o : Opts) : ∀ (cs : List BDNA) (dict : List (String × DE)),
      dumpList o cs dict = putAll dict (putsList o cs)
    | [], dict => rfl
    | c :: cs, dict => by
      rw [putsList, putAll_append, ← dumpNode_eq o c, ← dumpList_eq o cs]
      rfl
end

/-! ### what `dictPut` does to a look-up -/

def appendDE : Option DE → DV → DE
  | none, v => .one v
  | some (.one x), v => .many [x, v]
  | some (.many xs), v => .many (xs ++ [v])

/-- The update `dictPut` applies to the entries of key `k`. -/
def updEntry (k : String) (v : DV) (p : String × DE) : String × DE :=
  if p.1 == k then (p.1, match p.2 with
                         | .one x => .many [x, v]
                         | .many xs => .many (xs ++ [v]))
  else (p.1, p.2)

theorem dictPut_def (dict : List (String × DE)) (k : String) (v : DV) :
    dictPut dict k v = if dict.any (·.1 == k) then dict.map (updEntry k v) else dict ++ [(k, .one v)] := by
  unfold dictPut
  split
  · congr 1
  · rfl

theorem dictGet_map_upd_other (k k' : String) (v : DV) (hne : k' ≠ k) : ∀ (dict : List (String × DE)),
    dictGet (dict.map (updEntry k v)) k' = dictGet dict k'
  | [] => rfl
  | (k0, e0) :: rest => by
    have ih := dictGet_map_upd_other k k' v hne rest
    unfold dictGet at *
    by_cases h0 : (k0 == k) = true
    · have hk0 : k0 = k := by simpa using h0
      have : (k0 == k') = false := by simp [hk0, Ne.symm hne]
      simp only [List.map_cons, updEntry, h0, if_true, List.find?_cons, this]
      exact ih
    · by_cases h1 : (k0 == k') = true
      · simp [updEntry, h0, List.find?_cons, h1]
      · simp only [List.map_cons, updEntry, h0, Bool.false_eq_true, if_false, List.find?_cons, h1]
        exact ih

theorem dictGet_map_upd_same (k : String) (v : DV) : ∀ (dict : List (String × DE)),
    dict.any (·.1 == k) = true →
    dictGet (dict.map (updEntry k v)) k = some (appendDE (dictGet dict k) v)
  | [], h => by simp at h
  | (k0, e0) :: rest, h => by
    unfold dictGet
    by_cases h0 : (k0 == k) = true
    · cases e0 <;> simp [updEntry, h0, List.find?_cons, appendDE]
    · have hr : rest.any (·.1 == k) = true := by simpa [h0] using h
      have ih := dictGet_map_upd_same k v rest hr
      unfold dictGet at ih
      simp only [List.map_cons, updEntry, h0, Bool.false_eq_true, if_false, List.find?_cons]
      exact ih

theorem dictGet_none_of_not_any (k : String) : ∀ (dict : List (String × DE)),
    dict.any (·.1 == k) = false → dictGet dict k = none
  | [], _ => rfl
  | (k0, e0) :: rest, h => by
    simp only [List.any_cons, Bool.or_eq_false_iff] at h
    unfold dictGet
    simp only [List.find?_cons, h.1]
    exact dictGet_none_of_not_any k rest h.2

theorem dictGet_append_other (k k' : String) (e : DE) (hne : k' ≠ k) (dict : List (String × DE)) :
    dictGet (dict ++ [(k, e)]) k' = dictGet dict k' := by
  unfold dictGet
  rw [List.find?_append]
  have : ([(k, e)] : List (String × DE)).find? (fun p => p.1 == k') = none := by
    simp [List.find?_cons, Ne.symm hne]
  rw [this]
  cases dict.find? (fun p => p.1 == k') <;> rfl

theorem dictGet_put_same (dict : List (String × DE)) (k : String) (v : DV) :
    dictGet (dictPut dict k v) k = some (appendDE (dictGet dict k) v) := by
  rw [dictPut_def]
  by_cases h : dict.any (·.1 == k) = true
  · simp only [h, if_true]; exact dictGet_map_upd_same k v dict h
  · have h' : dict.any (·.1 == k) = false := Bool.eq_false_iff.mpr h
    simp only [h', Bool.false_eq_true, if_false]
    rw [dictGet_none_of_not_any k dict h']
    unfold dictGet
    rw [List.find?_append]
    have : dict.find? (fun p => p.1 == k) = none := by
      have := dictGet_none_of_not_any k dict h'
      unfold dictGet at this
      simpa using this
    simp [this, appendDE]

theorem dictGet_put_other (dict : List (String × DE)) (k k' : String) (v : DV) (hne : k' ≠ k) :
    dictGet (dictPut dict k v) k' = dictGet dict k' := by
  rw [dictPut_def]
  by_cases h : dict.any (·.1 == k) = true
  · simp only [h, if_true]; exact dictGet_map_upd_other k k' v hne dict
  · have h' : dict.any (·.1 == k) = false := Bool.eq_false_iff.mpr h
    simp only [h', Bool.false_eq_true, if_false]
    exact dictGet_append_other k k' _ hne dict

/-! ### the look-up theorem -/

def appendAll (e : Option DE) : List DV → Option DE
  | [] => e
  | v :: vs => appendAll (some (appendDE e v)) vs

/-- `one` for a single value, `many` for several, nothing for none. -/
def toDE (vs : List DV) : Option DE := appendAll none vs

theorem dictGet_putAll (k : String) : ∀ (es : List (String × DV)) (dict : List (String × DE)),
    dictGet (putAll dict es) k = appendAll (dictGet dict k) (collectVals k es)
  | [], dict => rfl
  | (k0, v0) :: es, dict => by
    show dictGet (putAll (dictPut dict k0 v0) es) k = _
    rw [dictGet_putAll k es (dictPut dict k0 v0)]
    by_cases h : k0 = k
    · subst h
      simp [collectVals, dictGet_put_same, appendAll]
    · have hb : (k0 == k) = false := by simp [h]
      simp [collectVals, hb, dictGet_put_other dict k0 k v0 (Ne.symm h)]

/-- TO_DICT, ALL 30 OPTION TRIPLES: the entry under any key is exactly the list of the decisions
`_dump_node` puts under it, in depth-first order. -/
theorem dictGet_toDict (o : Opts) (b : BDNA) (k : String) :
    dictGet (toDict o b) k = toDE (collectVals k (puts o b)) := by
  unfold toDict toDE
  rw [dumpNode_eq, dictGet_putAll]
  rfl

theorem toDE_single (x : DV) : toDE [x] = some (.one x) := rfl
theorem toDE_nil : toDE [] = none := rfl

end Pg.Geno
