/-
  C14 — identities are bounded by the uid counter: if every input object was created before the
  counter's current value, so is every output, and the counter never goes back.  Lifted through the
  algebra (the upper bound of `Pure`, which the `Preserves` shape cannot express).
-/
import PgProofs.Evo
namespace Pg.C14

/-- `P` holds and the object was created before the counter reached `n`. -/
def B (P : Ind → Prop) (n : Nat) (x : Ind) : Prop := P x ∧ x.uid < n

def Bounded (P : Ind → Prop) (op : Op) : Prop :=
  ∀ pop st out st', (∀ x ∈ pop, B P st.nextUid x) → op pop st = .ok (out, st') →
    (∀ y ∈ out, B P st'.nextUid y) ∧ st.nextUid ≤ st'.nextUid

variable {P : Ind → Prop}

theorem bounded_mono {l : Pop} {a b : Nat} (h : ∀ x ∈ l, B P a x) (hab : a ≤ b) : ∀ x ∈ l, B P b x :=
  fun x hx => ⟨(h x hx).1, Nat.lt_of_lt_of_le (h x hx).2 hab⟩

theorem iterM_bounded {f : Pop → M Pop} (hf : Bounded P f) : ∀ k, Bounded P (iterM f k) := by
  intro k
  induction k with
  | zero =>
    intro pop st out st' hp h
    simp only [iterM] at h
    rw [pure_ok] at h
    obtain ⟨rfl, rfl⟩ := h
    exact ⟨hp, Nat.le_refl _⟩
  | succ k ih =>
    intro pop st out st' hp h
    simp only [iterM] at h
    rw [bind_ok] at h
    obtain ⟨q, s1, h1, h2⟩ := h
    obtain ⟨hq, hs1⟩ := hf pop st q s1 hp h1
    obtain ⟨ho, hs2⟩ := ih q s1 out st' hq h2
    exact ⟨ho, Nat.le_trans hs1 hs2⟩

theorem repeatM_bounded {f : Pop → M Pop} (hf : Bounded P f) (pop : Pop) :
    ∀ k st out st', (∀ x ∈ pop, B P st.nextUid x) → repeatM f pop k st = .ok (out, st') →
      (∀ y ∈ out, B P st'.nextUid y) ∧ st.nextUid ≤ st'.nextUid := by
  intro k
  induction k with
  | zero =>
    intro st out st' _ h
    simp only [repeatM] at h
    rw [pure_ok] at h
    obtain ⟨rfl, rfl⟩ := h
    exact ⟨by simp, Nat.le_refl _⟩
  | succ k ih =>
    intro st out st' hp h
    simp only [repeatM] at h
    rw [bind_ok] at h
    obtain ⟨x, s1, h1, h2⟩ := h
    rw [bind_ok] at h2
    obtain ⟨rest, s2, h3, h4⟩ := h2
    rw [pure_ok] at h4
    obtain ⟨rfl, rfl⟩ := h4
    obtain ⟨hx, hs1⟩ := hf pop st x s1 hp h1
    obtain ⟨hr, hs2⟩ := ih s1 rest s2 (bounded_mono hp hs1) h3
    refine ⟨?_, Nat.le_trans hs1 hs2⟩
    intro y hy
    rcases List.mem_append.mp hy with h | h
    · exact bounded_mono hx hs2 y h
    · exact hr y h

theorem untilM_bounded {f : Pop → M Pop} (hf : Bounded P f) (pop : Pop) :
    ∀ n st out st', (∀ x ∈ pop, B P st.nextUid x) → untilM f pop n st = .ok (out, st') →
      (∀ y ∈ out, B P st'.nextUid y) ∧ st.nextUid ≤ st'.nextUid := by
  intro n
  induction n with
  | zero =>
    intro st out st' hp h
    simp only [untilM] at h
    exact hf pop st out st' hp h
  | succ n ih =>
    intro st out st' hp h
    simp only [untilM] at h
    rw [bind_ok] at h
    obtain ⟨o, s1, h1, h2⟩ := h
    obtain ⟨ho, hs1⟩ := hf pop st o s1 hp h1
    split at h2
    · rw [pure_ok] at h2
      obtain ⟨rfl, rfl⟩ := h2
      exact ⟨ho, hs1⟩
    · obtain ⟨hr, hs2⟩ := ih s1 out st' (bounded_mono hp hs1) h2
      exact ⟨hr, Nat.le_trans hs1 hs2⟩

/-- both operands evaluated on the same input, first `a` then `b`: everything they return is bounded
by the final counter. -/
theorem two_bounded {fa fb : Pop → M Pop} (ha : Bounded P fa) (hb : Bounded P fb) (pop : Pop) (st : St)
    (x : Pop) (s1 : St) (y : Pop) (s2 : St) (hp : ∀ z ∈ pop, B P st.nextUid z)
    (h1 : fa pop st = .ok (x, s1)) (h2 : fb pop s1 = .ok (y, s2)) :
    (∀ z ∈ x, B P s2.nextUid z) ∧ (∀ z ∈ y, B P s2.nextUid z) ∧ (∀ z ∈ pop, B P s2.nextUid z) ∧
    st.nextUid ≤ s2.nextUid := by
  obtain ⟨hx, hs1⟩ := ha pop st x s1 hp h1
  obtain ⟨hy, hs2⟩ := hb pop s1 y s2 (bounded_mono hp hs1) h2
  exact ⟨bounded_mono hx hs2, hy, bounded_mono hp (Nat.le_trans hs1 hs2), Nat.le_trans hs1 hs2⟩

mutual
  theorem eval_bounded : ∀ (e : OpExpr), (∀ op ∈ leaves e, Bounded P op) → Bounded P (eval e)
    | .leaf op, hl => by
        intro pop st out st' hp h
        simp only [eval] at h
        exact hl op (by simp [leaves]) pop st out st' hp h
    | .identity, _ => by
        intro pop st out st' hp h
        simp only [eval] at h
        rw [pure_ok] at h
        obtain ⟨rfl, rfl⟩ := h
        exact ⟨hp, Nat.le_refl _⟩
    | .seq a b, hl => by
        intro pop st out st' hp h
        simp only [eval] at h
        rw [bind_ok] at h
        obtain ⟨q, s1, h1, h2⟩ := h
        have ha := eval_bounded a (fun op ho => hl op (by simp [leaves, ho]))
        have hb := eval_bounded b (fun op ho => hl op (by simp [leaves, ho]))
        obtain ⟨hq, hs1⟩ := ha pop st q s1 hp h1
        obtain ⟨ho, hs2⟩ := hb q s1 out st' hq h2
        exact ⟨ho, Nat.le_trans hs1 hs2⟩
    | .concat a b, hl => by
        intro pop st out st' hp h
        simp only [eval] at h
        rw [bind_ok] at h
        obtain ⟨x, s1, h1, h2⟩ := h
        rw [bind_ok] at h2
        obtain ⟨y, s2, h3, h4⟩ := h2
        rw [pure_ok] at h4
        obtain ⟨rfl, rfl⟩ := h4
        have ha := eval_bounded a (fun op ho => hl op (by simp [leaves, ho]))
        have hb := eval_bounded b (fun op ho => hl op (by simp [leaves, ho]))
        obtain ⟨hx, hy, _, hle⟩ := two_bounded ha hb pop st x s1 y s2 hp h1 h3
        refine ⟨?_, hle⟩
        intro z hz
        rcases List.mem_append.mp hz with h | h
        · exact hx z h
        · exact hy z h
    | .union a b, hl => by
        intro pop st out st' hp h
        simp only [eval] at h
        rw [bind_ok] at h
        obtain ⟨x, s1, h1, h2⟩ := h
        rw [bind_ok] at h2
        obtain ⟨y, s2, h3, h4⟩ := h2
        rw [pure_ok] at h4
        obtain ⟨rfl, rfl⟩ := h4
        have ha := eval_bounded a (fun op ho => hl op (by simp [leaves, ho]))
        have hb := eval_bounded b (fun op ho => hl op (by simp [leaves, ho]))
        obtain ⟨hx, hy, _, hle⟩ := two_bounded ha hb pop st x s1 y s2 hp h1 h3
        refine ⟨?_, hle⟩
        intro z hz
        rcases mem_dedupUid _ _ _ hz with h | h
        · rcases List.mem_append.mp h with h | h
          · exact hx z h
          · exact hy z h
        · simp at h
    | .inter a b, hl => by
        intro pop st out st' hp h
        simp only [eval] at h
        rw [bind_ok] at h
        obtain ⟨y, s1, h1, h2⟩ := h
        rw [bind_ok] at h2
        obtain ⟨x, s2, h3, h4⟩ := h2
        rw [pure_ok] at h4
        obtain ⟨rfl, rfl⟩ := h4
        have ha := eval_bounded a (fun op ho => hl op (by simp [leaves, ho]))
        have hb := eval_bounded b (fun op ho => hl op (by simp [leaves, ho]))
        obtain ⟨_, hx, _, hle⟩ := two_bounded hb ha pop st y s1 x s2 hp h1 h3
        exact ⟨fun z hz => hx z ((List.mem_filter.mp hz).1), hle⟩
    | .diff a b, hl => by
        intro pop st out st' hp h
        simp only [eval] at h
        rw [bind_ok] at h
        obtain ⟨y, s1, h1, h2⟩ := h
        rw [bind_ok] at h2
        obtain ⟨x, s2, h3, h4⟩ := h2
        rw [pure_ok] at h4
        obtain ⟨rfl, rfl⟩ := h4
        have ha := eval_bounded a (fun op ho => hl op (by simp [leaves, ho]))
        have hb := eval_bounded b (fun op ho => hl op (by simp [leaves, ho]))
        obtain ⟨_, hx, _, hle⟩ := two_bounded hb ha pop st y s1 x s2 hp h1 h3
        exact ⟨fun z hz => hx z ((List.mem_filter.mp hz).1), hle⟩
    | .symdiff a b, hl => by
        intro pop st out st' hp h
        simp only [eval] at h
        rw [bind_ok] at h
        obtain ⟨x, s1, h1, h2⟩ := h
        rw [bind_ok] at h2
        obtain ⟨y, s2, h3, h4⟩ := h2
        rw [pure_ok] at h4
        obtain ⟨rfl, rfl⟩ := h4
        have ha := eval_bounded a (fun op ho => hl op (by simp [leaves, ho]))
        have hb := eval_bounded b (fun op ho => hl op (by simp [leaves, ho]))
        obtain ⟨hx, hy, _, hle⟩ := two_bounded ha hb pop st x s1 y s2 hp h1 h3
        refine ⟨?_, hle⟩
        intro z hz
        rcases List.mem_append.mp ((List.mem_filter.mp hz).1) with h | h
        · exact hx z h
        · exact hy z h
    | .inversion a, hl => by
        intro pop st out st' hp h
        simp only [eval] at h
        rw [bind_ok] at h
        obtain ⟨y, s1, h1, h2⟩ := h
        rw [pure_ok] at h2
        obtain ⟨rfl, rfl⟩ := h2
        have ha := eval_bounded a (fun op ho => hl op (by simp [leaves, ho]))
        obtain ⟨_, hs1⟩ := ha pop st y s1 hp h1
        exact ⟨fun z hz => bounded_mono hp hs1 z ((List.mem_filter.mp hz).1), hs1⟩
    | .slice a s, hl => by
        intro pop st out st' hp h
        simp only [eval] at h
        rw [bind_ok] at h
        obtain ⟨x, s1, h1, h2⟩ := h
        have ha := eval_bounded a (fun op ho => hl op (by simp [leaves, ho]))
        obtain ⟨hx, hs1⟩ := ha pop st x s1 hp h1
        obtain ⟨hsub, rfl⟩ := applySlice_sub s x s1 out st' h2
        exact ⟨fun z hz => hx z (hsub z hz), hs1⟩
    | .repeat_ a k, hl => by
        intro pop st out st' hp h
        simp only [eval] at h
        have ha := eval_bounded a (fun op ho => hl op (by simp [leaves, ho]))
        exact repeatM_bounded ha pop k st out st' hp h
    | .power a k, hl => by
        intro pop st out st' hp h
        simp only [eval] at h
        have ha := eval_bounded a (fun op ho => hl op (by simp [leaves, ho]))
        exact iterM_bounded ha k pop st out st' hp h
    | .choice ops probs limit, hl => by
        intro pop st out st' hp h
        simp only [eval] at h
        exact evalChoice_bounded ops probs limit 0 (fun op ho => hl op (by simp [leaves, ho])) pop st out st' hp h
    | .cond pred t f, hl => by
        intro pop st out st' hp h
        simp only [eval] at h
        have ht := eval_bounded t (fun op ho => hl op (by simp [leaves, ho]))
        have hf := eval_bounded f (fun op ho => hl op (by simp [leaves, ho]))
        split at h
        · exact ht pop st out st' hp h
        · exact hf pop st out st' hp h
    | .untilChange a n, hl => by
        intro pop st out st' hp h
        simp only [eval] at h
        have ha := eval_bounded a (fun op ho => hl op (by simp [leaves, ho]))
        exact untilM_bounded ha pop n st out st' hp h
  theorem evalChoice_bounded : ∀ (ops : List OpExpr) (probs : List Q) (limit : Option Nat) (done : Nat),
      (∀ op ∈ leavesAll ops, Bounded P op) → Bounded P (evalChoice ops probs limit done)
    | [], probs, limit, done, _ => by
        intro pop st out st' hp h
        simp only [evalChoice] at h
        rw [pure_ok] at h
        obtain ⟨rfl, rfl⟩ := h
        exact ⟨hp, Nat.le_refl _⟩
    | op :: ops, [], limit, done, _ => by
        intro pop st out st' hp h
        simp only [evalChoice] at h
        rw [pure_ok] at h
        obtain ⟨rfl, rfl⟩ := h
        exact ⟨hp, Nat.le_refl _⟩
    | op :: ops, pr :: probs, limit, done, hl => by
        intro pop st out st' hp h
        simp only [evalChoice] at h
        rw [bind_ok] at h
        obtain ⟨r, s1, h1, h2⟩ := h
        have e1 : s1.nextUid = st.nextUid := nextRandom_uid h1
        have hp1 : ∀ x ∈ pop, B P s1.nextUid x := by rw [e1]; exact hp
        have hop := eval_bounded op (fun o ho => hl o (by simp [leavesAll, ho]))
        split at h2
        · rw [bind_ok] at h2
          obtain ⟨q, s2, h3, h4⟩ := h2
          obtain ⟨hq, hs2⟩ := hop pop s1 q s2 hp1 h3
          split at h4
          · rw [pure_ok] at h4
            obtain ⟨rfl, rfl⟩ := h4
            exact ⟨hq, by omega⟩
          · obtain ⟨ho, hs3⟩ := evalChoice_bounded ops probs limit (done + 1)
              (fun o ho => hl o (by simp [leavesAll, ho])) q s2 out st' hq h4
            exact ⟨ho, by omega⟩
        · obtain ⟨ho, hs3⟩ := evalChoice_bounded ops probs limit done
            (fun o ho => hl o (by simp [leavesAll, ho])) pop s1 out st' hp1 h2
          exact ⟨ho, by omega⟩
end

end Pg.C14
