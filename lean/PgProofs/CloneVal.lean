/- Lemmas for the value-clone model (PgModel/CloneVal.lean). -/
import PgModel.CloneVal
namespace Pg.C07.Val

/-- all identities of `l` lie in the half-open interval `[lo, hi)`. -/
def Within (lo hi : Nat) (l : List Nat) : Prop := ∀ i ∈ l, lo ≤ i ∧ i < hi

theorem Within.mono {lo lo' hi hi' : Nat} {l : List Nat} (h : Within lo hi l) (h1 : lo' ≤ lo) (h2 : hi ≤ hi') :
    Within lo' hi' l := fun i hi_ => ⟨Nat.le_trans h1 (h i hi_).1, Nat.lt_of_lt_of_le (h i hi_).2 h2⟩

theorem Within.append {lo hi : Nat} {a b : List Nat} (ha : Within lo hi a) (hb : Within lo hi b) :
    Within lo hi (a ++ b) := by
  intro i hi_
  rcases List.mem_append.mp hi_ with h | h
  · exact ha i h
  · exact hb i h

theorem Within.cons {lo hi x : Nat} {l : List Nat} (hx : lo ≤ x ∧ x < hi) (hl : Within lo hi l) :
    Within lo hi (x :: l) := by
  intro i hi_
  rcases List.mem_cons.mp hi_ with h | h
  · subst h; exact hx
  · exact hl i h

theorem Within.nil {lo hi : Nat} : Within lo hi [] := by intro i h; cases h

/-- a list whose members lie in `[lo, mid)` and one whose members lie in `[mid, hi)` are disjoint, and
duplicate-freeness is preserved by concatenating them. -/
theorem nodup_append_of_within {lo mid hi : Nat} {a b : List Nat} (ha : Within lo mid a) (hb : Within mid hi b)
    (na : a.Nodup) (nb : b.Nodup) : (a ++ b).Nodup := by
  rw [List.nodup_append]
  refine ⟨na, nb, ?_⟩
  intro x hx y hy hxy
  subst hxy
  have h1 := (ha x hx).2
  have h2 := (hb x hy).1
  omega

mutual
  /-- Deep clone: the counter only grows, every identity of the copy is fresh (in `[next, next')`), and
  the identities of the copy are pairwise different. -/
  theorem cloneV_deep (next : Nat) (v : V) :
      next ≤ (cloneV true next v).2 ∧ Within next (cloneV true next v).2 (ids (cloneV true next v).1) ∧
      (ids (cloneV true next v).1).Nodup := by
    cases v with
    | imm n => simp [cloneV, ids, Within]
    | opq i => simp [cloneV, ids, Within]
    | sym i cs =>
      have h := symChildren_deep (next + 1) cs
      simp only [cloneV, ids]
      refine ⟨by omega, Within.cons ⟨Nat.le_refl _, by omega⟩ (h.2.1.mono (by omega) (Nat.le_refl _)), ?_⟩
      rw [List.nodup_cons]
      exact ⟨fun hm => by have := (h.2.1 _ hm).1; omega, h.2.2⟩
    | tup cs =>
      have h := cloneAll_deep next cs
      simp only [cloneV, ids]
      exact h
    | plist i cs =>
      have h := cloneAll_deep (next + 1) cs
      simp only [cloneV, ids]
      refine ⟨by omega, Within.cons ⟨Nat.le_refl _, by omega⟩ (h.2.1.mono (by omega) (Nat.le_refl _)), ?_⟩
      rw [List.nodup_cons]
      exact ⟨fun hm => by have := (h.2.1 _ hm).1; omega, h.2.2⟩
    | pdict i cs =>
      have h := cloneAll_deep (next + 1) cs
      simp only [cloneV, ids]
      refine ⟨by omega, Within.cons ⟨Nat.le_refl _, by omega⟩ (h.2.1.mono (by omega) (Nat.le_refl _)), ?_⟩
      rw [List.nodup_cons]
      exact ⟨fun hm => by have := (h.2.1 _ hm).1; omega, h.2.2⟩
  theorem cloneAll_deep (next : Nat) (cs : List V) :
      next ≤ (cloneAll true next cs).2 ∧ Within next (cloneAll true next cs).2 (idsAll (cloneAll true next cs).1) ∧
      (idsAll (cloneAll true next cs).1).Nodup := by
    cases cs with
    | nil => simp [cloneAll, idsAll, Within]
    | cons c cs =>
      have h1 := cloneV_deep next c
      have h2 := cloneAll_deep (cloneV true next c).2 cs
      simp only [cloneAll, idsAll]
      refine ⟨by omega, (h1.2.1.mono (Nat.le_refl _) h2.1).append (h2.2.1.mono h1.1 (Nat.le_refl _)), ?_⟩
      exact nodup_append_of_within h1.2.1 h2.2.1 h1.2.2 h2.2.2
  theorem symChildren_deep (next : Nat) (cs : List V) :
      next ≤ (symChildren true next cs).2 ∧
      Within next (symChildren true next cs).2 (idsAll (symChildren true next cs).1) ∧
      (idsAll (symChildren true next cs).1).Nodup := by
    cases cs with
    | nil => simp [symChildren, idsAll, Within]
    | cons c cs =>
      have h1 := cloneV_deep next c
      have h2 := symChildren_deep (cloneV true next c).2 cs
      simp only [symChildren, idsAll, Bool.true_or, if_true]
      refine ⟨by omega, (h1.2.1.mono (Nat.le_refl _) h2.1).append (h2.2.1.mono h1.1 (Nat.le_refl _)), ?_⟩
      exact nodup_append_of_within h1.2.1 h2.2.1 h1.2.2 h2.2.2
end

mutual
  /-- Deep or shallow, the copy has the shape of the original. -/
  theorem cloneV_shape (deep : Bool) (next : Nat) (v : V) : shape (cloneV deep next v).1 = shape v := by
    cases v with
    | imm n => simp [cloneV, shape]
    | opq i => simp [cloneV, shape]
    | sym i cs => simp only [cloneV, shape]; rw [symChildren_shape deep (next + 1) cs]
    | tup cs => simp only [cloneV, shape]; rw [cloneAll_shape deep next cs]
    | plist i cs => simp only [cloneV, shape]; rw [cloneAll_shape deep (next + 1) cs]
    | pdict i cs => simp only [cloneV, shape]; rw [cloneAll_shape deep (next + 1) cs]
  theorem cloneAll_shape (deep : Bool) (next : Nat) (cs : List V) :
      shapeAll (cloneAll deep next cs).1 = shapeAll cs := by
    cases cs with
    | nil => simp [cloneAll, shapeAll]
    | cons c cs =>
      simp only [cloneAll, shapeAll]
      rw [cloneV_shape deep next c, cloneAll_shape deep _ cs]
  theorem symChildren_shape (deep : Bool) (next : Nat) (cs : List V) :
      shapeAll (symChildren deep next cs).1 = shapeAll cs := by
    cases cs with
    | nil => simp [symChildren, shapeAll]
    | cons c cs =>
      simp only [symChildren, shapeAll]
      by_cases h : (deep || c.isSym) = true
      · simp only [h, if_true]
        rw [cloneV_shape deep next c, symChildren_shape deep _ cs]
      · simp only [h, if_false, Bool.false_eq_true]
        rw [symChildren_shape deep _ cs]
end

end Pg.C07.Val
