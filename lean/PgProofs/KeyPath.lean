/-
  C10 — helper lemmas about the `KeyPath` model (parse state machine, printing, digits,
  arithmetic, ordering). Core Lean only.
-/
import PgModel.KeyPath
namespace Pg.C10

/-! ### Well-formed keys -/

/-- Bracket balance: `bal d s = some d'` iff reading `s` from depth `d` never closes a bracket
that is not open, and ends at depth `d'`. -/
def bal : Nat → List Char → Option Nat
  | d, [] => some d
  | d, c :: cs =>
    if c = '[' then bal (d + 1) cs
    else if c = ']' then (match d with
      | 0 => none
      | d' + 1 => bal d' cs)
    else bal d cs

/-- The keys for which the round trip is promised: any int; a str that is non-empty and
bracket-balanced. -/
def wfKey : Key → Bool
  | .s k => !k.isEmpty && bal 0 k == some 0
  | .i _ => true

def wfKeys (ks : Path) : Bool := ks.all wfKey

/-- What the model needs to know about `str.isdigit` / `int()`: ASCII digits are decimal digits
with their value; the three delimiter characters are not digits. -/
structure DigitLaws (dc : DigitClass) : Prop where
  dec : ∀ d, d < 10 → dc (digitChar d) = .dec d
  lb : dc '[' = .none
  rb : dc ']' = .none
  dot : dc '.' = .none

theorem asciiClass_laws : DigitLaws asciiClass := by
  refine ⟨?_, by decide, by decide, by decide⟩
  intro d hd
  have : ∀ d : Fin 10, asciiClass (digitChar d.val) = .dec d.val := by decide
  exact this ⟨d, hd⟩

/-! ### Characters -/

theorem isSpecial_iff (c : Char) : isSpecial c = true ↔ (c = '[' ∨ c = ']' ∨ c = '.') := by
  simp [isSpecial, or_assoc]

theorem hasSpecial_cons (c : Char) (cs : List Char) :
    hasSpecial (c :: cs) = (isSpecial c || hasSpecial cs) := by
  simp [hasSpecial]

theorem hasSpecial_append (a b : List Char) : hasSpecial (a ++ b) = (hasSpecial a || hasSpecial b) := by
  simp [hasSpecial]

theorem digitChar_not_special : ∀ d, d < 10 → isSpecial (digitChar d) = false := by
  intro d hd
  have : ∀ d : Fin 10, isSpecial (digitChar d.val) = false := by decide
  exact this ⟨d, hd⟩

theorem digitChar_ne_dash : ∀ d, d < 10 → digitChar d ≠ '-' := by
  intro d hd
  have : ∀ d : Fin 10, digitChar d.val ≠ '-' := by decide
  exact this ⟨d, hd⟩

/-! ### Digits -/

theorem natDigitsAux_fuel : ∀ (n f g : Nat), n < f → n < g → natDigitsAux f n = natDigitsAux g n := by
  intro n
  induction n using Nat.strongRecOn with
  | _ n ih =>
    intro f g hf hg
    cases f with
    | zero => omega
    | succ f =>
      cases g with
      | zero => omega
      | succ g =>
        simp only [natDigitsAux]
        split
        · rfl
        · rw [ih (n / 10) (by omega) f g (by omega) (by omega)]

theorem natDigits_eq (n : Nat) :
    natDigits n = if n < 10 then [digitChar n] else natDigits (n / 10) ++ [digitChar (n % 10)] := by
  have h : natDigits n = natDigitsAux (n + 1) n := rfl
  rw [h]
  simp only [natDigitsAux]
  split
  · rfl
  · show natDigitsAux n (n / 10) ++ _ = natDigitsAux (n / 10 + 1) (n / 10) ++ _
    rw [natDigitsAux_fuel (n / 10) n (n / 10 + 1) (by omega) (by omega)]

theorem natDigits_chars (n : Nat) : ∀ c ∈ natDigits n, ∃ d, d < 10 ∧ c = digitChar d := by
  induction n using Nat.strongRecOn with
  | _ n ih =>
    intro c hc
    rw [natDigits_eq] at hc
    split at hc
    · simp at hc; exact ⟨n, by omega, hc⟩
    · rw [List.mem_append] at hc
      rcases hc with hc | hc
      · exact ih (n / 10) (by omega) c hc
      · simp at hc; exact ⟨n % 10, by omega, hc⟩

theorem natDigits_ne_nil (n : Nat) : natDigits n ≠ [] := by
  rw [natDigits_eq]
  split <;> simp

theorem digitsValAux_append (dc : DigitClass) (acc : Nat) (s t : List Char) :
    digitsValAux dc acc (s ++ t) =
      (match digitsValAux dc acc s with
       | some a => digitsValAux dc a t
       | none => none) := by
  induction s generalizing acc with
  | nil => simp [digitsValAux]
  | cons c cs ih =>
    simp only [List.cons_append, digitsValAux]
    cases dc c <;> simp [ih]

theorem digitsVal_natDigits {dc : DigitClass} (h : DigitLaws dc) (n : Nat) :
    digitsVal dc (natDigits n) = some n := by
  unfold digitsVal
  induction n using Nat.strongRecOn with
  | _ n ih =>
    rw [natDigits_eq]
    split
    · rename_i hn
      simp [digitsValAux, h.dec n hn]
    · rename_i hn
      rw [digitsValAux_append, ih (n / 10) (by omega)]
      simp only [digitsValAux, h.dec (n % 10) (by omega)]
      congr 1
      omega

theorem isDigitStr_natDigits {dc : DigitClass} (h : DigitLaws dc) (n : Nat) :
    isDigitStr dc (natDigits n) = true := by
  unfold isDigitStr
  have hne := natDigits_ne_nil n
  have hall : (natDigits n).all (fun c => dc c != .none) = true := by
    rw [List.all_eq_true]
    intro c hc
    obtain ⟨d, hd, rfl⟩ := natDigits_chars n c hc
    rw [h.dec d hd]
    rfl
  cases hs : natDigits n with
  | nil => exact absurd hs hne
  | cons c cs => rw [hs] at hall; simp [hall]

theorem natDigits_head (n : Nat) : ∃ c cs, natDigits n = c :: cs ∧ c ≠ '-' := by
  cases hs : natDigits n with
  | nil => exact absurd hs (natDigits_ne_nil n)
  | cons c cs =>
    refine ⟨c, cs, rfl, ?_⟩
    obtain ⟨d, hd, rfl⟩ := natDigits_chars n c (by rw [hs]; simp)
    exact digitChar_ne_dash d hd

theorem lstripDash_natDigits (n : Nat) : lstripDash (natDigits n) = natDigits n := by
  obtain ⟨c, cs, hs, hc⟩ := natDigits_head n
  rw [hs]
  simp [lstripDash, hc]

theorem lstripDash_intStr (z : Int) : lstripDash (intStr z) = natDigits z.natAbs := by
  unfold intStr
  split
  · rename_i hz
    have : (-z).toNat = z.natAbs := by omega
    simp [lstripDash, this, lstripDash_natDigits]
  · rename_i hz
    have : z.toNat = z.natAbs := by omega
    rw [this, lstripDash_natDigits]

theorem pyInt_intStr {dc : DigitClass} (h : DigitLaws dc) (z : Int) : pyInt dc (intStr z) = some z := by
  unfold intStr
  split
  · rename_i hz
    obtain ⟨c, cs, hs, hc⟩ := natDigits_head (-z).toNat
    have hv := digitsVal_natDigits h (-z).toNat
    rw [hs] at hv
    simp only [pyInt, hs, if_true, List.head?_cons, Option.some.injEq, hc, if_false, hv, Option.map_some]
    congr 1
    show -(((-z).toNat : Nat) : Int) = z
    omega
  · rename_i hz
    obtain ⟨c, cs, hs, hc⟩ := natDigits_head z.toNat
    have hv := digitsVal_natDigits h z.toNat
    rw [hs] at hv
    simp only [hs, pyInt, hc, if_false, hv, Option.map_some]
    congr 1
    show ((z.toNat : Nat) : Int) = z
    omega

theorem intStr_not_special (z : Int) : hasSpecial (intStr z) = false := by
  have hn : ∀ n, hasSpecial (natDigits n) = false := by
    intro n
    unfold hasSpecial
    rw [List.any_eq_false]
    intro c hc
    obtain ⟨d, hd, rfl⟩ := natDigits_chars n c hc
    simp [digitChar_not_special d hd]
  unfold intStr
  split
  · rw [hasSpecial_cons, hn]; decide
  · exact hn _

/-! ### Balance -/

theorem bal_of_not_special (d : Nat) (s : List Char) (h : hasSpecial s = false) : bal d s = some d := by
  induction s with
  | nil => rfl
  | cons c cs ih =>
    rw [hasSpecial_cons, Bool.or_eq_false_iff] at h
    have hc : ¬ (c = '[' ∨ c = ']' ∨ c = '.') := by
      rw [← isSpecial_iff]; simp [h.1]
    have h1 : c ≠ '[' := fun e => hc (Or.inl e)
    have h2 : c ≠ ']' := fun e => hc (Or.inr (Or.inl e))
    simp [bal, h1, h2, ih h.2]

/-! ### The state machine on segments -/

theorem run_append (dc : DigitClass) (st : PState) (a b : List Char) :
    run dc st (a ++ b) =
      (match run dc st a with
       | .ok st' => run dc st' b
       | .error e => .error e) := by
  induction a generalizing st with
  | nil => rfl
  | cons c cs ih =>
    simp only [List.cons_append, run]
    cases step dc st c with
    | ok st' => exact ih st'
    | error e => rfl

/-- Inside brackets (depth ≥ 1) a balanced body is accumulated verbatim. -/
theorem run_body (dc : DigitClass) (keys : Path) :
    ∀ (s : List Char) (cur : List Char) (d d' : Nat), bal d s = some d' →
      run dc ⟨keys, cur, d + 1⟩ s = .ok ⟨keys, cur ++ s, d' + 1⟩ := by
  intro s
  induction s with
  | nil => intro cur d d' h; simp [bal] at h; simp [run, h]
  | cons c cs ih =>
    intro cur d d' h
    simp only [bal] at h
    by_cases h1 : c = '['
    · subst h1
      simp only [if_true] at h
      have : step dc ⟨keys, cur, d + 1⟩ '[' = .ok ⟨keys, cur ++ ['['], d + 2⟩ := by
        simp [step]
      simp only [run, this]
      rw [ih _ _ _ h]
      simp
    · simp only [h1, if_false] at h
      by_cases h2 : c = ']'
      · subst h2
        simp only [if_true] at h
        cases d with
        | zero => simp at h
        | succ e =>
          simp only at h
          have : step dc ⟨keys, cur, e + 1 + 1⟩ ']' = .ok ⟨keys, cur ++ [']'], e + 1⟩ := by
            simp [step]
          simp only [run, this]
          rw [ih _ _ _ h]
          simp
      · simp only [h2, if_false] at h
        have : step dc ⟨keys, cur, d + 1⟩ c = .ok ⟨keys, cur ++ [c], d + 1⟩ := by
          simp [step, h1, h2]
        simp only [run, this]
        rw [ih _ _ _ h]
        simp

/-- At depth 0 a string without delimiter characters is accumulated verbatim. -/
theorem run_plain (dc : DigitClass) (keys : Path) :
    ∀ (s : List Char) (cur : List Char), hasSpecial s = false →
      run dc ⟨keys, cur, 0⟩ s = .ok ⟨keys, cur ++ s, 0⟩ := by
  intro s
  induction s with
  | nil => intro cur _; simp [run]
  | cons c cs ih =>
    intro cur h
    rw [hasSpecial_cons, Bool.or_eq_false_iff] at h
    have hc : ¬ (c = '[' ∨ c = ']' ∨ c = '.') := by
      rw [← isSpecial_iff]; simp [h.1]
    have h1 : c ≠ '[' := fun e => hc (Or.inl e)
    have h2 : c ≠ ']' := fun e => hc (Or.inr (Or.inl e))
    have h3 : c ≠ '.' := fun e => hc (Or.inr (Or.inr e))
    have : step dc ⟨keys, cur, 0⟩ c = .ok ⟨keys, cur ++ [c], 0⟩ := by
      simp [step, h1, h2, h3]
    simp only [run, this]
    rw [ih _ h.2]
    simp

/-- The keys a state stands for once its pending plain segment is flushed. -/
def flushed (st : PState) : Path := if st.cur.isEmpty then st.keys else st.keys ++ [.s st.cur]

theorem appendKey_plain (dc : DigitClass) (keys : Path) (cur : List Char) :
    appendKey dc keys cur false false = .ok (flushed ⟨keys, cur, 0⟩) := by
  unfold appendKey flushed
  cases cur <;> simp

theorem mem_lstripDash (c : Char) (hc : c ≠ '-') : ∀ s : List Char, c ∈ s → c ∈ lstripDash s := by
  intro s
  induction s with
  | nil => intro h; exact h
  | cons a as ih =>
    intro h
    rw [lstripDash]
    split
    · rename_i ha
      subst ha
      rcases List.mem_cons.mp h with h | h
      · exact absurd h hc
      · exact ih h
    · exact h

theorem isDigitStr_special {dc : DigitClass} (h : DigitLaws dc) (k : List Char) (hk : hasSpecial k = true) :
    isDigitStr dc (lstripDash k) = false := by
  unfold hasSpecial at hk
  rw [List.any_eq_true] at hk
  obtain ⟨c, hc, hs⟩ := hk
  rw [isSpecial_iff] at hs
  have hdash : c ≠ '-' := by
    rcases hs with rfl | rfl | rfl <;> decide
  have hmem := mem_lstripDash c hdash k hc
  have hdc : dc c = .none := by
    rcases hs with rfl | rfl | rfl
    · exact h.lb
    · exact h.rb
    · exact h.dot
  unfold isDigitStr
  rw [Bool.and_eq_false_iff]
  right
  rw [List.all_eq_false]
  exact ⟨c, hmem, by simp [hdc]⟩

theorem appendKey_special {dc : DigitClass} (h : DigitLaws dc) (keys : Path) (k : List Char)
    (hk : hasSpecial k = true) : appendKey dc keys k true true = .ok (keys ++ [.s k]) := by
  unfold appendKey
  simp [isDigitStr_special h k hk]

theorem appendKey_int {dc : DigitClass} (h : DigitLaws dc) (keys : Path) (z : Int) :
    appendKey dc keys (intStr z) true true = .ok (keys ++ [.i z]) := by
  unfold appendKey
  simp [lstripDash_intStr, isDigitStr_natDigits h, pyInt_intStr h]

/-- A bracketed segment `[body]` whose body is accumulated verbatim and closes into key `k`. -/
theorem run_bracket (dc : DigitClass) (st : PState) (body : List Char) (k : Key)
    (hd : st.depth = 0) (hb : bal 0 body = some 0)
    (hk : ∀ keys, appendKey dc keys body true true = .ok (keys ++ [k])) :
    run dc st ('[' :: (body ++ [']'])) = .ok ⟨flushed st ++ [k], [], 0⟩ := by
  obtain ⟨keys, cur, depth⟩ := st
  simp only at hd
  subst hd
  have h1 : step dc ⟨keys, cur, 0⟩ '[' = .ok ⟨flushed ⟨keys, cur, 0⟩, [], 1⟩ := by
    simp [step, appendKey_plain]
  simp only [run, h1]
  rw [run_append, run_body dc _ body [] 0 0 hb]
  have h2 : step dc ⟨flushed ⟨keys, cur, 0⟩, [] ++ body, 0 + 1⟩ ']' =
      .ok ⟨flushed ⟨keys, cur, 0⟩ ++ [k], [], 0⟩ := by
    simp [step, hk]
  simp only [run, h2]

/-- One key's segment, not at the start of the string. -/
theorem run_keySeg {dc : DigitClass} (h : DigitLaws dc) (st : PState) (k : Key)
    (hd : st.depth = 0) (hw : wfKey k = true) :
    ∃ st', run dc st (keySeg true false k) = .ok st' ∧ st'.depth = 0 ∧ flushed st' = flushed st ++ [k] := by
  cases k with
  | i z =>
    refine ⟨_, run_bracket dc st (intStr z) (.i z) hd
      (bal_of_not_special 0 _ (intStr_not_special z)) (fun keys => appendKey_int h keys z), rfl, ?_⟩
    simp [flushed]
  | s k =>
    simp only [wfKey, Bool.and_eq_true, Bool.not_eq_true', beq_iff_eq] at hw
    by_cases hs : hasSpecial k = true
    · have : keySeg true false (.s k) = '[' :: (k ++ [']']) := by simp [keySeg, hs]
      rw [this]
      refine ⟨_, run_bracket dc st k (.s k) hd hw.2 (fun keys => appendKey_special h keys k hs), rfl, ?_⟩
      simp [flushed]
    · have hs' : hasSpecial k = false := by simpa using hs
      have : keySeg true false (.s k) = '.' :: k := by simp [keySeg, hs']
      rw [this]
      obtain ⟨keys, cur, depth⟩ := st
      simp only at hd
      subst hd
      have h1 : step dc ⟨keys, cur, 0⟩ '.' = .ok ⟨flushed ⟨keys, cur, 0⟩, [], 0⟩ := by
        simp [step, appendKey_plain]
      refine ⟨⟨flushed ⟨keys, cur, 0⟩, [] ++ k, 0⟩, ?_, rfl, ?_⟩
      · simp only [run, h1]
        exact run_plain dc _ k [] hs'
      · have hk : k.isEmpty = false := hw.1
        simp [flushed, hk]

/-- The first key's segment, from the initial state. -/
theorem run_keySeg_first {dc : DigitClass} (h : DigitLaws dc) (k : Key) (hw : wfKey k = true) :
    ∃ st', run dc ⟨[], [], 0⟩ (keySeg true true k) = .ok st' ∧ st'.depth = 0 ∧ flushed st' = [k] := by
  cases k with
  | i z =>
    obtain ⟨st', h1, h2, h3⟩ := run_keySeg h ⟨[], [], 0⟩ (.i z) rfl hw
    exact ⟨st', by simpa [keySeg] using h1, h2, by simpa [flushed] using h3⟩
  | s k =>
    by_cases hs : hasSpecial k = true
    · obtain ⟨st', h1, h2, h3⟩ := run_keySeg h ⟨[], [], 0⟩ (.s k) rfl hw
      exact ⟨st', by simpa [keySeg, hs] using h1, h2, by simpa [flushed] using h3⟩
    · have hs' : hasSpecial k = false := by simpa using hs
      simp only [wfKey, Bool.and_eq_true, Bool.not_eq_true', beq_iff_eq] at hw
      have : keySeg true true (.s k) = k := by simp [keySeg, hs']
      rw [this]
      refine ⟨⟨[], [] ++ k, 0⟩, run_plain dc [] k [] hs', rfl, ?_⟩
      have hk : k.isEmpty = false := hw.1
      simp [flushed, hk]

theorem run_segs {dc : DigitClass} (h : DigitLaws dc) :
    ∀ (ks : Path) (st : PState), st.depth = 0 → wfKeys ks = true →
      ∃ st', run dc st (segs true false ks) = .ok st' ∧ st'.depth = 0 ∧ flushed st' = flushed st ++ ks := by
  intro ks
  induction ks with
  | nil => intro st hd _; exact ⟨st, by simp [segs, run], hd, by simp⟩
  | cons k ks ih =>
    intro st hd hw
    simp only [wfKeys, List.all_cons, Bool.and_eq_true] at hw
    obtain ⟨st1, h1, hd1, hf1⟩ := run_keySeg h st k hd hw.1
    obtain ⟨st2, h2, hd2, hf2⟩ := ih st1 hd1 hw.2
    refine ⟨st2, ?_, hd2, ?_⟩
    · simp only [segs]
      rw [run_append, h1]
      exact h2
    · rw [hf2, hf1]; simp

theorem finish_flushed (dc : DigitClass) (st : PState) (hd : st.depth = 0) :
    finish dc st = .ok (flushed st) := by
  obtain ⟨keys, cur, depth⟩ := st
  simp only at hd
  subst hd
  unfold finish
  simp only [appendKey_plain]
  cases cur <;> simp [flushed]

theorem parse_pathStr {dc : DigitClass} (h : DigitLaws dc) (ks : Path) (hw : wfKeys ks = true) :
    parse dc (pathStr ks) = .ok ks := by
  unfold parse pathStr pathStrPc
  cases ks with
  | nil => simp [segs, run, finish]
  | cons k ks =>
    simp only [wfKeys, List.all_cons, Bool.and_eq_true] at hw
    obtain ⟨st1, h1, hd1, hf1⟩ := run_keySeg_first h k hw.1
    obtain ⟨st2, h2, hd2, hf2⟩ := run_segs h ks st1 hd1 hw.2
    simp only [segs]
    rw [run_append, h1]
    simp only [h2, finish_flushed dc st2 hd2, hf2, hf1]
    simp

/-! ### Arithmetic -/

theorem subKeys_ok_iff (p q r : Path) : subKeys p q = .ok r ↔ p = q ++ r := by
  induction q generalizing p with
  | nil => cases p <;> simp [subKeys, eq_comm]
  | cons b q ih =>
    cases p with
    | nil => simp [subKeys]
    | cons a p =>
      simp only [subKeys]
      by_cases hab : a = b
      · subst hab; simp [ih]
      · simp only [hab, if_false, List.cons_append, List.cons.injEq, false_and, iff_false]
        intro h; cases h

theorem subKeys_error_iff (p q : Path) : (∃ e, subKeys p q = .error e) ↔ ¬ ∃ r, p = q ++ r := by
  constructor
  · rintro ⟨e, he⟩ ⟨r, hr⟩
    rw [(subKeys_ok_iff p q r).mpr hr] at he
    cases he
  · intro h
    cases hs : subKeys p q with
    | ok r => exact absurd ⟨r, (subKeys_ok_iff p q r).mp hs⟩ h
    | error e => exact ⟨e, rfl⟩

theorem subKeys_error_value (p q : Path) (e : Err) (h : subKeys p q = .error e) : e = .value := by
  induction q generalizing p with
  | nil => cases p <;> simp [subKeys] at h
  | cons b q ih =>
    cases p with
    | nil => simp [subKeys] at h; exact h.symm
    | cons a p =>
      simp only [subKeys] at h
      split at h
      · exact ih p h
      · cases h; rfl

theorem relKeys_iff (p q : Path) : relKeys p q = true ↔ ∃ r, p = q ++ r := by
  induction q generalizing p with
  | nil => cases p <;> simp [relKeys]
  | cons b q ih =>
    cases p with
    | nil => simp [relKeys]
    | cons a p =>
      simp only [relKeys]
      by_cases hab : a = b
      · subst hab; simp [ih]
      · simp [hab]

/-! ### Ordering -/

theorem strLt_irrefl (a : List Char) : strLt a a = false := by
  induction a with
  | nil => rfl
  | cons c cs ih => simp [strLt, ih]

theorem char_eq_of_toNat {a b : Char} (h : a.toNat = b.toNat) : a = b := by
  apply Char.ext
  apply UInt32.toNat_inj.mp
  exact h

theorem strLt_trans : ∀ a b c : List Char, strLt a b = true → strLt b c = true → strLt a c = true := by
  intro a
  induction a with
  | nil =>
    intro b c h1 h2
    cases b with
    | nil => simp [strLt] at h1
    | cons y ys => cases c with
      | nil => simp [strLt] at h2
      | cons z zs => rfl
  | cons x xs ih =>
    intro b c h1 h2
    cases b with
    | nil => simp [strLt] at h1
    | cons y ys =>
      cases c with
      | nil => simp [strLt] at h2
      | cons z zs =>
        simp only [strLt] at h1 h2 ⊢
        by_cases hxy : x.toNat < y.toNat
        · by_cases hyz : y.toNat < z.toNat
          · have : x.toNat < z.toNat := by omega
            simp [this]
          · simp only [hyz, if_false] at h2
            by_cases hyz' : y = z
            · subst hyz'; simp [hxy]
            · simp [hyz'] at h2
        · simp only [hxy, if_false] at h1
          by_cases hxy' : x = y
          · subst hxy'
            simp only [if_true] at h1
            by_cases hyz : x.toNat < z.toNat
            · simp [hyz]
            · simp only [hyz, if_false] at h2 ⊢
              by_cases hxz : x = z
              · subst hxz
                simp only [if_true] at h2 ⊢
                exact ih _ _ h1 h2
              · simp [hxz] at h2
          · simp [hxy'] at h1

theorem strLt_total : ∀ a b : List Char, a ≠ b → strLt a b = true ∨ strLt b a = true := by
  intro a
  induction a with
  | nil => intro b h; cases b with
    | nil => exact absurd rfl h
    | cons y ys => left; rfl
  | cons x xs ih =>
    intro b h
    cases b with
    | nil => right; rfl
    | cons y ys =>
      simp only [strLt]
      by_cases hxy : x.toNat < y.toNat
      · left; simp [hxy]
      · by_cases hyx : y.toNat < x.toNat
        · right; simp [hyx]
        · have hxy' : x = y := char_eq_of_toNat (by omega)
          subst hxy'
          have hne : xs ≠ ys := fun e => h (by rw [e])
          simp only [hxy, if_false, if_true]
          exact ih ys hne

theorem strLt_asymm (a b : List Char) (h : strLt a b = true) : strLt b a = false := by
  cases hb : strLt b a with
  | false => rfl
  | true =>
    have := strLt_trans a b a h hb
    rw [strLt_irrefl] at this
    cases this

theorem keyEqW_iff (a b : Key) : keyEqW a b = true ↔ a = b := by
  cases a <;> cases b <;> simp [keyEqW]

theorem keyEqW_refl (a : Key) : keyEqW a a = true := (keyEqW_iff a a).mpr rfl

theorem keyEqW_symm (a b : Key) : keyEqW a b = keyEqW b a := by
  rw [Bool.eq_iff_iff, keyEqW_iff, keyEqW_iff]
  exact eq_comm

theorem keyLtW_irrefl (a : Key) : keyLtW a a = false := by
  cases a <;> simp [keyLtW, strLt_irrefl]

theorem keyLtW_asymm (a b : Key) (h : keyLtW a b = true) : keyLtW b a = false := by
  cases a <;> cases b <;> simp only [keyLtW] at h ⊢ <;> first
    | exact strLt_asymm _ _ h
    | exact absurd h (by decide)
    | rfl
    | (simp at h ⊢; omega)

theorem keyLtW_trans (a b c : Key) (h1 : keyLtW a b = true) (h2 : keyLtW b c = true) : keyLtW a c = true := by
  cases a <;> cases b <;> cases c <;> simp only [keyLtW] at h1 h2 ⊢ <;> first
    | exact strLt_trans _ _ _ h1 h2
    | exact absurd h2 (by decide)
    | exact absurd h1 (by decide)
    | rfl
    | (simp only [decide_eq_true_eq] at h1 h2 ⊢; omega)

theorem keyLtW_total (a b : Key) (hne : a ≠ b) : keyLtW a b = true ∨ keyLtW b a = true := by
  cases a <;> cases b
  · simp only [keyLtW]
    exact strLt_total _ _ (fun e => hne (by rw [e]))
  · right; rfl
  · left; rfl
  · rename_i x y
    simp only [keyLtW, decide_eq_true_eq]
    have : ¬ x = y := fun e => hne (by rw [e])
    omega

theorem pathLt_irrefl (p : Path) : pathLt p p = false := by
  induction p with
  | nil => rfl
  | cons a p ih => simp [pathLt, keyEqW_refl, ih]

theorem pathLt_asymm : ∀ p q : Path, pathLt p q = true → pathLt q p = false := by
  intro p
  induction p with
  | nil => intro q h; cases q <;> simp [pathLt] at h ⊢
  | cons a p ih =>
    intro q h
    cases q with
    | nil => simp [pathLt] at h
    | cons b q =>
      simp only [pathLt] at h ⊢
      rw [keyEqW_symm b a]
      split at h
      · rename_i he; simp only [he, if_true]; exact ih q h
      · rename_i he; simp only [he]; exact keyLtW_asymm a b h

theorem pathLt_prefix (p : Path) (k : Key) (r : Path) : pathLt p (p ++ k :: r) = true := by
  induction p with
  | nil => rfl
  | cons a p ih => simp [pathLt, keyEqW_refl, ih]

theorem pathLt_trans : ∀ p q r : Path, pathLt p q = true → pathLt q r = true → pathLt p r = true := by
  intro p
  induction p with
  | nil =>
    intro q r h1 h2
    cases q with
    | nil => simp [pathLt] at h1
    | cons b q => cases r with
      | nil => simp [pathLt] at h2
      | cons c r => rfl
  | cons a p ih =>
    intro q r h1 h2
    cases q with
    | nil => simp [pathLt] at h1
    | cons b q =>
      cases r with
      | nil => simp [pathLt] at h2
      | cons c r =>
        simp only [pathLt] at h1 h2 ⊢
        by_cases eab : keyEqW a b = true
        · have hab := (keyEqW_iff a b).mp eab
          subst hab
          simp only [eab, if_true] at h1
          by_cases eac : keyEqW a c = true
          · simp only [eac, if_true] at h2 ⊢
            exact ih q r h1 h2
          · simp only [eac] at h2 ⊢
            exact h2
        · simp only [eab] at h1
          by_cases ebc : keyEqW b c = true
          · have hbc := (keyEqW_iff b c).mp ebc
            subst hbc
            simp only [eab]
            exact h1
          · simp only [ebc] at h2
            have hlt := keyLtW_trans a b c h1 h2
            have eac : ¬ keyEqW a c = true := by
              intro e
              have := (keyEqW_iff a c).mp e
              subst this
              rw [keyLtW_asymm a b h1] at h2
              cases h2
            simp only [eac]
            exact hlt

theorem pathLt_total : ∀ p q : Path, p ≠ q → pathLt p q = true ∨ pathLt q p = true := by
  intro p
  induction p with
  | nil => intro q h; cases q with
    | nil => exact absurd rfl h
    | cons b q => left; rfl
  | cons a p ih =>
    intro q h
    cases q with
    | nil => right; rfl
    | cons b q =>
      simp only [pathLt]
      rw [keyEqW_symm b a]
      by_cases eab : keyEqW a b = true
      · have hab := (keyEqW_iff a b).mp eab
        subst hab
        simp only [eab, if_true]
        exact ih q (fun e => h (by rw [e]))
      · simp only [eab]
        exact keyLtW_total a b (fun e => eab (by rw [e]; exact keyEqW_refl b))

end Pg.C10
