/-
  C03: `Schema.apply` yields a conforming dict (`schemaApply_conforms`), for schemas with distinct keys
  (const and dynamic) — used by Dict / Object construction and by a successful `clear`.

  Loop invariant of `applyFields` (fields = pre ++ rest, `pre` already processed):
    the keys are distinct, every key has an owning field (`getField`), every entry owned by a
    processed field is a fixed point of that field's spec, and every const key of `pre` is present.
-/
import PgProofs.SymTyped
namespace Pg.C03
open Pg.Typing

/-! ### `setKey` / `setKeys` on dicts with distinct keys -/

theorem keys_setKey (acc : List (String × Val)) (k : String) (w : Val) :
    (setKey acc k w).map (·.1) = if k ∈ acc.map (·.1) then acc.map (·.1) else acc.map (·.1) ++ [k] := by
  induction acc with
  | nil => simp [setKey]
  | cons p ps ih =>
    obtain ⟨l, x⟩ := p
    simp only [setKey]
    by_cases hlk : (l == k) = true
    · have : l = k := by simpa using hlk
      subst this
      simp [hlk]
    · have hne : l ≠ k := by simpa using hlk
      rw [if_neg hlk]
      simp only [List.map_cons, ih, List.mem_cons]
      by_cases hm : k ∈ ps.map (·.1)
      · simp [hm]
      · have : ¬(k = l ∨ k ∈ ps.map (·.1)) := by
          intro h; rcases h with h | h
          · exact hne h.symm
          · exact hm h
        simp only [List.mem_map] at hm this ⊢
        simp [hm, this]
        exact fun e => hne e.symm

theorem nodup_setKey (acc : List (String × Val)) (k : String) (w : Val) (h : (acc.map (·.1)).Nodup) :
    ((setKey acc k w).map (·.1)).Nodup := by
  rw [keys_setKey]
  split
  · exact h
  · rename_i hk
    rw [List.nodup_append]
    refine ⟨h, by simp, ?_⟩
    intro a ha b hb
    simp only [List.mem_singleton] at hb
    subst hb
    intro e; subst e; exact hk ha

theorem mem_setKey_strong (acc : List (String × Val)) (k : String) (w : Val) (hnd : (acc.map (·.1)).Nodup)
    (kv : String × Val) (h : kv ∈ setKey acc k w) : kv = (k, w) ∨ (kv.1 ≠ k ∧ kv ∈ acc) := by
  induction acc with
  | nil => simp [setKey] at h; exact Or.inl h
  | cons p ps ih =>
    obtain ⟨l, x⟩ := p
    simp only [List.map_cons, List.nodup_cons] at hnd
    simp only [setKey] at h
    by_cases hlk : (l == k) = true
    · have hl : l = k := by simpa using hlk
      rw [if_pos hlk] at h
      simp only [List.mem_cons] at h
      rcases h with h | h
      · left; rw [h, hl]
      · right
        refine ⟨?_, List.mem_cons_of_mem _ h⟩
        intro e
        apply hnd.1
        rw [hl, ← e]
        exact List.mem_map_of_mem h
    · rw [if_neg hlk] at h
      have hne : l ≠ k := by simpa using hlk
      simp only [List.mem_cons] at h
      rcases h with h | h
      · right; rw [h]; exact ⟨hne, List.mem_cons_self⟩
      · rcases ih hnd.2 h with h | h
        · exact Or.inl h
        · exact Or.inr ⟨h.1, List.mem_cons_of_mem _ h.2⟩

theorem nodup_setKeys (ps : List (String × Val)) : ∀ (acc : List (String × Val)), (acc.map (·.1)).Nodup →
    ((setKeys acc ps).map (·.1)).Nodup := by
  induction ps with
  | nil => intro acc h; exact h
  | cons p ps ih =>
    intro acc h
    obtain ⟨k, v⟩ := p
    simp only [setKeys]
    exact ih _ (nodup_setKey acc k v h)

theorem mem_setKeys (ps : List (String × Val)) : ∀ (acc : List (String × Val)), (acc.map (·.1)).Nodup →
    ∀ kv, kv ∈ setKeys acc ps → kv ∈ ps ∨ (kv ∈ acc ∧ kv.1 ∉ ps.map (·.1)) := by
  induction ps with
  | nil => intro acc _ kv h; exact Or.inr ⟨h, by simp⟩
  | cons p ps ih =>
    intro acc hnd kv h
    obtain ⟨k, v⟩ := p
    simp only [setKeys] at h
    rcases ih _ (nodup_setKey acc k v hnd) kv h with h1 | ⟨h1, h2⟩
    · exact Or.inl (List.mem_cons_of_mem _ h1)
    · rcases mem_setKey_strong acc k v hnd kv h1 with h3 | ⟨h3, h4⟩
      · left; rw [h3]; exact List.mem_cons_self
      · right
        refine ⟨h4, ?_⟩
        simp only [List.map_cons, List.mem_cons, not_or]
        exact ⟨h3, h2⟩

theorem lookup_setKeys_isSome (ps : List (String × Val)) : ∀ (acc : List (String × Val)) (k' : String),
    (lookup acc k').isSome = true → (lookup (setKeys acc ps) k').isSome = true := by
  induction ps with
  | nil => intro acc k' h; exact h
  | cons p ps ih =>
    intro acc k' h
    obtain ⟨k, v⟩ := p
    simp only [setKeys]
    exact ih _ k' (lookup_setKey_isSome acc k k' v h)

theorem lookup_setKeys_mem (ps : List (String × Val)) : ∀ (acc : List (String × Val)) (k' : String),
    k' ∈ ps.map (·.1) → (lookup (setKeys acc ps) k').isSome = true := by
  induction ps with
  | nil => intro acc k' h; simp at h
  | cons p ps ih =>
    intro acc k' h
    obtain ⟨k, v⟩ := p
    simp only [setKeys]
    simp only [List.map_cons, List.mem_cons] at h
    rcases h with h | h
    · subst h
      exact lookup_setKeys_isSome ps _ _ (lookup_setKey_self acc _ v)
    · exact ih _ k' h

/-! ### `mapM` and `zip` -/

theorem mapM_zip {α β : Type} (g : α → R β) (xs : List α) (ys : List β) (h : xs.mapM g = .ok ys) :
    (∀ p ∈ xs.zip ys, g p.1 = .ok p.2) ∧ (xs.zip ys).map (·.1) = xs := by
  induction xs generalizing ys with
  | nil => simp [List.mapM_nil, pure, Except.pure] at h; subst h; simp
  | cons x xs ih =>
    rw [List.mapM_cons] at h
    cases hx : g x with
    | error e => simp [hx, bind, Except.bind] at h
    | ok y =>
      cases hxs : xs.mapM g with
      | error e => simp [hx, hxs, bind, Except.bind] at h
      | ok ys' =>
        simp [hx, hxs, bind, Except.bind, pure, Except.pure] at h
        subst h
        obtain ⟨h1, h2⟩ := ih ys' hxs
        refine ⟨?_, by simp [List.zip_cons_cons, h2]⟩
        intro p hp
        simp only [List.zip_cons_cons, List.mem_cons] at hp
        rcases hp with hp | hp
        · rw [hp]; exact hx
        · exact h1 p hp


/-! ### Key bookkeeping of a schema -/

theorem constKeys_append_single (pre : List Field) (f : Field) :
    constKeys (pre ++ [f]) = constKeys pre ++ (match f.key with | .const k => [k] | _ => []) := by
  induction pre with
  | nil => obtain ⟨ks, s⟩ := f; cases ks <;> simp [constKeys, Field.key]
  | cons g gs ih =>
    obtain ⟨gk, gv⟩ := g
    cases gk <;> simp [constKeys, ih]

theorem nonConst_append_single (pre : List Field) (f : Field) :
    nonConstKeySpecs (pre ++ [f]) = nonConstKeySpecs pre ++ (if f.key.isConst then [] else [f.key]) := by
  induction pre with
  | nil => obtain ⟨ks, s⟩ := f; cases ks <;> simp [nonConstKeySpecs, Field.key, KeySpec.isConst]
  | cons g gs ih =>
    obtain ⟨gk, gv⟩ := g
    cases gk <;> simp [nonConstKeySpecs, ih]

/-- "is the const field of key `k`" / "is a dynamic field matching `k`". -/
def isConstOf (k : String) (f : Field) : Bool := f.key == KeySpec.const k
def isDynOf (env : Env) (k : String) (f : Field) : Bool := !f.key.isConst && f.key.matches env k

theorem getField_eq (env : Env) (fields : List Field) (k : String) :
    getField env fields k =
      match fields.find? (isConstOf k) with
      | some f => some f
      | none => fields.find? (isDynOf env k) := rfl

theorem find_const_none (fs : List Field) (k : String) (h : k ∉ constKeys fs) : fs.find? (isConstOf k) = none := by
  rw [List.find?_eq_none]
  intro g hg hP
  apply h
  clear h
  induction fs with
  | nil => cases hg
  | cons x xs ih =>
    obtain ⟨xk, xv⟩ := x
    simp only [List.mem_cons] at hg
    rcases hg with hg | hg
    · subst hg
      simp only [isConstOf, Field.key, beq_iff_eq] at hP
      subst hP
      simp [constKeys]
    · cases xk <;> simp [constKeys, ih hg]

theorem find_const_some (fs : List Field) (k : String) (h : k ∈ constKeys fs) :
    (fs.find? (isConstOf k)).isSome = true := by
  induction fs with
  | nil => simp [constKeys] at h
  | cons x xs ih =>
    obtain ⟨xk, xv⟩ := x
    simp only [List.find?_cons]
    cases xk with
    | const c =>
      simp only [constKeys, List.mem_cons] at h
      by_cases hc : c = k
      · subst hc; simp [isConstOf, Field.key]
      · have : isConstOf k (Field.mk (.const c) xv) = false := by simp [isConstOf, Field.key, hc]
        simp only [this]
        rcases h with h | h
        · exact absurd h.symm hc
        · exact ih h
    | strKey r =>
      simp only [constKeys] at h
      have : isConstOf k (Field.mk (.strKey r) xv) = false := by simp [isConstOf, Field.key]
      simp only [this]
      exact ih h

theorem any_nonconst (env : Env) (fs : List Field) (k : String) :
    (nonConstKeySpecs fs).any (fun e => e.matches env k) = fs.any (isDynOf env k) := by
  induction fs with
  | nil => rfl
  | cons x xs ih =>
    obtain ⟨xk, xv⟩ := x
    cases xk <;> simp [nonConstKeySpecs, isDynOf, Field.key, KeySpec.isConst, ih]

theorem getField_mem (env : Env) (fields : List Field) (k : String) (f : Field)
    (h : getField env fields k = some f) : f ∈ fields := by
  rw [getField_eq] at h
  cases h1 : fields.find? (isConstOf k) with
  | some g => simp only [h1] at h; injection h with h; subst h; exact List.mem_of_find?_eq_some h1
  | none => simp only [h1] at h; exact List.mem_of_find?_eq_some h

theorem distinct_notin (xs : List KeySpec) (y : KeySpec) (zs : List KeySpec)
    (h : distinctKeys (xs ++ y :: zs) = true) : y ∉ xs := by
  induction xs with
  | nil => simp
  | cons x xs ih =>
    simp only [List.cons_append, distinctKeys, Bool.and_eq_true, Bool.not_eq_true'] at h
    intro hm
    simp only [List.mem_cons] at hm
    rcases hm with hm | hm
    · subst hm
      have := h.1
      simp at this
    · exact ih h.2 hm

theorem fieldKeySpecs_append (a b : List Field) : fieldKeySpecs (a ++ b) = fieldKeySpecs a ++ fieldKeySpecs b := by
  induction a with
  | nil => rfl
  | cons x xs ih => obtain ⟨k, v⟩ := x; simp [fieldKeySpecs, ih]

theorem mem_fieldKeySpecs (fs : List Field) (g : Field) (h : g ∈ fs) : g.key ∈ fieldKeySpecs fs := by
  induction fs with
  | nil => cases h
  | cons x xs ih =>
    obtain ⟨k, v⟩ := x
    simp only [List.mem_cons] at h
    rcases h with h | h
    · subst h; simp [fieldKeySpecs, Field.key]
    · simp [fieldKeySpecs, ih h]

/-! ### Which field owns a key -/

/-- O1: the const field at the current position owns its key. -/
theorem owner_const (env : Env) (pre rest : List Field) (k : String) (s : Spec)
    (hd : distinctKeys (fieldKeySpecs (pre ++ Field.mk (.const k) s :: rest)) = true) :
    getField env (pre ++ Field.mk (.const k) s :: rest) k = some (Field.mk (.const k) s) := by
  rw [getField_eq, List.find?_append]
  have hpre : pre.find? (isConstOf k) = none := by
    rw [List.find?_eq_none]
    intro g hg hP
    simp only [isConstOf, beq_iff_eq] at hP
    rw [fieldKeySpecs_append] at hd
    have := distinct_notin _ _ _ (by simpa [fieldKeySpecs] using hd)
    exact this (hP ▸ mem_fieldKeySpecs pre g hg)
  simp [hpre, isConstOf, Field.key]

/-- O1 converse. -/
theorem owner_const_conv (env : Env) (all : List Field) (k k' : String) (s : Spec)
    (h : getField env all k' = some (Field.mk (.const k) s)) : k' = k := by
  rw [getField_eq] at h
  cases h1 : all.find? (isConstOf k') with
  | some g =>
    simp only [h1] at h
    injection h with h
    subst h
    have := List.find?_some h1
    simp only [isConstOf, Field.key, beq_iff_eq] at this
    injection this with this
    exact this.symm
  | none =>
    simp only [h1] at h
    have := List.find?_some h
    simp [isDynOf, Field.key, KeySpec.isConst] at this

/-- O2: a dynamic field at the current position owns the keys it is handed. -/
theorem owner_dyn (env : Env) (pre rest : List Field) (f : Field) (hf : f.key.isConst = false) (k' : String)
    (h1 : k' ∉ constKeys (pre ++ f :: rest)) (h2 : f.key.matches env k' = true)
    (h3 : (nonConstKeySpecs pre).any (fun e => e.matches env k') = false) :
    getField env (pre ++ f :: rest) k' = some f := by
  rw [getField_eq, find_const_none _ _ h1]
  simp only []
  rw [List.find?_append]
  have hpre : pre.find? (isDynOf env k') = none := by
    rw [any_nonconst] at h3
    rw [List.find?_eq_none]
    intro g hg
    have := (List.any_eq_false.1 h3) g hg
    simpa using this
  simp [hpre, isDynOf, hf, h2]

/-- O2 converse (for a field that does not also occur among the processed ones). -/
theorem owner_dyn_conv (env : Env) (pre rest : List Field) (f : Field) (hf : f.key.isConst = false) (k' : String)
    (hnot : f ∉ pre) (h : getField env (pre ++ f :: rest) k' = some f) :
    k' ∉ constKeys (pre ++ f :: rest) ∧ f.key.matches env k' = true ∧
      (nonConstKeySpecs pre).any (fun e => e.matches env k') = false := by
  have hc := not_const_of_getField env _ k' f h hf
  refine ⟨hc, ?_, ?_⟩
  · rw [getField_eq, find_const_none _ _ hc] at h
    have := List.find?_some h
    simp only [isDynOf, Bool.and_eq_true] at this
    exact this.2
  · rw [getField_eq, find_const_none _ _ hc] at h
    simp only [] at h
    rw [List.find?_append] at h
    rw [any_nonconst]
    cases hp : pre.find? (isDynOf env k') with
    | some g =>
      simp only [hp, Option.or_some] at h
      injection h with h
      subst h
      exact absurd (List.mem_of_find?_eq_some hp) hnot
    | none =>
      rw [List.find?_eq_none] at hp
      rw [List.any_eq_false]
      intro g hg
      simpa using hp g hg


/-! ### The loop invariant of `applyFields` -/

/-- If a spec maps a value other than `MISSING_VALUE` to `MISSING_VALUE` (only a spec frozen without a
default does), it maps its own default to `MISSING_VALUE` as well. -/
def MissingOK (env : Env) (p : Bool) (s : Spec) : Prop :=
  ∀ x, apply env s p x = .ok .missing → x.isMissing = false → apply env s p s.flags.default = .ok .missing

theorem valueOrDefault_isMissing (acc : List (String × Val)) (k : String) (d : Val)
    (h : (valueOrDefault acc k d).isMissing = true) : valueOrDefault acc k d = d := by
  unfold valueOrDefault at h ⊢
  cases hl : lookup acc k with
  | none => rfl
  | some x =>
    simp only [hl] at h ⊢
    by_cases hx : x.isMissing = true
    · simp [hx]
    · simp only [hx] at h; exact absurd h hx

theorem isMissing_eq (v : Val) (h : v.isMissing = true) : v = .missing := by
  cases v <;> simp [Val.isMissing] at h
  rfl

def Good (env : Env) (p : Bool) (all pre : List Field) (acc : List (String × Val)) : Prop :=
  (acc.map (·.1)).Nodup ∧
  (∀ kv ∈ acc, (getField env all kv.1).isSome = true) ∧
  (∀ kv ∈ acc, ∀ f, getField env all kv.1 = some f → f ∈ pre → apply env f.value p kv.2 = .ok kv.2) ∧
  (∀ k ∈ constKeys pre, (lookup acc k).isSome = true) ∧
  ((∀ f ∈ all, MissingOK env p f.value) → ∀ kv ∈ acc, kv.2.isMissing = true → ∀ f, getField env all kv.1 = some f →
    f ∈ pre → apply env f.value p f.value.flags.default = .ok .missing)

theorem mem_keys_of_mem {acc : List (String × Val)} {kv : String × Val} (h : kv ∈ acc) : kv.1 ∈ acc.map (·.1) :=
  List.mem_map_of_mem h

theorem lookup_mem (kvs : List (String × Val)) (k : String) (v : Val) (h : lookup kvs k = some v) :
    (k, v) ∈ kvs := by
  unfold lookup at h
  cases hf : kvs.find? (fun kv => kv.1 == k) with
  | none => simp [hf] at h
  | some kv =>
    simp only [hf, Option.map_some, Option.some.injEq] at h
    have h1 := List.mem_of_find?_eq_some hf
    have h2 := List.find?_some hf
    simp only [beq_iff_eq] at h2
    obtain ⟨a, b⟩ := kv
    simp only at h h2
    subst h; subst h2
    exact h1

/-- Idempotence of `apply` relative to a predicate on values that `apply` preserves (e.g. "every
dict inside has distinct keys"). -/
def IdemOn (Q : Val → Prop) (env : Env) (p : Bool) (s : Spec) : Prop :=
  ∀ v v', Q v → apply env s p v = .ok v' → apply env s p v' = .ok v' ∧ Q v'

theorem idemOn_true (env : Env) (p : Bool) (s : Spec) (h : Idem env p s) : IdemOn (fun _ => True) env p s :=
  fun v v' _ hv => ⟨h v v' hv, trivial⟩

theorem applyFields_goodQ (Q : Val → Prop) (env : Env) (p : Bool) (all : List Field)
    (hd : distinctKeys (fieldKeySpecs all) = true) (hI : ∀ f ∈ all, IdemOn Q env p f.value)
    (hQd : ∀ f ∈ all, Q f.value.flags.default) :
    ∀ (fs pre : List Field) (acc out : List (String × Val)), all = pre ++ fs →
      applyFields env fs (constKeys all) (nonConstKeySpecs pre) p acc = .ok out →
      Good env p all pre acc → (∀ kv ∈ acc, Q kv.2) →
      Good env p all all out ∧ (∀ kv ∈ out, Q kv.2) := by
  intro fs
  induction fs with
  | nil =>
    intro pre acc out hall h hg hq
    simp only [applyFields] at h
    injection h with h
    subst h
    simp only [List.append_nil] at hall
    subst hall
    exact ⟨hg, hq⟩
  | cons f rest ih =>
    intro pre acc out hall h hg hq
    obtain ⟨ks, spec⟩ := f
    have hQv : ∀ k, Q (valueOrDefault acc k spec.flags.default) := by
      intro k
      have hdq := hQd (Field.mk ks spec) (by rw [hall]; simp)
      simp only [Field.value] at hdq
      unfold valueOrDefault
      cases hl : lookup acc k with
      | none => exact hdq
      | some x =>
        simp only []
        split
        · exact hdq
        · exact hq (k, x) (lookup_mem acc k x hl)
    obtain ⟨g1, g2, g3, g4, g5⟩ := hg
    rw [applyFields] at h
    simp only [bind, Except.bind] at h
    cases hm : (fieldKeys env (constKeys all) (nonConstKeySpecs pre) ks acc).mapM
        (fun k => apply env spec p (valueOrDefault acc k spec.flags.default)) with
    | error e => simp [hm] at h
    | ok vals =>
      simp only [hm] at h
      obtain ⟨hz1, hz2⟩ := mapM_zip _ _ _ hm
      -- the keys handled by this field are owned by it
      have hown : ∀ k' ∈ fieldKeys env (constKeys all) (nonConstKeySpecs pre) ks acc,
          getField env all k' = some (Field.mk ks spec) := by
        intro k' hk'
        cases ks with
        | const k =>
          simp only [fieldKeys, List.mem_singleton] at hk'
          subst hk'
          rw [hall]
          exact owner_const env pre rest k' spec (hall ▸ hd)
        | strKey r =>
          simp only [fieldKeys, List.mem_filter, Bool.and_eq_true, Bool.not_eq_true'] at hk'
          obtain ⟨_, ⟨hc, hmt⟩, he⟩ := hk'
          rw [hall]
          refine owner_dyn env pre rest _ (by simp [Field.key, KeySpec.isConst]) k' ?_ hmt he
          rw [← hall]
          simpa using hc
      -- converse: an existing key owned by this (new) field is among the handled keys
      have hconv : (Field.mk ks spec) ∉ pre → ∀ k' ∈ acc.map (·.1), getField env all k' = some (Field.mk ks spec) →
          k' ∈ fieldKeys env (constKeys all) (nonConstKeySpecs pre) ks acc := by
        intro hnot k' hk' hgf
        cases ks with
        | const k =>
          have := owner_const_conv env all k k' spec hgf
          subst this
          simp [fieldKeys]
        | strKey r =>
          rw [hall] at hgf
          obtain ⟨c1, c2, c3⟩ := owner_dyn_conv env pre rest _ (by simp [Field.key, KeySpec.isConst]) k' hnot hgf
          simp only [fieldKeys, List.mem_filter, Bool.and_eq_true, Bool.not_eq_true']
          refine ⟨hk', ⟨?_, c2⟩, c3⟩
          rw [← hall] at c1
          simpa using c1
      have hpre' : nonConstKeySpecs (pre ++ [Field.mk ks spec]) =
          (if ks.isConst = true then nonConstKeySpecs pre else nonConstKeySpecs pre ++ [ks]) := by
        rw [nonConst_append_single]
        simp only [Field.key]
        cases ks <;> simp [KeySpec.isConst]
      have hall' : all = (pre ++ [Field.mk ks spec]) ++ rest := by
        rw [hall]; simp
      refine ih (pre ++ [Field.mk ks spec]) _ out hall' (by rw [hpre']; exact h) ⟨?_, ?_, ?_, ?_, ?_⟩ ?_
      · exact nodup_setKeys _ _ g1
      · intro kv hkv
        rcases mem_setKeys _ _ g1 kv hkv with hk | ⟨hk, _⟩
        · have : kv.1 ∈ fieldKeys env (constKeys all) (nonConstKeySpecs pre) ks acc := by
            rw [← hz2]; exact List.mem_map_of_mem hk
          rw [hown _ this]; rfl
        · exact g2 kv hk
      · intro kv hkv f' hf' hmem
        rcases mem_setKeys _ _ g1 kv hkv with hk | ⟨hk, hnk⟩
        · have hin : kv.1 ∈ fieldKeys env (constKeys all) (nonConstKeySpecs pre) ks acc := by
            rw [← hz2]; exact List.mem_map_of_mem hk
          rw [hown _ hin] at hf'
          injection hf' with hf'
          subst hf'
          have := hz1 kv hk
          exact (hI (Field.mk ks spec) (by rw [hall]; simp) _ _ (hQv kv.1) this).1
        · simp only [List.mem_append, List.mem_singleton] at hmem
          by_cases hin : f' ∈ pre
          · exact g3 kv hk f' hf' hin
          · rcases hmem with hmem | hmem
            · exact absurd hmem hin
            · subst hmem
              have := hconv hin kv.1 (mem_keys_of_mem hk) hf'
              rw [← hz2] at this
              exact absurd this hnk
      · intro k hk
        rw [constKeys_append_single] at hk
        simp only [List.mem_append] at hk
        rcases hk with hk | hk
        · exact lookup_setKeys_isSome _ _ _ (g4 k hk)
        · cases ks with
          | const c =>
            simp only [Field.key, List.mem_singleton] at hk
            subst hk
            apply lookup_setKeys_mem
            rw [hz2]
            simp [fieldKeys]
          | strKey r => simp [Field.key] at hk
      · intro hM kv hkv hmiss f' hf' hmem
        rcases mem_setKeys _ _ g1 kv hkv with hk | ⟨hk, hnk⟩
        · have hin : kv.1 ∈ fieldKeys env (constKeys all) (nonConstKeySpecs pre) ks acc := by
            rw [← hz2]; exact List.mem_map_of_mem hk
          rw [hown _ hin] at hf'
          injection hf' with hf'
          subst hf'
          have hap := hz1 kv hk
          rw [isMissing_eq _ hmiss] at hap
          simp only [Field.value]
          by_cases hx : (valueOrDefault acc kv.1 spec.flags.default).isMissing = true
          · rw [valueOrDefault_isMissing _ _ _ hx] at hap; exact hap
          · have := hM (Field.mk ks spec) (by rw [hall]; simp)
            simp only [Field.value] at this
            exact this _ hap (by simpa using hx)
        · simp only [List.mem_append, List.mem_singleton] at hmem
          by_cases hin : f' ∈ pre
          · exact g5 hM kv hk hmiss f' hf' hin
          · rcases hmem with hmem | hmem
            · exact absurd hmem hin
            · subst hmem
              have := hconv hin kv.1 (mem_keys_of_mem hk) hf'
              rw [← hz2] at this
              exact absurd this hnk
      · intro kv hkv
        rcases mem_setKeys _ _ g1 kv hkv with hk | ⟨hk, _⟩
        · have := hz1 kv hk
          exact (hI (Field.mk ks spec) (by rw [hall]; simp) _ _ (hQv kv.1) this).2
        · exact hq kv hk

theorem applyFields_good (env : Env) (p : Bool) (all : List Field)
    (hd : distinctKeys (fieldKeySpecs all) = true) (hI : ∀ f ∈ all, Idem env p f.value) :
    ∀ (fs pre : List Field) (acc out : List (String × Val)), all = pre ++ fs →
      applyFields env fs (constKeys all) (nonConstKeySpecs pre) p acc = .ok out →
      Good env p all pre acc → Good env p all all out :=
  fun fs pre acc out hall h hg =>
    (applyFields_goodQ (fun _ => True) env p all hd (fun f hf => idemOn_true env p _ (hI f hf))
      (fun _ _ => trivial) fs pre acc out hall h hg (fun _ _ => trivial)).1

/-- `Schema.apply` yields a conforming dict: only declared keys, every value a fixed point of its
field's spec, every const key present — for every schema with distinct keys whose field specs have
idempotent `apply`, every input dict (with distinct keys), both `allow_partial` modes. -/
theorem schemaApply_conforms (env : Env) (p : Bool) (fields : List Field)
    (hd : distinctKeys (fieldKeySpecs fields) = true) (hI : ∀ f ∈ fields, Idem env p f.value)
    (kvs out : List (String × Val)) (hnd : (kvs.map (·.1)).Nodup)
    (h : schemaApply env fields p kvs = .ok out) : ConformsD env p ⟨fields, out⟩ := by
  unfold schemaApply at h
  split at h
  · cases h
  · rename_i hu
    have hu' : unmatchedKeys env fields kvs = [] := by simpa using hu
    have hstart : Good env p fields [] kvs := by
      refine ⟨hnd, ?_, ?_, ?_, ?_⟩
      · intro kv hkv
        have hk : kv.1 ∉ unmatchedKeys env fields kvs := by rw [hu']; simp
        simp only [unmatchedKeys, List.mem_filter, not_and, Bool.and_eq_true, Bool.not_eq_true'] at hk
        have := hk (List.mem_map_of_mem hkv)
        rw [getField_eq]
        by_cases hc : kv.1 ∈ constKeys fields
        · have := find_const_some fields kv.1 hc
          cases hf : fields.find? (isConstOf kv.1) with
          | some g => rfl
          | none => simp [hf] at this
        · rw [find_const_none _ _ hc]
          simp only []
          have h2 := this (by simpa using hc)
          rw [any_nonconst] at h2
          simp only [Bool.not_eq_false] at h2
          rw [List.any_eq_true] at h2
          obtain ⟨g, hg, hP⟩ := h2
          cases hf : fields.find? (isDynOf env kv.1) with
          | some g' => rfl
          | none =>
            rw [List.find?_eq_none] at hf
            exact absurd hP (by simpa using hf g hg)
      · intro kv _ f _ hf; cases hf
      · intro k hk; simp [constKeys] at hk
      · intro _ kv _ _ f _ hf; cases hf
    obtain ⟨_, g2, g3, g4, _⟩ := applyFields_good env p fields hd hI fields [] kvs out (by simp) h hstart
    refine ⟨?_, g4⟩
    intro kv hkv
    cases hf : getField env fields kv.1 with
    | none => have := g2 kv hkv; simp [hf] at this
    | some f => exact ⟨f, rfl, g3 kv hkv f hf (getField_mem env fields kv.1 f hf)⟩


/-! ### The converse: a conforming dict is a fixed point of `Schema.apply` -/

theorem setKey_same (kvs : List (String × Val)) (k : String) (v : Val) (h : lookup kvs k = some v) :
    setKey kvs k v = kvs := by
  induction kvs with
  | nil => simp [lookup] at h
  | cons p ps ih =>
    obtain ⟨l, x⟩ := p
    simp only [setKey]
    by_cases hlk : (l == k) = true
    · simp only [lookup, List.find?_cons, hlk, Option.map_some, Option.some.injEq] at h
      rw [if_pos hlk, h]
    · rw [if_neg hlk]
      simp only [lookup, List.find?_cons, hlk] at h
      rw [ih h]

theorem setKeys_same (kvs : List (String × Val)) (ps : List (String × Val))
    (h : ∀ kv ∈ ps, lookup kvs kv.1 = some kv.2) : setKeys kvs ps = kvs := by
  induction ps with
  | nil => rfl
  | cons q qs ih =>
    obtain ⟨k, v⟩ := q
    simp only [setKeys]
    rw [setKey_same kvs k v (h (k, v) List.mem_cons_self)]
    exact ih (fun kv hkv => h kv (List.mem_cons_of_mem _ hkv))

theorem lookup_of_mem_keys (kvs : List (String × Val)) (k : String) (h : k ∈ kvs.map (·.1)) :
    ∃ v, lookup kvs k = some v := by
  have : (lookup kvs k).isSome = true := by
    unfold lookup
    simp only [Option.isSome_map, List.find?_isSome]
    simp only [List.mem_map] at h
    obtain ⟨kv, hkv, he⟩ := h
    exact ⟨kv, hkv, by simpa using he⟩
  cases hl : lookup kvs k with
  | none => simp [hl] at this
  | some v => exact ⟨v, rfl⟩

theorem mapM_map {α β : Type} (g : α → R β) (h : α → β) (xs : List α) (hg : ∀ x ∈ xs, g x = .ok (h x)) :
    xs.mapM g = .ok (xs.map h) := by
  induction xs with
  | nil => rfl
  | cons x xs ih =>
    rw [List.mapM_cons, hg x List.mem_cons_self, ih (fun y hy => hg y (List.mem_cons_of_mem _ hy))]
    rfl

theorem zip_map_mem {α β : Type} (h : α → β) (xs : List α) (q : α × β) (hq : q ∈ xs.zip (xs.map h)) :
    q.1 ∈ xs ∧ q.2 = h q.1 := by
  induction xs with
  | nil => simp at hq
  | cons x xs ih =>
    simp only [List.map_cons, List.zip_cons_cons, List.mem_cons] at hq
    rcases hq with hq | hq
    · subst hq; simp
    · obtain ⟨h1, h2⟩ := ih hq
      exact ⟨List.mem_cons_of_mem _ h1, h2⟩

theorem mem_constKeys_mid (pre rest : List Field) (k : String) (s : Spec) :
    k ∈ constKeys (pre ++ Field.mk (.const k) s :: rest) := by
  induction pre with
  | nil => simp [constKeys]
  | cons g gs ih => obtain ⟨gk, gv⟩ := g; cases gk <;> simp [constKeys, ih]

/-- A stored `MISSING_VALUE` (partial mode) sits only where applying the field default also gives
`MISSING_VALUE` (so that re-applying the schema does not fill it in). -/
def NoStaleMissing (env : Env) (p : Bool) (d : TDict) : Prop :=
  ∀ kv ∈ d.kvs, kv.2.isMissing = true → ∀ f, getField env d.fields kv.1 = some f →
    apply env f.value p f.value.flags.default = .ok .missing

theorem applyFields_fixed (env : Env) (p : Bool) (all : List Field) (kvs : List (String × Val))
    (hd : distinctKeys (fieldKeySpecs all) = true)
    (hc : ConformsD env p ⟨all, kvs⟩) (hs : NoStaleMissing env p ⟨all, kvs⟩) :
    ∀ (fs pre : List Field), all = pre ++ fs →
      applyFields env fs (constKeys all) (nonConstKeySpecs pre) p kvs = .ok kvs := by
  intro fs
  induction fs with
  | nil => intro pre _; simp [applyFields]
  | cons f rest ih =>
    intro pre hall
    obtain ⟨ks, spec⟩ := f
    rw [applyFields]
    simp only [bind, Except.bind]
    -- the keys handled by this field exist and are owned by it
    have hkeys : ∀ k' ∈ fieldKeys env (constKeys all) (nonConstKeySpecs pre) ks kvs,
        k' ∈ kvs.map (·.1) ∧ getField env all k' = some (Field.mk ks spec) := by
      intro k' hk'
      cases ks with
      | const k =>
        simp only [fieldKeys, List.mem_singleton] at hk'
        subst hk'
        refine ⟨?_, by rw [hall]; exact owner_const env pre rest k' spec (hall ▸ hd)⟩
        have : k' ∈ constKeys all := by rw [hall]; exact mem_constKeys_mid pre rest k' spec
        have h2 := hc.2 k' this
        cases hl : lookup kvs k' with
        | none => simp [hl] at h2
        | some v => exact mem_keys_of_mem (lookup_mem kvs k' v hl)
      | strKey r =>
        simp only [fieldKeys, List.mem_filter, Bool.and_eq_true, Bool.not_eq_true'] at hk'
        obtain ⟨hin, ⟨hcn, hmt⟩, he⟩ := hk'
        refine ⟨hin, ?_⟩
        rw [hall]
        refine owner_dyn env pre rest _ (by simp [Field.key, KeySpec.isConst]) k' ?_ hmt he
        rw [← hall]; simpa using hcn
    have hval : ∀ k' ∈ fieldKeys env (constKeys all) (nonConstKeySpecs pre) ks kvs,
        apply env spec p (valueOrDefault kvs k' spec.flags.default) = .ok ((lookup kvs k').getD .missing) ∧
        lookup kvs k' = some ((lookup kvs k').getD .missing) := by
      intro k' hk'
      obtain ⟨hin, hown⟩ := hkeys k' hk'
      obtain ⟨v, hv⟩ := lookup_of_mem_keys kvs k' hin
      have hmem := lookup_mem kvs k' v hv
      obtain ⟨f', hf', hfix⟩ := hc.1 (k', v) hmem
      simp only at hf' hfix
      rw [hown] at hf'
      injection hf' with hf'
      subst hf'
      simp only [hv, Option.getD_some, and_true]
      unfold valueOrDefault
      simp only [hv]
      by_cases hm : v.isMissing = true
      · simp only [hm, if_true]
        have := hs (k', v) hmem hm _ hown
        simp only [Field.value] at this
        rw [this]
        cases v <;> simp [Val.isMissing] at hm
        rfl
      · simp only [hm]
        exact hfix
    rw [mapM_map _ (fun k' => (lookup kvs k').getD .missing) _ (fun k' hk' => (hval k' hk').1)]
    simp only []
    have hsame : setKeys kvs ((fieldKeys env (constKeys all) (nonConstKeySpecs pre) ks kvs).zip
        ((fieldKeys env (constKeys all) (nonConstKeySpecs pre) ks kvs).map (fun k' => (lookup kvs k').getD .missing))) = kvs := by
      apply setKeys_same
      intro kv hkv
      obtain ⟨h1, h2⟩ := zip_map_mem _ _ kv hkv
      rw [h2]
      exact (hval kv.1 h1).2
    rw [hsame]
    have hpre' : nonConstKeySpecs (pre ++ [Field.mk ks spec]) =
        (if ks.isConst = true then nonConstKeySpecs pre else nonConstKeySpecs pre ++ [ks]) := by
      rw [nonConst_append_single]
      simp only [Field.key]
      cases ks <;> simp [KeySpec.isConst]
    rw [← hpre']
    exact ih (pre ++ [Field.mk ks spec]) (by rw [hall]; simp)

/-- A conforming dict (distinct schema keys, no stale MISSING) is a fixed point of `Schema.apply`. -/
theorem schemaApply_fixed (env : Env) (p : Bool) (fields : List Field) (kvs : List (String × Val))
    (hd : distinctKeys (fieldKeySpecs fields) = true)
    (hc : ConformsD env p ⟨fields, kvs⟩) (hs : NoStaleMissing env p ⟨fields, kvs⟩) :
    schemaApply env fields p kvs = .ok kvs := by
  unfold schemaApply
  have hu : unmatchedKeys env fields kvs = [] := by
    unfold unmatchedKeys
    rw [List.filter_eq_nil_iff]
    intro k hk
    simp only [List.mem_map] at hk
    obtain ⟨kv, hkv, he⟩ := hk
    obtain ⟨f, hf, _⟩ := hc.1 kv hkv
    simp only at hf
    rw [he] at hf
    simp only [Bool.and_eq_true, Bool.not_eq_true', not_and, Bool.not_eq_false]
    intro hnc
    have hnc' : k ∉ constKeys fields := by simpa using hnc
    rw [getField_eq, find_const_none _ _ hnc'] at hf
    simp only [] at hf
    rw [any_nonconst, List.any_eq_true]
    exact ⟨f, List.mem_of_find?_eq_some hf, List.find?_some hf⟩
  simp only [hu, List.isEmpty_nil, Bool.not_true, Bool.false_eq_true, if_false]
  exact applyFields_fixed env p fields kvs hd hc hs fields [] (by simp)


/-- The output of `Schema.apply` has no stale `MISSING_VALUE`. -/
theorem schemaApply_nostale (env : Env) (p : Bool) (fields : List Field)
    (hd : distinctKeys (fieldKeySpecs fields) = true) (hI : ∀ f ∈ fields, Idem env p f.value)
    (hM : ∀ f ∈ fields, MissingOK env p f.value)
    (kvs out : List (String × Val)) (hnd : (kvs.map (·.1)).Nodup)
    (h : schemaApply env fields p kvs = .ok out) : NoStaleMissing env p ⟨fields, out⟩ := by
  unfold schemaApply at h
  split at h
  · cases h
  · have hstart : Good env p fields [] kvs := by
      refine ⟨hnd, ?_, ?_, ?_, ?_⟩
      · intro kv hkv
        -- (the same argument as in `schemaApply_conforms`)
        rename_i hu
        have hu' : unmatchedKeys env fields kvs = [] := by simpa using hu
        have hk : kv.1 ∉ unmatchedKeys env fields kvs := by rw [hu']; simp
        simp only [unmatchedKeys, List.mem_filter, not_and, Bool.and_eq_true, Bool.not_eq_true'] at hk
        have := hk (List.mem_map_of_mem hkv)
        rw [getField_eq]
        by_cases hc : kv.1 ∈ constKeys fields
        · have := find_const_some fields kv.1 hc
          cases hf : fields.find? (isConstOf kv.1) with
          | some g => rfl
          | none => simp [hf] at this
        · rw [find_const_none _ _ hc]
          simp only []
          have h2 := this (by simpa using hc)
          rw [any_nonconst] at h2
          simp only [Bool.not_eq_false] at h2
          rw [List.any_eq_true] at h2
          obtain ⟨g, hg, hP⟩ := h2
          cases hf : fields.find? (isDynOf env kv.1) with
          | some g' => rfl
          | none =>
            rw [List.find?_eq_none] at hf
            exact absurd hP (by simpa using hf g hg)
      · intro kv _ f _ hf; cases hf
      · intro k hk; simp [constKeys] at hk
      · intro _ kv _ _ f _ hf; cases hf
    obtain ⟨_, _, _, _, g5⟩ := applyFields_good env p fields hd hI fields [] kvs out (by simp) h hstart
    intro kv hkv hmiss f hf
    exact g5 hM kv hkv hmiss f hf (getField_mem env fields kv.1 f hf)

/-- `Schema.apply` is idempotent: applying it to its own output returns that output — const and
dynamic keys, defaults, both `allow_partial` modes. -/
theorem schemaApply_idem (env : Env) (p : Bool) (fields : List Field)
    (hd : distinctKeys (fieldKeySpecs fields) = true) (hI : ∀ f ∈ fields, Idem env p f.value)
    (hM : ∀ f ∈ fields, MissingOK env p f.value)
    (kvs out : List (String × Val)) (hnd : (kvs.map (·.1)).Nodup)
    (h : schemaApply env fields p kvs = .ok out) : schemaApply env fields p out = .ok out :=
  schemaApply_fixed env p fields out hd (schemaApply_conforms env p fields hd hI kvs out hnd h)
    (schemaApply_nostale env p fields hd hI hM kvs out hnd h)

theorem good_start (env : Env) (p : Bool) (fields : List Field) (kvs : List (String × Val))
    (hnd : (kvs.map (·.1)).Nodup) (hu' : unmatchedKeys env fields kvs = []) : Good env p fields [] kvs := by
  refine ⟨hnd, ?_, ?_, ?_, ?_⟩
  · intro kv hkv
    have hk : kv.1 ∉ unmatchedKeys env fields kvs := by rw [hu']; simp
    simp only [unmatchedKeys, List.mem_filter, not_and, Bool.and_eq_true, Bool.not_eq_true'] at hk
    have := hk (List.mem_map_of_mem hkv)
    rw [getField_eq]
    by_cases hc : kv.1 ∈ constKeys fields
    · have := find_const_some fields kv.1 hc
      cases hf : fields.find? (isConstOf kv.1) with
      | some g => rfl
      | none => simp [hf] at this
    · rw [find_const_none _ _ hc]
      simp only []
      have h2 := this (by simpa using hc)
      rw [any_nonconst] at h2
      simp only [Bool.not_eq_false] at h2
      rw [List.any_eq_true] at h2
      obtain ⟨g, hg, hP⟩ := h2
      cases hf : fields.find? (isDynOf env kv.1) with
      | some g' => rfl
      | none =>
        rw [List.find?_eq_none] at hf
        exact absurd hP (by simpa using hf g hg)
  · intro kv _ f _ hf; cases hf
  · intro k hk; simp [constKeys] at hk
  · intro _ kv _ _ f _ hf; cases hf

/-- `Schema.apply` relative to a value predicate `Q` that the field specs preserve: the output keys
are distinct, the output conforms, has no stale `MISSING_VALUE`, and every value satisfies `Q`. -/
theorem schemaApply_goodQ (Q : Val → Prop) (env : Env) (p : Bool) (fields : List Field)
    (hd : distinctKeys (fieldKeySpecs fields) = true) (hI : ∀ f ∈ fields, IdemOn Q env p f.value)
    (hQd : ∀ f ∈ fields, Q f.value.flags.default) (hM : ∀ f ∈ fields, MissingOK env p f.value)
    (kvs out : List (String × Val)) (hnd : (kvs.map (·.1)).Nodup) (hq : ∀ kv ∈ kvs, Q kv.2)
    (h : schemaApply env fields p kvs = .ok out) :
    (out.map (·.1)).Nodup ∧ ConformsD env p ⟨fields, out⟩ ∧ NoStaleMissing env p ⟨fields, out⟩ ∧
      (∀ kv ∈ out, Q kv.2) := by
  unfold schemaApply at h
  split at h
  · cases h
  · rename_i hu
    have hu' : unmatchedKeys env fields kvs = [] := by simpa using hu
    have hstart := good_start env p fields kvs hnd hu'
    obtain ⟨⟨g1, g2, g3, g4, g5⟩, gq⟩ :=
      applyFields_goodQ Q env p fields hd hI hQd fields [] kvs out (by simp) h hstart hq
    refine ⟨g1, ⟨?_, g4⟩, ?_, gq⟩
    · intro kv hkv
      cases hf : getField env fields kv.1 with
      | none => have := g2 kv hkv; simp [hf] at this
      | some f => exact ⟨f, rfl, g3 kv hkv f hf (getField_mem env fields kv.1 f hf)⟩
    · intro kv hkv hmiss f hf
      exact g5 hM kv hkv hmiss f hf (getField_mem env fields kv.1 f hf)

theorem schemaApply_idemQ (Q : Val → Prop) (env : Env) (p : Bool) (fields : List Field)
    (hd : distinctKeys (fieldKeySpecs fields) = true) (hI : ∀ f ∈ fields, IdemOn Q env p f.value)
    (hQd : ∀ f ∈ fields, Q f.value.flags.default) (hM : ∀ f ∈ fields, MissingOK env p f.value)
    (kvs out : List (String × Val)) (hnd : (kvs.map (·.1)).Nodup) (hq : ∀ kv ∈ kvs, Q kv.2)
    (h : schemaApply env fields p kvs = .ok out) :
    schemaApply env fields p out = .ok out ∧ (out.map (·.1)).Nodup ∧ (∀ kv ∈ out, Q kv.2) := by
  obtain ⟨g1, hc, hs, gq⟩ := schemaApply_goodQ Q env p fields hd hI hQd hM kvs out hnd hq h
  exact ⟨schemaApply_fixed env p fields out hd hc hs, g1, gq⟩

end Pg.C03
