/- C14 — lemmas about the primitive operators (recombinators via `checked`, mutators). -/
import PgProofs.Evo
namespace Pg.C14

/-! ## `rebind` keeps values and aligns -/

theorem map_subVal_rebindFrom : ∀ (subs : List DNA) (i : Nat), (rebindFrom i subs).map subVal = subs.map subVal := by
  intro subs
  induction subs with
  | nil => intro i; simp [rebindFrom]
  | cons d rest ih =>
    intro i
    cases d <;> simp [rebindFrom, subVal, rebind, ih]

theorem length_rebindFrom : ∀ (subs : List DNA) (i : Nat), (rebindFrom i subs).length = subs.length := by
  intro subs
  induction subs with
  | nil => intro i; simp [rebindFrom]
  | cons d rest ih =>
    intro i
    cases d <;> simp [rebindFrom, ih]

mutual
  theorem valid_rebind : ∀ (d : DNA) (g : GSpec), valid g (rebind d) = valid g d
    | .space ds, g => by
        cases g with
        | space es => simp only [rebind, valid]; exact validElems_rebindAll ds es
        | choices k cands dist srt => simp [rebind, valid]
        | float lo hi => simp [rebind, valid]
    | .choices subs, g => by
        cases g with
        | space es => simp [rebind, valid]
        | choices k cands dist srt =>
          simp only [rebind, valid, map_subVal_rebindFrom, length_rebindFrom]
          rw [validSubs_rebindFrom subs cands 0]
        | float lo hi => simp [rebind, valid]
    | .sub b v d, g => by
        cases g <;> simp [rebind, valid]
    | .float v, g => by
        cases g <;> simp [rebind, valid]
  theorem validElems_rebindAll : ∀ (ds : List DNA) (es : List GSpec), validElems es (rebindAll ds) = validElems es ds
    | [], es => by cases es <;> simp [rebindAll, validElems]
    | d :: ds, es => by
        cases es with
        | nil => simp [rebindAll, validElems]
        | cons e es =>
          simp only [rebindAll, validElems]
          rw [valid_rebind d e, validElems_rebindAll ds es]
  theorem validSubs_rebindFrom : ∀ (subs : List DNA) (cands : List GSpec) (i : Nat),
      validSubs cands (rebindFrom i subs) = validSubs cands subs
    | [], cands, i => by simp [rebindFrom, validSubs]
    | .sub b v d :: rest, cands, i => by
        simp only [rebindFrom, validSubs]
        rw [validSubs_rebindFrom rest cands (i + 1)]
        cases cands[v]? with
        | none => rfl
        | some c => simp only []; rw [valid_rebind d c]
    | .space ds :: rest, cands, i => by simp [rebindFrom, validSubs, rebind]
    | .choices s :: rest, cands, i => by simp [rebindFrom, validSubs, rebind]
    | .float v :: rest, cands, i => by simp [rebindFrom, validSubs, rebind]
end

mutual
  theorem aligned_rebind : ∀ (d : DNA), aligned (rebind d) = true
    | .space ds => by simp only [rebind, aligned]; exact alignedAll_rebindAll ds
    | .choices subs => by simp only [rebind, aligned]; exact alignedFrom_rebindFrom subs 0
    | .sub b v d => by simp only [rebind, aligned]; exact aligned_rebind d
    | .float v => by simp [rebind, aligned]
  theorem alignedAll_rebindAll : ∀ (ds : List DNA), alignedAll (rebindAll ds) = true
    | [] => by simp [rebindAll, alignedAll]
    | d :: ds => by
        simp only [rebindAll, alignedAll, Bool.and_eq_true]
        exact ⟨aligned_rebind d, alignedAll_rebindAll ds⟩
  theorem alignedFrom_rebindFrom : ∀ (subs : List DNA) (i : Nat), alignedFrom i (rebindFrom i subs) = true
    | [], i => by simp [rebindFrom, alignedFrom]
    | .sub b v d :: rest, i => by
        simp only [rebindFrom, alignedFrom, Bool.and_eq_true, decide_eq_true_eq]
        exact ⟨⟨trivial, aligned_rebind d⟩, alignedFrom_rebindFrom rest (i + 1)⟩
    | .space ds :: rest, i => by
        simp only [rebindFrom, rebind, alignedFrom, Bool.and_eq_true, aligned]
        exact ⟨alignedAll_rebindAll ds, alignedFrom_rebindFrom rest (i + 1)⟩
    | .choices s :: rest, i => by
        simp only [rebindFrom, rebind, alignedFrom, Bool.and_eq_true, aligned]
        exact ⟨alignedFrom_rebindFrom s 0, alignedFrom_rebindFrom rest (i + 1)⟩
    | .float v :: rest, i => by
        simp only [rebindFrom, rebind, alignedFrom, Bool.and_eq_true, aligned]
        exact ⟨trivial, alignedFrom_rebindFrom rest (i + 1)⟩
end

theorem checked_spec {g : GSpec} {d d' : DNA} {s s' : St} (h : checked g d s = .ok (d', s')) :
    valid g d' = true ∧ aligned d' = true ∧ s' = s := by
  unfold checked at h
  split at h
  · rename_i hv
    rw [pure_ok] at h
    obtain ⟨rfl, rfl⟩ := h
    exact ⟨by rw [valid_rebind]; exact hv, aligned_rebind d, rfl⟩
  · exact ((fail_ok _ _ _).mp h).elim

theorem freshUid_spec {s : St} {u : Nat} {s' : St} (h : freshUid s = .ok (u, s')) :
    u = s.nextUid ∧ s'.nextUid = s.nextUid + 1 := by
  unfold freshUid at h
  simp only [Except.ok.injEq, Prod.mk.injEq] at h
  obtain ⟨rfl, rfl⟩ := h
  exact ⟨rfl, rfl⟩

theorem mkChild_spec {d : DNA} {s : St} {c : Ind} {s' : St} (h : mkChild d s = .ok (c, s')) :
    c.dna = d ∧ c.uid = s.nextUid ∧ s'.nextUid = s.nextUid + 1 := by
  unfold mkChild at h
  rw [bind_ok] at h
  obtain ⟨u, s1, h1, h2⟩ := h
  obtain ⟨rfl, hu⟩ := freshUid_spec h1
  rw [pure_ok] at h2
  obtain ⟨rfl, rfl⟩ := h2
  exact ⟨rfl, rfl, hu⟩

/-! ## Recombinators -/

theorem recPointWise_checked (sample : Bool) (fuel : Nat) (g : GSpec) (pop : Pop) (st : St) (out : Pop) (st' : St)
    (h : recPointWise sample fuel g pop st = .ok (out, st')) :
    ∀ y ∈ out, valid g y.dna = true ∧ aligned y.dna = true := by
  simp only [recPointWise] at h
  split at h
  · rw [pure_ok] at h
    obtain ⟨rfl, rfl⟩ := h
    intro y hy; simp at hy
  · split at h
    · exact ((fail_ok _ _ _).mp h).elim
    · rw [bind_ok] at h
      obtain ⟨d, s1, _, h2⟩ := h
      rw [bind_ok] at h2
      obtain ⟨d', s2, h3, h4⟩ := h2
      rw [bind_ok] at h4
      obtain ⟨c, s3, h5, h6⟩ := h4
      rw [pure_ok] at h6
      obtain ⟨rfl, rfl⟩ := h6
      obtain ⟨hv, ha, _⟩ := checked_spec h3
      obtain ⟨hd, _, _⟩ := mkChild_spec h5
      intro y hy
      simp only [List.mem_singleton] at hy
      subst hy
      rw [hd]
      exact ⟨hv, ha⟩

theorem segCross_checked {g : GSpec} {cuts : List Nat} {x y : DNA} {s : St} {d1 d2 : DNA} {s' : St}
    (h : segCross g cuts x y s = .ok ((d1, d2), s')) :
    (valid g d1 = true ∧ aligned d1 = true) ∧ (valid g d2 = true ∧ aligned d2 = true) := by
  simp only [segCross] at h
  split at h
  · exact ((fail_ok _ _ _).mp h).elim
  · rw [bind_ok] at h
    obtain ⟨e1, s1, h1, h2⟩ := h
    rw [bind_ok] at h2
    obtain ⟨e2, s2, h3, h4⟩ := h2
    rw [pure_ok] at h4
    obtain ⟨h4, rfl⟩ := h4
    simp only [Prod.mk.injEq] at h4
    obtain ⟨rfl, rfl⟩ := h4
    obtain ⟨hv1, ha1, _⟩ := checked_spec h1
    obtain ⟨hv2, ha2, _⟩ := checked_spec h3
    exact ⟨⟨hv1, ha1⟩, ⟨hv2, ha2⟩⟩

theorem recSegment_checked (g : GSpec) (cutsOf : Nat → M (List Nat)) (pop : Pop) (st : St) (out : Pop) (st' : St)
    (h : recSegment g cutsOf pop st = .ok (out, st')) :
    ∀ y ∈ out, valid g y.dna = true ∧ aligned y.dna = true := by
  unfold recSegment at h
  split at h
  · rename_i x y
    split at h
    · exact ((fail_ok _ _ _).mp h).elim
    · rw [bind_ok] at h
      obtain ⟨cuts, s1, _, h2⟩ := h
      rw [bind_ok] at h2
      obtain ⟨⟨d1, d2⟩, s2, h3, h4⟩ := h2
      simp only [] at h4
      rw [bind_ok] at h4
      obtain ⟨c1, s3, h5, h6⟩ := h4
      rw [bind_ok] at h6
      obtain ⟨c2, s4, h7, h8⟩ := h6
      rw [pure_ok] at h8
      obtain ⟨rfl, rfl⟩ := h8
      obtain ⟨hd1, hd2⟩ := segCross_checked h3
      obtain ⟨e1, _, _⟩ := mkChild_spec h5
      obtain ⟨e2, _, _⟩ := mkChild_spec h7
      intro z hz
      simp only [List.mem_cons, List.mem_nil_iff, or_false] at hz
      rcases hz with rfl | rfl
      · rw [e1]; exact hd1
      · rw [e2]; exact hd2
  · exact ((fail_ok _ _ _).mp h).elim

end Pg.C14
