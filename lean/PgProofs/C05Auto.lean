/- `auto_dict=True` changes nothing for JSON produced from conforming values. -/
import PgProofs.C05Codec
namespace Pg.C05

mutual
  theorem ad_tree (env : ClassEnv) : (t : Tree) → Conforms env t = true → Encodable false t = true →
      autoDict env (toJson env t) = toJson env t
    | .leaf a, _, he => by cases a <;> simp_all [toJson, atomJ, autoDict, Encodable]
    | .list xs, hc, he => by
      simp only [Encodable, Bool.and_eq_true] at he
      simp only [Conforms] at hc
      simp only [toJson, autoDict, ad_list env xs hc he.2]
    | .tuple xs, hc, he => by
      simp only [Encodable, Bool.and_eq_true] at he
      simp only [Conforms] at hc
      simp only [toJson, autoDict, autoDictL, ad_list env xs hc he.2]
    | .dict kvs, hc, he => by
      simp only [Encodable] at he
      simp only [Conforms, Bool.and_eq_true] at hc
      simp only [toJson, autoDict, jlookup_toJsonKV_none env kvs he, ad_kv env kvs hc.2 he]
    | .obj c attrs, hc, he => by
      simp only [Encodable] at he
      simp only [Conforms, Bool.and_eq_true] at hc
      have hf : (env.find c).isSome = true := by
        cases h : env.find c with
        | none => simp [h] at hc
        | some fs => rfl
      simp only [toJson, autoDict, jlookup, if_true, hf, autoDictKV,
        ad_attrs env (env.frozenOf c) attrs hc.2 he]
  theorem ad_list (env : ClassEnv) : (xs : List Tree) → ConformsL env xs = true →
      EncodableL false xs = true → autoDictL env (toJsonL env xs) = toJsonL env xs
    | [], _, _ => rfl
    | x :: xs, hc, he => by
      simp only [ConformsL, EncodableL, Bool.and_eq_true] at hc he
      simp only [toJsonL, autoDictL, ad_tree env x hc.1 he.1, ad_list env xs hc.2 he.2]
  theorem ad_kv (env : ClassEnv) : (kvs : List (Key × Tree)) → ConformsKV env kvs = true →
      EncodableKV false kvs = true → autoDictKV env (toJsonKV env kvs) = toJsonKV env kvs
    | [], _, _ => rfl
    | (k, x) :: xs, hc, he => by
      simp only [ConformsKV, EncodableKV, Bool.and_eq_true] at hc he
      simp only [toJsonKV, autoDictKV, ad_tree env x hc.1 he.1.2, ad_kv env xs hc.2 he.2]
  theorem ad_attrs (env : ClassEnv) (frozen : List Str) : (attrs : List (Str × Tree)) →
      ConformsA env attrs = true → EncodableA false attrs = true →
      autoDictKV env (toJsonA env frozen attrs) = toJsonA env frozen attrs
    | [], _, _ => rfl
    | (k, x) :: xs, hc, he => by
      simp only [ConformsA, EncodableA, Bool.and_eq_true] at hc he
      have ih := ad_attrs env frozen xs hc.2 he.2
      simp only [toJsonA]
      split
      · exact ih
      · rename_i hkeep
        have hnm : isMissing x = false := by
          cases hx : isMissing x with
          | false => rfl
          | true => simp [hx] at hkeep
        have hex : Encodable false x = true := by
          have := he.1.2; simp [hnm] at this; exact this
        simp only [autoDictKV, ad_tree env x hc.1 hex, ih]
end

end Pg.C05
