/-
  C13 — helper lemmas about the enumeration / size of finite spaces (PgModel/Hyper.lean).
-/
import PgModel.HyperSpec
namespace Pg.C13

section Induct
variable {P : GSpec → Prop}
  (hspace : ∀ elems, (∀ g ∈ elems, P g) → P (.space elems))
  (hchoices : ∀ k cands ds so, (∀ c ∈ cands, P c) → P (.choices k cands ds so))
  (hfloat : ∀ lo hi, P (.float lo hi))
  (hcustom : ∀ cid, P (.custom cid))

set_option linter.unusedSectionVars false in
include hspace hchoices hfloat hcustom in
mutual
  theorem GSpec.ind_g : (g : GSpec) → P g
    | .space elems => hspace elems (GSpec.ind_l elems)
    | .choices k cands ds so => hchoices k cands ds so (GSpec.ind_l cands)
    | .float lo hi => hfloat lo hi
    | .custom cid => hcustom cid
  theorem GSpec.ind_l : (gs : List GSpec) → ∀ g ∈ gs, P g
    | [] => fun _ h => by cases h
    | g :: gs => fun k h => by
      rcases List.mem_cons.mp h with h1 | h'
      · exact h1 ▸ GSpec.ind_g g
      · exact GSpec.ind_l gs k h'
end
end Induct

theorem enumL_eq (gs : List GSpec) : enumL gs = gs.map enumG := by
  induction gs with
  | nil => simp [enumL]
  | cons g gs ih => simp [enumL, ih]

theorem sizeL_eq (gs : List GSpec) : sizeL gs = gs.map sizeG := by
  induction gs with
  | nil => simp [sizeL]
  | cons g gs ih => simp [sizeL, ih]

theorem length_flatMap_const {α β : Type} (l : List α) (f : α → List β) (c : Nat)
    (h : ∀ a ∈ l, (f a).length = c) : (l.flatMap f).length = l.length * c := by
  induction l with
  | nil => simp
  | cons a l ih =>
    simp only [List.flatMap_cons, List.length_append, List.length_cons]
    rw [h a (List.mem_cons_self ..), ih (fun b hb => h b (List.mem_cons_of_mem _ hb))]
    rw [Nat.add_mul, Nat.one_mul, Nat.add_comm]

theorem cartesian_length (xss : List (List DNA)) :
    (cartesian xss).length = (xss.map List.length).foldr (· * ·) 1 := by
  induction xss with
  | nil => simp [cartesian]
  | cons xs rest ih =>
    simp only [cartesian, List.map_cons, List.foldr_cons]
    rw [length_flatMap_const xs _ (cartesian rest).length (fun a _ => by simp), ih]

theorem enumMulti_length (subs : List (List DNA)) (dst so : Bool) (r : Nat) (prior : List Nat) :
    (enumMulti subs dst so r prior).length = msize (subs.map List.length) dst so r prior := by
  induction r generalizing prior with
  | zero => simp [enumMulti, msize]
  | succ r ih =>
    simp only [enumMulti, msize, List.length_flatMap, List.length_map]
    congr 1
    apply List.map_congr_left
    intro i _
    split
    · rw [length_flatMap_const (subs[i]?.getD []) _ (msize (subs.map List.length) dst so r (prior ++ [i]))
        (fun a _ => by simp [ih])]
      congr 1
      cases hsi : subs[i]? <;> simp [hsi]
    · simp

/-- If all sub-space sizes are finite, they are the lengths of the sub-enumerations. -/
theorem optAll_sizes (gs : List GSpec) (ss : List Nat)
    (hIH : ∀ g ∈ gs, ∀ n, sizeG g = some n → (enumG g).length = n)
    (h : optAll (gs.map sizeG) = some ss) : ss = (gs.map enumG).map List.length := by
  induction gs generalizing ss with
  | nil => simp [optAll] at h; simp [h]
  | cons g gs ih =>
    simp only [List.map_cons, optAll] at h
    cases hg : sizeG g with
    | none => simp [hg, optAll] at h
    | some n =>
      simp only [hg, optAll] at h
      cases hr : optAll (gs.map sizeG) with
      | none => simp [hr] at h
      | some rest =>
        simp only [hr, Option.some.injEq] at h
        subst h
        have h1 := hIH g (List.mem_cons_self ..) n hg
        have h2 := ih rest (fun g' hg' => hIH g' (List.mem_cons_of_mem _ hg')) hr
        simp [h1, h2]

theorem enumG_length (g : GSpec) : ∀ n, sizeG g = some n → (enumG g).length = n := by
  induction g using GSpec.ind_g with
  | hspace elems ih =>
    intro n h
    simp only [sizeG, sizeL_eq, Option.map_eq_some_iff] at h
    obtain ⟨ss, hss, rfl⟩ := h
    have := optAll_sizes elems ss ih hss
    subst this
    simp [enumG, enumL_eq, cartesian_length]
  | hchoices k cands dst so ih =>
    intro n h
    simp only [sizeG, sizeL_eq, Option.map_eq_some_iff] at h
    obtain ⟨ss, hss, rfl⟩ := h
    have := optAll_sizes cands ss ih hss
    subst this
    simp [enumG, enumL_eq, enumMulti_length]
  | hfloat lo hi =>
    intro n h
    simp [sizeG] at h
  | hcustom cid =>
    intro n h
    simp [sizeG] at h

/-! ### The sweep stays within the constrained space of a multi-choice -/

theorem nodupNat_snoc (xs : List Nat) (i : Nat) (h : nodupNat xs = true) (hi : xs.contains i = false) :
    nodupNat (xs ++ [i]) = true := by
  induction xs with
  | nil => simp [nodupNat]
  | cons x xs ih =>
    simp only [nodupNat, Bool.and_eq_true, Bool.not_eq_true'] at h
    simp only [List.contains_cons, Bool.or_eq_false_iff] at hi
    simp only [List.cons_append, nodupNat, Bool.and_eq_true, Bool.not_eq_true']
    refine ⟨?_, ih h.2 hi.2⟩
    have h1 := h.1
    have h2 := hi.1
    simp only [List.contains_eq_mem, List.mem_append, List.mem_singleton, decide_eq_false_iff_not] at h1 ⊢
    simp only [beq_eq_false_iff_ne] at h2
    rintro (hm | he)
    · exact h1 hm
    · exact h2 he.symm

theorem sortedNat_snoc (xs : List Nat) (i : Nat) (h : sortedNat xs = true)
    (hi : ∀ j, xs.getLast? = some j → j ≤ i) : sortedNat (xs ++ [i]) = true := by
  match xs, h, hi with
  | [], _, _ => simp [sortedNat]
  | [x], _, hi =>
    have := hi x (by simp)
    simp [sortedNat, this]
  | x :: y :: rest, h, hi =>
    simp only [sortedNat, Bool.and_eq_true, decide_eq_true_eq] at h
    simp only [List.cons_append, sortedNat, Bool.and_eq_true, decide_eq_true_eq]
    refine ⟨h.1, ?_⟩
    have := sortedNat_snoc (y :: rest) i h.2 (fun j hj => hi j (by simpa [List.getLast?_cons_cons] using hj))
    simpa using this

theorem constraintOk_snoc (dst so : Bool) (prior : List Nat) (i : Nat)
    (h : constraintOk dst so prior = true) (ha : allowedIdx dst so prior i = true) :
    constraintOk dst so (prior ++ [i]) = true := by
  simp only [constraintOk, allowedIdx, Bool.and_eq_true, Bool.or_eq_true, Bool.not_eq_true'] at *
  constructor
  · rcases h.1 with hd | hn
    · exact Or.inl hd
    · rcases ha.1 with hd | hc
      · exact Or.inl hd
      · exact Or.inr (nodupNat_snoc prior i hn hc)
  · rcases h.2 with hs | hn
    · exact Or.inl hs
    · rcases ha.2 with hs | hl
      · exact Or.inl hs
      · refine Or.inr (sortedNat_snoc prior i hn ?_)
        intro j hj
        simp only [hj, decide_eq_true_eq] at hl
        exact hl

theorem idxOf_norm (i : Nat) (cs : List DNA) : idxOf (DNA.norm (some (.idx i)) cs) = some i := by
  simp [DNA.norm, idxOf]

/-- Every index sequence the sweep of a multi-choice produces satisfies the `distinct` / `sorted`
constraints (together with what was chosen before). -/
theorem enumMulti_constrained (subs : List (List DNA)) (dst so : Bool) (r : Nat) (prior : List Nat)
    (hp : constraintOk dst so prior = true) :
    ∀ ds ∈ enumMulti subs dst so r prior,
      ∃ is, allIdx ds = some is ∧ is.length = r ∧ constraintOk dst so (prior ++ is) = true := by
  induction r generalizing prior with
  | zero =>
    intro ds hds
    simp only [enumMulti, List.mem_singleton] at hds
    subst hds
    exact ⟨[], by simp [allIdx], rfl, by simpa using hp⟩
  | succ r ih =>
    intro ds hds
    simp only [enumMulti, List.mem_flatMap, List.mem_range] at hds
    obtain ⟨i, _, hds⟩ := hds
    split at hds
    · rename_i ha
      simp only [List.mem_flatMap, List.mem_map] at hds
      obtain ⟨sub, _, rest, hrest, rfl⟩ := hds
      obtain ⟨is, hidx, hlen, hc⟩ := ih (prior ++ [i]) (constraintOk_snoc dst so prior i hp ha) rest hrest
      refine ⟨i :: is, by simp [allIdx, idxOf_norm, hidx], by simp [hlen], ?_⟩
      simpa [List.append_assoc] using hc
    · cases hds

end Pg.C13
