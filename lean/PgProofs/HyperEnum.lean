/-
  C13 — helper lemmas about the enumeration / size of finite spaces (PgModel/Hyper.lean).
-/
import PgModel.HyperSpec
namespace Pg.C13

section Induct
variable {P : GSpec → Prop}
  (hspace : ∀ elems, (∀ g ∈ elems, P g) → P (.space elems))
  (hchoices : ∀ k cands ds so, (∀ c ∈ cands, P c) → P (.choices k cands ds so))
  (hfloat : ∀ lo hi, P (.float lo hi))
  (hcustom : ∀ cid, P (.custom cid))

set_option linter.unusedSectionVars false in
include hspace hchoices hfloat hcustom in
mutual
  theorem GSpec.ind_g : (g : GSpec) → P g
    | .space elems => hspace elems (GSpec.ind_l elems)
    | .choices k cands ds so => hchoices k cands ds so (GSpec.ind_l cands)
    | .float lo hi => hfloat lo hi
    | .custom cid => hcustom cid
  theorem GSpec.ind_l : (gs : List GSpec) → ∀ g ∈ gs, P g
    | [] => fun _ h => by cases h
    | g :: gs => fun k h => by
      rcases List.mem_cons.mp h with h1 | h'
      · exact h1 ▸ GSpec.ind_g g
      · exact GSpec.ind_l gs k h'
end
end Induct

theorem enumL_eq (gs : List GSpec) : enumL gs = gs.map enumG := by
  induction gs with
  | nil => simp [enumL]
  | cons g gs ih => simp [enumL, ih]

theorem sizeL_eq (gs : List GSpec) : sizeL gs = gs.map sizeG := by
  induction gs with
  | nil => simp [sizeL]
  | cons g gs ih => simp [sizeL, ih]

theorem length_flatMap_const {α β : Type} (l : List α) (f : α → List β) (c : Nat)
    (h : ∀ a ∈ l, (f a).length = c) : (l.flatMap f).length = l.length * c := by
  induction l with
  | nil => simp
  | cons a l ih =>
    simp only [List.flatMap_cons, List.length_append, List.length_cons]
    rw [h a (List.mem_cons_self ..), ih (fun b hb => h b (List.mem_cons_of_mem _ hb))]
    rw [Nat.add_mul, Nat.one_mul, Nat.add_comm]

theorem cartesian_length (xss : List (List DNA)) :
    (cartesian xss).length = (xss.map List.length).foldr (· * ·) 1 := by
  induction xss with
  | nil => simp [cartesian]
  | cons xs rest ih =>
    simp only [cartesian, List.map_cons, List.foldr_cons]
    rw [length_flatMap_const xs _ (cartesian rest).length (fun a _ => by simp), ih]

theorem enumMulti_length (subs : List (List DNA)) (dst so : Bool) (r : Nat) (prior : List Nat) :
    (enumMulti subs dst so r prior).length = msize (subs.map List.length) dst so r prior := by
  induction r generalizing prior with
  | zero => simp [enumMulti, msize]
  | succ r ih =>
    simp only [enumMulti, msize, List.length_flatMap, List.length_map]
    congr 1
    apply List.map_congr_left
    intro i _
    split
    · rw [length_flatMap_const (subs[i]?.getD []) _ (msize (subs.map List.length) dst so r (prior ++ [i]))
        (fun a _ => by simp [ih])]
      congr 1
      cases hsi : subs[i]? <;> simp [hsi]
    · simp

/-- If all sub-space sizes are finite, they are the lengths of the sub-enumerations. -/
theorem optAll_sizes (gs : List GSpec) (ss : List Nat)
    (hIH : ∀ g ∈ gs, ∀ n, sizeG g = some n → (enumG g).length = n)
    (h : optAll (gs.map sizeG) = some ss) : ss = (gs.map enumG).map List.length := by
  induction gs generalizing ss with
  | nil => simp [optAll] at h; simp [h]
  | cons g gs ih =>
    simp only [List.map_cons, optAll] at h
    cases hg : sizeG g with
    | none => simp [hg, optAll] at h
    | some n =>
      simp only [hg, optAll] at h
      cases hr : optAll (gs.map sizeG) with
      | none => simp [hr] at h
      | some rest =>
        simp only [hr, Option.some.injEq] at h
        subst h
        have h1 := hIH g (List.mem_cons_self ..) n hg
        have h2 := ih rest (fun g' hg' => hIH g' (List.mem_cons_of_mem _ hg')) hr
        simp [h1, h2]

theorem enumG_length (g : GSpec) : ∀ n, sizeG g = some n → (enumG g).length = n := by
  induction g using GSpec.ind_g with
  | hspace elems ih =>
    intro n h
    simp only [sizeG, sizeL_eq, Option.map_eq_some_iff] at h
    obtain ⟨ss, hss, rfl⟩ := h
    have := optAll_sizes elems ss ih hss
    subst this
    simp [enumG, enumL_eq, cartesian_length]
  | hchoices k cands dst so ih =>
    intro n h
    simp only [sizeG, sizeL_eq, Option.map_eq_some_iff] at h
    obtain ⟨ss, hss, rfl⟩ := h
    have := optAll_sizes cands ss ih hss
    subst this
    simp [enumG, enumL_eq, enumMulti_length]
  | hfloat lo hi =>
    intro n h
    simp [sizeG] at h
  | hcustom cid =>
    intro n h
    simp [sizeG] at h

end Pg.C13
