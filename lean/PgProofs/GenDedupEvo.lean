/- C15 helper lemmas: Deduping over Evolution (repaired source) — outer counters, de-duplication
   memory (up to the order of the rewards per key), population of the wrapped evolution. -/
import PgProofs.GenEvoPop
namespace Pg.C15
open List

/-! ### the cache as a fold over entries -/

def entryKey (e : Item × Option Int) : Nat := e.1.key.getD 0

def cacheOfEntries (c : Cache) (es : Hist) : Cache := es.foldl (fun c e => cacheAdd c (entryKey e) e.2) c

theorem cacheGet_cacheAdd (c : Cache) (k k' : Nat) (r : Option Int) :
    cacheGet (cacheAdd c k r) k' = if k' = k then cacheGet c k' ++ [r] else cacheGet c k' := by
  induction c with
  | nil =>
    simp only [cacheAdd, cacheGet]
    by_cases h : k' = k
    · simp [h]
    · have : ¬ k = k' := fun h' => h h'.symm
      simp [h, this]
  | cons x xs ih =>
    obtain ⟨k0, rs⟩ := x
    simp only [cacheAdd]
    by_cases h0 : k0 = k
    · subst h0
      simp only [↓reduceIte, cacheGet]
      by_cases h : k0 = k'
      · subst h; simp
      · have : ¬ k' = k0 := fun h' => h h'.symm
        simp [h, this]
    · simp only [h0, ↓reduceIte, cacheGet]
      by_cases h : k0 = k'
      · subst h
        have : ¬ k0 = k := h0
        simp [this]
      · simp only [h, ↓reduceIte, ih]

theorem cacheGet_cacheOfEntries (c : Cache) (es : Hist) (k : Nat) :
    cacheGet (cacheOfEntries c es) k = cacheGet c k ++ ((es.filter (fun e => entryKey e = k)).map (·.2)) := by
  induction es generalizing c with
  | nil => simp [cacheOfEntries]
  | cons e es ih =>
    simp only [cacheOfEntries, foldl_cons] at ih ⊢
    rw [ih, cacheGet_cacheAdd]
    by_cases h : entryKey e = k
    · subst h
      simp [filter_cons]
    · have : ¬ k = entryKey e := fun h' => h h'.symm
      simp [h, this]

theorem cacheOfEntries_perm (es es' : Hist) (hp : es ~ es') (k : Nat) :
    (cacheGet (cacheOfEntries [] es) k).Perm (cacheGet (cacheOfEntries [] es') k) := by
  rw [cacheGet_cacheOfEntries, cacheGet_cacheOfEntries]
  exact Perm.append_left _ ((hp.filter _).map _)

/-! ### the wrapped evolution inside the attempt loop -/

def InnerOk (nf : Nat) (pop : List Item) (s : St) : Prop :=
  ∃ np si ini g pend, s = .evolution np nf si ini g pop pend ∧ ∀ it ∈ pend, ItemOk it

theorem propose_inner_ok (env : Env) (init : Algo) (sz : Option Nat) (nf : Nat) (pop : List Item) (s : St)
    (hs : InnerOk nf pop s) :
    InnerOk nf pop (propose env (.evolution init sz) s).2
      ∧ ∀ it, (propose env (.evolution init sz) s).1 = .ok it → ItemOk it := by
  obtain ⟨np, si, ini, g, pend, rfl, hp⟩ := hs
  have h := propose_evolution_ok env init sz np nf si ini g pop pend hp
  cases hr : propose env (.evolution init sz) (.evolution np nf si ini g pop pend) with
  | mk r s' =>
    rw [hr] at h
    cases r with
    | error e =>
      obtain ⟨si', ini', g', pend', hs', hp'⟩ := h
      exact ⟨⟨_, si', ini', g', pend', hs', hp'⟩, fun it hit => by simp at hit⟩
    | ok it =>
      obtain ⟨hit, si', ini', g', pend', hs', hp'⟩ := h
      refine ⟨⟨_, si', ini', g', pend', hs', hp'⟩, fun it' hit' => ?_⟩
      simp only [Except.ok.injEq] at hit'
      rw [← hit']; exact hit

theorem dedupLoop_inner_ok (env : Env) (init : Algo) (sz : Option Nat) (hash : Nat → Nat) (cache : Cache)
    (md : Nat) (auto : Bool) (nf : Nat) (pop : List Item) (fuel : Nat) (s : St) (hs : InnerOk nf pop s) :
    InnerOk nf pop (dedupLoop (propose env (.evolution init sz)) hash cache md auto fuel s).2
      ∧ ∀ it, (dedupLoop (propose env (.evolution init sz)) hash cache md auto fuel s).1 = .ok it →
          ItemOk it ∧ it.key.isSome = true := by
  induction fuel generalizing s with
  | zero => exact ⟨hs, fun it h => by simp [dedupLoop] at h⟩
  | succ n ih =>
    obtain ⟨hs', hit⟩ := propose_inner_ok env init sz nf pop s hs
    simp only [dedupLoop]
    cases hp : propose env (.evolution init sz) s with
    | mk r s1 =>
      rw [hp] at hs' hit
      cases r with
      | error e => exact ⟨hs', fun it h => by simp at h⟩
      | ok it0 =>
        have hok0 := hit it0 rfl
        simp only
        split
        · refine ⟨hs', fun it h => ?_⟩
          simp only [Except.ok.injEq] at h
          rw [← h]; exact ⟨hok0, rfl⟩
        · split
          · split
            · refine ⟨hs', fun it h => ?_⟩
              simp only [Except.ok.injEq] at h
              rw [← h]; exact ⟨hok0, rfl⟩
            · exact ⟨hs', fun it h => by simp at h⟩
          · exact ih s1 hs'

/-! ### unfolding lemmas with the wrapped generator kept abstract -/

theorem propose_dedup_fb (env : Env) (inner : Algo) (hid md ma : Nat) (au : Bool) (np nf : Nat) (si : St)
    (cache : Cache) (hnf : needsFeedback inner = true) :
    propose env (.deduping inner hid md ma au) (.deduping np nf si cache)
      = match dedupLoop (propose env inner) (env.hash hid) cache md au ma si with
        | (.error e, si') => (.error e, .deduping np nf si' cache)
        | (.ok it, si') => (.ok it, .deduping (np + 1) nf si' cache) := by
  simp only [propose, hnf, Bool.and_true, ↓reduceIte]
  cases dedupLoop (propose env inner) (env.hash hid) cache md au ma si with
  | mk r s => cases r <;> rfl

theorem feedback_dedup_fb (env : Env) (inner : Algo) (hid md ma : Nat) (au : Bool) (np nf : Nat) (si : St)
    (cache : Cache) (it : Item) (r : Int) (hnf : needsFeedback inner = true) :
    feedback env (.deduping inner hid md ma au) (.deduping np nf si cache) it r
      = match feedback env inner si it r with
        | .error e => .error e
        | .ok (it', si') =>
          match it'.key with
          | none => .error .assertion
          | some k => .ok (it', .deduping np (nf + 1) si' (cacheAdd cache k (some r))) := by
  simp only [feedback, hnf, ↓reduceIte]
  cases feedback env inner si it r with
  | error e => rfl
  | ok p =>
    obtain ⟨it', si'⟩ := p
    simp only
    cases it'.key <;> rfl

theorem recover_dedup_patched (env : Env) (inner : Algo) (hid md ma : Nat) (au : Bool)
    (hq : env.q.dedupForwardsReplay = false) (h : Hist) :
    recover env (.deduping inner hid md ma au) (setup (.deduping inner hid md ma au)) h
      = match recover env inner (setup inner) h with
        | .error e => .error e
        | .ok si' => baseRecover env (.deduping inner hid md ma au) (.deduping 0 0 si' []) h := by
  simp only [recover, hq, Bool.false_eq_true, ↓reduceIte, setup]
  cases recover env inner (setup inner) h <;> rfl

theorem baseRecover_dedup_fb (env : Env) (inner : Algo) (hid md ma : Nat) (au : Bool)
    (hq : env.q.dedupForwardsReplay = false) (hnf : needsFeedback inner = true)
    (h : Hist) (hk : ∀ e ∈ h, e.1.key.isSome = true) (np nf : Nat) (si : St) (c : Cache) :
    baseRecover env (.deduping inner hid md ma au) (.deduping np nf si c) h
      = .ok (.deduping (np + h.length) (nf + fedCount h) si (cacheOfEntries c (fedOf h))) := by
  induction h generalizing np nf c with
  | nil => simp [baseRecover, foldE, cacheOfEntries, fedOf]
  | cons e h ih =>
    obtain ⟨it, r⟩ := e
    have hke : it.key.isSome = true := hk (it, r) mem_cons_self
    obtain ⟨k, hk'⟩ := Option.isSome_iff_exists.mp hke
    have hrest : ∀ e ∈ h, e.1.key.isSome = true := fun e he => hk e (mem_cons_of_mem _ he)
    rw [baseRecover_cons]
    cases r with
    | none =>
      simp only [replay, hq, hnf, Bool.false_eq_true, ↓reduceIte, Bool.not_true, St.bump]
      rw [ih hrest, fedCount_cons]
      have : fedOf ((it, none) :: h) = fedOf h := by simp [fedOf]
      rw [this]
      simp only [length_cons, Option.isSome_none, Bool.false_eq_true, ↓reduceIte]
      congr 2 <;> omega
    | some r =>
      simp only [replay, hq, hnf, hk', Bool.false_eq_true, ↓reduceIte, Bool.not_true, St.bump]
      rw [ih hrest, fedCount_cons]
      have : fedOf ((it, some r) :: h) = (it, some r) :: fedOf h := by simp [fedOf]
      rw [this]
      simp only [length_cons, Option.isSome_some, ↓reduceIte, cacheOfEntries, foldl_cons, entryKey, hk',
        Option.getD_some]
      congr 2 <;> omega

/-! ### live invariant of Deduping(Evolution(base initialiser)) -/

def KeyedOk (h : Hist) : Prop := ∀ e ∈ h, EntryOk e ∧ e.1.key.isSome = true

def DEInv (env : Env) (l : Live) : Prop :=
  ∃ enp si ini g pop pend,
    l.st = .deduping l.hist.length (fedCount l.hist)
            (.evolution enp (fedCount l.hist) si ini g pop pend)
            (cacheOfEntries [] (fedOf (sortByFeedback l.hist)))
    ∧ (∀ it ∈ pend, ItemOk it)
    ∧ KeyedOk l.hist
    ∧ popOf env ([], 0) ((fedOf (sortByFeedback l.hist)).map (·.1)) = (pop, fedCount l.hist)
    ∧ FbBound l.hist (fedCount l.hist)
    ∧ FbInj l.hist

theorem deInv_step (env : Env) (init : Algo) (hb : IsBase init) (sz : Option Nat) (hid md ma : Nat) (au : Bool)
    (l : Live) (e : Event) (hl : DEInv env l) :
    DEInv env (step env (.deduping (.evolution init sz) hid md ma au) l e) := by
  obtain ⟨st, hist⟩ := l
  obtain ⟨enp, si, ini, g, pop, pend, hst, hpend, hkeyed, hpop, hbound, hinj⟩ := hl
  simp only at hst hkeyed hpop hbound hinj
  subst hst
  have hent : ∀ e ∈ hist, EntryOk e := fun e he => (hkeyed e he).1
  cases e with
  | propose =>
    simp only [step]
    rw [propose_dedup_fb env (.evolution init sz) hid md ma au _ _ _ _ rfl]
    have hin : InnerOk (fedCount hist) pop (.evolution enp (fedCount hist) si ini g pop pend) :=
      ⟨enp, si, ini, g, pend, rfl, hpend⟩
    obtain ⟨hs1, hit⟩ := dedupLoop_inner_ok env init sz (env.hash hid)
      (cacheOfEntries [] (fedOf (sortByFeedback hist))) md au (fedCount hist) pop ma _ hin
    cases hd : dedupLoop (propose env (.evolution init sz)) (env.hash hid)
        (cacheOfEntries [] (fedOf (sortByFeedback hist))) md au ma
        (.evolution enp (fedCount hist) si ini g pop pend) with
    | mk r s1 =>
      rw [hd] at hs1 hit
      obtain ⟨enp', si', ini', g', pend', hs1', hp'⟩ := hs1
      simp only at hs1'
      subst hs1'
      cases r with
      | error e => exact ⟨enp', si', ini', g', pop, pend', rfl, hp', hkeyed, hpop, hbound, hinj⟩
      | ok it =>
        obtain ⟨hitok, hitkey⟩ := hit it rfl
        have hfc : fedCount (hist ++ [(it, none)]) = fedCount hist := by
          rw [fedCount_append]; simp [fedCount]
        have hfo : fedOf (hist ++ [(it, none)]) = fedOf hist := fedOf_append_unfed hist it
        have hsort : fedOf (sortByFeedback (hist ++ [(it, none)])) = fedOf (sortByFeedback hist) := by
          apply fedOf_sort_eq
          · rw [hfo]; exact ((perm_sortByFeedback hist).filter _).symm
          · exact (sorted_sortByFeedback hist).filter _
          · exact key_inj_of hist _ hbound hinj
        refine ⟨enp', si', ini', g', pop, pend', ?_, hp', ?_, ?_, ?_, ?_⟩
        · simp only [length_append, length_singleton, hfc, hsort]
        · intro e he
          simp only [mem_append, mem_singleton] at he
          rcases he with he | rfl
          · exact hkeyed e he
          · exact ⟨⟨hitok, fun r hr => by simp at hr⟩, hitkey⟩
        · simp only [hsort, hfc]; exact hpop
        · simp only [FbBound, hfo, hfc]; exact hbound
        · simp only [FbInj, hfo]; exact hinj
  | feedback i r =>
    simp only [step]
    cases hi : hist[i]? with
    | none => exact ⟨enp, si, ini, g, pop, pend, rfl, hpend, hkeyed, hpop, hbound, hinj⟩
    | some e =>
      obtain ⟨it, ro⟩ := e
      cases ro with
      | some _ => exact ⟨enp, si, ini, g, pop, pend, rfl, hpend, hkeyed, hpop, hbound, hinj⟩
      | none =>
        have hmem : (it, none) ∈ hist := mem_of_getElem? hi
        obtain ⟨⟨hitok, _⟩, hitkey⟩ := hkeyed _ hmem
        obtain ⟨k, hk⟩ := Option.isSome_iff_exists.mp hitkey
        simp only
        rw [feedback_dedup_fb env (.evolution init sz) hid md ma au _ _ _ _ _ _ rfl]
        rcases feedback_evolution_form env init hb sz enp (fedCount hist) si ini g pop pend it
            (it.reward.getD r) hitok with ⟨e, he⟩ | ⟨it2, si', ini', g', hf, hseq, hrew, hgid, hinit, hkey⟩
        · rw [he]
          exact ⟨enp, si, ini, g, pop, pend, rfl, hpend, hkeyed, hpop, hbound, hinj⟩
        · rw [hf]
          have hk2 : it2.key = some k := by rw [hkey]; exact hk
          simp only [hk2]
          have hx : ((it2, some (it.reward.getD r)) : Item × Option Int).2.isSome = true := rfl
          have hP := fedOf_setAt_perm hist i it (it2, some (it.reward.getD r)) hx hi
          have hfc := fedCount_setAt hist i it it2 (it.reward.getD r) hi
          have hle : ∀ a ∈ fedOf (sortByFeedback hist), leFb a (it2, some (it.reward.getD r)) := by
            intro a ha
            obtain ⟨s, hs, hsn⟩ := hbound a (mem_fedOf_sort ha)
            simp only [leFb, fbKey, hs, hseq, keyLe, Nat.lt_irrefl, decide_false, true_and, Bool.false_or,
              decide_eq_true_eq, Bool.and_eq_true]
            omega
          have hsort : fedOf (sortByFeedback (setAt hist i (it2, some (it.reward.getD r))))
              = fedOf (sortByFeedback hist) ++ [(it2, some (it.reward.getD r))] := by
            apply fedOf_sort_eq
            · exact hP.trans (Perm.append_right _ ((perm_sortByFeedback hist).filter _).symm)
            · rw [pairwise_append]
              exact ⟨(sorted_sortByFeedback hist).filter _, pairwise_singleton _ _,
                fun a ha b hb => by rw [mem_singleton.mp hb]; exact hle a ha⟩
            · intro a ha b hb hkk
              rw [mem_append, mem_singleton] at ha hb
              rcases ha with ha | rfl <;> rcases hb with hb | rfl
              · exact key_inj_of hist _ hbound hinj a ha b hb hkk
              · obtain ⟨s, hs, hsn⟩ := hbound a (mem_fedOf_sort ha)
                simp only [fbKey, hs, hseq, Prod.mk.injEq, true_and] at hkk
                omega
              · obtain ⟨s, hs, hsn⟩ := hbound b (mem_fedOf_sort hb)
                simp only [fbKey, hs, hseq, Prod.mk.injEq, true_and] at hkk
                omega
              · rfl
          refine ⟨enp, si', ini', g', env.update (pop ++ [it2]) (fedCount hist), pend, ?_, hpend, ?_, ?_, ?_, ?_⟩
          · simp only [length_setAt, hfc, hsort, cacheOfEntries, foldl_append, foldl_cons, foldl_nil, entryKey, hk2,
              Option.getD_some]
          · intro e he
            rcases mem_setAt _ _ _ _ he with rfl | he
            · refine ⟨⟨⟨?_, ?_⟩, fun r' hr' => ?_⟩, ?_⟩
              · show it2.gid.isSome = true
                rw [hgid]; exact hitok.1
              · show it2.initial.isSome = true
                rw [hinit]; exact hitok.2
              · simp only [Option.some.injEq] at hr'
                subst hr'
                exact ⟨by show it2.fbseq.isSome = true; rw [hseq]; rfl, hrew⟩
              · show it2.key.isSome = true
                rw [hk2]; rfl
            · exact hkeyed e he
          · rw [hsort, hfc, map_append, popOf, foldl_append]
            have : foldl (popStep env) ([], 0) (map (·.1) (fedOf (sortByFeedback hist))) = (pop, fedCount hist) := hpop
            rw [this]
            rfl
          · intro e he
            rw [hfc]
            have := hP.subset he
            rw [mem_append, mem_singleton] at this
            rcases this with h | rfl
            · obtain ⟨s, hs, hsn⟩ := hbound e h
              exact ⟨s, hs, by omega⟩
            · exact ⟨_, hseq, Nat.le_refl _⟩
          · intro a ha b hb hkk
            have ha' := hP.subset ha
            have hb' := hP.subset hb
            rw [mem_append, mem_singleton] at ha' hb'
            rcases ha' with ha' | rfl <;> rcases hb' with hb' | rfl
            · exact hinj a ha' b hb' hkk
            · obtain ⟨s, hs, hsn⟩ := hbound a ha'
              rw [hs] at hkk
              have : (it2, some (it.reward.getD r)).1.fbseq = some (fedCount hist + 1) := hseq
              rw [this] at hkk
              simp only [Option.some.injEq] at hkk
              omega
            · obtain ⟨s, hs, hsn⟩ := hbound b hb'
              rw [hs] at hkk
              have : (it2, some (it.reward.getD r)).1.fbseq = some (fedCount hist + 1) := hseq
              rw [this] at hkk
              simp only [Option.some.injEq] at hkk
              omega
            · rfl

theorem live_dedup_evolution (env : Env) (init : Algo) (hb : IsBase init) (sz : Option Nat) (hid md ma : Nat)
    (au : Bool) (run : List Event) :
    DEInv env (runLive env (.deduping (.evolution init sz) hid md ma au) run) := by
  apply runLive_inv env (.deduping (.evolution init sz) hid md ma au) (DEInv env)
  · refine ⟨0, setup init, false, 0, [], [], rfl, fun it h => by simp at h, fun e h => by simp at h, rfl, ?_, ?_⟩
    · intro e he; simp [fedOf] at he
    · intro a ha; simp [fedOf] at ha
  · exact fun l e hl => deInv_step env init hb sz hid md ma au l e hl

end Pg.C15
