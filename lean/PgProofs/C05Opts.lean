/- Round trip under the `to_json` options `hide_frozen` / `hide_default_values`. -/
import PgProofs.C05Codec
namespace Pg.C05

/-- Keyword arguments for an arbitrary "is emitted" predicate. -/
def kwP (keep : Str → Tree → Bool) (attrs : List (Str × Tree)) : List (Key × Tree) :=
  (attrs.filter (fun p => keep p.1 p.2)).map (fun p => (Key.s p.1, p.2))

theorem kwP_cons (keep : Str → Tree → Bool) (k : Str) (x : Tree) (r : List (Str × Tree)) :
    kwP keep ((k, x) :: r) = if keep k x then (Key.s k, x) :: kwP keep r else kwP keep r := by
  unfold kwP
  rw [List.filter_cons]
  cases h : keep k x <;> simp [h]

theorem tlookup_kwP_none (keep : Str → Tree → Bool) (k : Str) :
    (attrs : List (Str × Tree)) → k ∉ attrs.map (·.1) → tlookup k (kwP keep attrs) = none
  | [], _ => rfl
  | (k0, v0) :: r, h => by
    simp only [List.map_cons, List.mem_cons, not_or] at h
    have ih := tlookup_kwP_none keep k r h.2
    rw [kwP_cons]
    split
    · have : Key.s k0 ≠ Key.s k := by
        intro e; injection e with e; exact h.1 e.symm
      simp only [tlookup, if_neg this, ih]
    · exact ih

theorem tlookup_kwP (keep : Str → Tree → Bool) (k : Str) (v : Tree) :
    (attrs : List (Str × Tree)) → (attrs.map (·.1)).Nodup → (k, v) ∈ attrs →
      tlookup k (kwP keep attrs) = if keep k v then some v else none
  | [], _, h => by cases h
  | (k0, v0) :: r, hn, h => by
    simp only [List.map_cons, List.nodup_cons] at hn
    rw [kwP_cons]
    rcases List.mem_cons.mp h with heq | hmem
    · injection heq with hk hv
      subst hk; subst hv
      have hnone := tlookup_kwP_none keep k r hn.1
      cases hk : keep k v <;> simp [tlookup, hnone]
    · have hne : k0 ≠ k := by
        intro e; subst e
        exact hn.1 (List.mem_map.mpr ⟨(k0, v), hmem, rfl⟩)
      have ih := tlookup_kwP keep k v r hn.2 hmem
      have : Key.s k0 ≠ Key.s k := by
        intro e; injection e with e; exact hne e
      split
      · simp only [tlookup, if_neg this, ih]
      · exact ih

theorem hasIntKey_kwP (keep : Str → Tree → Bool) (l : List (Str × Tree)) : hasIntKey (kwP keep l) = false :=
  hasIntKey_map _

theorem findField_mem : (fs : List Field) → (fieldNames fs).Nodup → (f : Field) → f ∈ fs →
    findField f.name fs = some f
  | [], _, _, h => by cases h
  | g :: fs, hn, f, h => by
    simp only [fieldNames, List.map_cons, List.nodup_cons] at hn
    rcases List.mem_cons.mp h with heq | hmem
    · subst heq; simp [findField]
    · have hne : g.name ≠ f.name := fun e => hn.1 (e ▸ List.mem_map.mpr ⟨f, hmem, rfl⟩)
      simp only [findField, if_neg hne]
      exact findField_mem fs hn.2 f hmem

def keepO (o : JOpts) (fs : List Field) (k : Str) (x : Tree) : Bool := !hiddenAttr o fs k x

/-- The value `bindFields` computes for one conforming attribute, whatever was hidden. -/
theorem bindOneO (o : JOpts) (fs : List Field) (A : List (Str × Tree)) (hA : (A.map (·.1)).Nodup)
    (f : Field) (v : Tree) (hmem : (f.name, v) ∈ A) (hfind : findField f.name fs = some f)
    (hok : attrOK f v = true) :
    fieldValue (kwP (keepO o fs) A) f = .ok v := by
  unfold fieldValue
  rw [tlookup_kwP (keepO o fs) f.name v A hA hmem]
  cases hkeep : keepO o fs f.name v with
  | true =>
    simp only [if_true]
    simp only [keepO, hiddenAttr, hfind, Bool.not_eq_true', Bool.or_eq_false_iff] at hkeep
    cases hf : f.frozen with
    | true =>
      unfold attrOK at hok
      simp only [hf, if_true] at hok
      cases hd : f.default with
      | none => simp [hd] at hok
      | some d =>
        simp only [hd, Bool.and_eq_true] at hok
        have e := Tree.beq_eq v d hok.1
        subst e
        unfold applyField
        simp only [hf, if_true, hd, hok.1]
    | false => exact applyField_ok f v hf hkeep.1 hok
  | false =>
    simp only [Bool.false_eq_true, if_false]
    simp only [keepO, hiddenAttr, hfind, Bool.not_eq_false', Bool.or_eq_true, Bool.and_eq_true] at hkeep
    unfold attrOK at hok
    rcases hkeep with hm | (hfz | hdf)
    · -- MISSING
      have hv : v = .leaf .missing := by
        cases v with
        | leaf a => cases a <;> simp_all [isMissing]
        | _ => simp [isMissing] at hm
      subst hv
      cases hf : f.frozen with
      | true =>
        simp only [hf, if_true] at hok
        cases hd : f.default with
        | none => simp [hd] at hok
        | some d => simp [hd, isMissing] at hok
      | false =>
        simp only [hf, Bool.false_eq_true, if_false, Option.isNone_iff_eq_none] at hok
        simp [hok]
    · -- frozen, hidden
      simp only [hfz.2, if_true] at hok
      cases hd : f.default with
      | none => simp [hd] at hok
      | some d =>
        simp only [hd, Bool.and_eq_true] at hok
        simp only
        rw [Tree.beq_eq v d hok.1]
    · -- equal to the default, hidden
      cases hd : f.default with
      | none => simp [hd] at hdf
      | some d =>
        simp only [hd] at hdf
        simp only
        rw [Tree.beq_eq v d hdf.2]

theorem bindFieldsO_ok (o : JOpts) (FS : List Field) (A : List (Str × Tree)) (hA : (A.map (·.1)).Nodup) :
    (fs : List Field) → (attrs : List (Str × Tree)) → attrsOK fs attrs = true →
      (∀ f ∈ fs, findField f.name FS = some f) → (∀ p ∈ attrs, p ∈ A) →
      bindFields (kwP (keepO o FS) A) fs = .ok attrs
  | [], [], _, _, _ => rfl
  | f :: fs, (k, v) :: r, h, hfz, hsub => by
    simp only [attrsOK, Bool.and_eq_true, beq_iff_eq] at h
    have hk : f.name = k := h.1.1
    subst hk
    have h1 := bindOneO o FS A hA f v (hsub _ (List.mem_cons_self ..)) (hfz f (List.mem_cons_self ..)) h.1.2
    have h2 := bindFieldsO_ok o FS A hA fs r h.2 (fun g hg => hfz g (List.mem_cons_of_mem _ hg))
      (fun p hp => hsub p (List.mem_cons_of_mem _ hp))
    simp only [bindFields, h1, h2]
  | [], _ :: _, h, _, _ | _ :: _, [], h, _, _ => by simp [attrsOK] at h

theorem requiredO_present (o : JOpts) (FS : List Field) (A : List (Str × Tree)) (hA : (A.map (·.1)).Nodup) :
    (fs : List Field) → (attrs : List (Str × Tree)) → attrsOK fs attrs = true →
      (∀ f ∈ fs, findField f.name FS = some f) → (∀ p ∈ attrs, p ∈ A) →
      NoMissingA attrs = true →
      fs.any (fun f => f.default.isNone && (tlookup f.name (kwP (keepO o FS) A)).isNone) = false
  | [], [], _, _, _, _ => rfl
  | f :: fs, (k, v) :: r, h, hfz, hsub, hnm => by
    simp only [attrsOK, Bool.and_eq_true, beq_iff_eq] at h
    simp only [NoMissingA, Bool.and_eq_true] at hnm
    have hk : f.name = k := h.1.1
    subst hk
    have ih := requiredO_present o FS A hA fs r h.2 (fun g hg => hfz g (List.mem_cons_of_mem _ hg))
      (fun p hp => hsub p (List.mem_cons_of_mem _ hp)) hnm.2
    simp only [List.any_cons, ih, Bool.or_false]
    rw [tlookup_kwP (keepO o FS) f.name v A hA (hsub _ (List.mem_cons_self ..))]
    have hm := isMissing_of_noMissing v hnm.1
    cases hd : f.default with
    | some d => simp
    | none =>
      have hok := h.1.2
      unfold attrOK at hok
      have hnf : f.frozen = false := by
        cases hf : f.frozen with
        | false => rfl
        | true => simp [hf, hd] at hok
      simp [keepO, hiddenAttr, hfz f (List.mem_cons_self ..), hm, hnf, hd]
  | [], _ :: _, h, _, _, _ | _ :: _, [], h, _, _, _ => by simp [attrsOK] at h

theorem constructO_ok (o : JOpts) (env : ClassEnv) (hwf : env.WF = true) (ap : Bool) (c : Str)
    (attrs : List (Str × Tree)) (hc : Conforms env (.obj c attrs) = true)
    (hm : ap = true ∨ NoMissingA attrs = true) :
    construct env ap c (kwP (keepO o (env.fieldsOf c)) attrs) = .ok (.obj c attrs) := by
  simp only [Conforms, Bool.and_eq_true] at hc
  cases hfind : env.find c with
  | none => simp [hfind] at hc
  | some fs =>
    simp only [hfind] at hc
    have hnd := fieldsNodup_names fs (find_wf env hwf c fs hfind)
    have hnames := attrsOK_names fs attrs hc.1
    have hA : (attrs.map (·.1)).Nodup := by rw [hnames]; exact hnd
    have hff : ∀ f ∈ fs, findField f.name fs = some f := fun f hf => findField_mem fs hnd f hf
    have hfo : env.fieldsOf c = fs := by simp [ClassEnv.fieldsOf, hfind]
    rw [hfo]
    unfold construct
    simp only [hfind]
    have h1 : hasIntKey (kwP (keepO o fs) attrs) = false := hasIntKey_kwP _ _
    have h2 : (kwP (keepO o fs) attrs).any (unknownKey fs) = false := by
      rw [List.any_eq_false]
      intro p hp
      unfold kwP at hp
      obtain ⟨q, hq, rfl⟩ := List.mem_map.mp hp
      have : q.1 ∈ fieldNames fs := by
        rw [← hnames]; exact List.mem_map.mpr ⟨q, (List.mem_filter.mp hq).1, rfl⟩
      simp [unknownKey, this]
    have h3 : (!ap && fs.any (fun f => f.default.isNone &&
        (tlookup f.name (kwP (keepO o fs) attrs)).isNone)) = false := by
      cases hm with
      | inl h => simp [h]
      | inr h =>
        rw [requiredO_present o fs attrs hA fs attrs hc.1 hff (fun p hp => hp) h]
        simp
    have h4 := bindFieldsO_ok o fs attrs hA fs attrs hc.1 hff (fun p hp => hp)
    simp only [h1, h2, h3, h4, Bool.false_eq_true, if_false]

/-! ### The mutual induction, with options -/

theorem jisTupleMarker_toJsonO (o : JOpts) (env : ClassEnv) (x : Tree) (xs : List Tree)
    (h : jisTupleMarker (toJsonO o env x) = true) : startsWithTupleMarker (x :: xs) = true := by
  cases x with
  | leaf a => cases a <;> simp_all [toJsonO, atomJ, jisTupleMarker, startsWithTupleMarker]
  | list ys => simp [toJsonO, jisTupleMarker] at h
  | tuple ys => simp [toJsonO, jisTupleMarker] at h
  | dict ys => simp [toJsonO, jisTupleMarker] at h
  | obj c ys => simp [toJsonO, jisTupleMarker] at h

theorem jlookup_toJsonOKV_none (o : JOpts) (env : ClassEnv) :
    (kvs : List (Key × Tree)) → EncodableKV false kvs = true →
      jlookup (.s typeKey) (toJsonOKV o env kvs) = none
  | [], _ => rfl
  | (k, x) :: r, h => by
    simp only [EncodableKV, Bool.and_eq_true] at h
    have hk : k ≠ .s typeKey := by
      intro hk
      have := h.1.1
      simp [hk, keyReserved] at this
    simp only [toJsonOKV, jlookup, if_neg hk]
    exact jlookup_toJsonOKV_none o env r h.2

mutual
  theorem rtO_tree (o : JOpts) (env : ClassEnv) (hwf : env.WF = true) (ap : Bool) :
      (t : Tree) → Conforms env t = true → Encodable false t = true →
        (ap = true ∨ NoMissing t = true) → fromJ env ap (toJsonO o env t) = .ok t
    | .leaf a, _, he, _ => by
      cases a <;> simp_all [toJsonO, atomJ, fromJ, Encodable]
    | .list [], _, _, _ => by simp [toJsonO, toJsonOL, fromJ]
    | .list (x :: xs), hc, he, hm => by
      simp only [Encodable, Bool.and_eq_true, Bool.not_eq_true'] at he
      simp only [Conforms] at hc
      have hm' : ap = true ∨ NoMissingL (x :: xs) = true := by
        cases hm with
        | inl h => exact .inl h
        | inr h => exact .inr (by simpa [NoMissing] using h)
      have hl := rtO_list o env hwf ap (x :: xs) hc he.2 hm'
      have hnm : jisTupleMarker (toJsonO o env x) = false := by
        cases hj : jisTupleMarker (toJsonO o env x) with
        | false => rfl
        | true =>
          have := jisTupleMarker_toJsonO o env x xs hj
          rw [this] at he; exact absurd he.1 (by simp)
      simp only [toJsonO, toJsonOL, fromJ, hnm] at hl ⊢
      simp [hl]
    | .tuple [], _, he, _ => by simp [Encodable] at he
    | .tuple (x :: xs), hc, he, hm => by
      simp only [Encodable, Bool.and_eq_true] at he
      simp only [Conforms] at hc
      have hm' : ap = true ∨ NoMissingL (x :: xs) = true := by
        cases hm with
        | inl h => exact .inl h
        | inr h => exact .inr (by simpa [NoMissing] using h)
      have hl := rtO_list o env hwf ap (x :: xs) hc he.2 hm'
      simp only [toJsonOL] at hl
      simp only [toJsonO, toJsonOL, fromJ, jisTupleMarker, beq_self_eq_true, if_true, hl]
    | .dict kvs, hc, he, hm => by
      simp only [Encodable] at he
      simp only [Conforms, Bool.and_eq_true] at hc
      have hm' : ap = true ∨ NoMissingKV kvs = true := by
        cases hm with
        | inl h => exact .inl h
        | inr h => exact .inr (by simpa [NoMissing] using h)
      have hl := rtO_kv o env hwf ap kvs hc.2 he hm'
      simp only [toJsonO, fromJ, jlookup_toJsonOKV_none o env kvs he, hl]
    | .obj c attrs, hc, he, hm => by
      simp only [Encodable] at he
      have hc' := hc
      simp only [Conforms, Bool.and_eq_true] at hc
      have hm' : ap = true ∨ NoMissingA attrs = true := by
        cases hm with
        | inl h => exact .inl h
        | inr h => exact .inr (by simpa [NoMissing] using h)
      have hl := rtO_attrs o env hwf ap (env.fieldsOf c) attrs hc.2 he hm'
      have hfilter : ∀ (l : List (Str × Tree)), EncodableA false l = true →
          (kwP (keepO o (env.fieldsOf c)) l).filter (fun p => p.1 != Key.s typeKey) =
            kwP (keepO o (env.fieldsOf c)) l := by
        intro l
        induction l with
        | nil => intro _; rfl
        | cons p r ih =>
          obtain ⟨k, x⟩ := p
          intro h
          simp only [EncodableA, Bool.and_eq_true, bne_iff_ne, ne_eq] at h
          rw [kwP_cons]
          split
          · have : (Key.s k != Key.s typeKey) = true := by
              simp only [bne_iff_ne, ne_eq, Key.s.injEq]; exact h.1.1.1
            simp only [List.filter, this]
            rw [ih h.2]
          · exact ih h.2
      simp only [toJsonO, fromJ, jlookup, if_true, fromJKV, hl]
      have : (Key.s typeKey != Key.s typeKey) = false := by simp
      simp only [List.filter, this, hfilter attrs he]
      exact constructO_ok o env hwf ap c attrs hc' hm'
  theorem rtO_list (o : JOpts) (env : ClassEnv) (hwf : env.WF = true) (ap : Bool) :
      (xs : List Tree) → ConformsL env xs = true → EncodableL false xs = true →
        (ap = true ∨ NoMissingL xs = true) → fromJL env ap (toJsonOL o env xs) = .ok xs
    | [], _, _, _ => rfl
    | x :: xs, hc, he, hm => by
      simp only [ConformsL, EncodableL, Bool.and_eq_true] at hc he
      have hm1 : ap = true ∨ NoMissing x = true := by
        cases hm with
        | inl h => exact .inl h
        | inr h => simp only [NoMissingL, Bool.and_eq_true] at h; exact .inr h.1
      have hm2 : ap = true ∨ NoMissingL xs = true := by
        cases hm with
        | inl h => exact .inl h
        | inr h => simp only [NoMissingL, Bool.and_eq_true] at h; exact .inr h.2
      simp only [toJsonOL, fromJL, rtO_tree o env hwf ap x hc.1 he.1 hm1, rtO_list o env hwf ap xs hc.2 he.2 hm2]
  theorem rtO_kv (o : JOpts) (env : ClassEnv) (hwf : env.WF = true) (ap : Bool) :
      (kvs : List (Key × Tree)) → ConformsKV env kvs = true → EncodableKV false kvs = true →
        (ap = true ∨ NoMissingKV kvs = true) → fromJKV env ap (toJsonOKV o env kvs) = .ok kvs
    | [], _, _, _ => rfl
    | (k, x) :: xs, hc, he, hm => by
      simp only [ConformsKV, EncodableKV, Bool.and_eq_true] at hc he
      have hm1 : ap = true ∨ NoMissing x = true := by
        cases hm with
        | inl h => exact .inl h
        | inr h => simp only [NoMissingKV, Bool.and_eq_true] at h; exact .inr h.1
      have hm2 : ap = true ∨ NoMissingKV xs = true := by
        cases hm with
        | inl h => exact .inl h
        | inr h => simp only [NoMissingKV, Bool.and_eq_true] at h; exact .inr h.2
      simp only [toJsonOKV, fromJKV, rtO_tree o env hwf ap x hc.1 he.1.2 hm1, rtO_kv o env hwf ap xs hc.2 he.2 hm2]
  theorem rtO_attrs (o : JOpts) (env : ClassEnv) (hwf : env.WF = true) (ap : Bool) (fs : List Field) :
      (attrs : List (Str × Tree)) → ConformsA env attrs = true → EncodableA false attrs = true →
        (ap = true ∨ NoMissingA attrs = true) →
        fromJKV env ap (toJsonOA o env fs attrs) = .ok (kwP (keepO o fs) attrs)
    | [], _, _, _ => rfl
    | (k, x) :: xs, hc, he, hm => by
      simp only [ConformsA, EncodableA, Bool.and_eq_true] at hc he
      have hm2 : ap = true ∨ NoMissingA xs = true := by
        cases hm with
        | inl h => exact .inl h
        | inr h => simp only [NoMissingA, Bool.and_eq_true] at h; exact .inr h.2
      have ih := rtO_attrs o env hwf ap fs xs hc.2 he.2 hm2
      rw [kwP_cons]
      simp only [toJsonOA, keepO]
      by_cases hh0 : hiddenAttr o fs k x = true
      · simp only [hh0, if_true, Bool.not_true, Bool.false_eq_true, if_false]; exact ih
      · have hh : hiddenAttr o fs k x = false := by simpa using hh0
        simp only [hh, Bool.false_eq_true, if_false, Bool.not_false, if_true]
        have hnm : isMissing x = false := by
          simp only [hiddenAttr, Bool.or_eq_false_iff] at hh; exact hh.1
        have hex : Encodable false x = true := by
          have := he.1.2; simp [hnm] at this; exact this
        have hm1 : ap = true ∨ NoMissing x = true := by
          cases hm with
          | inl h => exact .inl h
          | inr h => simp only [NoMissingA, Bool.and_eq_true] at h; exact .inr h.1
        simp only [fromJKV, rtO_tree o env hwf ap x hc.1 hex hm1, ih]
end

end Pg.C05

namespace Pg.C05

mutual
  theorem rsO_tree (o : JOpts) (env : ClassEnv) : (t : Tree) → Conforms env t = true →
      Encodable false t = true → resolveOk env (toJsonO o env t) = true
    | .leaf a, _, he => by cases a <;> simp_all [toJsonO, atomJ, resolveOk, Encodable]
    | .list xs, hc, he => by
      simp only [Encodable, Bool.and_eq_true] at he
      simp only [Conforms] at hc
      simp only [toJsonO, resolveOk, rsO_list o env xs hc he.2]
    | .tuple xs, hc, he => by
      simp only [Encodable, Bool.and_eq_true] at he
      simp only [Conforms] at hc
      simp only [toJsonO, resolveOk, resolveOkL, rsO_list o env xs hc he.2, Bool.and_self]
    | .dict kvs, hc, he => by
      simp only [Encodable] at he
      simp only [Conforms, Bool.and_eq_true] at hc
      simp only [toJsonO, resolveOk, jlookup_toJsonOKV_none o env kvs he, rsO_kv o env kvs hc.2 he]
    | .obj c attrs, hc, he => by
      simp only [Encodable] at he
      simp only [Conforms, Bool.and_eq_true] at hc
      have hf : (env.find c).isSome = true := by
        cases h : env.find c with
        | none => simp [h] at hc
        | some fs => rfl
      simp only [toJsonO, resolveOk, jlookup, if_true, resolveOkKV, hf, Bool.true_and,
        rsO_attrs o env (env.fieldsOf c) attrs hc.2 he]
  theorem rsO_list (o : JOpts) (env : ClassEnv) : (xs : List Tree) → ConformsL env xs = true →
      EncodableL false xs = true → resolveOkL env (toJsonOL o env xs) = true
    | [], _, _ => rfl
    | x :: xs, hc, he => by
      simp only [ConformsL, EncodableL, Bool.and_eq_true] at hc he
      simp only [toJsonOL, resolveOkL, rsO_tree o env x hc.1 he.1, rsO_list o env xs hc.2 he.2, Bool.and_self]
  theorem rsO_kv (o : JOpts) (env : ClassEnv) : (kvs : List (Key × Tree)) → ConformsKV env kvs = true →
      EncodableKV false kvs = true → resolveOkKV env (toJsonOKV o env kvs) = true
    | [], _, _ => rfl
    | (k, x) :: xs, hc, he => by
      simp only [ConformsKV, EncodableKV, Bool.and_eq_true] at hc he
      simp only [toJsonOKV, resolveOkKV, rsO_tree o env x hc.1 he.1.2, rsO_kv o env xs hc.2 he.2, Bool.and_self]
  theorem rsO_attrs (o : JOpts) (env : ClassEnv) (fs : List Field) : (attrs : List (Str × Tree)) →
      ConformsA env attrs = true → EncodableA false attrs = true →
      resolveOkKV env (toJsonOA o env fs attrs) = true
    | [], _, _ => rfl
    | (k, x) :: xs, hc, he => by
      simp only [ConformsA, EncodableA, Bool.and_eq_true] at hc he
      have ih := rsO_attrs o env fs xs hc.2 he.2
      simp only [toJsonOA]
      by_cases hh0 : hiddenAttr o fs k x = true
      · simp only [hh0, if_true]; exact ih
      · have hh : hiddenAttr o fs k x = false := by simpa using hh0
        have hnm : isMissing x = false := by
          simp only [hiddenAttr, Bool.or_eq_false_iff] at hh; exact hh.1
        have hex : Encodable false x = true := by
          have := he.1.2; simp [hnm] at this; exact this
        simp only [hh, Bool.false_eq_true, if_false, resolveOkKV, rsO_tree o env x hc.1 hex, ih, Bool.and_self]
end

end Pg.C05
