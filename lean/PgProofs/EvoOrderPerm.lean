/- C14 — the Order crossover of two permutations of the same items is again such a permutation. -/
import PgModel.EvoPerm
import Mathlib.Data.List.Perm.Basic
import Mathlib.Data.List.Nodup
namespace Pg.C14

theorem rotate_perm {α : Type} (l : List α) (n : Nat) : (rotate l n).Perm l := by
  unfold rotate
  exact (List.perm_append_comm).trans (by rw [List.take_append_drop])

/-- `Order.order_crossover`: for parents that are arrangements of the same distinct items and cut
points `start ≤ stop ≤ size`, each child is an arrangement of those items — so the reordering of the
sub-choices (`subdna_map[v] for v in child`) never misses a key and `from_dict` sees a distinct
multi-choice again. -/
theorem orderChild_perm (self other : List Nat) (hn : self.Nodup) (hp : other.Perm self)
    (start stop : Nat) (h1 : start ≤ stop) (h2 : stop ≤ self.length) :
    (orderChild self other start stop).Perm self := by
  have hlen : other.length = self.length := hp.length_eq
  have hon : other.Nodup := hp.nodup_iff.mpr hn
  unfold orderChild
  simp only []
  generalize hseg : (other.take stop).drop start = seg
  generalize hrot : rotate self (stop % self.length) = rot
  have hrotp : rot.Perm self := by rw [← hrot]; exact rotate_perm _ _
  have hrotn : rot.Nodup := hrotp.nodup_iff.mpr hn
  have hsegsub : seg.Sublist other := by
    rw [← hseg]; exact (List.drop_sublist _ _).trans (List.take_sublist _ _)
  have hsegn : seg.Nodup := hsegsub.nodup hon
  have hseglen : seg.length = stop - start := by
    rw [← hseg, List.length_drop, List.length_take]; omega
  have hsegmem : ∀ v ∈ seg, v ∈ rot := fun v hv => hrotp.mem_iff.mpr (hp.mem_iff.mp (hsegsub.subset hv))
  generalize hrest : rot.filter (fun v => !seg.contains v) = rest
  -- rest ++ seg is a rearrangement of self
  have hin : (rot.filter (fun v => seg.contains v)).Perm seg := by
    apply (List.perm_ext_iff_of_nodup (hrotn.filter _) hsegn).mpr
    intro v
    simp only [List.mem_filter, List.contains_iff_mem]
    exact ⟨fun h => h.2, fun h => ⟨hsegmem v h, h⟩⟩
  have hsplit : (rest ++ seg).Perm self := by
    have := List.filter_append_perm (fun v => seg.contains v) rot
    have h' : (rot.filter (fun v => !seg.contains v) ++ rot.filter (fun v => seg.contains v)).Perm rot :=
      List.perm_append_comm.trans (by simpa using this)
    rw [hrest] at h'
    exact ((List.Perm.append_left rest hin.symm).trans h').trans hrotp
  have hrestlen : rest.length = (self.length - stop) + start := by
    have := hsplit.length_eq
    rw [List.length_append, hseglen] at this
    omega
  have htake : (rest.drop (self.length - stop)).take start = rest.drop (self.length - stop) := by
    apply List.take_of_length_le
    rw [List.length_drop]; omega
  rw [htake]
  have : (rest.drop (self.length - stop) ++ seg ++ rest.take (self.length - stop)).Perm (rest ++ seg) := by
    have e : rest = rest.take (self.length - stop) ++ rest.drop (self.length - stop) :=
      (List.take_append_drop _ _).symm
    calc (rest.drop (self.length - stop) ++ seg ++ rest.take (self.length - stop)).Perm
          (rest.take (self.length - stop) ++ (rest.drop (self.length - stop) ++ seg)) := List.perm_append_comm
      _ = (rest.take (self.length - stop) ++ rest.drop (self.length - stop)) ++ seg := by rw [List.append_assoc]
      _ = rest ++ seg := by rw [← e]
  exact this.trans hsplit

end Pg.C14
