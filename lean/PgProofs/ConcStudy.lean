/- C16 — the bookkeeping invariant of one study and its preservation by the atomic regions. -/
import PgProofs.ConcLemmas
namespace Pg.C16

/-- Bookkeeping invariant of a study `st` and the algorithm `a` it feeds. -/
structure StudyInv (maxT : Option Nat) (st : Study) (a : Algo) : Prop where
  ids : st.trials.map (·.id) = List.range' 1 st.trials.length
  bound : ∀ m, maxT = some m → st.trials.length ≤ m
  cPending : st.numPending = ((st.trials.countP fun t => !t.completed : Nat) : Int)
  cCompleted : st.numCompleted = ((st.trials.countP fun t => t.completed : Nat) : Int)
  cInfeasible : st.numInfeasible = ((st.trials.countP fun t => t.infeasible : Nat) : Int)
  infCompleted : ∀ t ∈ st.trials, t.infeasible = true → t.completed = true
  finalSome : ∀ t ∈ st.trials, t.completed = true → ∃ r, t.final = some r
  latestSome : ∀ g k, st.latest g = some k → ∃ t ∈ st.trials, t.id = k ∧ t.group = g
  pendingLatest : ∀ t ∈ st.trials, t.completed = false → st.latest t.group = some t.id
  fed : ∀ k, a.fedBack.count k = st.trials.countP (fedPred k)
  nFeedbacks : a.numFeedbacks = a.fedBack.length
  nProposals : a.numProposals = st.trials.length
  bestOk : ∀ b, st.best = some b → ∃ t ∈ st.trials, t.id = b ∧ t.completed = true ∧ t.infeasible = false ∧
    ∀ t' ∈ st.trials, t'.completed = true → t'.infeasible = false →
      ∀ r' r, t'.final = some r' → t.final = some r → r' ≤ r
  bestNone : st.best = none → ∀ t ∈ st.trials, t.completed = true → t.infeasible = true
  spaceBound : ∀ sp, a.space = some sp → a.numProposals ≤ sp

theorem StudyInv.nodup {m st a} (h : StudyInv m st a) : (st.trials.map (·.id)).Nodup := ids_nodup h.ids

theorem eq_of_id_eq {l : List Trial} (hn : (l.map (·.id)).Nodup) {x y : Trial} (hx : x ∈ l) (hy : y ∈ l)
    (h : x.id = y.id) : x = y := by
  have h1 := findTrial_of_mem hn hx
  have h2 := findTrial_of_mem hn hy
  rw [h] at h1
  rw [h1] at h2
  exact Option.some.inj h2

theorem isPending_of_mem {l : List Trial} (hn : (l.map (·.id)).Nodup) {t : Trial} (ht : t ∈ l) (st : Study)
    (hst : st.trials = l) : st.isPending t.id = !t.completed := by
  unfold Study.isPending
  rw [hst, findTrial_of_mem hn ht]

theorem isPending_elim {st : Study} {k : Nat} (h : st.isPending k = true) :
    ∃ t ∈ st.trials, t.id = k ∧ t.completed = false := by
  unfold Study.isPending at h
  cases hf : findTrial k st.trials with
  | none => rw [hf] at h; cases h
  | some t =>
    rw [hf] at h
    obtain ⟨hm, hid⟩ := findTrial_some hf
    exact ⟨t, hm, hid, by simpa using h⟩

/-! ### create_trial -/

theorem StudyInv.create {m st a} (h : StudyInv m st a) (g : Nat) (hex : exhausted m st = false)
    (hnx : a.spaceExhausted = false)
    (hlat : ∀ k, st.latest g = some k → st.isPending k = false) :
    StudyInv m (st.create g) a.propose := by
  have hn := h.nodup
  have notPendingOfGroup : ∀ t ∈ st.trials, t.completed = false → t.group ≠ g := by
    intro t ht hp hg
    have h1 := h.pendingLatest t ht hp
    rw [hg] at h1
    have h2 := hlat _ h1
    rw [isPending_of_mem hn ht st rfl, hp] at h2
    cases h2
  constructor
  · exact ids_append h.ids g
  · intro mm hm
    simp only [exhausted, hm] at hex
    simp only [Study.create, List.length_append, List.length_cons, List.length_nil]
    simpa using hex
  · simp only [Study.create, List.countP_append, h.cPending, newTrial]
    simp
  · simp only [Study.create, List.countP_append, h.cCompleted, newTrial]
    simp
  · simp only [Study.create, List.countP_append, h.cInfeasible, newTrial]
    simp
  · intro t ht hi
    simp only [Study.create, List.mem_append, List.mem_singleton] at ht
    rcases ht with ht | rfl
    · exact h.infCompleted t ht hi
    · simp [newTrial] at hi
  · intro t ht hc
    simp only [Study.create, List.mem_append, List.mem_singleton] at ht
    rcases ht with ht | rfl
    · exact h.finalSome t ht hc
    · simp [newTrial] at hc
  · intro g' k hk
    simp only [Study.create] at hk ⊢
    by_cases hg : g' = g
    · subst hg
      simp only [if_true, Option.some.injEq] at hk
      exact ⟨newTrial (st.trials.length + 1) g', by simp, by simp [newTrial, hk], by simp [newTrial]⟩
    · simp only [hg, if_false] at hk
      obtain ⟨t, ht, h1, h2⟩ := h.latestSome g' k hk
      exact ⟨t, by simp [ht], h1, h2⟩
  · intro t ht hp
    simp only [Study.create, List.mem_append, List.mem_singleton] at ht ⊢
    rcases ht with ht | rfl
    · have hne := notPendingOfGroup t ht hp
      simp only [hne, if_false]
      exact h.pendingLatest t ht hp
    · simp [newTrial]
  · intro k
    simp only [Study.create, Algo.propose, List.countP_append, h.fed k]
    simp [fedPred, newTrial]
  · simp only [Algo.propose]; exact h.nFeedbacks
  · simp only [Algo.propose, Study.create, List.length_append, List.length_cons, List.length_nil, h.nProposals]
  · intro b hb
    simp only [Study.create] at hb ⊢
    obtain ⟨t, ht, h1, h2, h3, h4⟩ := h.bestOk b hb
    refine ⟨t, by simp [ht], h1, h2, h3, ?_⟩
    intro t' ht' hc' hi'
    simp only [List.mem_append, List.mem_singleton] at ht'
    rcases ht' with ht' | rfl
    · exact h4 t' ht' hc' hi'
    · simp [newTrial] at hc'
  · intro hb t ht hc
    simp only [Study.create, List.mem_append, List.mem_singleton] at hb ht
    rcases ht with ht | rfl
    · exact h.bestNone hb t ht hc
    · simp [newTrial] at hc
  · intro sp hsp
    simp only [Algo.propose] at hsp ⊢
    have := h.spaceBound sp hsp
    simp only [Algo.spaceExhausted, hsp, decide_eq_false_iff_not] at hnx
    omega

/-! ### updates that keep id, group, status, infeasible and final (e.g. adding a measurement) -/

theorem StudyInv.updCore {m st a} (h : StudyInv m st a) (k : Nat) (f : Trial → Trial)
    (hid : ∀ x, (f x).id = x.id) (hg : ∀ x, (f x).group = x.group)
    (hc : ∀ x, (f x).completed = x.completed) (hi : ∀ x, (f x).infeasible = x.infeasible)
    (hf : ∀ x, (f x).final = x.final) :
    StudyInv m { st with trials := updTrial k f st.trials } a := by
  have core : ∀ x ∈ updTrial k f st.trials, ∃ y ∈ st.trials, x.id = y.id ∧ x.group = y.group ∧
      x.completed = y.completed ∧ x.infeasible = y.infeasible ∧ x.final = y.final := by
    intro x hx
    obtain ⟨y, hy, rfl⟩ := mem_updTrial hx
    refine ⟨y, hy, ?_⟩
    by_cases hk : y.id = k <;> simp [hk, hid, hg, hc, hi, hf]
  have core' : ∀ y ∈ st.trials, ∃ x ∈ updTrial k f st.trials, x.id = y.id ∧ x.group = y.group ∧
      x.completed = y.completed ∧ x.infeasible = y.infeasible ∧ x.final = y.final := by
    intro y hy
    refine ⟨_, mem_updTrial_of_mem hy, ?_⟩
    by_cases hk : y.id = k <;> simp [hk, hid, hg, hc, hi, hf]
  constructor
  · simp only [updTrial_map_id k f hid, updTrial_length]; exact h.ids
  · simp only [updTrial_length]; exact h.bound
  · simp only []
    rw [countP_updTrial_same _ k f (by intro t; simp [hc])]; exact h.cPending
  · simp only []
    rw [countP_updTrial_same _ k f (by intro t; simp [hc])]; exact h.cCompleted
  · simp only []
    rw [countP_updTrial_same _ k f (by intro t; simp [hi])]; exact h.cInfeasible
  · intro x hx hxi
    obtain ⟨y, hy, -, -, e3, e4, -⟩ := core x hx
    rw [e3]; exact h.infCompleted y hy (e4 ▸ hxi)
  · intro x hx hxc
    obtain ⟨y, hy, -, -, e3, -, e5⟩ := core x hx
    rw [e5]; exact h.finalSome y hy (e3 ▸ hxc)
  · intro g k' hk'
    obtain ⟨y, hy, h1, h2⟩ := h.latestSome g k' hk'
    obtain ⟨x, hx, e1, e2, -⟩ := core' y hy
    exact ⟨x, hx, e1 ▸ h1, e2 ▸ h2⟩
  · intro x hx hxc
    obtain ⟨y, hy, e1, e2, e3, -⟩ := core x hx
    simp only []
    rw [e1, e2]; exact h.pendingLatest y hy (e3 ▸ hxc)
  · intro k'
    simp only []
    rw [countP_updTrial_same _ k f (by intro t; simp [fedPred, hc, hi, hid])]; exact h.fed k'
  · exact h.nFeedbacks
  · simp only [updTrial_length]; exact h.nProposals
  · intro b hb
    obtain ⟨t, ht, h1, h2, h3, h4⟩ := h.bestOk b hb
    obtain ⟨x, hx, e1, -, e3, e4, e5⟩ := core' t ht
    refine ⟨x, hx, e1 ▸ h1, e3 ▸ h2, e4 ▸ h3, ?_⟩
    intro x' hx' hc' hi' r' r hr' hr
    obtain ⟨y', hy', -, -, f3, f4, f5⟩ := core x' hx'
    exact h4 y' hy' (f3 ▸ hc') (f4 ▸ hi') r' r (f5 ▸ hr') (e5 ▸ hr)
  · intro hb x hx hxc
    obtain ⟨y, hy, -, -, e3, e4, -⟩ := core x hx
    rw [e4]; exact h.bestNone hb y hy (e3 ▸ hxc)
  · exact h.spaceBound

/-! ### done / skip: the status transition of a pending trial followed by `_complete_trial` -/

theorem complete_trials (st : Study) (k : Nat) : (st.complete k).trials = st.trials := by
  unfold Study.complete
  cases findTrial k st.trials with
  | none => rfl
  | some t =>
    simp only []
    split
    · rfl
    · split <;> rfl

theorem complete_latest (st : Study) (k : Nat) : (st.complete k).latest = st.latest := by
  unfold Study.complete
  cases findTrial k st.trials with
  | none => rfl
  | some t =>
    simp only []
    split
    · rfl
    · split <;> rfl

theorem complete_active (st : Study) (k : Nat) : (st.complete k).active = st.active := by
  unfold Study.complete
  cases findTrial k st.trials with
  | none => rfl
  | some t =>
    simp only []
    split
    · rfl
    · split <;> rfl

/-- A pending trial `t` is turned into a completed one by `f` (done: feasible, final = last
measurement; skip: infeasible, final = 0), then `_complete_trial` runs; the algorithm gets the
feedback iff the trial is feasible. -/
theorem StudyInv.finish {m st a} (h : StudyInv m st a) {t : Trial} (ht : t ∈ st.trials)
    (hp : t.completed = false) (f : Trial → Trial)
    (hid : ∀ x, (f x).id = x.id) (hg : ∀ x, (f x).group = x.group)
    (hc : (f t).completed = true) (r : Int) (hfin : (f t).final = some r) :
    StudyInv m (({ st with trials := updTrial t.id f st.trials } : Study).complete t.id)
      (if (f t).infeasible then a else a.feedback t.id) := by
  have hn := h.nodup
  have hti : t.infeasible = false := by
    cases hi : t.infeasible with
    | false => rfl
    | true => have := h.infCompleted t ht hi; rw [hp] at this; cases this
  -- shape of the updated list
  have hfind : findTrial t.id (updTrial t.id f st.trials) = some (f t) := findTrial_updTrial hn ht f hid
  have memU : ∀ x ∈ updTrial t.id f st.trials, x = f t ∨ (x ∈ st.trials ∧ x.id ≠ t.id) := by
    intro x hx
    obtain ⟨y, hy, rfl⟩ := mem_updTrial hx
    by_cases hk : y.id = t.id
    · left; simp only [hk, if_true]; rw [eq_of_id_eq hn hy ht hk]
    · right; simp only [hk, if_false]; exact ⟨hy, hk⟩
  have memFt : f t ∈ updTrial t.id f st.trials := by
    have := mem_updTrial_of_mem (k := t.id) (f := f) ht
    simpa using this
  have memOld : ∀ y ∈ st.trials, y.id ≠ t.id → y ∈ updTrial t.id f st.trials := by
    intro y hy hk
    have := mem_updTrial_of_mem (k := t.id) (f := f) hy
    simpa [hk] using this
  have hnU : ((updTrial t.id f st.trials).map (·.id)).Nodup := by rw [updTrial_map_id _ _ hid]; exact hn
  have cnt := fun p => countP_updTrial p t.id f st.trials hn t ht rfl
  -- the result of _complete_trial
  unfold Study.complete
  simp only [hfind]
  have cP : ((List.countP (fun t => !t.completed) (updTrial t.id f st.trials) : Nat) : Int)
      = st.numPending - 1 := by
    have := cnt (fun t => !t.completed)
    simp only [hp, hc, Bool.not_false, Bool.not_true, if_true] at this
    rw [h.cPending]; simp at this; omega
  have cC : ((List.countP (fun t => t.completed) (updTrial t.id f st.trials) : Nat) : Int)
      = st.numCompleted + 1 := by
    have := cnt (fun t => t.completed)
    simp only [hp, hc] at this
    rw [h.cCompleted]; simp at this; omega
  have cI : ((List.countP (fun t => t.infeasible) (updTrial t.id f st.trials) : Nat) : Int)
      = st.numInfeasible + (if (f t).infeasible then 1 else 0) := by
    have := cnt (fun t => t.infeasible)
    simp only [hti] at this
    rw [h.cInfeasible]
    cases hfi : (f t).infeasible <;> simp [hfi] at this ⊢ <;> omega
  have fedU : ∀ k, List.countP (fedPred k) (updTrial t.id f st.trials)
      = List.countP (fedPred k) st.trials + (if (f t).infeasible then 0 else if t.id = k then 1 else 0) := by
    intro k
    have := cnt (fedPred k)
    simp only [fedPred, hp, hc, hid, Bool.false_and, Bool.true_and] at this
    cases hfi : (f t).infeasible <;> simp [hfi] at this ⊢
    · by_cases hk : t.id = k <;> simp [hk] at this ⊢ <;> omega
    · omega
  -- common parts
  have common_inf : ∀ x ∈ updTrial t.id f st.trials, x.infeasible = true → x.completed = true := by
    intro x hx hxi
    rcases memU x hx with rfl | ⟨hy, -⟩
    · exact hc
    · exact h.infCompleted x hy hxi
  have common_fin : ∀ x ∈ updTrial t.id f st.trials, x.completed = true → ∃ r, x.final = some r := by
    intro x hx hxc
    rcases memU x hx with rfl | ⟨hy, -⟩
    · exact ⟨r, hfin⟩
    · exact h.finalSome x hy hxc
  have common_lat : ∀ g k, st.latest g = some k → ∃ x ∈ updTrial t.id f st.trials, x.id = k ∧ x.group = g := by
    intro g k hk
    obtain ⟨y, hy, h1, h2⟩ := h.latestSome g k hk
    by_cases hyk : y.id = t.id
    · have := eq_of_id_eq hn hy ht hyk; subst this
      exact ⟨f y, memFt, by rw [hid]; exact h1, by rw [hg]; exact h2⟩
    · exact ⟨y, memOld y hy hyk, h1, h2⟩
  have common_pl : ∀ x ∈ updTrial t.id f st.trials, x.completed = false → st.latest x.group = some x.id := by
    intro x hx hxc
    rcases memU x hx with rfl | ⟨hy, -⟩
    · rw [hc] at hxc; cases hxc
    · exact h.pendingLatest x hy hxc
  cases hfi : (f t).infeasible with
  | true =>
    simp only [if_true]
    constructor
    · simp only [updTrial_map_id _ _ hid, updTrial_length]; exact h.ids
    · simp only [updTrial_length]; exact h.bound
    · simp only []; rw [cP]
    · simp only []; rw [cC]
    · simp only []; rw [cI, hfi]; simp
    · exact common_inf
    · exact common_fin
    · exact common_lat
    · exact common_pl
    · intro k; simp only []; rw [fedU k, hfi]; simp [h.fed k]
    · exact h.nFeedbacks
    · simp only [updTrial_length]; exact h.nProposals
    · intro b hb
      simp only [] at hb
      obtain ⟨tb, htb, h1, h2, h3, h4⟩ := h.bestOk b hb
      have hne : tb.id ≠ t.id := by
        intro he; have := eq_of_id_eq hn htb ht he; subst this; rw [hp] at h2; cases h2
      refine ⟨tb, memOld tb htb hne, h1, h2, h3, ?_⟩
      intro x hx hxc hxi
      rcases memU x hx with rfl | ⟨hy, -⟩
      · rw [hfi] at hxi; cases hxi
      · exact h4 x hy hxc hxi
    · intro hb x hx hxc
      simp only [] at hb
      rcases memU x hx with rfl | ⟨hy, -⟩
      · exact hfi
      · exact h.bestNone hb x hy hxc
    · exact h.spaceBound
  | false =>
    simp only [Bool.false_eq_true, if_false]
    -- facts about `better`
    have bestCase : ∀ best', (best' = some t.id ∨ best' = st.best) →
        (best' = some t.id → ∀ b, st.best = some b → ∀ tb ∈ st.trials, tb.id = b → ∀ rb, tb.final = some rb → rb < r) →
        (best' = st.best → ∃ b, st.best = some b ∧ ∀ tb ∈ st.trials, tb.id = b → ∀ rb, tb.final = some rb → r ≤ rb) →
        StudyInv m { trials := updTrial t.id f st.trials, numPending := st.numPending - 1,
                     numCompleted := st.numCompleted + 1, numInfeasible := st.numInfeasible, best := best',
                     latest := st.latest, active := st.active } (a.feedback t.id) := by
      intro best' hcase hnew hold
      constructor
      · simp only [updTrial_map_id _ _ hid, updTrial_length]; exact h.ids
      · simp only [updTrial_length]; exact h.bound
      · simp only []; rw [cP]
      · simp only []; rw [cC]
      · simp only []; rw [cI, hfi]; simp
      · exact common_inf
      · exact common_fin
      · exact common_lat
      · exact common_pl
      · intro k
        simp only [Algo.feedback, List.count_append, fedU k, hfi, h.fed k]
        by_cases hk : t.id = k <;> simp [hk]
      · simp only [Algo.feedback, List.length_append, List.length_cons, List.length_nil, h.nFeedbacks]
      · simp only [Algo.feedback, updTrial_length]; exact h.nProposals
      · intro b hb
        simp only [] at hb
        by_cases hbt : best' = some t.id
        · rw [hbt] at hb
          have hbe : t.id = b := Option.some.inj hb
          refine ⟨f t, memFt, by rw [hid]; exact hbe, hc, hfi, ?_⟩
          intro x hx hxc hxi r' r0 hr' hr0
          rw [hfin] at hr0
          have hr0' : r = r0 := Option.some.inj hr0
          subst hr0'
          rcases memU x hx with rfl | ⟨hy, -⟩
          · rw [hfin] at hr'; have := Option.some.inj hr'; omega
          · cases hsb : st.best with
            | none => have := h.bestNone hsb x hy hxc; rw [hxi] at this; cases this
            | some b0 =>
              obtain ⟨tb, htb, h1, h2, h3, h4⟩ := h.bestOk b0 hsb
              obtain ⟨rb, hrb⟩ := h.finalSome tb htb h2
              have h5 := h4 x hy hxc hxi r' rb hr' hrb
              have h6 := hnew hbt b0 hsb tb htb h1 rb hrb
              omega
        · have hbs : best' = st.best := by rcases hcase with h1 | h1; exact absurd h1 hbt; exact h1
          rw [hbs] at hb
          obtain ⟨tb, htb, h1, h2, h3, h4⟩ := h.bestOk b hb
          have hne : tb.id ≠ t.id := by
            intro he; have := eq_of_id_eq hn htb ht he; subst this; rw [hp] at h2; cases h2
          refine ⟨tb, memOld tb htb hne, h1, h2, h3, ?_⟩
          intro x hx hxc hxi r' r0 hr' hr0
          rcases memU x hx with rfl | ⟨hy, -⟩
          · rw [hfin] at hr'
            have hr'' : r = r' := Option.some.inj hr'
            subst hr''
            obtain ⟨b0, hb0, hle⟩ := hold hbs
            rw [hb] at hb0
            have : b = b0 := Option.some.inj hb0
            subst this
            exact hle tb htb h1 r0 hr0
          · exact h4 x hy hxc hxi r' r0 hr' hr0
      · intro hb x hx hxc
        simp only [] at hb
        rcases hcase with h1 | h1
        · rw [h1] at hb; cases hb
        · rcases memU x hx with rfl | ⟨hy, -⟩
          · obtain ⟨b0, hb0, -⟩ := hold h1
            rw [h1, hb0] at hb; cases hb
          · rw [h1] at hb; exact h.bestNone hb x hy hxc
      · intro sp hsp; exact h.spaceBound sp hsp
    -- now the two outcomes of `better`
    cases hbt : Study.better { st with trials := updTrial t.id f st.trials, numCompleted := st.numCompleted + 1,
                                       numPending := st.numPending - 1 } (f t) with
    | true =>
      simp only [if_true]
      refine bestCase (some t.id) (Or.inl rfl) ?_ ?_
      · intro _ b hb tb htb hbid rb hrb
        unfold Study.better at hbt
        simp only [hb] at hbt
        have hne : tb.id ≠ t.id := by
          obtain ⟨tb', htb', h1, h2, -⟩ := h.bestOk b hb
          have := eq_of_id_eq hn htb htb' (by rw [hbid, h1]); subst this
          intro he; have := eq_of_id_eq hn htb ht he; subst this; rw [hp] at h2; cases h2
        have hf2 : findTrial b (updTrial t.id f st.trials) = some tb := by
          rw [← hbid]; exact findTrial_of_mem hnU (memOld tb htb hne)
        simp only [Study.rewardOf, hf2, Option.bind_some, hrb, hfin] at hbt
        simpa using hbt
      · intro he
        exfalso
        cases hsb : st.best with
        | none => rw [hsb] at he; cases he
        | some b =>
          rw [hsb] at he
          have hbe : t.id = b := Option.some.inj he
          obtain ⟨tb, htb, h1, h2, -⟩ := h.bestOk b hsb
          have := eq_of_id_eq hn htb ht (by rw [h1, hbe]); subst this
          rw [hp] at h2; cases h2
    | false =>
      simp only [Bool.false_eq_true, if_false]
      refine bestCase st.best (Or.inr rfl) ?_ ?_
      · intro he b hb
        exfalso
        rw [hb] at he
        have hbe : b = t.id := Option.some.inj he
        obtain ⟨tb, htb, h1, h2, -⟩ := h.bestOk b hb
        have := eq_of_id_eq hn htb ht (by rw [h1, hbe]); subst this
        rw [hp] at h2; cases h2
      · intro _
        unfold Study.better at hbt
        cases hsb : st.best with
        | none => simp only [hsb] at hbt; cases hbt
        | some b =>
          refine ⟨b, rfl, ?_⟩
          intro tb htb hbid rb hrb
          simp only [hsb] at hbt
          have hne : tb.id ≠ t.id := by
            obtain ⟨tb', htb', h1, h2, -⟩ := h.bestOk b hsb
            have := eq_of_id_eq hn htb htb' (by rw [hbid, h1]); subst this
            intro he; have := eq_of_id_eq hn htb ht he; subst this; rw [hp] at h2; cases h2
          have hf2 : findTrial b (updTrial t.id f st.trials) = some tb := by
            rw [← hbid]; exact findTrial_of_mem hnU (memOld tb htb hne)
          simp only [Study.rewardOf, hf2, Option.bind_some, hrb, hfin] at hbt
          have : ¬ rb < r := by simpa using hbt
          omega

end Pg.C16
