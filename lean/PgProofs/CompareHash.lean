/-
  C06 helper lemmas, part 5: reflexivity of `eq`; `eq` values have congruent hash terms.
-/
import PgProofs.CompareLaws
namespace Pg.C06

variable {env : Env}

theorem eqList_refl_tuple (num : Bool) (xs : List Val) (h : xs.all (tupleElemOk num) = true) :
    eqList xs xs = true := by
  induction xs with
  | nil => rfl
  | cons x xs ih =>
    simp only [List.all_cons, Bool.and_eq_true] at h
    have hx : eq x x = true := by
      cases x with
      | atom a => simp [eq, atomEq_refl]
      | _ => simp [tupleElemOk] at h
    simp [eqList, hx, ih h.2]

mutual
  theorem eq_refl (ok : EnvOk env) (num : Bool) (x : Val) (hx : comparable env num x = true) :
      eq x x = true := by
    cases x with
    | atom a => simp [eq, atomEq_refl]
    | list s xs => simp only [comparable] at hx; simp only [eq]; exact eqList_refl ok num xs hx
    | tuple xs => simp only [comparable] at hx; simp only [eq]; exact eqList_refl_tuple num xs hx
    | dict s xs =>
      simp only [comparable, Bool.and_eq_true] at hx
      rw [eq_dict]; exact eqD_refl ok num none xs hx.1 hx.2
    | obj c xs =>
      simp only [comparable, Bool.and_eq_true] at hx
      rw [eq_obj, eqD_refl ok num (objSh env c) xs hx.1 hx.2]; simp
  theorem eqList_refl (ok : EnvOk env) (num : Bool) (xs : List Val)
      (hx : comparableList env num xs = true) : eqList xs xs = true := by
    cases xs with
    | nil => rfl
    | cons x xs =>
      simp only [comparableList, Bool.and_eq_true] at hx
      simp [eqList, eq_refl ok num x hx.1, eqList_refl ok num xs hx.2]
  theorem eqD_refl (ok : EnvOk env) (num : Bool) (sh : Option (List Atom)) (xs : List (Atom × Val))
      (ax : keysOk env sh xs = true) (hx : comparableItems env num xs = true) : eqD xs xs = true := by
    cases xs with
    | nil => exact eqD_nil
    | cons p xs =>
      obtain ⟨k, v⟩ := p
      simp only [comparableItems, Bool.and_eq_true] at hx
      rw [eqD_cons_eq ok ax ax (atomEq_refl k), eq_refl ok num v hx.1,
        eqD_refl ok num (shTail sh) xs (keysOk_tail ax) hx.2]
      rfl
end

/-! ### Hash congruence -/

/-- The two laws assumed of Python's `hash`: `==` atoms hash equal; the hash of a `frozenset` does
not depend on the order in which its items are listed (`frozenset([a, b]) == frozenset([b, a])`).
The second law is used only to pass from a dict to the dict with sorted keys (`hash_canon`). -/
structure HashOk (H : PyHash) : Prop where
  atom_congr : ∀ a b : Atom, atomEq a b = true → H.atom a = H.atom b
  fset_perm : ∀ l l' : List Int, l.Perm l' → H.fset l = H.fset l'

theorem evalHashList_reh (H : PyHash) (ts : List HTerm) :
    evalHashList H (ts.map .reh) = (evalHashList H ts).map H.int := by
  induction ts with
  | nil => rfl
  | cons t ts ih => simp [evalHashList, evalHash, ih]

theorem evalHashList_map (H : PyHash) (f : HTerm → HTerm) (g : Int → Int)
    (hf : ∀ t, evalHash H (f t) = g (evalHash H t)) (ts : List HTerm) :
    evalHashList H (ts.map f) = (evalHashList H ts).map g := by
  induction ts with
  | nil => rfl
  | cons t ts ih => simp [evalHashList, hf, ih]

theorem isMissing_congr {v w : Val} (h : eq v w = true) : isMissing v = isMissing w := by
  cases v <;> cases w <;> simp [eq] at h <;> try rfl
  rename_i a b
  cases a <;> cases b <;> simp [atomEq] at h <;> rfl

theorem hash_tuple {H : PyHash} (hH : HashOk H) (num : Bool) (xs : List Val) : ∀ (ys : List Val) (txs tys : List HTerm),
    xs.all (tupleElemOk num) = true → ys.all (tupleElemOk num) = true → eqList xs ys = true →
    hashList xs = .ok txs → hashList ys = .ok tys → evalHashList H txs = evalHashList H tys := by
  induction xs with
  | nil =>
    intro ys txs tys _ _ he h1 h2
    cases ys with
    | nil => simp [hashList] at h1 h2; subst h1; subst h2; rfl
    | cons y ys => simp [eqList] at he
  | cons x xs ih =>
    intro ys txs tys hx hy he h1 h2
    cases ys with
    | nil => simp [eqList] at he
    | cons y ys =>
      simp only [List.all_cons, Bool.and_eq_true] at hx hy
      simp only [eqList, Bool.and_eq_true] at he
      cases x with
      | atom a => cases y with
        | atom b =>
          simp only [hashList, hashTerm] at h1 h2
          cases hxs : hashList xs with
          | error e => simp [hxs] at h1
          | ok t1 => cases hys : hashList ys with
            | error e => simp [hys] at h2
            | ok t2 =>
              simp [hxs] at h1; simp [hys] at h2
              subst h1; subst h2
              simp only [evalHashList, evalHash]
              rw [ih ys t1 t2 hx.2 hy.2 he.2 hxs hys, hH.atom_congr a b (by simpa [eq] using he.1)]
        | _ => simp [tupleElemOk] at hy
      | _ => simp [tupleElemOk] at hx

mutual
  theorem hash_congr (ok : EnvOk env) {H : PyHash} (hH : HashOk H) (num : Bool) (x : Val) :
      ∀ (y : Val) (tx ty : HTerm), comparable env num x = true → comparable env num y = true →
      eq x y = true → hashTerm x = .ok tx → hashTerm y = .ok ty → evalHash H tx = evalHash H ty := by
    intro y tx ty hx hy he h1 h2
    cases x with
    | atom a =>
      cases y with
      | atom b =>
        simp only [hashTerm, Except.ok.injEq] at h1 h2; subst h1; subst h2
        simp only [evalHash]; exact hH.atom_congr a b (by simpa [eq] using he)
      | _ => simp [eq] at he
    | list s xs =>
      cases y with
      | list t ys =>
        simp only [hashTerm] at h1 h2
        cases hxs : hashList xs with
        | error e => simp [hxs] at h1
        | ok t1 => cases hys : hashList ys with
          | error e => simp [hys] at h2
          | ok t2 =>
            simp [hxs] at h1; simp [hys] at h2; subst h1; subst h2
            simp only [comparable] at hx hy
            simp only [eq] at he
            have e := hashList_congr ok hH num xs ys t1 t2 hx hy he hxs hys
            simp only [evalHash, evalHashList]
            rw [evalHashList_map H (HTerm.reh ∘ HTerm.reh) (H.int ∘ H.int) (fun t => rfl),
              evalHashList_map H (HTerm.reh ∘ HTerm.reh) (H.int ∘ H.int) (fun t => rfl), e]
      | _ => simp [eq] at he
    | tuple xs =>
      cases y with
      | tuple ys =>
        simp only [hashTerm] at h1 h2
        cases hxs : hashList xs with
        | error e => simp [hxs] at h1
        | ok t1 => cases hys : hashList ys with
          | error e => simp [hys] at h2
          | ok t2 =>
            simp [hxs] at h1; simp [hys] at h2; subst h1; subst h2
            simp only [comparable] at hx hy
            simp only [eq] at he
            have e := hash_tuple hH num xs ys t1 t2 hx hy he hxs hys
            simp only [evalHash]
            rw [evalHashList_reh, evalHashList_reh, e]
      | _ => simp [eq] at he
    | dict s xs =>
      cases y with
      | dict t ys =>
        simp only [hashTerm] at h1 h2
        cases hxs : hashItems xs with
        | error e => simp [hxs] at h1
        | ok t1 => cases hys : hashItems ys with
          | error e => simp [hys] at h2
          | ok t2 =>
            simp [hxs] at h1; simp [hys] at h2; subst h1; subst h2
            simp only [comparable, Bool.and_eq_true] at hx hy
            rw [eq_dict] at he
            simp only [evalHash, evalHashList,
              hashItems_congr ok hH num none xs ys t1 t2 hx.1 hx.2 hy.1 hy.2 he hxs hys]
      | _ => simp [eq] at he
    | obj c xs =>
      cases y with
      | obj d ys =>
        simp only [hashTerm] at h1 h2
        cases hxs : hashItems xs with
        | error e => simp [hxs] at h1
        | ok t1 => cases hys : hashItems ys with
          | error e => simp [hys] at h2
          | ok t2 =>
            simp [hxs] at h1; simp [hys] at h2; subst h1; subst h2
            simp only [comparable, Bool.and_eq_true] at hx hy
            rw [eq_obj] at he
            simp only [Bool.and_eq_true, beq_iff_eq] at he
            obtain ⟨hcd, he⟩ := he
            subst hcd
            simp only [evalHash, evalHashList,
              hashItems_congr ok hH num (objSh env c) xs ys t1 t2 hx.1 hx.2 hy.1 hy.2 he hxs hys]
      | _ => simp [eq] at he
  theorem hashList_congr (ok : EnvOk env) {H : PyHash} (hH : HashOk H) (num : Bool) (xs : List Val) :
      ∀ (ys : List Val) (txs tys : List HTerm), comparableList env num xs = true →
      comparableList env num ys = true → eqList xs ys = true →
      hashList xs = .ok txs → hashList ys = .ok tys → evalHashList H txs = evalHashList H tys := by
    intro ys txs tys hx hy he h1 h2
    cases xs with
    | nil =>
      cases ys with
      | nil => simp [hashList] at h1 h2; subst h1; subst h2; rfl
      | cons y ys => simp [eqList] at he
    | cons x xs =>
      cases ys with
      | nil => simp [eqList] at he
      | cons y ys =>
        simp only [comparableList, Bool.and_eq_true] at hx hy
        simp only [eqList, Bool.and_eq_true] at he
        simp only [hashList] at h1 h2
        cases hx1 : hashTerm x with
        | error e => simp [hx1] at h1
        | ok tx => cases hy1 : hashTerm y with
          | error e => simp [hy1] at h2
          | ok ty => cases hxs : hashList xs with
            | error e => simp [hx1, hxs] at h1
            | ok t1 => cases hys : hashList ys with
              | error e => simp [hy1, hys] at h2
              | ok t2 =>
                simp [hx1, hxs] at h1; simp [hy1, hys] at h2; subst h1; subst h2
                simp only [evalHashList]
                rw [hash_congr ok hH num x y tx ty hx.1 hy.1 he.1 hx1 hy1,
                  hashList_congr ok hH num xs ys t1 t2 hx.2 hy.2 he.2 hxs hys]
  theorem hashItems_congr (ok : EnvOk env) {H : PyHash} (hH : HashOk H) (num : Bool) (sh : Option (List Atom)) (xs : List (Atom × Val)) :
      ∀ (ys : List (Atom × Val)) (txs tys : List HTerm),
      keysOk env sh xs = true → comparableItems env num xs = true →
      keysOk env sh ys = true → comparableItems env num ys = true → eqD xs ys = true →
      hashItems xs = .ok txs → hashItems ys = .ok tys → evalHashList H txs = evalHashList H tys := by
    intro ys txs tys ax hx ay hy he h1 h2
    cases xs with
    | nil =>
      cases ys with
      | nil => simp [hashItems] at h1 h2; subst h1; subst h2; rfl
      | cons q ys => rw [eqD_nil_cons] at he; cases he
    | cons p xs =>
      cases ys with
      | nil => rw [eqD_cons_nil] at he; cases he
      | cons q ys =>
        obtain ⟨k, v⟩ := p
        obtain ⟨k', w⟩ := q
        simp only [comparableItems, Bool.and_eq_true] at hx hy
        cases hk : atomEq k k'
        · rw [eqD_cons_ne ok ax ay hk] at he; cases he
        · rw [eqD_cons_eq ok ax ay hk] at he
          simp only [Bool.and_eq_true] at he
          simp only [hashItems] at h1 h2
          cases hx1 : hashTerm v with
          | error e => simp [hx1] at h1
          | ok tx => cases hy1 : hashTerm w with
            | error e => simp [hy1] at h2
            | ok ty => cases hxs : hashItems xs with
              | error e => simp [hx1, hxs] at h1
              | ok t1 => cases hys : hashItems ys with
                | error e => simp [hy1, hys] at h2
                | ok t2 =>
                  simp [hx1, hxs] at h1; simp [hy1, hys] at h2; subst h1; subst h2
                  have e1 := hash_congr ok hH num v w tx ty hx.1 hy.1 he.1 hx1 hy1
                  have e2 := hashItems_congr ok hH num (shTail sh) xs ys t1 t2 (keysOk_tail ax) hx.2
                    (keysOk_tail ay) hy.2 he.2 hxs hys
                  rw [← isMissing_congr he.1]
                  cases isMissing v
                  · simp only [Bool.false_eq_true, if_false, evalHashList, evalHash]
                    rw [e1, e2, hH.atom_congr k k' hk]
                  · simpa using e2
end

/-! ### `pg.hash` never raises (fix F16) -/

mutual
  theorem hashTerm_total (x : Val) : ∃ t, hashTerm x = .ok t := by
    cases x with
    | atom a => exact ⟨_, rfl⟩
    | list s xs => obtain ⟨ts, h⟩ := hashList_total xs; simp only [hashTerm, h]; exact ⟨_, rfl⟩
    | tuple xs => obtain ⟨ts, h⟩ := hashList_total xs; simp only [hashTerm, h]; exact ⟨_, rfl⟩
    | dict s kvs => obtain ⟨ts, h⟩ := hashItems_total kvs; simp only [hashTerm, h]; exact ⟨_, rfl⟩
    | obj c kvs => obtain ⟨ts, h⟩ := hashItems_total kvs; simp only [hashTerm, h]; exact ⟨_, rfl⟩
  termination_by structural x
  theorem hashList_total (xs : List Val) : ∃ ts, hashList xs = .ok ts := by
    cases xs with
    | nil => exact ⟨_, rfl⟩
    | cons x xs =>
      obtain ⟨t, h1⟩ := hashTerm_total x
      obtain ⟨ts, h2⟩ := hashList_total xs
      simp only [hashList, h1, h2]; exact ⟨_, rfl⟩
  termination_by structural xs
  theorem hashItems_total (xs : List (Atom × Val)) : ∃ ts, hashItems xs = .ok ts := by
    cases xs with
    | nil => exact ⟨_, rfl⟩
    | cons p xs =>
      obtain ⟨k, v⟩ := p
      obtain ⟨t, h1⟩ := hashTerm_total v
      obtain ⟨ts, h2⟩ := hashItems_total xs
      simp only [hashItems, h1, h2]; exact ⟨_, rfl⟩
  termination_by structural xs
end

end Pg.C06
