/-
  C09 — handlers that mutate during notification: the re-entrant dispatch `stepR`.
-/
import PgProofs.NotifyRead
namespace Pg.C09
open T
open Pg.C08 (Atom Key)

/-- The nested call a receiver's handler issues with `f` levels of nesting left. -/
def nestedCall (react : React) (f : Nat) : T → Nat → T × List Event :=
  fun t' id => match react id with
    | some (rp, rop) => stepR react f t' rp rop
    | none => (t', [])

theorem stepR_zero (react : React) (t : T) (recv : Path) (op : Op) :
    stepR react 0 t recv op = ((step t recv true op).tree, (step t recv true op).events) := rfl

theorem stepR_succ (react : React) (f : Nat) (t : T) (recv : Path) (op : Op) :
    stepR react (f + 1) t recv op =
      dispatchWith (nestedCall react f) (step t recv true op).tree (step t recv true op).events := rfl

/-- The events of the call itself are delivered in their order; what the handlers do in between
only adds to the log. -/
theorem dispatchWith_sublist (nested : T → Nat → T × List Event) :
    (es : List Event) → (t : T) → es.Sublist (dispatchWith nested t es).2
  | [], _ => by simp [dispatchWith]
  | e :: rest, t => by
    simp only [dispatchWith]
    exact ((dispatchWith_sublist nested rest _).trans (List.sublist_append_right _ _)).cons₂ e

theorem stepR_outer_sublist (react : React) : (f : Nat) → (t : T) → (recv : Path) → (op : Op) →
    (step t recv true op).events.Sublist (stepR react f t recv op).2
  | 0, t, recv, op => by rw [stepR_zero]; exact List.Sublist.refl _
  | f + 1, t, recv, op => by rw [stepR_succ]; exact dispatchWith_sublist _ _ _

/-- Freshness through a dispatch whose nested calls keep trees fresh. -/
theorem dispatchWith_fresh (nested : T → Nat → T × List Event)
    (hn : ∀ t id, Fresh t → Fresh (nested t id).1) :
    (es : List Event) → (t : T) → Fresh t → Fresh (dispatchWith nested t es).1
  | [], t, h => by simpa [dispatchWith] using h
  | e :: rest, t, h => by
    simp only [dispatchWith]
    exact dispatchWith_fresh nested hn rest _ (hn t e.recv h)

end Pg.C09
