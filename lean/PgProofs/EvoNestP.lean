/- C14 — nested populations: `flatten` and the grouping keep exactly the individuals; the guarantees of the
   operations lift through `for_each` / `flatten` pipelines. -/
import PgModel.EvoNest
import PgProofs.Evo
namespace Pg.C14

theorem itemsAll_append : ∀ (a b : List Nest), itemsAll (a ++ b) = itemsAll a ++ itemsAll b := by
  intro a
  induction a with
  | nil => intro b; simp [itemsAll]
  | cons x xs ih => intro b; simp [itemsAll, ih, List.append_assoc]

mutual
  /-- `flatten` (any `max_level`) returns exactly the individuals it was given, in the same order. -/
  theorem items_flattenList (m : Option Nat) : ∀ (fuel level : Nat) (xs : List Nest),
      itemsAll (flattenList m fuel level xs) = itemsAll xs
    | 0, level, xs => by unfold flattenList; rfl
    | fuel + 1, level, xs => by
        unfold flattenList
        cases m with
        | none => exact items_flattenStep none fuel level xs
        | some mm =>
          simp only []
          split
          · simp [itemsAll, Nest.items]
          · exact items_flattenStep (some mm) fuel level xs
  theorem items_flattenStep (m : Option Nat) : ∀ (fuel level : Nat) (xs : List Nest),
      itemsAll (flattenList.flattenStep m fuel level xs) = itemsAll xs
    | fuel, level, [] => by simp [flattenList.flattenStep]
    | fuel, level, .item x :: t => by
        simp only [flattenList.flattenStep, itemsAll, Nest.items]
        rw [items_flattenStep m fuel level t]
    | fuel, level, .list ys :: t => by
        simp only [flattenList.flattenStep, itemsAll_append, itemsAll, Nest.items]
        rw [items_flattenList m fuel (level + 1) ys, items_flattenStep m fuel level t]
end

/-- grouping keeps the individuals (given enough fuel: the harness lambda never runs out). -/
theorem items_chunk (k : Nat) (hk : 0 < k) : ∀ (fuel : Nat) (xs : List Nest), xs.length ≤ fuel →
    itemsAll (chunk k fuel xs) = itemsAll xs := by
  intro fuel
  induction fuel with
  | zero =>
    intro xs h
    have : xs = [] := List.length_eq_zero_iff.mp (Nat.le_zero.mp h)
    subst this; simp [chunk, itemsAll]
  | succ f ih =>
    intro xs h
    simp only [chunk]
    split
    · rename_i he
      have : xs = [] := by simpa using he
      subst this; simp [itemsAll]
    · rename_i hne
      have hpos : 0 < xs.length := by
        cases xs with
        | nil => simp at hne
        | cons a t => simp
      simp only [itemsAll, Nest.items]
      rw [ih (xs.drop k) (by rw [List.length_drop]; omega), ← itemsAll_append, List.take_append_drop]

theorem items_ofPop (p : Pop) : itemsAll (ofPop p) = p := by
  induction p with
  | nil => rfl
  | cons x xs ih => simp [ofPop, itemsAll, Nest.items] at ih ⊢; exact ih

theorem toPop_items : ∀ (xs : List Nest) (p : Pop), toPop xs = some p → itemsAll xs = p := by
  intro xs
  induction xs with
  | nil => intro p h; simp only [toPop, Option.some.injEq] at h; subst h; rfl
  | cons x t ih =>
    intro p h
    cases x with
    | list ys => simp [toPop] at h
    | item a =>
      simp only [toPop, Option.map_eq_some_iff] at h
      obtain ⟨q, hq, rfl⟩ := h
      simp [itemsAll, Nest.items, ih q hq]

variable {P : Ind → Prop} {S : Nat → Prop}

/-- an element-wise invariant of the individuals is kept by every stage whose operations keep it. -/
theorem evalStage_preserves (stg : NStage)
    (hop : ∀ e, (stg = .flat e ∨ stg = .forEach e) → Preserves P S (eval e))
    (xs : List Nest) (st : St) (out : List Nest) (st' : St)
    (hp : ∀ x ∈ itemsAll xs, P x) (hs : S st.nextUid) (h : evalStage stg xs st = .ok (out, st')) :
    (∀ y ∈ itemsAll out, P y) ∧ S st'.nextUid := by
  cases stg with
  | flat e =>
    simp only [evalStage] at h
    cases hq : toPop xs with
    | none => rw [hq] at h; exact ((fail_ok _ _ _).mp h).elim
    | some p =>
      rw [hq] at h
      simp only [] at h
      rw [bind_ok] at h
      obtain ⟨o, s1, h1, h2⟩ := h
      rw [pure_ok] at h2
      obtain ⟨rfl, rfl⟩ := h2
      have := hop e (Or.inl rfl) p st o s1 (by rw [← toPop_items xs p hq]; exact hp) hs h1
      rw [items_ofPop]
      exact this
  | chunk k =>
    simp only [evalStage] at h
    split at h
    · exact ((fail_ok _ _ _).mp h).elim
    · rename_i hk
      rw [pure_ok] at h
      obtain ⟨rfl, rfl⟩ := h
      rw [items_chunk k (by omega) _ xs (Nat.le_refl _)]
      exact ⟨hp, hs⟩
  | forEachWrap =>
    simp only [evalStage] at h
    rw [pure_ok] at h
    obtain ⟨rfl, rfl⟩ := h
    refine ⟨?_, hs⟩
    intro y hy
    have : ∀ (l : List Nest), (∀ x ∈ itemsAll l, P x) →
        ∀ y ∈ itemsAll (l.map (fun n => Nest.list [n, .list [n]])), P y := by
      intro l
      induction l with
      | nil => intro _ y hy; simp [itemsAll] at hy
      | cons a t ih =>
        intro hl y hy
        simp only [List.map_cons, itemsAll, Nest.items, List.append_nil, List.mem_append] at hy hl
        rcases hy with (hy | hy) | hy
        · exact hl y (Or.inl hy)
        · exact hl y (Or.inl hy)
        · exact ih (fun x hx => hl x (Or.inr hx)) y hy
    exact this xs hp y hy
  | flatten m =>
    simp only [evalStage] at h
    rw [pure_ok] at h
    obtain ⟨rfl, rfl⟩ := h
    rw [items_flattenList]
    exact ⟨hp, hs⟩
  | forEach e =>
    simp only [evalStage] at h
    have he := hop e (Or.inr rfl)
    -- element by element, threading the uid invariant
    have key : ∀ (l : List Nest) (s : St) (o : List Nest) (s' : St), (∀ x ∈ itemsAll l, P x) → S s.nextUid →
        forEachM (fun n => match n with
          | .list ys => (match toPop ys with
                         | some p => eval e p >>= fun out => pure (Nest.list (ofPop out))
                         | none => fail .unmodelled)
          | .item _ => fail .unmodelled) l s = .ok (o, s') →
        (∀ y ∈ itemsAll o, P y) ∧ S s'.nextUid := by
      intro l
      induction l with
      | nil =>
        intro s o s' _ hs' hh
        simp only [forEachM] at hh
        rw [pure_ok] at hh
        obtain ⟨rfl, rfl⟩ := hh
        exact ⟨by intro y hy; simp [itemsAll] at hy, hs'⟩
      | cons a t ih =>
        intro s o s' hl hs' hh
        simp only [forEachM] at hh
        rw [bind_ok] at hh
        obtain ⟨b, s1, h1, h2⟩ := hh
        rw [bind_ok] at h2
        obtain ⟨bs, s2, h3, h4⟩ := h2
        rw [pure_ok] at h4
        obtain ⟨rfl, rfl⟩ := h4
        simp only [itemsAll, List.mem_append] at hl
        cases a with
        | item x => exact ((fail_ok _ _ _).mp h1).elim
        | list ys =>
          simp only [] at h1
          cases hq : toPop ys with
          | none => rw [hq] at h1; exact ((fail_ok _ _ _).mp h1).elim
          | some p =>
            rw [hq] at h1
            simp only [] at h1
            rw [bind_ok] at h1
            obtain ⟨o1, s0, g1, g2⟩ := h1
            rw [pure_ok] at g2
            obtain ⟨rfl, rfl⟩ := g2
            have hpp : ∀ x ∈ p, P x := by
              intro x hx
              apply hl x
              left
              simp only [Nest.items]
              rw [toPop_items ys p hq]; exact hx
            obtain ⟨k1, k2⟩ := he p s o1 s0 hpp hs' g1
            obtain ⟨k3, k4⟩ := ih s0 bs s2 (fun x hx => hl x (Or.inr hx)) k2 h3
            refine ⟨?_, k4⟩
            intro y hy
            simp only [itemsAll, Nest.items, List.mem_append] at hy
            rcases hy with hy | hy
            · rw [items_ofPop] at hy; exact k1 y hy
            · exact k3 y hy
    exact key xs st out st' hp hs h

end Pg.C14
