/-
  C04: soundness of `is_compatible` on the delimited class `CompatOk` (mutual structural induction
  on the receiver spec).
-/
import PgProofs.TypingAccepts
import PgProofs.TypingPyEq
import PgProofs.TypingDict
namespace Pg.Typing

/-- `issubclass` is transitive (true of Python classes; a hypothesis on the class environment). -/
def SubTrans (env : Env) : Prop := ∀ a b c, env.sub a b = true → env.sub b c = true → env.sub a c = true

/-! ### The exclusions -/

mutual
  /-- The pairs `(a, b)` for which `a.is_compatible(b)` is claimed to be sound.  Every conjunct is
  forced by a finding:
  * neither side frozen, at any depth that is compared (F09 receiver, F40 other side);
  * `Any` receivers are noneable (what `Any.__init__` enforces);
  * `Str`: the receiver has no regex or the same one (regexes are outside the claim);
  * `Enum`/`Enum`: same candidate value type (F41);
  * `List`/`List`: the receiver's `min_size` is not larger (F09b);
  * `Dict` with schema on both sides: constant, distinct keys only (dynamic keys dispatch by
    declaration order, see `C04_compat_counterexample_keyorder`), and a shared field of the other
    side has no default (F42);
  * `Union` receivers are outside the class (F43). -/
  def CompatOk : Spec → Spec → Bool
    | .any f, b => !f.frozen && f.noneable && !b.flags.frozen
    | .bool f, b => !f.frozen && !b.flags.frozen
    | .int _ _ f, b => !f.frozen && !b.flags.frozen
    | .float _ _ f, b => !f.frozen && !b.flags.frozen
    | .str rx f, b => !f.frozen && !b.flags.frozen &&
        (match b with
         | .str orx _ => rx.isNone || rx == orx
         | _ => true)
    | .enum vals f, b => !f.frozen && !b.flags.frozen &&
        (match b with
         | .enum ovals _ => enumVT vals == enumVT ovals
         | _ => true)
    | .list e mn _ f, b => !f.frozen && !b.flags.frozen &&
        (match b with
         | .list oe omn _ _ => decide (mn ≤ omn) && CompatOk e oe
         | _ => true)
    | .tuple es mn mx f, b => !f.frozen && !b.flags.frozen &&
        (match b with
         | .tuple oes omn omx _ =>
           if fixedLen mn mx then zipOk es oes
           else if fixedLen omn omx then headOkAll es oes
           else headOk es oes
         | _ => true)
    | .dict fields f, b => !f.frozen && !b.flags.frozen &&
        (match fields with
         | none => true
         | some fs =>
           match b with
           | .dict (some ofs) _ =>
             constOnly fs && constOnly ofs && distinctStrs (constKeys fs) &&
               distinctStrs (constKeys ofs) && fieldsOk fs ofs
           | _ => true)
    | .obj _ f, b => !f.frozen && !b.flags.frozen
    | .union _ _, _ => false
    | .callable _, _ => false
  termination_by structural a => a
  def zipOk : List Spec → List Spec → Bool
    | [], _ => true
    | _ :: _, [] => true
    | s :: ss, o :: os => CompatOk s o && zipOk ss os
  termination_by structural a => a
  def headOkAll : List Spec → List Spec → Bool
    | [], _ => true
    | e :: _, os => os.all (fun oe => CompatOk e oe)
  termination_by structural a => a
  def headOk : List Spec → List Spec → Bool
    | e :: _, oe :: _ => CompatOk e oe
    | _, _ => true
  termination_by structural a => a
  /-- Shared fields: hereditary `CompatOk`, and the other side's field has no default (F42). -/
  def fieldsOk : List Field → List Field → Bool
    | [], _ => true
    | .mk k s :: rest, ofs =>
      (match findField ofs k with
       | none => true
       | some os => CompatOk s os && os.flags.default.isMissing) && fieldsOk rest ofs
  termination_by structural a => a
end

/-! ### Generalities -/

theorem accepts_missing (env : Env) (s : Spec) (hf : s.flags.frozen = false) :
    accepts env s .missing = false := by
  cases s <;> simp only [Spec.flags] at hf <;> simp [accepts, apply, isOk_gate_missing, hf]
  rename_i fields f
  cases fields <;> simp [apply, isOk_gate_missing, hf]

theorem noneable_mono {f g : Flags} (hn : (!(!f.noneable && g.noneable)) = true)
    (hg : g.noneable = true) : f.noneable = true := by
  cases hfn : f.noneable <;> simp [hfn, hg] at hn ⊢

/-- `Number._is_compatible` is sound: a value inside the other's range is inside the receiver's. -/
theorem outOfRange_mono (lo hi olo ohi : Option Num) (n : Num)
    (hc : numCompat lo hi olo ohi = true) (hv : outOfRange olo ohi n = false) :
    outOfRange lo hi n = false := by
  unfold numCompat at hc
  unfold outOfRange at hv ⊢
  rw [Bool.and_eq_true] at hc
  rw [Bool.or_eq_false_iff] at hv ⊢
  obtain ⟨h1, h2⟩ := hc
  obtain ⟨v1, v2⟩ := hv
  constructor
  · cases lo with
    | none => rfl
    | some l =>
      cases olo with
      | none => simp at h1
      | some ol =>
        simp only [Bool.not_eq_true'] at h1 v1 ⊢
        exact Num.not_lt_trans h1 v1
  · cases hi with
    | none => rfl
    | some h =>
      cases ohi with
      | none => simp at h2
      | some oh =>
        simp only [Bool.not_eq_true'] at h2 v2 ⊢
        exact Num.not_lt_trans v2 h2

theorem accepts_enum_proper (env : Env) (vals : List Val) (f : Flags) (hf : f.frozen = false)
    (v : Val) (hv : Val.proper v) :
    accepts env (.enum vals f) v =
      match typeCheck env ((enumVT vals).map ([·])) v with
      | .ok v' => Val.pyIn v' vals
      | .error _ => false := by
  simp only [accepts, apply, gate_proper f hf false v hv, bind, Except.bind]
  cases typeCheck env ((enumVT vals).map ([·])) v with
  | error e => simp
  | ok v' => simp only; cases Val.pyIn v' vals <;> simp

theorem accepts_none (env : Env) (s : Spec) (hf : s.flags.frozen = false) :
    accepts env s .none = s.flags.noneable := by
  cases s <;> simp only [Spec.flags] at hf <;> simp [accepts, apply, isOk_gate_none, hf, Spec.flags]
  rename_i fields f
  cases fields <;> simp [apply, isOk_gate_none, hf]

theorem proper_of_ne (v : Val) (h1 : v ≠ .missing) (h2 : v ≠ .none) : Val.proper v := by
  cases v <;> simp_all [Val.proper, Val.isMissing, Val.isNone]

/-! ### Soundness -/

theorem compat_any (env : Env) (ht : SubTrans env) (f : Flags) (b : Spec)
    (hok : CompatOk (.any f) b = true) (hc : isCompatible env (.any f) b = true) (v : Val)
    (hv : accepts env b v = true) : accepts env (.any f) v = true := by
  simp only [CompatOk, Bool.and_eq_true, Bool.not_eq_true'] at hok
  obtain ⟨⟨hf, hfn⟩, hg⟩ := hok
  rw [accepts_any env f hf]
  cases v with
  | missing => rw [accepts_missing env b hg] at hv; cases hv
  | none => exact hfn
  | _ => rfl


theorem compat_bool (env : Env) (ht : SubTrans env) (f : Flags) (b : Spec)
    (hok : CompatOk (.bool f) b = true) (hc : isCompatible env (.bool f) b = true) (v : Val)
    (hv : accepts env b v = true) : accepts env (.bool f) v = true := by
  cases b <;> simp only [isCompatible, Bool.false_eq_true] at hc
  rename_i g
  simp only [CompatOk, Spec.flags, Bool.and_eq_true, Bool.not_eq_true'] at hok
  rw [accepts_bool env g hok.2] at hv
  rw [accepts_bool env f hok.1]
  cases v <;> simp at hv ⊢
  exact noneable_mono hc hv


theorem compat_int (env : Env) (ht : SubTrans env) (lo hi : Option Int) (f : Flags) (b : Spec)
    (hok : CompatOk (.int lo hi f) b = true) (hc : isCompatible env (.int lo hi f) b = true) (v : Val)
    (hv : accepts env b v = true) : accepts env (.int lo hi f) v = true := by
  cases b <;> simp only [isCompatible, Bool.false_eq_true] at hc
  rename_i olo ohi g
  simp only [CompatOk, Spec.flags, Bool.and_eq_true, Bool.not_eq_true'] at hok
  rw [Bool.and_eq_true] at hc
  rw [accepts_int env _ _ g hok.2] at hv
  rw [accepts_int env _ _ f hok.1]
  cases v <;> simp only [Bool.not_eq_true', Bool.false_eq_true] at hv ⊢
  · exact noneable_mono hc.1 hv
  · simp [outOfRange_mono _ _ _ _ _ hc.2 hv]
  · simp [outOfRange_mono _ _ _ _ _ hc.2 hv]


theorem compat_float (env : Env) (ht : SubTrans env) (lo hi : Option Num) (f : Flags) (b : Spec)
    (hok : CompatOk (.float lo hi f) b = true) (hc : isCompatible env (.float lo hi f) b = true) (v : Val)
    (hv : accepts env b v = true) : accepts env (.float lo hi f) v = true := by
  cases b <;> simp only [isCompatible, Bool.false_eq_true] at hc
  rename_i olo ohi g
  simp only [CompatOk, Spec.flags, Bool.and_eq_true, Bool.not_eq_true'] at hok
  rw [Bool.and_eq_true] at hc
  rw [accepts_float env _ _ g hok.2] at hv
  rw [accepts_float env _ _ f hok.1]
  cases v <;> simp only [Bool.not_eq_true', Bool.false_eq_true] at hv ⊢
  · exact noneable_mono hc.1 hv
  · simp [outOfRange_mono _ _ _ _ _ hc.2 hv]
  · simp [outOfRange_mono _ _ _ _ _ hc.2 hv]
  · simp [outOfRange_mono _ _ _ _ _ hc.2 hv]


theorem compat_str (env : Env) (ht : SubTrans env) (rx : Option Nat) (f : Flags) (b : Spec)
    (hok : CompatOk (.str rx f) b = true) (hc : isCompatible env (.str rx f) b = true) (v : Val)
    (hv : accepts env b v = true) : accepts env (.str rx f) v = true := by
  cases b <;> simp only [isCompatible, Bool.false_eq_true] at hc
  rename_i orx g
  simp only [CompatOk, Spec.flags, Bool.and_eq_true, Bool.not_eq_true', Bool.or_eq_true,
    beq_iff_eq] at hok
  obtain ⟨⟨hf, hg⟩, hrx⟩ := hok
  rw [accepts_str env _ g hg] at hv
  rw [accepts_str env _ f hf]
  cases v <;> simp only [Bool.false_eq_true] at hv ⊢
  · exact noneable_mono hc hv
  · rcases hrx with hrx | hrx
    · cases rx <;> simp at hrx ⊢
    · subst hrx; exact hv


theorem compat_enum (env : Env) (ht : SubTrans env) (vals : List Val) (f : Flags) (b : Spec)
    (hok : CompatOk (.enum vals f) b = true) (hc : isCompatible env (.enum vals f) b = true) (v : Val)
    (hv : accepts env b v = true) : accepts env (.enum vals f) v = true := by
  simp only [CompatOk, Bool.and_eq_true, Bool.not_eq_true'] at hok
  obtain ⟨⟨hf, hg⟩, hvt⟩ := hok
  simp only [isCompatible, hg, Bool.false_and, Bool.false_eq_true, if_false] at hc
  cases b <;> simp only [Bool.false_eq_true] at hc
  rename_i ovals g
  simp only [Spec.flags] at hg
  simp only [beq_iff_eq] at hvt
  rw [Bool.and_eq_true] at hc
  by_cases hm : v = .missing
  · subst hm; rw [accepts_missing env _ (by simpa [Spec.flags] using hg)] at hv; cases hv
  by_cases hn : v = .none
  · subst hn
    rw [accepts_none env _ (by simpa [Spec.flags] using hg)] at hv
    rw [accepts_none env _ (by simpa [Spec.flags] using hf)]
    exact noneable_mono hc.1 hv
  have hp := proper_of_ne v hm hn
  rw [accepts_enum_proper env _ g hg v hp] at hv
  rw [accepts_enum_proper env _ f hf v hp, hvt]
  cases htc : typeCheck env ((enumVT ovals).map ([·])) v with
  | error e => simp [htc] at hv
  | ok v' =>
    simp only [htc] at hv ⊢
    exact pyIn_trans v' ovals vals hc.2 hv


theorem compat_dictNone (env : Env) (f : Flags) (b : Spec)
    (hok : CompatOk (.dict none f) b = true) (hc : isCompatible env (.dict none f) b = true) (v : Val)
    (hv : accepts env b v = true) : accepts env (.dict none f) v = true := by
  cases b <;> simp only [isCompatible, Bool.false_eq_true] at hc
  rename_i ofields g
  simp only [CompatOk, Spec.flags, Bool.and_eq_true, Bool.not_eq_true'] at hok
  rw [Bool.and_eq_true] at hc
  rw [accepts_dictNone env f hok.1.1]
  cases ofields with
  | none =>
    rw [accepts_dictNone env g hok.1.2] at hv
    cases v <;> simp only [Bool.false_eq_true] at hv ⊢
    exact noneable_mono hc.1 hv
  | some ofs =>
    rcases accepts_dictSome_shape env ofs g hok.1.2 v hv with ⟨e, hg⟩ | ⟨kvs, e⟩
    · subst e; exact noneable_mono hc.1 hg
    · subst e; rfl

theorem CompatOk_flags (a b : Spec) (h : CompatOk a b = true) :
    a.flags.frozen = false ∧ b.flags.frozen = false := by
  cases a with
  | union cands f => simp [CompatOk] at h
  | callable f => simp [CompatOk] at h
  | any f =>
    simp only [CompatOk, Bool.and_eq_true, Bool.not_eq_true'] at h
    exact ⟨h.1.1, h.2⟩
  | dict fields f =>
    cases fields with
    | none =>
      rw [CompatOk] at h
      simp only [Bool.and_eq_true, Bool.not_eq_true'] at h
      exact h.1
    | some fs =>
      cases b with
      | dict ofields g =>
        cases ofields <;> rw [CompatOk] at h <;>
          first
          | (intro _ _ e; cases e)
          | (simp only [Bool.and_eq_true, Bool.not_eq_true'] at h; exact h.1)
      | _ =>
        rw [CompatOk] at h <;>
          first
          | (intro _ _ e; cases e)
          | (simp only [Bool.and_eq_true, Bool.not_eq_true'] at h; exact h.1)
  | _ =>
    simp only [CompatOk, Bool.and_eq_true, Bool.not_eq_true'] at h
    first | exact h | exact h.1

theorem compat_obj (env : Env) (ht : SubTrans env) (c : Nat) (f : Flags) (b : Spec)
    (hok : CompatOk (.obj c f) b = true) (hc : isCompatible env (.obj c f) b = true) (v : Val)
    (hv : accepts env b v = true) : accepts env (.obj c f) v = true := by
  cases b <;> simp only [isCompatible, Bool.false_eq_true] at hc
  rename_i oc g
  simp only [CompatOk, Spec.flags, Bool.and_eq_true, Bool.not_eq_true'] at hok
  rw [Bool.and_eq_true] at hc
  rw [accepts_obj env _ g hok.2] at hv
  rw [accepts_obj env _ f hok.1]
  cases v <;> simp only [Bool.false_eq_true] at hv ⊢
  · exact noneable_mono hc.1 hv
  · rw [Bool.and_eq_true] at hv ⊢
    exact ⟨ht _ _ _ hv.1 hc.2, hv.2⟩


mutual
  theorem compat_sound (env : Env) (ht : SubTrans env) (a b : Spec) (hok : CompatOk a b = true)
      (hc : isCompatible env a b = true) (v : Val) (hv : accepts env b v = true) :
      accepts env a v = true := by
    cases a with
    | any f => exact compat_any env ht f b hok hc v hv
    | bool f => exact compat_bool env ht f b hok hc v hv
    | int lo hi f => exact compat_int env ht lo hi f b hok hc v hv
    | float lo hi f => exact compat_float env ht lo hi f b hok hc v hv
    | str rx f => exact compat_str env ht rx f b hok hc v hv
    | enum vals f => exact compat_enum env ht vals f b hok hc v hv
    | list e mn mx f =>
      cases b <;> simp only [isCompatible, Bool.false_eq_true] at hc
      rename_i oe omn omx g
      simp only [CompatOk, Spec.flags, Bool.and_eq_true, Bool.not_eq_true', decide_eq_true_eq] at hok
      obtain ⟨⟨hf, hg⟩, hmn, hoke⟩ := hok
      simp only [Bool.and_eq_true] at hc
      obtain ⟨⟨hn, hmx⟩, hce⟩ := hc
      rw [accepts_list env _ _ _ g hg] at hv
      rw [accepts_list env _ _ _ f hf]
      cases v <;> simp only [Bool.false_eq_true] at hv ⊢
      · exact noneable_mono hn hv
      · rename_i xs
        rw [Bool.and_eq_true] at hv ⊢
        refine ⟨?_, ?_⟩
        · rw [List.all_eq_true] at *
          intro x hx
          exact compat_sound env ht e oe hoke hce x (hv.1 x hx)
        · have hs := hv.2
          unfold sizeOk at hs ⊢
          rw [Bool.and_eq_true] at hs ⊢
          refine ⟨by simp only [decide_eq_true_eq] at hs ⊢; omega, ?_⟩
          cases mx with
          | none => rfl
          | some m =>
            cases omx with
            | none => simp at hmx
            | some om =>
              simp only [decide_eq_true_eq] at hmx hs ⊢
              omega
    | tuple es mn mx f =>
      cases b <;> simp only [isCompatible, Bool.false_eq_true] at hc
      rename_i oes omn omx g
      simp only [CompatOk, Spec.flags, Bool.and_eq_true, Bool.not_eq_true'] at hok
      obtain ⟨⟨hf, hg⟩, hoke⟩ := hok
      rw [Bool.and_eq_true] at hc
      obtain ⟨hn, hc⟩ := hc
      rw [accepts_tuple env _ _ _ g hg] at hv
      rw [accepts_tuple env _ _ _ f hf]
      cases v <;> simp only [Bool.false_eq_true] at hv ⊢
      · exact noneable_mono hn hv
      · rename_i xs
        by_cases hfx : fixedLen mn mx = true
        · simp only [hfx, if_true] at hc hoke ⊢
          by_cases hofx : fixedLen omn omx = true
          · simp only [hofx, if_true, Bool.and_eq_true, beq_iff_eq] at hc hv
            simp only [Bool.and_eq_true, beq_iff_eq]
            refine ⟨by omega, ?_⟩
            exact zip_sound env ht es oes hoke hc.2 hc.1 xs hv.2
          · simp [hofx] at hc
        · simp only [hfx, Bool.false_eq_true, if_false] at hc hoke ⊢
          by_cases hofx : fixedLen omn omx = true
          · simp only [hofx, if_true, Bool.and_eq_true, beq_iff_eq, Bool.not_eq_true',
              Bool.or_eq_false_iff, decide_eq_false_iff_not] at hc hv hoke
            rw [Bool.and_eq_true]
            refine ⟨?_, headAll_sound env ht es oes hoke hc.2 xs hv.1 hv.2⟩
            unfold sizeOk
            rw [Bool.and_eq_true]
            refine ⟨by simp only [decide_eq_true_eq]; omega, ?_⟩
            cases mx with
            | none => rfl
            | some m =>
              have := hc.1.2
              simp only [decide_eq_false_iff_not] at this ⊢
              simp only [decide_eq_true_eq]
              omega
          · simp only [hofx, Bool.false_eq_true, if_false, Bool.and_eq_true, decide_eq_true_eq] at hc hv hoke
            rw [Bool.and_eq_true]
            refine ⟨?_, head_sound env ht es oes hoke hc.2 xs hv.2⟩
            have hs := hv.1
            unfold sizeOk at hs ⊢
            rw [Bool.and_eq_true] at hs ⊢
            refine ⟨by simp only [decide_eq_true_eq] at hs ⊢; omega, ?_⟩
            cases mx with
            | none => rfl
            | some m =>
              cases omx with
              | none => simp at hc
              | some om =>
                have := hc.1.2
                simp only [decide_eq_true_eq] at this hs ⊢
                omega
    | dict fields f =>
      cases fields with
      | none => exact compat_dictNone env f b hok hc v hv
      | some fs =>
        cases b <;> simp only [isCompatible, Bool.false_eq_true] at hc
        rename_i ofields g
        cases ofields with
        | none => simp at hc
        | some ofs =>
          simp only [CompatOk, Spec.flags, Bool.and_eq_true, Bool.not_eq_true'] at hok
          obtain ⟨⟨hf, hg⟩, ⟨⟨⟨hcf, hcof⟩, hdf⟩, hdof⟩, hfo⟩ := hok
          simp only [Bool.and_eq_true] at hc
          obtain ⟨hn, hkeys, hfc⟩ := hc
          rw [accepts_dictSome env ofs g hg hcof hdof] at hv
          rw [accepts_dictSome env fs f hf hcf hdf]
          cases v <;> simp only [Bool.false_eq_true] at hv ⊢
          · exact noneable_mono hn hv
          · rename_i kvs
            rw [Bool.and_eq_true] at hv ⊢
            exact ⟨unmatched_mono env fs ofs hcf hcof hkeys kvs hv.1,
              fields_sound env ht fs ofs hfo hfc hcf kvs hv.2⟩
    | obj c f => exact compat_obj env ht c f b hok hc v hv
    | union cands f => simp [CompatOk] at hok
    | callable f => simp [CompatOk] at hok
  termination_by structural a
  theorem zip_sound (env : Env) (ht : SubTrans env) (es oes : List Spec) (hok : zipOk es oes = true)
      (hc : zipCompat env es oes = true) (hl : es.length = oes.length) (xs : List Val)
      (hv : zipAll env oes xs = true) : zipAll env es xs = true := by
    cases es with
    | nil => simp [zipAll]
    | cons s ss =>
      cases oes with
      | nil => simp at hl
      | cons o os =>
        cases xs with
        | nil => simp [zipAll]
        | cons x xs =>
          simp only [zipOk, zipCompat, zipAll, Bool.and_eq_true] at hok hc hv ⊢
          exact ⟨compat_sound env ht s o hok.1 hc.1 x hv.1,
            zip_sound env ht ss os hok.2 hc.2 (by simpa using hl) xs hv.2⟩
  termination_by structural es
  theorem headAll_sound (env : Env) (ht : SubTrans env) (es oes : List Spec)
      (hok : headOkAll es oes = true) (hc : headCompatAll env es oes = true) (xs : List Val)
      (hl : xs.length = oes.length) (hv : zipAll env oes xs = true) : varAll env es xs = true := by
    cases es with
    | nil =>
      simp only [headCompatAll, List.isEmpty_iff] at hc
      subst hc
      simp only [List.length_nil, List.length_eq_zero_iff] at hl
      subst hl
      rfl
    | cons e rest =>
      simp only [headOkAll, headCompatAll, varAll] at hok hc ⊢
      induction oes generalizing xs with
      | nil =>
        simp only [List.length_nil, List.length_eq_zero_iff] at hl
        subst hl; rfl
      | cons o os ih =>
        cases xs with
        | nil => rfl
        | cons x xs =>
          simp only [List.all_cons, zipAll, Bool.and_eq_true] at hok hc hv ⊢
          exact ⟨compat_sound env ht e o hok.1 hc.1 x hv.1,
            ih xs (by simpa using hl) hv.2 hok.2 hc.2⟩
  termination_by structural es
  theorem head_sound (env : Env) (ht : SubTrans env) (es oes : List Spec)
      (hok : headOk es oes = true) (hc : headCompat env es oes = true) (xs : List Val)
      (hv : varAll env oes xs = true) : varAll env es xs = true := by
    cases es with
    | nil => simp [headCompat] at hc
    | cons e rest =>
      cases oes with
      | nil => simp [headCompat] at hc
      | cons o os =>
        simp only [headOk, headCompat, varAll] at hok hc hv ⊢
        rw [List.all_eq_true] at *
        intro x hx
        exact compat_sound env ht e o hok hc x (hv x hx)
  termination_by structural es
  theorem fields_sound (env : Env) (ht : SubTrans env) (fs ofs : List Field)
      (hok : fieldsOk fs ofs = true) (hc : fieldsCompat env fs ofs = true) (hco : constOnly fs = true)
      (kvs : List (String × Val)) (hall : fieldsAll env ofs kvs = true) :
      fieldsAll env fs kvs = true := by
    cases fs with
    | nil => rfl
    | cons fld rest =>
      cases fld with
      | mk ks s =>
        cases ks with
        | strKey r => simp [constOnly] at hco
        | const k =>
          simp only [constOnly] at hco
          simp only [fieldsOk, fieldsCompat, Bool.and_eq_true] at hok hc
          simp only [fieldsAll, Bool.and_eq_true]
          refine ⟨?_, fields_sound env ht rest ofs hok.2 hc.2 hco kvs hall⟩
          cases hfind : findField ofs (.const k) with
          | none => simp [hfind] at hc
          | some os =>
            simp only [hfind, Bool.and_eq_true] at hok hc
            have hacc := fieldsAll_find env ofs kvs k os hall hfind
            have hdm : os.flags.default = .missing := by
              have := hok.1.2
              cases hd : os.flags.default <;> simp [hd, Val.isMissing] at this
              rfl
            rw [hdm] at hacc
            have hnm : (valueOrDefault kvs k .missing).isMissing = false := by
              cases hx : valueOrDefault kvs k .missing <;> simp [Val.isMissing]
              rw [hx, accepts_missing env os (CompatOk_flags s os hok.1.1).2] at hacc
              cases hacc
            rw [valueOrDefault_missing kvs k s.flags.default hnm]
            exact compat_sound env ht s os hok.1.1 hc.1 _ hacc
  termination_by structural fs
end

end Pg.Typing
