/-
  Clone equality (`pg.eq(original, clone)`) and agreement of the flags at every node.
-/
import PgProofs.SymStepInv
namespace Pg.Sym

/-! ### rewrites of the right-hand tree that `symEq` does not see -/

mutual
  theorem symEq_setPath (deep : Bool) (q : List Key) : (s t : Tree) → t.symEq deep (s.setPath q) = t.symEq deep s
    | .leaf _, _ => rfl
    | .node m its, t => by
      unfold Tree.setPath
      split
      · rfl
      · cases t with
        | leaf a => cases a <;> rfl
        | node mt itst => simp only [Tree.symEq]; rw [symEqItems_setPath deep q its itst]
  theorem symEqItems_setPath (deep : Bool) (q : List Key) : (its xs : Items) →
      symEqItems deep xs (setPathItems q its) = symEqItems deep xs its
    | [], xs => rfl
    | (k, c) :: r, xs => by
      cases xs with
      | nil => rfl
      | cons x xs =>
        obtain ⟨kx, cx⟩ := x
        simp only [setPathItems, symEqItems]
        rw [symEq_setPath deep (q ++ [k]) c cx, symEqItems_setPath deep q r xs]
end

mutual
  theorem symEq_seal (deep : Bool) (b : Bool) : (s t : Tree) → t.symEq deep (s.seal b) = t.symEq deep s
    | .leaf _, _ => rfl
    | .node m its, t => by
      cases t with
      | leaf a => cases a <;> rfl
      | node mt itst => simp only [Tree.seal, Tree.symEq]; rw [symEqItems_seal deep b its itst]
  theorem symEqItems_seal (deep : Bool) (b : Bool) : (its xs : Items) →
      symEqItems deep xs (sealItems b its) = symEqItems deep xs its
    | [], xs => rfl
    | (k, c) :: r, xs => by
      cases xs with
      | nil => rfl
      | cons x xs =>
        obtain ⟨kx, cx⟩ := x
        simp only [sealItems, symEqItems]
        rw [symEq_seal deep b c cx, symEqItems_seal deep b r xs]
end

theorem symEq_sealIf (deep : Bool) (b : Bool) (s t : Tree) : t.symEq deep (sealIf b s) = t.symEq deep s := by
  unfold sealIf; split
  · exact symEq_seal deep true s t
  · rfl

theorem symEq_adopt (deep : Bool) (a b : Bool) (s t : Tree) : t.symEq deep (adoptPartial a b s) = t.symEq deep s := by
  cases s with
  | leaf x => rfl
  | node m its =>
    simp only [adoptPartial]
    split
    · cases t with
      | leaf a => cases a <;> rfl
      | node mt itst => rfl
    · rfl

theorem symEqItems_adopt (deep : Bool) (b : Bool) : (its xs : Items) →
    symEqItems deep xs (its.map (fun kv => (kv.1, adoptPartial true b kv.2))) = symEqItems deep xs its
  | [], xs => rfl
  | (k, c) :: r, xs => by
    cases xs with
    | nil => rfl
    | cons x xs =>
      obtain ⟨kx, cx⟩ := x
      simp only [List.map_cons, symEqItems]
      rw [symEq_adopt deep true b c cx, symEqItems_adopt deep b r xs]

theorem symEqItems_renumber (deep : Bool) : (n : Nat) → (xs its : Items) → positional n (keysOf xs) = true →
    symEqItems deep xs its = true → symEqItems deep xs (renumberFrom n its) = true
  | _, [], [], _, _ => rfl
  | _, [], _ :: _, _, h => by simp [symEqItems] at h
  | _, (kx, cx) :: _, [], _, h => by simp [symEqItems] at h
  | n, (kx, cx) :: xs, (k, c) :: r, hp, h => by
    simp only [keysOf_cons, positional, Bool.and_eq_true, beq_iff_eq] at hp
    simp only [symEqItems, Bool.and_eq_true, beq_iff_eq] at h
    simp only [renumberFrom, symEqItems, Bool.and_eq_true, beq_iff_eq]
    exact ⟨⟨hp.1, h.1.2⟩, symEqItems_renumber deep (n + 1) xs r hp.2 h.2⟩

/-! ### MISSING placeholders -/

theorem clone_isMissing (cfg : Cfg) (deep : Bool) (next : Nat) (par : Option Nat) (p : List Key) (t : Tree) :
    (t.clone cfg deep next par p).1.isMissing = t.isMissing := by
  cases t with
  | leaf a => cases a <;> cases deep <;> simp [Tree.clone, Tree.isMissing]
  | node m its =>
    unfold Tree.clone
    simp only
    unfold sealIf
    split <;> simp [Tree.seal, Tree.isMissing]

theorem cloneItems_noMissing (cfg : Cfg) (deep : Bool) (h : Nat) (p : List Key) : (its : Items) → ∀ next,
    noMissingItems its = true → ∀ kv ∈ (cloneItems cfg deep next h p its).1, kv.2.isMissing = false
  | [], _, _, kv, hkv => by simp [cloneItems] at hkv
  | (k, c) :: r, next, hm, kv, hkv => by
    simp only [noMissingItems, Bool.and_eq_true, Bool.not_eq_true'] at hm
    unfold cloneItems at hkv
    simp only [List.mem_cons] at hkv
    rcases hkv with rfl | hkv
    · simp only; rw [clone_isMissing]; exact hm.1.1
    · exact cloneItems_noMissing cfg deep h p r _ hm.2 kv hkv

theorem filter_id_of_all {α : Type} (q : α → Bool) : (l : List α) → (∀ x ∈ l, q x = true) → l.filter q = l
  | [], _ => rfl
  | x :: xs, h => by
    rw [List.filter_cons, if_pos (h x (by simp)), filter_id_of_all q xs (fun y hy => h y (by simp [hy]))]

/-! ### the clone is symbolically equal to the original -/

mutual
  theorem clone_symEq (cfg : Cfg) (deep : Bool) (next : Nat) (par : Option Nat) (p : List Key) :
      (t : Tree) → t.shapeOk = true → t.noMissing = true → t.symEq deep (t.clone cfg deep next par p).1 = true
    | .leaf a, _, _ => by
      cases a <;> cases deep <;> simp [Tree.clone, Tree.symEq]
    | .node m its, hsh, hm => by
      rw [shapeOk_node] at hsh
      simp only [Tree.noMissing] at hm
      unfold Tree.clone
      simp only
      rw [symEq_sealIf]
      have ih := cloneItems_symEq cfg deep (next + 1) next p its hsh.2 hm
      cases hk : m.kind with
      | list =>
        simp only [Tree.symEq, hk, beq_self_eq_true, Bool.true_and]
        rw [symEqItems_setPath]
        rw [filter_id_of_all _ _ (by
          intro kv hkv
          have := cloneItems_noMissing cfg deep next p its (next + 1) hm kv hkv
          simp [this])]
        have hpos : positional 0 (keysOf its) = true := by have := hsh.1; rw [hk] at this; exact this
        exact symEqItems_renumber deep 0 its _ hpos ih
      | dict =>
        simp only [Tree.symEq, hk, beq_self_eq_true, Bool.true_and]
        exact ih
      | obj c =>
        simp only [Tree.symEq, hk, beq_self_eq_true, Bool.true_and]
        rw [symEqItems_adopt]; exact ih
  theorem cloneItems_symEq (cfg : Cfg) (deep : Bool) (next : Nat) (h : Nat) (p : List Key) :
      (its : Items) → shapeOkItems its = true → noMissingItems its = true →
        symEqItems deep its (cloneItems cfg deep next h p its).1 = true
    | [], _, _ => by simp [cloneItems, symEqItems]
    | (k, c) :: r, hsh, hm => by
      simp only [shapeOkItems, Bool.and_eq_true] at hsh
      simp only [noMissingItems, Bool.and_eq_true] at hm
      unfold cloneItems
      simp only [symEqItems, Bool.and_eq_true, beq_self_eq_true, true_and]
      exact ⟨clone_symEq cfg deep next (some h) (p ++ [k]) c hsh.1 hm.1.2,
        cloneItems_symEq cfg deep _ h p r hsh.2 hm.2⟩
end

/-! ### from the "every node" formulation to the recursive one -/

mutual
  theorem noMissing_of_subnodes : (t : Tree) → (∀ s ∈ t.subnodes, ∀ kv ∈ s.items, kv.2.isMissing = false) →
      t.noMissing = true
    | .leaf _, _ => rfl
    | .node m its, h => by
      simp only [Tree.noMissing]
      apply noMissingItems_of_subnodes its
      · intro kv hkv
        exact h (.node m its) (by simp [Tree.subnodes]) kv hkv
      · intro s hs
        exact h s (by simp [Tree.subnodes, hs])
  theorem noMissingItems_of_subnodes : (its : Items) → (∀ kv ∈ its, kv.2.isMissing = false) →
      (∀ s ∈ subnodesItems its, ∀ kv ∈ s.items, kv.2.isMissing = false) → noMissingItems its = true
    | [], _, _ => rfl
    | (k, c) :: r, h1, h2 => by
      simp only [noMissingItems, Bool.and_eq_true, Bool.not_eq_true']
      refine ⟨⟨h1 (k, c) (by simp), ?_⟩, ?_⟩
      · exact noMissing_of_subnodes c (fun s hs => h2 s (by simp [subnodesItems, hs]))
      · exact noMissingItems_of_subnodes r (fun kv hkv => h1 kv (by simp [hkv]))
          (fun s hs => h2 s (by simp [subnodesItems, hs]))
end

/-! ### flags at every node -/

mutual
  /-- two right-hand trees that agree on the flags are interchangeable. -/
  theorem flagsEq_congr : (s s' t : Tree) → s.flagsEq s' = true → t.flagsEq s = t.flagsEq s'
    | .leaf _, .leaf _, t, _ => by cases t <;> rfl
    | .leaf _, .node _ _, _, h => by simp [Tree.flagsEq] at h
    | .node _ _, .leaf _, _, h => by simp [Tree.flagsEq] at h
    | .node m its, .node m' its', t, h => by
      simp only [Tree.flagsEq, Bool.and_eq_true, beq_iff_eq] at h
      cases t with
      | leaf a => rfl
      | node mt itst =>
        simp only [Tree.flagsEq]
        rw [h.1.1, h.1.2, flagsEqItems_congr its its' itst h.2]
  theorem flagsEqItems_congr : (xs xs' ts : Items) → flagsEqItems xs xs' = true → flagsEqItems ts xs = flagsEqItems ts xs'
    | [], [], ts, _ => rfl
    | [], _ :: _, _, h => by simp [flagsEqItems] at h
    | (_, _) :: _, [], _, h => by simp [flagsEqItems] at h
    | (k, c) :: r, (k', c') :: r', ts, h => by
      simp only [flagsEqItems, Bool.and_eq_true] at h
      cases ts with
      | nil => rfl
      | cons x ts =>
        obtain ⟨kx, cx⟩ := x
        simp only [flagsEqItems]
        rw [flagsEq_congr c c' cx h.1, flagsEqItems_congr r r' ts h.2]
end

mutual
  theorem flagsEq_refl : (s : Tree) → s.flagsEq s = true
    | .leaf _ => rfl
    | .node m its => by simp only [Tree.flagsEq, beq_self_eq_true, Bool.true_and]; exact flagsEqItems_refl its
  theorem flagsEqItems_refl : (its : Items) → flagsEqItems its its = true
    | [] => rfl
    | (k, c) :: r => by simp only [flagsEqItems, flagsEq_refl c, flagsEqItems_refl r, Bool.and_self]
end

mutual
  theorem flagsEq_setPath_self (q : List Key) : (s : Tree) → s.flagsEq (s.setPath q) = true
    | .leaf _ => rfl
    | .node m its => by
      unfold Tree.setPath
      split
      · exact flagsEq_refl _
      · simp only [Tree.flagsEq, beq_self_eq_true, Bool.true_and]; exact flagsEqItems_setPath_self q its
  theorem flagsEqItems_setPath_self (q : List Key) : (its : Items) → flagsEqItems its (setPathItems q its) = true
    | [] => rfl
    | (k, c) :: r => by
      simp only [setPathItems, flagsEqItems, flagsEq_setPath_self (q ++ [k]) c, flagsEqItems_setPath_self q r, Bool.and_self]
end

theorem flagsEq_adopt_self (a b : Bool) (s : Tree) : s.flagsEq (adoptPartial a b s) = true := by
  cases s with
  | leaf x => rfl
  | node m its =>
    simp only [adoptPartial]
    split
    · simp only [Tree.flagsEq, beq_self_eq_true, Bool.true_and]; exact flagsEqItems_refl its
    · exact flagsEq_refl _

theorem flagsEqItems_adopt_self (b : Bool) : (its : Items) →
    flagsEqItems its (its.map (fun kv => (kv.1, adoptPartial true b kv.2))) = true
  | [] => rfl
  | (k, c) :: r => by
    simp only [List.map_cons, flagsEqItems, flagsEq_adopt_self true b c, flagsEqItems_adopt_self b r, Bool.and_self]

theorem flagsEqItems_renumber_self : (n : Nat) → (its : Items) → flagsEqItems its (renumberFrom n its) = true
  | _, [] => rfl
  | n, (k, c) :: r => by
    simp only [renumberFrom, flagsEqItems, flagsEq_refl c, flagsEqItems_renumber_self (n + 1) r, Bool.and_self]

theorem flagsEqItems_trans {a b c : Items} (h1 : flagsEqItems a b = true) (h2 : flagsEqItems b c = true) :
    flagsEqItems a c = true := by
  rw [← flagsEqItems_congr b c a h2]; exact h1

mutual
  theorem seal_flagsEq (b : Bool) : (s s' : Tree) → s.flagsEq s' = true → (s.seal b).flagsEq (s'.seal b) = true
    | .leaf _, .leaf _, _ => rfl
    | .leaf _, .node _ _, h => by simp [Tree.flagsEq] at h
    | .node _ _, .leaf _, h => by simp [Tree.flagsEq] at h
    | .node m its, .node m' its', h => by
      simp only [Tree.flagsEq, Bool.and_eq_true, beq_iff_eq] at h
      simp only [Tree.seal, Tree.flagsEq, beq_self_eq_true, Bool.true_and, Bool.and_eq_true, beq_iff_eq]
      exact ⟨h.1.2, sealItems_flagsEq b its its' h.2⟩
  theorem sealItems_flagsEq (b : Bool) : (xs xs' : Items) → flagsEqItems xs xs' = true →
      flagsEqItems (sealItems b xs) (sealItems b xs') = true
    | [], [], _ => rfl
    | [], _ :: _, h => by simp [flagsEqItems] at h
    | (_, _) :: _, [], h => by simp [flagsEqItems] at h
    | (k, c) :: r, (k', c') :: r', h => by
      simp only [flagsEqItems, Bool.and_eq_true] at h
      simp only [sealItems, flagsEqItems, Bool.and_eq_true]
      exact ⟨seal_flagsEq b c c' h.1, sealItems_flagsEq b r r' h.2⟩
end

theorem sealIf_flagsEq (b : Bool) (s s' : Tree) (h : s.flagsEq s' = true) : (sealIf b s).flagsEq (sealIf b s') = true := by
  unfold sealIf; split
  · exact seal_flagsEq true s s' h
  · exact h

mutual
  theorem seal_seal (b : Bool) : (s : Tree) → (s.seal b).seal b = s.seal b
    | .leaf _ => rfl
    | .node m its => by simp only [Tree.seal, sealItems_seal b its]
  theorem sealItems_seal (b : Bool) : (its : Items) → sealItems b (sealItems b its) = sealItems b its
    | [] => rfl
    | (k, c) :: r => by simp only [sealItems, seal_seal b c, sealItems_seal b r]
end

theorem sealIf_sealIf (a c : Bool) (s : Tree) : sealIf a (sealIf c s) = sealIf (a || c) s := by
  unfold sealIf
  cases a <;> cases c <;> simp [seal_seal]

/-- `sealIf` pushed through the items. -/
def sealIfItems (b : Bool) (its : Items) : Items := if b then sealItems true its else its

theorem sealIf_node (b : Bool) (m : Meta) (its : Items) (hm : m.sealed = false) :
    sealIf b (.node m its) = .node { m with sealed := b } (sealIfItems b its) := by
  unfold sealIf sealIfItems
  cases b with
  | true => simp [Tree.seal]
  | false =>
    simp only [Bool.false_eq_true, if_false]
    cases m; simp only at hm; subst hm; rfl

theorem sealIfItems_cons (b : Bool) (k : Key) (c : Tree) (r : Items) :
    sealIfItems b ((k, c) :: r) = (k, sealIf b c) :: sealIfItems b r := by
  unfold sealIfItems sealIf
  cases b <;> simp [sealItems]

mutual
  /-- **flags of a clone, exactly**: the clone agrees with the original on `sealed` and
  `accessor_writable` at every node iff the seal marks of the original are `sealFaithful`. -/
  theorem clone_flagsEq (cfg : Cfg) (deep : Bool) (next : Nat) (par : Option Nat) (p : List Key) :
      (t : Tree) → t.noMissing = true → ∀ anc,
        t.flagsEq (sealIf anc (t.clone cfg deep next par p).1) = t.sealFaithful cfg anc
    | .leaf a, _, anc => by
      cases a <;> cases deep <;> cases anc <;> simp [Tree.clone, Tree.flagsEq, Tree.sealFaithful, sealIf, Tree.seal]
    | .node m its, hm, anc => by
      simp only [Tree.noMissing] at hm
      unfold Tree.clone
      simp only
      rw [sealIf_sealIf]
      have ih := cloneItems_flagsEq cfg deep (next + 1) next p its hm (anc || cloneSealed cfg m)
      -- the per-kind rewrite of the copied items does not touch the flags
      have key : ∀ (m0 : Meta) (its' : Items), m0.sealed = false → m0.accW = m.accW →
          flagsEqItems (cloneItems cfg deep (next + 1) next p its).1 its' = true →
          (Tree.node m its).flagsEq (sealIf (anc || cloneSealed cfg m) (Tree.node m0 its')) =
          (Tree.node m its).sealFaithful cfg anc := by
        intro m0 its' hs0 ha0 he
        have h1 : (Tree.node m0 (cloneItems cfg deep (next + 1) next p its).1).flagsEq (Tree.node m0 its') = true := by
          simp only [Tree.flagsEq, beq_self_eq_true, Bool.true_and]; exact he
        rw [← flagsEq_congr _ _ _ (sealIf_flagsEq (anc || cloneSealed cfg m) _ _ h1)]
        rw [sealIf_node _ _ _ hs0]
        simp only [Tree.flagsEq, Tree.sealFaithful, ha0, beq_self_eq_true, Bool.and_true]
        rw [ih]
      cases hk : m.kind with
      | list =>
        simp only
        refine key _ _ ?_ ?_ ?_
        · rfl
        · rfl
        rw [filter_id_of_all _ _ (by
          intro kv hkv
          have := cloneItems_noMissing cfg deep next p its (next + 1) hm kv hkv
          simp [this])]
        exact flagsEqItems_trans (flagsEqItems_renumber_self 0 _) (flagsEqItems_setPath_self p _)
      | dict => simp only; exact key _ _ rfl rfl (flagsEqItems_refl _)
      | obj c => simp only; exact key _ _ rfl rfl (flagsEqItems_adopt_self _ _)
  theorem cloneItems_flagsEq (cfg : Cfg) (deep : Bool) (next : Nat) (h : Nat) (p : List Key) :
      (its : Items) → noMissingItems its = true → ∀ anc,
        flagsEqItems its (sealIfItems anc (cloneItems cfg deep next h p its).1) = sealFaithfulItems cfg anc its
    | [], _, anc => by simp [cloneItems, sealIfItems, flagsEqItems, sealFaithfulItems, sealItems]
    | (k, c) :: r, hm, anc => by
      simp only [noMissingItems, Bool.and_eq_true] at hm
      unfold cloneItems
      simp only
      rw [sealIfItems_cons]
      simp only [flagsEqItems, sealFaithfulItems]
      rw [clone_flagsEq cfg deep next (some h) (p ++ [k]) c hm.1.2 anc, cloneItems_flagsEq cfg deep _ h p r hm.2 anc]
end

end Pg.Sym
