/-
  C20 helper lemmas, part 5: text inside JavaScript string literals.
-/
import PgModel.Html
namespace Pg.C20

theorem jsRead_plain (c : Char) (tail : Str) (h1 : c ≠ '\\') (h2 : c ≠ '"') (h3 : c ≠ chCR)
    (h4 : c ≠ chLF) : jsRead (c :: tail) = (jsRead tail).map (fun (v, rest) => (c :: v, rest)) := by
  rw [jsRead.eq_def]
  simp [h1, h2, h3, h4]

theorem jsRead_esc (d x : Char) (tail : Str) (h : jsUnescapeChar d = some x) :
    jsRead ('\\' :: d :: tail) = (jsRead tail).map (fun (v, rest) => (x :: v, rest)) := by
  rw [jsRead]
  have a1 : ('\\' : Char) ≠ '"' := by decide
  have a2 : ('\\' : Char) ≠ chLF := by decide
  have a3 : ('\\' : Char) ≠ chCR := by decide
  simp [a1, a2, a3, h]

theorem jsRead_escapeChar (c : Char) (tail : Str) :
    jsRead (jsEscapeChar c ++ tail) = (jsRead tail).map (fun (v, rest) => (c :: v, rest)) := by
  unfold jsEscapeChar
  split
  · subst_vars; exact jsRead_esc _ _ _ (by decide)
  split
  · subst_vars; exact jsRead_esc _ _ _ (by decide)
  split
  · subst_vars; exact jsRead_esc _ _ _ (by decide)
  split
  · subst_vars; exact jsRead_esc _ _ _ (by decide)
  split
  · subst_vars; exact jsRead_esc _ _ _ (by decide)
  · rename_i h1 h2 h3 h4 h5
    exact jsRead_plain c tail h1 h2 h3 h4

/-- Reading back the escaped text, from just after the opening quote, yields exactly the text
and stops at the closing quote the code wrote — whatever follows. -/
theorem jsRead_escape (s rest : Str) : jsRead (jsEscape s ++ '"' :: rest) = some (s, rest) := by
  induction s with
  | nil => rw [jsEscape, List.nil_append, jsRead.eq_def]; simp
  | cons c s ih =>
    simp only [jsEscape, List.append_assoc]
    rw [jsRead_escapeChar, ih]
    rfl

end Pg.C20
