/-
  Evaluation of offered values preserves the belief invariant: the value produced by `evalVE`
  is a well-formed subtree at its destination, and the forest only loses roots (the moved ones).
-/
import PgProofs.SymStep
namespace Pg.Sym
variable {lcs nb : Bool} {sp : Option Bool} {sat : Bool}

theorem ok_of_subset {f g : Forest} (hf : f.ok = true) (h : ∀ x ∈ g.roots, x ∈ f.roots) : g.ok = true := by
  rw [Forest.ok_iff] at *
  intro r hr; exact hf r (h r hr)

theorem relocate_okAt (par : Option Nat) (p : List Key) (t : Tree) (hok : t.okRoot = true) :
    ((t.setPath p).setParent par).okAt par p = true := by
  cases t with
  | leaf a => simp [Tree.setPath, Tree.setParent, Tree.okAt]
  | node m its =>
    unfold Tree.okRoot at hok
    unfold Tree.setPath
    split
    · next heq =>
      simp only [Tree.setParent]
      rw [okAt_node]
      exact ⟨⟨rfl, heq⟩, by rw [← heq]; exact hok⟩
    · simp only [Tree.setParent]
      rw [okAt_node]
      exact ⟨⟨rfl, rfl⟩, setPathItems_ok m.id m.path p its hok⟩

theorem relocateRef_spec (cfg : Cfg) (f : Forest) (pending par : Option Nat) (hobj : Bool) (p : List Key)
    (id : Nat) (hf : f.ok = true) :
    (relocateRef cfg f pending par hobj p id).2.okAt par p = true ∧
      ∀ x ∈ (relocateRef cfg f pending par hobj p id).1.roots, x ∈ f.roots := by
  unfold relocateRef
  split
  · split
    · exact ⟨clone_okAt _ _ _ _ _ _, fun x hx => hx⟩
    · exact ⟨rfl, fun x hx => hx⟩
  · exact ⟨rfl, fun x hx => hx⟩
  · next m its hfind =>
    have hok : (Tree.node m its).okRoot = true := Forest.find?_node_ok f hf id m its hfind
    split
    · refine ⟨relocate_okAt par p _ ?_, fun x hx => hx⟩
      exact okRoot_setPath [] _ (okRoot_setParent none _ hok)
    · split
      · split
        · refine ⟨relocate_okAt par p _ hok, ?_⟩
          intro x hx
          simp only [Forest.removeRoot, List.mem_filter] at hx
          exact hx.1
        · exact ⟨relocate_okAt par p _ hok, fun x hx => hx⟩
      · exact ⟨clone_okAt _ _ _ _ _ _, fun x hx => hx⟩

theorem normObj_ok (cls : Nat) (h : Nat) (p : List Key) (its : Items) (hok : okItems h p its = true) :
    okItems h p (normObjItems cls its) = true := by
  rw [okItems_mem]
  intro kv hkv
  simp only [normObjItems, List.mem_map] at hkv
  obtain ⟨k, _, rfl⟩ := hkv
  simp only
  cases hg : getKey its k with
  | none => simp [Tree.okSub]
  | some c => simp only [Option.getD]; exact getKey_ok hok hg

mutual
  theorem evalVE_spec (cfg : Cfg) (pending : Option Nat) : (ve : VE) → ∀ (f : Forest) (par : Option Nat)
      (hobj hpart : Bool) (p : List Key), f.ok = true →
      (evalVE cfg f pending par hobj hpart p ve).2.okAt par p = true ∧
        ∀ x ∈ (evalVE cfg f pending par hobj hpart p ve).1.roots, x ∈ f.roots
    | .atom a, f, par, hobj, hpart, p, _ => by simp [evalVE, Tree.okAt]
    | .fresh, f, par, hobj, hpart, p, _ => by simp [evalVE, Tree.okAt]
    | .freshTuple n, f, par, hobj, hpart, p, _ => by simp [evalVE, Tree.okAt]
    | .mkRef tgt, f, par, hobj, hpart, p, _ => by simp [evalVE, Tree.okAt, okItems]
    | .ref id, f, par, hobj, hpart, p, hf => by
      simp only [evalVE]
      exact relocateRef_spec cfg f pending par hobj p id hf
    | .typedList items, f, par, hobj, hpart, p, hf => by
      simp only [evalVE]
      have ih := evalItems_spec cfg pending items { f with nextId := f.nextId + 1 } f.nextId false false p (some 0) hf
      refine ⟨?_, ih.2⟩
      rw [okAt_node]
      exact ⟨⟨rfl, rfl⟩, ih.1⟩
    | .node kind sl aw pt items, f, par, hobj, hpart, p, hf => by
      simp only [evalVE]
      have ih := evalItems_spec cfg pending items { f with nextId := f.nextId + 1 } f.nextId
        (match kind with | .obj _ => true | _ => false)
        (if (par.isSome && !sl && aw && !pt && !(match kind with | .obj _ => true | _ => false)) = true then hpart else pt)
        p (match kind with | .list => some 0 | _ => none) hf
      refine ⟨?_, ih.2⟩
      apply sealIf_okAt
      rw [okAt_node]
      refine ⟨⟨rfl, rfl⟩, ?_⟩
      cases kind with
      | dict => exact ih.1
      | list => exact ih.1
      | obj cls => exact normObj_ok cls _ p _ (adoptItems_ok _ _ p _ ih.1)
  theorem evalItems_spec (cfg : Cfg) (pending : Option Nat) : (items : List (Key × VE)) → ∀ (f : Forest) (h : Nat)
      (hobj hpart : Bool) (p : List Key) (pos : Option Nat), f.ok = true →
      okItems h p (evalItems cfg f pending h hobj hpart p pos items).2 = true ∧
        ∀ x ∈ (evalItems cfg f pending h hobj hpart p pos items).1.roots, x ∈ f.roots
    | [], f, h, hobj, hpart, p, pos, _ => by simp [evalItems, okItems]
    | (k0, v) :: r, f, h, hobj, hpart, p, pos, hf => by
      simp only [evalItems]
      have h1 := evalVE_spec cfg pending v f (some h) hobj hpart
        (p ++ [match pos with | some n => Key.i n | none => k0]) hf
      have hf1 := ok_of_subset hf h1.2
      have h2 := evalItems_spec cfg pending r _ h hobj hpart p (pos.map (· + 1)) hf1
      refine ⟨?_, fun x hx => h1.2 x (h2.2 x hx)⟩
      rw [okItems_cons]
      exact ⟨by rw [okSub_iff_okAt]; exact h1.1, h2.1⟩
end

/-! ### storing a value -/

theorem storeKey_local (t : Nat) (k : Key) (v : Tree) (q : List Key) (hv : v.okSub t q = true) :
    LocalOk t (storeKey k k v) := by
  intro m its hid hok
  unfold storeKey
  apply setKey_ok k _ _ its hok
  have := setPath_okSub t q (m.path ++ [k]) v hv
  rw [hid]; exact this

theorem okItems_append {h : Nat} {p : List Key} : (xs ys : Items) → okItems h p xs = true → okItems h p ys = true →
    okItems h p (xs ++ ys) = true := by
  intro xs ys h1 h2
  rw [okItems_mem] at *
  intro kv hkv
  rcases List.mem_append.mp hkv with h | h
  · exact h1 kv h
  · exact h2 kv h

theorem append_local (t : Nat) (k : Key) (v : Tree) (q : List Key) (hv : v.okSub t q = true) :
    LocalOk t (fun m' xs => xs ++ [(k, v.setPath (m'.path ++ [k]))]) := by
  intro m its hid hok
  apply okItems_append _ _ hok
  rw [okItems_cons]
  refine ⟨?_, by simp [okItems]⟩
  have := setPath_okSub t q (m.path ++ [k]) v hv
  rw [hid]; exact this

theorem insert_local (t : Nat) (pos : Nat) (v : Tree) (q : List Key) (hv : v.okSub t q = true) :
    LocalOk t (fun m' xs => reindex m' (insertAt pos v xs)) := by
  intro m its hid hok
  unfold reindex insertAt renumber
  apply setPathItems_selfOk
  intro kv hkv
  obtain ⟨kv1, h1, h2⟩ := renumberFrom_vals 0 _ kv hkv
  simp only [List.mem_append, List.mem_singleton] at h1
  rcases h1 with (h1 | h1) | h1
  · obtain ⟨q', hq'⟩ := selfOk_of_okItems hok kv1 (List.mem_of_mem_take h1)
    exact ⟨q', by rw [← h2]; exact hq'⟩
  · subst h1
    exact ⟨q, by rw [← h2, hid]; exact hv⟩
  · obtain ⟨q', hq'⟩ := selfOk_of_okItems hok kv1 (List.mem_of_mem_drop h1)
    exact ⟨q', by rw [← h2]; exact hq'⟩

end Pg.Sym

namespace Pg.Sym
variable {lcs nb : Bool} {sp : Option Bool} {sat : Bool}

/-! ### the write primitives -/

theorem listReplace_ok (f : Forest) (m : Meta) (its : Items) (index : Int) (pos : Nat) (old : Tree) (ve : VE)
    (hf : f.ok = true) (hits : okItems m.id m.path its = true) (hold : getKey its (Key.i pos) = some old) :
    ∀ g, listReplace (Cfg.fixedWith lcs nb sp sat) f m index pos old ve = some g → g.ok = true := by
  intro g hg
  unfold listReplace at hg
  simp only at hg
  split at hg
  · cases hg
  · cases hg
    have hv := evalVE_spec (Cfg.fixedWith lcs nb sp sat) none ve f (some m.id) false m.part (m.path ++ [Key.i index]) hf
    apply addRoot_ok
    · apply mapAt_ok _ m.id _ _ (ok_of_subset hf hv.2)
      simp only [Cfg.fixedWith, if_true]
      exact storeKey_local m.id _ _ _ (by rw [okSub_iff_okAt]; exact hv.1)
    · exact detachFrom_ok .list (getKey_ok hits hold)

theorem listInsert_ok (f : Forest) (m : Meta) (its : Items) (index : Int) (len : Nat) (ve : VE) (hf : f.ok = true) :
    ∀ g, listInsert (Cfg.fixedWith lcs nb sp sat) f m its index len ve = some g → g.ok = true := by
  intro g hg
  unfold listInsert at hg
  simp only [Cfg.fixedWith, if_true] at hg
  split at hg
  · next own _ =>
    split at hg
    · cases hg
    · cases hg
      apply mapAt_ok _ m.id _ _ (ok_of_subset hf (fun x hx => hx))
      exact insert_local m.id _ _ _ (by rw [okSub_iff_okAt]; exact clone_okAt _ _ _ _ _ _)
  · split at hg
    · cases hg
    · cases hg
      have hv := evalVE_spec (Cfg.fixedWith lcs nb sp sat) none ve f (some m.id) false m.part (m.path ++ [Key.i index]) hf
      apply mapAt_ok _ m.id _ _ (ok_of_subset hf hv.2)
      exact insert_local m.id _ _ _ (by rw [okSub_iff_okAt]; exact hv.1)

theorem listAppend_ok (f : Forest) (m : Meta) (index : Int) (ve : VE) (hf : f.ok = true) :
    ∀ g, listAppend (Cfg.fixedWith lcs nb sp sat) f m index ve = some g → g.ok = true := by
  intro g hg
  unfold listAppend at hg
  simp only at hg
  split at hg
  · cases hg
  · cases hg
    have hv := evalVE_spec (Cfg.fixedWith lcs nb sp sat) none ve f (some m.id) false m.part (m.path ++ [Key.i index]) hf
    apply mapAt_ok _ m.id _ _ (ok_of_subset hf hv.2)
    exact append_local m.id _ _ _ (by rw [okSub_iff_okAt]; exact hv.1)

theorem okOrCycle_ok {o : Option Forest} {r : Forest × Bool} (h : okOrCycle o = .ok r) : o = some r.1 ∧ r.2 = true := by
  cases o with
  | none => simp [okOrCycle] at h
  | some g => simp only [okOrCycle, Except.ok.injEq] at h; subst h; exact ⟨rfl, rfl⟩

theorem rawSetList_cases (cfg : Cfg) (f : Forest) (m : Meta) (its : Items) (key : Int) (ins : Bool) (ve : VE) :
    ∀ r, rawSetList cfg f m its key ins ve = .ok r →
      r = (f, false) ∨
      (∃ (index : Int) (pos : Nat) (old : Tree), getKey its (Key.i pos) = some old ∧
        listReplace cfg f m index pos old ve = some r.1) ∨
      (∃ index len, listInsert cfg f m its index len ve = some r.1) ∨
      listAppend cfg f m its.length ve = some r.1 := by
  intro r hr
  unfold rawSetList at hr
  simp only at hr
  by_cases hk : m.kind ≠ .list
  · rw [if_pos hk] at hr; cases hr
  rw [if_neg hk] at hr
  generalize listNormIndex cfg key (its.length) ins = i0 at hr
  by_cases h1 : (decide (i0 ≥ (its.length : Int)) && ve.isMissing && !ins) = true
  · rw [if_pos h1] at hr; left; cases hr; rfl
  rw [if_neg h1] at hr
  generalize hidx : (if i0 ≥ (its.length : Int) then (its.length : Int) else i0) = idx at hr
  by_cases h2 : (decide (idx < (its.length : Int)) && !ins) = true
  · rw [if_pos h2] at hr
    by_cases h3 : idx < -(its.length : Int)
    · rw [if_pos h3] at hr; cases hr
    rw [if_neg h3] at hr
    split at hr
    · cases hr
    · next old hold =>
      by_cases h4 : sameValue ve (some old) = true
      · rw [if_pos h4] at hr; left; cases hr; rfl
      · rw [if_neg h4] at hr
        by_cases h6 : (m.typed && !acceptsTyped f ve) = true
        · rw [if_pos h6] at hr; cases hr
        · rw [if_neg h6] at hr; right; left; exact ⟨_, _, old, hold, (okOrCycle_ok hr).1⟩
  rw [if_neg h2] at hr
  by_cases h7 : (m.typed && !acceptsTyped f ve) = true
  · rw [if_pos h7] at hr; cases hr
  rw [if_neg h7] at hr
  by_cases h5 : idx < (its.length : Int)
  · rw [if_pos h5] at hr; right; right; left; exact ⟨_, _, (okOrCycle_ok hr).1⟩
  · rw [if_neg h5] at hr; right; right; right
    have : idx = (its.length : Int) := by
      split at hidx
      · exact hidx.symm
      · omega
    rw [this] at hr; exact (okOrCycle_ok hr).1

theorem rawSetList_kind (cfg : Cfg) (f : Forest) (m : Meta) (its : Items) (key : Int) (ins : Bool) (ve : VE) :
    ∀ r, rawSetList cfg f m its key ins ve = .ok r → m.kind = .list := by
  intro r hr
  unfold rawSetList at hr
  by_cases hk : m.kind ≠ .list
  · rw [if_pos hk] at hr; cases hr
  · exact Decidable.of_not_not hk

theorem rawSetList_ok (f : Forest) (m : Meta) (its : Items) (key : Int) (ins : Bool) (ve : VE)
    (hf : f.ok = true) (hits : okItems m.id m.path its = true) :
    ∀ r, rawSetList (Cfg.fixedWith lcs nb sp sat) f m its key ins ve = .ok r → r.1.ok = true := by
  intro r hr
  rcases rawSetList_cases (Cfg.fixedWith lcs nb sp sat) f m its key ins ve r hr with rfl | ⟨i, p, old, hold, h⟩ | ⟨i, l, h⟩ | h
  · exact hf
  · exact listReplace_ok f m its i p old ve hf hits hold _ h
  · exact listInsert_ok f m its i l ve hf _ h
  · exact listAppend_ok f m _ ve hf _ h

theorem clearConsumed_ok (f : Forest) : f.clearConsumed.ok = f.ok := rfl

theorem dictStore_ok (f : Forest) (m : Meta) (its : Items) (key : Key) (ve : VE)
    (hf : f.ok = true) (hits : okItems m.id m.path its = true) :
    ∀ g, dictStore (Cfg.fixedWith lcs nb sp sat) f m its key ve = some g → g.ok = true := by
  intro g hg
  unfold dictStore dictStoreCore at hg
  simp only at hg
  split at hg
  · cases hg
  cases hg
  have hf0 : f.clearConsumed.ok = true := hf
  have hv := evalVE_spec (Cfg.fixedWith lcs nb sp sat) ((dictDetached its key).bind Tree.id?) ve f.clearConsumed (some m.id)
    (isObjKind m.kind) m.part (m.path ++ [key]) hf0
  have h3 : ((Forest.mapAt (evalVE (Cfg.fixedWith lcs nb sp sat) f.clearConsumed ((dictDetached its key).bind Tree.id?) (some m.id)
      (isObjKind m.kind) m.part (m.path ++ [key]) ve).1 m.id
      (storeKey key key (adoptPartial (isObjKind m.kind) m.part
        (evalVE (Cfg.fixedWith lcs nb sp sat) f.clearConsumed ((dictDetached its key).bind Tree.id?) (some m.id)
      (isObjKind m.kind) m.part (m.path ++ [key]) ve).2))).clearConsumed).ok = true := by
    rw [clearConsumed_ok]
    apply mapAt_ok _ m.id _ _ (ok_of_subset hf0 hv.2)
    exact storeKey_local m.id _ _ _ (by rw [okSub_iff_okAt]; exact adopt_okAt _ _ _ _ _ hv.1)
  split
  · exact h3
  · exact addRoots_ok _ _ h3 (dictDetached_ok hits)

theorem rawSetDict_cases (cfg : Cfg) (f : Forest) (m : Meta) (its : Items) (key : Key) (ve : VE) :
    ∀ r, rawSetDict cfg f m its key ve = .ok r →
      r = (f, false) ∨ r = (dictErase f m its key, true) ∨
      dictStore cfg f m its key (if ve.isMissing then VE.atom .none else ve) = some r.1 := by
  intro r hr
  unfold rawSetDict at hr
  split at hr
  · cases hr; exact Or.inl rfl
  split at hr
  · cases hr; exact Or.inl rfl
  split at hr
  · cases hr
  split at hr
  · split at hr
    · cases hr; exact Or.inr (Or.inl rfl)
    · cases hr; exact Or.inl rfl
  · exact Or.inr (Or.inr (okOrCycle_ok hr).1)

theorem rawSetDict_ok (f : Forest) (m : Meta) (its : Items) (key : Key) (ve : VE)
    (hf : f.ok = true) (hits : okItems m.id m.path its = true) :
    ∀ r, rawSetDict (Cfg.fixedWith lcs nb sp sat) f m its key ve = .ok r → r.1.ok = true := by
  intro r hr
  rcases rawSetDict_cases (Cfg.fixedWith lcs nb sp sat) f m its key ve r hr with rfl | rfl | h
  · exact hf
  · exact dictErase_ok f m its key hf hits
  · exact dictStore_ok f m its key _ hf hits _ h

theorem rawSet_ok (f : Forest) (t : Nat) (key : Key) (ins : Bool) (ve : VE) (hf : f.ok = true) :
    ∀ r, rawSet (Cfg.fixedWith lcs nb sp sat) f t key ins ve = .ok r → r.1.ok = true := by
  intro r hr
  unfold rawSet at hr
  split at hr
  · next m its hfind =>
    have hits := Forest.find?_node_ok f hf t m its hfind
    split at hr
    · exact rawSetList_ok f m its _ ins ve hf hits r hr
    · cases hr
    · exact rawSetDict_ok f m its _ ve hf hits r hr
  · cases hr

theorem finish_ok (f : Forest) (n : Bool) (r : Except Err (Forest × Bool)) (targets : List Nat) (hf : f.ok = true)
    (hr : ∀ x, r = .ok x → x.1.ok = true) : (finish f n r targets).forest.ok = true := by
  unfold finish
  split
  · exact hf
  · next f' upd =>
    have := hr (f', upd) rfl
    split
    · exact notify_ok _ _ this
    · exact this

theorem extendLoop_ok (t : Nat) : (vs : List VE) → ∀ (f : Forest) (upd : Bool), f.ok = true →
    ∀ r, extendLoop (Cfg.fixedWith lcs nb sp sat) t f vs upd = .ok r → r.1.ok = true
  | [], f, upd, hf, r, hr => by simp only [extendLoop] at hr; cases hr; exact hf
  | v :: vs, f, upd, hf, r, hr => by
    simp only [extendLoop] at hr
    split at hr
    · next m its hfind =>
      have hits := Forest.find?_node_ok f hf t m its hfind
      split at hr
      · cases hr
      · next f' u heq =>
        exact extendLoop_ok t vs f' _ (rawSetList_ok f m its _ false v hf hits (f', u) heq) r hr
    · cases hr

theorem setItem_ok (f : Forest) (n : Bool) (m : Meta) (its : Items) (k : Key) (v : VE)
    (hf : f.ok = true) (hits : okItems m.id m.path its = true) :
    (setItem (Cfg.fixedWith lcs nb sp sat) f n m its k v).forest.ok = true := by
  unfold setItem
  split; · exact hf
  split; · exact hf
  split
  · simp only
    split
    · exact hf
    · exact finish_ok f n _ _ hf (rawSetList_ok f m its _ false v hf hits)
  · exact hf
  · exact finish_ok f n _ _ hf (rawSetDict_ok f m its _ v hf hits)

theorem rebindOne_ok (f : Forest) (t : Nat) (path : List Key) (ins : Bool) (v : VE) (hf : f.ok = true) :
    ∀ r, rebindOne (Cfg.fixedWith lcs nb sp sat) f t path ins v = .ok r → r.1.ok = true := by
  intro r hr
  unfold rebindOne at hr
  split at hr
  · cases hr
  · cases hr
  · split at hr
    · split at hr
      · cases hr
      · split at hr
        · cases hr
        · next f' upd heq =>
          cases hr
          exact rawSet_ok f _ _ _ v hf (f', upd) heq
    · split at hr <;> cases hr

theorem rebindLoop_ok (t : Nat) : (pairs : List (List Key × Bool × VE)) → ∀ (f : Forest) (acc : List Nat),
    f.ok = true → (rebindLoop (Cfg.fixedWith lcs nb sp sat) t f pairs acc).1.ok = true
  | [], f, acc, hf => by simp only [rebindLoop]; exact hf
  | (p, ins, v) :: rest, f, acc, hf => by
    simp only [rebindLoop]
    split
    · exact hf
    · next f' u heq =>
      exact rebindLoop_ok t rest f' _ (rebindOne_ok f t p ins v hf (f', u) heq)

theorem doRebind_ok (f : Forest) (n : Bool) (t : Nat) (m : Meta) (pairs : List (List Key × Bool × VE))
    (skip : Option Bool) (raise : Bool) (hf : f.ok = true) :
    (doRebind (Cfg.fixedWith lcs nb sp sat) f n t m pairs skip raise).forest.ok = true := by
  unfold doRebind
  split; · exact hf
  split; · exact hf
  split
  · exact hf
  · simp only
    have h := rebindLoop_ok (lcs := lcs) (nb := nb) (sp := sp) (sat := sat) t (if m.kind = Kind.list then sortPairsDesc pairs else pairs) f [] hf
    split
    · next f' x e heq => rw [heq] at h; exact h
    · next f' targets heq =>
      rw [heq] at h
      simp only
      split
      · exact h
      · exact notify_ok _ _ h

theorem slicePrepare_ok (m : Meta) (ix : Nat → Int) : (vs : List VE) → ∀ (f : Forest) (i : Nat), f.ok = true →
    (slicePrepare (Cfg.fixedWith lcs nb sp sat) m ix f i vs).1.ok = true
  | [], f, i, hf => by simp only [slicePrepare]; exact hf
  | v :: vs, f, i, hf => by
    simp only [slicePrepare]
    by_cases hin : sliceInPlace f m (ix i) v = true
    · rw [if_pos hin]; exact slicePrepare_ok m ix vs f (i + 1) hf
    · rw [if_neg hin]
      have hv := evalVE_spec (Cfg.fixedWith lcs nb sp sat) none v f (some m.id) false m.part (m.path ++ [Key.i (ix i)]) hf
      split
      · exact slicePrepare_ok m ix vs _ (i + 1) (ok_of_subset hf hv.2)
      · next nm nits heq =>
        apply slicePrepare_ok m ix vs _ (i + 1)
        rw [Forest.ok_iff]
        intro r hr
        simp only [List.mem_append, List.mem_singleton] at hr
        rcases hr with hr | rfl
        · exact (Forest.ok_iff f).mp hf r (hv.2 r hr)
        · have := hv.1
          rw [heq] at this
          exact okRoot_of_okAt this

theorem sliceLoop_ok (t : Nat) (start step : Int) : (vs : List (Bool × VE)) → ∀ (f : Forest) (i : Nat) (upd : Bool),
    f.ok = true → ∀ r, sliceLoop (Cfg.fixedWith lcs nb sp sat) t start step f i vs upd = .ok r → r.1.ok = true
  | [], f, i, upd, hf, r, hr => by simp only [sliceLoop] at hr; cases hr; exact hf
  | (ins, v) :: vs, f, i, upd, hf, r, hr => by
    simp only [sliceLoop] at hr
    split at hr
    · next m its hfind =>
      have hits := Forest.find?_node_ok f hf t m its hfind
      split at hr
      · cases hr
      · next f' u heq =>
        exact sliceLoop_ok t start step vs f' _ _ (rawSetList_ok f m its _ ins v hf hits (f', u) heq) r hr
    · cases hr

end Pg.Sym
