/-
  Local lemmas: each mutator is a transformer of the item list of one node; here is what each
  transformer needs to preserve the belief invariant. Plus `find?` and notification.
-/
import PgProofs.Sym
namespace Pg.Sym

theorem okItems_mem {h : Nat} {p : List Key} : (its : Items) →
    (okItems h p its = true ↔ ∀ kv ∈ its, kv.2.okSub h (p ++ [kv.1]) = true)
  | [] => by simp [okItems]
  | (k, c) :: r => by
    rw [okItems_cons, okItems_mem r]
    simp only [List.mem_cons, forall_eq_or_imp]

/-- every member believes parent `h` and is consistent w.r.t. its own believed path. -/
def SelfOk (h : Nat) (its : Items) : Prop := ∀ kv ∈ its, ∃ q, kv.2.okSub h q = true

theorem selfOk_of_okItems {h : Nat} {p : List Key} {its : Items} (hok : okItems h p its = true) : SelfOk h its := by
  rw [okItems_mem] at hok
  intro kv hkv
  exact ⟨_, hok kv hkv⟩

/-- re-indexing: whatever the members believed about their position, after
`_update_children_paths` they believe their actual key. -/
theorem setPathItems_selfOk (h : Nat) (p : List Key) : (ys : Items) → SelfOk h ys →
    okItems h p (setPathItems p ys) = true
  | [], _ => by simp [setPathItems, okItems]
  | (k, c) :: r, hs => by
    unfold setPathItems
    rw [okItems_cons]
    obtain ⟨q, hq⟩ := hs (k, c) (by simp)
    exact ⟨setPath_okSub h q (p ++ [k]) c hq, setPathItems_selfOk h p r (fun kv hkv => hs kv (by simp [hkv]))⟩

theorem renumberFrom_vals (n : Nat) : (ys : Items) → ∀ kv ∈ renumberFrom n ys, ∃ kv' ∈ ys, kv'.2 = kv.2
  | [], kv, hkv => by simp [renumberFrom] at hkv
  | (k, c) :: r, kv, hkv => by
    simp only [renumberFrom, List.mem_cons] at hkv
    rcases hkv with rfl | hkv
    · exact ⟨(k, c), by simp, rfl⟩
    · obtain ⟨kv', h1, h2⟩ := renumberFrom_vals (n + 1) r kv hkv
      exact ⟨kv', by simp [h1], h2⟩

/-- a transformer that invents no values. -/
def NoNewValues (g : Items → Items) : Prop := ∀ xs, ∀ kv ∈ g xs, ∃ kv' ∈ xs, kv'.2 = kv.2

theorem selfOk_of_vals {h : Nat} {xs ys : Items} (hs : SelfOk h xs)
    (hv : ∀ kv ∈ ys, ∃ kv' ∈ xs, kv'.2 = kv.2) : SelfOk h ys := by
  intro kv hkv
  obtain ⟨kv', h1, h2⟩ := hv kv hkv
  obtain ⟨q, hq⟩ := hs kv' h1
  exact ⟨q, by rw [← h2]; exact hq⟩

/-- rearrange / shrink, renumber, re-index: the local lemma behind `reverse`, `sort`,
`del`, `pop`, `remove` on the patched tree. -/
theorem rearrange_local (t : Nat) (g : Items → Items) (hg : NoNewValues g) :
    LocalOk t (fun m xs => reindex m (renumber (g xs))) := by
  intro m its _ hok
  unfold reindex renumber
  apply setPathItems_selfOk
  apply selfOk_of_vals (selfOk_of_okItems hok)
  intro kv hkv
  obtain ⟨kv1, h1, h2⟩ := renumberFrom_vals 0 _ kv hkv
  obtain ⟨kv2, h3, h4⟩ := hg its kv1 h1
  exact ⟨kv2, h3, by rw [h4, h2]⟩

theorem noNew_reverse : NoNewValues List.reverse := by
  intro xs kv hkv
  exact ⟨kv, by simpa using hkv, rfl⟩

theorem mem_insertByRank {α : Type} (x : Int × α) : (l : List (Int × α)) → ∀ y, y ∈ insertByRank x l ↔ y = x ∨ y ∈ l
  | [], y => by simp [insertByRank]
  | z :: zs, y => by
    unfold insertByRank
    split
    · simp
    · simp only [List.mem_cons, mem_insertByRank x zs y]
      constructor
      · rintro (h | h | h)
        · exact Or.inr (Or.inl h)
        · exact Or.inl h
        · exact Or.inr (Or.inr h)
      · rintro (h | h | h)
        · exact Or.inr (Or.inl h)
        · exact Or.inl h
        · exact Or.inr (Or.inr h)

theorem mem_sortByRank {α : Type} : (l : List (Int × α)) → ∀ y, y ∈ sortByRank l ↔ y ∈ l
  | [], y => by simp [sortByRank]
  | x :: xs, y => by
    simp only [sortByRank, mem_insertByRank, mem_sortByRank xs y, List.mem_cons]

theorem noNew_pySort (ranks : List Int) (rev : Bool) : NoNewValues (pySort ranks rev) := by
  intro xs kv hkv
  unfold pySort at hkv
  simp only [List.mem_map] at hkv
  obtain ⟨⟨r, kv0⟩, hmem, rfl⟩ := hkv
  have h1 : (r, kv0) ∈ ranks.zip xs := by
    cases rev <;> simp [mem_sortByRank] at hmem <;> exact hmem
  exact ⟨kv0, (List.of_mem_zip h1).2, rfl⟩

theorem noNew_removeAt (n : Nat) : NoNewValues (fun xs => xs.take n ++ xs.drop (n + 1)) := by
  intro xs kv hkv
  simp only [List.mem_append] at hkv
  rcases hkv with h | h
  · exact ⟨kv, List.mem_of_mem_take h, rfl⟩
  · exact ⟨kv, List.mem_of_mem_drop h, rfl⟩

theorem clear_local (t : Nat) : LocalOk t (fun _ _ => []) := by
  intro m its _ _; simp [okItems]

theorem mem_eraseKey (k : Key) : (its : Items) → ∀ kv ∈ eraseKey k its, kv ∈ its
  | [], kv, h => by simp [eraseKey] at h
  | (k', c) :: r, kv, h => by
    unfold eraseKey at h
    split at h
    · simp [h]
    · simp only [List.mem_cons] at h ⊢
      rcases h with h | h
      · exact Or.inl h
      · exact Or.inr (mem_eraseKey k r kv h)

theorem erase_local (t : Nat) (k : Key) : LocalOk t (fun _ xs => eraseKey k xs) := by
  intro m its _ hok
  rw [okItems_mem] at hok ⊢
  intro kv hkv
  exact hok kv (mem_eraseKey k its kv hkv)

theorem setKey_ok {h : Nat} {p : List Key} (k : Key) (v : Tree) (hv : v.okSub h (p ++ [k]) = true) :
    (its : Items) → okItems h p its = true → okItems h p (setKey k v its) = true
  | [], _ => by simp [setKey, okItems, hv]
  | (k', c) :: r, hok => by
    rw [okItems_cons] at hok
    unfold setKey
    split
    · rw [okItems_cons]; exact ⟨hv, hok.2⟩
    · rw [okItems_cons]; exact ⟨hok.1, setKey_ok k v hv r hok.2⟩

theorem getKey_ok {h : Nat} {p : List Key} {its : Items} {k : Key} {c : Tree}
    (hok : okItems h p its = true) (hg : getKey its k = some c) : c.okSub h (p ++ [k]) = true := by
  unfold getKey at hg
  simp only [Option.map_eq_some_iff] at hg
  obtain ⟨kv, hfind, rfl⟩ := hg
  have hm := List.mem_of_find?_eq_some hfind
  have hk := List.find?_some hfind
  rw [okItems_mem] at hok
  have := hok kv hm
  simp only [beq_iff_eq] at hk
  rw [hk] at this; exact this

/-! ### Notification: `List._on_change` (drop MISSING placeholders, re-index by last key) -/

theorem okItems_filter {h : Nat} {p : List Key} (q : Key × Tree → Bool) (its : Items)
    (hok : okItems h p its = true) : okItems h p (its.filter q) = true := by
  rw [okItems_mem] at hok ⊢
  intro kv hkv
  exact hok kv (List.mem_filter.mp hkv).1

theorem lastKey_append (p : List Key) (k : Key) : lastKey? (p ++ [k]) = some k := by
  simp [lastKey?]

theorem onChange_ok (m : Meta) : (ys : Items) → (n : Nat) → okItems m.id m.path ys = true →
    okItems m.id m.path (onChangeReindex m (renumberFrom n ys)) = true
  | [], _, _ => by simp [renumberFrom, onChangeReindex, okItems]
  | (k, c) :: r, n, hok => by
    rw [okItems_cons] at hok
    simp only [renumberFrom, onChangeReindex]
    rw [okItems_cons]
    refine ⟨?_, onChange_ok m r (n + 1) hok.2⟩
    cases c with
    | leaf a => simp [Tree.okSub]
    | node cm cits =>
      have hc := hok.1
      have hpath : cm.path = m.path ++ [k] := (okSub_node.mp hc).1.2
      simp only
      split
      · next hlast =>
        rw [hpath, lastKey_append] at hlast
        have : k = Key.i n := by simpa using hlast
        rw [← this]; exact hc
      · exact setPath_okSub m.id (m.path ++ [k]) _ _ hc

theorem onChangeAt_local (t : Nat) : LocalOk t (fun m its => if m.kind = .list then listOnChange m its else its) := by
  intro m its _ hok
  simp only
  split
  · unfold listOnChange renumber
    exact onChange_ok m _ 0 (okItems_filter _ its hok)
  · exact hok

theorem onChangeAt_ok (f : Forest) (id : Nat) (hf : f.ok = true) : (onChangeAt f id).ok = true :=
  mapAt_ok f id _ (onChangeAt_local id) hf

theorem notify_ok (f : Forest) (targets : List Nat) (hf : f.ok = true) : (notify f targets).ok = true := by
  unfold notify
  generalize ((targets.flatMap (chainFrom f (f.ids.length + 1))).eraseDups) = chain
  induction chain generalizing f with
  | nil => exact hf
  | cons c cs ih => exact ih (onChangeAt f c) (onChangeAt_ok f c hf)

/-! ### find? returns internally consistent subtrees -/

mutual
  theorem find?_okSub (id : Nat) (h : Nat) (p : List Key) : (t : Tree) → t.okSub h p = true →
      ∀ s, t.find? id = some s → ∃ h' p', s.okSub h' p' = true
    | .leaf _, _, s, hs => by simp [Tree.find?] at hs
    | .node m its, hok, s, hs => by
      unfold Tree.find? at hs
      split at hs
      · cases hs; exact ⟨h, p, hok⟩
      · exact findItems?_ok id m.id p its (okSub_node.mp hok).2 s hs
  theorem findItems?_ok (id : Nat) (h : Nat) (p : List Key) : (its : Items) → okItems h p its = true →
      ∀ s, findItems? id its = some s → ∃ h' p', s.okSub h' p' = true
    | [], _, s, hs => by simp [findItems?] at hs
    | (k, c) :: r, hok, s, hs => by
      rw [okItems_cons] at hok
      unfold findItems? at hs
      split at hs
      · next t heq => cases hs; exact find?_okSub id h (p ++ [k]) c hok.1 _ heq
      · exact findItems?_ok id h p r hok.2 s hs
end

/-- a node found in a well-formed forest is internally consistent: its children agree with its
own believed path. -/
theorem Forest.find?_node_ok (f : Forest) (hf : f.ok = true) (id : Nat) (m : Meta) (its : Items)
    (hfind : f.find? id = some (.node m its)) : okItems m.id m.path its = true := by
  unfold Forest.find? at hfind
  rw [List.findSome?_eq_some_iff] at hfind
  obtain ⟨_, r, _, _, hr, _⟩ := hfind
  rw [Forest.ok_iff] at hf
  have hrm : r ∈ f.roots := by
    rename_i l₁ l₂ heq hnone
    rw [heq]; simp
  have hrok := hf r hrm
  cases r with
  | leaf a => simp [Tree.find?] at hr
  | node rm rits =>
    unfold Tree.find? at hr
    split at hr
    · cases hr; exact hrok
    · obtain ⟨h', p', hs⟩ := findItems?_ok id rm.id rm.path rits hrok _ hr
      have := (okSub_node.mp hs)
      rw [this.1.2]; exact this.2

end Pg.Sym
