/-
  Helper lemmas for C19 (visitor ↔ ∀ nodes; first violation; scopes).
-/
import PgModel.Code
namespace Pg.C19
open Node

variable {κ : Type} (gate : κ → List Perm) (ps : PermSet)

mutual
  theorem validate_iff (n : Node κ) :
      validate gate ps n = true ↔ ∀ m ∈ nodes n, nodeOk gate ps m.kind = true := by
    cases n with
    | mk k l cs =>
      simp only [validate, nodes, Bool.and_eq_true, List.mem_cons, forall_eq_or_imp]
      rw [validateAll_iff cs]
      rfl
  theorem validateAll_iff (cs : List (Node κ)) :
      validateAll gate ps cs = true ↔ ∀ m ∈ nodesAll cs, nodeOk gate ps m.kind = true := by
    cases cs with
    | nil => simp [validateAll, nodesAll]
    | cons c cs =>
      simp only [validateAll, nodesAll, Bool.and_eq_true, List.mem_append]
      rw [validate_iff c, validateAll_iff cs]
      constructor
      · rintro ⟨h1, h2⟩ m (hm | hm)
        · exact h1 m hm
        · exact h2 m hm
      · intro h
        exact ⟨fun m hm => h m (Or.inl hm), fun m hm => h m (Or.inr hm)⟩
end

mutual
  theorem firstViolation_none_iff (n : Node κ) :
      firstViolation gate ps n = none ↔ validate gate ps n = true := by
    cases n with
    | mk k l cs =>
      simp only [firstViolation, validate, Bool.and_eq_true]
      by_cases h : nodeOk gate ps k = true
      · simp [h, firstViolationAll_none_iff cs]
      · simp [h]
  theorem firstViolationAll_none_iff (cs : List (Node κ)) :
      firstViolationAll gate ps cs = none ↔ validateAll gate ps cs = true := by
    cases cs with
    | nil => simp [firstViolationAll, validateAll]
    | cons c cs =>
      simp only [firstViolationAll, validateAll, Bool.and_eq_true]
      have h1 := firstViolation_none_iff c
      have h2 := firstViolationAll_none_iff cs
      cases hc : firstViolation gate ps c with
      | none =>
        simp only [hc, true_iff] at h1
        simp [h1, h2]
      | some l =>
        have : ¬ validate gate ps c = true := by
          intro hv; rw [← h1] at hv; rw [hc] at hv; cases hv
        simp [this]
end

mutual
  /-- The reported line is the line of some visited node that is refused. -/
  theorem firstViolation_sound (n : Node κ) (l : Nat) :
      firstViolation gate ps n = some l →
        ∃ m ∈ nodes n, m.line = l ∧ nodeOk gate ps m.kind = false := by
    cases n with
    | mk k l' cs =>
      simp only [firstViolation, nodes]
      by_cases h : nodeOk gate ps k = true
      · simp only [h, if_true]
        intro hv
        obtain ⟨m, hm, hl, hk⟩ := firstViolationAll_sound cs l hv
        exact ⟨m, List.mem_cons_of_mem _ hm, hl, hk⟩
      · simp only [h]
        intro hv
        simp at hv
        refine ⟨.mk k l' cs, List.mem_cons_self, ?_, ?_⟩
        · simpa [Node.line] using hv
        · simpa [Node.kind] using h
  theorem firstViolationAll_sound (cs : List (Node κ)) (l : Nat) :
      firstViolationAll gate ps cs = some l →
        ∃ m ∈ nodesAll cs, m.line = l ∧ nodeOk gate ps m.kind = false := by
    cases cs with
    | nil => simp [firstViolationAll]
    | cons c cs =>
      simp only [firstViolationAll, nodesAll]
      cases hc : firstViolation gate ps c with
      | some l1 =>
        intro hv
        simp at hv
        obtain ⟨m, hm, hl, hk⟩ := firstViolation_sound c l1 hc
        exact ⟨m, List.mem_append_left _ hm, by rw [hl, hv], hk⟩
      | none =>
        intro hv
        obtain ⟨m, hm, hl, hk⟩ := firstViolationAll_sound cs l hv
        exact ⟨m, List.mem_append_right _ hm, hl, hk⟩
end

theorem nodeOk_false_of_ungranted {k : κ} {p : Perm} (hp : p ∈ gate k)
    (hg : granted ps p = false) : nodeOk gate ps k = false := by
  unfold nodeOk
  rw [Bool.eq_false_iff]
  intro h
  rw [List.all_eq_true] at h
  have := h p hp
  rw [hg] at this
  cases this

theorem granted_inter (a b : PermSet) (p : Perm) :
    granted (a.inter b) p = (granted a p && granted b p) := by
  unfold PermSet.inter granted
  rw [List.contains_eq_mem, List.contains_eq_mem]
  by_cases ha : p ∈ a <;> by_cases hb : p ∈ b <;>
    simp [List.mem_filter, ha, hb, List.contains_eq_mem]

/-! ### Scopes -/

theorem scopeNest_some (outer : PermSet) (ps : List PermSet) :
    scopeNest (some outer) ps = some outer := by
  induction ps with
  | nil => rfl
  | cons p ps ih => simpa [scopeNest, scopeEnter] using ih

theorem scopeRun_restores (slot : Slot) (ps : List PermSet) : scopeRun slot ps = slot := by
  induction ps generalizing slot with
  | nil => rfl
  | cons p ps ih =>
    cases slot with
    | none => simp [scopeRun, scopeEnter, scopeExit]
    | some o => simp [scopeRun, scopeEnter, scopeExit, ih]

end Pg.C19
