/-
  The multi-choice odometer: `Choices._next_dna` (right-to-left loop with
  `next_value_for_choice` / `min_remaining_choices`) computes the successor in the lexicographic
  enumeration `enumSeq`, for every `distinct × sorted` mode.
-/
import PgProofs.GenoEnum
import PgProofs.GenoValid
namespace Pg.Geno
open DNA

/-! ### Stage A: indexed concatenation with possibly empty blocks -/

section
variable {β γ : Type}

theorem walkIdx_eq_nil {F : Nat → β → List γ} : ∀ (s : Nat) (l : List β),
    (∀ i b, l[i]? = some b → F (s + i) b = []) → walkIdx F s l = []
  | _, [], _ => rfl
  | s, b :: bs, h => by
    have h0 : F s b = [] := by simpa using h 0 b rfl
    have hr : walkIdx F (s + 1) bs = [] :=
      walkIdx_eq_nil (s + 1) bs (fun i b' hb => by
        have := h (i + 1) b' (by simpa using hb)
        rwa [show s + (i + 1) = s + 1 + i by omega] at this)
    simp [walkIdx, h0, hr]

theorem head?_walkIdx_skip {F : Nat → β → List γ} : ∀ (l : List β) (s i : Nat) (b : β),
    l[i]? = some b → (∀ i' b', i' < i → l[i']? = some b' → F (s + i') b' = []) →
    (walkIdx F s l).head? =
      ((F (s + i) b).head?).orElse fun _ => (walkIdx F (s + i + 1) (l.drop (i + 1))).head?
  | [], s, i, b, h, _ => by simp at h
  | a :: as, s, 0, b, h, _ => by
    simp only [List.getElem?_cons_zero, Option.some.injEq] at h
    subst h
    simp only [walkIdx, Nat.add_zero, List.drop_succ_cons, List.drop_zero, List.head?_append]
    cases (F s a).head? <;> simp [Option.orElse]
  | a :: as, s, i + 1, b, h, hempty => by
    have h0 : F s a = [] := by simpa using hempty 0 a (by omega) rfl
    simp only [List.getElem?_cons_succ] at h
    have := head?_walkIdx_skip as (s + 1) i b h (fun i' b' hi' hb' => by
      have := hempty (i' + 1) b' (by omega) (by simpa using hb')
      rwa [show s + (i' + 1) = s + 1 + i' by omega] at this)
    simp only [walkIdx, h0, List.nil_append, List.drop_succ_cons]
    rw [this, show s + 1 + i = s + (i + 1) by omega]

variable [DecidableEq γ]

theorem succIn_walkIdx_gen {F : Nat → β → List γ} {x : γ} : ∀ (l : List β) (s i : Nat) (b : β),
    l[i]? = some b → x ∈ F (s + i) b →
    (∀ i' b', i' < i → l[i']? = some b' → x ∉ F (s + i') b') →
    succIn (walkIdx F s l) x =
      (succIn (F (s + i) b) x).orElse fun _ => (walkIdx F (s + i + 1) (l.drop (i + 1))).head?
  | [], s, i, b, h, _, _ => by simp at h
  | a :: as, s, 0, b, h, hx, _ => by
    simp only [List.getElem?_cons_zero, Option.some.injEq] at h
    subst h
    simp only [Nat.add_zero] at hx
    simp only [walkIdx, Nat.add_zero, List.drop_succ_cons, List.drop_zero]
    exact succIn_append_left hx
  | a :: as, s, i + 1, b, h, hx, hnot => by
    have h0 : x ∉ F s a := by simpa using hnot 0 a (by omega) rfl
    simp only [List.getElem?_cons_succ] at h
    have := succIn_walkIdx_gen as (s + 1) i b h (by rwa [show s + 1 + i = s + (i + 1) by omega])
      (fun i' b' hi' hb' => by
        have := hnot (i' + 1) b' (by omega) (by simpa using hb')
        rwa [show s + (i' + 1) = s + 1 + i' by omega] at this)
    simp only [walkIdx, List.drop_succ_cons]
    rw [succIn_append_right h0, this, show s + 1 + i = s + (i + 1) by omega]

end

/-! ### Stage B: the admissible candidates and `min_remaining_choices` -/

/-- The admissible next candidates after `prior`, ascending. -/
def poss (n : Nat) (dd ss : Bool) (prior : List Nat) : List Nat :=
  (List.range n).filter (admissible dd ss prior)

/-- What `prior ++ [x]` adds to the admissibility test. -/
def extraAdm (dd ss : Bool) (x : Nat) (y : Nat) : Bool := (!dd || y != x) && (!ss || decide (x ≤ y))

theorem admissible_snoc (dd ss : Bool) (prior : List Nat) (x y : Nat) :
    admissible dd ss (prior ++ [x]) y = (admissible dd ss prior y && extraAdm dd ss x y) := by
  simp only [admissible, extraAdm, List.contains_eq_mem, List.mem_append, List.mem_singleton,
    List.all_append, List.all_cons, List.all_nil, Bool.and_true]
  cases dd <;> cases ss <;> simp [Bool.and_comm, Bool.and_assoc, Bool.and_left_comm, bne_iff_ne]
  · by_cases h : y ∈ prior <;> by_cases h2 : y = x <;> simp [h, h2]
  · by_cases h : y ∈ prior <;> by_cases h2 : y = x <;> simp [h, h2, Bool.and_comm]

theorem poss_snoc (n : Nat) (dd ss : Bool) (prior : List Nat) (x : Nat) :
    poss n dd ss (prior ++ [x]) = (poss n dd ss prior).filter (extraAdm dd ss x) := by
  unfold poss
  rw [List.filter_filter]
  congr 1
  funext y
  rw [admissible_snoc, Bool.and_comm]

theorem poss_sorted (n : Nat) (dd ss : Bool) (prior : List Nat) : (poss n dd ss prior).Pairwise (· < ·) :=
  List.Pairwise.filter _ List.pairwise_lt_range

theorem mem_poss {n : Nat} {dd ss : Bool} {prior : List Nat} {x : Nat} :
    x ∈ poss n dd ss prior ↔ x < n ∧ admissible dd ss prior x = true := by
  simp [poss, List.mem_filter, List.mem_range]

/-- The `possible_choices` of `min_remaining_choices` are the admissible candidates, when the
earlier choices are sorted (if `sorted` is required). -/
theorem allLe_iff_last (prior : List Nat) (hs : prior.Pairwise (· ≤ ·)) (x : Nat) :
    prior.all (· ≤ x) = decide (prior.getLast?.getD 0 ≤ x) := by
  induction prior with
  | nil => simp
  | cons a t ih =>
    rw [List.pairwise_cons] at hs
    cases t with
    | nil => simp; rfl
    | cons b t' =>
      have := ih hs.2
      simp only [List.all_cons] at this ⊢
      simp only [List.getLast?_cons_cons]
      rw [this]
      have hab : a ≤ (b :: t').getLast?.getD 0 := by
        have hmem : (b :: t').getLast?.getD 0 ∈ b :: t' := by
          cases hl : (b :: t').getLast? with
          | none => simp at hl
          | some z => simpa using List.mem_of_getLast? hl
        exact hs.1 _ hmem
      by_cases h : (b :: t').getLast?.getD 0 ≤ x
      · have : a ≤ x := Nat.le_trans hab h
        simp [h, this]
      · simp [h]

theorem minRemainingChoices_eq (n k : Nat) (dd ss : Bool) (prior : List Nat)
    (hs : ss = true → prior.Pairwise (· ≤ ·)) :
    minRemainingChoices n k dd ss prior = minRemLoop dd (k - prior.length) (poss n dd ss prior) := by
  unfold minRemainingChoices poss
  show minRemLoop dd (k - prior.length) (List.filter _ (List.range n)) = _
  congr 1
  apply List.filter_congr
  intro x _
  simp only [admissible, List.contains_eq_mem]
  cases hss : ss with
  | false => simp [Bool.and_comm]
  | true =>
    simp only [if_true, Bool.not_true, Bool.false_or]
    rw [allLe_iff_last prior (hs hss) x, Bool.and_comm]

theorem minRemLoop_true_none_iff : ∀ (j : Nat) (l : List Nat), minRemLoop true j l = none ↔ l.length < j
  | 0, l => by simp [minRemLoop]
  | j + 1, [] => by simp [minRemLoop]
  | j + 1, p :: ps => by
    simp only [minRemLoop, if_true, Option.map_eq_none_iff, minRemLoop_true_none_iff j ps, List.length_cons]
    omega

theorem minRemLoop_false_some : ∀ (j : Nat) (l : List Nat), l ≠ [] → minRemLoop false j l ≠ none
  | 0, l, _ => by simp [minRemLoop]
  | j + 1, [], h => absurd rfl h
  | j + 1, p :: ps, _ => by
    simp only [minRemLoop, Bool.false_eq_true, if_false, ne_eq, Option.map_eq_none_iff]
    exact minRemLoop_false_some j (p :: ps) (by simp)

theorem length_filter_le_of_imp {α : Type} {f g : α → Bool} (h : ∀ x, f x = true → g x = true) :
    ∀ l : List α, (l.filter f).length ≤ (l.filter g).length
  | [] => by simp
  | a :: t => by
    have ih := length_filter_le_of_imp h t
    by_cases hf : f a = true
    · simp [List.filter_cons, hf, h a hf]; omega
    · by_cases hg : g a = true
      · simp [List.filter_cons, hf, hg]; omega
      · simp [List.filter_cons, hf, hg]; omega

theorem length_filter_ne {l : List Nat} (hnd : l.Nodup) {x : Nat} (hx : x ∈ l) :
    (l.filter (· != x)).length + 1 = l.length := by
  induction l with
  | nil => cases hx
  | cons a t ih =>
    rw [List.nodup_cons] at hnd
    by_cases ha : a = x
    · subst ha
      have : t.filter (· != a) = t := by
        apply List.filter_eq_self.mpr
        intro y hy
        simp only [bne_iff_ne, ne_eq]
        intro e; subst e; exact hnd.1 hy
      simp [List.filter_cons, this]
    · have hx' : x ∈ t := by
        cases hx with
        | head => exact absurd rfl ha
        | tail _ h => exact h
      have := ih hnd.2 hx'
      simp [List.filter_cons, ha]; omega

/-- Monotone feasibility (distinct case): a larger admissible choice leaves no more candidates. -/
theorem poss_snoc_length_mono (n : Nat) (ss : Bool) (prior : List Nat) {x y : Nat}
    (hx : x ∈ poss n true ss prior) (hy : y ∈ poss n true ss prior) (hxy : x < y) :
    (poss n true ss (prior ++ [y])).length ≤ (poss n true ss (prior ++ [x])).length := by
  rw [poss_snoc, poss_snoc]
  cases ss with
  | true =>
    apply length_filter_le_of_imp
    intro z hz
    simp only [extraAdm, Bool.not_true, Bool.false_or, Bool.and_eq_true, bne_iff_ne, ne_eq,
      decide_eq_true_eq] at hz ⊢
    omega
  | false =>
    have hnd : (poss n true false prior).Nodup := (poss_sorted n true false prior).imp (fun h => Nat.ne_of_lt h)
    have e1 : extraAdm true false y = (· != y) := by funext z; simp [extraAdm]
    have e2 : extraAdm true false x = (· != x) := by funext z; simp [extraAdm]
    rw [e1, e2]
    have h1 := length_filter_ne hnd hx
    have h2 := length_filter_ne hnd hy
    omega

/-- Claim A: after choosing the least admissible candidate `p`, the candidates that
`min_remaining_choices` keeps are exactly the admissible ones after `prior ++ [p]`. -/
theorem poss_after_head (n : Nat) (dd ss : Bool) (prior : List Nat) (p : Nat) (ps : List Nat)
    (h : poss n dd ss prior = p :: ps) :
    poss n dd ss (prior ++ [p]) = if dd then ps else p :: ps := by
  rw [poss_snoc, h]
  have hsorted := poss_sorted n dd ss prior
  rw [h, List.pairwise_cons] at hsorted
  have hps : ∀ y ∈ ps, extraAdm dd ss p y = true := by
    intro y hy
    have := hsorted.1 y hy
    simp only [extraAdm, Bool.and_eq_true, Bool.or_eq_true, Bool.not_eq_true', bne_iff_ne, ne_eq,
      decide_eq_true_eq]
    exact ⟨Or.inr (by omega), Or.inr (by omega)⟩
  have hfilter : ps.filter (extraAdm dd ss p) = ps := List.filter_eq_self.mpr hps
  cases dd with
  | true => simp [List.filter_cons, extraAdm, hfilter]
  | false => simp [List.filter_cons, extraAdm, hfilter]

/-! ### Stage C: the least completion is what `min_remaining_choices` builds -/

/-- What the odometer assumes about the candidates: `subs[c]` lists the children lists below
candidate `c` (non-empty, no repetition), `first c` is the first DNA of candidate `c` and
`next c` its successor function — only the `kids` of their results are used. -/
structure OdoCtx (subs : List (List (List DNA))) (first : Nat → DNA)
    (next : Nat → DNA → Option (Option DNA)) : Prop where
  ne : ∀ ksl ∈ subs, ksl ≠ []
  nodup : ∀ ksl ∈ subs, ksl.Nodup
  first : ∀ (c : Nat) (ksl : List (List DNA)), subs[c]? = some ksl → ksl.head? = some (kids (first c))
  next : ∀ (c : Nat) (ksl : List (List DNA)) (ks : List DNA), subs[c]? = some ksl → ks ∈ ksl →
    ∃ r, next c (mk' .none ks) = some r ∧ r.map kids = succIn ksl ks

def firsts (first : Nat → DNA) (rem : List Nat) : List DNA :=
  rem.map fun c => DNA.mk (.int (c : Nat)) (kids (first c))

/-- The block of candidate `c` in `enumSeq … prior (j+1)`. -/
def blk (subs : List (List (List DNA))) (dd ss : Bool) (prior : List Nat) (j : Nat)
    (c : Nat) (ksl : List (List DNA)) : List (List DNA) :=
  if admissible dd ss prior c then lexProd (nodeBlock c ksl) (enumSeq subs dd ss (prior ++ [c]) j) else []

theorem enumSeq_succ (subs : List (List (List DNA))) (dd ss : Bool) (prior : List Nat) (j : Nat) :
    enumSeq subs dd ss prior (j + 1) = walkIdx (blk subs dd ss prior j) 0 subs := by
  simp only [enumSeq]
  congr 1
  funext c ksl
  simp only [blk, lexProd, nodeBlock, List.flatMap_map]

theorem lexProd_nil_right {α : Type} (A : List α) : lexProd A ([] : List (List α)) = [] := by
  induction A with
  | nil => rfl
  | cons a A ih => simp [lexProd] at ih ⊢

theorem adm_snoc_sorted {dd ss : Bool} {prior : List Nat} {c : Nat}
    (hs : ss = true → prior.Pairwise (· ≤ ·)) (ha : admissible dd ss prior c = true) :
    ss = true → (prior ++ [c]).Pairwise (· ≤ ·) := by
  intro hss
  rw [List.pairwise_append]
  refine ⟨hs hss, by simp, ?_⟩
  intro a ha' b hb
  simp only [List.mem_singleton] at hb
  subst hb
  simp only [admissible, Bool.and_eq_true, Bool.or_eq_true, Bool.not_eq_true', List.all_eq_true,
    decide_eq_true_eq] at ha
  rcases ha.2 with h | h
  · rw [hss] at h; cases h
  · exact h a ha'

theorem head_lt_of_mem_poss {n : Nat} {dd ss : Bool} {prior : List Nat} {p : Nat} {ps : List Nat}
    (h : poss n dd ss prior = p :: ps) {c : Nat} (hc : c ∈ poss n dd ss prior) : p ≤ c := by
  have hsorted := poss_sorted n dd ss prior
  rw [h] at hsorted hc
  rw [List.pairwise_cons] at hsorted
  cases hc with
  | head => exact Nat.le_refl _
  | tail _ h' => exact Nat.le_of_lt (hsorted.1 c h')

theorem head?_enumSeq {subs : List (List (List DNA))} {first : Nat → DNA}
    {next : Nat → DNA → Option (Option DNA)} (ctx : OdoCtx subs first next) (dd ss : Bool) :
    ∀ (j : Nat) (prior : List Nat), (ss = true → prior.Pairwise (· ≤ ·)) →
      (enumSeq subs dd ss prior j).head? =
        (minRemLoop dd j (poss subs.length dd ss prior)).map (firsts first) := by
  intro j
  induction j with
  | zero => intro prior _; simp [enumSeq, minRemLoop, firsts]
  | succ j ih =>
    intro prior hs
    rw [enumSeq_succ]
    cases hP : poss subs.length dd ss prior with
    | nil =>
      have : walkIdx (blk subs dd ss prior j) 0 subs = [] := by
        apply walkIdx_eq_nil
        intro i b hb
        simp only [Nat.zero_add, blk]
        by_cases ha : admissible dd ss prior i = true
        · have : i ∈ poss subs.length dd ss prior :=
            mem_poss.mpr ⟨(List.getElem?_eq_some_iff.mp hb).1, ha⟩
          rw [hP] at this; cases this
        · simp [ha]
      simp [this, minRemLoop]
    | cons p ps =>
      have hp : p ∈ poss subs.length dd ss prior := by rw [hP]; exact List.mem_cons_self
      obtain ⟨hpn, hpa⟩ := mem_poss.mp hp
      obtain ⟨ksl, hksl⟩ : ∃ ksl, subs[p]? = some ksl := ⟨_, List.getElem?_eq_getElem hpn⟩
      have hA := poss_after_head _ dd ss prior p ps hP
      have hsp := adm_snoc_sorted hs hpa
      have ihp := ih (prior ++ [p]) hsp
      -- blocks before `p` are empty
      have hbefore : ∀ i' b', i' < p → subs[i']? = some b' → blk subs dd ss prior j (0 + i') b' = [] := by
        intro i' b' hi' hb'
        simp only [Nat.zero_add, blk]
        by_cases ha : admissible dd ss prior i' = true
        · have hm : i' ∈ poss subs.length dd ss prior :=
            mem_poss.mpr ⟨(List.getElem?_eq_some_iff.mp hb').1, ha⟩
          have := head_lt_of_mem_poss hP hm
          omega
        · simp [ha]
      rw [head?_walkIdx_skip subs 0 p ksl hksl hbefore]
      simp only [Nat.zero_add, blk, hpa, if_true]
      have hloop : minRemLoop dd (j + 1) (p :: ps) =
          (minRemLoop dd j (poss subs.length dd ss (prior ++ [p]))).map (p :: ·) := by
        rw [hA]; rfl
      rw [hloop]
      cases hrem : minRemLoop dd j (poss subs.length dd ss (prior ++ [p])) with
      | some rem =>
        rw [hrem] at ihp
        have hh : (nodeBlock p ksl).head? = some (DNA.mk (.int (p : Nat)) (kids (first p))) := by
          have := ctx.first p ksl hksl
          cases ksl with
          | nil => simp at this
          | cons a t =>
            simp only [List.head?_cons, Option.some.injEq] at this
            simp [nodeBlock, this]
        rw [head?_lexProd hh ihp]
        simp [firsts, Option.orElse]
      | none =>
        rw [hrem] at ihp
        have hE : enumSeq subs dd ss (prior ++ [p]) j = [] := by
          simpa using ihp
        rw [hE, lexProd_nil_right]
        simp only [List.head?_nil, Option.orElse, Option.map_none]
        -- all later blocks are empty as well
        have : walkIdx (blk subs dd ss prior j) (p + 1) (subs.drop (p + 1)) = [] := by
          apply walkIdx_eq_nil
          intro t b hb
          rw [List.getElem?_drop] at hb
          simp only [blk]
          by_cases ha : admissible dd ss prior (p + 1 + t) = true
          · have hcn : p + 1 + t < subs.length := (List.getElem?_eq_some_iff.mp hb).1
            have hm : p + 1 + t ∈ poss subs.length dd ss prior := mem_poss.mpr ⟨hcn, ha⟩
            have hnone : minRemLoop dd j (poss subs.length dd ss (prior ++ [p + 1 + t])) = none := by
              cases dd with
              | false =>
                exfalso
                rw [hA] at hrem
                exact minRemLoop_false_some j (p :: ps) (by simp) hrem
              | true =>
                rw [minRemLoop_true_none_iff] at hrem ⊢
                have := poss_snoc_length_mono subs.length ss prior hp hm (by omega)
                omega
            have ihc := ih (prior ++ [p + 1 + t]) (adm_snoc_sorted hs ha)
            rw [hnone] at ihc
            have hE' : enumSeq subs dd ss (prior ++ [p + 1 + t]) j = [] := by simpa using ihc
            simp [ha, hE', lexProd_nil_right]
          · simp [ha]
        simp [this]

/-! ### Stage D: the recursive successor in `enumSeq` -/

section
variable {subs : List (List (List DNA))} {first : Nat → DNA} {next : Nat → DNA → Option (Option DNA)}

theorem not_mem_blk_of_ne (dd ss : Bool) (prior : List Nat) (j : Nat) {c c' : Nat} (h : c ≠ c')
    (ks : List DNA) (rest : List DNA) (ksl' : List (List DNA)) :
    DNA.mk (.int (c : Nat)) ks :: rest ∉ blk subs dd ss prior j c' ksl' := by
  unfold blk
  by_cases ha : admissible dd ss prior c' = true
  · simp only [ha, if_true]
    rw [cons_mem_lexProd]
    rintro ⟨hm, _⟩
    exact not_mem_nodeBlock h hm
  · simp [ha]

theorem mem_blk_iff (dd ss : Bool) (prior : List Nat) (j c : Nat) (ks rest : List DNA)
    (ksl : List (List DNA)) :
    DNA.mk (.int (c : Nat)) ks :: rest ∈ blk subs dd ss prior j c ksl ↔
      admissible dd ss prior c = true ∧ ks ∈ ksl ∧ rest ∈ enumSeq subs dd ss (prior ++ [c]) j := by
  unfold blk
  by_cases ha : admissible dd ss prior c = true
  · simp only [ha, if_true, true_and]
    rw [cons_mem_lexProd]
    simp only [nodeBlock, List.mem_map]
    constructor
    · rintro ⟨⟨a, ha', e⟩, hr⟩
      cases node_inj e
      exact ⟨ha', hr⟩
    · rintro ⟨h1, h2⟩; exact ⟨⟨ks, h1, rfl⟩, h2⟩
  · simp [ha]

/-- L1: the successor of `node c ks :: rest` among the sequences after `prior`. -/
theorem succIn_enumSeq_cons (dd ss : Bool) (prior : List Nat) (j c : Nat) (ksl : List (List DNA))
    (ks rest : List DNA) (hc : subs[c]? = some ksl) (ha : admissible dd ss prior c = true)
    (hks : ks ∈ ksl) (hrest : rest ∈ enumSeq subs dd ss (prior ++ [c]) j) :
    succIn (enumSeq subs dd ss prior (j + 1)) (DNA.mk (.int (c : Nat)) ks :: rest) =
      (match succIn (enumSeq subs dd ss (prior ++ [c]) j) rest with
       | some rest' => some (DNA.mk (.int (c : Nat)) ks :: rest')
       | none => (succIn ksl ks).bind fun ks' =>
           (enumSeq subs dd ss (prior ++ [c]) j).head?.map (DNA.mk (.int (c : Nat)) ks' :: ·)).orElse
        fun _ => (walkIdx (blk subs dd ss prior j) (c + 1) (subs.drop (c + 1))).head? := by
  rw [enumSeq_succ]
  have hmem : DNA.mk (.int (c : Nat)) ks :: rest ∈ blk subs dd ss prior j (0 + c) ksl := by
    rw [Nat.zero_add]; exact (mem_blk_iff dd ss prior j c ks rest ksl).mpr ⟨ha, hks, hrest⟩
  rw [succIn_walkIdx_gen subs 0 c ksl hc hmem (fun i' b' hi' _ => by
    rw [Nat.zero_add]; exact not_mem_blk_of_ne dd ss prior j (by omega) ks rest b')]
  simp only [Nat.zero_add]
  congr 1
  simp only [blk, ha, if_true]
  have hnode : DNA.mk (.int (c : Nat)) ks ∈ nodeBlock c ksl := List.mem_map.mpr ⟨ks, hks, rfl⟩
  rw [succIn_lexProd hnode hrest]
  have hs : succIn (nodeBlock c ksl) (DNA.mk (.int (c : Nat)) ks) = (succIn ksl ks).map (DNA.mk (.int (c : Nat))) :=
    succIn_map (fun a _ h => node_inj h)
  rw [hs]
  cases succIn (enumSeq subs dd ss (prior ++ [c]) j) rest with
  | some r => rfl
  | none => cases succIn ksl ks <;> rfl

theorem NodesIn_length : ∀ (ss : List DNA) (cs : List Nat), NodesIn subs ss cs → ss.length = cs.length :=
  fun ss cs h => (NodesIn_values subs ss cs h).2

/-- Prefix nodes with admissible values, followed by a sequence of the remaining level. -/
theorem mem_enumSeq_append (dd ss : Bool) : ∀ (pre : List DNA) (cs1 prior : List Nat) (j : Nat)
    (tail : List DNA), NodesIn subs pre cs1 → admSeq dd ss prior cs1 →
    tail ∈ enumSeq subs dd ss (prior ++ cs1) j →
    pre ++ tail ∈ enumSeq subs dd ss prior (pre.length + j)
  | [], [], prior, j, tail, _, _, h => by simpa using h
  | [], _ :: _, _, _, _, h, _, _ => absurd h (by simp [NodesIn])
  | _ :: _, [], _, _, _, h, _, _ => absurd h (by simp [NodesIn])
  | x :: pre, c :: cs1, prior, j, tail, hn, hadm, h => by
    simp only [NodesIn] at hn
    obtain ⟨⟨ks, ksl, rfl, hc, hks⟩, hn'⟩ := hn
    obtain ⟨ha, hadm'⟩ := hadm
    have ih := mem_enumSeq_append dd ss pre cs1 (prior ++ [c]) j tail hn' hadm'
      (by simpa [List.append_assoc] using h)
    have e : (DNA.mk (.int (c : Nat)) ks :: pre).length + j = (pre.length + j) + 1 := by simp; omega
    rw [e, enumSeq_succ, mem_walkIdx]
    refine ⟨c, ksl, hc, ?_⟩
    rw [Nat.zero_add]
    exact (mem_blk_iff dd ss prior (pre.length + j) c ks (pre ++ tail) ksl).mpr ⟨ha, hks, ih⟩

/-- L2: a successor found behind a prefix is the successor of the whole sequence. -/
theorem succIn_enumSeq_prefix (dd ss : Bool) : ∀ (pre : List DNA) (cs1 prior : List Nat) (j : Nat)
    (tail tail' : List DNA), NodesIn subs pre cs1 → admSeq dd ss prior cs1 →
    tail ∈ enumSeq subs dd ss (prior ++ cs1) j →
    succIn (enumSeq subs dd ss (prior ++ cs1) j) tail = some tail' →
    succIn (enumSeq subs dd ss prior (pre.length + j)) (pre ++ tail) = some (pre ++ tail')
  | [], [], prior, j, tail, tail', _, _, _, h => by simpa using h
  | [], _ :: _, _, _, _, _, h, _, _, _ => absurd h (by simp [NodesIn])
  | _ :: _, [], _, _, _, _, h, _, _, _ => absurd h (by simp [NodesIn])
  | x :: pre, c :: cs1, prior, j, tail, tail', hn, hadm, hm, h => by
    simp only [NodesIn] at hn
    obtain ⟨⟨ks, ksl, rfl, hc, hks⟩, hn'⟩ := hn
    obtain ⟨ha, hadm'⟩ := hadm
    have hm' : tail ∈ enumSeq subs dd ss (prior ++ [c] ++ cs1) j := by simpa [List.append_assoc] using hm
    have h' : succIn (enumSeq subs dd ss (prior ++ [c] ++ cs1) j) tail = some tail' := by
      simpa [List.append_assoc] using h
    have ih := succIn_enumSeq_prefix dd ss pre cs1 (prior ++ [c]) j tail tail' hn' hadm' hm' h'
    have hrest := mem_enumSeq_append dd ss pre cs1 (prior ++ [c]) j tail hn' hadm' hm'
    have e : (DNA.mk (.int (c : Nat)) ks :: pre).length + j = (pre.length + j) + 1 := by simp; omega
    rw [e]
    show succIn _ (DNA.mk (.int (c : Nat)) ks :: (pre ++ tail)) = _
    rw [succIn_enumSeq_cons dd ss prior (pre.length + j) c ksl ks (pre ++ tail) hc ha hks hrest, ih]
    rfl

end

/-! ### Stage E1: the first non-empty block after candidate `c` -/

/-- The least admissible candidate above `c`. -/
def nextAdm (n : Nat) (dd ss : Bool) (prior : List Nat) (c : Nat) : Option Nat :=
  ((poss n dd ss prior).filter fun x => decide (c < x)).head?

theorem nextAdm_some {n : Nat} {dd ss : Bool} {prior : List Nat} {c c' : Nat}
    (h : nextAdm n dd ss prior c = some c') :
    c' ∈ poss n dd ss prior ∧ c < c' ∧ ∀ x ∈ poss n dd ss prior, c < x → c' ≤ x := by
  unfold nextAdm at h
  have hmem : c' ∈ (poss n dd ss prior).filter fun x => decide (c < x) := List.mem_of_mem_head? h
  have hsorted : ((poss n dd ss prior).filter fun x => decide (c < x)).Pairwise (· < ·) :=
    List.Pairwise.filter _ (poss_sorted n dd ss prior)
  simp only [List.mem_filter, decide_eq_true_eq] at hmem
  refine ⟨hmem.1, hmem.2, ?_⟩
  intro x hx hcx
  have hxm : x ∈ (poss n dd ss prior).filter fun x => decide (c < x) := by
    simp [List.mem_filter, hx, hcx]
  cases hl : (poss n dd ss prior).filter fun x => decide (c < x) with
  | nil => rw [hl] at h; cases h
  | cons a t =>
    rw [hl] at h hxm hsorted
    simp only [List.head?_cons, Option.some.injEq] at h
    subst h
    rw [List.pairwise_cons] at hsorted
    cases hxm with
    | head => exact Nat.le_refl _
    | tail _ h' => exact Nat.le_of_lt (hsorted.1 x h')

theorem nextAdm_none {n : Nat} {dd ss : Bool} {prior : List Nat} {c : Nat}
    (h : nextAdm n dd ss prior c = none) : ∀ x ∈ poss n dd ss prior, ¬ c < x := by
  unfold nextAdm at h
  rw [List.head?_eq_none_iff] at h
  intro x hx hcx
  have : x ∈ (poss n dd ss prior).filter fun x => decide (c < x) := by simp [List.mem_filter, hx, hcx]
  rw [h] at this; cases this

theorem nextValueForChoice_eq_nextAdm (n : Nat) (dd ss : Bool) (prior : List Nat) (c : Nat)
    (ha : admissible dd ss prior c = true) :
    nextValueForChoice n dd prior c = nextAdm n dd ss prior c := by
  unfold nextValueForChoice nextAdm poss
  rw [List.filter_filter]
  congr 1
  apply List.filter_congr
  intro x _
  simp only [admissible, Bool.and_eq_true, Bool.or_eq_true, Bool.not_eq_true', List.all_eq_true,
    decide_eq_true_eq] at ha
  by_cases hcx : c < x
  · have hall : (!ss || prior.all (· ≤ x)) = true := by
      rcases ha.2 with h | h
      · simp [h]
      · simp only [Bool.or_eq_true, Bool.not_eq_true', List.all_eq_true, decide_eq_true_eq]
        right; intro p hp; have := h p hp; omega
    simp [admissible, hcx, hall]
  · simp [hcx]

section
variable {subs : List (List (List DNA))} {first : Nat → DNA} {next : Nat → DNA → Option (Option DNA)}

theorem mem_poss_snoc_self {n : Nat} {ss : Bool} {prior : List Nat} {c : Nat}
    (hc : c ∈ poss n false ss prior) : c ∈ poss n false ss (prior ++ [c]) := by
  rw [poss_snoc, List.mem_filter]
  exact ⟨hc, by simp [extraAdm]⟩

/-- If the completion after choosing `c'` is infeasible, so is every completion after a larger
admissible choice. -/
theorem later_infeasible (ctx : OdoCtx subs first next) (dd ss : Bool) (prior : List Nat) (j : Nat)
    (hs : ss = true → prior.Pairwise (· ≤ ·)) {c' : Nat} (hc' : c' ∈ poss subs.length dd ss prior)
    (hnone : minRemLoop dd j (poss subs.length dd ss (prior ++ [c'])) = none) (s0 : Nat) (hs0 : c' < s0) :
    walkIdx (blk subs dd ss prior j) s0 (subs.drop s0) = [] := by
  apply walkIdx_eq_nil
  intro t b hb
  rw [List.getElem?_drop] at hb
  simp only [blk]
  by_cases ha : admissible dd ss prior (s0 + t) = true
  · have hcn : s0 + t < subs.length := (List.getElem?_eq_some_iff.mp hb).1
    have hm : s0 + t ∈ poss subs.length dd ss prior := mem_poss.mpr ⟨hcn, ha⟩
    have hnone' : minRemLoop dd j (poss subs.length dd ss (prior ++ [s0 + t])) = none := by
      cases dd with
      | false =>
        exfalso
        have hne : poss subs.length false ss (prior ++ [c']) ≠ [] :=
          List.ne_nil_of_mem (mem_poss_snoc_self hc')
        exact minRemLoop_false_some j _ hne hnone
      | true =>
        rw [minRemLoop_true_none_iff] at hnone ⊢
        have := poss_snoc_length_mono subs.length ss prior hc' hm (by omega)
        omega
    have ihc := head?_enumSeq ctx dd ss j (prior ++ [s0 + t]) (adm_snoc_sorted hs ha)
    rw [hnone'] at ihc
    have hE' : enumSeq subs dd ss (prior ++ [s0 + t]) j = [] := by simpa using ihc
    simp [ha, hE', lexProd_nil_right]
  · simp [ha]

theorem head?_later (ctx : OdoCtx subs first next) (dd ss : Bool) (prior : List Nat) (j c : Nat)
    (hs : ss = true → prior.Pairwise (· ≤ ·)) :
    (walkIdx (blk subs dd ss prior j) (c + 1) (subs.drop (c + 1))).head? =
      match nextAdm subs.length dd ss prior c with
      | none => none
      | some c' => (minRemLoop dd j (poss subs.length dd ss (prior ++ [c']))).map
          fun rem => firsts first (c' :: rem) := by
  cases hn : nextAdm subs.length dd ss prior c with
  | none =>
    have hno := nextAdm_none hn
    have : walkIdx (blk subs dd ss prior j) (c + 1) (subs.drop (c + 1)) = [] := by
      apply walkIdx_eq_nil
      intro t b hb
      rw [List.getElem?_drop] at hb
      simp only [blk]
      by_cases ha : admissible dd ss prior (c + 1 + t) = true
      · exfalso
        exact hno _ (mem_poss.mpr ⟨(List.getElem?_eq_some_iff.mp hb).1, ha⟩) (by omega)
      · simp [ha]
    simp [this]
  | some c' =>
    obtain ⟨hc'm, hcc', hleast⟩ := nextAdm_some hn
    obtain ⟨hc'n, hc'a⟩ := mem_poss.mp hc'm
    obtain ⟨t, ht⟩ : ∃ t, c' = c + 1 + t := ⟨c' - (c + 1), by omega⟩
    obtain ⟨ksl', hksl'⟩ : ∃ ksl', subs[c']? = some ksl' := ⟨_, List.getElem?_eq_getElem hc'n⟩
    have hdrop : (subs.drop (c + 1))[t]? = some ksl' := by rw [List.getElem?_drop, ← ht]; exact hksl'
    have hbefore : ∀ i' b', i' < t → (subs.drop (c + 1))[i']? = some b' →
        blk subs dd ss prior j (c + 1 + i') b' = [] := by
      intro i' b' hi' hb'
      rw [List.getElem?_drop] at hb'
      simp only [blk]
      by_cases ha : admissible dd ss prior (c + 1 + i') = true
      · exfalso
        have := hleast _ (mem_poss.mpr ⟨(List.getElem?_eq_some_iff.mp hb').1, ha⟩) (by omega)
        omega
      · simp [ha]
    rw [head?_walkIdx_skip (subs.drop (c + 1)) (c + 1) t ksl' hdrop hbefore, ← ht]
    simp only [blk, hc'a, if_true]
    have ihp := head?_enumSeq ctx dd ss j (prior ++ [c']) (adm_snoc_sorted hs hc'a)
    cases hrem : minRemLoop dd j (poss subs.length dd ss (prior ++ [c'])) with
    | some rem =>
      rw [hrem] at ihp
      have hh : (nodeBlock c' ksl').head? = some (DNA.mk (.int (c' : Nat)) (kids (first c'))) := by
        have := ctx.first c' ksl' hksl'
        cases ksl' with
        | nil => simp at this
        | cons a t' =>
          simp only [List.head?_cons, Option.some.injEq] at this
          simp [nodeBlock, this]
      rw [head?_lexProd hh ihp]
      simp [firsts, Option.orElse]
    | none =>
      rw [hrem] at ihp
      have hE : enumSeq subs dd ss (prior ++ [c']) j = [] := by simpa using ihp
      rw [hE, lexProd_nil_right]
      simp only [List.head?_nil, Option.orElse, Option.map_none]
      have hdd : (subs.drop (c + 1)).drop (t + 1) = subs.drop (c' + 1) := by
        rw [List.drop_drop]; congr 1; omega
      rw [hdd, later_infeasible ctx dd ss prior j hs hc'm hrem (c' + 1) (by omega)]
      rfl

end

/-! ### Stage E2: the right-to-left loop computes the successor -/

section
variable {subs : List (List (List DNA))} {first : Nat → DNA} {next : Nat → DNA → Option (Option DNA)}

theorem NodesIn_snoc : ∀ (l : List DNA) (x : DNA) (cs : List Nat), NodesIn subs (l ++ [x]) cs →
    ∃ cs' c, cs = cs' ++ [c] ∧ NodesIn subs l cs' ∧ NodeIn subs x c
  | [], x, cs, h => by
    match cs, h with
    | [c], h => simp only [List.nil_append, NodesIn] at h; exact ⟨[], c, rfl, trivial, h.1⟩
    | [], h => simp [NodesIn] at h
    | _ :: _ :: _, h => simp [NodesIn] at h
  | a :: l, x, cs, h => by
    match cs, h with
    | [], h => simp [NodesIn] at h
    | c0 :: cs0, h =>
      simp only [List.cons_append, NodesIn] at h
      obtain ⟨cs', c, rfl, h1, h2⟩ := NodesIn_snoc l x cs0 h.2
      exact ⟨c0 :: cs', c, rfl, ⟨h.1, h1⟩, h2⟩

theorem admSeq_append (dd ss : Bool) : ∀ (a b prior : List Nat),
    admSeq dd ss prior (a ++ b) ↔ admSeq dd ss prior a ∧ admSeq dd ss (prior ++ a) b
  | [], b, prior => by simp [admSeq]
  | x :: a, b, prior => by
    simp only [List.cons_append, admSeq, admSeq_append dd ss a b (prior ++ [x]), List.append_assoc,
      List.singleton_append, List.nil_append, and_assoc]

theorem natValues_of_NodesIn : ∀ (l : List DNA) (cs : List Nat), NodesIn subs l cs → natValues l = some cs
  | [], [], _ => rfl
  | [], _ :: _, h => absurd h (by simp [NodesIn])
  | _ :: _, [], h => absurd h (by simp [NodesIn])
  | x :: l, c :: cs, h => by
    simp only [NodesIn] at h
    obtain ⟨⟨ks, ksl, rfl, _, _⟩, hr⟩ := h
    simp [natValues, natValues_of_NodesIn l cs hr]

theorem firsts_eq (rem : List Nat) :
    (rem.map fun c => mk' (.int (c : Nat)) [first c]) = firsts first rem := by
  unfold firsts
  apply List.map_congr_left
  intro c _
  exact mk'_int_single _ _

/-- One iteration of the loop of `Choices._next_dna` on a single-choice node. -/
theorem odoLoop_cons (n k : Nat) (dd ss : Bool) (pv : Val) (c : Nat) (ks : List DNA) (rp' : List DNA)
    (hc : c < n) (r : Option DNA) (hnext : next c (mk' .none ks) = some r)
    (prior : List Nat) (hprior : natValues rp'.reverse = some prior) :
    odoLoop n k dd ss first next pv (DNA.mk (.int (c : Nat)) ks :: rp') =
      match (match r with
             | some d' => some (c, DNA.mk (.int (c : Nat)) (kids d'))
             | none => (nextValueForChoice n dd prior c).map fun v' =>
                 (v', DNA.mk (.int (v' : Nat)) (kids (first v')))) with
      | some (nv, nd) =>
        match minRemainingChoices n k dd ss (prior ++ [nv]) with
        | some rem => some (some (mk' pv (rp'.reverse ++ [nd] ++ firsts first rem)))
        | none => odoLoop n k dd ss first next pv rp'
      | none => odoLoop n k dd ss first next pv rp' := by
  have hr : inRange n (c : Nat) = true := by simp [inRange, hc]
  simp only [odoLoop, hr, Bool.not_true, Bool.false_eq_true, if_false, Int.toNat_natCast, hnext, hprior,
    firsts_eq]
  cases r with
  | some d' => simp only [mk'_int_single]; rfl
  | none =>
    cases nextValueForChoice n dd prior c with
    | none => rfl
    | some v' => simp only [Option.map_some, mk'_int_single]; rfl

theorem odoLoop_spec (ctx : OdoCtx subs first next) (k : Nat) (dd ss : Bool) (pv : Val) :
    ∀ (rp : List DNA) (cs1 : List Nat) (suf : List DNA),
      NodesIn subs rp.reverse cs1 → admSeq dd ss [] cs1 →
      suf ∈ enumSeq subs dd ss cs1 suf.length → cs1.length + suf.length = k →
      succIn (enumSeq subs dd ss cs1 suf.length) suf = none →
      odoLoop subs.length k dd ss first next pv rp =
        some ((succIn (enumSeq subs dd ss [] k) (rp.reverse ++ suf)).map (mk' pv)) := by
  intro rp
  induction rp with
  | nil =>
    intro cs1 suf hn _ _ hlen hex
    have : cs1 = [] := by
      cases cs1 with
      | nil => rfl
      | cons a b => simp [NodesIn] at hn
    subst this
    simp only [List.length_nil, Nat.zero_add] at hlen
    subst hlen
    simp [odoLoop, hex]
  | cons cur rp' ih =>
    intro cs1 suf hn hadm hsuf hlen hex
    rw [List.reverse_cons] at hn
    obtain ⟨cs1', c, rfl, hn', hcur⟩ := NodesIn_snoc _ _ _ hn
    obtain ⟨ks, ksl, rfl, hc, hks⟩ := hcur
    rw [admSeq_append] at hadm
    obtain ⟨hadm', hac⟩ := hadm
    simp only [List.nil_append, admSeq, and_true] at hac
    have hcn : c < subs.length := (List.getElem?_eq_some_iff.mp hc).1
    have hs' : ss = true → cs1'.Pairwise (· ≤ ·) := fun h => (((admSeq_iff dd ss cs1' []).mp hadm').2 h).2
    have hprior := natValues_of_NodesIn _ _ hn'
    obtain ⟨r, hnext, hrk⟩ := ctx.next c ksl ks hc hks
    have hplen : rp'.reverse.length = cs1'.length := NodesIn_length _ _ hn'
    have hlen' : cs1'.length + (suf.length + 1) = k := by simp at hlen; omega
    -- the tail `cur :: suf` at the level of `cs1'`
    have htail : DNA.mk (.int (c : Nat)) ks :: suf ∈ enumSeq subs dd ss cs1' (suf.length + 1) := by
      rw [enumSeq_succ, mem_walkIdx]
      exact ⟨c, ksl, hc, by rw [Nat.zero_add]; exact (mem_blk_iff dd ss cs1' _ c ks suf ksl).mpr ⟨hac, hks, hsuf⟩⟩
    have hX := succIn_enumSeq_cons dd ss cs1' suf.length c ksl ks suf hc hac hks hsuf
    rw [hex] at hX
    -- the least completion after `cs1' ++ [c]`
    have hEc := head?_enumSeq ctx dd ss suf.length (cs1' ++ [c]) (adm_snoc_sorted hs' hac)
    have hwhole : (cur_rev : List DNA) → cur_rev = rp'.reverse →
        (DNA.mk (.int (c : Nat)) ks :: rp').reverse ++ suf = cur_rev ++ (DNA.mk (.int (c : Nat)) ks :: suf) := by
      intro cr e; subst e; simp
    rw [hwhole _ rfl]
    have hk : rp'.reverse.length + (suf.length + 1) = k := by rw [hplen]; exact hlen'
    rw [odoLoop_cons subs.length k dd ss pv c ks rp' hcn r hnext cs1' hprior]
    cases hsk : succIn ksl ks with
    | some ks' =>
      rw [hsk] at hrk hX
      obtain ⟨d', rfl, hd'⟩ : ∃ d', r = some d' ∧ kids d' = ks' := by
        cases r with
        | none => simp at hrk
        | some d' => exact ⟨d', rfl, by simpa using hrk⟩
      have hmr := minRemainingChoices_eq subs.length k dd ss (cs1' ++ [c]) (adm_snoc_sorted hs' hac)
      have hj : k - (cs1' ++ [c]).length = suf.length := by simp; omega
      rw [hj] at hmr
      have hne : (enumSeq subs dd ss (cs1' ++ [c]) suf.length).head? ≠ none := by
        intro h0
        rw [List.head?_eq_none_iff] at h0
        rw [h0] at hsuf; cases hsuf
      cases hrem : minRemLoop dd suf.length (poss subs.length dd ss (cs1' ++ [c])) with
      | none => rw [hrem] at hEc; exact absurd hEc hne
      | some rem =>
        rw [hrem] at hEc
        rw [hEc] at hX
        simp only [Option.bind_some, Option.map_some, Option.orElse] at hX
        have hL2 := succIn_enumSeq_prefix dd ss rp'.reverse cs1' [] (suf.length + 1) _ _ hn' hadm'
          (by simpa using htail) (by simpa using hX)
        rw [hk] at hL2
        simp only [hd', hmr, hrem, hL2, Option.map_some]
        simp [List.append_assoc]
    | none =>
      rw [hsk] at hrk hX
      have hr : r = none := by
        cases r with
        | none => rfl
        | some d' => simp at hrk
      subst hr
      simp only [Option.bind_none, Option.orElse] at hX
      rw [head?_later ctx dd ss cs1' suf.length c hs'] at hX
      rw [nextValueForChoice_eq_nextAdm subs.length dd ss cs1' c hac]
      cases hna : nextAdm subs.length dd ss cs1' c with
      | none =>
        rw [hna] at hX
        simp only [Option.map_none]
        exact ih cs1' _ hn' hadm' htail hlen' hX
      | some c' =>
        rw [hna] at hX
        dsimp only at hX
        obtain ⟨hc'm, _, _⟩ := nextAdm_some hna
        have hc'a := (mem_poss.mp hc'm).2
        have hmr := minRemainingChoices_eq subs.length k dd ss (cs1' ++ [c']) (adm_snoc_sorted hs' hc'a)
        have hj : k - (cs1' ++ [c']).length = suf.length := by simp; omega
        rw [hj] at hmr
        simp only [Option.map_some, hmr]
        cases hrem : minRemLoop dd suf.length (poss subs.length dd ss (cs1' ++ [c'])) with
        | none =>
          rw [hrem] at hX
          simp only [Option.map_none] at hX
          exact ih cs1' _ hn' hadm' htail hlen' hX
        | some rem =>
          rw [hrem] at hX
          simp only [Option.map_some] at hX
          have hL2 := succIn_enumSeq_prefix dd ss rp'.reverse cs1' [] (suf.length + 1) _ _ hn' hadm'
            (by simpa using htail) (by simpa using hX)
          rw [hk] at hL2
          simp only [hL2, Option.map_some]
          simp [firsts, List.append_assoc]

end

end Pg.Geno
