/-
  C09 — the grouping fold of `_notify_field_updates` in closed form.
-/
import PgModel.Notify
namespace Pg.C09
open T
open Pg.C08 (Atom Key)

abbrev Entry := Path × Option T × Option T
abbrev Group := Path × Nat × List Entry

def entryOf (p : Path) (u : Update) : Entry := (relPath p.length u.path, u.old, u.new)

def gids (g : List Group) : List Nat := g.map (·.2.1)

theorem addToGroups_absent : (g : List Group) → (r : Path × Nat) → (u : Update) → r.2 ∉ gids g →
    addToGroups g r u = g ++ [(r.1, r.2, [entryOf r.1 u])]
  | [], r, u, _ => rfl
  | (p, id, es) :: rest, r, u, h => by
    simp only [gids, List.map_cons, List.mem_cons, not_or] at h
    have hne : ¬ id = r.2 := fun e => h.1 e.symm
    simp only [addToGroups, hne, if_false, List.cons_append]
    rw [addToGroups_absent rest r u h.2]

theorem gids_addToGroups : (g : List Group) → (r : Path × Nat) → (u : Update) →
    gids (addToGroups g r u) = if r.2 ∈ gids g then gids g else gids g ++ [r.2]
  | [], r, u => by simp [addToGroups, gids]
  | (p, id, es) :: rest, r, u => by
    simp only [addToGroups]
    by_cases h : id = r.2
    · simp [h, gids]
    · have ih := gids_addToGroups rest r u
      simp only [h, if_false, gids, List.map_cons, List.mem_cons] at ih ⊢
      have h' : ¬ r.2 = id := fun e => h e.symm
      simp only [h', false_or]
      split
      · next hm => simp only [hm, if_true] at ih; rw [ih]
      · next hm => simp only [hm, if_false] at ih; rw [ih]; rfl

/-- Membership in the result, when the receiver ids of `g` are pairwise distinct. -/
theorem mem_addToGroups : (g : List Group) → (r : Path × Nat) → (u : Update) → (gids g).Nodup →
    ∀ q j es, (q, j, es) ∈ addToGroups g r u ↔
      (j ≠ r.2 ∧ (q, j, es) ∈ g) ∨
      (j = r.2 ∧ ((∃ es0, (q, j, es0) ∈ g ∧ es = es0 ++ [entryOf q u]) ∨
                  (r.2 ∉ gids g ∧ q = r.1 ∧ es = [entryOf r.1 u])))
  | [], r, u, _, q, j, es => by
    simp only [addToGroups, List.mem_singleton, Prod.mk.injEq, gids, List.map_nil, List.not_mem_nil,
      not_false_eq_true, true_and, false_and, and_false, exists_false, false_or]
    constructor
    · rintro ⟨h1, h2, h3⟩; exact ⟨h2, h1, by rw [h3]; rfl⟩
    · rintro ⟨h2, h1, h3⟩; exact ⟨h1, h2, by rw [h3]; rfl⟩
  | (p, id, es1) :: rest, r, u, hnd, q, j, es => by
    simp only [gids, List.map_cons, List.nodup_cons] at hnd
    simp only [addToGroups]
    by_cases h : id = r.2
    · subst h
      simp only [if_true, List.mem_cons, Prod.mk.injEq, gids, List.map_cons, true_or, not_true_eq_false,
        false_and, or_false]
      constructor
      · rintro (⟨h1, h2, h3⟩ | hm)
        · subst h1; subst h2
          exact Or.inr ⟨rfl, es1, Or.inl ⟨rfl, rfl, rfl⟩, h3⟩
        · by_cases hj : j = r.2
          · exact absurd (List.mem_map.2 ⟨(q, j, es), hm, hj⟩) hnd.1
          · exact Or.inl ⟨hj, Or.inr hm⟩
      · rintro (⟨hj, (⟨h1, h2, _⟩ | hm)⟩ | ⟨hj, es0, (⟨h1, h2, h3⟩ | hm), he⟩)
        · exact absurd h2 hj
        · exact Or.inr hm
        · subst h1; subst h3; exact Or.inl ⟨rfl, hj, he⟩
        · exact absurd (List.mem_map.2 ⟨(q, j, es0), hm, hj⟩) hnd.1
    · have ih := mem_addToGroups rest r u hnd.2 q j es
      have h' : ¬ r.2 = id := fun e => h e.symm
      simp only [h, if_false, List.mem_cons, Prod.mk.injEq, ih, gids, List.map_cons, h', false_or]
      constructor
      · rintro (⟨h1, h2, h3⟩ | hm)
        · subst h1; subst h2; subst h3
          exact Or.inl ⟨h, Or.inl ⟨rfl, rfl, rfl⟩⟩
        · rcases hm with ⟨hj, hm⟩ | ⟨hj, (⟨es0, hm, he⟩ | hm)⟩
          · exact Or.inl ⟨hj, Or.inr hm⟩
          · exact Or.inr ⟨hj, Or.inl ⟨es0, Or.inr hm, he⟩⟩
          · exact Or.inr ⟨hj, Or.inr hm⟩
      · rintro (⟨hj, (⟨h1, h2, h3⟩ | hm)⟩ | ⟨hj, (⟨es0, (⟨h1, h2, h3⟩ | hm), he⟩ | hm)⟩)
        · exact Or.inl ⟨h1, h2, h3⟩
        · exact Or.inr (Or.inl ⟨hj, hm⟩)
        · subst hj; exact absurd h2.symm h
        · exact Or.inr (Or.inr ⟨hj, Or.inl ⟨es0, hm, he⟩⟩)
        · exact Or.inr (Or.inr ⟨hj, Or.inr hm⟩)

/-! ### the double loop as one fold over a flat work list -/

abbrev Work := List ((Path × Nat) × Update)

def foldW (g : List Group) (W : Work) : List Group := W.foldl (fun acc x => addToGroups acc x.1 x.2) g

/-- The entries receiver `i` (stored path `p`) ends up with. -/
def ent (p : Path) (i : Nat) (W : Work) : List Entry :=
  W.filterMap fun x => if x.1.2 = i then some (entryOf p x.2) else none

structure Inv (W : Work) (g : List Group) : Prop where
  nd : (gids g).Nodup
  sound : ∀ q j es, (q, j, es) ∈ g → (∃ u, ((q, j), u) ∈ W) ∧ es = ent q j W
  complete : ∀ x ∈ W, x.1.2 ∈ gids g

theorem ent_append (p : Path) (i : Nat) (W : Work) (x : (Path × Nat) × Update) :
    ent p i (W ++ [x]) = ent p i W ++ (if x.1.2 = i then [entryOf p x.2] else []) := by
  simp only [ent, List.filterMap_append, List.filterMap_cons, List.filterMap_nil]
  split <;> simp_all

theorem ent_nil_of_absent (p : Path) (i : Nat) (W : Work) (h : ∀ x ∈ W, x.1.2 ≠ i) : ent p i W = [] := by
  simp only [ent, List.filterMap_eq_nil_iff]
  intro x hx
  simp [h x hx]

theorem inv_step {W : Work} {g : List Group} (h : Inv W g) (x : (Path × Nat) × Update) :
    Inv (W ++ [x]) (addToGroups g x.1 x.2) := by
  refine ⟨?_, ?_, ?_⟩
  · rw [gids_addToGroups]
    split
    · exact h.nd
    · next hm =>
      refine List.nodup_append.2 ⟨h.nd, by simp, ?_⟩
      intro a ha b hb
      simp only [List.mem_singleton] at hb
      subst hb
      exact fun e => hm (e ▸ ha)
  · intro q j es hmem
    rw [mem_addToGroups g x.1 x.2 h.nd] at hmem
    rcases hmem with ⟨hj, hm⟩ | ⟨hj, (⟨es0, hm, he⟩ | ⟨habs, hq, he⟩)⟩
    · obtain ⟨⟨u, hu⟩, hes⟩ := h.sound q j es hm
      refine ⟨⟨u, by simp [hu]⟩, ?_⟩
      rw [ent_append, hes]
      have : ¬ x.1.2 = j := fun e => hj e.symm
      simp [this]
    · obtain ⟨⟨u, hu⟩, hes⟩ := h.sound q j es0 hm
      refine ⟨⟨u, by simp [hu]⟩, ?_⟩
      rw [ent_append, he, hes]
      simp [hj]
    · subst hq
      refine ⟨⟨x.2, by simp [hj]⟩, ?_⟩
      rw [ent_append, ent_nil_of_absent]
      · simp [hj, he]
      · intro y hy e
        exact habs (by rw [← hj, ← e]; exact h.complete y hy)
  · intro y hy
    rw [gids_addToGroups]
    simp only [List.mem_append, List.mem_singleton] at hy
    rcases hy with hy | hy
    · split
      · exact h.complete y hy
      · exact List.mem_append_left _ (h.complete y hy)
    · subst hy
      split
      · assumption
      · simp

theorem inv_fold : (W1 : Work) → (W0 : Work) → (g : List Group) → Inv W0 g → Inv (W0 ++ W1) (foldW g W1)
  | [], W0, g, h => by simpa [foldW] using h
  | x :: rest, W0, g, h => by
    have := inv_fold rest (W0 ++ [x]) (addToGroups g x.1 x.2) (inv_step h x)
    simpa [foldW, List.append_assoc] using this

theorem inv_nil : Inv [] [] := ⟨by simp [gids], by simp, by simp⟩

def PathOfId (W : Work) : Prop := ∀ x ∈ W, ∀ y ∈ W, x.1.2 = y.1.2 → x.1.1 = y.1.1

/-- Closed form of the grouping fold. -/
theorem mem_foldW (W : Work) (hp : PathOfId W) (q : Path) (j : Nat) (es : List Entry) :
    (q, j, es) ∈ foldW [] W ↔ (∃ u, ((q, j), u) ∈ W) ∧ es = ent q j W := by
  have hinv : Inv W (foldW [] W) := by simpa using inv_fold W [] [] inv_nil
  constructor
  · exact hinv.sound q j es
  · rintro ⟨⟨u, hu⟩, rfl⟩
    have hj := hinv.complete _ hu
    simp only [gids, List.mem_map] at hj
    obtain ⟨⟨q', j', es'⟩, hm, hj'⟩ := hj
    simp only at hj'
    subst hj'
    obtain ⟨⟨u', hu'⟩, hes⟩ := hinv.sound q' j' es' hm
    have : q' = q := hp _ hu' _ hu rfl
    subst this
    rw [← hes]; exact hm

theorem foldW_nodup (W : Work) : (gids (foldW [] W)).Nodup := by
  have hinv : Inv W (foldW [] W) := by simpa using inv_fold W [] [] inv_nil
  exact hinv.nd

end Pg.C09
