/- Canonical path strings `"/mem/" ++ c₁/c₂/…/name` are well located on the patched tree. -/
import PgProofs.C05Nested
namespace Pg.C05

def joinSlash : List Name → List Char
  | [] => []
  | [x] => x
  | x :: y :: r => x ++ '/' :: joinSlash (y :: r)

/-- Components a user writes: non-empty, no '/'. -/
def GoodComp (w : Name) : Prop := w ≠ [] ∧ '/' ∉ w

theorem splitSlash_noslash : ∀ (w : List Char), '/' ∉ w → splitSlash w = [w]
  | [], _ => rfl
  | c :: w, h => by
    have hc : c ≠ '/' := fun e => h (by simp [e])
    have hw : '/' ∉ w := fun e => h (List.mem_cons_of_mem _ e)
    simp only [splitSlash, if_neg hc, splitSlash_noslash w hw]

theorem splitSlash_append : ∀ (w rest : List Char), '/' ∉ w →
    splitSlash (w ++ '/' :: rest) = w :: splitSlash rest
  | [], rest, _ => by simp [splitSlash]
  | c :: w, rest, h => by
    have hc : c ≠ '/' := fun e => h (by simp [e])
    have hw : '/' ∉ w := fun e => h (List.mem_cons_of_mem _ e)
    simp only [List.cons_append, splitSlash, if_neg hc, splitSlash_append w rest hw]

theorem splitSlash_join : ∀ (comps : List Name), comps ≠ [] → (∀ w ∈ comps, GoodComp w) →
    splitSlash (joinSlash comps) = comps
  | [], h, _ => absurd rfl h
  | [x], _, hg => splitSlash_noslash x (hg x (List.mem_cons_self ..)).2
  | x :: y :: r, _, hg => by
    simp only [joinSlash]
    rw [splitSlash_append x _ (hg x (List.mem_cons_self ..)).2,
      splitSlash_join (y :: r) (by simp) (fun w hw => hg w (List.mem_cons_of_mem _ hw))]

theorem memPrefix_eq : memPrefix = ['/', 'm', 'e', 'm', '/'] := by decide
theorem memRoot_eq : memRoot = ['/', 'm', 'e', 'm'] := by decide

theorem filter_good (comps : List Name) (hg : ∀ w ∈ comps, GoodComp w) :
    comps.filter (fun w => !w.isEmpty) = comps := by
  rw [List.filter_eq_self]
  intro w hw
  have := (hg w hw).1
  cases w with
  | nil => exact absurd rfl this
  | cons c w => rfl

theorem key_canonical (comps : List Name) (hne : comps ≠ []) (hg : ∀ w ∈ comps, GoodComp w) :
    key FsCfg.patched (memPrefix ++ joinSlash comps) = comps := by
  have hpre : memPrefix.isPrefixOf (memPrefix ++ joinSlash comps) = true := by
    rw [memPrefix_eq]; simp [List.isPrefixOf]
  have hdrop : (memPrefix ++ joinSlash comps).drop 4 = '/' :: joinSlash comps := by
    rw [memPrefix_eq]; rfl
  simp only [key, internalPath, FsCfg.patched, hpre, Bool.or_true, if_true, hdrop, Bool.false_eq_true,
    if_false]
  simp only [splitSlash, if_true, splitSlash_join comps hne hg, List.filter, List.isEmpty_nil,
    Bool.not_true]
  exact filter_good comps hg

theorem key_memRoot : key FsCfg.patched memRoot = [] := by decide

theorem go_noslash : ∀ (cs : List Char) (i : Nat) (best : Option Nat), '/' ∉ cs →
    rfindSlash.go cs i best = best
  | [], _, _, _ => rfl
  | c :: cs, i, best, h => by
    have hc : c ≠ '/' := fun e => h (by simp [e])
    have hw : '/' ∉ cs := fun e => h (List.mem_cons_of_mem _ e)
    simp only [rfindSlash.go, if_neg hc, go_noslash cs (i + 1) best hw]

theorem go_last : ∀ (a nm : List Char) (i : Nat) (best : Option Nat), '/' ∉ nm →
    rfindSlash.go (a ++ '/' :: nm) i best = some (i + a.length)
  | [], nm, i, best, h => by
    simp only [List.nil_append, rfindSlash.go, if_true, go_noslash nm (i + 1) (some i) h,
      List.length_nil, Nat.add_zero]
  | c :: a, nm, i, best, h => by
    simp only [List.cons_append, rfindSlash.go, go_last a nm (i + 1) _ h, List.length_cons]
    congr 1; omega

theorem rfind_last (a nm : List Char) (h : '/' ∉ nm) : rfindSlash (a ++ '/' :: nm) = some a.length := by
  simp only [rfindSlash, go_last a nm 0 none h, Nat.zero_add]

theorem parentStr_last (a nm : List Char) (h : '/' ∉ nm) : parentStr (a ++ '/' :: nm) = a := by
  simp only [parentStr, rfind_last a nm h, List.take_left']

theorem nameStr_last (a nm : List Char) (h : '/' ∉ nm) : nameStr (a ++ '/' :: nm) = nm := by
  simp only [nameStr, rfind_last a nm h]
  have : a ++ '/' :: nm = (a ++ ['/']) ++ nm := by simp
  rw [this]
  have hl : a.length + 1 = (a ++ ['/']).length := by simp
  rw [hl]
  exact List.drop_left' rfl

/-- `l` ends in a character other than '/'. -/
def EndsNoSlash (l : List Char) : Prop := ∃ l' c, l = l' ++ [c] ∧ c ≠ '/'

theorem exists_last : ∀ (l : List Char), l ≠ [] → ∃ l' c, l = l' ++ [c] ∧ c ∈ l
  | [], h => absurd rfl h
  | [c], _ => ⟨[], c, rfl, List.mem_cons_self ..⟩
  | c :: d :: r, _ => by
    obtain ⟨l', x, e, hx⟩ := exists_last (d :: r) (by simp)
    exact ⟨c :: l', x, by rw [e]; rfl, List.mem_cons_of_mem _ hx⟩

theorem good_ends (w : Name) (h : GoodComp w) : EndsNoSlash w := by
  obtain ⟨hne, hns⟩ := h
  obtain ⟨l', c, e, hc⟩ := exists_last w hne
  exact ⟨l', c, e, fun ec => hns (ec ▸ hc)⟩

theorem join_ends : ∀ (comps : List Name), comps ≠ [] → (∀ w ∈ comps, GoodComp w) →
    EndsNoSlash (joinSlash comps)
  | [], h, _ => absurd rfl h
  | [x], _, hg => good_ends x (hg x (List.mem_cons_self ..))
  | x :: y :: r, _, hg => by
    obtain ⟨l', c, e, hc⟩ := join_ends (y :: r) (by simp) (fun w hw => hg w (List.mem_cons_of_mem _ hw))
    refine ⟨x ++ '/' :: l', c, ?_, hc⟩
    simp only [joinSlash, e, List.append_assoc, List.cons_append]

theorem rstripSlash_ends (a : List Char) (h : EndsNoSlash a) : rstripSlash (a ++ ['/']) = a := by
  obtain ⟨l', c, rfl, hc⟩ := h
  simp [rstripSlash, List.dropWhile, hc]

theorem dirname_last (a nm : List Char) (h : '/' ∉ nm) (ha : EndsNoSlash a) :
    dirname (a ++ '/' :: nm) = a := by
  have htake : (a ++ '/' :: nm).take (a.length + 1) = a ++ ['/'] := by
    have : a ++ '/' :: nm = (a ++ ['/']) ++ nm := by simp
    rw [this]
    have hl : a.length + 1 = (a ++ ['/']).length := by simp
    rw [hl]
    exact List.take_left' rfl
  obtain ⟨l', c, e, hc⟩ := ha
  have hall : (a ++ ['/']).all (· = '/') = false := by
    rw [List.all_eq_false]
    exact ⟨c, by simp [e], by simpa using hc⟩
  simp only [dirname, rfind_last a nm h, htake, hall, Bool.false_eq_true, if_false]
  exact rstripSlash_ends a ⟨l', c, e, hc⟩

/-- CANONICAL PATHS: `"/mem/" ++ d₁/…/dₙ/name` with non-empty, slash-free components is well
located on the patched tree, and its abstract key is `([d₁,…,dₙ], name)`. -/
theorem canonical_PathOK (pk : List Name) (nm : Name) (hpk : ∀ w ∈ pk, GoodComp w) (hnm : GoodComp nm) :
    PathOK FsCfg.patched (memPrefix ++ joinSlash (pk ++ [nm])) = true ∧
    kp FsCfg.patched (memPrefix ++ joinSlash (pk ++ [nm])) = (pk, nm) := by
  have hall : ∀ w ∈ pk ++ [nm], GoodComp w := by
    intro w hw
    rcases List.mem_append.mp hw with h | h
    · exact hpk w h
    · simp only [List.mem_singleton] at h; rw [h]; exact hnm
  have hkey := key_canonical (pk ++ [nm]) (by simp) hall
  cases pk with
  | nil =>
    -- "/mem/" ++ name = "/mem" ++ '/' :: name
    have hp : memPrefix ++ joinSlash ([] ++ [nm]) = memRoot ++ '/' :: nm := by
      rw [memPrefix_eq, memRoot_eq]; rfl
    have hends : EndsNoSlash memRoot := ⟨['/', 'm', 'e'], 'm', by rw [memRoot_eq]; rfl, by decide⟩
    have h1 := parentStr_last memRoot nm hnm.2
    have h2 := nameStr_last memRoot nm hnm.2
    have h3 := dirname_last memRoot nm hnm.2 hends
    rw [hp] at hkey ⊢
    simp only [PathOK, kp, h1, h2, h3, hkey, key_memRoot, List.nil_append, beq_self_eq_true,
      List.isEmpty_nil, Bool.or_true, Bool.and_self, and_self]
  | cons d pk =>
    have hjoin : ∀ (l : List Name), l ≠ [] → joinSlash (l ++ [nm]) = joinSlash l ++ '/' :: nm := by
      intro l
      induction l with
      | nil => intro h; exact absurd rfl h
      | cons x l ih =>
        intro _
        cases l with
        | nil => rfl
        | cons y l =>
          simp only [List.cons_append, joinSlash] at ih ⊢
          rw [ih (by simp)]
          simp
    have hp : memPrefix ++ joinSlash ((d :: pk) ++ [nm]) = (memPrefix ++ joinSlash (d :: pk)) ++ '/' :: nm := by
      rw [hjoin (d :: pk) (by simp)]; simp
    have hdirs : ∀ w ∈ d :: pk, GoodComp w := hpk
    have hkeyA := key_canonical (d :: pk) (by simp) hdirs
    have hends : EndsNoSlash (memPrefix ++ joinSlash (d :: pk)) := by
      obtain ⟨l', c, e, hc⟩ := join_ends (d :: pk) (by simp) hdirs
      exact ⟨memPrefix ++ l', c, by rw [e]; simp, hc⟩
    have h1 := parentStr_last (memPrefix ++ joinSlash (d :: pk)) nm hnm.2
    have h2 := nameStr_last (memPrefix ++ joinSlash (d :: pk)) nm hnm.2
    have h3 := dirname_last (memPrefix ++ joinSlash (d :: pk)) nm hnm.2 hends
    have hpre : memPrefix.isPrefixOf (memPrefix ++ joinSlash (d :: pk)) = true := by
      rw [memPrefix_eq]; simp [List.isPrefixOf]
    rw [hp] at hkey ⊢
    simp only [PathOK, kp, h1, h2, h3, hkey, hkeyA, hpre, beq_self_eq_true, Bool.true_or,
      Bool.and_self, and_self]

end Pg.C05
