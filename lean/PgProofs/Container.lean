/-
  Helper lemmas for C02 (values, purge, conv; index arithmetic; ranges; the write primitive).
-/
import PgModel.Container
import Mathlib.Tactic.Ring
namespace Pg.C02

/-! ### Values -/

/-- No `MISSING` at the top of the list (the marker is never an element). -/
def Clean (xs : List Val) : Prop := ∀ x ∈ xs, x.isMissing = false

/-- A stored value: not the marker, and no marker strictly inside. -/
def GoodVal (v : Val) : Prop := v.isMissing = false ∧ missingFree v = true

/-- State invariant of a list: every element is a `GoodVal`. -/
def Good (xs : List Val) : Prop := ∀ x ∈ xs, GoodVal x

theorem Good.clean {xs : List Val} (h : Good xs) : Clean xs := fun x hx => (h x hx).1

theorem purge_eq_self {xs : List Val} (h : Clean xs) : purge xs = xs := by
  unfold purge
  rw [List.filter_eq_self]
  intro x hx
  simp [h x hx]

theorem purge_append (xs ys : List Val) : purge (xs ++ ys) = purge xs ++ purge ys := by
  simp [purge]

theorem purge_clean (xs : List Val) : Clean (purge xs) := by
  intro x hx
  simp [purge] at hx
  exact hx.2

theorem purge_idem (xs : List Val) : purge (purge xs) = purge xs := purge_eq_self (purge_clean xs)

theorem Clean.append {xs ys : List Val} (h1 : Clean xs) (h2 : Clean ys) : Clean (xs ++ ys) := by
  intro x hx
  rcases List.mem_append.mp hx with h | h
  · exact h1 x h
  · exact h2 x h

theorem Clean.sublist {xs ys : List Val} (h : Clean ys) (hs : xs.Sublist ys) : Clean xs :=
  fun x hx => h x (hs.subset hx)

theorem Good.sublist {xs ys : List Val} (h : Good ys) (hs : xs.Sublist ys) : Good xs :=
  fun x hx => h x (hs.subset hx)

theorem Good.append {xs ys : List Val} (h1 : Good xs) (h2 : Good ys) : Good (xs ++ ys) := by
  intro x hx
  rcases List.mem_append.mp hx with h | h
  · exact h1 x h
  · exact h2 x h

theorem Good.nil : Good [] := by intro x hx; cases hx

theorem Good.singleton {v : Val} (h : GoodVal v) : Good [v] := by
  intro x hx
  simp at hx
  subst hx
  exact h

theorem Good.of_perm_mem {xs ys : List Val} (h : Good ys) (hs : ∀ x ∈ xs, x ∈ ys) : Good xs :=
  fun x hx => h x (hs x hx)

mutual
  theorem conv_eq_self : ∀ v : Val, missingFree v = true → conv v = v
    | .none, _ => rfl
    | .bool _, _ => rfl
    | .int _, _ => rfl
    | .float _, _ => rfl
    | .negzero, _ => rfl
    | .str _, _ => rfl
    | .missing, _ => rfl
    | .list xs, h => by
      simp only [missingFree] at h
      simp only [conv, convList_eq_self xs h]
    | .dict kvs, h => by
      simp only [missingFree] at h
      simp only [conv, convKvs_eq_self kvs h]
  theorem convList_eq_self : ∀ xs : List Val, missingFreeList xs = true → convList xs = xs
    | [], _ => rfl
    | x :: xs, h => by
      simp only [missingFreeList, Bool.and_eq_true, Bool.not_eq_true'] at h
      simp only [convList, h.1.1, Bool.false_eq_true, if_false, conv_eq_self x h.1.2,
        convList_eq_self xs h.2]
  theorem convKvs_eq_self : ∀ kvs : List (Key × Val), missingFreeKvs kvs = true → convKvs kvs = kvs
    | [], _ => rfl
    | (k, v) :: rest, h => by
      simp only [missingFreeKvs, Bool.and_eq_true, Bool.not_eq_true'] at h
      simp only [convKvs, h.1.1, Bool.false_eq_true, if_false, conv_eq_self v h.1.2,
        convKvs_eq_self rest h.2]
end

mutual
  theorem cloneVal_eq : ∀ v : Val, PgDict.cloneVal v = v
    | .none => rfl
    | .bool _ => rfl
    | .int _ => rfl
    | .float _ => rfl
    | .negzero => rfl
    | .str _ => rfl
    | .missing => rfl
    | .list xs => by simp only [PgDict.cloneVal, cloneList_eq xs]
    | .dict kvs => by simp only [PgDict.cloneVal, cloneKvs_eq kvs]
  theorem cloneList_eq : ∀ xs : List Val, PgDict.cloneList xs = xs
    | [] => rfl
    | x :: xs => by simp only [PgDict.cloneList, cloneVal_eq x, cloneList_eq xs]
  theorem cloneKvs_eq : ∀ kvs : List (Key × Val), PgDict.cloneKvs kvs = kvs
    | [] => rfl
    | (k, v) :: rest => by simp only [PgDict.cloneKvs, cloneVal_eq v, cloneKvs_eq rest]
end

theorem GoodVal.conv {v : Val} (h : GoodVal v) : conv v = v := conv_eq_self v h.2

/-! ### Index arithmetic -/

theorem normIndex_some {n : Nat} {i : Int} {j : Nat} (h : normIndex n i = some j) :
    j < n ∧ ((0 ≤ i ∧ (j : Int) = i) ∨ (i < 0 ∧ (j : Int) = i + n)) := by
  unfold normIndex at h
  split at h
  · split at h
    · injection h with h; omega
    · cases h
  · split at h
    · injection h with h; omega
    · cases h

theorem normIndex_none {n : Nat} {i : Int} (h : normIndex n i = none) : i < -(n : Int) ∨ i ≥ n := by
  unfold normIndex at h
  split at h
  · split at h
    · cases h
    · omega
  · split at h
    · cases h
    · omega

theorem normIndex_inrange {n : Nat} {i : Int} (h1 : ¬ (i < -(n : Int) ∨ i ≥ n)) :
    ∃ j, normIndex n i = some j ∧ j < n := by
  cases h : normIndex n i with
  | none => exact absurd (normIndex_none h) h1
  | some j => exact ⟨j, rfl, (normIndex_some h).1⟩

theorem normIndex_nonneg {n : Nat} {i : Int} (h0 : 0 ≤ i) (h1 : i < n) : normIndex n i = some i.toNat := by
  unfold normIndex
  simp [h0, h1]

end Pg.C02
