/- `to_json_dict(..., exclude_default=True)` followed by `cls(**kwargs)` at the level of argument
records: why the T-SIG table obligation implies that a spec's constructor arguments survive. -/
namespace Pg.C05

section
variable {V : Type} [DecidableEq V]

def alookup (k : String) : List (String × V) → Option V
  | [] => none
  | (l, v) :: r => if l = k then some v else alookup k r

/-- `to_json_dict(fields, exclude_default=True)`: a key is dropped iff its value equals the
omission sentinel (json_conversion.py:316-319). -/
def emitArgs (args : String → V) : List (String × V) → List (String × V)
  | [] => []
  | (k, s) :: r => if args k = s then emitArgs args r else (k, args k) :: emitArgs args r

/-- `cls(**kwargs)`: a parameter takes the keyword if supplied, else its declared default;
`none` = TypeError (missing required argument / unknown parameter). -/
def rebuildArg (ctor : List (String × Option V)) (kwargs : List (String × V)) (k : String) : Option V :=
  match alookup k kwargs with
  | some v => some v
  | none =>
    match alookup k ctor with
    | some (some d) => some d
    | _ => none

theorem alookup_emit_none (args : String → V) (k : String) :
    ∀ (em : List (String × V)), (∀ p ∈ em, p.1 = k → args k = p.2) → alookup k (emitArgs args em) = none
  | [], _ => rfl
  | (l, s) :: r, h => by
    have ih := alookup_emit_none args k r (fun p hp => h p (List.mem_cons_of_mem _ hp))
    simp only [emitArgs]
    split
    · exact ih
    · rename_i hne
      have : l ≠ k := by
        intro e; subst e
        exact hne (h (l, s) (List.mem_cons_self ..) rfl)
      simp only [alookup, if_neg this, ih]

theorem alookup_emit_some (args : String → V) (k : String) (s : V) :
    ∀ (em : List (String × V)), (k, s) ∈ em → (∀ p ∈ em, p.1 = k → p.2 = s) → args k ≠ s →
      alookup k (emitArgs args em) = some (args k)
  | [], h, _, _ => by cases h
  | (l, s0) :: r, h, huniq, hne => by
    simp only [emitArgs]
    by_cases hl : l = k
    · subst hl
      have hs0 : s0 = s := huniq (l, s0) (List.mem_cons_self ..) rfl
      subst hs0
      simp only [if_neg hne, alookup, if_true]
    · have hmem : (k, s) ∈ r := by
        rcases List.mem_cons.mp h with e | e
        · injection e with e1 _; exact absurd e1.symm hl
        · exact e
      have ih := alookup_emit_some args k s r hmem (fun p hp => huniq p (List.mem_cons_of_mem _ hp)) hne
      split
      · exact ih
      · simp only [alookup, if_neg hl, ih]

/-- If an omittable key is a constructor parameter whose default is the omission sentinel — or
its value never equals the sentinel — the argument comes back unchanged. -/
theorem sig_sound (em : List (String × V)) (ctor : List (String × Option V)) (args : String → V)
    (k : String) (s : V) (hmem : (k, s) ∈ em) (huniq : ∀ p ∈ em, p.1 = k → p.2 = s)
    (h : alookup k ctor = some (some s) ∨ args k ≠ s) :
    rebuildArg ctor (emitArgs args em) k = some (args k) := by
  unfold rebuildArg
  by_cases he : args k = s
  · rw [alookup_emit_none args k em (fun p hp hk => by rw [huniq p hp hk]; exact he)]
    rcases h with h | h
    · simp only [h, he]
    · exact absurd he h
  · rw [alookup_emit_some args k s em hmem huniq he]

end
end Pg.C05
