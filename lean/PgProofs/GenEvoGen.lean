/- C15 helper lemmas: Evolution recovers its generation counter (repaired source). -/
import PgProofs.GenEvoPop
namespace Pg.C15
open List

def NonInit (e : Item × Option Int) : Prop := e.1.initial = some false

def gidOf (e : Item × Option Int) : Nat := e.1.gid.getD 0

instance (e : Item × Option Int) : Decidable (NonInit e) := by unfold NonInit; infer_instance

/-- what one iteration of the repaired `Evolution.recover` does to `num_generations` -/
def gStep (g : Nat) (e : Item × Option Int) : Nat := if NonInit e ∧ g < gidOf e then gidOf e else g

theorem gFold_ge (h : Hist) (g : Nat) : g ≤ h.foldl gStep g := by
  induction h generalizing g with
  | nil => exact Nat.le_refl _
  | cons e h ih =>
    simp only [foldl_cons]
    refine Nat.le_trans ?_ (ih _)
    unfold gStep; split <;> omega

theorem gFold_upper (h : Hist) (g : Nat) : ∀ e ∈ h, NonInit e → gidOf e ≤ h.foldl gStep g := by
  induction h generalizing g with
  | nil => intro e he; simp at he
  | cons x h ih =>
    intro e he hn
    simp only [foldl_cons]
    rcases mem_cons.mp he with rfl | he
    · refine Nat.le_trans ?_ (gFold_ge h _)
      unfold gStep; split <;> simp_all
    · exact ih _ e he hn

theorem gFold_attained (h : Hist) (g : Nat) :
    h.foldl gStep g = g ∨ ∃ e ∈ h, NonInit e ∧ gidOf e = h.foldl gStep g := by
  induction h generalizing g with
  | nil => exact Or.inl rfl
  | cons x h ih =>
    simp only [foldl_cons]
    rcases ih (gStep g x) with h1 | ⟨e, he, hn, hg⟩
    · rw [h1]
      unfold gStep
      split
      · rename_i hc
        exact Or.inr ⟨x, mem_cons_self, hc.1, rfl⟩
      · exact Or.inl rfl
    · exact Or.inr ⟨e, mem_cons_of_mem _ he, hn, hg⟩

theorem evoRecoverStep_none_g (env : Env) (hg : env.q.evoInitGenBump = false) (a : Algo)
    (np nf : Nat) (si : St) (ini : Bool) (g : Nat) (pop pend : List Item) (it : Item)
    (hok : EntryOk (it, none)) :
    evoRecoverStep env a (.evolution np nf si ini g pop pend) (it, none)
      = .ok (.evolution (np + 1) nf si ini (gStep g (it, none)) pop pend) := by
  obtain ⟨⟨hgid, hinit⟩, _⟩ := hok
  obtain ⟨gid, hgid'⟩ := Option.isSome_iff_exists.mp hgid
  obtain ⟨isInit, hinit'⟩ := Option.isSome_iff_exists.mp hinit
  have hgid'' : it.gid = some gid := hgid'
  have hinit'' : it.initial = some isInit := hinit'
  simp only [evoRecoverStep, St.bump, hgid'', hinit'', hg, Bool.false_or, gStep, NonInit, gidOf, Option.getD_some]
  cases isInit <;> by_cases hlt : g < gid <;> simp [hlt]

theorem evoRecoverStep_some_g (env : Env) (hg : env.q.evoInitGenBump = false) (a : Algo)
    (np nf : Nat) (si : St) (ini : Bool) (g : Nat) (pop pend : List Item) (it : Item) (r : Int)
    (hok : EntryOk (it, some r)) :
    evoRecoverStep env a (.evolution np nf si ini g pop pend) (it, some r)
      = .ok (.evolution (np + 1) (nf + 1) si ini (gStep g (it, some r)) (env.update (pop ++ [it]) nf) pend) := by
  obtain ⟨⟨hgid, hinit⟩, hfed⟩ := hok
  obtain ⟨gid, hgid'⟩ := Option.isSome_iff_exists.mp hgid
  obtain ⟨isInit, hinit'⟩ := Option.isSome_iff_exists.mp hinit
  have hgid'' : it.gid = some gid := hgid'
  have hinit'' : it.initial = some isInit := hinit'
  obtain ⟨hfb, hrw⟩ := hfed r rfl
  obtain ⟨sq, hsq⟩ := Option.isSome_iff_exists.mp hfb
  have hsq' : it.fbseq = some sq := hsq
  have hrw' : it.reward = some r := hrw
  simp only [evoRecoverStep, St.bump, hgid'', hinit'', hg, Bool.false_or, hsq', hrw', ↓reduceIte, gStep, NonInit,
    gidOf, Option.getD_some]
  cases isInit <;> by_cases hlt : g < gid <;> simp [hlt]

theorem evoRecover_loop_full (env : Env) (hg : env.q.evoInitGenBump = false) (a : Algo)
    (h : Hist) (hok : ∀ e ∈ h, EntryOk e) (np nf : Nat) (si : St) (ini : Bool) (g : Nat) (pop pend : List Item) :
    foldE (evoRecoverStep env a) (.evolution np nf si ini g pop pend) h
      = .ok (.evolution (np + h.length) (popOf env (pop, nf) ((fedOf h).map (·.1))).2 si ini (h.foldl gStep g)
              (popOf env (pop, nf) ((fedOf h).map (·.1))).1 pend) := by
  induction h generalizing np nf g pop with
  | nil => simp [foldE, fedOf, popOf]
  | cons e h ih =>
    obtain ⟨it, r⟩ := e
    have hrest : ∀ e ∈ h, EntryOk e := fun e he => hok e (mem_cons_of_mem _ he)
    cases r with
    | none =>
      simp only [foldE, evoRecoverStep_none_g env hg a np nf si ini g pop pend it (hok _ mem_cons_self),
        ih hrest, length_cons, foldl_cons]
      have : fedOf ((it, none) :: h) = fedOf h := by simp [fedOf]
      rw [this]
      congr 2; omega
    | some r =>
      simp only [foldE, evoRecoverStep_some_g env hg a np nf si ini g pop pend it r (hok _ mem_cons_self),
        ih hrest, length_cons, foldl_cons]
      have : fedOf ((it, some r) :: h) = (it, some r) :: fedOf h := by simp [fedOf]
      rw [this]
      simp only [map_cons, popOf, foldl_cons, popStep]
      congr 2; omega

/-! ### exact shapes of `Evolution.feedback` and `Evolution.propose` (base initialiser) -/

def flipOf (sz : Option Nat) (ini : Bool) (nf : Nat) : Bool :=
  !ini && (match sz with | some n => decide (n ≤ nf + 1) | none => false)

theorem feedback_evolution_exact (env : Env) (init : Algo) (hb : IsBase init) (sz : Option Nat)
    (np nf : Nat) (si : St) (ini : Bool) (g : Nat) (pop pend : List Item) (it : Item) (r : Int)
    (hit : ItemOk it) :
    (∃ e, feedback env (.evolution init sz) (.evolution np nf si ini g pop pend) it r = .error e)
    ∨ ∃ it2 si',
        feedback env (.evolution init sz) (.evolution np nf si ini g pop pend) it r
          = .ok (it2, .evolution np (nf + 1) si' (ini || flipOf sz ini nf) (if flipOf sz ini nf then 1 else g)
                  (env.update (pop ++ [it2]) nf) pend)
        ∧ it2.gid = it.gid ∧ it2.initial = it.initial := by
  obtain ⟨hgid, hinit⟩ := hit
  obtain ⟨isInit, hinit'⟩ := Option.isSome_iff_exists.mp hinit
  simp only [feedback, hinit', flipOf]
  cases isInit with
  | false =>
    simp only [Bool.false_eq_true, ↓reduceIte]
    exact Or.inr ⟨_, _, rfl, rfl, rfl⟩
  | true =>
    simp only [↓reduceIte]
    cases hf : feedback env init si
        { dna := it.dna, key := it.key, reward := some r, pid := it.pid, gid := it.gid,
          initial := some true, fbseq := some (nf + 1) } r with
    | error e => exact Or.inl ⟨e, rfl⟩
    | ok res =>
      obtain ⟨it2, si'⟩ := res
      have h2 := feedback_base_item env init hb _ _ _ _ _ hf
      subst h2
      exact Or.inr ⟨_, _, rfl, rfl, rfl⟩

def ChildOf (g : Nat) (it : Item) : Prop := it.initial = some false ∧ it.gid = some g

theorem mkChildren_child (step g : Nat) (ds : List Nat) (i : Nat) : ∀ it ∈ mkChildren step g i ds, ChildOf (g + 1) it := by
  induction ds generalizing i with
  | nil => intro it h; simp [mkChildren] at h
  | cons d ds ih =>
    intro it h
    simp only [mkChildren, mem_cons] at h
    rcases h with rfl | h
    · exact ⟨rfl, rfl⟩
    · exact ih _ it h

/-- outcome of `evolveStep`: either it raises and only the phase flag is set, or the first child is
proposed, the generation counter is incremented and the other children wait in the queue -/
theorem evolveStep_exact (env : Env) (np nf : Nat) (si : St) (g : Nat) (pop : List Item) :
    (∃ e, evolveStep env np nf si g pop = (.error e, .evolution np nf si true g pop []))
    ∨ ∃ c cs, evolveStep env np nf si g pop = (.ok c, .evolution (np + 1) nf si true (g + 1) pop cs)
        ∧ ChildOf (g + 1) c ∧ ∀ it ∈ cs, ChildOf (g + 1) it := by
  unfold evolveStep
  have hk := mkChildren_child np g (env.repro pop g np) 0
  cases hc : mkChildren np g 0 (env.repro pop g np) with
  | nil => exact Or.inl ⟨_, rfl⟩
  | cons c cs =>
    rw [hc] at hk
    exact Or.inr ⟨c, cs, rfl, hk c mem_cons_self, fun it h => hk it (mem_cons_of_mem _ h)⟩

/-! ### live invariant for the generation counter -/

def NoNonInit (h : Hist) : Prop := ∀ e ∈ h, ¬ NonInit e

def GenInv (sz : Option Nat) (l : Live) : Prop :=
  ∃ np si ini g pop pend,
    l.st = .evolution np (fedCount l.hist) si ini g pop pend
    ∧ (∀ e ∈ l.hist, ItemOk e.1)
    ∧ (∀ it ∈ pend, ChildOf g it)
    ∧ (∀ e ∈ l.hist, NonInit e → gidOf e ≤ g)
    ∧ (ini = false → g = 0 ∧ pend = [] ∧ NoNonInit l.hist ∧ ∀ n, sz = some n → fedCount l.hist < n)
    ∧ (ini = true → 1 ≤ g ∧ ((∃ e ∈ l.hist, NonInit e ∧ gidOf e = g) ∨ (g = 1 ∧ NoNonInit l.hist)))

theorem fedCount_append_unfed (h : Hist) (it : Item) : fedCount (h ++ [(it, none)]) = fedCount h := by
  rw [fedCount_append]; simp [fedCount]

theorem child_entry {g : Nat} {it : Item} (hc : ChildOf g it) (r : Option Int) :
    NonInit (it, r) ∧ gidOf (it, r) = g := ⟨hc.1, by simp [gidOf, hc.2]⟩

theorem child_ok {g : Nat} {it : Item} (hc : ChildOf g it) : EntryOk (it, none) :=
  ⟨⟨by rw [hc.2]; rfl, by rw [hc.1]; rfl⟩, fun r hr => by simp at hr⟩

/-- appending a freshly proposed child of generation `g'` -/
theorem genInv_append_child (sz : Option Nat) (hist : Hist) (np : Nat) (si : St) (g g' : Nat) (pop pend' : List Item)
    (c : Item) (hent : ∀ e ∈ hist, ItemOk e.1) (hle : ∀ e ∈ hist, NonInit e → gidOf e ≤ g) (hgg : g ≤ g')
    (hg1 : 1 ≤ g') (hc : ChildOf g' c) (hp : ∀ it ∈ pend', ChildOf g' it) :
    GenInv sz ⟨.evolution np (fedCount hist) si true g' pop pend', hist ++ [(c, none)]⟩ := by
  refine ⟨np, si, true, g', pop, pend', ?_, ?_, hp, ?_, ?_, ?_⟩
  · simp only [fedCount_append_unfed]
  · intro e he
    rcases mem_append.mp he with he | he
    · exact hent e he
    · rw [mem_singleton.mp he]; exact (child_ok hc).1
  · intro e he hn
    rcases mem_append.mp he with he | he
    · exact Nat.le_trans (hle e he hn) hgg
    · rw [mem_singleton.mp he, (child_entry hc none).2]
  · intro h; cases h
  · intro _
    exact ⟨hg1, Or.inl ⟨(c, none), mem_append.mpr (Or.inr (mem_singleton.mpr rfl)), (child_entry hc none).1,
      (child_entry hc none).2⟩⟩

theorem exists_setAt (P : Item × Option Int → Prop) (h : Hist) (i : Nat) (y x : Item × Option Int)
    (hi : h[i]? = some y) (hP : P y → P x) (hex : ∃ e ∈ h, P e) : ∃ e ∈ setAt h i x, P e := by
  induction h generalizing i with
  | nil => simp at hi
  | cons z zs ih =>
    obtain ⟨e, he, hpe⟩ := hex
    cases i with
    | zero =>
      simp at hi
      subst hi
      rcases mem_cons.mp he with rfl | he
      · exact ⟨x, by simp [setAt], hP hpe⟩
      · exact ⟨e, by simp [setAt, he], hpe⟩
    | succ n =>
      simp at hi
      rcases mem_cons.mp he with rfl | he
      · exact ⟨e, by simp [setAt], hpe⟩
      · obtain ⟨e', he', hpe'⟩ := ih n hi ⟨e, he, hpe⟩
        exact ⟨e', by simp [setAt, he'], hpe'⟩

/-- after a failed or successful `evolveStep` from a state satisfying the hypotheses below -/
theorem genInv_evolveStep (env : Env) (sz : Option Nat) (hist : Hist) (np : Nat) (si : St) (g : Nat) (pop : List Item)
    (hent : ∀ e ∈ hist, ItemOk e.1) (hle : ∀ e ∈ hist, NonInit e → gidOf e ≤ g) (hg1 : 1 ≤ g)
    (hc : (∃ e ∈ hist, NonInit e ∧ gidOf e = g) ∨ (g = 1 ∧ NoNonInit hist)) :
    GenInv sz (match evolveStep env np (fedCount hist) si g pop with
      | (.ok it, s') => ⟨s', hist ++ [(it, none)]⟩
      | (.error _, s') => ⟨s', hist⟩) := by
  rcases evolveStep_exact env np (fedCount hist) si g pop with ⟨e, he⟩ | ⟨c, cs, he, hcc, hcs⟩
  · rw [he]
    exact ⟨np, si, true, g, pop, [], rfl, hent, (fun it h => by simp at h), hle, (fun h => by cases h),
      fun _ => ⟨hg1, hc⟩⟩
  · rw [he]
    exact genInv_append_child sz hist (np + 1) si g (g + 1) pop cs c hent hle (Nat.le_succ _) (by omega) hcc hcs

theorem genInv_step (env : Env) (init : Algo) (hb : IsBase init) (sz : Option Nat) (l : Live) (e : Event)
    (hl : GenInv sz l) : GenInv sz (step env (.evolution init sz) l e) := by
  obtain ⟨st, hist⟩ := l
  obtain ⟨np, si, ini, g, pop, pend, hst, hent, hpend, hle, hb0, hb1⟩ := hl
  simp only at hst hent hle hb0 hb1
  subst hst
  cases e with
  | propose =>
    simp only [step, propose]
    cases pend with
    | cons it rest =>
      -- a waiting child is proposed: the algorithm is evolving
      have hini : ini = true := by
        cases ini with
        | true => rfl
        | false => exact absurd (hb0 rfl).2.1 (by simp)
      subst hini
      obtain ⟨hg1, _⟩ := hb1 rfl
      exact genInv_append_child sz hist (np + 1) si g g pop rest it hent hle (Nat.le_refl _) hg1
        (hpend it mem_cons_self) (fun x hx => hpend x (mem_cons_of_mem _ hx))
    | nil =>
      simp only
      cases ini with
      | true =>
        simp only [↓reduceIte]
        obtain ⟨hg1, hc⟩ := hb1 rfl
        exact genInv_evolveStep env sz hist np si g pop hent hle hg1 hc
      | false =>
        simp only [Bool.false_eq_true, ↓reduceIte]
        obtain ⟨hg0, _, hno, hlt⟩ := hb0 rfl
        subst hg0
        have hle1 : ∀ e ∈ hist, NonInit e → gidOf e ≤ 1 := fun e he hn => absurd hn (hno e he)
        cases hpi : propose env init si with
        | mk r si' =>
          cases r with
          | ok d =>
            simp only
            refine ⟨np + 1, si', false, 0, pop, [], ?_, ?_, (fun it h => by simp at h), ?_, ?_, fun h => by cases h⟩
            · simp only [fedCount_append_unfed]
            · intro e he
              rcases mem_append.mp he with he | he
              · exact hent e he
              · rw [mem_singleton.mp he]
                exact ⟨rfl, rfl⟩
            · intro e he hn
              rcases mem_append.mp he with he | he
              · exact absurd hn (hno e he)
              · rw [mem_singleton.mp he] at hn
                simp [NonInit] at hn
            · intro _
              refine ⟨rfl, rfl, ?_, ?_⟩
              · intro e he hn
                rcases mem_append.mp he with he | he
                · exact hno e he hn
                · rw [mem_singleton.mp he] at hn
                  simp [NonInit] at hn
              · intro n hn
                rw [fedCount_append_unfed]; exact hlt n hn
          | error e =>
            cases e with
            | stop => exact genInv_evolveStep env sz hist np si' 1 pop hent hle1 (Nat.le_refl _) (Or.inr ⟨rfl, hno⟩)
            | value => exact ⟨np, si', false, 0, pop, [], rfl, hent, (fun it h => by simp at h), hle, (fun _ => ⟨rfl, rfl, hno, hlt⟩), fun h => by cases h⟩
            | type => exact ⟨np, si', false, 0, pop, [], rfl, hent, (fun it h => by simp at h), hle, (fun _ => ⟨rfl, rfl, hno, hlt⟩), fun h => by cases h⟩
            | assertion => exact ⟨np, si', false, 0, pop, [], rfl, hent, (fun it h => by simp at h), hle, (fun _ => ⟨rfl, rfl, hno, hlt⟩), fun h => by cases h⟩
            | key => exact ⟨np, si', false, 0, pop, [], rfl, hent, (fun it h => by simp at h), hle, (fun _ => ⟨rfl, rfl, hno, hlt⟩), fun h => by cases h⟩
            | mismatch => exact ⟨np, si', false, 0, pop, [], rfl, hent, (fun it h => by simp at h), hle, (fun _ => ⟨rfl, rfl, hno, hlt⟩), fun h => by cases h⟩
  | feedback i r =>
    simp only [step]
    cases hi : hist[i]? with
    | none => exact ⟨np, si, ini, g, pop, pend, rfl, hent, hpend, hle, hb0, hb1⟩
    | some e =>
      obtain ⟨it, ro⟩ := e
      cases ro with
      | some _ => exact ⟨np, si, ini, g, pop, pend, rfl, hent, hpend, hle, hb0, hb1⟩
      | none =>
        have hmem : (it, none) ∈ hist := mem_of_getElem? hi
        have hitok : ItemOk it := hent _ hmem
        simp only
        rcases feedback_evolution_exact env init hb sz np (fedCount hist) si ini g pop pend it
            (it.reward.getD r) hitok with ⟨e, he⟩ | ⟨it2, si', hf, hgid, hinit⟩
        · rw [he]
          exact ⟨np, si, ini, g, pop, pend, rfl, hent, hpend, hle, hb0, hb1⟩
        · rw [hf]
          simp only
          have hfc := fedCount_setAt hist i it it2 (it.reward.getD r) hi
          generalize env.update (pop ++ [it2]) (fedCount hist) = pop'
          -- the replaced entry keeps its generation id and its initial flag
          have hsame : ∀ e ∈ setAt hist i (it2, some (it.reward.getD r)),
              ∃ e0 ∈ hist, (NonInit e ↔ NonInit e0) ∧ gidOf e = gidOf e0 := by
            intro e he
            rcases mem_setAt _ _ _ _ he with rfl | he
            · exact ⟨(it, none), hmem, by simp [NonInit, hinit], by simp [gidOf, hgid]⟩
            · exact ⟨e, he, Iff.rfl, rfl⟩
          -- (the entries' labels needed by `recover` are re-established by the population invariant;
          --  here only gid / initial matter)
          have hent' : ∀ e ∈ setAt hist i (it2, some (it.reward.getD r)), ItemOk e.1 := by
            intro e he
            rcases mem_setAt _ _ _ _ he with rfl | he
            · exact ⟨by show it2.gid.isSome = true; rw [hgid]; exact hitok.1,
                by show it2.initial.isSome = true; rw [hinit]; exact hitok.2⟩
            · exact hent e he
          have hno' : NoNonInit hist → NoNonInit (setAt hist i (it2, some (it.reward.getD r))) := by
            intro hno e he hn
            obtain ⟨e0, he0, hiff, _⟩ := hsame e he
            exact hno e0 he0 (hiff.mp hn)
          have hle' : ∀ g', (∀ e ∈ hist, NonInit e → gidOf e ≤ g') →
              ∀ e ∈ setAt hist i (it2, some (it.reward.getD r)), NonInit e → gidOf e ≤ g' := by
            intro g' h0 e he hn
            obtain ⟨e0, he0, hiff, hg0⟩ := hsame e he
            rw [hg0]; exact h0 e0 he0 (hiff.mp hn)
          cases ini with
          | true =>
            have hfl : flipOf sz true (fedCount hist) = false := by simp [flipOf]
            simp only [hfl, Bool.or_false, Bool.false_eq_true, ↓reduceIte]
            obtain ⟨hg1, hc⟩ := hb1 rfl
            refine ⟨np, si', true, g, pop', pend, ?_, hent', hpend, hle' g hle, (fun h => by cases h), fun _ => ⟨hg1, ?_⟩⟩
            · rw [hfc]
            · rcases hc with hex | ⟨h1, hno⟩
              · exact Or.inl (exists_setAt (fun e => NonInit e ∧ gidOf e = g) hist i (it, none) _ hi
                  (fun hp => ⟨by simpa [NonInit, hinit] using hp.1, by simpa [gidOf, hgid] using hp.2⟩) hex)
              · exact Or.inr ⟨h1, hno' hno⟩
          | false =>
            obtain ⟨hg0, hpe, hno, hlt⟩ := hb0 rfl
            subst hg0
            subst hpe
            cases hfl : flipOf sz false (fedCount hist) with
            | true =>
              simp only [Bool.or_true, ↓reduceIte]
              refine ⟨np, si', true, 1, pop', [], ?_, hent', (fun it h => by simp at h), ?_, (fun h => by cases h),
                fun _ => ⟨Nat.le_refl _, Or.inr ⟨rfl, hno' hno⟩⟩⟩
              · rw [hfc]
              · intro e he hn
                exact absurd hn (hno' hno e he)
            | false =>
              simp only [Bool.or_false, Bool.false_eq_true, ↓reduceIte]
              refine ⟨np, si', false, 0, pop', [], ?_, hent', (fun it h => by simp at h), hle' 0 hle,
                (fun _ => ⟨rfl, rfl, hno' hno, ?_⟩), fun h => by cases h⟩
              · rw [hfc]
              · intro n hn
                rw [hfc]
                simp only [flipOf, hn, Bool.not_false, Bool.true_and, decide_eq_false_iff_not, Nat.not_le] at hfl
                exact hfl

theorem live_evolution_gen (env : Env) (init : Algo) (hb : IsBase init) (sz : Option Nat) (hsz : sz ≠ some 0)
    (run : List Event) : GenInv sz (runLive env (.evolution init sz) run) := by
  apply runLive_inv env (.evolution init sz) (GenInv sz)
  · refine ⟨0, setup init, false, 0, [], [], rfl, fun e h => by simp at h, fun it h => by simp at h,
      fun e h => by simp at h, fun _ => ⟨rfl, rfl, fun e h => by simp at h, ?_⟩, fun h => by cases h⟩
    intro n hn
    cases n with
    | zero => exact absurd hn hsz
    | succ m => simp [fedCount]
  · exact fun l e hl => genInv_step env init hb sz l e hl

/-- has the initial population reached its size: the test of the repaired `Evolution.recover` on the
total number of feedbacks replayed so far (the condition `_feedback` checks on the live path) -/
def doneInit (sz : Option Nat) (nf : Nat) : Bool :=
  match sz with
  | some n => decide (n ≤ nf)
  | none => false

theorem recover_evolution_full (env : Env) (hg : env.q.evoInitGenBump = false) (ho : env.q.evoProposalOrder = false)
    (hd : env.q.evoInitDonePerCall = false)
    (init : Algo) (hb : IsBase init) (sz : Option Nat) (h : Hist) (hok : ∀ e ∈ h, EntryOk e) :
    ∃ si', recover env (.evolution init sz) (setup (.evolution init sz)) h
      = .ok (.evolution h.length (popOf env ([], 0) ((fedOf (sortByFeedback h)).map (·.1))).2 si'
              (doneInit sz (popOf env ([], 0) ((fedOf (sortByFeedback h)).map (·.1))).2)
              (if (doneInit sz (popOf env ([], 0) ((fedOf (sortByFeedback h)).map (·.1))).2
                    && decide ((sortByFeedback h).foldl gStep 0 = 0)) = true then 1
               else (sortByFeedback h).foldl gStep 0)
              (popOf env ([], 0) ((fedOf (sortByFeedback h)).map (·.1))).1 []) := by
  have hloop := evoRecover_loop_full env hg (.evolution init sz) (sortByFeedback h)
    (fun e he => hok e ((mem_sortByFeedback e _).mp he)) 0 0 (setup init) false 0 [] []
  have htot : ∃ si', recover env init (setup init) (h.filter isInitFed) = .ok si' := by
    rcases hb with rfl | ⟨seed, sd, rfl⟩
    · simp only [recover, setup, baseRecover_sweeping]; exact ⟨_, rfl⟩
    · simp only [recover, setup, baseRecover_random]; exact ⟨_, rfl⟩
  obtain ⟨si', hsi'⟩ := htot
  refine ⟨si', ?_⟩
  simp only [recover, ho, setup, hloop, hsi', hg, hd, Bool.false_eq_true, ↓reduceIte, length_sortByFeedback,
    Nat.zero_add, Bool.false_or, Bool.not_false, Bool.and_true, doneInit]
  cases sz <;> rfl

theorem doneInit_false_of_lt (sz : Option Nat) (nf : Nat) (hlt : ∀ n, sz = some n → nf < n) :
    doneInit sz nf = false := by
  cases sz with
  | none => rfl
  | some n =>
    have h1 := hlt n rfl
    simp only [doneInit, decide_eq_false_iff_not, Nat.not_le]
    omega

end Pg.C15
