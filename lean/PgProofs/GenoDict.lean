/-
  C12: `from_dict` reconstructs a valid DNA from ANY dictionary that holds, under the id of every
  decision point the DNA passes through, the decision made there in the requested value style
  (`Good`): stage 1 of `from_dict ∘ to_dict = id`.
-/
import PgProofs.GenoAlign
import PgProofs.GenoRandom
import PgProofs.GenoNumbers
namespace Pg.Geno
open DNA

section
variable (D : List (String × DE)) (o : Opts) (useInts : Bool)

/-- The decision `x` sits under the node's own key: its id, or (when the id is no key of `D`) its
name — the two places `_get_decision` looks at, in this order. -/
def ownKeyOk (id : List Tok) (name : Option String) (x : DV) : Prop :=
  dictGet D (renderId id) = some (.one x) ∨
  (dictGet D (renderId id) = none ∧ ∃ nm, name = some nm ∧ dictGet D nm = some (.one x))

/-- Where the decision `x` of the node bound to `dp` is found in `D`. -/
def lookupOk (dp : Dp) (x : DV) : Prop :=
  match dp.sub with
  | none => ownKeyOk D dp.id dp.name x
  | some idx =>
    if o.multi = 1 then
      dictGet D (renderId dp.id) = none ∧ (∀ nm, dp.name = some nm → dictGet D nm = none) ∧
      ∃ xs, dictGet D (renderId (dp.parentId.getD [])) = some (.many xs) ∧ xs.length = dp.arity ∧
        xs[idx]? = some x
    else ownKeyOk D dp.id dp.name x

mutual
  /-- The dictionary holds the decision of every bound node of the tree, and the value style can
  be read back (`candidate_index` finds the chosen candidate). -/
  def Good : BDNA → Prop
    | .mk v bound cs =>
      (match bound, v with
       | some dp, .int i =>
         dp.kind = .choice →
           lookupOk D o dp (fmtChoice o dp i (BDNA.mk v bound cs).erase) ∧
           (o.valueType = 1 ∨
             choiceIndex useInts dp.lits dp.n (fmtChoice o dp i (BDNA.mk v bound cs).erase) = some i.toNat)
       | some dp, v' =>
         dp.kind ≠ .choice →
           ownKeyOk D dp.id dp.name
             (if o.valueType == 1 then .dna (BDNA.mk v bound cs).erase else .val v')
       | none, _ => True) ∧ GoodL cs
  def GoodL : List BDNA → Prop
    | [] => True
    | c :: cs => Good c ∧ GoodL cs
end

theorem GoodL_getElem : ∀ (bs : List BDNA) (j : Nat) (b : BDNA), GoodL D o useInts bs → bs[j]? = some b →
    Good D o useInts b
  | [], j, b, _, h => by simp at h
  | c :: cs, 0, b, hg, h => by
    simp only [List.getElem?_cons_zero, Option.some.injEq] at h; subst h; exact hg.1
  | c :: cs, j + 1, b, hg, h => GoodL_getElem cs j b hg.2 (by simpa using h)

theorem getDecision_found {id : String} {name : Option String} {e : DE} (h : dictGet D id = some e) :
    getDecision D id name = (some e, D) := by
  simp [getDecision, h]

theorem getDecision_own {id : List Tok} {name : Option String} {x : DV} (h : ownKeyOk D id name x) :
    getDecision D (renderId id) name = (some (.one x), D) := by
  rcases h with h | ⟨h1, nm, h2, h3⟩
  · exact getDecision_found D h
  · subst h2
    simp [getDecision, h1, h3]

theorem getDecision_missing {id : String} {name : Option String} (h : dictGet D id = none)
    (hn : ∀ nm, name = some nm → dictGet D nm = none) : getDecision D id name = (none, D) := by
  unfold getDecision
  rw [h]
  cases name with
  | none => rfl
  | some nm => simp [hn nm rfl]

theorem fmtChoice_dna (dp : Dp) (i : Int) (self : DNA) (h : o.valueType = 1) : fmtChoice o dp i self = .dna self := by
  simp [fmtChoice, h]

theorem fmtChoice_not_dna (dp : Dp) (i : Int) (self : DNA) (h : o.valueType ≠ 1) :
    ∀ c, fmtChoice o dp i self ≠ .dna c := by
  intro c
  unfold fmtChoice
  split
  · simp
  · rename_i h1; exact absurd h1 h
  · simp
  · split <;> simp
  · simp

/-- One single-choice node is rebuilt from the dictionary. -/
theorem fromDictChoice_node (info : Info) (n : Nat) (cands : List (List Point)) (nid : List Tok)
    (parent : Option (List Tok × Nat × Nat)) (dp : Dp)
    (hdp : dp.id = nid ∧ dp.name = info.name ∧ dp.lits = info.lits ∧ dp.n = n ∧ dp.kind = .choice ∧
      (match parent with
       | none => dp.sub = none
       | some (pid, k, idx) => dp.sub = some idx ∧ dp.parentId = some pid ∧ dp.arity = k))
    (i : Int) (ks : List DNA) (bs : List BDNA) (hi : inRange n i = true) (hes : eraseList bs = ks)
    (hg : Good D o useInts (.mk (.int i) (some dp) bs))
    (c : List Point) (hv : validElems c (unkids c ks) = true)
    (hAt : fromDictAt useInts cands (nid ++ [.cond i.toNat n]) i.toNat D = some (mk' .none (unkids c ks), D)) :
    fromDictChoiceWith useInts info n (fun pre' i' d'' => fromDictAt useInts cands pre' i' d'') nid parent D =
      some (.mk (.int i) ks, D) := by
  obtain ⟨hid, hname, hlits, hn, hkind, hpar⟩ := hdp
  have hself : (BDNA.mk (.int i) (some dp) bs).erase = .mk (.int i) ks := by simp [BDNA.erase, hes]
  obtain ⟨hnode, _⟩ := hg
  obtain ⟨hlook, hval⟩ := hnode hkind
  rw [hself] at hlook hval
  -- the value found for this (sub-)choice
  have hr : lookupChoice D nid info.name parent = some (fmtChoice o dp i (.mk (.int i) ks), D) := by
    unfold lookupOk at hlook
    unfold lookupChoice
    cases parent with
    | none =>
      rw [hpar] at hlook
      simp only at hlook
      rw [← hid, ← hname, getDecision_own D hlook]
    | some p =>
      obtain ⟨pid, k, idx⟩ := p
      obtain ⟨hsub, hpid, har⟩ := hpar
      rw [hsub] at hlook
      simp only at hlook
      by_cases hm : o.multi = 1
      · simp only [hm, if_true] at hlook
        obtain ⟨h1, h2, xs, h3, h4, h5⟩ := hlook
        rw [← hid, getDecision_missing D h1 (fun nm e => h2 nm (hname ▸ e))]
        simp only
        rw [hpid] at h3
        simp only [Option.getD_some] at h3
        rw [getDecision_found D h3]
        simp [h4, har, h5]
      · simp only [hm, if_false] at hlook
        rw [← hid, ← hname, getDecision_own D hlook]
  unfold fromDictChoiceWith
  rw [hr]
  generalize hx' : fmtChoice o dp i (.mk (.int i) ks) = x at *
  have hx : x = fmtChoice o dp i (.mk (.int i) ks) := hx'.symm
  by_cases hvt : o.valueType = 1
  · rw [hx, fmtChoice_dna o dp i _ hvt]
  · have hnd := fmtChoice_not_dna o dp i (.mk (.int i) ks) hvt
    have hci : choiceIndex useInts info.lits n x = some i.toNat := by
      rcases hval with h | h
      · exact absurd h hvt
      · rw [← hlits, ← hn]; exact h
    have hi0 : 0 ≤ i := by simp only [inRange, Bool.and_eq_true, decide_eq_true_eq] at hi; exact hi.1
    have hcast : ((i.toNat : Nat) : Int) = i := Int.toNat_of_nonneg hi0
    cases hxx : x with
    | dna c' => rw [hx] at hxx; exact absurd hxx (hnd c')
    | val w =>
      simp only
      rw [← hxx, hci]
      simp only [hAt, mk'_int_single, kids_mk'_none c _ hv, kidsL_unkids c ks hv, hcast]
    | str w =>
      simp only
      rw [← hxx, hci]
      simp only [hAt, mk'_int_single, kids_mk'_none c _ hv, kidsL_unkids c ks hv, hcast]
    | lit w =>
      simp only
      rw [← hxx, hci]
      simp only [hAt, mk'_int_single, kids_mk'_none c _ hv, kidsL_unkids c ks hv, hcast]
    | choice a b w =>
      simp only
      rw [← hxx, hci]
      simp only [hAt, mk'_int_single, kids_mk'_none c _ hv, kidsL_unkids c ks hv, hcast]


theorem annotSingle_some {dp : Dp} {kat : Nat → List DNA → Option (List BDNA)} {x : DNA} {b : BDNA}
    (h : annotSingleWith dp kat x = some b) :
    ∃ i ks bs, x = .mk (.int i) ks ∧ inRange dp.n i = true ∧ kat i.toNat ks = some bs ∧
      b = .mk (.int i) (some dp) bs := by
  cases x with
  | mk w ks =>
    cases w with
    | int i =>
      simp only [annotSingleWith] at h
      by_cases hr : inRange dp.n i = true
      · simp only [hr, if_true] at h
        cases hk : kat i.toNat ks with
        | none => simp [hk] at h
        | some bs =>
          simp only [hk, Option.map_some, Option.some.injEq] at h
          exact ⟨i, ks, bs, rfl, hr, hk, h.symm⟩
      · simp [hr] at h
    | none => simp [annotSingleWith] at h
    | flt => simp [annotSingleWith] at h
    | str => simp [annotSingleWith] at h

theorem mapIdxM_getElem (f : Nat → DNA → Option BDNA) : ∀ (cs : List DNA) (s : Nat) (bs : List BDNA),
    mapIdxM f s cs = some bs → ∀ j x, cs[j]? = some x → ∃ b, bs[j]? = some b ∧ f (s + j) x = some b
  | [], _, _, _, j, x, hx => by simp at hx
  | c :: cs, s, bs, h, j, x, hx => by
    simp only [mapIdxM] at h
    cases h1 : f s c with
    | none => simp [h1] at h
    | some b0 =>
      cases h2 : mapIdxM f (s + 1) cs with
      | none => simp [h1, h2] at h
      | some bs0 =>
        simp only [h1, h2, Option.some.injEq] at h
        subst h
        cases j with
        | zero =>
          simp only [List.getElem?_cons_zero, Option.some.injEq] at hx
          subst hx
          exact ⟨b0, rfl, by simpa using h1⟩
        | succ j =>
          obtain ⟨b, hb, hf⟩ := mapIdxM_getElem f cs (s + 1) bs0 h2 j x (by simpa using hx)
          exact ⟨b, by simpa using hb, by rwa [show s + (j + 1) = s + 1 + j by omega]⟩

theorem loop_of_nodes (F : Nat → List (String × DE) → Option (DNA × List (String × DE))) :
    ∀ (cs : List DNA) (s : Nat), (∀ j x, cs[j]? = some x → F (s + j) D = some (x, D)) →
      fromDictLoop F s cs.length D = some (cs, D)
  | [], _, _ => rfl
  | c :: cs, s, h => by
    have h0 := h 0 c rfl
    simp only [Nat.add_zero] at h0
    have hr := loop_of_nodes F cs (s + 1) (fun j x hx => by
      have := h (j + 1) x (by simpa using hx)
      rwa [show s + (j + 1) = s + 1 + j by omega] at this)
    simp [fromDictLoop, h0, hr]

theorem eraseList_length : ∀ bs : List BDNA, (eraseList bs).length = bs.length
  | [] => rfl
  | b :: bs => by simp [eraseList, eraseList_length bs]

/-- The hypothesis about the candidates shared by the node-level lemmas. -/
def AtOk (cands : List (List Point)) : Prop :=
  ∀ (id' : List Tok) (v : Nat) (ks : List DNA) (bs : List BDNA),
    annotKidsAt cands cands.length id' 0 v ks = some bs → validKidsAt cands v ks = true →
    GoodL D o useInts bs →
    ∃ c, validElems c (unkids c ks) = true ∧ eraseList bs = ks ∧
      fromDictAt useInts cands (id' ++ [.cond v cands.length]) v D = some (mk' .none (unkids c ks), D)

/-- The `k` (sub-)choice nodes of a decision point are rebuilt one after the other. -/
theorem choiceNodes_loop (cands : List (List Point)) (hAt : AtOk D o useInts cands) (id : List Tok)
    (k : Nat) (info : Info) (cs : List DNA) (bs : List BDNA)
    (hall : cs.all (validNodeWith cands.length (validKidsAt cands)) = true)
    (han : annotChoiceNodes id k cands.length info (fun id' => annotKidsAt cands cands.length id' 0) cs = some bs)
    (hg : GoodL D o useInts bs) :
    fromDictLoop (fun i d' =>
        fromDictChoiceWith useInts info cands.length (fun pre' i' d'' => fromDictAt useInts cands pre' i' d'')
          (if k == 1 then id else id ++ [.i (i : Nat)])
          (if k == 1 then none else some (id, k, i)) d') 0 k D = some (cs, D) := by
  unfold annotChoiceNodes at han
  by_cases hl : (cs.length != k) = true
  · simp [hl] at han
  · simp only [hl, Bool.false_eq_true, if_false] at han
    have hlen : cs.length = k := by simpa using hl
    rw [← hlen]
    apply loop_of_nodes
    intro j x hx
    have hxv : validNodeWith cands.length (validKidsAt cands) x = true :=
      (List.all_eq_true.mp hall) x (List.mem_of_getElem? hx)
    rw [hlen, Nat.zero_add]
    by_cases hk1 : (k == 1) = true
    · simp only [hk1, if_true] at han ⊢
      obtain ⟨b, hb, hf⟩ := mapIdxM_getElem _ cs 0 bs han j x hx
      obtain ⟨i, ks, bs', rfl, hr, hkat, rfl⟩ := annotSingle_some hf
      have hgb := GoodL_getElem D o useInts bs j _ hg hb
      simp only [validNodeWith, Bool.and_eq_true] at hxv
      obtain ⟨c, hv, hes, hfa⟩ := hAt id i.toNat ks bs' hkat hxv.2 hgb.2
      exact fromDictChoice_node D o useInts info cands.length cands id none _
        ⟨rfl, rfl, rfl, rfl, rfl, rfl⟩ i ks bs' hr hes hgb c hv hfa
    · simp only [hk1, Bool.false_eq_true, if_false] at han ⊢
      obtain ⟨b, hb, hf⟩ := mapIdxM_getElem _ cs 0 bs han j x hx
      rw [Nat.zero_add] at hf
      obtain ⟨i, ks, bs', rfl, hr, hkat, rfl⟩ := annotSingle_some hf
      have hgb := GoodL_getElem D o useInts bs j _ hg hb
      simp only [validNodeWith, Bool.and_eq_true] at hxv
      obtain ⟨c, hv, hes, hfa⟩ := hAt (id ++ [.i (j : Nat)]) i.toNat ks bs' hkat hxv.2 hgb.2
      exact fromDictChoice_node D o useInts info cands.length cands (id ++ [.i (j : Nat)]) (some (id, k, j)) _
        ⟨rfl, rfl, rfl, rfl, rfl, rfl, rfl, rfl⟩ i ks bs' hr hes hgb c hv hfa


theorem mk'_none_nodes (k : Nat) (cs : List DNA) (hl : cs.length = k)
    (hall : cs.all (validNodeWith n (vk)) = true) :
    mk' .none cs = rootOf cs := by
  apply mk'_none_of_intTop
  intro x hx
  have := (List.all_eq_true.mp hall) x hx
  cases x with
  | mk w gs =>
    cases w with
    | int i => exact ⟨i, gs, rfl⟩
    | none => simp [validNodeWith] at this
    | flt => simp [validNodeWith] at this
    | str => simp [validNodeWith] at this

theorem fromDict_leaf (pre : List Tok) (p : Point) (hp : ∀ k c d s i, p ≠ .choices k c d s i)
    (hc : p.noCustom = true) (x : DNA) (b : BDNA) (hv : validP p x = true)
    (han : annotLeaf pre p x = some b) (hg : Good D o useInts b) :
    fromDictP useInts pre p D = some (x, D) := by
  cases p with
  | choices k c d s i => exact absurd rfl (hp k c d s i)
  | custom => simp [Point.noCustom] at hc
  | float a b' c' d' info =>
    cases x with
    | mk w cs =>
      cases w with
      | flt n e =>
        cases cs with
        | cons g gs => simp [validP] at hv
        | nil =>
          simp only [annotLeaf, Option.some.injEq] at han
          subst han
          simp only [validP, Bool.and_eq_true] at hv
          have hlook := hg.1 (by simp)
          simp only [fromDictP]
          rw [getDecision_own D hlook]
          by_cases hvt : (o.valueType == 1) = true
          · simp [hvt, BDNA.erase, eraseList, unboundList, DNA.value, hv.1, hv.2]
          · simp [hvt, hv.1, hv.2]
      | none => simp [validP] at hv
      | int => simp [validP] at hv
      | str => simp [validP] at hv

mutual
  theorem fromDictP_ok (p : Point) (hc : p.noCustom = true) : ∀ (pre : List Tok) (d : DNA) (b : BDNA),
      validP p d = true → annotP pre p d = some b → Good D o useInts b →
      fromDictP useInts pre p D = some (d, D) := by
    cases p with
    | custom => simp [Point.noCustom] at hc
    | float a b' c d' info =>
      intro pre d b hv han hg
      have : annotP pre (.float a b' c d' info) d = annotLeaf pre (.float a b' c d' info) d := by simp [annotP]
      rw [this] at han
      exact fromDict_leaf D o useInts pre _ (by intro k c d s i e; cases e) hc d b hv han hg
    | choices k cands dd ss info =>
      simp only [Point.noCustom] at hc
      intro pre d b hv han hg
      have hAt : AtOk D o useInts cands := fun id' v ks bs h1 h2 h3 => by
        have := fromDictAt_ok cands hc cands.length id' 0 v ks bs h1 h2 h3
        simpa using this
      simp only [validP] at hv
      cases hu : unroot k d with
      | none => simp [hu] at hv
      | some seq =>
        simp only [hu, Bool.and_eq_true, beq_iff_eq] at hv
        obtain ⟨⟨⟨hl, hall⟩, _⟩, _⟩ := hv
        unfold unroot at hu
        simp only [fromDictP]
        by_cases hk : (k == 1) = true
        · simp only [hk, if_true, Option.some.injEq] at hu
          subst hu
          simp only [annotP, hk, if_true] at han
          have han' : annotChoiceNodes (pre ++ locToks info.loc) k cands.length info
              (fun id' => annotKidsAt cands cands.length id' 0) [d] = some [b] := by
            simp [annotChoiceNodes, hk, hl, mapIdxM, han]
          have hloop := choiceNodes_loop D o useInts cands hAt (pre ++ locToks info.loc) k info [d] [b] hall han'
            ⟨hg, trivial⟩
          rw [hloop]
          simp only [Option.map_some, Option.some.injEq, Prod.mk.injEq, and_true]
          rw [mk'_none_nodes k [d] hl hall]; rfl
        · simp only [hk, Bool.false_eq_true, if_false] at hu
          cases d with
          | mk w gs =>
            cases w with
            | none =>
              simp only [Option.some.injEq] at hu
              subst hu
              simp only [annotP, hk, Bool.false_eq_true, if_false] at han
              cases hcn : annotChoiceNodes (pre ++ locToks info.loc) k cands.length info
                  (fun id' => annotKidsAt cands cands.length id' 0) gs with
              | none => simp [hcn] at han
              | some bs =>
                simp only [hcn, Option.map_some, Option.some.injEq] at han
                subst han
                have hloop := choiceNodes_loop D o useInts cands hAt (pre ++ locToks info.loc) k info gs bs hall hcn hg.2
                rw [hloop]
                simp only [Option.map_some, Option.some.injEq, Prod.mk.injEq, and_true]
                rw [mk'_none_nodes k gs hl hall]
                have hk1 : gs.length ≠ 1 := by intro e; rw [hl] at e; simp [e] at hk
                match gs, hk1 with
                | [], _ => rfl
                | [g], h1 => exact absurd rfl h1
                | a1 :: a2 :: t, _ => rfl
            | int => simp at hu
            | flt => simp at hu
            | str => simp at hu
  theorem fromDictElems_ok (es : List Point) (hc : noCustomSpace es = true) :
      ∀ (pre : List Tok) (ds : List DNA) (bs : List BDNA),
      validElems es ds = true → annotElems pre es ds = some bs → GoodL D o useInts bs →
      fromDictElems useInts pre es D = some (ds, D) := by
    cases es with
    | nil =>
      intro pre ds bs hv _ _
      cases ds with
      | nil => rfl
      | cons a b => simp [validElems] at hv
    | cons p ps =>
      simp only [noCustomSpace, Bool.and_eq_true] at hc
      intro pre ds bs hv han hg
      cases ds with
      | nil => simp [validElems] at hv
      | cons d ds =>
        simp only [validElems, Bool.and_eq_true] at hv
        simp only [annotElems] at han
        cases h1 : annotP pre p d with
        | none => simp [h1] at han
        | some b =>
          cases h2 : annotElems pre ps ds with
          | none => simp [h1, h2] at han
          | some bs' =>
            simp only [h1, h2, Option.some.injEq] at han
            subst han
            simp only [fromDictElems, fromDictP_ok p hc.1 pre d b hv.1 h1 hg.1,
              fromDictElems_ok ps hc.2 pre ds bs' hv.2 h2 hg.2, Option.map_some]
  theorem fromDictKids_ok (c : List Point) (hc : noCustomSpace c = true) :
      ∀ (pre : List Tok) (ks : List DNA) (bs : List BDNA),
      validElems c (unkids c ks) = true → annotKids pre c ks = some bs → GoodL D o useInts bs →
      fromDictElems useInts pre c D = some (unkids c ks, D) := by
    match c, hc with
    | [], _ =>
      intro pre ks bs hv _ _
      have hu : unkids [] ks = ks := rfl
      rw [hu] at hv ⊢
      cases ks with
      | nil => rfl
      | cons a b => simp [validElems] at hv
    | [.choices k cands dd ss info], hc =>
      simp only [noCustomSpace, Point.noCustom, Bool.and_true] at hc
      intro pre ks bs hv han hg
      have hAt : AtOk D o useInts cands := fun id' v ks bs h1 h2 h3 => by
        have := fromDictAt_ok cands hc cands.length id' 0 v ks bs h1 h2 h3
        simpa using this
      simp only [annotKids] at han
      by_cases hk : k = 1
      · subst hk
        have hu : unkids [.choices 1 cands dd ss info] ks = ks := by simp [unkids]
        rw [hu] at hv ⊢
        obtain ⟨x, rfl, hx⟩ := validElems_single hv
        simp only [validP, unroot, beq_self_eq_true, if_true, Bool.and_eq_true, beq_iff_eq] at hx
        have hloop := choiceNodes_loop D o useInts cands hAt (pre ++ locToks info.loc) 1 info [x] bs hx.1.1.2 han hg
        simp only [fromDictElems, fromDictP, hloop, Option.map_some]
        rw [mk'_none_nodes 1 [x] rfl hx.1.1.2]; rfl
      · have hu : unkids [.choices k cands dd ss info] ks = [.mk .none ks] := by simp [unkids, hk]
        rw [hu] at hv ⊢
        have hk' : (k == 1) = false := by simp [hk]
        simp only [validElems, Bool.and_true, validP, unroot, hk', Bool.false_eq_true, if_false,
          Bool.and_eq_true, beq_iff_eq] at hv
        have hloop := choiceNodes_loop D o useInts cands hAt (pre ++ locToks info.loc) k info ks bs hv.1.1.2 han hg
        simp only [fromDictElems, fromDictP, hloop, Option.map_some]
        rw [mk'_none_nodes k ks hv.1.1.1 hv.1.1.2]
        have hk1 : ks.length ≠ 1 := by rw [hv.1.1.1]; exact hk
        match ks, hk1 with
        | [], _ => rfl
        | [g], h1 => exact absurd rfl h1
        | a1 :: a2 :: t, _ => rfl
    | [.float a b' c' d' info], hc =>
      intro pre ks bs hv han hg
      have hu : unkids [.float a b' c' d' info] ks = ks := rfl
      rw [hu] at hv ⊢
      obtain ⟨x, rfl, hx⟩ := validElems_single hv
      simp only [annotKids] at han
      cases hl : annotLeaf pre (.float a b' c' d' info) x with
      | none => simp [hl] at han
      | some bb =>
        simp only [hl, Option.map_some, Option.some.injEq] at han
        subst han
        have := fromDict_leaf D o useInts pre _ (by intro k c d s i e; cases e) (by simp [Point.noCustom]) x bb hx hl hg.1
        simp [fromDictElems, this]
    | [.custom info], hc => simp [noCustomSpace, Point.noCustom] at hc
    | p :: q :: r, hc =>
      simp only [noCustomSpace, Bool.and_eq_true] at hc
      intro pre ks bs hv han hg
      have hu : unkids (p :: q :: r) ks = ks := by cases p <;> rfl
      rw [hu] at hv ⊢
      obtain ⟨c1, c2, t, rfl⟩ := validElems_two hv
      simp only [validElems, Bool.and_eq_true] at hv
      cases h1 : annotP pre p c1 with
      | none => exfalso; cases p <;> simp [annotKids, h1] at han
      | some b1 =>
        cases h2 : annotP pre q c2 with
        | none => exfalso; cases p <;> simp [annotKids, h1, h2] at han
        | some b2 =>
          cases h3 : annotElems pre r t with
          | none => exfalso; cases p <;> simp [annotKids, h1, h2, h3] at han
          | some bs' =>
            have hbs : bs = b1 :: b2 :: bs' := by
              cases p <;> simp [annotKids, h1, h2, h3] at han <;> exact han.symm
            subst hbs
            simp only [fromDictElems, fromDictP_ok p hc.1 pre c1 b1 hv.1 h1 hg.1,
              fromDictP_ok q hc.2.1 pre c2 b2 hv.2.1 h2 hg.2.1,
              fromDictElems_ok r hc.2.2 pre t bs' hv.2.2 h3 hg.2.2, Option.map_some]
  theorem fromDictAt_ok (cs : List (List Point)) (hc : noCustomCands cs = true) :
      ∀ (n : Nat) (id : List Tok) (off v : Nat) (ks : List DNA) (bs : List BDNA),
      annotKidsAt cs n id off v ks = some bs → validKidsAt cs v ks = true → GoodL D o useInts bs →
      ∃ c, validElems c (unkids c ks) = true ∧ eraseList bs = ks ∧
        fromDictAt useInts cs (id ++ [.cond (off + v) n]) v D = some (mk' .none (unkids c ks), D) := by
    cases cs with
    | nil => intro n id off v ks bs _ hv _; simp [validKidsAt] at hv
    | cons c cs =>
      simp only [noCustomCands, Bool.and_eq_true] at hc
      intro n id off v ks bs han hv hg
      cases v with
      | zero =>
        simp only [validKidsAt] at hv
        simp only [annotKidsAt] at han
        obtain ⟨bs', hb', he⟩ := annotKids_erase c (id ++ [.cond off n]) ks hv
        rw [han] at hb'
        cases hb'
        refine ⟨c, hv, he, ?_⟩
        simp only [fromDictAt, Nat.add_zero, fromDictKids_ok c hc.1 _ ks bs hv han hg, Option.map_some]
      | succ v =>
        simp only [validKidsAt] at hv
        simp only [annotKidsAt] at han
        obtain ⟨c', h1, h2, h3⟩ := fromDictAt_ok cs hc.2 n id (off + 1) v ks bs han hv hg
        refine ⟨c', h1, h2, ?_⟩
        simp only [fromDictAt]
        rwa [show off + (v + 1) = off + 1 + v by omega]
end


/-- `from_dict` rebuilds a valid DNA from any dictionary that holds its decisions (`Good`). -/
theorem fromDict_of_good (g : Spec) (hc : g.noCustom = true) (d : DNA) (b : BDNA)
    (hv : g.valid d = true) (han : g.annot d = some b) (hg : Good D o useInts b) :
    g.fromDict useInts D = some d := by
  have hb : g.bind d = true := by
    rw [bind_eq_valid g d (floatLeaves_of_valid g hc d hv)]; exact hv
  cases g with
  | point p =>
    have := fromDictP_ok D o useInts p hc [] d b hv han hg
    simp [Spec.fromDict, this, hb]
  | space s =>
    simp only [Spec.valid, validS] at hv
    cases hu : unroot s.length d with
    | none => simp [hu] at hv
    | some ds =>
      simp only [hu] at hv
      have hl := validElems_length s ds hv
      have hd : mk' .none ds = d :=
        ((unroot_iff hl).mp hu).symm ▸ (((unroot_iff hl).mp (unroot_mk'_none s ds hv)).symm ▸ rfl)
      -- the bindings of the element DNAs
      have hel : ∃ bs, annotElems [] s ds = some bs ∧ GoodL D o useInts bs := by
        unfold unroot at hu
        match s, hu, han, hv with
        | [p], hu, han, hv =>
          simp only [List.length_cons, List.length_nil, Nat.zero_add, beq_self_eq_true, if_true,
            Option.some.injEq] at hu
          subst hu
          simp only [Spec.annot] at han
          exact ⟨[b], by simp [annotElems, han], ⟨hg, trivial⟩⟩
        | [], hu, han, hv =>
          cases ds with
          | nil => exact ⟨[], rfl, trivial⟩
          | cons a t => simp [validElems] at hv
        | p :: q :: r, hu, han, hv =>
          cases d with
          | mk w gs =>
            cases w with
            | none =>
              simp at hu; subst hu
              simp only [Spec.annot] at han
              cases h1 : annotElems [] (p :: q :: r) gs with
              | none => simp [h1] at han
              | some bs =>
                simp only [h1, Option.map_some, Option.some.injEq] at han
                subst han
                exact ⟨bs, rfl, hg.2⟩
            | int => simp at hu
            | flt => simp at hu
            | str => simp at hu
      obtain ⟨bs, hbs, hgl⟩ := hel
      have := fromDictElems_ok D o useInts s hc [] ds bs hv hbs hgl
      simp [Spec.fromDict, this, hd, hb]

end

/-! ### the value styles can be read back (`ViewOk` for the literal style) -/

/-- What the literal style needs: literals pairwise different, integer literals only with
`use_ints_as_literals=True`, string literals not shaped like `i/n` or `i/n (…)`. -/
def litsOk (useInts : Bool) (ls : List Lit) : Prop :=
  ls.Nodup ∧ ∀ l ∈ ls, match l with
    | .i _ => useInts = true
    | .s t => parseChoice t = none
    | .f _ _ => True

/-- What each value style of `to_dict` needs in order to be readable by `from_dict`. -/
def styleOk (o : Opts) (useInts : Bool) (lits : Option (List Lit)) : Prop :=
  match o.valueType with
  | 0 => useInts = false
  | 3 => match lits with
         | some ls => litsOk useInts ls
         | none => True
  | _ => True

theorem lastIndexFrom_none (l : Lit) : ∀ (ls : List Lit) (s : Nat), l ∉ ls → lastIndexFrom l ls s = none
  | [], _, _ => rfl
  | x :: xs, s, h => by
    simp only [List.mem_cons, not_or] at h
    have hx : (x == l) = false := by simp [Ne.symm h.1]
    simp [lastIndexFrom, lastIndexFrom_none l xs (s + 1) h.2, hx]

theorem lastIndexFrom_nodup (l : Lit) : ∀ (ls : List Lit) (s i : Nat), ls.Nodup → ls[i]? = some l →
    lastIndexFrom l ls s = some (s + i)
  | [], _, _, _, h => by simp at h
  | x :: xs, s, 0, hnd, h => by
    simp only [List.getElem?_cons_zero, Option.some.injEq] at h
    subst h
    rw [List.nodup_cons] at hnd
    simp [lastIndexFrom, lastIndexFrom_none x xs (s + 1) hnd.1]
  | x :: xs, s, i + 1, hnd, h => by
    rw [List.nodup_cons] at hnd
    have := lastIndexFrom_nodup l xs (s + 1) i hnd.2 (by simpa using h)
    simp only [lastIndexFrom, this]
    congr 1; omega

theorem litIndex_nodup (ls : List Lit) (hnd : ls.Nodup) (i : Nat) (l : Lit) (h : ls[i]? = some l) :
    litIndex (some ls) l = some i := by
  have := lastIndexFrom_nodup l ls 0 i hnd h
  simpa [litIndex] using this

theorem choiceIndex_fmt (o : Opts) (useInts : Bool) (dp : Dp) (i : Int) (self : DNA)
    (hi : inRange dp.n i = true) (hok : styleOk o useInts dp.lits) :
    o.valueType = 1 ∨ choiceIndex useInts dp.lits dp.n (fmtChoice o dp i self) = some i.toNat := by
  have hi' := hi
  simp only [inRange, Bool.and_eq_true, decide_eq_true_eq] at hi'
  have hlt : i.toNat < dp.n := by omega
  have hcheck : ∀ lit : Option Lit, lit = dp.lits.bind (·[i.toNat]?) ∨ lit = none →
      checkChoice dp.lits dp.n i.toNat dp.n (lit.map litStr) = some i.toNat := by
    intro lit hl
    unfold checkChoice
    rcases hl with rfl | rfl
    · cases hb : dp.lits.bind (·[i.toNat]?) with
      | none => simp [hlt]
      | some l => simp [hlt, hb]
    · simp [hlt]
  unfold fmtChoice
  unfold styleOk at hok
  split
  · right
    rename_i h0
    rw [h0] at hok
    simp only at hok
    simp [choiceIndex, hok, hi]
  · left; assumption
  · right; simpa [choiceIndex] using hcheck none (Or.inr rfl)
  · right
    rename_i h3
    rw [h3] at hok
    simp only at hok
    split
    · rename_i l hl
      cases hlits : dp.lits with
      | none => rw [hlits] at hl; simp at hl
      | some ls =>
        rw [hlits] at hl hok
        simp only [Option.bind_some] at hl
        simp only at hok
        obtain ⟨hnd, hall⟩ := hok
        have hmem : l ∈ ls := List.mem_of_getElem? hl
        have hidx := litIndex_nodup ls hnd i.toNat l hl
        have hl' := hall l hmem
        cases l with
        | i v =>
          simp only at hl'
          simp [choiceIndex, hl', hidx, hlt]
        | s t =>
          simp only at hl'
          simp [choiceIndex, hl', hidx, hlt]
        | f a b => simp [choiceIndex, hidx, hlt]
    · simpa [choiceIndex] using hcheck none (Or.inr rfl)
  · right
    simpa [choiceIndex] using hcheck _ (Or.inl rfl)

end Pg.Geno
