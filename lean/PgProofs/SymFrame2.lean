/-
  Non-interference for the whole operation surface (C07): value-offering operations (`evalVE`
  removes only the roots that are offered) and change notification (the chain of believed
  ancestors of a target stays inside the tree of the target).
-/
import PgProofs.SymClonePart
namespace Pg.Sym
variable {lcs nb : Bool} {sp : Option Bool} {sat : Bool}

/-! ### `evalVE` removes only roots that are offered -/

theorem relocateRef_keeps (cfg : Cfg) (f : Forest) (pending par : Option Nat) (hobj : Bool) (p : List Key) (rid : Nat)
    (b : Tree) (hb : b ∈ f.roots) (hne : b.id? ≠ some rid) : b ∈ (relocateRef cfg f pending par hobj p rid).1.roots := by
  unfold relocateRef
  split
  · split <;> exact hb
  · exact hb
  · split
    · exact hb
    · split
      · split
        · simp only [Forest.removeRoot, List.mem_filter]
          exact ⟨hb, by simpa using hne⟩
        · exact hb
      · exact hb

mutual
  theorem evalVE_keeps (cfg : Cfg) (pending : Option Nat) (b : Tree) : (ve : VE) → ∀ (f : Forest) (par : Option Nat)
      (hobj hpart : Bool) (p : List Key), b ∈ f.roots → (∀ id ∈ ve.refs, b.id? ≠ some id) →
      b ∈ (evalVE cfg f pending par hobj hpart p ve).1.roots
    | .atom a, f, _, _, _, _, hb, _ => by simp only [evalVE]; exact hb
    | .fresh, f, _, _, _, _, hb, _ => by simp only [evalVE]; exact hb
    | .freshTuple n, f, _, _, _, _, hb, _ => by simp only [evalVE]; exact hb
    | .mkRef tgt, f, _, _, _, _, hb, _ => by simp only [evalVE]; exact hb
    | .ref id, f, par, hobj, _, p, hb, hr => by
      simp only [evalVE]
      exact relocateRef_keeps cfg f pending par hobj p id b hb (hr id (by simp [VE.refs]))
    | .typedList items, f, par, _, _, p, hb, hr => by
      simp only [evalVE]
      exact evalItems_keeps cfg pending b items { f with nextId := f.nextId + 1 } f.nextId false false p (some 0) hb
        (by simpa [VE.refs] using hr)
    | .node kind sl aw pt items, f, par, hobj, hpart, p, hb, hr => by
      cases kind <;> simp only [evalVE] <;>
        exact evalItems_keeps cfg pending b items { f with nextId := f.nextId + 1 } f.nextId _ _ p _ hb
          (by simpa [VE.refs] using hr)
  theorem evalItems_keeps (cfg : Cfg) (pending : Option Nat) (b : Tree) : (items : List (Key × VE)) → ∀ (f : Forest) (h : Nat)
      (hobj hpart : Bool) (p : List Key) (pos : Option Nat), b ∈ f.roots → (∀ id ∈ refsItems items, b.id? ≠ some id) →
      b ∈ (evalItems cfg f pending h hobj hpart p pos items).1.roots
    | [], f, _, _, _, _, _, hb, _ => by simp only [evalItems]; exact hb
    | (k0, v) :: r, f, h, hobj, hpart, p, pos, hb, hr => by
      simp only [evalItems]
      simp only [refsItems, List.mem_append] at hr
      exact evalItems_keeps cfg pending b r _ h hobj hpart p (pos.map (· + 1))
        (evalVE_keeps cfg pending b v f (some h) hobj hpart _ hb (fun id hid => hr id (Or.inl hid)))
        (fun id hid => hr id (Or.inr hid))
end

/-! ### ids are distinct: a shared id means the same root -/

theorem roots_unique_shared : (rs : List Tree) → (∀ i, (idsRoots rs).count i ≤ 1) → ∀ r b i, r ∈ rs → b ∈ rs →
    i ∈ r.ids → i ∈ b.ids → r = b
  | [], _, r, _, _, hr, _, _, _ => by cases hr
  | x :: rs, h, r, b, i, hr, hb, hri, hbi => by
    have hrs : ∀ i, (idsRoots rs).count i ≤ 1 := by
      intro j; have := h j; simp only [idsRoots_cons, List.count_append] at this; omega
    have hx : ∀ y, y ∈ rs → i ∈ y.ids → i ∈ x.ids → False := by
      intro y hy hyi hxi
      have h1 : 1 ≤ (idsRoots rs).count i := by
        apply count_pos_of_mem
        unfold idsRoots; rw [List.mem_flatMap]; exact ⟨y, hy, hyi⟩
      have h2 := count_pos_of_mem hxi
      have := h i
      simp only [idsRoots_cons, List.count_append] at this
      omega
    simp only [List.mem_cons] at hr hb
    rcases hr with rfl | hr
    · rcases hb with rfl | hb
      · rfl
      · exact absurd (hx b hb hbi hri) id
    · rcases hb with rfl | hb
      · exact absurd (hx r hr hri hbi) id
      · exact roots_unique_shared rs hrs r b i hr hb hri hbi

/-- nodes of the tree that holds `t` are outside every root that does not hold `t`. -/
theorem outside_of_subnode (f : Forest) (hn : NB f) (b : Tree) (hb : b ∈ f.roots) (t : Nat) (self : Tree)
    (hfind : f.find? t = some self) (hout : t ∉ b.ids) (s : Tree) (hs : s ∈ self.subnodes) (i : Nat)
    (hid : s.id? = some i) : i ∉ b.ids := by
  intro hib
  have h1 := Forest.find?_mem_nodes f t self hfind
  unfold Forest.nodes at h1
  rw [List.mem_flatMap] at h1
  obtain ⟨r, hr, hself⟩ := h1
  have hsr : s ∈ r.subnodes := subnodes_trans r self hself s hs
  have hir : i ∈ r.ids := subnode_id_mem r s hsr i hid
  have heq := roots_unique_shared f.roots hn.nodup r b i hr hb hir hib
  subst heq
  obtain ⟨m, its, rfl, hmid⟩ := roots_find_node t f.roots self hfind
  exact hout (subnode_id_mem r _ hself t (by simp [Tree.id?, Tree.meta?, hmid]))

/-! ### the chain of believed ancestors stays in the tree of its start -/

theorem mem_subnodesItems_of_mem : (xs : Items) → ∀ k m its, (k, Tree.node m its) ∈ xs → Tree.node m its ∈ subnodesItems xs
  | [], k, m, its, h => by cases h
  | (k', c) :: r, k, m, its, h => by
    simp only [List.mem_cons, Prod.mk.injEq] at h
    simp only [subnodesItems, List.mem_append]
    rcases h with ⟨_, rfl⟩ | h
    · exact Or.inl (by simp [Tree.subnodes])
    · exact Or.inr (mem_subnodesItems_of_mem r k m its h)

/-- … and conversely: the children of a node inside a root are inside that root. -/
theorem inside_of_holder (f : Forest) (hn : NB f) (b : Tree) (hb : b ∈ f.roots) (s : Tree) (hs : s ∈ f.nodes) (j : Nat)
    (hsj : s.id? = some j) (hjb : j ∈ b.ids) (x : Tree) (hx : x ∈ s.subnodes) (i : Nat) (hid : x.id? = some i) :
    i ∈ b.ids := by
  unfold Forest.nodes at hs
  rw [List.mem_flatMap] at hs
  obtain ⟨r, hr, hsr⟩ := hs
  have hjr : j ∈ r.ids := subnode_id_mem r s hsr j hsj
  have heq := roots_unique_shared f.roots hn.nodup r b j hr hb hjr hjb
  subst heq
  exact subnode_id_mem r x (subnodes_trans r s hsr x hx) i hid

theorem chain_outside (f : Forest) (hok : f.ok = true) (hn : NB f) (hfree : f.rootsFree = true) (b : Tree)
    (hb : b ∈ f.roots) : ∀ (fuel t : Nat), t ∉ b.ids → ∀ c ∈ chainFrom f fuel t, c ∉ b.ids
  | 0, t, _, c, hc => by simp [chainFrom] at hc
  | fuel + 1, t, hout, c, hc => by
    unfold chainFrom at hc
    cases hfind : f.find? t with
    | none => simp [Forest.metaOf?, hfind] at hc
    | some s =>
      cases s with
      | leaf a => simp [Forest.metaOf?, hfind, Tree.meta?] at hc
      | node m its =>
        simp only [Forest.metaOf?, hfind, Option.bind_some, Tree.meta?, List.mem_cons] at hc
        rcases hc with rfl | hc
        · exact hout
        · cases hp : m.parent with
          | none => rw [hp] at hc; cases hc
          | some p =>
            rw [hp] at hc
            refine chain_outside f hok hn hfree b hb fuel p ?_ c hc
            have hmid := Forest.find?_id f t m its hfind
            rcases roots_find_holder t f.roots ((Forest.ok_iff f).mp hok) m its hfind with hr | ⟨hm, hits, k, hsub, hk, hpar, _⟩
            · have := (Forest.rootsFree_iff f).mp hfree _ hr
              simp only [Tree.parentless, hp] at this
              cases this
            · rw [hp] at hpar
              simp only [Option.some.injEq] at hpar
              subst hpar
              intro hin
              apply hout
              rw [← hmid]
              exact inside_of_holder f hn b hb (.node hm hits) hsub hm.id (by simp [Tree.id?, Tree.meta?]) hin
                (.node m its) (by simp only [Tree.subnodes, List.mem_cons]; exact Or.inr (mem_subnodesItems_of_mem hits k m its hk))
                m.id (by simp [Tree.id?, Tree.meta?])

theorem notify_frame (f : Forest) (targets : List Nat) (b : Tree) (hb : b ∈ f.roots)
    (h : ∀ c ∈ targets.flatMap (chainFrom f (f.ids.length + 1)), c ∉ b.ids) :
    b ∈ (notify f targets).roots := by
  unfold notify
  have h' : ∀ c ∈ (targets.flatMap (chainFrom f (f.ids.length + 1))).eraseDups, c ∉ b.ids :=
    fun c hc => h c (List.mem_eraseDups.mp hc)
  generalize (targets.flatMap (chainFrom f (f.ids.length + 1))).eraseDups = chain at h'
  clear h
  induction chain generalizing f with
  | nil => exact hb
  | cons c cs ih =>
    simp only [List.foldl_cons]
    exact ih (onChangeAt f c) (mapAt_frame f c _ b hb (h' c (by simp))) (fun x hx => h' x (by simp [hx]))

/-- beliefs, ids, shapes, no mark — and no root claims a parent. -/
structure V (f : Forest) : Prop where
  w : W f
  free : f.rootsFree = true

theorem V.notify {f : Forest} (hv : V f) (targets : List Nat) : V (notify f targets) :=
  ⟨hv.w.notify targets, notify_free f targets hv.free⟩

/-- **notification does not reach other trees**. -/
theorem notify_frameV (f : Forest) (hv : V f) (targets : List Nat) (b : Tree) (hb : b ∈ f.roots)
    (ht : ∀ t ∈ targets, t ∉ b.ids) : b ∈ (notify f targets).roots := by
  apply notify_frame f targets b hb
  intro c hc
  rw [List.mem_flatMap] at hc
  obtain ⟨t, htm, hct⟩ := hc
  exact chain_outside f hv.w.ok hv.w.inv.nb hv.free b hb _ t (ht t htm) c hct

/-! ### the write primitives leave other trees alone -/

theorem listReplace_frame (cfg : Cfg) (f : Forest) (m : Meta) (index : Int) (pos : Nat) (old : Tree) (ve : VE) (b : Tree)
    (hb : b ∈ f.roots) (hout : m.id ∉ b.ids) (hr : ∀ id ∈ ve.refs, b.id? ≠ some id) :
    ∀ g, listReplace cfg f m index pos old ve = some g → b ∈ g.roots := by
  intro g hg
  unfold listReplace at hg
  simp only at hg
  split at hg
  · cases hg
  · cases hg
    exact addRoot_keeps _ _ b (mapAt_frame _ m.id _ b (evalVE_keeps cfg none b ve f _ _ _ _ hb hr) hout)

theorem listInsert_frame (cfg : Cfg) (f : Forest) (m : Meta) (its : Items) (index : Int) (len : Nat) (ve : VE) (b : Tree)
    (hb : b ∈ f.roots) (hout : m.id ∉ b.ids) (hr : ∀ id ∈ ve.refs, b.id? ≠ some id) :
    ∀ g, listInsert cfg f m its index len ve = some g → b ∈ g.roots := by
  intro g hg
  unfold listInsert at hg
  simp only at hg
  split at hg
  · split at hg
    · cases hg
    · cases hg; exact mapAt_frame _ m.id _ b hb hout
  · split at hg
    · cases hg
    · cases hg; exact mapAt_frame _ m.id _ b (evalVE_keeps cfg none b ve f _ _ _ _ hb hr) hout

theorem listAppend_frame (cfg : Cfg) (f : Forest) (m : Meta) (index : Int) (ve : VE) (b : Tree)
    (hb : b ∈ f.roots) (hout : m.id ∉ b.ids) (hr : ∀ id ∈ ve.refs, b.id? ≠ some id) :
    ∀ g, listAppend cfg f m index ve = some g → b ∈ g.roots := by
  intro g hg
  unfold listAppend at hg
  simp only at hg
  split at hg
  · cases hg
  · cases hg; exact mapAt_frame _ m.id _ b (evalVE_keeps cfg none b ve f _ _ _ _ hb hr) hout

theorem rawSetList_frame (cfg : Cfg) (f : Forest) (m : Meta) (its : Items) (key : Int) (ins : Bool) (ve : VE) (b : Tree)
    (hb : b ∈ f.roots) (hout : m.id ∉ b.ids) (hr : ∀ id ∈ ve.refs, b.id? ≠ some id) :
    ∀ r, rawSetList cfg f m its key ins ve = .ok r → b ∈ r.1.roots := by
  intro r hrr
  rcases rawSetList_cases cfg f m its key ins ve r hrr with rfl | ⟨i, p, old, _, h⟩ | ⟨i, l, h⟩ | h
  · exact hb
  · exact listReplace_frame cfg f m i p old ve b hb hout hr _ h
  · exact listInsert_frame cfg f m its i l ve b hb hout hr _ h
  · exact listAppend_frame cfg f m _ ve b hb hout hr _ h

theorem dictStore_frame (cfg : Cfg) (f : Forest) (m : Meta) (its : Items) (key : Key) (ve : VE) (b : Tree)
    (hb : b ∈ f.roots) (hout : m.id ∉ b.ids) (hr : ∀ id ∈ ve.refs, b.id? ≠ some id) :
    ∀ g, dictStore cfg f m its key ve = some g → b ∈ g.roots := by
  intro g hg
  unfold dictStore dictStoreCore at hg
  simp only at hg
  split at hg
  · cases hg
  · cases hg
    have h1 : b ∈ f.clearConsumed.roots := hb
    have h3 := mapAt_frame _ m.id (storeKey key key (adoptPartial (isObjKind m.kind) m.part
      (evalVE cfg f.clearConsumed ((dictDetached its key).bind Tree.id?) (some m.id) (isObjKind m.kind) m.part (m.path ++ [key]) ve).2)) b
      (evalVE_keeps cfg ((dictDetached its key).bind Tree.id?) b ve f.clearConsumed (some m.id) (isObjKind m.kind) m.part (m.path ++ [key]) h1 hr) hout
    split
    · exact h3
    · exact addRoots_keeps _ _ b h3

theorem rawSetDict_frame (cfg : Cfg) (f : Forest) (m : Meta) (its : Items) (key : Key) (ve : VE) (b : Tree)
    (hb : b ∈ f.roots) (hout : m.id ∉ b.ids) (hr : ∀ id ∈ ve.refs, b.id? ≠ some id) :
    ∀ r, rawSetDict cfg f m its key ve = .ok r → b ∈ r.1.roots := by
  intro r hrr
  rcases rawSetDict_cases cfg f m its key ve r hrr with rfl | rfl | h
  · exact hb
  · unfold dictErase
    exact addRoots_keeps _ _ b (mapAt_frame f m.id _ b hb hout)
  · refine dictStore_frame cfg f m its key _ b hb hout ?_ _ h
    split
    · intro id hid; simp [VE.refs] at hid
    · exact hr

theorem rawSet_frame (cfg : Cfg) (f : Forest) (t : Nat) (key : Key) (ins : Bool) (ve : VE) (b : Tree)
    (hb : b ∈ f.roots) (hout : t ∉ b.ids) (hr : ∀ id ∈ ve.refs, b.id? ≠ some id) :
    ∀ r, rawSet cfg f t key ins ve = .ok r → b ∈ r.1.roots := by
  intro r hrr
  unfold rawSet at hrr
  split at hrr
  · next m its hfind =>
    have hid := Forest.find?_id f t m its hfind
    split at hrr
    · exact rawSetList_frame cfg f m its _ ins ve b hb (by rw [hid]; exact hout) hr r hrr
    · cases hrr
    · exact rawSetDict_frame cfg f m its _ ve b hb (by rw [hid]; exact hout) hr r hrr
  · cases hrr

/-! ### invariant and frame together, through the composites (trees with the belief fixes) -/

theorem rawSetList_VF (f : Forest) (m : Meta) (its : Items) (key : Int) (ins : Bool) (ve : VE) (b : Tree)
    (hv : V f) (hfind : f.find? m.id = some (.node m its)) (hk : ve.keysDistinct = true)
    (hb : b ∈ f.roots) (hout : m.id ∉ b.ids) (hr : ∀ id ∈ ve.refs, b.id? ≠ some id) :
    ∀ r, rawSetList (Cfg.fixedWith lcs nb sp sat) f m its key ins ve = .ok r → V r.1 ∧ b ∈ r.1.roots :=
  fun r hrr => ⟨⟨rawSetList_W f m its key ins ve hv.w hfind hk r hrr, rawSetList_free _ f m its key ins ve hv.free r hrr⟩,
    rawSetList_frame _ f m its key ins ve b hb hout hr r hrr⟩

theorem rawSetDict_VF (f : Forest) (m : Meta) (its : Items) (key : Key) (ve : VE) (b : Tree)
    (hv : V f) (hfind : f.find? m.id = some (.node m its)) (hkind : m.kind ≠ .list) (hk : ve.keysDistinct = true)
    (hb : b ∈ f.roots) (hout : m.id ∉ b.ids) (hr : ∀ id ∈ ve.refs, b.id? ≠ some id) :
    ∀ r, rawSetDict (Cfg.fixedWith lcs nb sp sat) f m its key ve = .ok r → V r.1 ∧ b ∈ r.1.roots :=
  fun r hrr => ⟨⟨rawSetDict_W f m its key ve hv.w hfind hkind hk r hrr, rawSetDict_free _ f m its key ve hv.free r hrr⟩,
    rawSetDict_frame _ f m its key ve b hb hout hr r hrr⟩

theorem rawSet_VF (f : Forest) (t : Nat) (key : Key) (ins : Bool) (ve : VE) (b : Tree)
    (hv : V f) (hk : ve.keysDistinct = true) (hb : b ∈ f.roots) (hout : t ∉ b.ids) (hr : ∀ id ∈ ve.refs, b.id? ≠ some id) :
    ∀ r, rawSet (Cfg.fixedWith lcs nb sp sat) f t key ins ve = .ok r → V r.1 ∧ b ∈ r.1.roots :=
  fun r hrr => ⟨⟨rawSet_W f t key ins ve hv.w hk r hrr, rawSet_free _ f t key ins ve hv.free r hrr⟩,
    rawSet_frame _ f t key ins ve b hb hout hr r hrr⟩

theorem finish_VF (f : Forest) (n : Bool) (r : Except Err (Forest × Bool)) (targets : List Nat) (b : Tree)
    (hv : V f) (hb : b ∈ f.roots) (ht : ∀ t ∈ targets, t ∉ b.ids)
    (hr : ∀ x, r = .ok x → V x.1 ∧ b ∈ x.1.roots) :
    V (finish f n r targets).forest ∧ b ∈ (finish f n r targets).forest.roots := by
  unfold finish
  split
  · exact ⟨hv, hb⟩
  · next f' upd =>
    have := hr (f', upd) rfl
    simp only
    split
    · exact ⟨this.1.notify _, notify_frameV f' this.1 targets b this.2 ht⟩
    · exact this

theorem extendLoop_VF (t : Nat) (b : Tree) (hout : t ∉ b.ids) : (vs : List VE) → ∀ (f : Forest) (upd : Bool), V f →
    b ∈ f.roots → (∀ v ∈ vs, v.keysDistinct = true) → (∀ v ∈ vs, ∀ id ∈ v.refs, b.id? ≠ some id) →
    ∀ r, extendLoop (Cfg.fixedWith lcs nb sp sat) t f vs upd = .ok r → V r.1 ∧ b ∈ r.1.roots
  | [], f, upd, hv, hb, _, _, r, hr => by simp only [extendLoop] at hr; cases hr; exact ⟨hv, hb⟩
  | v :: vs, f, upd, hv, hb, hk, hrf, r, hr => by
    simp only [extendLoop] at hr
    split at hr
    · next m its hfind =>
      have hid := Forest.find?_id f t m its hfind
      split at hr
      · cases hr
      · next f' u heq =>
        have h1 := rawSetList_VF f m its _ false v b hv (find_self hfind) (hk v (by simp)) hb (by rw [hid]; exact hout)
          (hrf v (by simp)) (f', u) heq
        exact extendLoop_VF t b hout vs f' _ h1.1 h1.2 (fun x hx => hk x (by simp [hx]))
          (fun x hx => hrf x (by simp [hx])) r hr
    · cases hr

mutual
  theorem query_subnode : (t : Tree) → ∀ (path : List Key) (m : Meta) (its : Items), t.query path = some (.node m its) →
      Tree.node m its ∈ t.subnodes
    | t, [], m, its, h => by
      simp only [Tree.query, Option.some.injEq] at h
      subst h; simp [Tree.subnodes]
    | .leaf _, _ :: _, m, its, h => by simp [Tree.query] at h
    | .node m0 xs, k :: ks, m, its, h => by
      simp only [Tree.query] at h
      simp only [Tree.subnodes, List.mem_cons]
      exact Or.inr (queryItems_subnode xs _ ks m its h)
  theorem queryItems_subnode : (xs : Items) → ∀ (k : Key) (ks : List Key) (m : Meta) (its : Items),
      queryItems xs k ks = some (.node m its) → Tree.node m its ∈ subnodesItems xs
    | [], _, _, m, its, h => by simp [queryItems] at h
    | (k', c) :: r, k, ks, m, its, h => by
      simp only [queryItems] at h
      simp only [subnodesItems, List.mem_append]
      split at h
      · exact Or.inl (query_subnode c ks m its h)
      · exact Or.inr (queryItems_subnode r k ks m its h)
end

theorem rebindOne_VF (f : Forest) (t : Nat) (path : List Key) (ins : Bool) (v : VE) (b : Tree) (hv : V f)
    (hk : v.keysDistinct = true) (hb : b ∈ f.roots) (hout : t ∉ b.ids) (hr : ∀ id ∈ v.refs, b.id? ≠ some id) :
    ∀ r, rebindOne (Cfg.fixedWith lcs nb sp sat) f t path ins v = .ok r →
      V r.1 ∧ b ∈ r.1.roots ∧ ∀ i, r.2 = some i → i ∉ b.ids := by
  intro r hrr
  unfold rebindOne at hrr
  split at hrr
  · cases hrr
  · cases hrr
  · next key self _ hself =>
    split at hrr
    · next pm pits hq =>
      have hpm : pm.id ∉ b.ids :=
        outside_of_subnode f hv.w.inv.nb b hb t self hself hout _ (query_subnode self _ pm pits hq) pm.id
          (by simp [Tree.id?, Tree.meta?])
      split at hrr
      · cases hrr
      · split at hrr
        · cases hrr
        · next f' upd heq =>
          cases hrr
          have := rawSet_VF f pm.id _ _ v b hv hk hb hpm hr (f', upd) heq
          refine ⟨this.1, this.2, ?_⟩
          intro i hi
          split at hi
          · cases hi; exact hpm
          · cases hi
    · split at hrr <;> cases hrr

theorem rebindLoop_VF (t : Nat) (b : Tree) (hout : t ∉ b.ids) : (pairs : List (List Key × Bool × VE)) →
    ∀ (f : Forest) (acc : List Nat), V f → b ∈ f.roots → (∀ x ∈ acc, x ∉ b.ids) →
    (∀ x ∈ pairs, x.2.2.keysDistinct = true) → (∀ x ∈ pairs, ∀ id ∈ x.2.2.refs, b.id? ≠ some id) →
    V (rebindLoop (Cfg.fixedWith lcs nb sp sat) t f pairs acc).1 ∧
      b ∈ (rebindLoop (Cfg.fixedWith lcs nb sp sat) t f pairs acc).1.roots ∧
      ∀ x ∈ (rebindLoop (Cfg.fixedWith lcs nb sp sat) t f pairs acc).2.1, x ∉ b.ids
  | [], f, acc, hv, hb, hacc, _, _ => by simp only [rebindLoop]; exact ⟨hv, hb, hacc⟩
  | (p, ins, v) :: rest, f, acc, hv, hb, hacc, hk, hrf => by
    simp only [rebindLoop]
    split
    · exact ⟨hv, hb, hacc⟩
    · next f' u heq =>
      have h1 := rebindOne_VF f t p ins v b hv (hk (p, ins, v) (by simp)) hb hout (hrf (p, ins, v) (by simp)) (f', u) heq
      refine rebindLoop_VF t b hout rest f' _ h1.1 h1.2.1 ?_ (fun x hx => hk x (by simp [hx]))
        (fun x hx => hrf x (by simp [hx]))
      intro x hx
      cases hu : u with
      | none => rw [hu] at hx; exact hacc x hx
      | some i =>
        rw [hu] at hx
        simp only [List.mem_append, List.mem_singleton] at hx
        rcases hx with hx | rfl
        · exact hacc x hx
        · exact h1.2.2 x (by rw [hu])

theorem doRebind_VF (f : Forest) (n : Bool) (t : Nat) (m : Meta) (pairs : List (List Key × Bool × VE))
    (skip : Option Bool) (raise : Bool) (b : Tree) (hv : V f) (hb : b ∈ f.roots) (hout : t ∉ b.ids)
    (hk : ∀ x ∈ pairs, x.2.2.keysDistinct = true) (hrf : ∀ x ∈ pairs, ∀ id ∈ x.2.2.refs, b.id? ≠ some id) :
    b ∈ (doRebind (Cfg.fixedWith lcs nb sp sat) f n t m pairs skip raise).forest.roots := by
  unfold doRebind
  split; · exact hb
  split; · exact hb
  split
  · exact hb
  · simp only
    have hmem : ∀ x ∈ (if m.kind = Kind.list then sortPairsDesc pairs else pairs), x ∈ pairs := by
      intro x hx
      split at hx
      · exact mem_sortPairsDesc pairs x hx
      · exact hx
    have h := rebindLoop_VF (lcs := lcs) (nb := nb) (sp := sp) (sat := sat) t b hout
      (if m.kind = Kind.list then sortPairsDesc pairs else pairs) f [] hv hb (by simp)
      (fun x hx => hk x (hmem x hx)) (fun x hx => hrf x (hmem x hx))
    generalize rebindLoop (Cfg.fixedWith lcs nb sp sat) t f (if m.kind = Kind.list then sortPairsDesc pairs else pairs) [] = x at h ⊢
    obtain ⟨f', targets, e⟩ := x
    cases e with
    | some e => exact h.2.1
    | none =>
      simp only
      split
      · exact h.2.1
      · exact notify_frameV f' h.1 targets b h.2.1 h.2.2

theorem setItem_VF (f : Forest) (n : Bool) (m : Meta) (its : Items) (k : Key) (v : VE) (b : Tree) (hv : V f)
    (hfind : f.find? m.id = some (.node m its)) (hk : v.keysDistinct = true) (hb : b ∈ f.roots) (hout : m.id ∉ b.ids)
    (hr : ∀ id ∈ v.refs, b.id? ≠ some id) :
    b ∈ (setItem (Cfg.fixedWith lcs nb sp sat) f n m its k v).forest.roots := by
  unfold setItem
  split; · exact hb
  split; · exact hb
  have ht : ∀ t ∈ [m.id], t ∉ b.ids := by intro t ht; simp only [List.mem_singleton] at ht; rw [ht]; exact hout
  cases hkind : m.kind with
  | list =>
    cases k with
    | i idx =>
      simp only
      split
      · exact hb
      · exact (finish_VF f n _ _ b hv hb ht (rawSetList_VF f m its _ false v b hv hfind hk hb hout hr)).2
    | s x => exact hb
  | dict =>
    simp only
    exact (finish_VF f n _ _ b hv hb ht (rawSetDict_VF f m its _ v b hv hfind (by rw [hkind]; exact fun h => Kind.noConfusion h) hk hb hout hr)).2
  | obj c =>
    simp only
    exact (finish_VF f n _ _ b hv hb ht (rawSetDict_VF f m its _ v b hv hfind (by rw [hkind]; exact fun h => Kind.noConfusion h) hk hb hout hr)).2

theorem delItemDict_VF (f : Forest) (n : Bool) (m : Meta) (its : Items) (k : Key) (acc : Bool) (b : Tree) (hv : V f)
    (hfind : f.find? m.id = some (.node m its)) (hkind : m.kind ≠ .list) (hb : b ∈ f.roots) (hout : m.id ∉ b.ids) :
    b ∈ (delItemDict (Cfg.fixedWith lcs nb sp sat) f n m its k acc).forest.roots := by
  unfold delItemDict
  split; · exact hb
  split; · exact hb
  split; · exact hb
  have ht : ∀ t ∈ [m.id], t ∉ b.ids := by intro t ht; simp only [List.mem_singleton] at ht; rw [ht]; exact hout
  exact (finish_VF f n _ _ b hv hb ht (rawSetDict_VF f m its k _ b hv hfind hkind rfl hb hout
    (by intro id hid; simp [VE.refs] at hid))).2

/-! ### the value-free mutators, with their notification -/

theorem notifyIf_frame (c : Bool) (f' : Forest) (hv : V f') (targets : List Nat) (b : Tree) (hb : b ∈ f'.roots)
    (ht : ∀ t ∈ targets, t ∉ b.ids) : b ∈ (if c = true then notify f' targets else f').roots := by
  split
  · exact notify_frameV f' hv targets b hb ht
  · exact hb

theorem single_out {t : Nat} {b : Tree} (h : t ∉ b.ids) : ∀ x ∈ [t], x ∉ b.ids := by
  intro x hx; simp only [List.mem_singleton] at hx; rw [hx]; exact h

theorem rawDelList_V (f : Forest) (m : Meta) (its : Items) (pos : Nat) (hv : V f)
    (hfind : f.find? m.id = some (.node m its)) (hkind : m.kind = .list) :
    V (rawDelList (Cfg.fixedWith lcs nb sp sat) f m its pos) := by
  have hnode := hv.w.inv.shape.node m.id m its hfind
  have hpos : positional 0 (keysOf its) = true := by have := hnode.1; rw [hkind] at this; exact this
  refine ⟨⟨rawDelList_ok f m its pos hv.w.ok (Forest.find?_node_ok f hv.w.ok m.id m its hfind),
    ⟨rawDelList_nb _ f m its pos hv.w.inv.nb hfind hpos, rawDelList_shape _ f m its pos hv.w.inv.shape hfind⟩, ?_⟩,
    rawDelList_free f m its pos hv.free⟩
  unfold rawDelList; simp only; rw [addRoot_aliased]; exact hv.w.unal

theorem delItemList_frameN (f : Forest) (n : Bool) (m : Meta) (its : Items) (idx : Int) (acc : Bool) (b : Tree) (hv : V f)
    (hfind : f.find? m.id = some (.node m its)) (hb : b ∈ f.roots) (hout : m.id ∉ b.ids) :
    b ∈ (delItemList (Cfg.fixedWith lcs nb sp sat) f n m its idx acc).forest.roots := by
  unfold delItemList
  simp only
  split; · exact hb
  next hkind =>
  split; · exact hb
  split; · exact hb
  split; · exact hb
  have hv' := rawDelList_V (lcs := lcs) (nb := nb) (sp := sp) (sat := sat) f m its
    (if idx < 0 then idx + (its.length : Int) else idx).toNat hv hfind (Decidable.of_not_not hkind)
  have hb' : b ∈ (rawDelList (Cfg.fixedWith lcs nb sp sat) f m its (if idx < 0 then idx + (its.length : Int) else idx).toNat).roots := by
    unfold rawDelList
    exact addRoot_keeps _ _ b (mapAt_frame f m.id _ b hb hout)
  exact notifyIf_frame n _ hv' [m.id] b hb' (single_out hout)

theorem dropAll_V (f : Forest) (t : Nat) (m : Meta) (its : Items) (hv : V f) (hfind : f.find? t = some (.node m its)) :
    V (dropAll (Cfg.fixedWith lcs nb sp sat) f t m its) := by
  refine ⟨⟨dropAll_ok f t m its hv.w.ok (Forest.find?_node_ok f hv.w.ok t m its hfind),
    ⟨dropAll_nb _ f t m its hv.w.inv.nb hfind, dropAll_shape _ f t m its hv.w.inv.shape hfind⟩, ?_⟩,
    dropAll_free f t m its hv.free⟩
  unfold dropAll; rw [addRoots_aliased]; exact hv.w.unal

theorem clearAndNotify_frameN (f : Forest) (n : Bool) (t : Nat) (m : Meta) (its : Items) (b : Tree) (hv : V f)
    (hfind : f.find? t = some (.node m its)) (hb : b ∈ f.roots) (hout : t ∉ b.ids) :
    b ∈ (clearAndNotify (Cfg.fixedWith lcs nb sp sat) f n t m its).roots := by
  unfold clearAndNotify
  simp only
  have hb' : b ∈ (dropAll (Cfg.fixedWith lcs nb sp sat) f t m its).roots := by
    unfold dropAll; exact addRoots_keeps _ _ b (mapAt_frame f t _ b hb hout)
  exact notifyIf_frame _ _ (dropAll_V f t m its hv hfind) [t] b hb' (single_out hout)

theorem permute_V (f : Forest) (t : Nat) (g : Items → Items) (hg : NoNewValues g)
    (hc : ∀ xs i, (idsItems (g xs)).count i ≤ (idsItems xs).count i) (hv : V f) :
    V (permute (Cfg.fixedWith lcs nb sp sat) f t g) :=
  ⟨⟨permute_ok f t g hg hv.w.ok, ⟨permute_nb _ f t g hc hv.w.inv.nb, permute_shape _ f t g hg hv.w.inv.shape⟩, hv.w.unal⟩,
    permute_free f t g hv.free⟩

theorem permuteAndNotify_frameN (f : Forest) (n : Bool) (t : Nat) (its : Items) (g : Items → Items) (hg : NoNewValues g)
    (hc : ∀ xs i, (idsItems (g xs)).count i ≤ (idsItems xs).count i) (b : Tree) (hv : V f)
    (hb : b ∈ f.roots) (hout : t ∉ b.ids) :
    b ∈ (permuteAndNotify (Cfg.fixedWith lcs nb sp sat) f n t its g).roots := by
  unfold permuteAndNotify
  simp only
  have hb' : b ∈ (permute (Cfg.fixedWith lcs nb sp sat) f t g).roots := by
    unfold permute; exact mapAt_frame f t _ b hb hout
  exact notifyIf_frame _ _ (permute_V f t g hg hc hv) [t] b hb' (single_out hout)

theorem rawDelMany_V (f : Forest) (m : Meta) (its : Items) (ps : List Nat) (hv : V f)
    (hfind : f.find? m.id = some (.node m its)) : V (rawDelMany (Cfg.fixedWith lcs nb sp sat) f m its ps) := by
  refine ⟨⟨rawDelMany_ok f m its ps hv.w.ok (Forest.find?_node_ok f hv.w.ok m.id m its hfind),
    ⟨rawDelMany_nb _ f m its ps hv.w.inv.nb hfind, rawDelMany_shape _ f m its ps hv.w.inv.shape hfind⟩, ?_⟩,
    rawDelMany_free f m its ps hv.free⟩
  unfold rawDelMany; simp only; rw [addRoots_aliased]; exact hv.w.unal

theorem popItem_V (f : Forest) (t : Nat) (m : Meta) (its : Items) (k : Key) (c : Tree) (hv : V f)
    (hfind : f.find? t = some (.node m its)) (hkind : m.kind ≠ .list) (hlast : its.getLast? = some (k, c)) :
    V ((f.mapAt t (fun _ xs => eraseKey k xs)).addRoot
      (if (Cfg.fixedWith lcs nb sp sat).detachOnRemove = true then detachFrom .dict c else c)) := by
  have hits := Forest.find?_node_ok f hv.w.ok t m its hfind
  have hnode := hv.w.inv.shape.node t m its hfind
  refine ⟨⟨?_, ⟨popItem_nb _ f t m its k c hv.w.inv.nb hfind (keysOk_nodup m.kind its hnode.1) hlast,
    popItem_shape _ f t m its k c hv.w.inv.nb hv.w.inv.shape hfind hkind hlast⟩, ?_⟩, ?_⟩
  · apply addRoot_ok _ _ (mapAt_ok f t _ (erase_local t k) hv.w.ok)
    simp only [Cfg.fixedWith, if_true]
    rw [okItems_mem] at hits
    exact detachFrom_ok .dict (hits (k, c) (List.mem_of_getLast? hlast))
  · rw [addRoot_aliased]; exact hv.w.unal
  · apply addRoot_free _ _ (mapAt_free f t _ hv.free)
    simp only [Cfg.fixedWith, if_true]
    exact detachFrom_parentless _ _

/-! ### every operation but a slice assignment -/

def IsSlice : Op → Bool
  | .lSetSlice _ _ _ _ _ => true
  | _ => false

/-- **non-interference, one call, whole surface**: a tree `b` that does not contain the target
of the call and is not offered to it is still a root afterwards, unchanged — value-offering or
not, notification on or off (the notification walks the believed ancestors of the target, which
are its actual ancestors in a well-formed forest and so lie in the target's own tree). -/
theorem step_frameV (f : Forest) (n : Bool) (op : Op) (b : Tree) (hv : V f) (hk : wellKeyed op = true)
    (hb : b ∈ f.roots) (ht : ∀ t, op.target? = some t → t ∉ b.ids) (hr : ∀ id ∈ op.refs, b.id? ≠ some id)
    (hs : IsSlice op = false) :
    b ∈ (step (Cfg.fixedWith lcs nb sp sat) f n op).forest.roots := by
  cases op with
  | new v =>
    cases v with
    | node kind sl aw pt items =>
      simp only [step]
      exact addRoot_keeps _ _ b (evalVE_keeps _ none b _ f none false false [] hb hr)
    | atom a => simp only [step]; exact hb
    | fresh => simp only [step]; exact hb
    | freshTuple k => simp only [step]; exact hb
    | mkRef tg => simp only [step]; exact hb
    | typedList items => simp only [step]; exact hb
    | ref id => simp only [step]; exact hb
  | clone t deep =>
    cases hfind : f.find? t with
    | none => simp only [step, hfind]; exact hb
    | some tr => simp only [step, hfind, List.mem_append]; exact Or.inl hb
  | lSetSlice t a b' c vs => simp [IsSlice] at hs
  | setItem t k v =>
    have hout := ht t rfl
    simp only [wellKeyed, Op.values, List.all_cons, List.all_nil, Bool.and_true] at hk
    cases hfind : f.find? t with
    | none => simp only [step, hfind]; exact hb
    | some tr =>
      cases tr with
      | leaf a => simp only [step, hfind]; exact hb
      | node m its =>
        have hid := Forest.find?_id f t m its hfind
        have hout' : m.id ∉ b.ids := by rw [hid]; exact hout
        simp only [step, hfind]
        exact setItem_VF f n m its k v b hv (find_self hfind) hk hb hout' hr
  | lAppend t v =>
    have hout := ht t rfl
    simp only [wellKeyed, Op.values, List.all_cons, List.all_nil, Bool.and_true] at hk
    cases hfind : f.find? t with
    | none => simp only [step, hfind]; exact hb
    | some tr =>
      cases tr with
      | leaf a => simp only [step, hfind]; exact hb
      | node m its =>
        have hid := Forest.find?_id f t m its hfind
        have hout' : m.id ∉ b.ids := by rw [hid]; exact hout
        simp only [step, hfind]
        split
        · exact hb
        · exact (finish_VF f n _ _ b hv hb (single_out hout')
            (rawSetList_VF f m its _ false v b hv (find_self hfind) hk hb hout' hr)).2
  | lInsert t idx v =>
    have hout := ht t rfl
    simp only [wellKeyed, Op.values, List.all_cons, List.all_nil, Bool.and_true] at hk
    cases hfind : f.find? t with
    | none => simp only [step, hfind]; exact hb
    | some tr =>
      cases tr with
      | leaf a => simp only [step, hfind]; exact hb
      | node m its =>
        have hid := Forest.find?_id f t m its hfind
        have hout' : m.id ∉ b.ids := by rw [hid]; exact hout
        simp only [step, hfind]
        split
        · exact hb
        · exact (finish_VF f n _ _ b hv hb (single_out hout')
            (rawSetList_VF f m its _ true v b hv (find_self hfind) hk hb hout' hr)).2
  | lExtend t vs =>
    have hout := ht t rfl
    simp only [wellKeyed, Op.values, List.all_eq_true] at hk
    cases hfind : f.find? t with
    | none => simp only [step, hfind]; exact hb
    | some tr =>
      cases tr with
      | leaf a => simp only [step, hfind]; exact hb
      | node m its =>
        have hid := Forest.find?_id f t m its hfind
        have hout' : m.id ∉ b.ids := by rw [hid]; exact hout
        simp only [step, hfind]
        split
        · exact hb
        · refine (finish_VF f n _ _ b hv hb (single_out hout')
            (extendLoop_VF t b hout vs f false hv hb hk ?_)).2
          intro v hvm id hid
          exact hr id (by simp only [Op.refs, List.mem_flatMap]; exact ⟨v, hvm, hid⟩)
  | lIMul t k =>
    have hout := ht t rfl
    cases hfind : f.find? t with
    | none => simp only [step, hfind]; exact hb
    | some tr =>
      cases tr with
      | leaf a => simp only [step, hfind]; exact hb
      | node m its =>
        have hid := Forest.find?_id f t m its hfind
        have hout' : m.id ∉ b.ids := by rw [hid]; exact hout
        simp only [step, hfind]
        split
        · split
          · exact hb
          · exact clearAndNotify_frameN f n t m its b hv hfind hb hout
        · split
          · exact hb
          · refine (finish_VF f n _ _ b hv hb (single_out hout')
              (extendLoop_VF t b hout _ f false hv hb ?_ ?_)).2
            · intro v hvm
              simp only [List.mem_flatten, List.mem_replicate] at hvm
              obtain ⟨l, ⟨_, rfl⟩, hvm⟩ := hvm
              simp only [List.mem_map] at hvm
              obtain ⟨kv, _, rfl⟩ := hvm
              split <;> rfl
            · intro v hvm id hid
              simp only [List.mem_flatten, List.mem_replicate] at hvm
              obtain ⟨l, ⟨_, rfl⟩, hvm⟩ := hvm
              simp only [List.mem_map] at hvm
              obtain ⟨kv, hkv, rfl⟩ := hvm
              split at hid
              · simp [VE.refs] at hid
              · next cm cits hkv2 =>
                simp only [VE.refs, List.mem_singleton] at hid
                subst hid
                have hsub : Tree.node cm cits ∈ (Tree.node m its).subnodes := by
                  simp only [Tree.subnodes, List.mem_cons]
                  refine Or.inr (mem_subnodesItems_of_mem its kv.1 cm cits ?_)
                  rw [← hkv2]; exact hkv
                have := outside_of_subnode f hv.w.inv.nb b hb t _ hfind hout _ hsub cm.id (by simp [Tree.id?, Tree.meta?])
                intro he
                apply this
                cases b with
                | leaf a => simp [Tree.id?, Tree.meta?] at he
                | node bm bits =>
                  simp only [Tree.id?, Tree.meta?, Option.map_some, Option.some.injEq] at he
                  simp [Tree.ids, he]
  | dSetDefault t k v =>
    have hout := ht t rfl
    simp only [wellKeyed, Op.values, List.all_cons, List.all_nil, Bool.and_true] at hk
    cases hfind : f.find? t with
    | none => simp only [step, hfind]; exact hb
    | some tr =>
      cases tr with
      | leaf a => simp only [step, hfind]; exact hb
      | node m its =>
        have hid := Forest.find?_id f t m its hfind
        have hout' : m.id ∉ b.ids := by rw [hid]; exact hout
        simp only [step, hfind]
        split
        · exact hb
        · exact setItem_VF f n m its k v b hv (find_self hfind) hk hb hout' hr
  | dUpdate t kvs =>
    have hout := ht t rfl
    simp only [wellKeyed, Op.values, List.all_eq_true] at hk
    cases hfind : f.find? t with
    | none => simp only [step, hfind]; exact hb
    | some tr =>
      cases tr with
      | leaf a => simp only [step, hfind]; exact hb
      | node m its =>
        have hid := Forest.find?_id f t m its hfind
        have hout' : m.id ∉ b.ids := by rw [hid]; exact hout
        simp only [step, hfind]
        refine doRebind_VF f n t m _ _ _ b hv hb hout ?_ ?_
        · intro x hx
          simp only [List.mem_map] at hx
          obtain ⟨kv, hkv, rfl⟩ := hx
          exact hk kv.2 (List.mem_map.mpr ⟨kv, hkv, rfl⟩)
        · intro x hx id hid
          simp only [List.mem_map] at hx
          obtain ⟨kv, hkv, rfl⟩ := hx
          exact hr id (by simp only [Op.refs, List.mem_flatMap]; exact ⟨kv, hkv, hid⟩)
  | rebind t pairs skip =>
    have hout := ht t rfl
    simp only [wellKeyed, Op.values, List.all_eq_true] at hk
    cases hfind : f.find? t with
    | none => simp only [step, hfind]; exact hb
    | some tr =>
      cases tr with
      | leaf a => simp only [step, hfind]; exact hb
      | node m its =>
        have hid := Forest.find?_id f t m its hfind
        have hout' : m.id ∉ b.ids := by rw [hid]; exact hout
        simp only [step, hfind]
        refine doRebind_VF f n t m _ _ _ b hv hb hout ?_ ?_
        · intro x hx
          exact hk x.2.2 (List.mem_map.mpr ⟨x, hx, rfl⟩)
        · intro x hx id hid
          exact hr id (by simp only [Op.refs, List.mem_flatMap]; exact ⟨x, hx, hid⟩)
  | lDelSlice t a b' c =>
    have hout := ht t rfl
    cases hfind : f.find? t with
    | none => simp only [step, hfind]; exact hb
    | some tr =>
      cases tr with
      | leaf a => simp only [step, hfind]; exact hb
      | node m its =>
        have hid := Forest.find?_id f t m its hfind
        have hout' : m.id ∉ b.ids := by rw [hid]; exact hout
        simp only [step, hfind]
        split
        · exact hb
        · split
          · exact hb
          · split
            · exact hb
            · split
              · exact hb
              · have hb' : ∀ ps, b ∈ (rawDelMany (Cfg.fixedWith lcs nb sp sat) f m its ps).roots := by
                  intro ps; unfold rawDelMany
                  exact addRoots_keeps _ _ b (mapAt_frame f m.id _ b hb hout')
                exact notifyIf_frame n _ (rawDelMany_V f m its _ hv (find_self hfind)) [m.id] b (hb' _) (single_out hout')
  | setSeal t flag =>
    have hout := ht t rfl
    cases hfind : f.find? t with
    | none => simp only [step, hfind]; exact hb
    | some tr =>
      cases tr with
      | leaf a => simp only [step, hfind]; exact hb
      | node m its =>
        have hid := Forest.find?_id f t m its hfind
        have hout' : m.id ∉ b.ids := by rw [hid]; exact hout
        simp only [step, hfind]
        simp only [List.mem_map]
        exact ⟨b, hb, mapSubtree_noop t _ b hout⟩
  | delItem t k =>
    have hout := ht t rfl
    cases hfind : f.find? t with
    | none => simp only [step, hfind]; exact hb
    | some tr =>
      cases tr with
      | leaf a => simp only [step, hfind]; exact hb
      | node m its =>
        have hid := Forest.find?_id f t m its hfind
        have hout' : m.id ∉ b.ids := by rw [hid]; exact hout
        simp only [step, hfind]
        cases hkind : m.kind with
        | dict => exact delItemDict_VF f n m its k false b hv (find_self hfind) (by rw [hkind]; exact fun h => Kind.noConfusion h) hb hout'
        | list =>
          cases k with
          | s _ => exact hb
          | i idx => exact delItemList_frameN f n m its idx false b hv (find_self hfind) hb hout'
        | obj c => exact hb
  | lPop t idx =>
    have hout := ht t rfl
    cases hfind : f.find? t with
    | none => simp only [step, hfind]; exact hb
    | some tr =>
      cases tr with
      | leaf a => simp only [step, hfind]; exact hb
      | node m its =>
        have hid := Forest.find?_id f t m its hfind
        have hout' : m.id ∉ b.ids := by rw [hid]; exact hout
        simp only [step, hfind]
        split
        · exact hb
        · exact delItemList_frameN f n m its _ true b hv (find_self hfind) hb hout'
  | lRemove t a =>
    have hout := ht t rfl
    cases hfind : f.find? t with
    | none => simp only [step, hfind]; exact hb
    | some tr =>
      cases tr with
      | leaf a => simp only [step, hfind]; exact hb
      | node m its =>
        have hid := Forest.find?_id f t m its hfind
        have hout' : m.id ∉ b.ids := by rw [hid]; exact hout
        simp only [step, hfind]
        split
        · exact delItemList_frameN f n m its _ false b hv (find_self hfind) hb hout'
        · exact hb
  | lClear t =>
    have hout := ht t rfl
    cases hfind : f.find? t with
    | none => simp only [step, hfind]; exact hb
    | some tr =>
      cases tr with
      | leaf a => simp only [step, hfind]; exact hb
      | node m its =>
        have hid := Forest.find?_id f t m its hfind
        have hout' : m.id ∉ b.ids := by rw [hid]; exact hout
        simp only [step, hfind]
        split
        · exact hb
        · exact clearAndNotify_frameN f n t m its b hv hfind hb hout
  | lSort t ranks rev =>
    have hout := ht t rfl
    cases hfind : f.find? t with
    | none => simp only [step, hfind]; exact hb
    | some tr =>
      cases tr with
      | leaf a => simp only [step, hfind]; exact hb
      | node m its =>
        have hid := Forest.find?_id f t m its hfind
        have hout' : m.id ∉ b.ids := by rw [hid]; exact hout
        simp only [step, hfind]
        split
        · exact hb
        · exact permuteAndNotify_frameN f n t its _ (noNew_pySort ranks rev) (pySort_count ranks rev) b hv hb hout
  | lReverse t =>
    have hout := ht t rfl
    cases hfind : f.find? t with
    | none => simp only [step, hfind]; exact hb
    | some tr =>
      cases tr with
      | leaf a => simp only [step, hfind]; exact hb
      | node m its =>
        have hid := Forest.find?_id f t m its hfind
        have hout' : m.id ∉ b.ids := by rw [hid]; exact hout
        simp only [step, hfind]
        split
        · exact hb
        · exact permuteAndNotify_frameN f n t its _ noNew_reverse reverse_count b hv hb hout
  | dPop t k =>
    have hout := ht t rfl
    cases hfind : f.find? t with
    | none => simp only [step, hfind]; exact hb
    | some tr =>
      cases tr with
      | leaf a => simp only [step, hfind]; exact hb
      | node m its =>
        have hid := Forest.find?_id f t m its hfind
        have hout' : m.id ∉ b.ids := by rw [hid]; exact hout
        simp only [step, hfind]
        split
        · next hkind =>
          split
          · exact delItemDict_VF f n m its k true b hv (find_self hfind) (by rw [hkind]; exact fun h => Kind.noConfusion h) hb hout'
          · exact hb
        · exact hb
  | dPopItem t =>
    have hout := ht t rfl
    cases hfind : f.find? t with
    | none => simp only [step, hfind]; exact hb
    | some tr =>
      cases tr with
      | leaf a => simp only [step, hfind]; exact hb
      | node m its =>
        have hid := Forest.find?_id f t m its hfind
        have hout' : m.id ∉ b.ids := by rw [hid]; exact hout
        simp only [step, hfind]
        split
        · exact hb
        next hkind =>
        split
        · exact hb
        · split
          · exact hb
          · next k c hlast =>
            simp only
            have hb' : b ∈ ((f.mapAt t (fun _ xs => eraseKey k xs)).addRoot
                (if (Cfg.fixedWith lcs nb sp sat).detachOnRemove = true then detachFrom .dict c else c)).roots :=
              addRoot_keeps _ _ b (mapAt_frame f t _ b hb hout)
            exact notifyIf_frame _ _ (popItem_V f t m its k c hv hfind hkind hlast) [t] b hb' (single_out hout)
  | dClear t =>
    have hout := ht t rfl
    cases hfind : f.find? t with
    | none => simp only [step, hfind]; exact hb
    | some tr =>
      cases tr with
      | leaf a => simp only [step, hfind]; exact hb
      | node m its =>
        have hid := Forest.find?_id f t m its hfind
        have hout' : m.id ∉ b.ids := by rw [hid]; exact hout
        simp only [step, hfind]
        split
        · exact hb
        · exact clearAndNotify_frameN f n t m its b hv hfind hb hout

end Pg.Sym
