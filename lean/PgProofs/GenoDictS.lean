/-
  C12: `from_dict` with the dictionary threaded through (`_get_decision` POPS the lists it finds
  under a NAME): `Reads b D D'` says that reading the decisions of the bound tree `b` off the
  dictionary `D`, in depth-first order, finds the decision of every node and leaves `D'`.
  `fromDict_of_reads`: then `from_dict` rebuilds the DNA.  (Generalises `fromDict_of_good`, where
  the dictionary never changes.)
-/
import PgProofs.GenoDict3
namespace Pg.Geno
open DNA

/-- The multi-choice a sub-choice falls back to (`parent_decisions`). -/
def parentOf (dp : Dp) : Option (List Tok × Nat × Nat) :=
  match dp.sub with
  | none => none
  | some idx => some (dp.parentId.getD [], dp.arity, idx)

section
variable (o : Opts) (useInts : Bool)

mutual
  def Reads : BDNA → List (String × DE) → List (String × DE) → Prop
    | .mk v bound cs, D, D' =>
      match bound, v with
      | some dp, .int i =>
        if dp.kind = .choice then
          ∃ D1, lookupChoice D dp.id dp.name (parentOf dp) =
              some (fmtChoice o dp i (BDNA.mk v bound cs).erase, D1) ∧
            (o.valueType = 1 ∨
              choiceIndex useInts dp.lits dp.n (fmtChoice o dp i (BDNA.mk v bound cs).erase) = some i.toNat) ∧
            -- the DNA style stores the whole sub-tree: the children are NOT read
            (if o.valueType = 1 then D' = D1 else ReadsL cs D1 D')
        else ∃ D1, getDecision D (renderId dp.id) dp.name =
            (some (.one (if o.valueType == 1 then .dna (BDNA.mk v bound cs).erase else .val v)), D1) ∧
          ReadsL cs D1 D'
      | some dp, v' =>
        if dp.kind = .choice then ReadsL cs D D'
        else ∃ D1, getDecision D (renderId dp.id) dp.name =
            (some (.one (if o.valueType == 1 then .dna (BDNA.mk v bound cs).erase else .val v')), D1) ∧
          ReadsL cs D1 D'
      | none, _ => ReadsL cs D D'
  def ReadsL : List BDNA → List (String × DE) → List (String × DE) → Prop
    | [], D, D' => D' = D
    | c :: cs, D, D' => ∃ D1, Reads c D D1 ∧ ReadsL cs D1 D'
end

/-- One (sub-)choice node is rebuilt from the dictionary. -/
theorem fromDictChoice_nodeS (info : Info) (n : Nat) (cands : List (List Point)) (nid : List Tok)
    (parent : Option (List Tok × Nat × Nat)) (dp : Dp) (hlits : dp.lits = info.lits) (hn : dp.n = n)
    (i : Int) (ks : List DNA) (hi : inRange n i = true) (D D1 D' : List (String × DE))
    (hlook : lookupChoice D nid info.name parent = some (fmtChoice o dp i (.mk (.int i) ks), D1))
    (hval : o.valueType = 1 ∨
      choiceIndex useInts dp.lits dp.n (fmtChoice o dp i (.mk (.int i) ks)) = some i.toNat)
    (c : List Point) (hv : validElems c (unkids c ks) = true)
    (hAt : if o.valueType = 1 then D' = D1 else
      fromDictAt useInts cands (nid ++ [.cond i.toNat n]) i.toNat D1 = some (mk' .none (unkids c ks), D')) :
    fromDictChoiceWith useInts info n (fun pre' i' d'' => fromDictAt useInts cands pre' i' d'') nid parent D =
      some (.mk (.int i) ks, D') := by
  unfold fromDictChoiceWith
  rw [hlook]
  generalize hx' : fmtChoice o dp i (.mk (.int i) ks) = x at *
  have hx : x = fmtChoice o dp i (.mk (.int i) ks) := hx'.symm
  by_cases hvt : o.valueType = 1
  · simp only [hvt, if_true] at hAt
    rw [hx, fmtChoice_dna o dp i _ hvt, hAt]
  · simp only [hvt, if_false] at hAt
    have hnd := fmtChoice_not_dna o dp i (.mk (.int i) ks) hvt
    have hci : choiceIndex useInts info.lits n x = some i.toNat := by
      rcases hval with h | h
      · exact absurd h hvt
      · rw [← hlits, ← hn]; exact h
    have hi0 : 0 ≤ i := by simp only [inRange, Bool.and_eq_true, decide_eq_true_eq] at hi; exact hi.1
    have hcast : ((i.toNat : Nat) : Int) = i := Int.toNat_of_nonneg hi0
    cases hxx : x with
    | dna c' => rw [hx] at hxx; exact absurd hxx (hnd c')
    | val w =>
      simp only
      rw [← hxx, hci]
      simp only [hAt, mk'_int_single, kids_mk'_none c _ hv, kidsL_unkids c ks hv, hcast]
    | str w =>
      simp only
      rw [← hxx, hci]
      simp only [hAt, mk'_int_single, kids_mk'_none c _ hv, kidsL_unkids c ks hv, hcast]
    | lit w =>
      simp only
      rw [← hxx, hci]
      simp only [hAt, mk'_int_single, kids_mk'_none c _ hv, kidsL_unkids c ks hv, hcast]
    | choice a b w =>
      simp only
      rw [← hxx, hci]
      simp only [hAt, mk'_int_single, kids_mk'_none c _ hv, kidsL_unkids c ks hv, hcast]

theorem loop_of_nodesS (F : Nat → List (String × DE) → Option (DNA × List (String × DE)))
    (f : Nat → DNA → Option BDNA) :
    ∀ (cs : List DNA) (bs : List BDNA) (s : Nat) (D D' : List (String × DE)),
      mapIdxM f s cs = some bs → ReadsL o useInts bs D D' →
      (∀ j x b D1 D2, cs[j]? = some x → f (s + j) x = some b → Reads o useInts b D1 D2 →
        F (s + j) D1 = some (x, D2)) →
      fromDictLoop F s cs.length D = some (cs, D')
  | [], bs, _, D, D', hm, hr, _ => by
    simp only [mapIdxM, Option.some.injEq] at hm
    subst hm
    have : D' = D := hr
    subst this; rfl
  | c :: cs, bs, s, D, D', hm, hr, h => by
    simp only [mapIdxM] at hm
    cases h1 : f s c with
    | none => simp [h1] at hm
    | some b0 =>
      cases h2 : mapIdxM f (s + 1) cs with
      | none => simp [h1, h2] at hm
      | some bs0 =>
        simp only [h1, h2, Option.some.injEq] at hm
        subst hm
        obtain ⟨D1, hr1, hr2⟩ := hr
        have h0 := h 0 c b0 D D1 rfl (by simpa using h1) hr1
        simp only [Nat.add_zero] at h0
        have hrec := loop_of_nodesS F f cs bs0 (s + 1) D1 D' h2 hr2 (fun j x b E1 E2 hx hf hrb => by
          have := h (j + 1) x b E1 E2 (by simpa using hx) (by rwa [show s + (j + 1) = s + 1 + j by omega]) hrb
          rwa [show s + (j + 1) = s + 1 + j by omega] at this)
        simp [fromDictLoop, h0, hrec]

/-- The hypothesis about the candidates shared by the node-level lemmas. -/
def AtOkS (cands : List (List Point)) : Prop :=
  ∀ (id' : List Tok) (v : Nat) (ks : List DNA) (bs : List BDNA) (D D' : List (String × DE)),
    annotKidsAt cands cands.length id' 0 v ks = some bs → validKidsAt cands v ks = true →
    ReadsL o useInts bs D D' →
    ∃ c, validElems c (unkids c ks) = true ∧ eraseList bs = ks ∧
      fromDictAt useInts cands (id' ++ [.cond v cands.length]) v D = some (mk' .none (unkids c ks), D')

/-- What `annotKidsAt` gives without any reading (used for the DNA style). -/
def AtShape (cands : List (List Point)) : Prop :=
  ∀ (id' : List Tok) (v : Nat) (ks : List DNA) (bs : List BDNA),
    annotKidsAt cands cands.length id' 0 v ks = some bs → validKidsAt cands v ks = true →
    ∃ c, validElems c (unkids c ks) = true ∧ eraseList bs = ks

/-- One annotated (sub-)choice node against the loop body of `from_dict`. -/
theorem choiceNodeS (cands : List (List Point)) (hAt : AtOkS o useInts cands) (hSh : AtShape cands)
    (info : Info) (nid : List Tok) (pid : Option (List Tok)) (sub : Option Nat) (k : Nat)
    (parent : Option (List Tok × Nat × Nat))
    (hpar : parentOf (choiceDp nid pid sub info cands.length k) = parent)
    (x : DNA) (b : BDNA) (D1 D2 : List (String × DE))
    (hxv : validNodeWith cands.length (validKidsAt cands) x = true)
    (hf : annotSingleWith (choiceDp nid pid sub info cands.length k)
      (annotKidsAt cands cands.length nid 0) x = some b)
    (hr : Reads o useInts b D1 D2) :
    fromDictChoiceWith useInts info cands.length (fun pre' i' d'' => fromDictAt useInts cands pre' i' d'')
      nid parent D1 = some (x, D2) := by
  obtain ⟨i, ks, bs', rfl, hrng, hkat, rfl⟩ := annotSingle_some hf
  simp only [validNodeWith, Bool.and_eq_true] at hxv
  have hkind : (choiceDp nid pid sub info cands.length k).kind = .choice := rfl
  have hr' : ∃ E1, lookupChoice D1 nid info.name parent =
        some (fmtChoice o (choiceDp nid pid sub info cands.length k) i
          (BDNA.mk (.int i) (some (choiceDp nid pid sub info cands.length k)) bs').erase, E1) ∧
      (o.valueType = 1 ∨ choiceIndex useInts info.lits cands.length
        (fmtChoice o (choiceDp nid pid sub info cands.length k) i
          (BDNA.mk (.int i) (some (choiceDp nid pid sub info cands.length k)) bs').erase) = some i.toNat) ∧
      (if o.valueType = 1 then D2 = E1 else ReadsL o useInts bs' E1 D2) := by
    have := hr
    simp only [Reads, hkind, if_true] at this
    rw [hpar] at this
    exact this
  obtain ⟨E1, hlook, hval, hrest⟩ := hr'
  obtain ⟨c0, hv0, hes0⟩ := hSh nid i.toNat ks bs' hkat hxv.2
  have hself : (BDNA.mk (.int i) (some (choiceDp nid pid sub info cands.length k)) bs').erase = .mk (.int i) ks := by
    simp [BDNA.erase, hes0]
  rw [hself] at hlook hval
  by_cases hvt : o.valueType = 1
  · simp only [hvt, if_true] at hrest
    exact fromDictChoice_nodeS o useInts info cands.length cands nid parent _ rfl rfl i ks hrng D1 E1 D2
      hlook hval c0 hv0 (by simp [hvt, hrest])
  · simp only [hvt, if_false] at hrest
    obtain ⟨c, hv, hes, hfa⟩ := hAt nid i.toNat ks bs' E1 D2 hkat hxv.2 hrest
    exact fromDictChoice_nodeS o useInts info cands.length cands nid parent _ rfl rfl i ks hrng D1 E1 D2
      hlook hval c hv (by simp [hvt, hfa])

/-- The `k` (sub-)choice nodes of a decision point are rebuilt one after the other. -/
theorem choiceNodes_loopS (cands : List (List Point)) (hAt : AtOkS o useInts cands) (hSh : AtShape cands)
    (id : List Tok) (k : Nat) (info : Info) (cs : List DNA) (bs : List BDNA) (D D' : List (String × DE))
    (hall : cs.all (validNodeWith cands.length (validKidsAt cands)) = true)
    (han : annotChoiceNodes id k cands.length info (fun id' => annotKidsAt cands cands.length id' 0) cs = some bs)
    (hg : ReadsL o useInts bs D D') :
    fromDictLoop (fun i d' =>
        fromDictChoiceWith useInts info cands.length (fun pre' i' d'' => fromDictAt useInts cands pre' i' d'')
          (if k == 1 then id else id ++ [.i (i : Nat)])
          (if k == 1 then none else some (id, k, i)) d') 0 k D = some (cs, D') := by
  unfold annotChoiceNodes at han
  by_cases hl : (cs.length != k) = true
  · simp [hl] at han
  · simp only [hl, Bool.false_eq_true, if_false] at han
    have hlen : cs.length = k := by simpa using hl
    rw [← hlen]
    by_cases hk1 : (k == 1) = true
    · simp only [hk1, if_true] at han
      refine loop_of_nodesS o useInts _ _ cs bs 0 D D' han hg ?_
      intro j x b D1 D2 hx hf hr
      have hxv : validNodeWith cands.length (validKidsAt cands) x = true :=
        (List.all_eq_true.mp hall) x (List.mem_of_getElem? hx)
      simp only [hlen, hk1, if_true]
      exact choiceNodeS o useInts cands hAt hSh info id none none 1 none rfl x b D1 D2 hxv hf hr
    · simp only [hk1, Bool.false_eq_true, if_false] at han
      refine loop_of_nodesS o useInts _ _ cs bs 0 D D' han hg ?_
      intro j x b D1 D2 hx hf hr
      have hxv : validNodeWith cands.length (validKidsAt cands) x = true :=
        (List.all_eq_true.mp hall) x (List.mem_of_getElem? hx)
      simp only [hlen, hk1, Bool.false_eq_true, if_false, Nat.zero_add] at hf ⊢
      exact choiceNodeS o useInts cands hAt hSh info (id ++ [.i (j : Nat)]) (some id) (some j) k
        (some (id, k, j)) rfl x b D1 D2 hxv hf hr

theorem atShape_at : ∀ (cs : List (List Point)) (n : Nat) (id : List Tok) (off v : Nat) (ks : List DNA)
    (bs : List BDNA), annotKidsAt cs n id off v ks = some bs → validKidsAt cs v ks = true →
    ∃ c, validElems c (unkids c ks) = true ∧ eraseList bs = ks
  | [], _, _, _, _, _, _, _, hv => by simp [validKidsAt] at hv
  | c :: cs, n, id, off, 0, ks, bs, han, hv => by
    simp only [validKidsAt] at hv
    simp only [annotKidsAt] at han
    obtain ⟨bs', hb', he⟩ := annotKids_erase c (id ++ [.cond off n]) ks hv
    rw [han] at hb'
    cases hb'
    exact ⟨c, hv, he⟩
  | c :: cs, n, id, off, v + 1, ks, bs, han, hv => by
    simp only [validKidsAt] at hv
    simp only [annotKidsAt] at han
    exact atShape_at cs n id (off + 1) v ks bs han hv

theorem atShape (cands : List (List Point)) : AtShape cands :=
  fun id' v ks bs h1 h2 => atShape_at cands cands.length id' 0 v ks bs h1 h2

theorem fromDict_leafS (pre : List Tok) (p : Point) (hp : ∀ k c d s i, p ≠ .choices k c d s i)
    (hc : p.noCustom = true) (x : DNA) (b : BDNA) (D D' : List (String × DE)) (hv : validP p x = true)
    (han : annotLeaf pre p x = some b) (hg : Reads o useInts b D D') :
    fromDictP useInts pre p D = some (x, D') := by
  cases p with
  | choices k c d s i => exact absurd rfl (hp k c d s i)
  | custom => simp [Point.noCustom] at hc
  | float a b' c' d' info =>
    cases x with
    | mk w cs =>
      cases w with
      | flt n e =>
        cases cs with
        | cons g gs => simp [validP] at hv
        | nil =>
          simp only [annotLeaf, Option.some.injEq] at han
          subst han
          simp only [validP, Bool.and_eq_true] at hv
          have hg' : ∃ D1, getDecision D (renderId (pre ++ locToks info.loc)) info.name =
              (some (.one (if o.valueType == 1 then .dna (.mk (.flt n e) []) else .val (.flt n e))), D1) ∧
              D' = D1 := by
            have := hg
            simp only [Reads, unboundList, ReadsL] at this
            simpa [BDNA.erase, eraseList] using this
          obtain ⟨D1, hlook, rfl⟩ := hg'
          simp only [fromDictP]
          rw [hlook]
          by_cases hvt : (o.valueType == 1) = true
          · simp [hvt, DNA.value, hv.1, hv.2]
          · simp [hvt, hv.1, hv.2]
      | none => simp [validP] at hv
      | int => simp [validP] at hv
      | str => simp [validP] at hv

mutual
  theorem fromDictP_okS (p : Point) (hc : p.noCustom = true) :
      ∀ (pre : List Tok) (d : DNA) (b : BDNA) (D D' : List (String × DE)),
      validP p d = true → annotP pre p d = some b → Reads o useInts b D D' →
      fromDictP useInts pre p D = some (d, D') := by
    cases p with
    | custom => simp [Point.noCustom] at hc
    | float a b' c d' info =>
      intro pre d b D D' hv han hg
      have : annotP pre (.float a b' c d' info) d = annotLeaf pre (.float a b' c d' info) d := by simp [annotP]
      rw [this] at han
      exact fromDict_leafS o useInts pre _ (by intro k c d s i e; cases e) hc d b D D' hv han hg
    | choices k cands dd ss info =>
      simp only [Point.noCustom] at hc
      intro pre d b D D' hv han hg
      have hAt : AtOkS o useInts cands := fun id' v ks bs E E' h1 h2 h3 => by
        have := fromDictAt_okS cands hc cands.length id' 0 v ks bs E E' h1 h2 h3
        simpa using this
      have hSh := atShape cands
      simp only [validP] at hv
      cases hu : unroot k d with
      | none => simp [hu] at hv
      | some seq =>
        simp only [hu, Bool.and_eq_true, beq_iff_eq] at hv
        obtain ⟨⟨⟨hl, hall⟩, _⟩, _⟩ := hv
        unfold unroot at hu
        simp only [fromDictP]
        by_cases hk : (k == 1) = true
        · simp only [hk, if_true, Option.some.injEq] at hu
          subst hu
          simp only [annotP, hk, if_true] at han
          have han' : annotChoiceNodes (pre ++ locToks info.loc) k cands.length info
              (fun id' => annotKidsAt cands cands.length id' 0) [d] = some [b] := by
            simp [annotChoiceNodes, hk, hl, mapIdxM, han]
          have hloop := choiceNodes_loopS o useInts cands hAt hSh (pre ++ locToks info.loc) k info [d] [b] D D'
            hall han' ⟨D', hg, rfl⟩
          rw [hloop]
          simp only [Option.map_some, Option.some.injEq, Prod.mk.injEq, and_true]
          rw [mk'_none_nodes k [d] hl hall]; rfl
        · simp only [hk, Bool.false_eq_true, if_false] at hu
          cases d with
          | mk w gs =>
            cases w with
            | none =>
              simp only [Option.some.injEq] at hu
              subst hu
              simp only [annotP, hk, Bool.false_eq_true, if_false] at han
              cases hcn : annotChoiceNodes (pre ++ locToks info.loc) k cands.length info
                  (fun id' => annotKidsAt cands cands.length id' 0) gs with
              | none => simp [hcn] at han
              | some bs =>
                simp only [hcn, Option.map_some, Option.some.injEq] at han
                subst han
                have hg' : ReadsL o useInts bs D D' := hg
                have hloop := choiceNodes_loopS o useInts cands hAt hSh (pre ++ locToks info.loc) k info gs bs D D'
                  hall hcn hg'
                rw [hloop]
                simp only [Option.map_some, Option.some.injEq, Prod.mk.injEq, and_true]
                rw [mk'_none_nodes k gs hl hall]
                have hk1 : gs.length ≠ 1 := by intro e; rw [hl] at e; simp [e] at hk
                match gs, hk1 with
                | [], _ => rfl
                | [g], h1 => exact absurd rfl h1
                | a1 :: a2 :: t, _ => rfl
            | int => simp at hu
            | flt => simp at hu
            | str => simp at hu
  theorem fromDictElems_okS (es : List Point) (hc : noCustomSpace es = true) :
      ∀ (pre : List Tok) (ds : List DNA) (bs : List BDNA) (D D' : List (String × DE)),
      validElems es ds = true → annotElems pre es ds = some bs → ReadsL o useInts bs D D' →
      fromDictElems useInts pre es D = some (ds, D') := by
    cases es with
    | nil =>
      intro pre ds bs D D' hv han hg
      cases ds with
      | nil =>
        simp only [annotElems, Option.some.injEq] at han
        subst han
        have : D' = D := hg
        subst this; rfl
      | cons a b => simp [validElems] at hv
    | cons p ps =>
      simp only [noCustomSpace, Bool.and_eq_true] at hc
      intro pre ds bs D D' hv han hg
      cases ds with
      | nil => simp [validElems] at hv
      | cons d ds =>
        simp only [validElems, Bool.and_eq_true] at hv
        simp only [annotElems] at han
        cases h1 : annotP pre p d with
        | none => simp [h1] at han
        | some b =>
          cases h2 : annotElems pre ps ds with
          | none => simp [h1, h2] at han
          | some bs' =>
            simp only [h1, h2, Option.some.injEq] at han
            subst han
            obtain ⟨D1, hg1, hg2⟩ := hg
            simp only [fromDictElems, fromDictP_okS p hc.1 pre d b D D1 hv.1 h1 hg1,
              fromDictElems_okS ps hc.2 pre ds bs' D1 D' hv.2 h2 hg2, Option.map_some]
  theorem fromDictKids_okS (c : List Point) (hc : noCustomSpace c = true) :
      ∀ (pre : List Tok) (ks : List DNA) (bs : List BDNA) (D D' : List (String × DE)),
      validElems c (unkids c ks) = true → annotKids pre c ks = some bs → ReadsL o useInts bs D D' →
      fromDictElems useInts pre c D = some (unkids c ks, D') := by
    match c, hc with
    | [], _ =>
      intro pre ks bs D D' hv han hg
      have hu : unkids [] ks = ks := rfl
      rw [hu] at hv ⊢
      cases ks with
      | nil =>
        simp only [annotKids, List.isEmpty_nil, if_true, Option.some.injEq] at han
        subst han
        have : D' = D := hg
        subst this; rfl
      | cons a b => simp [validElems] at hv
    | [.choices k cands dd ss info], hc =>
      simp only [noCustomSpace, Point.noCustom, Bool.and_true] at hc
      intro pre ks bs D D' hv han hg
      have hAt : AtOkS o useInts cands := fun id' v ks bs E E' h1 h2 h3 => by
        have := fromDictAt_okS cands hc cands.length id' 0 v ks bs E E' h1 h2 h3
        simpa using this
      have hSh := atShape cands
      simp only [annotKids] at han
      by_cases hk : k = 1
      · subst hk
        have hu : unkids [.choices 1 cands dd ss info] ks = ks := by simp [unkids]
        rw [hu] at hv ⊢
        obtain ⟨x, rfl, hx⟩ := validElems_single hv
        simp only [validP, unroot, beq_self_eq_true, if_true, Bool.and_eq_true, beq_iff_eq] at hx
        have hloop := choiceNodes_loopS o useInts cands hAt hSh (pre ++ locToks info.loc) 1 info [x] bs D D'
          hx.1.1.2 han hg
        simp only [fromDictElems, fromDictP, hloop, Option.map_some]
        rw [mk'_none_nodes 1 [x] rfl hx.1.1.2]; rfl
      · have hu : unkids [.choices k cands dd ss info] ks = [.mk .none ks] := by simp [unkids, hk]
        rw [hu] at hv ⊢
        have hk' : (k == 1) = false := by simp [hk]
        simp only [validElems, Bool.and_true, validP, unroot, hk', Bool.false_eq_true, if_false,
          Bool.and_eq_true, beq_iff_eq] at hv
        have hloop := choiceNodes_loopS o useInts cands hAt hSh (pre ++ locToks info.loc) k info ks bs D D'
          hv.1.1.2 han hg
        simp only [fromDictElems, fromDictP, hloop, Option.map_some]
        rw [mk'_none_nodes k ks hv.1.1.1 hv.1.1.2]
        have hk1 : ks.length ≠ 1 := by rw [hv.1.1.1]; exact hk
        match ks, hk1 with
        | [], _ => rfl
        | [g], h1 => exact absurd rfl h1
        | a1 :: a2 :: t, _ => rfl
    | [.float a b' c' d' info], hc =>
      intro pre ks bs D D' hv han hg
      have hu : unkids [.float a b' c' d' info] ks = ks := rfl
      rw [hu] at hv ⊢
      obtain ⟨x, rfl, hx⟩ := validElems_single hv
      simp only [annotKids] at han
      cases hl : annotLeaf pre (.float a b' c' d' info) x with
      | none => simp [hl] at han
      | some bb =>
        simp only [hl, Option.map_some, Option.some.injEq] at han
        subst han
        obtain ⟨D1, hg1, hg2⟩ := hg
        have e : D' = D1 := hg2
        subst e
        have := fromDict_leafS o useInts pre _ (by intro k c d s i e; cases e) (by simp [Point.noCustom]) x bb D D'
          hx hl hg1
        simp [fromDictElems, this]
    | [.custom info], hc => simp [noCustomSpace, Point.noCustom] at hc
    | p :: q :: r, hc =>
      simp only [noCustomSpace, Bool.and_eq_true] at hc
      intro pre ks bs D D' hv han hg
      have hu : unkids (p :: q :: r) ks = ks := by cases p <;> rfl
      rw [hu] at hv ⊢
      obtain ⟨c1, c2, t, rfl⟩ := validElems_two hv
      simp only [validElems, Bool.and_eq_true] at hv
      cases h1 : annotP pre p c1 with
      | none => exfalso; cases p <;> simp [annotKids, h1] at han
      | some b1 =>
        cases h2 : annotP pre q c2 with
        | none => exfalso; cases p <;> simp [annotKids, h1, h2] at han
        | some b2 =>
          cases h3 : annotElems pre r t with
          | none => exfalso; cases p <;> simp [annotKids, h1, h2, h3] at han
          | some bs' =>
            have hbs : bs = b1 :: b2 :: bs' := by
              cases p <;> simp [annotKids, h1, h2, h3] at han <;> exact han.symm
            subst hbs
            obtain ⟨D1, hg1, D2, hg2, hg3⟩ := hg
            simp only [fromDictElems, fromDictP_okS p hc.1 pre c1 b1 D D1 hv.1 h1 hg1,
              fromDictP_okS q hc.2.1 pre c2 b2 D1 D2 hv.2.1 h2 hg2,
              fromDictElems_okS r hc.2.2 pre t bs' D2 D' hv.2.2 h3 hg3, Option.map_some]
  theorem fromDictAt_okS (cs : List (List Point)) (hc : noCustomCands cs = true) :
      ∀ (n : Nat) (id : List Tok) (off v : Nat) (ks : List DNA) (bs : List BDNA) (D D' : List (String × DE)),
      annotKidsAt cs n id off v ks = some bs → validKidsAt cs v ks = true → ReadsL o useInts bs D D' →
      ∃ c, validElems c (unkids c ks) = true ∧ eraseList bs = ks ∧
        fromDictAt useInts cs (id ++ [.cond (off + v) n]) v D = some (mk' .none (unkids c ks), D') := by
    cases cs with
    | nil => intro n id off v ks bs D D' _ hv _; simp [validKidsAt] at hv
    | cons c cs =>
      simp only [noCustomCands, Bool.and_eq_true] at hc
      intro n id off v ks bs D D' han hv hg
      cases v with
      | zero =>
        simp only [validKidsAt] at hv
        simp only [annotKidsAt] at han
        obtain ⟨bs', hb', he⟩ := annotKids_erase c (id ++ [.cond off n]) ks hv
        rw [han] at hb'
        cases hb'
        refine ⟨c, hv, he, ?_⟩
        simp only [fromDictAt, Nat.add_zero, fromDictKids_okS c hc.1 _ ks bs D D' hv han hg, Option.map_some]
      | succ v =>
        simp only [validKidsAt] at hv
        simp only [annotKidsAt] at han
        obtain ⟨c', h1, h2, h3⟩ := fromDictAt_okS cs hc.2 n id (off + 1) v ks bs D D' han hv hg
        refine ⟨c', h1, h2, ?_⟩
        simp only [fromDictAt]
        rwa [show off + (v + 1) = off + 1 + v by omega]
end

/-- `from_dict` rebuilds a valid DNA from any dictionary its decisions can be read off, the
lists found under names being popped on the way (`Reads`). -/
theorem fromDict_of_reads (g : Spec) (hc : g.noCustom = true) (d : DNA) (b : BDNA) (D D' : List (String × DE))
    (hv : g.valid d = true) (han : g.annot d = some b) (hg : Reads o useInts b D D') :
    g.fromDict useInts D = some d := by
  have hb : g.bind d = true := by
    rw [bind_eq_valid g d (floatLeaves_of_valid g hc d hv)]; exact hv
  cases g with
  | point p =>
    have := fromDictP_okS o useInts p hc [] d b D D' hv han hg
    simp [Spec.fromDict, this, hb]
  | space s =>
    simp only [Spec.valid, validS] at hv
    cases hu : unroot s.length d with
    | none => simp [hu] at hv
    | some ds =>
      simp only [hu] at hv
      have hl := validElems_length s ds hv
      have hd : mk' .none ds = d :=
        ((unroot_iff hl).mp hu).symm ▸ (((unroot_iff hl).mp (unroot_mk'_none s ds hv)).symm ▸ rfl)
      have hel : ∃ bs, annotElems [] s ds = some bs ∧ ReadsL o useInts bs D D' := by
        unfold unroot at hu
        match s, hu, han, hv with
        | [p], hu, han, hv =>
          simp only [List.length_cons, List.length_nil, Nat.zero_add, beq_self_eq_true, if_true,
            Option.some.injEq] at hu
          subst hu
          simp only [Spec.annot] at han
          exact ⟨[b], by simp [annotElems, han], ⟨D', hg, rfl⟩⟩
        | [], hu, han, hv =>
          cases ds with
          | nil =>
            cases d with
            | mk w gs =>
              cases w with
              | none =>
                simp at hu; subst hu
                simp only [Spec.annot, annotElems, Option.map_some, Option.some.injEq] at han
                subst han
                exact ⟨[], rfl, hg⟩
              | int => simp at hu
              | flt => simp at hu
              | str => simp at hu
          | cons a t => simp [validElems] at hv
        | p :: q :: r, hu, han, hv =>
          cases d with
          | mk w gs =>
            cases w with
            | none =>
              simp at hu; subst hu
              simp only [Spec.annot] at han
              cases h1 : annotElems [] (p :: q :: r) gs with
              | none => simp [h1] at han
              | some bs =>
                simp only [h1, Option.map_some, Option.some.injEq] at han
                subst han
                exact ⟨bs, rfl, hg⟩
            | int => simp at hu
            | flt => simp at hu
            | str => simp at hu
      obtain ⟨bs, hbs, hgl⟩ := hel
      have := fromDictElems_okS o useInts s hc [] ds bs D D' hv hbs hgl
      simp [Spec.fromDict, this, hd, hb]

end
end Pg.Geno
