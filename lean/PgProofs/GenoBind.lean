/-
  Binding (`use_spec` as a verdict) accepts exactly the members — except that a float node's
  children are never looked at (finding F20c), which the hypothesis `floatLeaves` excludes.
-/
import PgProofs.GenoValidate
namespace Pg.Geno
open DNA

mutual
  /-- Every float-valued node is a leaf (the DNA is outside the F20c defect). -/
  def floatLeaves : DNA → Bool
    | .mk v cs =>
      (match v, cs with
       | .flt _ _, _ :: _ => false
       | _, _ => true) && floatLeavesList cs
  def floatLeavesList : List DNA → Bool
    | [] => true
    | c :: cs => floatLeaves c && floatLeavesList cs
end

theorem floatLeavesList_mem : ∀ {cs : List DNA} {x : DNA}, floatLeavesList cs = true → x ∈ cs → floatLeaves x = true
  | [], _, _, hx => by cases hx
  | a :: t, x, h, hx => by
    simp only [floatLeavesList, Bool.and_eq_true] at h
    cases hx with
    | head => exact h.1
    | tail _ h' => exact floatLeavesList_mem h.2 h'

theorem floatLeaves_kids {v : Val} {cs : List DNA} (h : floatLeaves (.mk v cs) = true) :
    floatLeavesList cs = true := by
  simp only [floatLeaves, Bool.and_eq_true] at h; exact h.2

/-- The multi-choice part of validate / bind vs. the specification, given node-wise agreement. -/
theorem multi_values_agree (n k : Nat) (dd ss : Bool) (f : DNA → Bool) (vk : Nat → List DNA → Bool)
    (cs : List DNA) (hnode : ∀ x ∈ cs, f x = validNodeWith n vk x) :
    (cs.length == k && cs.all f &&
      (match intValues cs with
       | some vs => choiceValuesOk dd ss vs
       | none => false)) =
    (cs.length == k && cs.all (validNodeWith n vk) &&
      (!dd || pairwiseNe (nodeValues cs)) && (!ss || pairwiseLe (nodeValues cs))) := by
  rw [all_congr_mem hnode]
  by_cases hint : ∀ x ∈ cs, ∃ v ks, x = .mk (.int v) ks
  · rw [intValues_eq_nodeValues cs hint]
    simp only [choiceValuesOk, nodupInt_eq_pairwiseNe, isSortedInt_eq_pairwiseLe]
    cases (cs.length == k) <;> cases (cs.all (validNodeWith n vk)) <;>
      cases (!dd || pairwiseNe (nodeValues cs)) <;> cases (!ss || pairwiseLe (nodeValues cs)) <;> rfl
  · have hex : ∃ x ∈ cs, ¬ ∃ v ks, x = .mk (.int v) ks := by
      obtain ⟨x, hx⟩ := Classical.not_forall.mp hint
      have := Classical.not_imp.mp hx
      exact ⟨x, this.1, this.2⟩
    rw [intValues_none_of_nonint cs hex]
    have hfalse : cs.all (validNodeWith n vk) = false := by
      rw [Bool.eq_false_iff]
      intro hall'
      rw [List.all_eq_true] at hall'
      obtain ⟨x, hx, hnx⟩ := hex
      have := hall' x hx
      cases x with
      | mk w gs =>
        cases w with
        | int i => exact hnx ⟨i, gs, rfl⟩
        | none => simp [validNodeWith] at this
        | flt => simp [validNodeWith] at this
        | str => simp [validNodeWith] at this
    simp [hfalse]

theorem bindSingle_eq (n : Nat) (bat vk : Nat → List DNA → Bool) (x : DNA)
    (h : ∀ v cs, x = .mk (.int v) cs → bat v.toNat cs = vk v.toNat cs) :
    bindSingleWith n bat x = validNodeWith n vk x := by
  cases x with
  | mk w gs =>
    cases w with
    | int i => simp [bindSingleWith, validNodeWith, inRange, h i gs rfl]
    | none => rfl
    | flt => rfl
    | str => rfl

theorem bindLeaf_eq (p : Point) (hp : ∀ k c d s i, p ≠ .choices k c d s i) (x : DNA)
    (hx : floatLeaves x = true) : bindLeaf p x = validP p x := by
  cases p with
  | choices k c d s i => exact absurd rfl (hp k c d s i)
  | float a b c' d' info =>
    cases x with
    | mk v cs =>
      cases v with
      | flt n e =>
        cases cs with
        | nil => simp [bindLeaf, validP]
        | cons g gs => simp [floatLeaves] at hx
      | none => simp [bindLeaf, validP]
      | int => simp [bindLeaf, validP]
      | str => simp [bindLeaf, validP]
  | custom info =>
    cases x with
    | mk v cs => cases v <;> simp [bindLeaf, validP]

mutual
  theorem bindP_eq (p : Point) : ∀ d, floatLeaves d = true → bindP p d = validP p d := by
    cases p with
    | float a b c d' info =>
      intro d hd
      have : bindP (.float a b c d' info) d = bindLeaf (.float a b c d' info) d := by simp [bindP]
      rw [this]; exact bindLeaf_eq _ (by intro k c d s i h; cases h) d hd
    | custom info =>
      intro d hd
      have : bindP (.custom info) d = bindLeaf (.custom info) d := by simp [bindP]
      rw [this]; exact bindLeaf_eq _ (by intro k c d s i h; cases h) d hd
    | choices k cands dd ss info =>
      have hC := bindAt_eq cands
      intro d hd
      cases d with
      | mk v cs =>
        have hfl := floatLeaves_kids hd
        by_cases hk : k = 1
        · subst hk
          have : bindSingleWith cands.length (bindAt cands) (.mk v cs) =
              validNodeWith cands.length (validKidsAt cands) (.mk v cs) :=
            bindSingle_eq _ _ _ _ (fun v' cs' e => by cases e; exact hC _ cs hfl)
          simp only [bindP, beq_self_eq_true, if_true, this, validP, unroot, List.length_cons,
            List.length_nil, List.all_cons, List.all_nil, Bool.and_true, Nat.zero_add, Bool.true_and]
          cases v with
          | int i => simp [nodeValues, pairwiseNe, pairwiseLe]
          | none => simp [validNodeWith]
          | flt => simp [validNodeWith]
          | str => simp [validNodeWith]
        · have hk' : (k == 1) = false := by simp [hk]
          cases v with
          | none =>
            simp only [bindP, hk', Bool.false_eq_true, if_false, DNA.value, DNA.children, beq_self_eq_true,
              Bool.true_and, validP, unroot, bindChildChoicesWith]
            exact multi_values_agree _ k dd ss _ _ cs (fun x hx =>
              bindSingle_eq _ _ _ x (fun v' cs' e => by
                subst e
                exact hC _ cs' (floatLeaves_kids (floatLeavesList_mem hfl hx))))
          | int => simp [bindP, hk', validP, unroot, DNA.value]
          | flt => simp [bindP, hk', validP, unroot, DNA.value]
          | str => simp [bindP, hk', validP, unroot, DNA.value]
  theorem bindElems_eq (es : List Point) :
      ∀ ds, floatLeavesList ds = true → bindElems es ds = validElems es ds := by
    cases es with
    | nil => intro ds _; cases ds <;> rfl
    | cons p ps =>
      intro ds hn
      cases ds with
      | nil => rfl
      | cons d ds =>
        simp only [floatLeavesList, Bool.and_eq_true] at hn
        simp only [bindElems, validElems, bindP_eq p d hn.1, bindElems_eq ps ds hn.2]
  theorem bindKids_eq (c : List Point) :
      ∀ cs, floatLeavesList cs = true → bindKids c cs = validElems c (unkids c cs) := by
    match c with
    | [] =>
      intro cs _
      have hu : unkids [] cs = cs := rfl
      rw [hu]
      cases cs <;> simp [bindKids, validElems]
    | [.choices k cands dd ss info] =>
      have hC := bindAt_eq cands
      intro cs hfl
      have hnode : ∀ x ∈ cs, bindSingleWith cands.length (bindAt cands) x =
          validNodeWith cands.length (validKidsAt cands) x := fun x hx =>
        bindSingle_eq _ _ _ x (fun v' cs' e => by
          subst e
          exact hC _ cs' (floatLeaves_kids (floatLeavesList_mem hfl hx)))
      simp only [bindKids, bindChildChoicesWith]
      refine (multi_values_agree _ k dd ss _ _ cs hnode).trans ?_
      by_cases hk : k = 1
      · subst hk
        have hu : unkids [.choices 1 cands dd ss info] cs = cs := by simp [unkids]
        rw [hu]
        match cs with
        | [] => simp [validElems]
        | [x] =>
          simp only [validElems, Bool.and_true, validP, unroot, beq_self_eq_true, if_true]
        | a :: b :: t => simp [validElems]
      · have hu : unkids [.choices k cands dd ss info] cs = [.mk .none cs] := by simp [unkids, hk]
        rw [hu]
        have hk' : (k == 1) = false := by simp [hk]
        simp [validElems, validP, unroot, hk']
    | [.float a b c' d' info] =>
      intro cs hfl
      have hu : unkids [.float a b c' d' info] cs = cs := rfl
      rw [hu]
      match cs, hfl with
      | [], _ => simp [bindKids, validElems]
      | [x], hfl =>
        simp only [floatLeavesList, Bool.and_true] at hfl
        simp only [bindKids, validElems, Bool.and_true]
        exact bindLeaf_eq _ (by intro k c d s i h; cases h) x hfl
      | x :: y :: t, _ => simp [bindKids, validElems]
    | [.custom info] =>
      intro cs hfl
      have hu : unkids [.custom info] cs = cs := rfl
      rw [hu]
      match cs, hfl with
      | [], _ => simp [bindKids, validElems]
      | [x], hfl =>
        simp only [floatLeavesList, Bool.and_true] at hfl
        simp only [bindKids, validElems, Bool.and_true]
        exact bindLeaf_eq _ (by intro k c d s i h; cases h) x hfl
      | x :: y :: t, _ => simp [bindKids, validElems]
    | p :: q :: r =>
      intro cs hfl
      have hu : unkids (p :: q :: r) cs = cs := by cases p <;> rfl
      rw [hu]
      match cs, hfl with
      | [], _ => cases p <;> simp [bindKids, validElems]
      | [x], _ => cases p <;> simp [bindKids, validElems]
      | c1 :: c2 :: t, hfl =>
        simp only [floatLeavesList, Bool.and_eq_true] at hfl
        have e1 := bindP_eq p c1 hfl.1
        have e2 := bindP_eq q c2 hfl.2.1
        have e3 := bindElems_eq r t hfl.2.2
        cases p <;> simp [bindKids, validElems, e1, e2, e3]
  theorem bindAt_eq (cs : List (List Point)) :
      ∀ (i : Nat) (ks : List DNA), floatLeavesList ks = true → bindAt cs i ks = validKidsAt cs i ks := by
    cases cs with
    | nil => intro i ks _; simp [bindAt, validKidsAt]
    | cons c cs =>
      intro i ks hfl
      cases i with
      | zero => simp only [bindAt, validKidsAt]; exact bindKids_eq c ks hfl
      | succ i => simp only [bindAt, validKidsAt]; exact bindAt_eq cs i ks hfl
end

theorem bind_eq_valid (g : Spec) (d : DNA) (hd : floatLeaves d = true) : g.bind d = g.valid d := by
  cases g with
  | point p => exact bindP_eq p d hd
  | space s =>
    simp only [Spec.bind, Spec.valid, validS]
    cases d with
    | mk v cs =>
      have hfl := floatLeaves_kids hd
      match s with
      | [] =>
        cases v <;> cases cs <;> simp [bindS, unroot, validElems, bindElems, DNA.value, DNA.children]
      | [p] =>
        simp only [bindS, unroot, List.length_cons, List.length_nil, Nat.zero_add, beq_self_eq_true, if_true,
          validElems, Bool.and_true]
        exact bindP_eq p _ hd
      | p :: q :: r =>
        have hlen : (p :: q :: r).length = r.length + 2 := rfl
        have h1 : ((r.length + 2) == 1) = false := by simp
        simp only [bindS, unroot, hlen, h1, Bool.false_eq_true, if_false, DNA.children, DNA.value]
        cases v with
        | none => simp [bindElems_eq (p :: q :: r) cs hfl]
        | int => simp
        | flt => simp
        | str => simp

end Pg.Geno
