/- Lemmas for the DNA JSON theorem. -/
import PgModel.C05Dna
import PgProofs.GenoViews
namespace Pg.C05
open Pg.Geno (Nest)

def FloatText.Lawful (ft : FloatText) : Prop := ∀ n d, ft.fparse (ft.ftok n d) = some (n, d)

mutual
  theorem treeNest_nestTree (ft : FloatText) (hft : ft.Lawful) : (n : Nest) →
      treeNest ft (nestTree ft n) = some n
    | .v x => by
      cases x with
      | none => rfl
      | int i => rfl
      | flt a b => simp [nestTree, valAtom, treeNest, hft a b]
      | str s => simp [nestTree, valAtom, treeNest]
    | .list xs => by simp [nestTree, treeNest, treeNestL_nestTreeL ft hft xs]
    | .tuple xs => by simp [nestTree, treeNest, treeNestL_nestTreeL ft hft xs]
  theorem treeNestL_nestTreeL (ft : FloatText) (hft : ft.Lawful) : (xs : List Nest) →
      treeNestL ft (nestTreeL ft xs) = some xs
    | [] => rfl
    | x :: xs => by
      simp [nestTreeL, treeNestL, treeNest_nestTree ft hft x, treeNestL_nestTreeL ft hft xs]
end

mutual
  theorem nest_plain (ft : FloatText) (env : ClassEnv) : (n : Nest) →
      Conforms env (nestTree ft n) = true ∧ NoMissing (nestTree ft n) = true
    | .v x => by cases x <;> simp [nestTree, valAtom, Conforms, NoMissing]
    | .list xs => by
      have := nest_plainL ft env xs
      simp [nestTree, Conforms, NoMissing, this.1, this.2]
    | .tuple xs => by
      have := nest_plainL ft env xs
      simp [nestTree, Conforms, NoMissing, this.1, this.2]
  theorem nest_plainL (ft : FloatText) (env : ClassEnv) : (xs : List Nest) →
      ConformsL env (nestTreeL ft xs) = true ∧ NoMissingL (nestTreeL ft xs) = true
    | [] => by simp [nestTreeL, ConformsL, NoMissingL]
    | x :: xs => by
      have h1 := nest_plain ft env x
      have h2 := nest_plainL ft env xs
      simp [nestTreeL, ConformsL, NoMissingL, h1.1, h1.2, h2.1, h2.2]
end

theorem strsOfJ_map : ∀ (l : List Str), strsOfJ (l.map JV.str) = some l
  | [] => rfl
  | s :: r => by simp [strsOfJ, strsOfJ_map r]

end Pg.C05

namespace Pg.C05
open Pg.Geno (Nest)

theorem noEmptyChildL_cons (c : Geno.DNA) (cs : List Geno.DNA) (h : noEmptyChildL (c :: cs) = true) :
    c ≠ .mk .none [] ∧ noEmptyChild c = true ∧ noEmptyChildL cs = true := by
  obtain ⟨v, ks⟩ := c
  cases v <;> cases ks <;> simp_all [noEmptyChildL]

mutual
  theorem compact_eq_nested : (c : Geno.DNA) → c ≠ .mk .none [] → noEmptyChild c = true →
      compact c = Geno.toNested c
    | .mk v [], hne, _ => by
      have hv : v ≠ .none := by intro e; subst e; exact hne rfl
      simp only [compact, Geno.toNested, Geno.toNestedList]
      exact (Geno.nestNode_nil v hv).symm
    | .mk v (c :: cs), _, h => by
      simp only [noEmptyChild] at h
      have := compactL_eq_nested (c :: cs) h
      simp only [compactL] at this
      simp only [compact, Geno.toNested, this]
  theorem compactL_eq_nested : (cs : List Geno.DNA) → noEmptyChildL cs = true →
      compactL cs = Geno.toNestedList cs
    | [], _ => rfl
    | c :: cs, h => by
      obtain ⟨h1, h2, h3⟩ := noEmptyChildL_cons c cs h
      simp only [compactL, Geno.toNestedList, compact_eq_nested c h1 h2, compactL_eq_nested cs h3]
end

theorem compact_eq_toCompact (d : Geno.DNA) (h : noEmptyChild d = true) : compact d = Geno.toCompact d := by
  obtain ⟨v, cs⟩ := d
  cases cs with
  | nil => rfl
  | cons c cs =>
    simp only [noEmptyChild] at h
    have := compactL_eq_nested (c :: cs) h
    simp only [compactL] at this
    simp only [compact, Geno.toCompact, Geno.toNested, this]

end Pg.C05
