/-
  C09 — the specification of the notification contract (independent of the grouping / sorting
  algorithm of the implementation model) and its link to the model.
-/
import PgProofs.NotifyContract
namespace Pg.C09
open T
open Pg.C08 (Atom Key)

mutual
  /-- Every subscribing node of the tree with its path (pre-order). -/
  def allSubs : T → Path → List (Path × Nat)
    | .leaf _, _ => []
    | .node m _ items, here => (if m.sub then [(here, m.id)] else []) ++ allSubsItems items here
  def allSubsItems : List (Key × T) → Path → List (Path × Nat)
    | [], _ => []
    | (k, t) :: rest, here => allSubs t (here ++ [k]) ++ allSubsItems rest here
end

/-- What receiver at path `p` must be told: the changed locations whose owning node is at or
below `p`, relative to `p`, with the old and new value, in the order of the changes. -/
def entriesFor (p : Path) (ups : List (Update × Path)) : List Entry :=
  ups.filterMap fun x => if p <+: x.2 then some (x.1.path.drop p.length, x.1.old, x.1.new) else none

/-- SPEC: one event for each subscribing node that is an ancestor-or-self of the owner of some
changed location, carrying exactly `entriesFor`; nobody else gets an event. -/
def specNotifs (root : T) (ups : List (Update × Path)) : List Event :=
  (allSubs root []).filterMap fun r =>
    if (entriesFor r.1 ups).isEmpty then none else some { recv := r.2, entries := entriesFor r.1 ups }

mutual
  def KeysNodup : T → Prop
    | .leaf _ => True
    | .node _ _ items => (items.map (·.1)).Nodup ∧ KeysNodupItems items
  def KeysNodupItems : List (Key × T) → Prop
    | [] => True
    | (_, t) :: rest => KeysNodup t ∧ KeysNodupItems rest
end

/-- Well-formed tree: keys of a node are distinct, identities of subscribing nodes are distinct. -/
def WF (root : T) : Prop := KeysNodup root ∧ ((allSubs root []).map (·.2)).Nodup

theorem mem_allSubsItems {p : Path} {i : Nat} :
    (items : List (Key × T)) → (here : Path) → (p, i) ∈ allSubsItems items here →
      ∃ k c, (k, c) ∈ items ∧ (p, i) ∈ allSubs c (here ++ [k])
  | [], _, h => by simp [allSubsItems] at h
  | (k, t) :: rest, here, h => by
    simp only [allSubsItems, List.mem_append] at h
    rcases h with h | h
    · exact ⟨k, t, by simp, h⟩
    · obtain ⟨k', c, hm, hc⟩ := mem_allSubsItems rest here h
      exact ⟨k', c, by simp [hm], hc⟩

theorem allSubsItems_of_mem {p : Path} {i : Nat} {k : Key} {c : T} :
    (items : List (Key × T)) → (here : Path) → (k, c) ∈ items → (p, i) ∈ allSubs c (here ++ [k]) →
      (p, i) ∈ allSubsItems items here
  | [], _, h, _ => by simp at h
  | (k', t) :: rest, here, h, hc => by
    simp only [allSubsItems, List.mem_append]
    simp only [List.mem_cons, Prod.mk.injEq] at h
    rcases h with ⟨rfl, rfl⟩ | h
    · exact Or.inl hc
    · exact Or.inr (allSubsItems_of_mem rest here h hc)

theorem allSubs_prefix {p : Path} {i : Nat} : (t : T) → (here : Path) → (p, i) ∈ allSubs t here → here <+: p
  | .leaf _, _, h => by simp [allSubs] at h
  | .node m kd items, here, h => by
    simp only [allSubs, List.mem_append] at h
    rcases h with h | h
    · split at h
      · simp at h; rw [h.1]; exact List.prefix_refl _
      · simp at h
    · obtain ⟨k, c, hm, hc⟩ := mem_allSubsItems items here h
      have := allSubs_prefix c (here ++ [k]) hc
      exact (List.prefix_append here [k]).trans this
termination_by t => sizeOf t
decreasing_by
  have := List.sizeOf_lt_of_mem hm
  simp only [Prod.mk.sizeOf_spec] at this
  simp only [T.node.sizeOf_spec]
  omega

theorem lookup_of_mem_nodup {k : Key} {c : T} :
    (items : List (Key × T)) → (items.map (·.1)).Nodup → (k, c) ∈ items → lookup k items = some c
  | [], _, h => by simp at h
  | (k', t) :: rest, hnd, h => by
    simp only [List.map_cons, List.nodup_cons] at hnd
    simp only [List.mem_cons, Prod.mk.injEq] at h
    simp only [lookup]
    rcases h with ⟨rfl, rfl⟩ | h
    · simp
    · have : ¬ k' = k := by
        intro e; subst e
        exact hnd.1 (List.mem_map.2 ⟨(k', c), h, rfl⟩)
      simp only [this, if_false]
      exact lookup_of_mem_nodup rest hnd.2 h

theorem mem_of_lookup {k : Key} {c : T} : (items : List (Key × T)) → lookup k items = some c → (k, c) ∈ items
  | [], h => by simp [lookup] at h
  | (k', t) :: rest, h => by
    simp only [lookup] at h
    split at h
    · next e => cases h; subst e; simp
    · exact List.mem_cons_of_mem _ (mem_of_lookup rest h)

theorem keysNodupItems_mem {k : Key} {c : T} : (items : List (Key × T)) → KeysNodupItems items →
    (k, c) ∈ items → KeysNodup c
  | [], _, h => by simp at h
  | (k', t) :: rest, hk, h => by
    simp only [KeysNodupItems] at hk
    simp only [List.mem_cons, Prod.mk.injEq] at h
    rcases h with ⟨rfl, rfl⟩ | h
    · exact hk.1
    · exact keysNodupItems_mem rest hk.2 h

/-- The chain walked by `_notify_field_updates` towards the node at `q` visits exactly the
subscribing nodes whose path is a prefix of `q`. -/
theorem mem_chainSubs {p : Path} {i : Nat} :
    (q : Path) → (t : T) → (here : Path) → KeysNodup t →
      ((p, i) ∈ chainSubs t here q ↔ (p, i) ∈ allSubs t here ∧ ∃ r, p = here ++ r ∧ r <+: q)
  | _, .leaf _, here, _ => by simp [chainSubs, allSubs]
  | [], .node m kd items, here, hk => by
    simp only [chainSubs, allSubs, List.mem_append, List.prefix_nil]
    constructor
    · intro h
      refine ⟨Or.inl h, [], ?_, rfl⟩
      split at h
      · simp at h; simp [h.1]
      · simp at h
    · rintro ⟨h | h, r, hp, rfl⟩
      · exact h
      · obtain ⟨k, c, hm, hc⟩ := mem_allSubsItems items here h
        have := allSubs_prefix c (here ++ [k]) hc
        simp only [List.append_nil] at hp
        subst hp
        have hl := this.length_le
        simp at hl
        omega
  | k :: rest, .node m kd items, here, hk => by
    simp only [KeysNodup] at hk
    simp only [chainSubs, allSubs, List.mem_append]
    cases hc : lookup k items with
    | none =>
      simp only []
      constructor
      · intro h
        refine ⟨Or.inl h, [], ?_, List.nil_prefix⟩
        split at h
        · simp at h; simp [h.1]
        · simp at h
      · rintro ⟨h | h, r, hp, hr⟩
        · exact h
        · exfalso
          obtain ⟨k', c, hm, hc'⟩ := mem_allSubsItems items here h
          have hpre := allSubs_prefix c (here ++ [k']) hc'
          subst hp
          rw [List.prefix_append_right_inj] at hpre
          have : k' = k := by
            cases r with
            | nil => simp at hpre
            | cons a r' =>
              have h1 := List.cons_prefix_cons.1 hpre
              have h2 := List.cons_prefix_cons.1 hr
              exact h1.1.trans h2.1
          subst this
          rw [lookup_of_mem_nodup items hk.1 hm] at hc
          cases hc
    | some c =>
      simp only [List.mem_append]
      have hmem := mem_of_lookup items hc
      have ih := mem_chainSubs (p := p) (i := i) rest c (here ++ [k]) (keysNodupItems_mem items hk.2 hmem)
      constructor
      · rintro (h | h)
        · refine ⟨Or.inl h, [], ?_, List.nil_prefix⟩
          split at h
          · simp at h; simp [h.1]
          · simp at h
        · obtain ⟨h1, r, hp, hr⟩ := ih.1 h
          refine ⟨Or.inr (allSubsItems_of_mem items here hmem h1), k :: r, by simp [hp], ?_⟩
          exact List.cons_prefix_cons.2 ⟨rfl, hr⟩
      · rintro ⟨h | h, r, hp, hr⟩
        · exact Or.inl h
        · right
          obtain ⟨k', c', hm, hc'⟩ := mem_allSubsItems items here h
          have hpre := allSubs_prefix c' (here ++ [k']) hc'
          subst hp
          rw [List.prefix_append_right_inj] at hpre
          cases r with
          | nil => simp at hpre
          | cons a r' =>
            have h1 := List.cons_prefix_cons.1 hpre
            have h2 := List.cons_prefix_cons.1 hr
            have hk' : k' = k := h1.1.trans h2.1
            subst hk'
            have : c' = c := by
              have := lookup_of_mem_nodup items hk.1 hm
              rw [hc] at this; cases this; rfl
            subst this
            refine ih.2 ⟨hc', r', ?_, h2.2⟩
            rw [← h2.1]; simp

end Pg.C09

namespace Pg.C09
open T
open Pg.C08 (Atom Key)

theorem allSubs_sublist_items {k : Key} {c : T} (here : Path) :
    (items : List (Key × T)) → lookup k items = some c → (allSubs c (here ++ [k])).Sublist (allSubsItems items here)
  | [], h => by simp [lookup] at h
  | (k', t) :: rest, h => by
    simp only [lookup] at h
    simp only [allSubsItems]
    split at h
    · next e => cases h; subst e; exact List.sublist_append_left _ _
    · exact (allSubs_sublist_items here rest h).trans (List.sublist_append_right _ _)

theorem chainSubs_sublist : (q : Path) → (t : T) → (here : Path) → (chainSubs t here q).Sublist (allSubs t here)
  | _, .leaf _, here => by simp [chainSubs, allSubs]
  | [], .node m kd items, here => by simp only [chainSubs, allSubs]; exact List.sublist_append_left _ _
  | k :: rest, .node m kd items, here => by
    simp only [chainSubs, allSubs]
    cases hc : lookup k items with
    | none => exact List.sublist_append_left _ _
    | some c =>
      exact List.Sublist.append (List.Sublist.refl _)
        ((chainSubs_sublist rest c (here ++ [k])).trans (allSubs_sublist_items here items hc))

theorem eq_of_nodup_map_snd : (l : List (Path × Nat)) → (l.map (·.2)).Nodup → ∀ a ∈ l, ∀ b ∈ l, a.2 = b.2 → a = b
  | [], _, a, ha, _, _, _ => by simp at ha
  | x :: rest, hnd, a, ha, b, hb, e => by
    simp only [List.map_cons, List.nodup_cons] at hnd
    simp only [List.mem_cons] at ha hb
    rcases ha with rfl | ha <;> rcases hb with rfl | hb
    · rfl
    · exact absurd (List.mem_map.2 ⟨b, hb, e.symm⟩) hnd.1
    · exact absurd (List.mem_map.2 ⟨a, ha, e⟩) hnd.1
    · exact eq_of_nodup_map_snd rest hnd.2 a ha b hb e

theorem filterMap_single {β : Type} (e : β) (j : Nat) :
    (l : List (Path × Nat)) → (l.map (·.2)).Nodup →
      l.filterMap (fun r => if r.2 = j then some e else none) = if j ∈ l.map (·.2) then [e] else []
  | [], _ => by simp
  | x :: rest, hnd => by
    simp only [List.map_cons, List.nodup_cons] at hnd
    have ih := filterMap_single e j rest hnd.2
    simp only [List.filterMap_cons, List.map_cons, List.mem_cons]
    by_cases hx : x.2 = j
    · have : j ∉ rest.map (·.2) := hx ▸ hnd.1
      simp [hx, ih, this]
    · have hx' : ¬ j = x.2 := fun e => hx e.symm
      simp only [hx, if_false, ih, hx', false_or]

/-- The flat work list of the double loop. -/
def work (root : T) (ups : List (Update × Path)) : Work :=
  ups.flatMap fun x => (chainSubs root [] x.2).reverse.map fun r => (r, x.1)

theorem groupAll_eq_foldW (root : T) : (ups : List (Update × Path)) → (g : List Group) →
    groupAll root ups g = foldW g (work root ups)
  | [], g => rfl
  | (u, tp) :: rest, g => by
    simp only [groupAll, work, List.flatMap_cons, foldW, List.foldl_append, List.foldl_map]
    have := groupAll_eq_foldW root rest
    simp only [foldW, work] at this
    rw [this]

theorem mem_work {root : T} {ups : List (Update × Path)} {r : Path × Nat} {u : Update} :
    (r, u) ∈ work root ups ↔ ∃ tp, (u, tp) ∈ ups ∧ r ∈ chainSubs root [] tp := by
  simp only [work, List.mem_flatMap, List.mem_map, List.mem_reverse, Prod.mk.injEq, Prod.exists]
  constructor
  · rintro ⟨u', tp, hm, p, i, hc, rfl, rfl⟩; exact ⟨tp, hm, hc⟩
  · rintro ⟨tp, hm, hc⟩; exact ⟨u, tp, hm, r.1, r.2, hc, rfl, rfl⟩

theorem entriesFor_ne_nil {q : Path} (ups : List (Update × Path)) :
    (entriesFor q ups).isEmpty = false ↔ ∃ u tp, (u, tp) ∈ ups ∧ q <+: tp := by
  induction ups with
  | nil => simp [entriesFor]
  | cons x rest ih =>
    simp only [entriesFor, List.filterMap_cons] at ih ⊢
    by_cases hp : q <+: x.2
    · simp only [hp, if_true, List.isEmpty_cons, true_iff]
      exact ⟨x.1, x.2, by simp, hp⟩
    · simp only [hp, if_false, ih]
      constructor
      · rintro ⟨u, tp, hm, h⟩; exact ⟨u, tp, List.mem_cons_of_mem _ hm, h⟩
      · rintro ⟨u, tp, hm, h⟩
        simp only [List.mem_cons] at hm
        rcases hm with rfl | hm
        · exact absurd h hp
        · exact ⟨u, tp, hm, h⟩


section Contract
variable {root : T} (hwf : WF root)
include hwf

theorem chain_iff {q : Path} {j : Nat} (tp : Path) (hq : (q, j) ∈ allSubs root []) :
    (q, j) ∈ chainSubs root [] tp ↔ q <+: tp := by
  rw [mem_chainSubs tp root [] hwf.1]
  constructor
  · rintro ⟨_, r, hp, hr⟩; simp at hp; subst hp; exact hr
  · intro h; exact ⟨hq, q, by simp, h⟩

theorem pathOfId_work (ups : List (Update × Path)) : PathOfId (work root ups) := by
  intro x hx y hy e
  obtain ⟨tp1, _, h1⟩ := mem_work.1 (show (x.1, x.2) ∈ work root ups from hx)
  obtain ⟨tp2, _, h2⟩ := mem_work.1 (show (y.1, y.2) ∈ work root ups from hy)
  have := eq_of_nodup_map_snd _ hwf.2 x.1 ((chainSubs_sublist tp1 root []).subset h1)
    y.1 ((chainSubs_sublist tp2 root []).subset h2) e
  rw [this]

theorem ent_work {q : Path} {j : Nat} (hq : (q, j) ∈ allSubs root []) :
    (ups : List (Update × Path)) → ent q j (work root ups) = entriesFor q ups
  | [] => rfl
  | (u, tp) :: rest => by
    have ih := ent_work hq rest
    simp only [work, List.flatMap_cons, ent, List.filterMap_append, entriesFor, List.filterMap_cons] at ih ⊢
    rw [ih]
    have hnd : (((chainSubs root [] tp).reverse).map (·.2)).Nodup := by
      rw [List.map_reverse]
      exact (List.reverse_perm _).nodup_iff.2 (((chainSubs_sublist tp root []).map _).nodup hwf.2)
    have hsingle := filterMap_single (entryOf q u) j _ hnd
    simp only [List.filterMap_map, Function.comp_def]
    rw [hsingle]
    have hiff : j ∈ ((chainSubs root [] tp).reverse).map (·.2) ↔ q <+: tp := by
      rw [← chain_iff hwf tp hq]
      simp only [List.mem_map, List.mem_reverse]
      constructor
      · rintro ⟨r, hr, e⟩
        have := eq_of_nodup_map_snd _ hwf.2 r ((chainSubs_sublist tp root []).subset hr) (q, j) hq e
        rw [← this]; exact hr
      · intro h; exact ⟨(q, j), h, rfl⟩
    by_cases hp : q <+: tp
    · have h1 := hiff.2 hp
      simp only [h1, hp, if_true, entryOf, relPath, List.singleton_append]
    · have : ¬ j ∈ ((chainSubs root [] tp).reverse).map (·.2) := fun h => hp (hiff.1 h)
      simp only [this, hp, if_false, List.nil_append]

end Contract

end Pg.C09

namespace Pg.C09
open T
open Pg.C08 (Atom Key)

theorem nodup_of_nodup_map {α β : Type} (f : α → β) : (l : List α) → (l.map f).Nodup → l.Nodup
  | [], _ => List.nodup_nil
  | x :: xs, h => by
    simp only [List.map_cons, List.nodup_cons] at h ⊢
    exact ⟨fun hm => h.1 (List.mem_map.2 ⟨x, hm, rfl⟩), nodup_of_nodup_map f xs h.2⟩

theorem insertDesc_perm (x : Group) : (l : List Group) → (insertDesc x l).Perm (x :: l)
  | [] => List.Perm.refl _
  | y :: ys => by
    simp only [insertDesc]
    split
    · exact ((insertDesc_perm x ys).cons y).trans (List.Perm.swap x y ys)
    · exact List.Perm.refl _

theorem sortDesc_perm : (l : List Group) → (sortDesc l).Perm l
  | [] => List.Perm.refl _
  | x :: xs => (insertDesc_perm x _).trans ((sortDesc_perm xs).cons x)

theorem filterMap_recv_sublist (c : Path × Nat → Bool) (f : Path × Nat → Event)
    (hf : ∀ r, (f r).recv = r.2) :
    (l : List (Path × Nat)) →
      ((l.filterMap fun r => if c r then none else some (f r)).map Event.recv).Sublist (l.map (·.2))
  | [] => by simp
  | x :: rest => by
    simp only [List.filterMap_cons, List.map_cons]
    split
    · next h =>
      split at h
      · exact (filterMap_recv_sublist c f hf rest).trans (List.sublist_cons_self _ _)
      · cases h
    · next e h =>
      split at h
      · cases h
      · cases h
        simp only [List.map_cons, hf]
        exact (filterMap_recv_sublist c f hf rest).cons₂ _

/-- CONTRACT, multiset part: the events the model delivers for a batch of updates are exactly
(as a multiset) the events of the specification. -/
theorem contract_perm {root : T} (hwf : WF root) (ups : List (Update × Path)) :
    (notifications root ups).Perm (specNotifs root ups) := by
  let f : Group → Event := fun g => { recv := g.2.1, entries := g.2.2 }
  have hG : groupAll root ups [] = foldW [] (work root ups) := groupAll_eq_foldW root ups []
  have h1 : (notifications root ups).Perm ((foldW [] (work root ups)).map f) := by
    unfold notifications; rw [hG]; exact (sortDesc_perm _).map f
  refine h1.trans ?_
  have nd1 : ((foldW [] (work root ups)).map f).Nodup := by
    apply nodup_of_nodup_map Event.recv
    rw [List.map_map]
    exact foldW_nodup (work root ups)
  have nd2 : (specNotifs root ups).Nodup := by
    apply nodup_of_nodup_map Event.recv
    exact (filterMap_recv_sublist (fun r => (entriesFor r.1 ups).isEmpty)
      (fun r => { recv := r.2, entries := entriesFor r.1 ups }) (fun _ => rfl) _).nodup hwf.2
  rw [List.perm_ext_iff_of_nodup nd1 nd2]
  intro e
  simp only [List.mem_map, specNotifs, List.mem_filterMap]
  constructor
  · rintro ⟨⟨q, j, es⟩, hm, rfl⟩
    obtain ⟨⟨u, hu⟩, hes⟩ := (mem_foldW _ (pathOfId_work hwf ups) q j es).1 hm
    obtain ⟨tp, hup, hc⟩ := mem_work.1 hu
    have hq : (q, j) ∈ allSubs root [] := (chainSubs_sublist tp root []).subset hc
    have hpre := (chain_iff hwf tp hq).1 hc
    have hne := (entriesFor_ne_nil (q := q) ups).2 ⟨u, tp, hup, hpre⟩
    refine ⟨(q, j), hq, ?_⟩
    simp only [hne, Bool.false_eq_true, if_false, Option.some.injEq]
    rw [hes, ent_work hwf hq ups]
  · rintro ⟨⟨q, j⟩, hq, he⟩
    split at he
    · cases he
    · next hne =>
      cases he
      have hne' : (entriesFor q ups).isEmpty = false := by simpa using hne
      obtain ⟨u, tp, hup, hpre⟩ := (entriesFor_ne_nil (q := q) ups).1 hne'
      have hc := (chain_iff hwf tp hq).2 hpre
      have hu : ((q, j), u) ∈ work root ups := mem_work.2 ⟨tp, hup, hc⟩
      refine ⟨(q, j, ent q j (work root ups)), (mem_foldW _ (pathOfId_work hwf ups) q j _).2 ⟨⟨u, hu⟩, rfl⟩, ?_⟩
      simp only [f, ent_work hwf hq ups]

end Pg.C09
