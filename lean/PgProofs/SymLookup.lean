/-
  The lookup lemma of C01: in a well-formed tree, looking the believed path of a node up from
  the root returns that very node.
-/
import PgProofs.SymClone
namespace Pg.Sym

def Tree.pathOf : Tree → List Key
  | .leaf _ => []
  | .node m _ => m.path

theorem queryItems_mem (k : Key) (c : Tree) (rest : List Key) : (its : Items) → nodupKeys (keysOf its) = true →
    (k, c) ∈ its → queryItems its k rest = c.query rest
  | [], _, h => by simp at h
  | (k', c') :: r, hnd, hmem => by
    simp only [keysOf, List.map_cons, nodupKeys, Bool.and_eq_true, Bool.not_eq_true'] at hnd
    simp only [List.mem_cons, Prod.mk.injEq] at hmem
    unfold queryItems
    rcases hmem with ⟨rfl, rfl⟩ | hmem
    · simp
    · have hne : k' ≠ k := by
        intro he
        subst he
        have : k' ∈ List.map (fun x => x.1) r := List.mem_map.mpr ⟨(k', c), hmem, rfl⟩
        have h1 := hnd.1
        simp only [List.contains_eq_mem, decide_eq_false_iff_not] at h1
        exact h1 this
      simp only [hne, if_false]
      exact queryItems_mem k c rest r hnd.2 hmem

theorem positional_lt : (n : Nat) → (ks : List Key) → positional n ks = true → ∀ k ∈ ks, ∃ j, k = Key.i (j : Nat) ∧ n ≤ j
  | _, [], _, k, hk => by simp at hk
  | n, k0 :: ks, h, k, hk => by
    simp only [positional, Bool.and_eq_true, beq_iff_eq] at h
    simp only [List.mem_cons] at hk
    rcases hk with rfl | hk
    · exact ⟨n, h.1, Nat.le_refl n⟩
    · obtain ⟨j, hj, hle⟩ := positional_lt (n + 1) ks h.2 k hk
      exact ⟨j, hj, by omega⟩

theorem positional_nodup : (n : Nat) → (ks : List Key) → positional n ks = true → nodupKeys ks = true
  | _, [], _ => by simp [nodupKeys]
  | n, k0 :: ks, h => by
    have h' := h
    simp only [positional, Bool.and_eq_true, beq_iff_eq] at h
    simp only [nodupKeys, Bool.and_eq_true, Bool.not_eq_true', List.contains_eq_mem, decide_eq_false_iff_not]
    refine ⟨?_, positional_nodup (n + 1) ks h.2⟩
    intro hmem
    obtain ⟨j, hj, hle⟩ := positional_lt (n + 1) ks h.2 k0 hmem
    rw [h.1] at hj
    have : (n : Int) = (j : Int) := by injection hj
    omega

theorem keysOk_nodup (kind : Kind) (its : Items) (h : keysOk kind its = true) : nodupKeys (keysOf its) = true := by
  unfold keysOk at h
  cases kind with
  | list => exact positional_nodup 0 _ h
  | dict => exact h
  | obj c => exact h

/-- in a list payload every key is a non-negative integer, so `query` does not rewrite it. -/
theorem normKey_id (m : Meta) (its : Items) (h : keysOk m.kind its = true) (k : Key) (c : Tree) (hmem : (k, c) ∈ its) :
    normKey m.kind its.length k = k := by
  unfold normKey
  cases hk : m.kind with
  | list =>
    rw [hk] at h
    unfold keysOk at h
    simp only at h
    have : k ∈ keysOf its := List.mem_map.mpr ⟨(k, c), hmem, rfl⟩
    obtain ⟨j, hj, _⟩ := positional_lt 0 _ h k this
    subst hj
    simp only
    have : ¬ ((j : Int) < 0) := by omega
    simp [this]
  | dict => simp
  | obj c => simp

mutual
  theorem lookup_sub (par : Option Nat) (p : List Key) : (t : Tree) → t.okAt par p = true → t.shapeOk = true →
      ∀ s ∈ t.subnodes, ∃ rest, s.pathOf = p ++ rest ∧ t.query rest = some s
    | .leaf _, _, _, s, hs => by simp [Tree.subnodes] at hs
    | .node m its, hok, hsh, s, hs => by
      rw [okAt_node] at hok
      simp only [Tree.shapeOk, Bool.and_eq_true] at hsh
      simp only [Tree.subnodes, List.mem_cons] at hs
      rcases hs with rfl | hs
      · exact ⟨[], by simp [Tree.pathOf, hok.1.2], by simp [Tree.query]⟩
      · obtain ⟨k, c, rest, hmem, hpath, hq⟩ := lookup_items m.id p its hok.2 hsh.2 s hs
        refine ⟨k :: rest, by simpa using hpath, ?_⟩
        simp only [Tree.query]
        rw [normKey_id m its hsh.1 k c hmem]
        rw [queryItems_mem k c rest its (keysOk_nodup m.kind its hsh.1) hmem]
        exact hq
  theorem lookup_items (h : Nat) (p : List Key) : (its : Items) → okItems h p its = true → shapeOkItems its = true →
      ∀ s ∈ subnodesItems its, ∃ k c rest, (k, c) ∈ its ∧ s.pathOf = p ++ [k] ++ rest ∧ c.query rest = some s
    | [], _, _, s, hs => by simp [subnodesItems] at hs
    | (k, c) :: r, hok, hsh, s, hs => by
      rw [okItems_cons] at hok
      simp only [shapeOkItems, Bool.and_eq_true] at hsh
      simp only [subnodesItems, List.mem_append] at hs
      rcases hs with hs | hs
      · have hc : c.okAt (some h) (p ++ [k]) = true := by rw [← okSub_iff_okAt]; exact hok.1
        obtain ⟨rest, hp, hq⟩ := lookup_sub (some h) (p ++ [k]) c hc hsh.1 s hs
        exact ⟨k, c, rest, by simp, hp, hq⟩
      · obtain ⟨k', c', rest, hmem, hp, hq⟩ := lookup_items h p r hok.2 hsh.2 s hs
        exact ⟨k', c', rest, by simp [hmem], hp, hq⟩
end

end Pg.Sym
