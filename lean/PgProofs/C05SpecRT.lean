/- The round trip of value-spec JSON, by mutual structural induction. -/
import PgProofs.C05SpecFacts
namespace Pg.C05

def flagsOK (f : VFlags) : Bool :=
  match f.default with
  | none => true
  | some d => plainOK d

def optPlainOK : Option Tree → Bool
  | none => true
  | some t => plainOK t

mutual
  /-- Well-formed spec states: defaults / enum values / metadata are plain encodable values, and the
  derived bits are what the constructors compute (`Any` is noneable, an `Enum` is noneable iff None
  is among its values, a fixed tuple has elements, a generated Dict default is not stored). -/
  def VSOK : VS → Bool
    | .any f => f.noneable && flagsOK f
    | .bool f => flagsOK f
    | .int _ _ f => flagsOK f
    | .float _ _ f => flagsOK f
    | .str _ f => flagsOK f
    | .enum vals f => plainOK (.list vals) && (f.noneable == vals.any isNoneLeaf) && flagsOK f
    | .list e _ _ f => VSOK e && flagsOK f
    | .tupleFixed es f => !es.isEmpty && VSOKL es && flagsOK f
    | .tupleVar e _ _ f => VSOK e && flagsOK f
    | .dict none ex f => (ex == f.default.isSome) && flagsOK f
    | .dict (some sc) ex f => schemaOK sc && (ex == f.default.isSome) && flagsOK f
    | .obj _ f => flagsOK f
    | .type _ _ _ _ => true
    | .union cs f => VSOKL cs && flagsOK f
    | .callable args none f => VSOKL args && flagsOK f
    | .callable args (some r) f => VSOKL args && VSOK r && flagsOK f
  def VSOKL : List VS → Bool
    | [] => true
    | s :: ss => VSOK s && VSOKL ss
  def fieldOK : VField → Bool
    | .mk _ v _ md => VSOK v && optPlainOK md
  def fieldsOK : List VField → Bool
    | [] => true
    | f :: fs => fieldOK f && fieldsOK fs
  def schemaOK : VSchema → Bool
    | .mk fs _ _ md => fieldsOK fs && optPlainOK md
end

def specsU : List VS → List U
  | [] => []
  | s :: ss => .spec s :: specsU ss

def fieldsU : List VField → List U
  | [] => []
  | f :: fs => .field f :: fieldsU fs

theorem uSpecs_specsU : ∀ ss, uSpecs (specsU ss) = some ss
  | [] => rfl
  | s :: ss => by simp [specsU, uSpecs, uSpecs_specsU ss]

theorem uFields_fieldsU : ∀ fs, uFields (fieldsU fs) = some fs
  | [] => rfl
  | f :: fs => by simp [fieldsU, uFields, uFields_fieldsU fs]

/-- An array none of whose decoded elements is the tuple marker decodes element-wise. -/
theorem decodeU_arr (xs : List JV) (us : List U) (h : decodeUL xs = .ok us)
    (hm : ∀ u ∈ us, uIsMarker u = false) : decodeU (.arr xs) = .ok (.arr us) := by
  simp only [decodeU, h]
  cases us with
  | nil => rfl
  | cons u r =>
    cases r with
    | nil => simp [finishArr, hm u (List.mem_cons_self ..)]
    | cons v r => rfl

theorem specsU_noMarker : ∀ ss, ∀ u ∈ specsU ss, uIsMarker u = false
  | [], u, h => by cases h
  | s :: ss, u, h => by
    rcases List.mem_cons.mp h with rfl | h
    · rfl
    · exact specsU_noMarker ss u h

theorem fieldsU_noMarker : ∀ fs, ∀ u ∈ fieldsU fs, uIsMarker u = false
  | [], u, h => by cases h
  | f :: fs, u, h => by
    rcases List.mem_cons.mp h with rfl | h
    · rfl
    · exact fieldsU_noMarker fs u h

theorem decodeU_obj (kvs : List (Key × JV)) : decodeU (.obj kvs) = finishObj kvs (decodeUKV kvs) := by
  rw [decodeU]
theorem decodeU_str (x : Str) : decodeU (.str x) = .ok (.leaf (.str x)) := by rw [decodeU]
theorem decodeU_int (x : Int) : decodeU (.int x) = .ok (.leaf (.int x)) := by rw [decodeU]
theorem decodeU_bool (x : Bool) : decodeU (.bool x) = .ok (.leaf (.bool x)) := by rw [decodeU]
theorem decodeU_float (x : Str) : decodeU (.float x) = .ok (.leaf (.float x)) := by rw [decodeU]

theorem class_rt (c : Str) : decodeU (classJ c) = .ok (.cls c) := by
  simp (decide := true) [classJ, decodeU, finishObj, decodeUKV, jlookup, buildU_Class, buildClass, ulookup, List.filter]

theorem key_rt (k : VKey) : decodeU (keyToJson k) = .ok (.key k) := by
  cases k with
  | const t =>
    simp (decide := true) [keyToJson, decodeU, finishObj, decodeUKV, jlookup, buildU_ConstKey, buildConstKey, ulookup, List.filter]
  | strKey r =>
    cases r <;>
      simp (decide := true) [keyToJson, oE, decodeU, finishObj, decodeUKV, jlookup, buildU_StrKey, buildStrKey, gOptStr, ulookup,
        List.filter, Except.map]
  | listKey mn mx =>
    cases mx <;>
      simp (decide := true) [keyToJson, oE, decodeU, finishObj, decodeUKV, jlookup, buildU_ListKey, buildListKey, gOptInt, ulookup,
        List.filter]
  | tupleKey i =>
    cases i <;>
      simp (decide := true) [keyToJson, oE, decodeU, finishObj, decodeUKV, jlookup, buildU_TupleKey, buildTupleKey, gOptInt, ulookup,
        List.filter, Except.map]

end Pg.C05

namespace Pg.C05

attribute [local simp] vsToJson vsToJsonL fieldToJson fieldsToJson schemaToJson dE oE fE decodeU_obj decodeU_str
  decodeU_int decodeU_bool decodeU_float finishObj decodeUKV
  jlookup keysIn gFlags gPlain gBool gOptInt gOptFloat gOptStr gSpec gOptSpec gCls ulookup List.filter
  class_rt key_rt uSpecs_specsU uFields_fieldsU Except.map

mutual
  theorem vs_rt (env : ClassEnv) : (s : VS) → VSOK s = true → decodeU (vsToJson env s) = .ok (.spec s)
    | .any f, h => by
      simp only [VSOK, Bool.and_eq_true] at h
      obtain ⟨n, d, fz⟩ := f
      have hn : n = true := h.1
      subst hn
      cases d with
      | none => cases fz <;> simp (decide := true) [buildU_Any, buildAny]
      | some d =>
        obtain ⟨h1, h2⟩ := dec_plain env d h.2
        cases fz <;> simp (decide := true) [buildU_Any, buildAny, h1, h2]
    | .bool f, h => by
      simp only [VSOK] at h
      obtain ⟨n, d, fz⟩ := f
      cases d with
      | none => cases n <;> cases fz <;> simp (decide := true) [buildU_Bool, buildBool]
      | some d =>
        obtain ⟨h1, h2⟩ := dec_plain env d h
        cases n <;> cases fz <;> simp (decide := true) [buildU_Bool, buildBool, h1, h2]
    | .int lo hi f, h => by
      simp only [VSOK] at h
      obtain ⟨n, d, fz⟩ := f
      cases d with
      | none => cases lo <;> cases hi <;> cases n <;> cases fz <;> simp (decide := true) [buildU_Int, buildInt]
      | some d =>
        obtain ⟨h1, h2⟩ := dec_plain env d h
        cases lo <;> cases hi <;> cases n <;> cases fz <;> simp (decide := true) [buildU_Int, buildInt, h1, h2]
    | .float lo hi f, h => by
      simp only [VSOK] at h
      obtain ⟨n, d, fz⟩ := f
      cases d with
      | none => cases lo <;> cases hi <;> cases n <;> cases fz <;> simp (decide := true) [buildU_Float, buildFloat]
      | some d =>
        obtain ⟨h1, h2⟩ := dec_plain env d h
        cases lo <;> cases hi <;> cases n <;> cases fz <;> simp (decide := true) [buildU_Float, buildFloat, h1, h2]
    | .str r f, h => by
      simp only [VSOK] at h
      obtain ⟨n, d, fz⟩ := f
      cases d with
      | none => cases r <;> cases n <;> cases fz <;> simp (decide := true) [buildU_Str, buildStr]
      | some d =>
        obtain ⟨h1, h2⟩ := dec_plain env d h
        cases r <;> cases n <;> cases fz <;> simp (decide := true) [buildU_Str, buildStr, h1, h2]
    | .enum vals f, h => by
      simp only [VSOK, Bool.and_eq_true, beq_iff_eq] at h
      obtain ⟨n, d, fz⟩ := f
      have hn : n = vals.any isNoneLeaf := h.1.2
      subst hn
      have ha := (dec_plain env (.list vals) h.1.1).1
      simp only [toJson, uOf] at ha
      have hvl : plainOKL vals = true := by
        have := h.1.1; simp only [plainOK, Bool.and_eq_true] at this; exact this.2
      have hl := (dec_plainL env vals hvl).2
      cases d with
      | none => cases fz <;> simp (decide := true) [buildU_Enum, buildEnum, ha, hl]
      | some d =>
        obtain ⟨h1, h2⟩ := dec_plain env d h.2
        cases fz <;> simp (decide := true) [buildU_Enum, buildEnum, ha, hl, h1, h2]
    | .list e mn mx f, h => by
      simp only [VSOK, Bool.and_eq_true] at h
      have ih := vs_rt env e h.1
      obtain ⟨n, d, fz⟩ := f
      cases d with
      | none => cases mx <;> cases n <;> cases fz <;> simp (decide := true) [buildU_List, buildList, ih]
      | some d =>
        obtain ⟨h1, h2⟩ := dec_plain env d h.2
        cases mx <;> cases n <;> cases fz <;>
          simp (decide := true) [buildU_List, buildList, ih, h1, h2]
    | .tupleFixed es f, h => by
      simp only [VSOK, Bool.and_eq_true, Bool.not_eq_true', List.isEmpty_eq_false_iff] at h
      have ihl := vs_rtL env es h.1.2
      have harr := decodeU_arr _ _ ihl (specsU_noMarker es)
      obtain ⟨n, d, fz⟩ := f
      cases es with
      | nil => exact absurd rfl h.1.1
      | cons e es =>
        cases d with
        | none =>
          cases n <;> cases fz <;>
            simp (decide := true) [buildU_Tuple, buildTuple, harr, specsU, uSpecs, -vsToJsonL]
        | some d =>
          obtain ⟨h1, h2⟩ := dec_plain env d h.2
          cases n <;> cases fz <;>
            simp (decide := true) [buildU_Tuple, buildTuple, harr, specsU, uSpecs, h1, h2, -vsToJsonL]
    | .tupleVar e mn mx f, h => by
      simp only [VSOK, Bool.and_eq_true] at h
      have ih := vs_rt env e h.1
      obtain ⟨n, d, fz⟩ := f
      cases d with
      | none => cases mx <;> cases n <;> cases fz <;> simp (decide := true) [buildU_Tuple, buildTuple, ih]
      | some d =>
        obtain ⟨h1, h2⟩ := dec_plain env d h.2
        cases mx <;> cases n <;> cases fz <;>
          simp (decide := true) [buildU_Tuple, buildTuple, ih, h1, h2]
    | .dict none ex f, h => by
      simp only [VSOK, Bool.and_eq_true, beq_iff_eq] at h
      obtain ⟨n, d, fz⟩ := f
      have hex : ex = d.isSome := h.1
      subst hex
      cases d with
      | none => cases n <;> cases fz <;> simp (decide := true) [buildU_Dict, buildDict]
      | some d =>
        obtain ⟨h1, h2⟩ := dec_plain env d h.2
        cases n <;> cases fz <;> simp (decide := true) [buildU_Dict, buildDict, h1, h2]
    | .dict (some sc) ex f, h => by
      simp only [VSOK, Bool.and_eq_true, beq_iff_eq] at h
      have ih := schema_rt env sc h.1.1
      obtain ⟨n, d, fz⟩ := f
      have hex : ex = d.isSome := h.1.2
      subst hex
      cases d with
      | none => cases n <;> cases fz <;> simp (decide := true) [buildU_Dict, buildDict, ih]
      | some d =>
        obtain ⟨h1, h2⟩ := dec_plain env d h.2
        cases n <;> cases fz <;> simp (decide := true) [buildU_Dict, buildDict, ih, h1, h2]
    | .obj c f, h => by
      simp only [VSOK] at h
      obtain ⟨n, d, fz⟩ := f
      cases d with
      | none => cases n <;> cases fz <;> simp (decide := true) [buildU_Object, buildObject]
      | some d =>
        obtain ⟨h1, h2⟩ := dec_plain env d h
        cases n <;> cases fz <;> simp (decide := true) [buildU_Object, buildObject, h1, h2]
    | .type c d n fz, _ => by
      cases d <;> cases n <;> cases fz <;> simp (decide := true) [buildU_Type, buildType]
    | .union cs f, h => by
      simp only [VSOK, Bool.and_eq_true] at h
      have ihl := vs_rtL env cs h.1
      have harr := decodeU_arr _ _ ihl (specsU_noMarker cs)
      obtain ⟨n, d, fz⟩ := f
      cases d with
      | none => cases n <;> cases fz <;> simp (decide := true) [buildU_Union, buildUnion, harr, -vsToJsonL]
      | some d =>
        obtain ⟨h1, h2⟩ := dec_plain env d h.2
        cases n <;> cases fz <;>
          simp (decide := true) [buildU_Union, buildUnion, harr, h1, h2, -vsToJsonL]
    | .callable args none f, h => by
      simp only [VSOK, Bool.and_eq_true] at h
      have ihl := vs_rtL env args h.1
      have harr := decodeU_arr _ _ ihl (specsU_noMarker args)
      obtain ⟨n, d, fz⟩ := f
      cases args with
      | nil =>
        cases d with
        | none => cases n <;> cases fz <;> simp (decide := true) [buildU_Callable, buildCallable]
        | some d =>
          obtain ⟨h1, h2⟩ := dec_plain env d h.2
          cases n <;> cases fz <;> simp (decide := true) [buildU_Callable, buildCallable, h1, h2]
      | cons a args =>
        cases d with
        | none =>
          cases n <;> cases fz <;>
            simp (decide := true) [buildU_Callable, buildCallable, harr, -vsToJsonL]
        | some d =>
          obtain ⟨h1, h2⟩ := dec_plain env d h.2
          cases n <;> cases fz <;>
            simp (decide := true) [buildU_Callable, buildCallable, harr, h1, h2, -vsToJsonL]
    | .callable args (some r) f, h => by
      simp only [VSOK, Bool.and_eq_true] at h
      have ihl := vs_rtL env args h.1.1
      have ihr := vs_rt env r h.1.2
      have harr := decodeU_arr _ _ ihl (specsU_noMarker args)
      obtain ⟨n, d, fz⟩ := f
      cases args with
      | nil =>
        cases d with
        | none => cases n <;> cases fz <;> simp (decide := true) [buildU_Callable, buildCallable, ihr]
        | some d =>
          obtain ⟨h1, h2⟩ := dec_plain env d h.2
          cases n <;> cases fz <;> simp (decide := true) [buildU_Callable, buildCallable, ihr, h1, h2]
      | cons a args =>
        cases d with
        | none =>
          cases n <;> cases fz <;>
            simp (decide := true) [buildU_Callable, buildCallable, harr, ihr, -vsToJsonL]
        | some d =>
          obtain ⟨h1, h2⟩ := dec_plain env d h.2
          cases n <;> cases fz <;>
            simp (decide := true) [buildU_Callable, buildCallable, harr, ihr, h1, h2, -vsToJsonL]
  theorem vs_rtL (env : ClassEnv) : (ss : List VS) → VSOKL ss = true →
      decodeUL (vsToJsonL env ss) = .ok (specsU ss)
    | [], _ => rfl
    | s :: ss, h => by
      simp only [VSOKL, Bool.and_eq_true] at h
      simp only [vsToJsonL, decodeUL, vs_rt env s h.1, vs_rtL env ss h.2, specsU]
  theorem field_rt (env : ClassEnv) : (f : VField) → fieldOK f = true →
      decodeU (fieldToJson env f) = .ok (.field f)
    | .mk k v d md, h => by
      simp only [fieldOK, Bool.and_eq_true] at h
      have ih := vs_rt env v h.1
      cases md with
      | none => cases d <;> simp (decide := true) [buildU_Field, buildField, ih]
      | some m =>
        obtain ⟨h1, h2⟩ := dec_plain env m h.2
        cases d <;> simp (decide := true) [buildU_Field, buildField, ih, h1, h2]
  theorem fields_rt (env : ClassEnv) : (fs : List VField) → fieldsOK fs = true →
      decodeUL (fieldsToJson env fs) = .ok (fieldsU fs)
    | [], _ => rfl
    | f :: fs, h => by
      simp only [fieldsOK, Bool.and_eq_true] at h
      simp only [fieldsToJson, decodeUL, field_rt env f h.1, fields_rt env fs h.2, fieldsU]
  theorem schema_rt (env : ClassEnv) : (sc : VSchema) → schemaOK sc = true →
      decodeU (schemaToJson env sc) = .ok (.schema sc)
    | .mk fs name anc md, h => by
      simp only [schemaOK, Bool.and_eq_true] at h
      have ihl := fields_rt env fs h.1
      have harr := decodeU_arr _ _ ihl (fieldsU_noMarker fs)
      cases md with
      | none =>
        cases name <;> cases anc <;>
          simp (decide := true) [buildU_Schema, buildSchema, harr, -fieldsToJson]
      | some m =>
        obtain ⟨h1, h2⟩ := dec_plain env m h.2
        cases name <;> cases anc <;>
          simp (decide := true) [buildU_Schema, buildSchema, harr, h1, h2, -fieldsToJson]
end

end Pg.C05
